import Bnum.Drive.All

open Bnum.Drive

def answer (line : String) : String :=
  match (line.trimAscii.toString.splitOn " ").filter (· ≠ "") with
  | op :: cfg :: args =>
    let raw := All.rawHandlers.findSome? (fun h => h op (cfg :: args))
    match raw with
    | some (mo, sp) => mo ++ "\t" ++ sp
    | none =>
      match parseCfg cfg with
      | none => "bad-cfg"
      | some c =>
        match All.handlers.findSome? (fun h => h c op args) with
        | some (mo, sp) => mo ++ "\t" ++ sp
        | none => "bad-op"
  | _ => "bad-line"

partial def loop (h : IO.FS.Stream) (out : IO.FS.Stream) : IO Unit := do
  let line ← h.getLine
  if line.isEmpty then return ()
  out.putStrLn (answer line)
  loop h out

def main : IO Unit := do
  let out ← IO.getStdout
  loop (← IO.getStdin) out
  out.flush
