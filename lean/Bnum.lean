import Bnum.Model.Basic
