/-
  Bnum.Spec.NumConv — what `FromPrimitive` / `ToPrimitive` / `AsPrimitive` (C19) must return, on
  exact integers.  A type is `(signed, m)` with `m = 2^BITS`; values are patterns `p < m`; floats
  are bit patterns decoded with Spec/Float.lean.  Never calls the model; import-free.
-/
import Bnum.Spec.Cast
import Bnum.Spec.Float
namespace Bnum.Spec.NumC

/-- `Dst::from_<prim>(p)` and `src.to_<prim>()`: `Some` of the same number iff it is representable
    in the destination type, else `None` (this is `Spec.tryConv`, restated so that C19 does not
    depend on the C13 wording) -/
def conv (srcSigned : Bool) (mSrc p : Nat) (dstSigned : Bool) (mDst : Nat) : Option Nat :=
  let v : Int := if srcSigned then toInt mSrc p else (p : Int)
  if rep dstSigned mDst v then some (wrapU mDst v) else none

/-- what the property says about `from_f32` / `from_f64` -/
inductive FloatAns where
  /-- must be `Some(pattern)` -/
  | some (pat : Nat)
  /-- must be `None` -/
  | none
  /-- left open by the property (negative float that truncates to zero, unsigned target) -/
  | any
  deriving Repr, DecidableEq

/-- the truncation toward zero of a finite float, as an exact integer -/
def truncFloat (F : Fmt) (x : Nat) : Int :=
  let (mm, e) := decodeFinite F x
  let t : Int := truncMag mm e
  if signOf F x then -t else t

/-- is the finite float `< 0` (so `-0.0` is not) -/
def floatNegative (F : Fmt) (x : Nat) : Bool := signOf F x && (decodeFinite F x).1 != 0

/-- `from_f32` / `from_f64` into a type `(signed, m)`:
    NaN, ±∞ ↦ `None`; otherwise with `t = trunc(f)`: `t` out of range ↦ `None`; `t` in range and
    (signed target or `f ≥ 0`) ↦ `Some(t)`; the remaining case (unsigned target, `-1 < f < 0`) is
    not determined by the property. -/
def fromFloat (F : Fmt) (signed : Bool) (m : Nat) (x : Nat) : FloatAns :=
  if isNaN F x || isInf F x then .none
  else
    let t := truncFloat F x
    if !rep signed m t then .none
    else if !signed && floatNegative F x then .any
    else .some (wrapU m t)

/-- `to_f32` / `to_f64`: always `Some` of the nearest float (C14's `intToFloat`) -/
def toFloat (F : Fmt) (z : Int) : Nat := intToFloat F z

end Bnum.Spec.NumC
