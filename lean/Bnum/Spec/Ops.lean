/-
  Bnum.Spec.Ops — what the operators must answer, on exact integers only (never calls the model).
  `m = 2^BITS`, `signed` selects the representable range, `dbg` = `cfg(debug_assertions)`.
    + - * (and unary -) : the exact result if representable; otherwise panic (debug) / the result
                          reduced mod `m` (release)
    / %                 : truncated quotient / remainder; panic for a zero divisor and for `MIN / -1`
    << >>               : amount `k` (an exact integer, whatever its type): in debug builds panic iff
                          `k < 0 ∨ k ≥ BITS`; in release builds the amount is `k mod 2^32` first (the
                          `as u32` truncation), then `Spec.Shift.effAmount` (below BITS: itself; at a
                          power-of-two width: `mod BITS`; otherwise the property leaves the result
                          open).  bnum-typed amounts outside `0 … 2^32-1` panic in both modes.
    Sum / Product       : the left fold of + / * from 0 / 1 with the panic / wrap rule at every step
-/
import Bnum.Spec.Arith
import Bnum.Spec.Div
import Bnum.Spec.Shift
namespace Bnum.Spec.Ops

/-- the value denoted by a pattern -/
def valOfPat (signed : Bool) (m : Nat) (p : Nat) : Int := if signed then toInt m p else (p : Int)

/-- `+ - *` and unary `-` with exact result `z`: `none` = panic -/
def arith (dbg signed : Bool) (m : Nat) (z : Int) : Option Nat :=
  if rep signed m z then some (wrapU m z) else if dbg then none else some (wrapU m z)

/-- `/` : `none` = panic -/
def div (signed : Bool) (m : Nat) (a b : Int) : Option Nat :=
  if b = 0 then none else if divOverflow signed m a b then none else some (wrapU m (Int.tdiv a b))
/-- `%` -/
def rem (signed : Bool) (m : Nat) (a b : Int) : Option Nat :=
  if b = 0 then none else if divOverflow signed m a b then none else some (wrapU m (Int.tmod a b))

/-- answer of a shift: a panic, a determined pattern, or left open by the property -/
inductive Ans where
  | panic
  | any
  | val (v : Nat)
  deriving DecidableEq, Repr

/-- `left`: `<<` else `>>`; `alwaysTry`: the amount is bnum-typed (range check in both build modes);
    `z` the exact value of the operand, `k` the exact value of the amount -/
def shift (left dbg alwaysTry : Bool) (bits : Nat) (z k : Int) : Ans :=
  let inU32 : Bool := decide (0 ≤ k) && decide (k < 2 ^ 32)
  let f (s : Nat) : Nat := if left then Shift.shlVal bits z s else Shift.shrVal bits z s
  if (dbg || alwaysTry) && !inU32 then .panic
  else
    let s := (k % 2 ^ 32).toNat
    if dbg then (if s < bits then .val (f s) else .panic)
    else
      match Shift.effAmount bits s with
      | some e => .val (f e)
      | none => .any

/-- left fold of an exact binary operation with the operator overflow rule at every step -/
def fold (dbg signed : Bool) (m : Nat) (op : Int → Int → Int) : Int → List Int → Option Nat
  | acc, [] => some (wrapU m acc)
  | acc, b :: bs =>
    let z := op acc b
    if rep signed m z then fold dbg signed m op z bs
    else if dbg then none
    else fold dbg signed m op (valOfPat signed m (wrapU m z)) bs

def sum (dbg signed : Bool) (m : Nat) (xs : List Int) : Option Nat := fold dbg signed m (· + ·) 0 xs
def product (dbg signed : Bool) (m : Nat) (xs : List Int) : Option Nat := fold dbg signed m (· * ·) 1 xs

/-- `BUint + digit`: determined only when the exact sum is representable -/
def addDigit (m : Nat) (a d : Nat) : Option Nat := if a + d < m then some (a + d) else none
/-- `BUint / digit`, `BUint % digit`: `none` = panic (zero divisor) -/
def divDigit (a d : Nat) : Option Nat := if d = 0 then none else some (a / d)
def remDigit (a d : Nat) : Option Nat := if d = 0 then none else some (a % d)

end Bnum.Spec.Ops
