/-
  Bnum.Spec.Bits — specifications of the bit-level operations on the exact `W`-bit pattern, given as
  a natural number `v < 2^W` (`W = BITS`).  Independent of digits and of the model (core `Nat` only).
-/
import Bnum.Model.Basic
namespace Bnum.Spec

/-- number of set bits among the low `W` bits of `v` (repeated `/ 2`) -/
def popcount : Nat → Nat → Nat
  | 0, _ => 0
  | W + 1, v => v % 2 + popcount W (v / 2)

/-- bit length: `0` for `0`, else `⌊log2 v⌋ + 1` -/
def bitLen (v : Nat) : Nat := if v = 0 then 0 else Nat.log2 v + 1

def leadingZeros (W v : Nat) : Nat := W - bitLen v

/-- number of trailing zero bits, `W` for `v = 0` (repeated `/ 2`, at most `W` times) -/
def trailingZeros : Nat → Nat → Nat
  | 0, _ => 0
  | W + 1, v => if v % 2 = 1 then 0 else 1 + trailingZeros W (v / 2)

/-- `W`-bit complement -/
def compl (W v : Nat) : Nat := 2 ^ W - 1 - v
def countZeros (W v : Nat) : Nat := W - popcount W v
def leadingOnes (W v : Nat) : Nat := leadingZeros W (compl W v)
def trailingOnes (W v : Nat) : Nat := trailingZeros W (compl W v)

/-- bit `i` of `v` -/
def bit (v i : Nat) : Bool := v / 2 ^ i % 2 = 1
/-- `v` with bit `i` replaced by `b` -/
def setBit (v i : Nat) (b : Bool) : Nat := v - (v / 2 ^ i % 2) * 2 ^ i + b.toNat * 2 ^ i

def isPow2 (v : Nat) : Bool := v ≠ 0 ∧ 2 ^ Nat.log2 v = v
/-- least power of two `≥ v` -/
def nextPow2 (v : Nat) : Nat := if v ≤ 1 then 1 else 2 ^ bitLen (v - 1)
def checkedNextPow2 (W v : Nat) : Option Nat :=
  if nextPow2 v < 2 ^ W then some (nextPow2 v) else none
def wrappingNextPow2 (W v : Nat) : Nat := if nextPow2 v < 2 ^ W then nextPow2 v else 0

/-- the `W`-bit pattern read backwards: the lowest bit goes to position `W-1`, the remaining bits are
    the reversal of the upper `W-1` bits -/
def reverseBits : Nat → Nat → Nat
  | 0, _ => 0
  | W + 1, v => (v % 2) * 2 ^ W + reverseBits W (v / 2)

/-- `nb` bytes in reverse order: the lowest byte goes to position `nb-1` -/
def swapBytesAux : Nat → Nat → Nat
  | 0, _ => 0
  | nb + 1, v => (v % 256) * 256 ^ nb + swapBytesAux nb (v / 256)
/-- the `W/8` bytes of the pattern in reverse order -/
def swapBytes (W v : Nat) : Nat := swapBytesAux (W / 8) v

/-- sign of an exact integer as an exact integer -/
def signum (z : Int) : Int := if z < 0 then -1 else if z = 0 then 0 else 1
/-- mathematical clamp (for `lo ≤ hi`) -/
def clampV (z lo hi : Int) : Int := if z < lo then lo else if hi < z then hi else z

end Bnum.Spec
