/-
  Bnum.Spec.Pow — exact specifications of powers and integer logarithms on `Nat` / `Int`,
  independent of digits and of the model.

  The mathematical truth is `Spec.overflowing signed m (a ^ e)` etc. of Spec/Arith.lean and
  `ilog b a` = the greatest `k` with `b ^ k ≤ a`.  Because the exponent ranges over all of `u32`,
  `a ^ e` itself cannot be computed; the executable forms below obtain the same answers with an
  early cut-off (`powCapped`: the running product is compared with the bound after every
  multiplication, so at most `log₂ bound + 1` multiplications happen) and with modular exponentiation
  (`powMod`).  Lemmas/Pow.lean proves `powCapped_gt_iff` (`cap < powCapped cap a e ↔ cap < a ^ e`),
  `powMod_eq` (`powMod m a e = a ^ e % m`) and `ilog_eq_log` (`ilog b a = Nat.log b a`).
-/
import Bnum.Spec.Arith
namespace Bnum.Spec

/-- `a ^ e % m` by binary exponentiation on the exponent (most significant bit first) -/
def powMod (m a e : Nat) : Nat :=
  if h : e = 0 then 1 % m
  else
    let r := powMod m a (e / 2)
    let s := r * r % m
    if e % 2 = 1 then s * a % m else s
termination_by e
decreasing_by omega

/-- loop of `powCapped`: `acc * a ^ e`, abandoned as soon as `acc` exceeds `cap` -/
def powCappedLoop (cap a : Nat) : Nat → Nat → Nat
  | 0, acc => acc
  | e + 1, acc => if cap < acc then acc else powCappedLoop cap a e (acc * a)

/-- a number that exceeds `cap` exactly when `a ^ e` does (and equals `a ^ e` when it does not) -/
def powCapped (cap a e : Nat) : Nat :=
  if a = 0 then (if e = 0 then 1 else 0)
  else if a = 1 then 1
  else powCappedLoop cap a e 1

/-- is the exact power `a ^ e` outside the range of the type? -/
def powOverflows (signed : Bool) (m : Nat) (a : Int) (e : Nat) : Bool :=
  if signed then
    -- negative result: `-(m/2) ≤ -|a|^e`; non-negative result: `|a|^e ≤ m/2 - 1`
    if a < 0 ∧ e % 2 = 1 then decide (m / 2 < powCapped (m / 2) a.natAbs e)
    else decide (m / 2 - 1 < powCapped (m / 2 - 1) a.natAbs e)
  else decide (m - 1 < powCapped (m - 1) a.natAbs e)

/-- pattern of `a ^ e` reduced modulo `m` -/
def powWrapped (m : Nat) (a : Int) (e : Nat) : Nat := powMod m (wrapU m a) e

/-- `overflowing_pow` -/
def overflowingPow (signed : Bool) (m : Nat) (a : Int) (e : Nat) : Nat × Bool :=
  (powWrapped m a e, powOverflows signed m a e)

/-- `checked_pow` (`none` is also the panic of `strict_pow` and of `pow` in debug builds) -/
def checkedPow (signed : Bool) (m : Nat) (a : Int) (e : Nat) : Option Nat :=
  if powOverflows signed m a e then none else some (powWrapped m a e)

/-- `saturating_pow`: the bound on the side of the exact power -/
def saturatingPow (signed : Bool) (m : Nat) (a : Int) (e : Nat) : Nat :=
  if powOverflows signed m a e then
    if signed then (if a < 0 ∧ e % 2 = 1 then m / 2 else m / 2 - 1) else m - 1
  else powWrapped m a e

/-- greatest `k` with `b ^ k ≤ a` (`0` when there is none or when `b < 2`) -/
def ilog (b a : Nat) : Nat :=
  if h : b ≤ a ∧ 2 ≤ b then ilog b (a / b) + 1 else 0
termination_by a
decreasing_by
  have : 0 < a := by omega
  exact Nat.div_lt_self this (by omega)

/-- `checked_ilog`: `None` exactly when `self ≤ 0` or `base < 2` -/
def checkedIlog (a b : Int) : Option Nat :=
  if a ≤ 0 ∨ b < 2 then none else some (ilog b.toNat a.toNat)

end Bnum.Spec
