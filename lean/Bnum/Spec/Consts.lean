/-
  Bnum.Spec.Consts — the advertised values of the associated constants (exact integers; does not
  call the model).  `W` = the advertised bit width (digit bits × N), `m = 2^W`.
-/
import Bnum.Spec.Arith
namespace Bnum.Spec.Consts

/-- `BITS = N × digit bits` -/
def bits (w n : Nat) : Nat := w * n
/-- `BYTES = BITS / 8` -/
def bytes (w n : Nat) : Nat := bits w n / 8

/-- the literal a numeral name stands for -/
def numeral : String → Option Nat
  | "ONE" => some 1 | "TWO" => some 2 | "THREE" => some 3 | "FOUR" => some 4 | "FIVE" => some 5
  | "SIX" => some 6 | "SEVEN" => some 7 | "EIGHT" => some 8 | "NINE" => some 9 | "TEN" => some 10
  | _ => none

/-- the literal a negative-numeral name stands for (the constant denotes its negation) -/
def negNumeral : String → Option Nat
  | "NEG_ONE" => some 1 | "NEG_TWO" => some 2 | "NEG_THREE" => some 3 | "NEG_FOUR" => some 4
  | "NEG_FIVE" => some 5 | "NEG_SIX" => some 6 | "NEG_SEVEN" => some 7 | "NEG_EIGHT" => some 8
  | "NEG_NINE" => some 9 | "NEG_TEN" => some 10
  | _ => none

/-- the integer that the constant `name` of a `signed`/unsigned type of modulus `m` denotes;
    `none` for a name the type does not have (`NEG_*` exist for signed types only) -/
def value (signed : Bool) (m : Nat) (name : String) : Option Int :=
  if name = "MIN" then some (Spec.minV signed m)
  else if name = "MAX" then some (Spec.maxV signed m)
  else if name = "ZERO" then some 0
  else match numeral name with
    | some k => some (k : Int)
    | none => if signed then (negNumeral name).map fun k => -(k : Int) else none

/-- the constant exists (the value is representable in the type) -/
def defined (signed : Bool) (m : Nat) (name : String) : Bool :=
  match value signed m name with
  | some z => Spec.rep signed m z
  | none => false

/-- what an alias name advertises: `U<bits>` / `I<bits>` is an unsigned / signed integer of `bits` bits,
    built from `bits / 64` digits of 64 bits.  Parsed from the characters of the name itself. -/
def aliasAdvertised (name : String) : Option (Bool × Nat × Nat) :=
  match name.toList with
  | c :: ds =>
    let signed? := if c = 'U' then some false else if c = 'I' then some true else none
    let bits? := if ds.isEmpty then none else
      ds.foldl (fun acc d => do
        let a ← acc
        if '0' ≤ d ∧ d ≤ '9' then pure (a * 10 + (d.toNat - '0'.toNat)) else none) (some 0)
    match signed?, bits? with
    | some sg, some bits => some (sg, bits, bits / 64)
    | _, _ => none
  | [] => none

end Bnum.Spec.Consts
