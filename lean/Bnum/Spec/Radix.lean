/-
  Bnum.Spec.Radix — the integer-literal grammar and canonical numerals (C10, C11).
  Exact `Nat`/`Int` only; does not call the model.  Strings are byte lists.
-/
import Bnum.Model.Basic
namespace Bnum.Spec.Radix

/-- value of an ASCII alphanumeric byte as a digit (`0-9`, `a-z`, `A-Z`) -/
def charDigit (c : Nat) : Option Nat :=
  if 48 ≤ c ∧ c ≤ 57 then some (c - 48)
  else if 97 ≤ c ∧ c ≤ 122 then some (c - 87)
  else if 65 ≤ c ∧ c ≤ 90 then some (c - 55)
  else none

/-- the digits denoted by a string all of whose bytes are digits of radix `r` -/
def digitsOf (r : Nat) : List Nat → Option (List Nat)
  | [] => some []
  | c :: cs =>
    match charDigit c with
    | none => none
    | some d =>
      if d < r then
        match digitsOf r cs with
        | none => none
        | some ds => some (d :: ds)
      else none

/-- the part of the string after the optional sign, and whether the sign is `-` -/
def splitSign (signOk : Bool) : List Nat → Bool × List Nat
  | [] => (false, [])
  | c :: rest =>
    if c = 43 then (false, rest)
    else if c = 45 ∧ signOk = true then (true, rest)
    else (false, c :: rest)

/-- `Grammar r signOk s = some (neg, ds)`: `s` is an optional sign (`+`, or `-` when `signOk`)
    followed by one or more digits of radix `r` (most significant first) -/
def Grammar (r : Nat) (signOk : Bool) (s : List Nat) : Option (Bool × List Nat) :=
  let p := splitSign signOk s
  if p.2.isEmpty then none
  else
    match digitsOf r p.2 with
    | none => none
    | some ds => some (p.1, ds)

/-- the number denoted by a most-significant-first digit sequence -/
def valueOf (r : Nat) (ds : List Nat) : Nat := ds.foldl (fun a d => a * r + d) 0

/-- the number denoted by a least-significant-first digit sequence -/
def valueOfLE (r : Nat) : List Nat → Nat
  | [] => 0
  | d :: ds => d + r * valueOfLE r ds

/-- the denoted integer -/
def denote (r : Nat) (g : Bool × List Nat) : Int :=
  if g.1 then -(valueOf r g.2 : Int) else (valueOf r g.2 : Int)

/-- least-significant-first digits of `v` by repeated division (fuel `v` suffices for `r ≥ 2`) -/
def digitsAux (r : Nat) : Nat → Nat → List Nat
  | 0, _ => []
  | f + 1, v => if v = 0 then [] else v % r :: digitsAux r f (v / r)
/-- canonical little-endian digit sequence: no most-significant zeros, `[]` for zero -/
def digitsLE (r v : Nat) : List Nat := digitsAux r v v
/-- canonical numeral, least significant digit first: `[0]` for zero -/
def canonLE (r v : Nat) : List Nat := if v = 0 then [0] else digitsLE r v
/-- canonical numeral, most significant digit first -/
def canonBE (r v : Nat) : List Nat := (canonLE r v).reverse
/-- lowercase ASCII image of a digit `< 36` -/
def digitChar (d : Nat) : Nat := if d < 10 then 48 + d else 87 + d
/-- canonical lowercase string of an integer: `-` then the numeral of the magnitude -/
def canonStr (r : Nat) (z : Int) : List Nat :=
  if z < 0 then 45 :: (canonBE r z.natAbs).map digitChar else (canonBE r z.natAbs).map digitChar

/-- what a parse of `s` must answer -/
inductive Expect where
  | ok (z : Int)
  | empty | invalidDigit | posOverflow | negOverflow
  | anyErr
  deriving Repr, DecidableEq

/-- C10 for `from_str_radix` (`rep z` = representability in the target type; `m` = `2^BITS`) -/
def expectParse (r : Nat) (signed : Bool) (m : Nat) (s : List Nat) : Expect :=
  if s.isEmpty then .empty
  else
    match Grammar r signed s with
    | some g =>
      let z := denote r g
      let rep := if signed then decide (repS m z) else decide (repU m z)
      if rep then .ok z else if g.1 then .negOverflow else .posOverflow
    | none =>
      let body := (splitSign signed s).2
      if body.isEmpty then .invalidDigit          -- lone sign
      else if r ^ body.length ≤ m then .invalidDigit
      else .anyErr                                 -- over-long malformed: the kind is left open

/-- C10 for `from_radix_be` / `from_radix_le` (digits most significant first) -/
def expectDigits (r m : Nat) (ds : List Nat) : Option Nat :=
  if ds.all (· < r) ∧ valueOf r ds < m then some (valueOf r ds) else none

end Bnum.Spec.Radix
