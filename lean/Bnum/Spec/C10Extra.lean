/-
  Bnum.Spec.C10Extra — an independent statement of "the byte string is well-formed UTF-8"
  (used by the C10 spec answer of `parse_bytes` with an out-of-range radix, where the outcome of
  `core::str::from_utf8` is the only thing that decides between `None` and the radix panic).

  Unlike `Prim.utf8Valid` (Model/Radix.lean), which transcribes Unicode Table 3-7 (ranges of the
  individual bytes), this one follows the *definition* of UTF-8 (RFC 3629 §3): decode the scalar
  value from the lead byte and its continuation bytes, and accept it iff it is encoded in the shortest
  form, is not a surrogate (U+D800..U+DFFF) and is at most U+10FFFF.  Exact `Nat` only; does not call
  the model.  `Lemmas/C10Extra.lean` proves that the two agree on every byte string.
-/
import Bnum.Model.Basic
namespace Bnum.Spec.Utf8

/-- payload of a continuation byte `10xxxxxx` -/
def cont (b : Nat) : Option Nat := if 0x80 ≤ b ∧ b < 0xC0 then some (b - 0x80) else none

/-- `true` iff `cp` is a Unicode scalar value whose shortest UTF-8 encoding has `len` bytes -/
def scalarOfLen (len cp : Nat) : Bool :=
  match len with
  | 2 => decide (0x80 ≤ cp ∧ cp < 0x800)
  | 3 => decide (0x800 ≤ cp ∧ cp < 0x10000 ∧ ¬ (0xD800 ≤ cp ∧ cp ≤ 0xDFFF))
  | 4 => decide (0x10000 ≤ cp ∧ cp ≤ 0x10FFFF)
  | _ => false

/-- `110xxxxx 10xxxxxx` encodes a scalar value in shortest form -/
def seq2 (b0 b1 : Nat) : Bool :=
  match cont b1 with
  | some c1 => scalarOfLen 2 ((b0 - 0xC0) * 64 + c1)
  | none => false

/-- `1110xxxx 10xxxxxx 10xxxxxx` encodes a scalar value in shortest form -/
def seq3 (b0 b1 b2 : Nat) : Bool :=
  match cont b1, cont b2 with
  | some c1, some c2 => scalarOfLen 3 ((b0 - 0xE0) * 4096 + c1 * 64 + c2)
  | _, _ => false

/-- `11110xxx 10xxxxxx 10xxxxxx 10xxxxxx` encodes a scalar value in shortest form -/
def seq4 (b0 b1 b2 b3 : Nat) : Bool :=
  match cont b1, cont b2, cont b3 with
  | some c1, some c2, some c3 => scalarOfLen 4 ((b0 - 0xF0) * 262144 + c1 * 4096 + c2 * 64 + c3)
  | _, _, _ => false

/-- well-formed UTF-8: a sequence of ASCII bytes and shortest-form multi-byte encodings of scalar values -/
def valid : List Nat → Bool
  | [] => true
  | b0 :: rest =>
    if b0 < 0x80 then valid rest                                   -- 0xxxxxxx
    else if 0xC0 ≤ b0 ∧ b0 < 0xE0 then
      match rest with
      | b1 :: r => seq2 b0 b1 && valid r
      | _ => false
    else if 0xE0 ≤ b0 ∧ b0 < 0xF0 then
      match rest with
      | b1 :: b2 :: r => seq3 b0 b1 b2 && valid r
      | _ => false
    else if 0xF0 ≤ b0 ∧ b0 < 0xF8 then
      match rest with
      | b1 :: b2 :: b3 :: r => seq4 b0 b1 b2 b3 && valid r
      | _ => false
    else false                                                     -- stray continuation byte, 0xF8..0xFF

end Bnum.Spec.Utf8
