/-
  Bnum.Spec.Arith — specifications on exact integers (`Int`), independent of digits.
  `m` is the modulus `2^BITS`; `signed` selects the representable range.
-/
import Bnum.Model.Basic
namespace Bnum.Spec

def rep (signed : Bool) (m : Nat) (z : Int) : Bool := if signed then decide (repS m z) else decide (repU m z)
def minV (signed : Bool) (m : Nat) : Int := if signed then -((m / 2 : Nat) : Int) else 0
def maxV (signed : Bool) (m : Nat) : Int := if signed then ((m / 2 : Nat) : Int) - 1 else (m : Int) - 1
/-- clamp an exact result into the representable range -/
def clamp (signed : Bool) (m : Nat) (z : Int) : Int :=
  if z < minV signed m then minV signed m else if z > maxV signed m then maxV signed m else z
/-- the pair every `overflowing_*` must return for exact result `z` -/
def overflowing (signed : Bool) (m : Nat) (z : Int) : Nat × Bool := (wrapU m z, !rep signed m z)
def checked (signed : Bool) (m : Nat) (z : Int) : Option Nat := if rep signed m z then some (wrapU m z) else none
def saturating (signed : Bool) (m : Nat) (z : Int) : Nat := wrapU m (clamp signed m z)

end Bnum.Spec
