/-
  Bnum.Spec.Random — the sampling law of `src/random.rs` on exact integers, written directly
  (Lemire's widening-multiply rejection method), independent of `Model/Random.lean`.

  The RNG stream is a list of bytes; it is first cut into complete little-endian words of
  `bytes = BITS/8` bytes (`words`).  For an inclusive range `[lo, hi]` of exact integers with
  `range = hi - lo + 1` values and modulus `m = 2^BITS`:
    * `range = m` (the full range): the answer is the first word itself (read as a signed or
      unsigned `BITS`-bit integer);
    * otherwise the answer is `lo + ⌊v·range / m⌋` for the FIRST word `v` whose low part
      `v·range mod m` is `≤ zone`, where `zone + 1` is a multiple of `range`:
        - `zoneExact  = m - (m mod range) - 1` (the largest one), used by `Uniform::new(_inclusive)`
          and by `sample_single(_inclusive)` when `BITS ≤ 16`;
        - `zonePow2 = range·2^j - 1` with `m/2 ≤ range·2^j < m`, used by `sample_single(_inclusive)`
          when `BITS > 16`.
  `none` = the stream ran out before a word was accepted.  The second component of every answer is
  the number of bytes consumed.
-/
import Bnum.Model.Basic
namespace Bnum.Spec.Random

/-- value of a little-endian byte string -/
def leVal (bs : List Nat) : Nat := bs.foldr (fun b acc => b + 256 * acc) 0

/-- the complete `k`-byte words of the stream, as values (`fuel ≥` number of words) -/
def words (k : Nat) : Nat → List Nat → List Nat
  | 0, _ => []
  | fuel + 1, s => if k ≤ s.length then leVal (s.take k) :: words k fuel (s.drop k) else []

/-- number of integers in `[lo, hi]` -/
def rangeSize (lo hi : Int) : Nat := (hi - lo + 1).toNat

def zoneExact (m range : Nat) : Nat := m - m % range - 1

/-- double `r` while the result stays below `m` -/
def normalize (m : Nat) : Nat → Nat → Nat
  | 0, r => r
  | fuel + 1, r => if 2 * r < m then normalize m fuel (2 * r) else r

def zonePow2 (bits m range : Nat) : Nat := normalize m bits range - 1

/-- zone of `sample_single(_inclusive)` -/
def zoneSingle (bits m range : Nat) : Nat :=
  if bits ≤ 16 then zoneExact m range else zonePow2 bits m range

/-- first accepted word: `(⌊v·range/m⌋, number of words read)` -/
def firstAccepted (m range zone : Nat) : List Nat → Nat → Option (Nat × Nat)
  | [], _ => none
  | v :: vs, i =>
    if (v * range) % m ≤ zone then some ((v * range) / m, i + 1)
    else firstAccepted m range zone vs (i + 1)

/-- a `BITS`-bit word read as an integer of the given signedness -/
def wordValue (signed : Bool) (m v : Nat) : Int := if signed then toInt m v else (v : Int)

/-- the sampling law for the inclusive range `[lo, hi]` (`lo ≤ hi`, both representable) -/
def sampleInclusive (signed : Bool) (m bytes : Nat) (zone : Nat → Nat) (lo hi : Int)
    (s : List Nat) : Option (Int × Nat) :=
  let range := rangeSize lo hi
  let ws := words bytes (s.length + 1) s
  if range = m then
    match ws with
    | [] => none
    | v :: _ => some (wordValue signed m v, bytes)
  else
    match firstAccepted m range (zone range) ws 0 with
    | none => none
    | some (hi', cnt) => some (lo + hi', cnt * bytes)

/-- `Standard`: the first word -/
def standard (bytes : Nat) (s : List Nat) : Option (Nat × Nat) :=
  match words bytes (s.length + 1) s with
  | [] => none
  | v :: _ => some (v, bytes)

/-- filling `len` elements: the first `len` words, all of which must be available -/
def fill (bytes len : Nat) (s : List Nat) : Option (List Nat × Nat) :=
  let ws := (words bytes (s.length + 1) s).take len
  if ws.length = len then some (ws, len * bytes) else none

/-- is `x` in `[lo, hi]` (inclusive) or `[lo, hi)` -/
def inRange (lo hi x : Int) (inclusive : Bool) : Bool :=
  if inclusive then decide (lo ≤ x ∧ x ≤ hi) else decide (lo ≤ x ∧ x < hi)

end Bnum.Spec.Random
