/-
  Bnum.Spec.Cast — what `as` casts (C09) and checked conversions (C13) must return, on exact
  integers.  A type is `(signed, m)` with `m = 2^BITS`; a value of it is its pattern `p < m`.
  Never mentions digits, never calls the model.
-/
import Bnum.Spec.Arith
namespace Bnum.Spec

/-- the number denoted by pattern `p` in a type of modulus `m` -/
def valueOf (signed : Bool) (m p : Nat) : Int := if signed then toInt m p else (p : Int)

/-- `src as Dst`: the source value reduced modulo `2^(target BITS)` (this is zero-extension for
    unsigned sources, sign-extension for signed sources, truncation to the low bits for narrower
    targets) -/
def cast (srcSigned : Bool) (mSrc p : Nat) (mDst : Nat) : Nat := wrapU mDst (valueOf srcSigned mSrc p)

/-- `Dst::try_from(src)`: `Ok` with the same number iff it is representable in `Dst` -/
def tryConv (srcSigned : Bool) (mSrc p : Nat) (dstSigned : Bool) (mDst : Nat) : Option Nat :=
  let v := valueOf srcSigned mSrc p
  if rep dstSigned mDst v then some (wrapU mDst v) else none

/-- is every value of the source type representable in the target type? (scope of `From`) -/
def fits (srcSigned : Bool) (kSrc : Nat) (dstSigned : Bool) (kDst : Nat) : Bool :=
  match srcSigned, dstSigned with
  | false, false => kSrc ≤ kDst
  | false, true => kSrc < kDst
  | true, true => kSrc ≤ kDst
  | true, false => false

end Bnum.Spec
