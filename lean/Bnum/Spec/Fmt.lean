/-
  Bnum.Spec.Fmt — what Rust's `core` hands to `Formatter::pad_integral` when a *primitive* integer
  is formatted (C12), written from library/core/src/fmt/num.rs on exact `Nat`/`Int` values and
  extended verbatim to every width `W`.  Does not call the model.

    radix_integer!  (Binary/Octal/LowerHex/UpperHex):
        unsigned:  `f.pad_integral(true, $prefix, digits of self)`
        signed:    the same on `self.cast_unsigned()`  (two's-complement pattern)
    impl_Display!   (Display; Debug forwards to Display unless `{:x?}`/`{:X?}`):
        unsigned:  `f.pad_integral(true, "", decimal digits of self)`
        signed:    `f.pad_integral(*self >= 0, "", decimal digits of self.unsigned_abs())`
    impl_Exp!       (LowerExp/UpperExp, no precision → `more_prec = 0`):
        `f.pad_integral(is_nonnegative, "", text)` with `n = self.unsigned_abs()`,
        `exp = n.checked_ilog10().unwrap_or(0)`, trailing zeros of `n` dropped while
        `coef_prec != 0`, `text = lead [ "." fraction ] e exp`.
-/
import Bnum.Spec.Radix
namespace Bnum.Spec.Fmt
open Bnum.Spec.Radix

/-- the eight `core::fmt` traits of C12 -/
inductive Trait where
  | display | debug | binary | octal | lowerHex | upperHex | lowerExp | upperExp
  deriving DecidableEq, Repr

/-- uppercase ASCII image of a digit `< 36` -/
def upperChar (d : Nat) : Nat := if d < 10 then 48 + d else 55 + d

/-- canonical lowercase numeral of `v` in radix `r` (most significant first, `"0"` for zero) -/
def numeral (r v : Nat) : List Nat := (canonBE r v).map digitChar
/-- canonical uppercase numeral -/
def numeralUpper (r v : Nat) : List Nat := (canonBE r v).map upperChar

/-- `n.checked_ilog10().unwrap_or(0)` (fuel `n`) -/
def ilog10Aux : Nat → Nat → Nat
  | 0, _ => 0
  | f + 1, n => if n < 10 then 0 else 1 + ilog10Aux f (n / 10)
def ilog10 (n : Nat) : Nat := ilog10Aux n n

/-- `while coef_prec != 0 && coef % 10 == 0 { coef /= 10; coef_prec -= 1; }` → `(coef, coef_prec)` -/
def strip : Nat → Nat → Nat × Nat
  | 0, coef => (coef, 0)
  | p + 1, coef => if coef % 10 = 0 then strip p (coef / 10) else (coef, p + 1)

/-- the `prec` least significant decimal digits of `c`, least significant first -/
def fracLE : Nat → Nat → List Nat
  | 0, _ => []
  | p + 1, c => c % 10 :: fracLE p (c / 10)

/-- the text `exp_u*` builds for `n` (no precision); `e` = `b'e'` / `b'E'`.  Core writes the
    exponent with one or two digits (it is `< 100` for every primitive); wider values get the
    plain decimal numeral. -/
def expText (e : Nat) (n : Nat) : List Nat :=
  let exp := ilog10 n
  let cp := strip exp n
  let coef := cp.1
  let prec := cp.2
  let lead := coef / 10 ^ prec
  let coefText :=
    if prec = 0 then [48 + lead]
    else (48 + lead) :: 46 :: ((fracLE prec coef).reverse.map (48 + ·))
  coefText ++ [e] ++ numeral 10 exp

/-- the triple `(is_nonnegative, prefix, buf)` that core's implementation of trait `t` for the
    `W`-bit primitive (signed or unsigned) holding the exact value `z` passes to `pad_integral` -/
def primTriple (t : Trait) (signed : Bool) (W : Nat) (z : Int) : Bool × List Nat × List Nat :=
  /- `self.cast_unsigned()` (identity on unsigned values) -/
  let pat := wrapU (2 ^ W) z
  /- `*self >= 0` (constant `true` in the unsigned impls) -/
  let nonneg := if signed then decide (0 ≤ z) else true
  /- `self.unsigned_abs()` (identity on unsigned values) -/
  let mag := z.natAbs
  match t with
  | .binary => (true, [48, 98], numeral 2 pat)
  | .octal => (true, [48, 111], numeral 8 pat)
  | .lowerHex => (true, [48, 120], numeral 16 pat)
  | .upperHex => (true, [48, 120], numeralUpper 16 pat)
  | .display => (nonneg, [], numeral 10 mag)
  | .debug => (nonneg, [], numeral 10 mag)
  | .lowerExp => (nonneg, [], expText 101 mag)
  | .upperExp => (nonneg, [], expText 69 mag)

end Bnum.Spec.Fmt
