/-
  Bnum.Spec.Mul — exact specifications of the widening multiplication helpers (unsigned only).
  `m = 2^BITS`; all arguments are exact naturals.  The overflowing / checked / wrapping / saturating
  / strict forms use `Spec.overflowing` etc. of `Spec/Arith.lean` on the exact product.
-/
import Bnum.Spec.Arith
namespace Bnum.Spec

/-- `(lo, hi)` with `hi * m + lo = z`; `hi` is reduced mod `m` only so that it is printable when a
    caller passes a `z ≥ m²` (never the case for `a*b + c` with `a, b, c < m`). -/
def widening (m : Nat) (z : Nat) : Nat × Nat := (z % m, z / m % m)

/-- `strict_*` / debug-mode operator: `none` = panic -/
def strict (signed : Bool) (m : Nat) (z : Int) : Option Nat := checked signed m z

end Bnum.Spec
