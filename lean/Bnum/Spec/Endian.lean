/-
  Bnum.Spec.Endian — what a byte string denotes, on exact `Nat`/`Int` (independent of the model).
-/
import Bnum.Spec.Arith
namespace Bnum.Spec.Endian

/-- unsigned value of a little-endian byte string -/
def leValue : List Nat → Nat
  | [] => 0
  | b :: bs => b + 256 * leValue bs

/-- unsigned value of a big-endian byte string (Horner) -/
def beValue (bs : List Nat) : Nat := bs.foldl (fun acc b => acc * 256 + b) 0

/-- two's-complement value of a big-endian byte string: sign from the FIRST byte; empty ↦ 0 -/
def twosBE (bs : List Nat) : Int :=
  match bs with
  | [] => 0
  | b :: _ => if 128 ≤ b then (beValue bs : Int) - (256 : Int) ^ bs.length else (beValue bs : Int)

/-- two's-complement value of a little-endian byte string: sign from the LAST byte; empty ↦ 0 -/
def twosLE (bs : List Nat) : Int :=
  match bs.getLast? with
  | none => 0
  | some b => if 128 ≤ b then (leValue bs : Int) - (256 : Int) ^ bs.length else (leValue bs : Int)

/-- the value denoted by a slice for a type of the given signedness -/
def sliceValue (signed big : Bool) (bs : List Nat) : Int :=
  match signed, big with
  | false, true => (beValue bs : Int)
  | false, false => (leValue bs : Int)
  | true, true => twosBE bs
  | true, false => twosLE bs

/-- `from_{be,le}_slice`: `Some(pattern)` exactly when the denoted value is representable -/
def fromSlice (signed big : Bool) (m : Nat) (bs : List Nat) : Option Nat :=
  Spec.checked signed m (sliceValue signed big bs)

/-- the `k` little-endian bytes of a pattern -/
def leBytes : Nat → Nat → List Nat
  | 0, _ => []
  | k + 1, v => v % 256 :: leBytes k (v / 256)

/-- the `k` big-endian bytes of a pattern -/
def beBytes (k v : Nat) : List Nat := (leBytes k v).reverse

/-- byte-reversed pattern (`k` bytes) -/
def swapPattern (k v : Nat) : Nat := beValue (leBytes k v)

end Bnum.Spec.Endian
