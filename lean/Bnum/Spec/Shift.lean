/-
  Bnum.Spec.Shift — specification of shifts and rotations on exact integers.
  `bits` = BITS, `m = 2^bits`.  `z` is the exact value of the operand (signed or unsigned reading),
  `x` its `bits`-bit pattern as a natural number.  Nothing here looks at digits or calls the model.
  `2^s` is only ever computed for `s < bits` (amounts range over all of u32).
-/
import Bnum.Model.Basic
namespace Bnum.Spec.Shift

/-- `bits` is a power of two -/
def isPow2 (bits : Nat) : Bool := 2 ^ bits.log2 == bits

/-- pattern of `z * 2^s` reduced mod `2^bits` (`s < bits`) -/
def shlVal (bits : Nat) (z : Int) (s : Nat) : Nat := wrapU (2 ^ bits) (z * 2 ^ s)

/-- pattern of `floor(z / 2^s)`; with `z` the signed value this is the sign-propagating shift,
    with `z` the unsigned value the zero-filling one (`s < bits`) -/
def shrVal (bits : Nat) (z : Int) (s : Nat) : Nat := wrapU (2 ^ bits) (Int.fdiv z (2 ^ s))

/-- the amount a wrapping / overflowing shift must use: `s` itself below `bits`, `s mod bits` when
    `bits` is a power of two, and otherwise the property leaves the result open (`none`) -/
def effAmount (bits s : Nat) : Option Nat :=
  if s < bits then some s else if isPow2 bits then some (s % bits) else none

/-- value of `unbounded_shl` -/
def unboundedShl (bits : Nat) (z : Int) (s : Nat) : Nat := if s < bits then shlVal bits z s else 0

/-- value of `unbounded_shr`: `0`, or `-1` for a negative operand, when `s ≥ bits` -/
def unboundedShr (bits : Nat) (z : Int) (s : Nat) : Nat :=
  if s < bits then shrVal bits z s else if z < 0 then 2 ^ bits - 1 else 0

/-- cyclic left rotation of the `bits`-bit pattern `x` by `k mod bits` places -/
def rotl (bits x k : Nat) : Nat :=
  let r := k % bits
  (x * 2 ^ r) % 2 ^ bits + x / 2 ^ (bits - r)

/-- cyclic right rotation of the `bits`-bit pattern `x` by `k mod bits` places -/
def rotr (bits x k : Nat) : Nat :=
  let r := k % bits
  x / 2 ^ r + (x * 2 ^ (bits - r)) % 2 ^ bits

end Bnum.Spec.Shift
