/-
  Bnum.Spec.Div — the mathematical truth for division / remainder, on exact integers only
  (core `Int.tdiv/tmod` = truncation, `/`,`%` = `Int.ediv/emod` = Euclidean, `Int.fdiv` = floor).
  Independent of the digit model.
-/
import Bnum.Spec.Arith
namespace Bnum.Spec

/-- ceiling division `⌈a / b⌉` -/
def cdiv (a b : Int) : Int := -(Int.fdiv (-a) b)

/-- the multiple of `b` nearest to `a` at or beyond `a` in the direction of the sign of `b`:
    least multiple `≥ a` for `b > 0`, greatest multiple `≤ a` for `b < 0`; both are `b·⌈a/b⌉` -/
def nextMultiple (a b : Int) : Int := b * cdiv a b

/-- the only overflowing quotient: signed `MIN / -1` -/
def divOverflow (signed : Bool) (m : Nat) (a b : Int) : Bool :=
  signed && (a == minV signed m) && (b == -1)

/-- which exact function an operation family computes -/
inductive DivKind where
  | tdiv | tmod | ediv | emod | fdiv | cdiv
  deriving DecidableEq, Repr

def DivKind.eval : DivKind → Int → Int → Int
  | .tdiv, a, b => Int.tdiv a b
  | .tmod, a, b => Int.tmod a b
  | .ediv, a, b => a / b
  | .emod, a, b => a % b
  | .fdiv, a, b => Int.fdiv a b
  | .cdiv, a, b => Spec.cdiv a b

/-- `checked_*`: `None` for a zero divisor and for `MIN / -1` -/
def checkedDivLike (signed : Bool) (m : Nat) (k : DivKind) (a b : Int) : Option Nat :=
  if b = 0 then none else if divOverflow signed m a b then none else some (wrapU m (k.eval a b))

/-- `overflowing_*` for `b ≠ 0`: the wrapped exact result and the `MIN / -1` flag -/
def overflowingDivLike (signed : Bool) (m : Nat) (k : DivKind) (a b : Int) : Nat × Bool :=
  (wrapU m (k.eval a b), divOverflow signed m a b)

/-- `saturating_div` for `b ≠ 0` -/
def saturatingDiv (signed : Bool) (m : Nat) (a b : Int) : Nat := saturating signed m (Int.tdiv a b)

end Bnum.Spec
