/-
  Bnum.Spec.C20Extra — the sampling law for `k` successive draws from the same inclusive range:
  each draw applies `Spec.Random.sampleInclusive` to what the previous draws left of the stream.
  Answer: the `k` exact integers and the total number of bytes consumed; `none` = the stream ran out.
-/
import Bnum.Spec.Random
namespace Bnum.Spec.Random

def sampleManyInclusive (signed : Bool) (m bytes : Nat) (zone : Nat → Nat) (lo hi : Int) :
    Nat → List Nat → Option (List Int × Nat)
  | 0, _ => some ([], 0)
  | k + 1, s =>
    match sampleInclusive signed m bytes zone lo hi s with
    | none => none
    | some (x, c) =>
      match sampleManyInclusive signed m bytes zone lo hi k (s.drop c) with
      | none => none
      | some (xs, c') => some (x :: xs, c + c')

end Bnum.Spec.Random
