/-
  Bnum.Spec.NumTraits — the mathematical truth behind the `num_integer` / `num_traits` contracts
  (C18), on exact `Nat` / `Int` only; does not call the model.
    gcd / lcm          core `Nat.gcd` (Euclid) and `Nat.lcm` on magnitudes
    floor division     `Int.fdiv` / `Int.fmod`;  truncation `Int.tdiv` / `Int.tmod`
    integer roots      bisection on `Nat`: the `r` with `r^n ≤ x < (r+1)^n`
-/
import Bnum.Spec.Arith
import Bnum.Spec.Div
import Bnum.Spec.Bits
namespace Bnum.Spec.NumT

/-- `b ^ e ≤ x`, decided without building numbers much larger than `x` (`e` ranges over `u32`):
    for `b ≥ 2` and `e > bitLen x` the power exceeds `2^(bitLen x) > x`. -/
def powLe (b e x : Nat) : Bool :=
  if b ≤ 1 then (if e = 0 then decide (1 ≤ x) else decide (b ≤ x))
  else if e > bitLen x then false
  else decide (b ^ e ≤ x)

/-- bisection: invariant `lo^n ≤ x < hi^n`, `hi - lo ≤ 2^fuel` -/
def bisect (n x : Nat) : Nat → Nat → Nat → Nat
  | 0, lo, _ => lo
  | f + 1, lo, hi =>
    if hi ≤ lo + 1 then lo
    else
      let mid := (lo + hi) / 2
      if powLe mid n x then bisect n x f mid hi else bisect n x f lo mid

/-- `⌊x^(1/n)⌋` for `n ≥ 1`: the unique `r` with `r^n ≤ x < (r+1)^n`
    (search interval `[0, 2^(bitLen x / n + 1))`) -/
def iroot (n x : Nat) : Nat := bisect n x (bitLen x / n + 2) 0 (2 ^ (bitLen x / n + 1))

/-- truncated principal `n`-th root of an integer (`n` odd, or `z ≥ 0`): the integer of largest
    magnitude with `|r^n| ≤ |z|`, sign preserved -/
def rootInt (n : Nat) (z : Int) : Int :=
  if z < 0 then -((iroot n z.natAbs : Nat) : Int) else ((iroot n z.natAbs : Nat) : Int)

/-- non-negative greatest common divisor -/
def gcdInt (a b : Int) : Nat := Nat.gcd a.natAbs b.natAbs
/-- non-negative least common multiple -/
def lcmInt (a b : Int) : Nat := Nat.lcm a.natAbs b.natAbs

/-- `x ^ e` is representable (decided without building an enormous power) -/
def powRep (signed : Bool) (m bits : Nat) (x : Int) (e : Nat) : Bool :=
  if x.natAbs ≤ 1 then rep signed m (if e = 0 then 1 else if x = -1 ∧ e % 2 = 0 then 1 else x)
  else if e > bits then false
  else rep signed m (x ^ e)

/-- square-and-multiply modulo `m` (fuel = number of bits of the exponent to process) -/
def powModLoop (m : Nat) : Nat → Int → Nat → Int → Int
  | 0, _, _, acc => acc
  | f + 1, b, e, acc =>
    if e = 0 then acc
    else powModLoop m f ((b * b) % m) (e / 2) (if e % 2 = 1 then (acc * b) % m else acc)

/-- the `BITS`-bit pattern of `x ^ e` -/
def powPat (m : Nat) (x : Int) (e : Nat) : Nat :=
  wrapU m (powModLoop m (bitLen e) (x % m) e 1)

end Bnum.Spec.NumT
