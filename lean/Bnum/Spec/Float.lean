/-
  Bnum.Spec.Float — what the float <-> integer casts (C14) must return, in exact integer / rational
  arithmetic.  Floats are bit patterns; a format is `(bits, p, emax)` = (32, 24, 128) / (64, 53, 1024).
  The finite value of a pattern is the rational `(-1)^s · m · 2^e` kept as integers `(s, m, e)`.
  Never calls the model (Bnum.Model.Float); import-free.
-/
import Bnum.Spec.Arith
namespace Bnum.Spec

/-- bit length of a natural number (0 for 0) -/
def size (v : Nat) : Nat := if v = 0 then 0 else Nat.log2 v + 1

/-- round-to-nearest, ties-to-even, of the natural number `v` to `p` significant bits -/
def rne (p v : Nat) : Nat :=
  let s := size v - p
  if s = 0 then v else
  let q := v / 2 ^ s
  let r := v % 2 ^ s
  let up : Bool := decide (2 * r > 2 ^ s) || (decide (2 * r = 2 ^ s) && decide (q % 2 = 1))
  (q + (if up then 1 else 0)) * 2 ^ s

/-- `y` has at most `p` significant bits -/
def Representable (p y : Nat) : Prop := ∃ m e : Nat, m < 2 ^ p ∧ y = m * 2 ^ e

structure Fmt where
  bits : Nat
  p : Nat
  emax : Nat

def f32 : Fmt := ⟨32, 24, 128⟩
def f64 : Fmt := ⟨64, 53, 1024⟩

/-- pattern of +∞ -/
def posInf (F : Fmt) : Nat := (2 * F.emax - 1) * 2 ^ (F.p - 1)
/-- the sign bit -/
def signBit (F : Fmt) : Nat := 2 ^ (F.bits - 1)

/-- the pattern of the non-negative float whose value is the natural number `r`
    (`r` has at most `p` significant bits); +∞ when `r ≥ 2^emax` -/
def encodeNat (F : Fmt) (r : Nat) : Nat :=
  if r = 0 then 0
  else if r ≥ 2 ^ F.emax then posInf F
  else
    let e := Nat.log2 r                       -- 2^e ≤ r < 2^(e+1)
    let m := if e ≥ F.p - 1 then r / 2 ^ (e - (F.p - 1)) else r * 2 ^ (F.p - 1 - e)   -- p-bit significand
    (e + F.emax - 1) * 2 ^ (F.p - 1) + (m - 2 ^ (F.p - 1))

/-- the float nearest to the natural number `v` (ties to even, +∞ on overflow) -/
def natToFloat (F : Fmt) (v : Nat) : Nat := encodeNat F (rne F.p v)

/-- the float nearest to the integer `z` (sign-symmetric) -/
def intToFloat (F : Fmt) (z : Int) : Nat :=
  if z < 0 then signBit F + natToFloat F z.natAbs else natToFloat F z.natAbs

/-! ### decoding -/

def signOf (F : Fmt) (x : Nat) : Bool := decide (signBit F ≤ x)
def expField (F : Fmt) (x : Nat) : Nat := (x % signBit F) / 2 ^ (F.p - 1)
def fracField (F : Fmt) (x : Nat) : Nat := x % 2 ^ (F.p - 1)
def isNaN (F : Fmt) (x : Nat) : Bool := expField F x == 2 * F.emax - 1 && fracField F x != 0
def isInf (F : Fmt) (x : Nat) : Bool := expField F x == 2 * F.emax - 1 && fracField F x == 0

/-- finite pattern ↦ `(m, e)` with `|value| = m · 2^e` -/
def decodeFinite (F : Fmt) (x : Nat) : Nat × Int :=
  let E := expField F x
  let f := fracField F x
  if E = 0 then (f, 2 - (F.emax : Int) - ((F.p : Int) - 1))
  else (f + 2 ^ (F.p - 1), (E : Int) - ((F.emax : Int) - 1) - ((F.p : Int) - 1))

/-- `⌊m · 2^e⌋` -/
def truncMag (m : Nat) (e : Int) : Nat := if e ≥ 0 then m * 2 ^ e.toNat else m / 2 ^ (-e).toNat

/-- `x as <integer of modulus m>`: NaN ↦ 0, ±∞ ↦ the bounds, else the truncated value clamped;
    the answer is the pattern -/
def floatToInt (F : Fmt) (signed : Bool) (m : Nat) (x : Nat) : Nat :=
  if isNaN F x then 0
  else if isInf F x then wrapU m (if signOf F x then minV signed m else maxV signed m)
  else
    let (mm, e) := decodeFinite F x
    let t : Int := truncMag mm e
    wrapU m (clamp signed m (if signOf F x then -t else t))

end Bnum.Spec
