/-
  Bnum.Audit.C01 — axiom audit of every C01 property theorem.
  Expected: only propext / Classical.choice / Quot.sound.
-/
import Bnum.Props.C01

#print axioms Bnum.C01.u_overflowing_add
#print axioms Bnum.C01.u_overflowing_sub
#print axioms Bnum.C01.u_overflowing_neg
#print axioms Bnum.C01.u_overflowing_add_signed
#print axioms Bnum.C01.u_carrying_add
#print axioms Bnum.C01.u_borrowing_sub
#print axioms Bnum.C01.u_checked_add
#print axioms Bnum.C01.u_checked_sub
#print axioms Bnum.C01.u_checked_neg
#print axioms Bnum.C01.u_checked_add_signed
#print axioms Bnum.C01.u_strict_add
#print axioms Bnum.C01.u_strict_sub
#print axioms Bnum.C01.u_strict_neg
#print axioms Bnum.C01.u_strict_add_signed
#print axioms Bnum.C01.u_wrapping_add
#print axioms Bnum.C01.u_wrapping_sub
#print axioms Bnum.C01.u_wrapping_neg
#print axioms Bnum.C01.u_wrapping_add_signed
#print axioms Bnum.C01.u_saturating_add
#print axioms Bnum.C01.u_saturating_sub
#print axioms Bnum.C01.u_saturating_add_signed
#print axioms Bnum.C01.i_overflowing_add
#print axioms Bnum.C01.i_overflowing_sub
#print axioms Bnum.C01.i_overflowing_neg
#print axioms Bnum.C01.i_overflowing_abs
#print axioms Bnum.C01.i_overflowing_add_unsigned
#print axioms Bnum.C01.i_overflowing_sub_unsigned
#print axioms Bnum.C01.i_carrying_add
#print axioms Bnum.C01.i_borrowing_sub
#print axioms Bnum.C01.i_unsigned_abs
#print axioms Bnum.C01.i_checked_add
#print axioms Bnum.C01.i_checked_sub
#print axioms Bnum.C01.i_checked_neg
#print axioms Bnum.C01.i_checked_abs
#print axioms Bnum.C01.i_checked_add_unsigned
#print axioms Bnum.C01.i_checked_sub_unsigned
#print axioms Bnum.C01.i_strict_add
#print axioms Bnum.C01.i_strict_sub
#print axioms Bnum.C01.i_strict_neg
#print axioms Bnum.C01.i_strict_abs
#print axioms Bnum.C01.i_strict_add_unsigned
#print axioms Bnum.C01.i_strict_sub_unsigned
#print axioms Bnum.C01.i_wrapping_add
#print axioms Bnum.C01.i_wrapping_sub
#print axioms Bnum.C01.i_wrapping_neg
#print axioms Bnum.C01.i_wrapping_abs
#print axioms Bnum.C01.i_wrapping_add_unsigned
#print axioms Bnum.C01.i_wrapping_sub_unsigned
#print axioms Bnum.C01.i_saturating_add
#print axioms Bnum.C01.i_saturating_sub
#print axioms Bnum.C01.i_saturating_add_unsigned
#print axioms Bnum.C01.i_saturating_sub_unsigned
#print axioms Bnum.C01.i_saturating_neg
#print axioms Bnum.C01.i_saturating_abs
#print axioms Bnum.C01.i_saturating_add_side
#print axioms Bnum.C01.i_saturating_sub_side
#print axioms Bnum.C01.u_midpoint_spec
#print axioms Bnum.C01.i_midpoint_spec
#print axioms Bnum.C01.u_abs_diff
#print axioms Bnum.C01.i_abs_diff
#print axioms Bnum.C01.u_checked_neg_proj
