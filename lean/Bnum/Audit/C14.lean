import Bnum.Props.C14
/-! Axiom audit for property C14: every theorem must depend on at most
    `propext`, `Classical.choice`, `Quot.sound`. -/
#print axioms Bnum.C14.rne_nearest
#print axioms Bnum.C14.rne_representable
#print axioms Bnum.C14.rne_nearest_unique
#print axioms Bnum.C14.rne_tie_even
#print axioms Bnum.C14.rne_exact
#print axioms Bnum.C14.floatFromUint_spec
#print axioms Bnum.C14.floatFromUint_f32
#print axioms Bnum.C14.floatFromUint_f64
#print axioms Bnum.C14.floatFromUint_digits
#print axioms Bnum.C14.floatFromUint_overflow
#print axioms Bnum.C14.floatFromUint_value
#print axioms Bnum.C14.floatFromUint_exact
#print axioms Bnum.C14.floatFromInt_spec
#print axioms Bnum.C14.floatFromInt_digits
#print axioms Bnum.C14.uintFromFloat_spec
#print axioms Bnum.C14.intFromFloat_spec
#print axioms Bnum.C14.uintFromFloat_f32
#print axioms Bnum.C14.uintFromFloat_f64
#print axioms Bnum.C14.intFromFloat_f32
#print axioms Bnum.C14.intFromFloat_f64
#print axioms Bnum.C14.uintFromFloat_cases
#print axioms Bnum.C14.uintFromFloat_subnormal
#print axioms Bnum.C14.from_f32_regression
#print axioms Bnum.C14.floatFromUint_specD
#print axioms Bnum.C14.floatFromInt_specD
#print axioms Bnum.C14.uintFromFloat_specD
#print axioms Bnum.C14.intFromFloat_specD
#print axioms Bnum.FltD.castFloatFromUintD_refines
#print axioms Bnum.FltD.castUintFromFloatD_refines
#print axioms Bnum.FltD.bintFromFloat_refines
#print axioms Bnum.Flt.decode_encode
#print axioms Bnum.Flt.valid_f32
#print axioms Bnum.Flt.valid_f64
