import Bnum.Props.C03
open Bnum.C03
#print axioms divRemWide_spec
#print axioms u_divRemDigit_spec
#print axioms u_divRem_spec_partial
#print axioms u_divRem_spec
#print axioms divRem_unique_trunc
#print axioms divRem_unique_euclid
#print axioms u_forms
#print axioms u_divCeil_spec
#print axioms u_nextMultipleOf_spec
#print axioms u_checkedNextMultipleOf_spec
#print axioms u_zero_divisor
#print axioms i_divRem_spec
#print axioms i_forms
#print axioms i_divFloor_spec
#print axioms i_divCeil_spec
#print axioms cdiv_nextMultiple_meaning
#print axioms i_nextMultipleOf_spec
#print axioms i_checkedNextMultipleOf_spec
#print axioms i_zero_divisor
#print axioms i_min_neg_one
#print axioms knuthD_correct
#print axioms udivspec
