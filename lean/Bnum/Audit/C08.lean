/-
  Bnum.Audit.C08 — axioms used by the C08 property theorems (expected: only `propext`,
  `Classical.choice`, `Quot.sound`).
-/
import Bnum.Props.C08
#print axioms Bnum.C08.u_overflowing_pow
#print axioms Bnum.C08.u_overflowing_pow_int
#print axioms Bnum.C08.u_pow_zero
#print axioms Bnum.C08.u_pow_loops_agree
#print axioms Bnum.C08.u_checked_pow
#print axioms Bnum.C08.u_checked_pow_some_iff
#print axioms Bnum.C08.u_wrapping_pow
#print axioms Bnum.C08.u_saturating_pow
#print axioms Bnum.C08.u_strict_pow
#print axioms Bnum.C08.u_pow
#print axioms Bnum.C08.i_overflowing_pow
#print axioms Bnum.C08.i_checked_pow_proj
#print axioms Bnum.C08.i_checked_pow
#print axioms Bnum.C08.i_wrapping_pow
#print axioms Bnum.C08.i_saturating_pow
#print axioms Bnum.C08.i_saturating_pow_side
#print axioms Bnum.C08.i_strict_pow
#print axioms Bnum.C08.i_pow
#print axioms Bnum.C08.i_wrapping_pow_proj
#print axioms Bnum.C08.u_pow_projections
#print axioms Bnum.C08.i_pow_projections
#print axioms Bnum.C08.log_is_greatest
#print axioms Bnum.C08.udivspec
#print axioms Bnum.C08.one_le_of_ten
#print axioms Bnum.C08.iilog_spec
#print axioms Bnum.C08.u_checked_ilog2
#print axioms Bnum.C08.u_checked_ilog
#print axioms Bnum.C08.u_checked_ilog10
#print axioms Bnum.C08.u_ilog2
#print axioms Bnum.C08.u_ilog10
#print axioms Bnum.C08.u_ilog
#print axioms Bnum.C08.u_ilog_panic_iff
#print axioms Bnum.C08.u_ilog10_panic_iff
#print axioms Bnum.C08.i_checked_ilog
#print axioms Bnum.C08.i_checked_ilog_none_iff
#print axioms Bnum.C08.i_checked_ilog2
#print axioms Bnum.C08.i_checked_ilog10
#print axioms Bnum.C08.i_ilog
#print axioms Bnum.C08.i_ilog2
#print axioms Bnum.C08.i_ilog10
#print axioms Bnum.C08.i_ilog_panic_iff
#print axioms Bnum.C08.i_ilog10_panic_iff
#print axioms Bnum.C08.spec_ilog
#print axioms Bnum.C08.spec_powMod
#print axioms Bnum.C08.spec_powCapped
#print axioms Bnum.C08.spec_pow
#print axioms Bnum.C08.spec_powWrapped
#print axioms Bnum.C08.spec_saturating_pow
