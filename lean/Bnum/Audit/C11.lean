import Bnum.Props.C11
open Bnum.C11
#print axioms toRadixLe_spec
#print axioms toRadixBe_spec
#print axioms toRadixBe_eq_reverse
#print axioms i_toRadixLe_eq
#print axioms i_toRadixBe_eq
#print axioms canonLE_props
#print axioms u_toStrRadix_spec
#print axioms i_toStrRadix_spec
#print axioms u_roundtrip_str
#print axioms i_roundtrip_str
#print axioms roundtrip_be
#print axioms roundtrip_le
#print axioms toRadixLe_panic_iff
#print axioms toRadixBe_panic_iff
#print axioms u_toStrRadix_panic_iff
#print axioms i_toStrRadix_panic_iff
