/-
  Bnum.Audit.C15 — axiom audit of the C15 property theorems.
-/
import Bnum.Props.C15
#print axioms Bnum.C15.u_fromBeSlice_closed
#print axioms Bnum.C15.u_fromBeSlice_spec
#print axioms Bnum.C15.u_fromBeSlice_value
#print axioms Bnum.C15.u_fromLeSlice_closed
#print axioms Bnum.C15.u_fromLeSlice_spec
#print axioms Bnum.C15.u_fromLeSlice_value
#print axioms Bnum.C15.u_fromBeSlice_eq_fromLeSlice_reverse
#print axioms Bnum.C15.u_fromSlice_no_panic
#print axioms Bnum.C15.u_fromSlice_empty
#print axioms Bnum.C15.u_fromLeSlice_short
#print axioms Bnum.C15.u_fromLeSlice_long
#print axioms Bnum.C15.i_fromBeSlice_closed
#print axioms Bnum.C15.i_fromBeSlice_spec
#print axioms Bnum.C15.i_fromBeSlice_value
#print axioms Bnum.C15.i_fromLeSlice_closed
#print axioms Bnum.C15.i_fromLeSlice_spec
#print axioms Bnum.C15.i_fromLeSlice_value
#print axioms Bnum.C15.i_fromBeSlice_eq_fromLeSlice_reverse
#print axioms Bnum.C15.i_fromSlice_no_panic
#print axioms Bnum.C15.i_fromSlice_empty
#print axioms Bnum.C15.i_fromLeSlice_short
#print axioms Bnum.C15.i_fromLeSlice_long
#print axioms Bnum.C15.toBe_eq
#print axioms Bnum.C15.toLe_eq
#print axioms Bnum.C15.swapBytes_bytes
#print axioms Bnum.C15.swapBytes_value
#print axioms Bnum.C15.swapBytes_involutive
#print axioms Bnum.C15.fromBe_toBe
#print axioms Bnum.C15.toLeBytes_spec
#print axioms Bnum.C15.toBeBytes_spec
#print axioms Bnum.C15.neBytes_eq
#print axioms Bnum.C15.fromBytes_spec
#print axioms Bnum.C15.fromBytes_toBytes
#print axioms Bnum.C15.toBytes_fromBytes
#print axioms Bnum.C15.signed_delegates
