import Bnum.Props.C07
open Bnum.C07
#print axioms u_cmp_spec
#print axioms i_cmp_spec
#print axioms u_partial_cmp_spec
#print axioms i_partial_cmp_spec
#print axioms u_eq_iff
#print axioms i_eq_iff
#print axioms u_ne_iff
#print axioms i_ne_iff
#print axioms u_op_eq_iff
#print axioms i_op_eq_iff
#print axioms u_hash_congr
#print axioms i_hash_congr
#print axioms u_order
#print axioms i_order
#print axioms op_order_eq
#print axioms u_max_spec
#print axioms u_min_spec
#print axioms i_max_spec
#print axioms i_min_spec
#print axioms u_clamp_spec
#print axioms i_clamp_spec
#print axioms is_negative_iff
#print axioms is_positive_iff
#print axioms zero_neither
#print axioms signum_spec
