/-
  Bnum.Drive.Util — line-protocol helpers shared by all `Drive/*.lean` (import-free).
  Request:  `op cfg arg…`   cfg = `u8x3`, `i64x2` (signedness, digit bits, digit count)
  Values:   W-bit patterns as lowercase hex without prefix; u32 amounts in decimal; bools `0`/`1`;
            byte strings hex-encoded (`-` for the empty string).
  Answers:  pattern hex; `true`/`false`; `(x,true)`; `S(x)`/`N`; `Ok(x)`/`Err(kind)`; `P` = panic.
-/
import Bnum.Model.Basic
namespace Bnum.Drive

structure Cfg where
  signed : Bool
  w : Nat
  n : Nat
  deriving Repr

def hexDigit (c : Char) : Option Nat :=
  if '0' ≤ c ∧ c ≤ '9' then some (c.toNat - '0'.toNat)
  else if 'a' ≤ c ∧ c ≤ 'f' then some (c.toNat - 'a'.toNat + 10)
  else if 'A' ≤ c ∧ c ≤ 'F' then some (c.toNat - 'A'.toNat + 10)
  else none

def parseHex (s : String) : Option Nat :=
  if s.isEmpty then none else
  s.toList.foldl (fun acc c => do let a ← acc; let d ← hexDigit c; pure (a * 16 + d)) (some 0)

def hexChar (d : Nat) : Char := if d < 10 then Char.ofNat (48 + d) else Char.ofNat (87 + d)

partial def toHexAux (v : Nat) (acc : List Char) : List Char :=
  if v < 16 then hexChar v :: acc else toHexAux (v / 16) (hexChar (v % 16) :: acc)

def toHex (v : Nat) : String := String.ofList (toHexAux v [])

def parseCfg (s : String) : Option Cfg :=
  match s.toList with
  | c :: rest =>
    let signed? := if c = 'u' then some false else if c = 'i' then some true else none
    match signed?, (String.ofList rest).splitOn "x" with
    | some sg, [ws, ns] =>
      match ws.toNat?, ns.toNat? with
      | some w, some n => some ⟨sg, w, n⟩
      | _, _ => none
    | _, _ => none
  | [] => none

/-- parse a hex pattern into the digit list of configuration `c` (value reduced mod 2^(w n)) -/
def parseVal (c : Cfg) (s : String) : Option (List Nat) := (parseHex s).map (ofNat c.w c.n)

/-- print a digit list as the hex of its pattern -/
def showVal (c : Cfg) (x : List Nat) : String := toHex (U c.w x)
def showBool (b : Bool) : String := if b then "true" else "false"
def showPair (c : Cfg) (p : List Nat × Bool) : String := "(" ++ showVal c p.1 ++ "," ++ showBool p.2 ++ ")"
def showOpt {α} (f : α → String) : Option α → String
  | some a => "S(" ++ f a ++ ")"
  | none => "N"
def showOut {α} (f : α → String) : Outcome α → String
  | .ok a => f a
  | .panic => "P"
def parseBool (s : String) : Option Bool := if s = "1" then some true else if s = "0" then some false else none
/-- print the pattern of an exact integer -/
def showInt (c : Cfg) (z : Int) : String := toHex (wrapU (M c.w c.n) z)
/-- value of a pattern according to the configuration's signedness -/
def valOf (c : Cfg) (x : List Nat) : Int := if c.signed then S c.w x else (U c.w x : Int)
/-- hex-encoded byte string -/
def parseBytes (s : String) : Option (List Nat) :=
  if s = "-" then some [] else
  let rec go : List Char → Option (List Nat)
    | [] => some []
    | a :: b :: rest => do
      let x ← hexDigit a; let y ← hexDigit b; let r ← go rest; pure ((x * 16 + y) :: r)
    | _ => none
  go s.toList
def showBytes (bs : List Nat) : String :=
  if bs.isEmpty then "-" else String.ofList (bs.flatMap fun b => [hexChar (b / 16), hexChar (b % 16)])

/-- A handler answers `(model answer, spec answer)` for the operations it knows. -/
abbrev Handler := Cfg → String → List String → Option (String × String)

end Bnum.Drive
