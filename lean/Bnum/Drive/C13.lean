/-
  Bnum.Drive.C13 — checked conversions.  Requests (type tokens as in Drive/C09):
    try <src> <dst> <hex>     bnum → primitive : `TryFrom<bnum> for prim`
                              bnum → bnum      : `BTryFrom`
                              uK → u-bnum / uK → i-bnum / iK → i-bnum : `From` (answer `Ok(..)`)
                              iK → u-bnum      : `TryFrom`
                              bool → bnum, char → u-bnum : `From`
                              Answer `Ok(hex)` | `Err` | `P`.  The spec answer is `*` when the
                              primitive source is WIDER than the bnum target (outside C13); for
                              char (a 32-bit source) into a target below 32 bits it is `*` only
                              when the code point does not fit.
    try <src> <dst> <hex> tf  primitive / bool / char → bnum through the blanket
                              `impl<T, U: Into<T>> TryFrom<U> for T` of core (`Ok(U::into(x))`, error type
                              `Infallible`) wherever the crate gives `From`, and the explicit `TryFrom` for
                              iK → u-bnum: same model function, same spec as the plain form.
                              (bnum type tokens are any `u<w>x<n>` / `i<w>x<n>`, up to 8192 bits.)
    from_digit <cfg> <hex digit>            Answer: hex pattern.
    from_digits <cfg> <d0,d1,…>             little-endian hex digits → hex pattern
    from_array  <cfg> <d0,d1,…>             (`From<[Digit; N]>`), same format
    digits <cfg> <hex>                      hex pattern → `d0,d1,…`
    into_array <cfg> <hex>                  (`From<BUint<N>> for [Digit; N]`), same format
-/
import Bnum.Drive.C09
import Bnum.Model.Convert
namespace Bnum.Drive.C13
open Bnum Bnum.Drive Bnum.Drive.C09

def showRes {α} (f : α → String) : Outcome (Option α) → String
  | .ok (some a) => "Ok(" ++ f a ++ ")"
  | .ok none => "Err"
  | .panic => "P"
def showSpec : Option Nat → String
  | some a => "Ok(" ++ toHex a ++ ")"
  | none => "Err"

def parseDigits (s : String) : Option (List Nat) := (s.splitOn ",").mapM parseHex
def showDigits (ds : List Nat) : String := ",".intercalate (ds.map toHex)
/-- positional value of little-endian base-`2^w` digits (spec side) -/
def digitsValue (w : Nat) (ds : List Nat) : Nat := ds.foldr (fun d acc => d + 2 ^ w * acc) 0
/-- little-endian base-`2^w` digits of `v` (spec side) -/
def valueDigits (w : Nat) : Nat → Nat → List Nat
  | 0, _ => []
  | n + 1, v => v % 2 ^ w :: valueDigits w n (v / 2 ^ w)

def handleTry (src dst v : String) : Option (String × String) := do
    let src ← parseTy src; let dst ← parseTy dst
    match src, dst with
    | .bnum c₁, .bnum c₂ =>
      let x ← parseVal c₁ v
      some (showRes (showVal c₂) (btryFrom c₁.w c₁.signed x c₂.w c₂.n c₂.signed),
            showSpec (Spec.tryConv c₁.signed (M c₁.w c₁.n) (U c₁.w x) c₂.signed (M c₂.w c₂.n)))
    | .bnum c₁, .prim t =>
      let x ← parseVal c₁ v
      some (showRes toHex (tryToPrim c₁.w c₁.signed x t),
            showSpec (Spec.tryConv c₁.signed (M c₁.w c₁.n) (U c₁.w x) t.signed (2 ^ t.bits)))
    | .prim t, .bnum c₂ =>
      let p ← parsePat t.bits v
      some (showRes (showVal c₂) (tryFromPrim c₂.w c₂.n c₂.signed t p),
            if t.bits ≤ c₂.w * c₂.n then
              showSpec (Spec.tryConv t.signed (2 ^ t.bits) p c₂.signed (M c₂.w c₂.n))
            else "*")
    | .bool, .bnum c₂ =>
      let b ← parseBool v
      some (showRes (showVal c₂)
              (.ok (some (if c₂.signed then II.fromBool c₂.n b else UI.fromBool c₂.n b))),
            showSpec (Spec.tryConv false 2 b.toNat c₂.signed (M c₂.w c₂.n)))
    | .char, .bnum c₂ =>
      if c₂.signed then none else do
      let p ← parsePat 32 v
      some (showRes (showVal c₂) ((UI.fromChar c₂.w c₂.n p).map some),
            if 32 ≤ c₂.w * c₂.n ∨ p < M c₂.w c₂.n then
              showSpec (Spec.tryConv false (2 ^ 32) p false (M c₂.w c₂.n))
            else "*")
    | _, _ => none

def handleRaw (op : String) (args : List String) : Option (String × String) :=
  match op, args with
  | "try", [src, dst, v] => handleTry src dst v
  | "try", [src, dst, v, "tf"] =>
    -- `TryFrom` form of a `From` conversion: only sources that are not bnum integers
    match parseTy src with
    | some (.bnum _) => none
    | _ => handleTry src dst v
  | "from_digit", [c, d] => do
    let c ← parseCfg c; let d ← parsePat c.w d
    some (showOut (showVal c) (UI.fromDigitO c.n d), toHex d)
  | "from_digits", [c, ds] => do
    let c ← parseCfg c; let ds ← parseDigits ds
    if ds.length ≠ c.n then none else
    some (showVal c (UI.fromDigits ds), toHex (digitsValue c.w ds))
  | "from_array", [c, ds] => do
    let c ← parseCfg c; let ds ← parseDigits ds
    if ds.length ≠ c.n then none else
    some (showVal c (UI.fromDigits ds), toHex (digitsValue c.w ds))
  | "digits", [c, v] => do
    let c ← parseCfg c; let x ← parseVal c v; let p ← parseHex v
    some (showDigits (UI.digits x), showDigits (valueDigits c.w c.n p))
  | "into_array", [c, v] => do
    let c ← parseCfg c; let x ← parseVal c v; let p ← parseHex v
    some (showDigits (UI.digits x), showDigits (valueDigits c.w c.n p))
  | _, _ => none

def handle : Handler := fun c op args =>
  match op with
  | "try" | "from_digit" | "from_digits" | "from_array" | "digits" | "into_array" =>
    handleRaw op (showCfg c :: args)
  | _ => none

end Bnum.Drive.C13
