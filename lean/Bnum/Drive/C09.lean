/-
  Bnum.Drive.C09 — casts.  Requests (the position that normally holds `cfg` holds the SOURCE type):
    cast <src> <dst> <hex>      <src>/<dst> = `u8x3`-style bnum configs, or primitive names
                                u8 u16 u32 u64 u128 usize i8 i16 i32 i64 i128 isize, or (source
                                only) bool / char; <hex> = source pattern (bool: 0/1, char: code
                                point).  Answer: hex pattern of the destination.
    cast_signed <cfg> <hex> | cast_unsigned <cfg> <hex> | to_bits <cfg> <hex> | from_bits <cfg> <hex>
                                Answer: hex pattern.
  The standard `Handler` receives the already parsed source config (`wKxN`); a config with `N = 0`
  (`u64x0`) stands for the primitive of that width.  `handleRaw` takes the raw tokens instead, for
  drivers that do not pre-parse the first argument (primitive names, bool, char).
-/
import Bnum.Drive.Util
import Bnum.Model.Cast
import Bnum.Spec.Cast
namespace Bnum.Drive.C09
open Bnum Bnum.Drive

/-- a type token of the protocol -/
inductive Ty where
  | bnum (c : Cfg)
  | prim (t : PTy)
  | bool
  | char

def parsePrim (s : String) : Option PTy :=
  match s with
  | "u8" => some ⟨8, false⟩ | "u16" => some ⟨16, false⟩ | "u32" => some ⟨32, false⟩
  | "u64" => some ⟨64, false⟩ | "u128" => some ⟨128, false⟩ | "usize" => some ⟨64, false⟩
  | "i8" => some ⟨8, true⟩ | "i16" => some ⟨16, true⟩ | "i32" => some ⟨32, true⟩
  | "i64" => some ⟨64, true⟩ | "i128" => some ⟨128, true⟩ | "isize" => some ⟨64, true⟩
  | _ => none

def parseTy (s : String) : Option Ty :=
  if s = "bool" then some .bool
  else if s = "char" then some .char
  else match parsePrim s with
    | some t => some (.prim t)
    | none =>
      match parseCfg s with
      | some c => if c.n = 0 then some (.prim ⟨c.w, c.signed⟩) else some (.bnum c)
      | none => none

def showCfg (c : Cfg) : String := (if c.signed then "i" else "u") ++ toString c.w ++ "x" ++ toString c.n

/-- parse a primitive pattern (reduced mod `2^bits`) -/
def parsePat (bits : Nat) (s : String) : Option Nat := (parseHex s).map (· % 2 ^ bits)

def handleRaw (op : String) (args : List String) : Option (String × String) :=
  match op, args with
  | "cast", [src, dst, v] => do
    let src ← parseTy src; let dst ← parseTy dst
    match src, dst with
    | .bnum c₁, .bnum c₂ =>
      let x ← parseVal c₁ v
      some (showOut (showVal c₂) (castBnum c₁.w c₁.signed x c₂.w c₂.n c₂.signed),
            toHex (Spec.cast c₁.signed (M c₁.w c₁.n) (U c₁.w x) (M c₂.w c₂.n)))
    | .bnum c₁, .prim t =>
      let x ← parseVal c₁ v
      some (showOut toHex (castToPrim c₁.w c₁.signed x t),
            toHex (Spec.cast c₁.signed (M c₁.w c₁.n) (U c₁.w x) (2 ^ t.bits)))
    | .prim t, .bnum c₂ =>
      let p ← parsePat t.bits v
      some (showOut (showVal c₂) (castFromPrim c₂.w c₂.n c₂.signed t p),
            toHex (Spec.cast t.signed (2 ^ t.bits) p (M c₂.w c₂.n)))
    | .bool, .bnum c₂ =>
      let b ← parseBool v
      some (showVal c₂ (if c₂.signed then II.castFromBool c₂.n b else UI.castFromBool c₂.n b),
            toHex (Spec.cast false 2 b.toNat (M c₂.w c₂.n)))
    | .char, .bnum c₂ =>
      let p ← parsePat 32 v
      some (showOut (showVal c₂)
              (if c₂.signed then II.castFromChar c₂.w c₂.n p else UI.castFromChar c₂.w c₂.n p),
            toHex (Spec.cast false (2 ^ 32) p (M c₂.w c₂.n)))
    | _, _ => none
  | "cast_signed", [c, v] => do
    let c ← parseCfg c; let x ← parseVal c v
    some (showVal c (UI.castSigned x), toHex (U c.w x))
  | "cast_unsigned", [c, v] => do
    let c ← parseCfg c; let x ← parseVal c v
    some (showVal c (II.castUnsigned x), toHex (U c.w x))
  | "to_bits", [c, v] => do
    let c ← parseCfg c; let x ← parseVal c v
    some (showVal c (II.toBits x), toHex (U c.w x))
  | "from_bits", [c, v] => do
    let c ← parseCfg c; let x ← parseVal c v
    some (showVal c (II.fromBits x), toHex (U c.w x))
  | _, _ => none

def handle : Handler := fun c op args =>
  match op with
  | "cast" | "cast_signed" | "cast_unsigned" | "to_bits" | "from_bits" =>
    handleRaw op (showCfg c :: args)
  | _ => none

end Bnum.Drive.C09
