/-
  Bnum.Drive.C09 — casts.  Requests (the position that normally holds `cfg` holds the SOURCE type):
    cast <src> <dst> <hex>      <src>/<dst> = `u8x3`-style bnum configs, or primitive names
                                u8 u16 u32 u64 u128 usize i8 i16 i32 i64 i128 isize, or (source
                                only) bool / char; <hex> = source pattern (bool: 0/1, char: code
                                point).  Answer: hex pattern of the destination.
    as <src> <dst> <hex>        the same cast through the blanket `As::as_` (same answer)
    cast_signed <cfg> <hex> | cast_unsigned <cfg> <hex> | to_bits <cfg> <hex> | from_bits <cfg> <hex>
                                Answer: hex pattern.
    cast_unsigned_obs | to_bits_obs <icfg> <hex>      the harness builds the `BInt` without `from_bits`
    cast_signed_obs <ucfg> <hex> | from_bits_obs <icfg> <hex>
                                Answer: `<hex pattern read through as_bits().digits()>/<is_negative()>`
    reinterp_vs_cast <cfg> <hex>   `x.cast_signed() == BInt::cast_from(x)` (unsigned cfg) resp.
                                `cast_unsigned / to_bits / from_bits == the same-width As cast`: `true`, `true/true/true`
  The standard `Handler` receives the already parsed source config (`wKxN`); a config with `N = 0`
  (`u64x0`) stands for the primitive of that width.  `handleRaw` takes the raw tokens instead, for
  drivers that do not pre-parse the first argument (primitive names, bool, char).
-/
import Bnum.Drive.Util
import Bnum.Model.Cast
import Bnum.Model.C09Extra
import Bnum.Spec.Cast
namespace Bnum.Drive.C09
open Bnum Bnum.Drive

/-- a type token of the protocol -/
inductive Ty where
  | bnum (c : Cfg)
  | prim (t : PTy)
  | bool
  | char

def parsePrim (s : String) : Option PTy :=
  match s with
  | "u8" => some ⟨8, false⟩ | "u16" => some ⟨16, false⟩ | "u32" => some ⟨32, false⟩
  | "u64" => some ⟨64, false⟩ | "u128" => some ⟨128, false⟩ | "usize" => some ⟨64, false⟩
  | "i8" => some ⟨8, true⟩ | "i16" => some ⟨16, true⟩ | "i32" => some ⟨32, true⟩
  | "i64" => some ⟨64, true⟩ | "i128" => some ⟨128, true⟩ | "isize" => some ⟨64, true⟩
  | _ => none

def parseTy (s : String) : Option Ty :=
  if s = "bool" then some .bool
  else if s = "char" then some .char
  else match parsePrim s with
    | some t => some (.prim t)
    | none =>
      match parseCfg s with
      | some c => if c.n = 0 then some (.prim ⟨c.w, c.signed⟩) else some (.bnum c)
      | none => none

def showCfg (c : Cfg) : String := (if c.signed then "i" else "u") ++ toString c.w ++ "x" ++ toString c.n

/-- parse a primitive pattern (reduced mod `2^bits`) -/
def parsePat (bits : Nat) (s : String) : Option Nat := (parseHex s).map (· % 2 ^ bits)

/-- the route of the request: `cast` = `<D as CastFrom<S>>::cast_from(x)`, `as` = `x.as_::<D>()` -/
def route {σ τ : Type} (viaAs : Bool) (castFrom : σ → τ) (x : σ) : τ :=
  if viaAs then as_ castFrom x else castFrom x

def castAns (viaAs : Bool) (src dst v : String) : Option (String × String) := do
  let src ← parseTy src; let dst ← parseTy dst
  match src, dst with
  | .bnum c₁, .bnum c₂ =>
    let x ← parseVal c₁ v
    some (showOut (showVal c₂) (route viaAs (fun x => castBnum c₁.w c₁.signed x c₂.w c₂.n c₂.signed) x),
          toHex (Spec.cast c₁.signed (M c₁.w c₁.n) (U c₁.w x) (M c₂.w c₂.n)))
  | .bnum c₁, .prim t =>
    let x ← parseVal c₁ v
    some (showOut toHex (route viaAs (fun x => castToPrim c₁.w c₁.signed x t) x),
          toHex (Spec.cast c₁.signed (M c₁.w c₁.n) (U c₁.w x) (2 ^ t.bits)))
  | .prim t, .bnum c₂ =>
    let p ← parsePat t.bits v
    some (showOut (showVal c₂) (route viaAs (castFromPrim c₂.w c₂.n c₂.signed t) p),
          toHex (Spec.cast t.signed (2 ^ t.bits) p (M c₂.w c₂.n)))
  | .prim t₁, .prim t₂ =>
    -- `primitive_cast_impl!` (`from as Self`)
    let p ← parsePat t₁.bits v
    some (toHex (route viaAs (castPrim t₁ t₂) p),
          toHex (Spec.cast t₁.signed (2 ^ t₁.bits) p (2 ^ t₂.bits)))
  | .bool, .bnum c₂ =>
    let b ← parseBool v
    some (showVal c₂ (route viaAs (fun b => if c₂.signed then II.castFromBool c₂.n b else UI.castFromBool c₂.n b) b),
          toHex (Spec.cast false 2 b.toNat (M c₂.w c₂.n)))
  | .char, .bnum c₂ =>
    let p ← parsePat 32 v
    some (showOut (showVal c₂)
            (route viaAs (fun p => if c₂.signed then II.castFromChar c₂.w c₂.n p else UI.castFromChar c₂.w c₂.n p) p),
          toHex (Spec.cast false (2 ^ 32) p (M c₂.w c₂.n)))
  | _, _ => none

/-- `pattern/is_negative` of a `BInt` (what `as_bits().digits()` and `is_negative()` show) -/
def showObs (c : Cfg) (r : List Nat) : String := showVal c r ++ "/" ++ showBool (isNegative c.w r)
/-- … and what they must show for a `BInt` holding the pattern `u`: the sign is bit `BITS - 1` -/
def specObs (c : Cfg) (u : Nat) : String := toHex u ++ "/" ++ showBool (decide (M c.w c.n ≤ 2 * u))
/-- `cast == reinterpretation` as the harness prints it (`P` if the cast panics) -/
def eqOut (o : Outcome (List Nat)) (r : List Nat) : Option String :=
  match o with
  | .ok a => some (showBool (a == r))
  | .panic => none

def handleRaw (op : String) (args : List String) : Option (String × String) :=
  match op, args with
  | "cast", [src, dst, v] => castAns false src dst v
  | "as", [src, dst, v] => castAns true src dst v
  | "cast_signed", [c, v] => do
    let c ← parseCfg c; let x ← parseVal c v
    some (showVal c (UI.castSigned x), toHex (U c.w x))
  | "cast_unsigned", [c, v] => do
    let c ← parseCfg c; let x ← parseVal c v
    some (showVal c (II.castUnsigned x), toHex (U c.w x))
  | "to_bits", [c, v] => do
    let c ← parseCfg c; let x ← parseVal c v
    some (showVal c (II.toBits x), toHex (U c.w x))
  | "from_bits", [c, v] => do
    let c ← parseCfg c; let x ← parseVal c v
    some (showVal c (II.fromBits x), toHex (U c.w x))
  -- the same functions observed without `from_bits`/`to_bits` on the harness side
  | "cast_unsigned_obs", [c, v] => do
    let c ← parseCfg c; let x ← parseVal c v
    some (showVal c (II.castUnsigned x), toHex (U c.w x))
  | "to_bits_obs", [c, v] => do
    let c ← parseCfg c; let x ← parseVal c v
    some (showVal c (II.toBits x), toHex (U c.w x))
  | "cast_signed_obs", [c, v] => do
    let c ← parseCfg c; let x ← parseVal c v
    some (showObs c (UI.castSigned x), specObs c (U c.w x))
  | "from_bits_obs", [c, v] => do
    let c ← parseCfg c; let x ← parseVal c v
    some (showObs c (II.fromBits x), specObs c (U c.w x))
  -- reinterpretation against the same-width `As` cast (`u`: cast_signed; `i`: cast_unsigned/to_bits/from_bits)
  | "reinterp_vs_cast", [c, v] => do
    let c ← parseCfg c; let x ← parseVal c v
    if c.signed then
      let toU := castBnum c.w true x c.w c.n false
      let toI := castBnum c.w false x c.w c.n true
      let mo := match eqOut toU (II.castUnsigned x), eqOut toU (II.toBits x), eqOut toI (II.fromBits x) with
        | some a, some b, some d => a ++ "/" ++ b ++ "/" ++ d
        | _, _, _ => "P"
      some (mo, "true/true/true")
    else
      let mo := match eqOut (castBnum c.w false x c.w c.n true) (UI.castSigned x) with
        | some a => a
        | none => "P"
      some (mo, "true")
  | _, _ => none

def handle : Handler := fun c op args =>
  match op with
  | "cast" | "as" | "cast_signed" | "cast_unsigned" | "to_bits" | "from_bits" | "cast_signed_obs"
  | "cast_unsigned_obs" | "to_bits_obs" | "from_bits_obs" | "reinterp_vs_cast" =>
    handleRaw op (showCfg c :: args)
  | _ => none

end Bnum.Drive.C09
