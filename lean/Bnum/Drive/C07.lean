/-
  Bnum.Drive.C07 — comparison, equality, hashing, sign.
  Ops (both signednesses unless noted; `a`, `b`, `mn`, `mx` hex patterns):
    inherent const fns : eq a b | ne a b | lt a b | le a b | gt a b | ge a b | cmp a b | min a b
                         | max a b | clamp a mn mx
    trait / operators  : ord_cmp a b | ord_min a b | ord_max a b | ord_clamp a mn mx (`Ord` methods;
                         bnum overrides max/min/clamp to forward to the inherent fns)
                         | partial_cmp a b | op_eq a b (`==`, derived PartialEq) | op_ne a b (`!=`)
                         | op_lt a b (`<`) | op_le a b | op_gt a b | op_ge a b
                         | hash_eq a b   (do `a` and `b` feed the hasher the same input?)
                         | hash_routes a (the value rebuilt by other routes — `!!a`, `a+1-1`, rotations,
                           `clone`, … — hashes like the `from_digits` one; spec `true`: equal values)
                         | hash_set a b  (`HashSet` holding `a` contains `b`: hash equal ∧ `==`;
                           spec: the values are equal)
                         | hash_digits a (is the hasher fed exactly what hashing the digit array feeds
                           it? model `true` = `derive(Hash)`; spec `*`: the property does not fix it)
    signed only        : signum a | is_positive a | is_negative a
  Answers: `true`/`false`; `Less`/`Equal`/`Greater`; `S(Less)`…; hex pattern; `P` (clamp, mn > mx).
  Spec answers compare the denoted integers (`valOf`: `U` for unsigned, `S` for signed) only.
  `hash_eq`: spec is `true` when the values are equal and `*` otherwise (unequal values may collide).
-/
import Bnum.Drive.Util
import Bnum.Model.BitOps
import Bnum.Spec.Bits
namespace Bnum.Drive.C07
open Bnum Bnum.Drive

private def showOrd : Ordering → String
  | .lt => "Less"
  | .eq => "Equal"
  | .gt => "Greater"

private def mcmp (c : Cfg) : List Nat → List Nat → Ordering :=
  if c.signed then II.cmp c.w else UI.cmp

def handle : Handler := fun c op args =>
  let w := c.w
  let cm := mcmp c
  let bin (f : List Nat → List Nat → String) (g : Int → Int → String) (a b : String) :
      Option (String × String) := do
    let a ← parseVal c a; let b ← parseVal c b
    some (f a b, g (valOf c a) (valOf c b))
  match op, args with
  | "eq", [a, b] =>
    bin (fun a b => showBool (if c.signed then II.eq a b else UI.eq a b))
        (fun x y => showBool (x = y)) a b
  | "ne", [a, b] =>
    bin (fun a b => showBool (if c.signed then II.ne a b else UI.ne a b))
        (fun x y => showBool (x ≠ y)) a b
  | "lt", [a, b] => bin (fun a b => showBool (CmpImpl.lt cm a b)) (fun x y => showBool (x < y)) a b
  | "le", [a, b] => bin (fun a b => showBool (CmpImpl.le cm a b)) (fun x y => showBool (x ≤ y)) a b
  | "gt", [a, b] => bin (fun a b => showBool (CmpImpl.gt cm a b)) (fun x y => showBool (x > y)) a b
  | "ge", [a, b] => bin (fun a b => showBool (CmpImpl.ge cm a b)) (fun x y => showBool (x ≥ y)) a b
  | "cmp", [a, b] => bin (fun a b => showOrd (cm a b)) (fun x y => showOrd (compare x y)) a b
  | "ord_cmp", [a, b] =>
    bin (fun a b => showOrd (Traits.ordCmp cm a b)) (fun x y => showOrd (compare x y)) a b
  | "ord_min", [a, b] =>
    bin (fun a b => showVal c (Traits.ordMin cm a b)) (fun x y => showInt c (if x ≤ y then x else y)) a b
  | "ord_max", [a, b] =>
    bin (fun a b => showVal c (Traits.ordMax cm a b)) (fun x y => showInt c (if x ≤ y then y else x)) a b
  | "ord_clamp", [a, mn, mx] => do
    let a ← parseVal c a; let mn ← parseVal c mn; let mx ← parseVal c mx
    let x := valOf c a; let lo := valOf c mn; let hi := valOf c mx
    some (showOut (showVal c) (Traits.ordClamp cm a mn mx),
      if lo > hi then "P" else showInt c (Spec.clampV x lo hi))
  | "partial_cmp", [a, b] =>
    bin (fun a b => showOpt showOrd (Traits.partialCmp cm a b))
        (fun x y => showOpt showOrd (some (compare x y))) a b
  | "op_eq", [a, b] => bin (fun a b => showBool (Traits.opEq a b)) (fun x y => showBool (x = y)) a b
  | "op_ne", [a, b] => bin (fun a b => showBool (Traits.opNe a b)) (fun x y => showBool (x ≠ y)) a b
  | "op_lt", [a, b] => bin (fun a b => showBool (Traits.opLt cm a b)) (fun x y => showBool (x < y)) a b
  | "op_le", [a, b] => bin (fun a b => showBool (Traits.opLe cm a b)) (fun x y => showBool (x ≤ y)) a b
  | "op_gt", [a, b] => bin (fun a b => showBool (Traits.opGt cm a b)) (fun x y => showBool (x > y)) a b
  | "op_ge", [a, b] => bin (fun a b => showBool (Traits.opGe cm a b)) (fun x y => showBool (x ≥ y)) a b
  | "hash_eq", [a, b] =>
    bin (fun a b => showBool (Traits.hashWith id a == Traits.hashWith id b))
        (fun x y => if x = y then "true" else "*") a b
  | "hash_routes", [a] => do
    let a ← parseVal c a
    some (showBool (Traits.hashWith id a == Traits.hashWith id a), "true")
  | "hash_set", [a, b] =>
    bin (fun a b => showBool (Traits.hashWith id a == Traits.hashWith id b && Traits.opEq a b))
        (fun x y => showBool (x = y)) a b
  | "hash_digits", [a] => do
    let _ ← parseVal c a
    some ("true", "*")
  | "min", [a, b] =>
    bin (fun a b => showVal c (CmpImpl.min cm a b)) (fun x y => showInt c (if x ≤ y then x else y)) a b
  | "max", [a, b] =>
    bin (fun a b => showVal c (CmpImpl.max cm a b)) (fun x y => showInt c (if x ≤ y then y else x)) a b
  | "clamp", [a, mn, mx] => do
    let a ← parseVal c a; let mn ← parseVal c mn; let mx ← parseVal c mx
    let x := valOf c a; let lo := valOf c mn; let hi := valOf c mx
    some (showOut (showVal c) (CmpImpl.clamp cm a mn mx),
      if lo > hi then "P" else showInt c (Spec.clampV x lo hi))
  | "signum", [a] =>
    if !c.signed then none else do
    let a ← parseVal c a
    some (showVal c (II.signum w a), showInt c (Spec.signum (S w a)))
  | "is_positive", [a] =>
    if !c.signed then none else do
    let a ← parseVal c a
    some (showBool (II.isPositive w a), showBool (0 < S w a))
  | "is_negative", [a] =>
    if !c.signed then none else do
    let a ← parseVal c a
    some (showBool (isNegative w a), showBool (S w a < 0))
  | _, _ => none

end Bnum.Drive.C07
