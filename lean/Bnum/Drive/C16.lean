/-
  Bnum.Drive.C16 — associated constants.  Requests:
    const <cfg> <NAME>     NAME ∈ MIN MAX ZERO ONE TWO THREE FOUR FIVE SIX SEVEN EIGHT NINE TEN, and for
                           signed configs also NEG_ONE … NEG_TEN.  Answer: hex pattern of the constant
                           (`P` if the constant evaluation fails, i.e. the instantiation does not compile).
    const_bits <cfg>       Answer: `BITS` in decimal.
    const_bytes <cfg>      Answer: `BYTES` in decimal.
    alias <cfg> <NAME>     NAME ∈ U128 … U8192, I128 … I8192 (`<cfg>` is a dummy, e.g. `u64x0`).
                           Answer: `<BITS>,<N>` of the aliased type: the model looks NAME up in
                           `Consts.aliases` and computes `BITS` as `BUint::<N>::BITS` does (64 × N);
                           the spec parses the advertised width out of the NAME and divides by 64.
  Spec: the pattern of the advertised value (`MIN`/`MAX` of the range, the numeral, its negation);
  `BITS = digit bits × N`, `BYTES = BITS / 8`.
  (The cross-digit-type comparisons of C16 are crate-vs-crate in the harness, not driver requests: every
   request of the C16 run is an ordinary request of another property's vocabulary, answered by that
   property's handler.  In particular `cast <src> <dst> <hex>` between configurations outside C09's
   harness grid — every member of the equal-width sets up to 8192 bits, and the (narrow, wide) extension
   pairs — is served by harness bin c16 (`cast_set!`) and answered here by Drive/C09's handler, which is
   generic in both configurations: model `castBnum`, spec `Spec.cast`.)
-/
import Bnum.Drive.Util
import Bnum.Model.Consts
import Bnum.Spec.Consts
namespace Bnum.Drive.C16
open Bnum Bnum.Drive

def handle : Handler := fun c op args =>
  match op, args with
  | "const", [name] =>
    match Consts.byName c.signed c.w c.n name with
    | none => none
    | some mo =>
      let sp :=
        match Spec.Consts.value c.signed (M c.w c.n) name with
        | some z => if Spec.rep c.signed (M c.w c.n) z then showInt c z else "P"
        | none => "?"
      some (showOut (showVal c) mo, sp)
  | "const_bits", [] =>
    some (showOut toString (if c.signed then Consts.II.BITS c.w c.n else Consts.UI.BITS c.w c.n),
      toString (Spec.Consts.bits c.w c.n))
  | "const_bytes", [] =>
    some (showOut toString (if c.signed then Consts.II.BYTES c.w c.n else Consts.UI.BYTES c.w c.n),
      toString (Spec.Consts.bytes c.w c.n))
  | "alias", [name] =>
    match Consts.aliases.find? (fun e => e.1 == name) with
    | none => none
    | some (_, signed, n, _) =>
      let bits := if signed then Consts.II.BITS Consts.aliasDigitBits n else Consts.UI.BITS Consts.aliasDigitBits n
      let sp := match Spec.Consts.aliasAdvertised name with
        | some (_, b, k) => toString b ++ "," ++ toString k
        | none => "?"
      some (showOut (fun b => toString b ++ "," ++ toString n) bits, sp)
  | _, _ => none

end Bnum.Drive.C16
