/-
  Bnum.Drive.C16 — associated constants.  Requests:
    const <cfg> <NAME>     NAME ∈ MIN MAX ZERO ONE TWO THREE FOUR FIVE SIX SEVEN EIGHT NINE TEN, and for
                           signed configs also NEG_ONE … NEG_TEN.  Answer: hex pattern of the constant
                           (`P` if the constant evaluation fails, i.e. the instantiation does not compile).
    const_bits <cfg>       Answer: `BITS` in decimal.
    const_bytes <cfg>      Answer: `BYTES` in decimal.
  Spec: the pattern of the advertised value (`MIN`/`MAX` of the range, the numeral, its negation);
  `BITS = digit bits × N`, `BYTES = BITS / 8`.
  (The cross-digit-type comparisons of C16 are crate-vs-crate in the harness, not driver requests.)
-/
import Bnum.Drive.Util
import Bnum.Model.Consts
import Bnum.Spec.Consts
namespace Bnum.Drive.C16
open Bnum Bnum.Drive

def handle : Handler := fun c op args =>
  match op, args with
  | "const", [name] =>
    match Consts.byName c.signed c.w c.n name with
    | none => none
    | some mo =>
      let sp :=
        match Spec.Consts.value c.signed (M c.w c.n) name with
        | some z => if Spec.rep c.signed (M c.w c.n) z then showInt c z else "P"
        | none => "?"
      some (showOut (showVal c) mo, sp)
  | "const_bits", [] =>
    some (showOut toString (if c.signed then Consts.II.BITS c.w c.n else Consts.UI.BITS c.w c.n),
      toString (Spec.Consts.bits c.w c.n))
  | "const_bytes", [] =>
    some (showOut toString (if c.signed then Consts.II.BYTES c.w c.n else Consts.UI.BYTES c.w c.n),
      toString (Spec.Consts.bytes c.w c.n))
  | _, _ => none

end Bnum.Drive.C16
