/-
  Bnum.Drive.C19 — `num_traits::{FromPrimitive, ToPrimitive, AsPrimitive}` (feature `numtraits`).
  `<prim>` ∈ u8 u16 u32 u64 u128 usize i8 i16 i32 i64 i128 isize (usize / isize are 64-bit words).
  An optional build-mode token `dbg` | `rel` may follow `cfg` (default `dbg`); it only selects the
  `cfg(debug_assertions)` bodies (`<<`, unary `-`, float `debug_assert!`s), none of which can fire.
    from_<prim>  cfg [mode] <hex>   `<T as FromPrimitive>::from_<prim>(p)`; <hex> = pattern of the
                                    primitive (at most its width).         Answer `S(hex)` | `N` | `P`
    nt_from_f32  cfg [mode] <bits>  `<T as FromPrimitive>::from_f32(f32::from_bits(bits))`
    nt_from_f64  cfg [mode] <bits>                                          Answer `S(hex)` | `N` | `P`
                                    (spec `*` for a negative float in (-1, 0) into an unsigned T)
    to_<prim>    cfg [mode] a       `a.to_<prim>()`; answer `S(hex of the primitive pattern)` | `N`
    nt_to_f32    cfg [mode] a       `ToPrimitive::to_f32(&a)`; answer `S(bits hex)`
    nt_to_f64    cfg [mode] a
    as_<prim>    cfg [mode] a       `AsPrimitive::<prim>::as_(a)`; answer hex of the primitive pattern
    as_f32 | as_f64 cfg [mode] a    answer: bits hex
  The other three `AsPrimitive` impl families of `src/int/numtraits.rs` (Model/C19Extra.lean):
    as_from_<prim> cfg [mode] <hex> `<prim as AsPrimitive<T>>::as_(p)`  (`as_bigint_impl!`); answer hex of T
    as_from_char cfg [mode] <hex>   `<char as AsPrimitive<T>>::as_(c)`, <hex> = code point (a scalar value)
    as_from_bool cfg [mode] 0|1     `<bool as AsPrimitive<T>>::as_(b)`
    as_from_f32 | as_from_f64 cfg [mode] <bits>   `<f32 as AsPrimitive<T>>::as_(f32::from_bits(bits))`
    as_big       cfg [mode] <dst> a `<T as AsPrimitive<D>>::as_(a)`, <dst> = `u8x5`-style config of D
                                    with the SAME digit width as cfg (the impls exist only within
                                    one digit type); answer hex of D
  The harness answers every `as_*` request only after comparing `AsPrimitive::as_` with
  `CastFrom::cast_from` and `bnum::cast::As::as_` on the same operand (`MISMATCH(..)` otherwise).
  Model answer: Bnum.Model.NumConv, and Bnum.Model.NumConvD (every bnum-integer operation on digit
  lists) for the six float ops; spec answer: Bnum.Spec.NumConv (exact integers).
-/
import Bnum.Drive.Util
import Bnum.Model.NumConv
import Bnum.Model.NumConvD
import Bnum.Model.C19Extra
import Bnum.Spec.NumConv
namespace Bnum.Drive.C19
open Bnum Bnum.Drive

def parsePrim (s : String) : Option NumC.PrimT :=
  match s with
  | "u8" => some .u8 | "u16" => some .u16 | "u32" => some .u32 | "u64" => some .u64
  | "u128" => some .u128 | "usize" => some .usize
  | "i8" => some .i8 | "i16" => some .i16 | "i32" => some .i32 | "i64" => some .i64
  | "i128" => some .i128 | "isize" => some .isize
  | _ => none

def parseFloatName (s : String) : Option Bool :=
  if s = "f32" then some false else if s = "f64" then some true else none

private def mfmt (is64 : Bool) : FloatFmt := if is64 then fmtF64 else fmtF32
private def sfmt (is64 : Bool) : Spec.Fmt := if is64 then Spec.f64 else Spec.f32

def showRes {α} (f : α → String) : Outcome (Option α) → String
  | .ok (some a) => "S(" ++ f a ++ ")"
  | .ok none => "N"
  | .panic => "P"
def showSpec : Option Nat → String
  | some a => "S(" ++ toHex a ++ ")"
  | none => "N"
def showFloatAns : Spec.NumC.FloatAns → String
  | .some a => "S(" ++ toHex a ++ ")"
  | .none => "N"
  | .any => "*"

private def splitMode : List String → Bool × List String
  | "dbg" :: r => (true, r)
  | "rel" :: r => (false, r)
  | r => (true, r)

/-- `op` = `pre ++ rest` ⇒ `some rest` -/
private def stripPrefix (pre op : String) : Option String :=
  if op.startsWith pre then some (op.drop pre.length).toString else none

def handle : Handler := fun c op args =>
  let (dbg, args) := splitMode args
  let w := c.w
  let n := c.n
  let m := M w n
  match op, args with
  | "nt_from_f32", [b] | "nt_from_f64", [b] => do
    let is64 := op == "nt_from_f64"
    let bits ← parseHex b
    if bits ≥ 2 ^ (mfmt is64).bits then none else
    some (showRes (showVal c) (NumCD.fromFloat dbg (mfmt is64) w n c.signed bits),
          showFloatAns (Spec.NumC.fromFloat (sfmt is64) c.signed m bits))
  | "nt_to_f32", [a] | "nt_to_f64", [a] => do
    let is64 := op == "nt_to_f64"
    let x ← parseVal c a
    some (showRes toHex (NumCD.toFloat dbg (mfmt is64) w c.signed x),
          "S(" ++ toHex (Spec.NumC.toFloat (sfmt is64) (valOf c x)) ++ ")")
  | "as_f32", [a] | "as_f64", [a] => do
    let is64 := op == "as_f64"
    let x ← parseVal c a
    some (showOut toHex (NumCD.asFloat dbg (mfmt is64) w c.signed x),
          toHex (Spec.intToFloat (sfmt is64) (valOf c x)))
  | "as_from_f32", [b] | "as_from_f64", [b] => do
    let is64 := op == "as_from_f64"
    let bits ← parseHex b
    if bits ≥ 2 ^ (mfmt is64).bits then none else
    some (showOut (showVal c) (NumC.asFromFloat dbg (mfmt is64) w n c.signed bits),
          toHex (Spec.floatToInt (sfmt is64) c.signed m bits))
  | "as_from_char", [v] => do
    let p ← parseHex v
    -- only Unicode scalar values are `char`s
    if p ≥ 0x110000 || (0xd800 ≤ p && p < 0xe000) then none else
    some (showOut (showVal c) (NumC.asFromChar w n c.signed p),
          toHex (Spec.cast false (2 ^ 32) p m))
  | "as_from_bool", [v] => do
    let b ← parseBool v
    some (showVal c (NumC.asFromBool n c.signed b), toHex (Spec.cast false 2 b.toNat m))
  | "as_big", [dst, a] => do
    let d ← parseCfg dst
    if d.w ≠ w || d.n = 0 then none else
    let x ← parseVal c a
    some (showOut (showVal d) (NumC.asBig w c.signed x d.n d.signed),
          toHex (Spec.cast c.signed m (U w x) (M d.w d.n)))
  | _, [v] =>
    match stripPrefix "as_from_" op with
    | some pn => do
      let t ← parsePrim pn
      let p ← parseHex v
      if p ≥ 2 ^ t.ty.bits then none else
      some (showOut (showVal c) (NumC.asFromPrim w n c.signed t.ty p),
            toHex (Spec.cast t.ty.signed (2 ^ t.ty.bits) p m))
    | none =>
    match stripPrefix "from_" op with
    | some pn => do
      let t ← parsePrim pn
      let p ← parseHex v
      if p ≥ 2 ^ t.ty.bits then none else
      some (showRes (showVal c) (NumC.fromPrim w n c.signed t p),
            showSpec (Spec.NumC.conv t.ty.signed (2 ^ t.ty.bits) p c.signed m))
    | none =>
    match stripPrefix "to_" op with
    | some pn => do
      let t ← parsePrim pn
      let x ← parseVal c v
      some (showRes toHex (NumC.toPrim w c.signed x t.ty),
            showSpec (Spec.NumC.conv c.signed m (U w x) t.ty.signed (2 ^ t.ty.bits)))
    | none =>
    match stripPrefix "as_" op with
    | some pn => do
      let t ← parsePrim pn
      let x ← parseVal c v
      some (showOut toHex (NumC.asPrim w c.signed x t.ty),
            toHex (Spec.cast c.signed m (U w x) (2 ^ t.ty.bits)))
    | none => none
  | _, _ => none

end Bnum.Drive.C19
