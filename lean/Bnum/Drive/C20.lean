/-
  Bnum.Drive.C20 — random generation (`src/random.rs`, feature `rand`) driven by a scripted RNG.
  `<bytes>` = the bytes the scripted `RngCore` hands out, hex-encoded (`-` = none).
  Requests (cfg = `u8x3`, `i64x2`, …; low/high/x = hex patterns):
    sample_single            cfg low high <bytes>   `UniformInt::sample_single(low, high, rng)`
                                                    (= `rng.gen_range(low..high)`)
    sample_single_inclusive  cfg low high <bytes>   (= `rng.gen_range(low..=high)`)
    gen_range                cfg low high <bytes>   `rng.gen_range(low..high)` (rand's forwarder)
    gen_range_inclusive      cfg low high <bytes>   `rng.gen_range(low..=high)`
    uniform_new              cfg low high <bytes>   `Uniform::new(low, high).sample(rng)`
    uniform_new_inclusive    cfg low high <bytes>   `Uniform::new_inclusive(low, high).sample(rng)`
    standard                 cfg <bytes>            `rng.gen::<T>()`
    fill                     cfg k <bytes>          `try_fill_slice(&mut [T; k], rng)` (k decimal)
    fill_each                cfg k <bytes>          k successive `rng.gen::<T>()` (same answer as `fill`)
    check_in_range           cfg low high x incl    incl = `1`: low ≤ x ≤ high, `0`: low ≤ x < high
                                                    (`Range(Inclusive)::contains` on the crate's `PartialOrd`)
    sampler_new(_inclusive)  cfg low high <bytes>   `UniformInt::new(_inclusive)(low, high).sample(rng)` (the
                                                    `UniformSampler` methods called directly)
    uniform_from(_inclusive) cfg low high <bytes>   `rng.sample(Uniform::from(low..high))` / `(low..=high)`
    uniform_many             cfg incl low high k <bytes>   ONE `Uniform::new(_inclusive)(low, high)`, `k` draws
    fill_trait | rng_fill | rng_try_fill  cfg k <bytes>    `Fill::try_fill(Slice<T>)`, `rng.fill(..)`,
                                                    `rng.try_fill(..)` on the `Slice<T>` wrapper (same answer as `fill`)
    enum_words               cfg which low high     COMPLETE ENUMERATION (BITS ≤ 16 only): every one of the
        `2^BITS` RNG words `v`, each as the stream `v ++ 0` (the zero word is accepted by every range),
        through `which` = `ssi` sample_single_inclusive | `ss` sample_single | `gri`/`gr` gen_range |
        `uni`/`un` one stored `Uniform::new(_inclusive)` sampled `2^BITS` times.
        Answer `rej=R;vals=V;min=A;max=B;h=H`: R words rejected, V distinct values returned for an accepted
        word, A/B smallest/largest number of accepted words mapped to one of them (unbiased ⇔ A = B),
        H = Σ (v+1)·(code_v+1), code_v = returned pattern (+ 2^BITS when `v` was rejected).
    <op>_err                 same request as <op>; the scripted RNG's `try_fill_bytes` returns `Err`
                                                    instead of panicking when it runs out (same answers)
  Answers: `S(x)@c` (value pattern `x`, `c` = bytes consumed, decimal); `[a,b,…]@c` for `fill`;
  `P` = panic (empty range); `exhausted` = the stream ran out; `true`/`false` for check_in_range.
  The operators that depend on `cfg(debug_assertions)` never overflow here (proved), so there is
  no build-mode argument; the model is run with `dbg = true`.
  The MODEL answer of the six sampling ops is computed by the DIGIT-LEVEL model
  (`Model/RandomD.lean`: real carry chains, Knuth D for `%`, digit-level `widening_mul`, …), proved
  in `Lemmas/RandomD.lean` to refine the value-level model `Model/Random.lean`.
-/
import Bnum.Drive.Util
import Bnum.Model.Random
import Bnum.Model.RandomD
import Bnum.Spec.Random
import Bnum.Model.C20Extra
import Bnum.Spec.C20Extra
namespace Bnum.Drive.C20
open Bnum Bnum.Drive

private def showDrawD (c : Cfg) (total : Nat) : Outcome RandD.Draw → String
  | .panic => "P"
  | .ok none => "exhausted"
  | .ok (some (x, rest)) => "S(" ++ showVal c x ++ ")@" ++ toString (total - rest.length)

private def showDrawS (c : Cfg) : Option (Option (Int × Nat)) → String
  | none => "P"
  | some none => "exhausted"
  | some (some (z, cnt)) => "S(" ++ showInt c z ++ ")@" ++ toString cnt

private def showList (xs : List String) : String := "[" ++ ",".intercalate xs ++ "]"

private def showDrawsD (c : Cfg) (total : Nat) : Outcome RandD.Draws → String
  | .panic => "P"
  | .ok none => "exhausted"
  | .ok (some (xs, rest)) => showList (xs.map (showVal c)) ++ "@" ++ toString (total - rest.length)

/-- digest of a complete enumeration of the `2^bits` words; `f stream` = `none` (panic) |
    `some none` (exhausted) | `some (some (pattern, bytes consumed))` -/
private def enumDigest (bits bytes : Nat) (f : List Nat → Option (Option (Nat × Nat))) : String := Id.run do
  let m := 2 ^ bits
  let mut cnt : Array Nat := Array.replicate m 0
  let mut rej := 0
  let mut h := 0
  let zeros := List.replicate bytes 0
  for v in [0:m] do
    match f (ofNat 8 bytes v ++ zeros) with
    | none => return "P"
    | some none => return "exhausted"
    | some (some (x, used)) =>
      if used == bytes then
        cnt := cnt.modify x (· + 1)
        h := h + (v + 1) * (x + 1)
      else
        rej := rej + 1
        h := h + (v + 1) * (m + x + 1)
  let mut vals := 0
  let mut mn := 0
  let mut mx := 0
  for k in cnt do
    if k > 0 then
      vals := vals + 1
      mn := if mn == 0 then k else min mn k
      mx := max mx k
  return s!"rej={rej};vals={vals};min={mn};max={mx};h={h}"

def handle : Handler := fun c op args =>
  let op := if op.endsWith "_err" then String.ofList (op.toList.take (op.length - 4)) else op
  let w := c.w
  let n := c.n
  let m := M w n
  let bits := w * n
  let bytes := bits / 8
  let sg := c.signed
  let specSample (zone : Nat → Nat) (lo hi : Int) (incl : Bool) (s : List Nat) :
      Option (Option (Int × Nat)) :=
    if incl then
      if lo ≤ hi then some (Spec.Random.sampleInclusive sg m bytes zone lo hi s) else none
    else
      if lo < hi then some (Spec.Random.sampleInclusive sg m bytes zone lo (hi - 1) s) else none
  let fillAns (k bs : String) : Option (String × String) := do
    let k ← k.toNat?; let s ← parseBytes bs
    let mo := match Rand.fillSlice w n k s with
      | none => "exhausted"
      | some (xs, rest) => showList (xs.map (showVal c)) ++ "@" ++ toString (s.length - rest.length)
    let sp := match Spec.Random.fill bytes k s with
      | none => "exhausted"
      | some (vs, cnt) => showList (vs.map toHex) ++ "@" ++ toString cnt
    some (mo, sp)
  match op, args with
  | "sample_single", [lo, hi, bs] => do
    let lo ← parseVal c lo; let hi ← parseVal c hi; let s ← parseBytes bs
    some (showDrawD c s.length (RandD.sampleSingle sg true w n lo hi s),
          showDrawS c (specSample (Spec.Random.zoneSingle bits m) (valOf c lo) (valOf c hi) false s))
  | "sample_single_inclusive", [lo, hi, bs] => do
    let lo ← parseVal c lo; let hi ← parseVal c hi; let s ← parseBytes bs
    some (showDrawD c s.length (RandD.sampleSingleInclusive sg true w n lo hi s),
          showDrawS c (specSample (Spec.Random.zoneSingle bits m) (valOf c lo) (valOf c hi) true s))
  | "gen_range", [lo, hi, bs] => do
    let lo ← parseVal c lo; let hi ← parseVal c hi; let s ← parseBytes bs
    some (showDrawD c s.length (RandD.genRange sg true w n lo hi s),
          showDrawS c (specSample (Spec.Random.zoneSingle bits m) (valOf c lo) (valOf c hi) false s))
  | "gen_range_inclusive", [lo, hi, bs] => do
    let lo ← parseVal c lo; let hi ← parseVal c hi; let s ← parseBytes bs
    some (showDrawD c s.length (RandD.genRangeInclusive sg true w n lo hi s),
          showDrawS c (specSample (Spec.Random.zoneSingle bits m) (valOf c lo) (valOf c hi) true s))
  | "uniform_new", [lo, hi, bs] => do
    let lo ← parseVal c lo; let hi ← parseVal c hi; let s ← parseBytes bs
    some (showDrawD c s.length (RandD.uniformNewSample sg true w n lo hi s),
          showDrawS c (specSample (Spec.Random.zoneExact m) (valOf c lo) (valOf c hi) false s))
  | "uniform_new_inclusive", [lo, hi, bs] => do
    let lo ← parseVal c lo; let hi ← parseVal c hi; let s ← parseBytes bs
    some (showDrawD c s.length (RandD.uniformNewInclusiveSample sg true w n lo hi s),
          showDrawS c (specSample (Spec.Random.zoneExact m) (valOf c lo) (valOf c hi) true s))
  | "standard", [bs] => do
    let s ← parseBytes bs
    let mo := match (if sg then Rand.II.gen w n s else Rand.UI.gen w n s) with
      | none => "exhausted"
      | some (d, rest) => "S(" ++ showVal c d ++ ")@" ++ toString (s.length - rest.length)
    let sp := match Spec.Random.standard bytes s with
      | none => "exhausted"
      | some (v, cnt) => "S(" ++ toHex v ++ ")@" ++ toString cnt
    some (mo, sp)
  | "fill", [k, bs] => fillAns k bs
  | "fill_each", [k, bs] => do
    let k ← k.toNat?; let s ← parseBytes bs
    let mo := match Rand.genMany w n k s with
      | none => "exhausted"
      | some (xs, rest) => showList (xs.map (showVal c)) ++ "@" ++ toString (s.length - rest.length)
    let sp := match Spec.Random.fill bytes k s with
      | none => "exhausted"
      | some (vs, cnt) => showList (vs.map toHex) ++ "@" ++ toString cnt
    some (mo, sp)
  | "sampler_new", [lo, hi, bs] => do
    let lo ← parseVal c lo; let hi ← parseVal c hi; let s ← parseBytes bs
    some (showDrawD c s.length (RandD.uniformNewSample sg true w n lo hi s),
          showDrawS c (specSample (Spec.Random.zoneExact m) (valOf c lo) (valOf c hi) false s))
  | "uniform_from", [lo, hi, bs] => do
    let lo ← parseVal c lo; let hi ← parseVal c hi; let s ← parseBytes bs
    some (showDrawD c s.length (RandD.uniformNewSample sg true w n lo hi s),
          showDrawS c (specSample (Spec.Random.zoneExact m) (valOf c lo) (valOf c hi) false s))
  | "sampler_new_inclusive", [lo, hi, bs] => do
    let lo ← parseVal c lo; let hi ← parseVal c hi; let s ← parseBytes bs
    some (showDrawD c s.length (RandD.uniformNewInclusiveSample sg true w n lo hi s),
          showDrawS c (specSample (Spec.Random.zoneExact m) (valOf c lo) (valOf c hi) true s))
  | "uniform_from_inclusive", [lo, hi, bs] => do
    let lo ← parseVal c lo; let hi ← parseVal c hi; let s ← parseBytes bs
    some (showDrawD c s.length (RandD.uniformNewInclusiveSample sg true w n lo hi s),
          showDrawS c (specSample (Spec.Random.zoneExact m) (valOf c lo) (valOf c hi) true s))
  | "uniform_many", [incl, lo, hi, k, bs] => do
    let incl ← parseBool incl
    let lo ← parseVal c lo; let hi ← parseVal c hi; let k ← k.toNat?; let s ← parseBytes bs
    let l := valOf c lo
    let h := valOf c hi
    let sp :=
      if (if incl then l ≤ h else l < h) then
        match Spec.Random.sampleManyInclusive sg m bytes (Spec.Random.zoneExact m) l
            (if incl then h else h - 1) k s with
        | none => "exhausted"
        | some (xs, cnt) => showList (xs.map (showInt c)) ++ "@" ++ toString cnt
      else "P"
    some (showDrawsD c s.length (RandD.uniformMany sg true incl w n lo hi k s), sp)
  | "fill_trait", [k, bs] => fillAns k bs
  | "rng_fill", [k, bs] => fillAns k bs
  | "rng_try_fill", [k, bs] => fillAns k bs
  | "enum_words", [which, lo, hi] => do
    let lo ← parseVal c lo; let hi ← parseVal c hi
    if bits > 16 then none else
    let l := valOf c lo
    let h := valOf c hi
    let viewD (total : Nat) : Outcome RandD.Draw → Option (Option (Nat × Nat))
      | .panic => none
      | .ok none => some none
      | .ok (some (x, rest)) => some (some (U w x, total - rest.length))
    let viewS : Option (Option (Int × Nat)) → Option (Option (Nat × Nat))
      | none => none
      | some none => some none
      | some (some (z, cnt)) => some (some (wrapU m z, cnt))
    let single (f : List Nat → List Nat → Rand.Stream → Outcome RandD.Draw) (incl : Bool) :=
      some (enumDigest bits bytes (fun s => viewD s.length (f lo hi s)),
            enumDigest bits bytes (fun s => viewS (specSample (Spec.Random.zoneSingle bits m) l h incl s)))
    let stored (u : Outcome RandD.UniformInt) (incl : Bool) :=
      some (enumDigest bits bytes (fun s => viewD s.length (u.bind fun u => RandD.sample sg true w n u s)),
            enumDigest bits bytes (fun s => viewS (specSample (Spec.Random.zoneExact m) l h incl s)))
    match which with
    | "ssi" => single (RandD.sampleSingleInclusive sg true w n) true
    | "ss" => single (RandD.sampleSingle sg true w n) false
    | "gri" => single (RandD.genRangeInclusive sg true w n) true
    | "gr" => single (RandD.genRange sg true w n) false
    | "uni" => stored (RandD.newInclusive sg true w n lo hi) true
    | "un" => stored (RandD.new sg true w n lo hi) false
    | _ => none
  | "check_in_range", [lo, hi, x, incl] => do
    let lo ← parseVal c lo; let hi ← parseVal c hi; let x ← parseVal c x; let incl ← parseBool incl
    let mo := Rand.le sg m (U w lo) (U w x) &&
      (if incl then Rand.le sg m (U w x) (U w hi) else Rand.lt sg m (U w x) (U w hi))
    some (showBool mo, showBool (Spec.Random.inRange (valOf c lo) (valOf c hi) (valOf c x) incl))
  | _, _ => none

end Bnum.Drive.C20
