/-
  Bnum.Drive.C20 — random generation (`src/random.rs`, feature `rand`) driven by a scripted RNG.
  `<bytes>` = the bytes the scripted `RngCore` hands out, hex-encoded (`-` = none).
  Requests (cfg = `u8x3`, `i64x2`, …; low/high/x = hex patterns):
    sample_single            cfg low high <bytes>   `UniformInt::sample_single(low, high, rng)`
                                                    (= `rng.gen_range(low..high)`)
    sample_single_inclusive  cfg low high <bytes>   (= `rng.gen_range(low..=high)`)
    gen_range                cfg low high <bytes>   `rng.gen_range(low..high)` (rand's forwarder)
    gen_range_inclusive      cfg low high <bytes>   `rng.gen_range(low..=high)`
    uniform_new              cfg low high <bytes>   `Uniform::new(low, high).sample(rng)`
    uniform_new_inclusive    cfg low high <bytes>   `Uniform::new_inclusive(low, high).sample(rng)`
    standard                 cfg <bytes>            `rng.gen::<T>()`
    fill                     cfg k <bytes>          `try_fill_slice(&mut [T; k], rng)` (k decimal)
    fill_each                cfg k <bytes>          k successive `rng.gen::<T>()` (same answer as `fill`)
    check_in_range           cfg low high x incl    incl = `1`: low ≤ x ≤ high, `0`: low ≤ x < high
  Answers: `S(x)@c` (value pattern `x`, `c` = bytes consumed, decimal); `[a,b,…]@c` for `fill`;
  `P` = panic (empty range); `exhausted` = the stream ran out; `true`/`false` for check_in_range.
  The operators that depend on `cfg(debug_assertions)` never overflow here (proved), so there is
  no build-mode argument; the model is run with `dbg = true`.
  The MODEL answer of the six sampling ops is computed by the DIGIT-LEVEL model
  (`Model/RandomD.lean`: real carry chains, Knuth D for `%`, digit-level `widening_mul`, …), proved
  in `Lemmas/RandomD.lean` to refine the value-level model `Model/Random.lean`.
-/
import Bnum.Drive.Util
import Bnum.Model.Random
import Bnum.Model.RandomD
import Bnum.Spec.Random
namespace Bnum.Drive.C20
open Bnum Bnum.Drive

private def showDrawD (c : Cfg) (total : Nat) : Outcome RandD.Draw → String
  | .panic => "P"
  | .ok none => "exhausted"
  | .ok (some (x, rest)) => "S(" ++ showVal c x ++ ")@" ++ toString (total - rest.length)

private def showDrawS (c : Cfg) : Option (Option (Int × Nat)) → String
  | none => "P"
  | some none => "exhausted"
  | some (some (z, cnt)) => "S(" ++ showInt c z ++ ")@" ++ toString cnt

private def showList (xs : List String) : String := "[" ++ ",".intercalate xs ++ "]"

def handle : Handler := fun c op args =>
  let w := c.w
  let n := c.n
  let m := M w n
  let bits := w * n
  let bytes := bits / 8
  let sg := c.signed
  let specSample (zone : Nat → Nat) (lo hi : Int) (incl : Bool) (s : List Nat) :
      Option (Option (Int × Nat)) :=
    if incl then
      if lo ≤ hi then some (Spec.Random.sampleInclusive sg m bytes zone lo hi s) else none
    else
      if lo < hi then some (Spec.Random.sampleInclusive sg m bytes zone lo (hi - 1) s) else none
  match op, args with
  | "sample_single", [lo, hi, bs] => do
    let lo ← parseVal c lo; let hi ← parseVal c hi; let s ← parseBytes bs
    some (showDrawD c s.length (RandD.sampleSingle sg true w n lo hi s),
          showDrawS c (specSample (Spec.Random.zoneSingle bits m) (valOf c lo) (valOf c hi) false s))
  | "sample_single_inclusive", [lo, hi, bs] => do
    let lo ← parseVal c lo; let hi ← parseVal c hi; let s ← parseBytes bs
    some (showDrawD c s.length (RandD.sampleSingleInclusive sg true w n lo hi s),
          showDrawS c (specSample (Spec.Random.zoneSingle bits m) (valOf c lo) (valOf c hi) true s))
  | "gen_range", [lo, hi, bs] => do
    let lo ← parseVal c lo; let hi ← parseVal c hi; let s ← parseBytes bs
    some (showDrawD c s.length (RandD.genRange sg true w n lo hi s),
          showDrawS c (specSample (Spec.Random.zoneSingle bits m) (valOf c lo) (valOf c hi) false s))
  | "gen_range_inclusive", [lo, hi, bs] => do
    let lo ← parseVal c lo; let hi ← parseVal c hi; let s ← parseBytes bs
    some (showDrawD c s.length (RandD.genRangeInclusive sg true w n lo hi s),
          showDrawS c (specSample (Spec.Random.zoneSingle bits m) (valOf c lo) (valOf c hi) true s))
  | "uniform_new", [lo, hi, bs] => do
    let lo ← parseVal c lo; let hi ← parseVal c hi; let s ← parseBytes bs
    some (showDrawD c s.length (RandD.uniformNewSample sg true w n lo hi s),
          showDrawS c (specSample (Spec.Random.zoneExact m) (valOf c lo) (valOf c hi) false s))
  | "uniform_new_inclusive", [lo, hi, bs] => do
    let lo ← parseVal c lo; let hi ← parseVal c hi; let s ← parseBytes bs
    some (showDrawD c s.length (RandD.uniformNewInclusiveSample sg true w n lo hi s),
          showDrawS c (specSample (Spec.Random.zoneExact m) (valOf c lo) (valOf c hi) true s))
  | "standard", [bs] => do
    let s ← parseBytes bs
    let mo := match (if sg then Rand.II.gen w n s else Rand.UI.gen w n s) with
      | none => "exhausted"
      | some (d, rest) => "S(" ++ showVal c d ++ ")@" ++ toString (s.length - rest.length)
    let sp := match Spec.Random.standard bytes s with
      | none => "exhausted"
      | some (v, cnt) => "S(" ++ toHex v ++ ")@" ++ toString cnt
    some (mo, sp)
  | "fill", [k, bs] => do
    let k ← k.toNat?; let s ← parseBytes bs
    let mo := match Rand.fillSlice w n k s with
      | none => "exhausted"
      | some (xs, rest) => showList (xs.map (showVal c)) ++ "@" ++ toString (s.length - rest.length)
    let sp := match Spec.Random.fill bytes k s with
      | none => "exhausted"
      | some (vs, cnt) => showList (vs.map toHex) ++ "@" ++ toString cnt
    some (mo, sp)
  | "fill_each", [k, bs] => do
    let k ← k.toNat?; let s ← parseBytes bs
    let mo := match Rand.genMany w n k s with
      | none => "exhausted"
      | some (xs, rest) => showList (xs.map (showVal c)) ++ "@" ++ toString (s.length - rest.length)
    let sp := match Spec.Random.fill bytes k s with
      | none => "exhausted"
      | some (vs, cnt) => showList (vs.map toHex) ++ "@" ++ toString cnt
    some (mo, sp)
  | "check_in_range", [lo, hi, x, incl] => do
    let lo ← parseVal c lo; let hi ← parseVal c hi; let x ← parseVal c x; let incl ← parseBool incl
    let mo := Rand.le sg m (U w lo) (U w x) &&
      (if incl then Rand.le sg m (U w x) (U w hi) else Rand.lt sg m (U w x) (U w hi))
    some (showBool mo, showBool (Spec.Random.inRange (valOf c lo) (valOf c hi) (valOf c x) incl))
  | _, _ => none

end Bnum.Drive.C20
