/-
  Bnum.Drive.C10 — parsing ops.
    from_str_radix cfg radix <hexbytes-of-the-string>   → Ok(hex) / Err(Empty|InvalidDigit|PosOverflow|NegOverflow) / P
    parse_str_radix cfg radix <hexbytes-of-the-string>  → hex / P
    parse_bytes    cfg radix <hexbytes>                 → S(hex) / N / P
    from_str       cfg <hexbytes>                       → Ok(hex) / Err(..)
    str_parse      cfg <hexbytes>                       → Ok(hex) / Err(..)      (`s.parse::<T>()` = `FromStr`)
    from_radix_be  cfg radix <hexbytes-of-digit-values> → S(hex) / N / P
    from_radix_le  cfg radix <hexbytes-of-digit-values> → S(hex) / N / P
  `radix` is decimal, byte strings are hex-encoded (`-` = empty).
  Spec answers: `Err(*)` for an over-long malformed string (the property leaves the kind open);
  `parse_bytes` with an out-of-range radix: `P` when the bytes are well-formed UTF-8 (they are a `&str`, and
  `from_str_radix` of that string panics); `P|N` when they are not (the statement only says that a
  panic needs an out-of-range radix; the code answers `N` because `from_utf8` runs first:
  theorem `C10.u_parse_bytes_bad_radix`).  Well-formedness is decided by `Spec.Utf8.valid`, which is
  independent of the model's `Prim.utf8Valid` (and proved equal to it, `C10.utf8_spec_eq_prim`).
-/
import Bnum.Drive.Util
import Bnum.Model.Radix
import Bnum.Spec.Radix
import Bnum.Spec.C10Extra
namespace Bnum.Drive.C10
open Bnum Bnum.Drive Bnum.Spec.Radix

def showKind : IntErrorKind → String
  | .empty => "Empty" | .invalidDigit => "InvalidDigit"
  | .posOverflow => "PosOverflow" | .negOverflow => "NegOverflow"
def showPRes (c : Cfg) : PRes → String
  | .ok x => "Ok(" ++ showVal c x ++ ")"
  | .err k => "Err(" ++ showKind k ++ ")"
def showExpect (c : Cfg) : Expect → String
  | .ok z => "Ok(" ++ showInt c z ++ ")"
  | .empty => "Err(Empty)" | .invalidDigit => "Err(InvalidDigit)"
  | .posOverflow => "Err(PosOverflow)" | .negOverflow => "Err(NegOverflow)"
  | .anyErr => "Err(*)"
def expectOpt (c : Cfg) : Expect → String
  | .ok z => "S(" ++ showInt c z ++ ")"
  | _ => "N"

def handle : Handler := fun c op args =>
  let w := c.w
  let n := c.n
  let m := M w n
  let spStr (radix : Nat) (s : List Nat) : String :=
    if 2 ≤ radix ∧ radix ≤ 36 then showExpect c (expectParse radix c.signed m s) else "P"
  let spBytes (radix : Nat) (s : List Nat) : String :=
    if 2 ≤ radix ∧ radix ≤ 36 then expectOpt c (expectParse radix c.signed m s)
    else if Spec.Utf8.valid s then "P" else "P|N"
  let spDigits (radix : Nat) (msf : List Nat) : String :=
    if 2 ≤ radix ∧ radix ≤ 256 then showOpt toHex (expectDigits radix m msf) else "P"
  let fsr (s : List Nat) (radix : Nat) : Outcome PRes :=
    if c.signed then II.fromStrRadix w n s radix else UI.fromStrRadix w n s radix
  match op, args with
  | "from_str_radix", [r, s] => do
    let radix ← r.toNat?; let s ← parseBytes s
    some (showOut (showPRes c) (fsr s radix), spStr radix s)
  | "parse_str_radix", [r, s] => do
    let radix ← r.toNat?; let s ← parseBytes s
    let mo := if c.signed then II.parseStrRadix w n s radix else UI.parseStrRadix w n s radix
    let sp := if 2 ≤ radix ∧ radix ≤ 36 then
        (match expectParse radix c.signed m s with | .ok z => showInt c z | _ => "P") else "P"
    some (showOut (showVal c) mo, sp)
  | "parse_bytes", [r, s] => do
    let radix ← r.toNat?; let s ← parseBytes s
    let mo := if c.signed then II.parseBytes w n s radix else UI.parseBytes w n s radix
    some (showOut (showOpt (showVal c)) mo, spBytes radix s)
  | "from_str", [s] | "str_parse", [s] => do
    let s ← parseBytes s
    let mo := if c.signed then II.fromStr w n s else UI.fromStr w n s
    some (showOut (showPRes c) mo, spStr 10 s)
  | "from_radix_be", [r, s] => do
    let radix ← r.toNat?; let s ← parseBytes s
    let mo := if c.signed then II.fromRadixBe w n s radix else UI.fromRadixBe w n s radix
    some (showOut (showOpt (showVal c)) mo, spDigits radix s)
  | "from_radix_le", [r, s] => do
    let radix ← r.toNat?; let s ← parseBytes s
    let mo := if c.signed then II.fromRadixLe w n s radix else UI.fromRadixLe w n s radix
    some (showOut (showOpt (showVal c)) mo, spDigits radix s.reverse)
  | _, _ => none

end Bnum.Drive.C10
