/-
  Bnum.Drive.C02 — multiplication ops.
    overflowing_mul cfg a b   -> (x,bool)
    checked_mul     cfg a b   -> S(x) | N
    wrapping_mul    cfg a b   -> x
    saturating_mul  cfg a b   -> x
    strict_mul      cfg a b   -> x | P
    mul             cfg dbg|rel a b -> x | P
    widening_mul    cfg a b   -> (lo,hi)      (unsigned cfg only)
    carrying_mul    cfg a b c -> (lo,hi)      (unsigned cfg only)
-/
import Bnum.Drive.Util
import Bnum.Model.Mul
import Bnum.Spec.Mul
namespace Bnum.Drive.C02
open Bnum Bnum.Drive

private def m (c : Cfg) : Nat := M c.w c.n
private def spPair (p : Nat × Bool) : String := "(" ++ toHex p.1 ++ "," ++ showBool p.2 ++ ")"
private def spOpt (p : Option Nat) : String := showOpt toHex p
private def spStrict (p : Option Nat) : String := match p with | some v => toHex v | none => "P"
private def showWide (c : Cfg) (p : List Nat × List Nat) : String :=
  "(" ++ showVal c p.1 ++ "," ++ showVal c p.2 ++ ")"
private def spWide (p : Nat × Nat) : String := "(" ++ toHex p.1 ++ "," ++ toHex p.2 ++ ")"
private def parseMode (s : String) : Option Bool :=
  if s = "dbg" then some true else if s = "rel" then some false else none

def handle : Handler := fun c op args =>
  let w := c.w
  let sg := c.signed
  match op, args with
  | "overflowing_mul", [a, b] => do
    let a ← parseVal c a; let b ← parseVal c b
    let z := valOf c a * valOf c b
    let mo := if sg then II.overflowingMul w a b else UI.overflowingMul w a b
    some (showPair c mo, spPair (Spec.overflowing sg (m c) z))
  | "checked_mul", [a, b] => do
    let a ← parseVal c a; let b ← parseVal c b
    let z := valOf c a * valOf c b
    let mo := if sg then II.checkedMul w a b else UI.checkedMul w a b
    some (showOpt (showVal c) mo, spOpt (Spec.checked sg (m c) z))
  | "wrapping_mul", [a, b] => do
    let a ← parseVal c a; let b ← parseVal c b
    let z := valOf c a * valOf c b
    let mo := if sg then II.wrappingMul w a b else UI.wrappingMul w a b
    some (showVal c mo, toHex (wrapU (m c) z))
  | "saturating_mul", [a, b] => do
    let a ← parseVal c a; let b ← parseVal c b
    let z := valOf c a * valOf c b
    let mo := if sg then II.saturatingMul w a b else UI.saturatingMul w a b
    some (showVal c mo, toHex (Spec.saturating sg (m c) z))
  | "strict_mul", [a, b] => do
    let a ← parseVal c a; let b ← parseVal c b
    let z := valOf c a * valOf c b
    let mo := if sg then II.strictMul w a b else UI.strictMul w a b
    some (showOut (showVal c) mo, spStrict (Spec.strict sg (m c) z))
  | "mul", [mode, a, b] => do
    let dbg ← parseMode mode
    let a ← parseVal c a; let b ← parseVal c b
    let z := valOf c a * valOf c b
    let mo := if sg then II.mul w dbg a b else UI.mul w dbg a b
    some (showOut (showVal c) mo,
      if dbg then spStrict (Spec.strict sg (m c) z) else toHex (wrapU (m c) z))
  | "widening_mul", [a, b] =>
    if sg then none else do
    let a ← parseVal c a; let b ← parseVal c b
    some (showWide c (UI.wideningMul w a b), spWide (Spec.widening (m c) (U w a * U w b)))
  | "carrying_mul", [a, b, ci] =>
    if sg then none else do
    let a ← parseVal c a; let b ← parseVal c b; let ci ← parseVal c ci
    some (showWide c (UI.carryingMul w a b ci),
      spWide (Spec.widening (m c) (U w a * U w b + U w ci)))
  | _, _ => none

end Bnum.Drive.C02
