/-
  Bnum.Drive.C02 — multiplication ops.
    overflowing_mul cfg a b   -> (x,bool)
    checked_mul     cfg a b   -> S(x) | N
    wrapping_mul    cfg a b   -> x
    saturating_mul  cfg a b   -> x
    strict_mul      cfg a b   -> x | P
    mul             cfg dbg|rel a b -> x | P
    widening_mul    cfg a b   -> (lo,hi)      (unsigned cfg only)
    carrying_mul    cfg a b c -> (lo,hi)      (unsigned cfg only)
    mulop           cfg dbg|rel form a b -> x | P     form = vv vr rv rr (`a * b`, `a * &b`, `&a * b`,
                                                      `&a * &b`), as asr (`a *= b`, `a *= &b`)
    mul_words       cfg b c a0,a1,…  -> ([lo0,lo1,…],carry)   (unsigned cfg only) the chaining loop
                                        `(lo_i, carry) = a_i.carrying_mul(b, carry)` over k ≥ 0 words
-/
import Bnum.Drive.Util
import Bnum.Model.Mul
import Bnum.Spec.Mul
import Bnum.Model.Ops
import Bnum.Model.C02Extra
namespace Bnum.Drive.C02
open Bnum Bnum.Drive

private def m (c : Cfg) : Nat := M c.w c.n
private def spPair (p : Nat × Bool) : String := "(" ++ toHex p.1 ++ "," ++ showBool p.2 ++ ")"
private def spOpt (p : Option Nat) : String := showOpt toHex p
private def spStrict (p : Option Nat) : String := match p with | some v => toHex v | none => "P"
private def showWide (c : Cfg) (p : List Nat × List Nat) : String :=
  "(" ++ showVal c p.1 ++ "," ++ showVal c p.2 ++ ")"
private def spWide (p : Nat × Nat) : String := "(" ++ toHex p.1 ++ "," ++ toHex p.2 ++ ")"
private def parseMode (s : String) : Option Bool :=
  if s = "dbg" then some true else if s = "rel" then some false else none

private def parseList (c : Cfg) (s : String) : Option (List (List Nat)) :=
  if s = "-" then some [] else (s.splitOn ",").mapM (parseVal c)
private def showList (xs : List String) : String :=
  "[" ++ ",".intercalate xs ++ "]"
/-- exact words of `z` in base `m`: `k` low words and what is left (reduced mod `m` to be printable;
    the remainder is `< m` whenever `z < m^(k+1)`, which holds for `a·b + c`, `a < m^k`, `b, c < m`) -/
private def specWords (m : Nat) : Nat → Nat → List Nat × Nat
  | 0, z => ([], z % m)
  | k + 1, z => let r := specWords m k (z / m); (z % m :: r.1, r.2)
private def natWords (m : Nat) : List Nat → Nat
  | [] => 0
  | x :: xs => x + m * natWords m xs
private def opForm (f : String) : Option (Ops.Ty → Bool → List Nat → List Nat → Outcome (List Nat)) :=
  match f with
  | "vv" => some Ops.mul_vv | "vr" => some Ops.mul_vr | "rv" => some Ops.mul_rv
  | "rr" => some Ops.mul_rr | "as" => some Ops.mulAssign | "asr" => some Ops.mulAssignRef
  | _ => none

def handle : Handler := fun c op args =>
  let w := c.w
  let sg := c.signed
  match op, args with
  | "overflowing_mul", [a, b] => do
    let a ← parseVal c a; let b ← parseVal c b
    let z := valOf c a * valOf c b
    let mo := if sg then II.overflowingMul w a b else UI.overflowingMul w a b
    some (showPair c mo, spPair (Spec.overflowing sg (m c) z))
  | "checked_mul", [a, b] => do
    let a ← parseVal c a; let b ← parseVal c b
    let z := valOf c a * valOf c b
    let mo := if sg then II.checkedMul w a b else UI.checkedMul w a b
    some (showOpt (showVal c) mo, spOpt (Spec.checked sg (m c) z))
  | "wrapping_mul", [a, b] => do
    let a ← parseVal c a; let b ← parseVal c b
    let z := valOf c a * valOf c b
    let mo := if sg then II.wrappingMul w a b else UI.wrappingMul w a b
    some (showVal c mo, toHex (wrapU (m c) z))
  | "saturating_mul", [a, b] => do
    let a ← parseVal c a; let b ← parseVal c b
    let z := valOf c a * valOf c b
    let mo := if sg then II.saturatingMul w a b else UI.saturatingMul w a b
    some (showVal c mo, toHex (Spec.saturating sg (m c) z))
  | "strict_mul", [a, b] => do
    let a ← parseVal c a; let b ← parseVal c b
    let z := valOf c a * valOf c b
    let mo := if sg then II.strictMul w a b else UI.strictMul w a b
    some (showOut (showVal c) mo, spStrict (Spec.strict sg (m c) z))
  | "mul", [mode, a, b] => do
    let dbg ← parseMode mode
    let a ← parseVal c a; let b ← parseVal c b
    let z := valOf c a * valOf c b
    let mo := if sg then II.mul w dbg a b else UI.mul w dbg a b
    some (showOut (showVal c) mo,
      if dbg then spStrict (Spec.strict sg (m c) z) else toHex (wrapU (m c) z))
  | "widening_mul", [a, b] =>
    if sg then none else do
    let a ← parseVal c a; let b ← parseVal c b
    some (showWide c (UI.wideningMul w a b), spWide (Spec.widening (m c) (U w a * U w b)))
  | "carrying_mul", [a, b, ci] =>
    if sg then none else do
    let a ← parseVal c a; let b ← parseVal c b; let ci ← parseVal c ci
    some (showWide c (UI.carryingMul w a b ci),
      spWide (Spec.widening (m c) (U w a * U w b + U w ci)))
  | "mulop", [mode, form, a, b] => do
    let dbg ← parseMode mode
    let f ← opForm form
    let a ← parseVal c a; let b ← parseVal c b
    let z := valOf c a * valOf c b
    let T := if sg then Ops.bint w c.n else Ops.buint w c.n
    some (showOut (showVal c) (f T dbg a b),
      if dbg then spStrict (Spec.strict sg (m c) z) else toHex (wrapU (m c) z))
  | "mul_words", [b, ci, ws] =>
    if sg then none else do
    let b ← parseVal c b; let ci ← parseVal c ci; let ws ← parseList c ws
    let r := UI.mulWords w ws b ci
    let sp := specWords (m c) ws.length (natWords (m c) (ws.map (U w)) * U w b + U w ci)
    some ("(" ++ showList (r.1.map (showVal c)) ++ "," ++ showVal c r.2 ++ ")",
          "(" ++ showList (sp.1.map toHex) ++ "," ++ toHex sp.2 ++ ")")
  | _, _ => none

end Bnum.Drive.C02
