/-
  Bnum.Drive.C12 — formatting (`src/buint/fmt.rs`, `src/bint/fmt.rs`).
    fmt cfg <trait> <flags> <width> a  → hex-encoded bytes of the produced text / P
      trait  ∈ display debug binary octal lower_hex upper_hex lower_exp upper_exp
      flags  = 5 characters `[align][fill][sign][alt][zero]`
               align ∈ n (none) l (`<`) c (`^`) r (`>`)
               fill  ∈ d (default `' '`) s (`'*'`) u (`'€'`, 3 bytes) o (`'0'`) e (`'é'`, 2 bytes)
                       g (`'𝄞'`, 4 bytes); only used when align ≠ n.  The fill is carried as the UTF-8
                       bytes of the `char`; `pad_integral` counts the width in chars
               sign  ∈ p (`+`) -        alt ∈ a (`#`) -        zero ∈ z (`0`) -
      width  = decimal, or `-` for none
      a      = hex pattern
  Model answer: bnum's algorithm (digits → content → `Fmt.padIntegral`).
  Spec answer:  `Spec.Fmt.primTriple` on the exact value, rendered by the same `Fmt.padIntegral`.
-/
import Bnum.Drive.Util
import Bnum.Model.Fmt
import Bnum.Spec.Fmt
namespace Bnum.Drive.C12
open Bnum Bnum.Drive Bnum.Fmt
open Bnum.Spec.Fmt (Trait)

def parseTrait : String → Option Trait
  | "display" => some .display
  | "debug" => some .debug
  | "binary" => some .binary
  | "octal" => some .octal
  | "lower_hex" => some .lowerHex
  | "upper_hex" => some .upperHex
  | "lower_exp" => some .lowerExp
  | "upper_exp" => some .upperExp
  | _ => none

def parseFlags (s : String) (width : Nat) : Option Flags :=
  match s.toList with
  | [al, fi, sg, alt, z] => do
    let align ← (match al with
      | 'n' => some none | 'l' => some (some Align.left) | 'c' => some (some Align.center)
      | 'r' => some (some Align.right) | _ => none : Option (Option Align))
    let fill ← (match fi with
      | 'd' => some [32] | 's' => some [42] | 'o' => some [48]
      | 'e' => some [0xc3, 0xa9] | 'u' => some [0xe2, 0x82, 0xac] | 'g' => some [0xf0, 0x9d, 0x84, 0x9e]
      | _ => none : Option (List Nat))
    let plus ← (match sg with | 'p' => some true | '-' => some false | _ => none : Option Bool)
    let alt ← (match alt with | 'a' => some true | '-' => some false | _ => none : Option Bool)
    let zero ← (match z with | 'z' => some true | '-' => some false | _ => none : Option Bool)
    -- a fill character can only be written together with an alignment
    let fill := if align.isNone then [32] else fill
    some { fill := fill, align := align, signPlus := plus, alternate := alt, zeroPad := zero,
           width := width }
  | _ => none

def parseWidth (s : String) : Option Nat := if s = "-" then some 0 else s.toNat?

/-- bnum's implementation of trait `t` for the configuration's type -/
def runModel (signed : Bool) (t : Trait) (fl : Flags) (w : Nat) (a : List Nat) : Outcome (List Nat) :=
  match signed, t with
  | false, .display => UI.fmtDisplay fl w a
  | false, .debug => UI.fmtDebug fl w a
  | false, .binary => UI.fmtBinary fl w a
  | false, .octal => UI.fmtOctal fl w a
  | false, .lowerHex => UI.fmtLowerHex fl w a
  | false, .upperHex => UI.fmtUpperHex fl w a
  | false, .lowerExp => UI.fmtLowerExp fl w a
  | false, .upperExp => UI.fmtUpperExp fl w a
  | true, .display => II.fmtDisplay fl w a
  | true, .debug => II.fmtDebug fl w a
  | true, .binary => II.fmtBinary fl w a
  | true, .octal => II.fmtOctal fl w a
  | true, .lowerHex => II.fmtLowerHex fl w a
  | true, .upperHex => II.fmtUpperHex fl w a
  | true, .lowerExp => II.fmtLowerExp fl w a
  | true, .upperExp => II.fmtUpperExp fl w a

/-- the primitive-integer answer: core's triple for the exact value, through `pad_integral` -/
def runSpec (signed : Bool) (t : Trait) (fl : Flags) (W : Nat) (z : Int) : List Nat :=
  let tr := Spec.Fmt.primTriple t signed W z
  padIntegral fl tr.1 tr.2.1 tr.2.2

def handle : Handler := fun c op args =>
  match op, args with
  | "fmt", [t, fs, ws, a] => do
    let t ← parseTrait t; let width ← parseWidth ws; let fl ← parseFlags fs width
    let a ← parseVal c a
    some (showOut showBytes (runModel c.signed t fl c.w a),
          showBytes (runSpec c.signed t fl (c.w * c.n) (valOf c a)))
  | _, _ => none

end Bnum.Drive.C12
