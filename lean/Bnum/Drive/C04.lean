/-
  Bnum.Drive.C04 — panic behaviour (property C04).  The differential check of C04 re-uses the request
  vocabularies of the other properties (Drive/C01, C02, C03, C05, C06, C08, C17 answer every other op
  that gen/c04.py produces); this handler adds only the operations those handlers do not know:

    strict_div | strict_rem | strict_div_euclid | strict_rem_euclid   cfg [dbg|rel] a b   → hex / `P`
        (`int/strict.rs`: `self.div(rhs)` …; the optional profile word selects the
        `cfg(debug_assertions)` variant of the model, default `dbg`; the answer does not depend on it.)
        Spec: `P` for a zero divisor and for signed `MIN / -1`, else the pattern of the truncated /
        Euclidean quotient / remainder.
    abs   cfg dbg|rel a     (signed cfg only)                                            → hex / `P`
        the inherent unsuffixed `BInt::abs`.  Spec: `|a|` if representable, else `P` (dbg) / the
        pattern of MIN (rel).
        NOTE: Drive/C18 answers the same request line with the same model function (`NumT.Inh.abs`,
        which `Signed::abs` forwards to) and the same spec; whichever handler comes first in
        `All.handlers`, the answer is identical.
-/
import Bnum.Drive.Util
import Bnum.Model.Panic
import Bnum.Spec.Div
namespace Bnum.Drive.C04
open Bnum Bnum.Drive Bnum.Spec

private def moV (c : Cfg) (o : Outcome (List Nat)) : String := showOut (showVal c) o

def handle : Handler := fun c op args =>
  let w := c.w
  let sg := c.signed
  let m := M c.w c.n
  let pr : Option Bool × List String := match args with
    | "dbg" :: r => (some true, r)
    | "rel" :: r => (some false, r)
    | r => (none, r)
  let dbg := pr.1.getD true
  match op, pr.2 with
  | "abs", [sa] =>
    -- the profile word is mandatory: the answer depends on it
    if !sg || pr.1.isNone then none else do
    let a ← parseVal c sa
    let x := valOf c a
    let z : Int := x.natAbs
    some (moV c (II.abs dbg w a),
      if rep true m z then toHex (wrapU m z) else if dbg then "P" else toHex (wrapU m (minV true m)))
  | _, [sa, sb] => do
    let a ← parseVal c sa
    let b ← parseVal c sb
    let x := valOf c a
    let y := valOf c b
    let spPanicking (k : DivKind) :=
      if y = 0 || divOverflow sg m x y then "P" else toHex (wrapU m (k.eval x y))
    match op with
    | "strict_div" =>
      some (moV c (if sg then II.strictDiv dbg w a b else UI.strictDiv w a b), spPanicking .tdiv)
    | "strict_rem" =>
      some (moV c (if sg then II.strictRem dbg w a b else UI.strictRem w a b), spPanicking .tmod)
    | "strict_div_euclid" =>
      some (moV c (if sg then II.strictDivEuclid dbg w a b else UI.strictDivEuclid w a b),
        spPanicking .ediv)
    | "strict_rem_euclid" =>
      some (moV c (if sg then II.strictRemEuclid dbg w a b else UI.strictRemEuclid w a b),
        spPanicking .emod)
    | _ => none
  | _, _ => none

end Bnum.Drive.C04
