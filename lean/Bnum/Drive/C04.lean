/-
  Bnum.Drive.C04 — panic behaviour (property C04).  The differential check of C04 re-uses the request
  vocabularies of the other properties (Drive/C01, C02, C03, C05, C06, C08, C17 answer every other op
  that gen/c04.py produces); this handler adds only the operations those handlers do not know:

    strict_div | strict_rem | strict_div_euclid | strict_rem_euclid   cfg [dbg|rel] a b   → hex / `P`
        (`int/strict.rs`: `self.div(rhs)` …; the optional profile word selects the
        `cfg(debug_assertions)` variant of the model, default `dbg`; the answer does not depend on it.)
        Spec: `P` for a zero divisor and for signed `MIN / -1`, else the pattern of the truncated /
        Euclidean quotient / remainder.
    abs   cfg dbg|rel a     (signed cfg only)                                            → hex / `P`
        the inherent unsuffixed `BInt::abs`.  Spec: `|a|` if representable, else `P` (dbg) / the
        pattern of MIN (rel).
        NOTE: Drive/C18 answers the same request line with the same model function (`NumT.Inh.abs`,
        which `Signed::abs` forwards to) and the same spec; whichever handler comes first in
        `All.handlers`, the answer is identical.

  and it TIGHTENS the spec answer of the shift requests whose value the properties leave open
  (Drive/C05, Drive/C17 answer `*` for a release-mode / wrapping shift by `s ≥ BITS` at a width that is
  not a power of two): C04 fixes that these never panic ("in builds without [debug assertions] return
  the wrapped result instead", "wrapping_/overflowing_/saturating_ methods panic only for a zero
  divisor"; theorems `shift_prim_rel_value`, `shift_inherent_panics`, `wos_total_by_typing`), so the
  answer becomes `anyValue` — every hex pattern, but not `P`:
    wrapping_shl | wrapping_shr cfg a s ,  shl | shr cfg dbg|rel a s            (model: Drive/C05)
    shl_<prim>_<form> | shr_<prim>_<form> | shl_u32_inh | shr_u32_inh cfg mode a k   (model: Drive/C17)
  The model answer and every determined spec answer are passed through unchanged.  Shifts by a
  `BUint` / `BInt` amount (`shl_bu_*`, `shl_bi_*`) are not named by C04 and stay as Drive/C17 answers them.
-/
import Bnum.Drive.Util
import Bnum.Drive.C05
import Bnum.Drive.C17
import Bnum.Model.Panic
import Bnum.Spec.Div
namespace Bnum.Drive.C04
open Bnum Bnum.Drive Bnum.Spec

/-- spec answer "any value, but no panic": check.py matches `x*` as the prefix `x`; a value is printed
    as lowercase hex, so exactly the non-`P` answers match -/
def anyValue : String := "0*|1*|2*|3*|4*|5*|6*|7*|8*|9*|a*|b*|c*|d*|e*|f*"

private def primTys : List String :=
  ["u8", "u16", "u32", "u64", "u128", "usize", "i8", "i16", "i32", "i64", "i128", "isize"]

/-- `*` (value left open) → `anyValue` (value left open, panic excluded) -/
private def noPanic (r : Option (String × String)) : Option (String × String) :=
  r.map fun p => (p.1, if p.2 = "*" then anyValue else p.2)

/-- is `op` a shift by a primitive amount in the vocabulary of Drive/C17? -/
private def isPrimShift (op : String) : Bool :=
  match op.splitOn "_" with
  | [d, t, _] => (d = "shl" || d = "shr") && primTys.contains t
  | _ => false

private def moV (c : Cfg) (o : Outcome (List Nat)) : String := showOut (showVal c) o

def handle : Handler := fun c op args =>
  if op = "wrapping_shl" || op = "wrapping_shr" || op = "shl" || op = "shr" then
    noPanic (C05.handle c op args)
  else if isPrimShift op then noPanic (C17.handle c op args)
  else
  let w := c.w
  let sg := c.signed
  let m := M c.w c.n
  let pr : Option Bool × List String := match args with
    | "dbg" :: r => (some true, r)
    | "rel" :: r => (some false, r)
    | r => (none, r)
  let dbg := pr.1.getD true
  match op, pr.2 with
  | "abs", [sa] =>
    -- the profile word is mandatory: the answer depends on it
    if !sg || pr.1.isNone then none else do
    let a ← parseVal c sa
    let x := valOf c a
    let z : Int := x.natAbs
    some (moV c (II.abs dbg w a),
      if rep true m z then toHex (wrapU m z) else if dbg then "P" else toHex (wrapU m (minV true m)))
  | _, [sa, sb] => do
    let a ← parseVal c sa
    let b ← parseVal c sb
    let x := valOf c a
    let y := valOf c b
    let spPanicking (k : DivKind) :=
      if y = 0 || divOverflow sg m x y then "P" else toHex (wrapU m (k.eval x y))
    match op with
    | "strict_div" =>
      some (moV c (if sg then II.strictDiv dbg w a b else UI.strictDiv w a b), spPanicking .tdiv)
    | "strict_rem" =>
      some (moV c (if sg then II.strictRem dbg w a b else UI.strictRem w a b), spPanicking .tmod)
    | "strict_div_euclid" =>
      some (moV c (if sg then II.strictDivEuclid dbg w a b else UI.strictDivEuclid w a b),
        spPanicking .ediv)
    | "strict_rem_euclid" =>
      some (moV c (if sg then II.strictRemEuclid dbg w a b else UI.strictRemEuclid w a b),
        spPanicking .emod)
    | _ => none
  | _, _ => none

end Bnum.Drive.C04
