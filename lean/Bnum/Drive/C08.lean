/-
  Bnum.Drive.C08 — powers and integer logarithms.  Request: `op cfg [dbg|rel] args…`.
  The optional profile word selects the `cfg(debug_assertions)` variant of the model (default
  `dbg`).  It changes the answer only for `pow` (overflow panics in debug, wraps in release); the
  logarithms take it because `iilog` uses the unsuffixed `mul` / `+` (C08 proves they never panic).

  Ops (both signednesses; `a`, `b` hex patterns, `e` a decimal `u32`):
    overflowing_pow a e   → `(x,true|false)`
    checked_pow a e       → `S(x)` / `N`
    wrapping_pow a e      → `x`
    saturating_pow a e    → `x`
    strict_pow a e        → `x` / `P`
    pow a e               → `x` / `P`                       (profile dependent)
    checked_ilog a b      → `S(k)` / `N`   (k decimal; `P` would be an internal panic)
    checked_ilog2 a       → `S(k)` / `N`
    checked_ilog10 a      → `S(k)` / `N`
    ilog a b | ilog2 a | ilog10 a → `k` / `P`
  Spec answers come from Spec/Pow.lean on the exact values (`valOf`).
-/
import Bnum.Drive.Util
import Bnum.Model.Pow
import Bnum.Spec.Pow
namespace Bnum.Drive.C08
open Bnum Bnum.Drive Bnum.Spec

private def spPair (p : Nat × Bool) : String := "(" ++ toHex p.1 ++ "," ++ showBool p.2 ++ ")"
private def showNat (k : Nat) : String := toString k
private def spOptK (o : Option Nat) : String := showOpt showNat o
private def spOutK (o : Option Nat) : String := match o with | some k => showNat k | none => "P"

def handle : Handler := fun c op args =>
  let w := c.w
  let sg := c.signed
  let m := M c.w c.n
  let pr : Bool × List String := match args with
    | "dbg" :: r => (true, r)
    | "rel" :: r => (false, r)
    | r => (true, r)
  let dbg := pr.1
  match op, pr.2 with
  | "overflowing_pow", [sa, se] => do
    let a ← parseVal c sa; let e ← se.toNat?
    some (showPair c (if sg then II.overflowingPow w a e else UI.overflowingPow w a e),
      spPair (Spec.overflowingPow sg m (valOf c a) e))
  | "checked_pow", [sa, se] => do
    let a ← parseVal c sa; let e ← se.toNat?
    some (showOpt (showVal c) (if sg then II.checkedPow w a e else UI.checkedPow w a e),
      showOpt toHex (Spec.checkedPow sg m (valOf c a) e))
  | "wrapping_pow", [sa, se] => do
    let a ← parseVal c sa; let e ← se.toNat?
    some (showVal c (if sg then II.wrappingPow w a e else UI.wrappingPow w a e),
      toHex (Spec.powWrapped m (valOf c a) e))
  | "saturating_pow", [sa, se] => do
    let a ← parseVal c sa; let e ← se.toNat?
    some (showVal c (if sg then II.saturatingPow w a e else UI.saturatingPow w a e),
      toHex (Spec.saturatingPow sg m (valOf c a) e))
  | "strict_pow", [sa, se] => do
    let a ← parseVal c sa; let e ← se.toNat?
    some (showOut (showVal c) (if sg then II.strictPow w a e else UI.strictPow w a e),
      match Spec.checkedPow sg m (valOf c a) e with | some v => toHex v | none => "P")
  | "pow", [sa, se] => do
    let a ← parseVal c sa; let e ← se.toNat?
    some (showOut (showVal c) (if sg then II.pow w dbg a e else UI.pow w dbg a e),
      if dbg then (match Spec.checkedPow sg m (valOf c a) e with | some v => toHex v | none => "P")
      else toHex (Spec.powWrapped m (valOf c a) e))
  | "checked_ilog", [sa, sb] => do
    let a ← parseVal c sa; let b ← parseVal c sb
    some (showOut (showOpt showNat) (if sg then II.checkedIlog dbg w a b else UI.checkedIlog dbg w a b),
      spOptK (Spec.checkedIlog (valOf c a) (valOf c b)))
  | "checked_ilog2", [sa] => do
    let a ← parseVal c sa
    some (showOpt showNat (if sg then II.checkedIlog2 w a else UI.checkedIlog2 w a),
      spOptK (Spec.checkedIlog (valOf c a) 2))
  | "checked_ilog10", [sa] => do
    let a ← parseVal c sa
    some (showOut (showOpt showNat) (if sg then II.checkedIlog10 dbg w a else UI.checkedIlog10 dbg w a),
      spOptK (Spec.checkedIlog (valOf c a) 10))
  | "ilog", [sa, sb] => do
    let a ← parseVal c sa; let b ← parseVal c sb
    some (showOut showNat (if sg then II.ilog dbg w a b else UI.ilog dbg w a b),
      spOutK (Spec.checkedIlog (valOf c a) (valOf c b)))
  | "ilog2", [sa] => do
    let a ← parseVal c sa
    some (showOut showNat (if sg then II.ilog2 w a else UI.ilog2 w a),
      spOutK (Spec.checkedIlog (valOf c a) 2))
  | "ilog10", [sa] => do
    let a ← parseVal c sa
    some (showOut showNat (if sg then II.ilog10 dbg w a else UI.ilog10 dbg w a),
      spOutK (Spec.checkedIlog (valOf c a) 10))
  | _, _ => none

end Bnum.Drive.C08
