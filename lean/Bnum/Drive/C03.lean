/-
  Bnum.Drive.C03 — division / remainder ops.  Request: `op cfg [dbg|rel] a b` (hex patterns).
  The optional profile word selects the `cfg(debug_assertions)` variant of the model (default
  `dbg`); it only matters for `div_ceil`, `div_floor`, `next_multiple_of`,
  `checked_next_multiple_of` (all other results are profile independent).
  Spec answers: `P` = must panic (zero divisor; `MIN / -1` for the panicking forms; overflow of
  `next_multiple_of` in debug).  Signed `div_floor`/`div_ceil` of `MIN / -1` is the one request
  the property statement does not pin down (these two methods have no overflow channel, and the
  statement's list of `MIN / -1` results names the checked / overflowing / wrapping / saturating
  forms only): the spec accepts exactly the two readings `P` ("reported as overflow" by a panic, as
  the primitive types do) and the wrapped exact quotient `MIN` (what the crate returns, theorem
  `C03.i_divFloor_divCeil_min_neg_one`) — any other value is a violation.
-/
import Bnum.Drive.Util
import Bnum.Model.Div
import Bnum.Spec.Div
namespace Bnum.Drive.C03
open Bnum Bnum.Drive Bnum.Spec

private def spPair (p : Nat × Bool) : String := "(" ++ toHex p.1 ++ "," ++ showBool p.2 ++ ")"
private def spOpt (p : Option Nat) : String := showOpt toHex p
private def moV (c : Cfg) (o : Outcome (List Nat)) : String := showOut (showVal c) o
private def moO (c : Cfg) (o : Outcome (Option (List Nat))) : String := showOut (showOpt (showVal c)) o
private def moP (c : Cfg) (o : Outcome (List Nat × Bool)) : String := showOut (showPair c) o

def handle : Handler := fun c op args =>
  let w := c.w
  let sg := c.signed
  let m := M c.w c.n
  let pr : Bool × List String := match args with
    | "dbg" :: r => (true, r)
    | "rel" :: r => (false, r)
    | r => (true, r)
  let dbg := pr.1
  match pr.2 with
  | [sa, sb] => do
    let a ← parseVal c sa
    let b ← parseVal c sb
    let x := valOf c a
    let y := valOf c b
    let ovf := divOverflow sg m x y
    -- spec answers
    let spChecked (k : DivKind) := spOpt (checkedDivLike sg m k x y)
    let spOverflowing (k : DivKind) := if y = 0 then "P" else spPair (overflowingDivLike sg m k x y)
    let spWrapping (k : DivKind) := if y = 0 then "P" else toHex (wrapU m (k.eval x y))
    let spPanicking (k : DivKind) := if y = 0 || ovf then "P" else toHex (wrapU m (k.eval x y))
    let spOpen (k : DivKind) :=
      if y = 0 then "P" else if ovf then "P|" ++ toHex (wrapU m (k.eval x y)) else toHex (wrapU m (k.eval x y))
    match op with
    | "checked_div" =>
      some (moO c (if sg then II.checkedDiv dbg w a b else UI.checkedDiv w a b), spChecked .tdiv)
    | "checked_rem" =>
      some (moO c (if sg then II.checkedRem dbg w a b else UI.checkedRem w a b), spChecked .tmod)
    | "checked_div_euclid" =>
      some (moO c (if sg then II.checkedDivEuclid dbg w a b else UI.checkedDivEuclid w a b), spChecked .ediv)
    | "checked_rem_euclid" =>
      some (moO c (if sg then II.checkedRemEuclid dbg w a b else UI.checkedRemEuclid w a b), spChecked .emod)
    | "overflowing_div" =>
      some (moP c (if sg then II.overflowingDiv dbg w a b else UI.overflowingDiv w a b), spOverflowing .tdiv)
    | "overflowing_rem" =>
      some (moP c (if sg then II.overflowingRem dbg w a b else UI.overflowingRem w a b), spOverflowing .tmod)
    | "overflowing_div_euclid" =>
      some (moP c (if sg then II.overflowingDivEuclid dbg w a b else UI.overflowingDivEuclid w a b), spOverflowing .ediv)
    | "overflowing_rem_euclid" =>
      some (moP c (if sg then II.overflowingRemEuclid dbg w a b else UI.overflowingRemEuclid w a b), spOverflowing .emod)
    | "wrapping_div" =>
      some (moV c (if sg then II.wrappingDiv dbg w a b else UI.wrappingDiv w a b), spWrapping .tdiv)
    | "wrapping_rem" =>
      some (moV c (if sg then II.wrappingRem dbg w a b else UI.wrappingRem w a b), spWrapping .tmod)
    | "wrapping_div_euclid" =>
      some (moV c (if sg then II.wrappingDivEuclid dbg w a b else UI.wrappingDivEuclid w a b), spWrapping .ediv)
    | "wrapping_rem_euclid" =>
      some (moV c (if sg then II.wrappingRemEuclid dbg w a b else UI.wrappingRemEuclid w a b), spWrapping .emod)
    | "saturating_div" =>
      some (moV c (if sg then II.saturatingDiv dbg w a b else UI.saturatingDiv w a b),
        if y = 0 then "P" else toHex (Spec.saturatingDiv sg m x y))
    | "div" =>
      some (moV c (if sg then II.div dbg w a b else UI.div w a b), spPanicking .tdiv)
    | "rem" =>
      some (moV c (if sg then II.rem dbg w a b else UI.rem w a b), spPanicking .tmod)
    | "div_euclid" =>
      some (moV c (if sg then II.divEuclid dbg w a b else UI.divEuclid w a b), spPanicking .ediv)
    | "rem_euclid" =>
      some (moV c (if sg then II.remEuclid dbg w a b else UI.remEuclid w a b), spPanicking .emod)
    | "div_floor" =>
      some (moV c (if sg then II.divFloor dbg w a b else UI.divFloor w a b), spOpen .fdiv)
    | "div_ceil" =>
      some (moV c (if sg then II.divCeil dbg w a b else UI.divCeil dbg w a b), spOpen .cdiv)
    | "next_multiple_of" =>
      let z := nextMultiple x y
      some (moV c (if sg then II.nextMultipleOf dbg w a b else UI.nextMultipleOf dbg w a b),
        if y = 0 then "P" else if rep sg m z then toHex (wrapU m z)
        else if dbg then "P" else toHex (wrapU m z))
    | "checked_next_multiple_of" =>
      some (moO c (if sg then II.checkedNextMultipleOf dbg w a b else UI.checkedNextMultipleOf dbg w a b),
        if y = 0 then "N" else spOpt (Spec.checked sg m (nextMultiple x y)))
    | _ => none
  | _ => none

end Bnum.Drive.C03
