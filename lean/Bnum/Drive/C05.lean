/-
  Bnum.Drive.C05 — line-protocol handler for shifts and rotations.
  Ops (all `op cfg a s`, `a` = hex pattern, `s` = decimal u32):
    overflowing_shl overflowing_shr checked_shl checked_shr wrapping_shl wrapping_shr
    unbounded_shl unbounded_shr rotate_left rotate_right
    strict_shl strict_shr   (value, or `P` when `s ≥ BITS`; same in both build modes)
  and `shl cfg dbg a s`, `shr cfg dbg a s` with `dbg` ∈ {`dbg`,`1`} (debug_assertions) or
  {`rel`,`0`} (release); answer `P` on panic.
  `unchecked_shl cfg a s`, `unchecked_shr cfg a s` (`unsafe`; only ever requested with `s < BITS`; for
  `s ≥ BITS` the Rust is undefined behaviour and model and spec both answer `UB`, the harness refuses).
  Operator entry points for a `u32` amount, `op cfg dbg|rel a s`:
    shl_op  `a << s`   shr_op  `a >> s`   shl_assign  `a <<= s`   shr_assign  `a >>= s`
  (same answers as `shl` / `shr`: `P` under debug_assertions when `s ≥ BITS`).
  Where the property leaves the value open (wrapping/overflowing shift with `s ≥ BITS` at a width that
  is not a power of two) the spec answer has `*` in the value position: `*`, `(*,true)`.
-/
import Bnum.Drive.Util
import Bnum.Model.Shift
import Bnum.Model.C05Extra
import Bnum.Spec.Shift
namespace Bnum.Drive.C05
open Bnum Bnum.Drive

private def parseAmt (s : String) : Option Nat := s.toNat?
private def parseDbg (s : String) : Option Bool :=
  if s = "dbg" ∨ s = "1" then some true else if s = "rel" ∨ s = "0" then some false else none
private def hexOr (v : Option Nat) : String := match v with | some x => toHex x | none => "*"

def handle : Handler := fun c op args =>
  let w := c.w
  let bits := c.w * c.n
  let sg := c.signed
  -- model dispatch on signedness
  let mOvShl (a s) := if sg then II.overflowingShl w a s else UI.overflowingShl w a s
  let mOvShr (a s) := if sg then II.overflowingShr w a s else UI.overflowingShr w a s
  let mChShl (a s) := if sg then II.checkedShl w a s else UI.checkedShl w a s
  let mChShr (a s) := if sg then II.checkedShr w a s else UI.checkedShr w a s
  let mWrShl (a s) := if sg then II.wrappingShl w a s else UI.wrappingShl w a s
  let mWrShr (a s) := if sg then II.wrappingShr w a s else UI.wrappingShr w a s
  let mUbShl (a s) := if sg then II.unboundedShl w a s else UI.unboundedShl w a s
  let mUbShr (a s) := if sg then II.unboundedShr w a s else UI.unboundedShr w a s
  let mRotl (a s) := if sg then II.rotateLeft w a s else UI.rotateLeft w a s
  let mRotr (a s) := if sg then II.rotateRight w a s else UI.rotateRight w a s
  let mStShl (a s) := if sg then II.strictShl w a s else UI.strictShl w a s
  let mStShr (a s) := if sg then II.strictShr w a s else UI.strictShr w a s
  let mShl (d a s) := if sg then II.shl d w a s else UI.shl d w a s
  let mShr (d a s) := if sg then II.shr d w a s else UI.shr d w a s
  let mUcShl (a s) := if sg then II.uncheckedShl w a s else UI.uncheckedShl w a s
  let mUcShr (a s) := if sg then II.uncheckedShr w a s else UI.uncheckedShr w a s
  let mShlOp (d a s) := if sg then II.shlExp d w a s else UI.shlExp d w a s
  let mShrOp (d a s) := if sg then II.shrExp d w a s else UI.shrExp d w a s
  let mShlAs (d a s) := if sg then II.shlAssignExp d w a s else UI.shlAssignExp d w a s
  let mShrAs (d a s) := if sg then II.shrAssignExp d w a s else UI.shrAssignExp d w a s
  let showUb (r : Option (List Nat)) : String := match r with | some x => showVal c x | none => "UB"
  -- spec: exact value of the operand, and the value of the shifted result (if determined)
  let spShl (a : List Nat) (s : Nat) : Option Nat :=
    (Spec.Shift.effAmount bits s).map (Spec.Shift.shlVal bits (valOf c a))
  let spShr (a : List Nat) (s : Nat) : Option Nat :=
    (Spec.Shift.effAmount bits s).map (Spec.Shift.shrVal bits (valOf c a))
  let ovf (s : Nat) : Bool := decide (s ≥ bits)
  match op, args with
  | "overflowing_shl", [a, s] => do
    let a ← parseVal c a; let s ← parseAmt s
    some (showPair c (mOvShl a s), "(" ++ hexOr (spShl a s) ++ "," ++ showBool (ovf s) ++ ")")
  | "overflowing_shr", [a, s] => do
    let a ← parseVal c a; let s ← parseAmt s
    some (showPair c (mOvShr a s), "(" ++ hexOr (spShr a s) ++ "," ++ showBool (ovf s) ++ ")")
  | "checked_shl", [a, s] => do
    let a ← parseVal c a; let s ← parseAmt s
    some (showOpt (showVal c) (mChShl a s),
      if ovf s then "N" else "S(" ++ toHex (Spec.Shift.shlVal bits (valOf c a) s) ++ ")")
  | "checked_shr", [a, s] => do
    let a ← parseVal c a; let s ← parseAmt s
    some (showOpt (showVal c) (mChShr a s),
      if ovf s then "N" else "S(" ++ toHex (Spec.Shift.shrVal bits (valOf c a) s) ++ ")")
  | "wrapping_shl", [a, s] => do
    let a ← parseVal c a; let s ← parseAmt s
    some (showVal c (mWrShl a s), hexOr (spShl a s))
  | "wrapping_shr", [a, s] => do
    let a ← parseVal c a; let s ← parseAmt s
    some (showVal c (mWrShr a s), hexOr (spShr a s))
  | "unbounded_shl", [a, s] => do
    let a ← parseVal c a; let s ← parseAmt s
    some (showVal c (mUbShl a s), toHex (Spec.Shift.unboundedShl bits (valOf c a) s))
  | "unbounded_shr", [a, s] => do
    let a ← parseVal c a; let s ← parseAmt s
    some (showVal c (mUbShr a s), toHex (Spec.Shift.unboundedShr bits (valOf c a) s))
  | "rotate_left", [a, s] => do
    let a ← parseVal c a; let s ← parseAmt s
    some (showVal c (mRotl a s), toHex (Spec.Shift.rotl bits (U w a) s))
  | "rotate_right", [a, s] => do
    let a ← parseVal c a; let s ← parseAmt s
    some (showVal c (mRotr a s), toHex (Spec.Shift.rotr bits (U w a) s))
  | "strict_shl", [a, s] => do
    let a ← parseVal c a; let s ← parseAmt s
    some (showOut (showVal c) (mStShl a s),
      if ovf s then "P" else toHex (Spec.Shift.shlVal bits (valOf c a) s))
  | "strict_shr", [a, s] => do
    let a ← parseVal c a; let s ← parseAmt s
    some (showOut (showVal c) (mStShr a s),
      if ovf s then "P" else toHex (Spec.Shift.shrVal bits (valOf c a) s))
  | "shl", [d, a, s] => do
    let d ← parseDbg d; let a ← parseVal c a; let s ← parseAmt s
    some (showOut (showVal c) (mShl d a s),
      if d && ovf s then "P" else hexOr (spShl a s))
  | "shr", [d, a, s] => do
    let d ← parseDbg d; let a ← parseVal c a; let s ← parseAmt s
    some (showOut (showVal c) (mShr d a s),
      if d && ovf s then "P" else hexOr (spShr a s))
  | "unchecked_shl", [a, s] => do
    let a ← parseVal c a; let s ← parseAmt s
    some (showUb (mUcShl a s),
      if ovf s then "UB" else toHex (Spec.Shift.shlVal bits (valOf c a) s))
  | "unchecked_shr", [a, s] => do
    let a ← parseVal c a; let s ← parseAmt s
    some (showUb (mUcShr a s),
      if ovf s then "UB" else toHex (Spec.Shift.shrVal bits (valOf c a) s))
  | "shl_op", [d, a, s] => do
    let d ← parseDbg d; let a ← parseVal c a; let s ← parseAmt s
    some (showOut (showVal c) (mShlOp d a s),
      if d && ovf s then "P" else hexOr (spShl a s))
  | "shr_op", [d, a, s] => do
    let d ← parseDbg d; let a ← parseVal c a; let s ← parseAmt s
    some (showOut (showVal c) (mShrOp d a s),
      if d && ovf s then "P" else hexOr (spShr a s))
  | "shl_assign", [d, a, s] => do
    let d ← parseDbg d; let a ← parseVal c a; let s ← parseAmt s
    some (showOut (showVal c) (mShlAs d a s),
      if d && ovf s then "P" else hexOr (spShl a s))
  | "shr_assign", [d, a, s] => do
    let d ← parseDbg d; let a ← parseVal c a; let s ← parseAmt s
    some (showOut (showVal c) (mShrAs d a s),
      if d && ovf s then "P" else hexOr (spShr a s))
  | _, _ => none

end Bnum.Drive.C05
