/-
  Bnum.Drive.C18 — `num_integer` / `num_traits` trait methods (everything is called THROUGH THE TRAITS
  by the harness).  Request: `op cfg [dbg|rel] arg…`; the optional profile word selects the
  `cfg(debug_assertions)` variant of the model (default `dbg`).  Every op is also accepted with the
  prefix `nt_` (`nt_div_floor` …) — NOTE `div_floor` without prefix is answered by Drive/C03 (the
  inherent method) because C03 comes first in `All.handlers`: the harness must send `nt_div_floor`.

    gcd lcm div_floor mod_floor is_multiple_of        a b      → hex / bool / `P`
    div_rem div_mod_floor                             a b      → `(q,r)` / `P`
    is_even is_odd                                    a        → bool
    sqrt cbrt                                         a        → hex / `P`
    nth_root                                          a n      → hex / `P`   (n decimal u32)
    nt_checked_add nt_checked_sub nt_checked_mul nt_checked_div nt_checked_rem
    nt_checked_div_euclid nt_checked_rem_euclid       a b      → `S(x)` / `N`
    nt_checked_neg                                    a        → `S(x)` / `N`
    nt_wrapping_neg  nt_to_be  nt_to_le               a        → hex
    nt_is_positive nt_is_negative (signed cfg only)   a        → bool
    nt_wrapping_add nt_wrapping_sub nt_wrapping_mul   a b      → hex
    nt_saturating_add nt_saturating_sub nt_saturating_mul a b  → hex
    nt_overflowing_add nt_overflowing_sub             a b      → `(x,bool)`
    nt_pow                                            a e      → hex / `P`   (e decimal u32)
    nt_mul_add                                        a b c    → hex / `P`   (`a*b + c`)
    nt_abs nt_signum (signed cfg only)                a        → hex / `P`
    nt_abs_sub (signed cfg only)                      a b      → hex / `P`
    nt_div_euclid nt_rem_euclid                       a b      → hex / `P`
    nt_count_ones nt_count_zeros nt_leading_zeros nt_trailing_zeros  a → decimal
    nt_rotate_left nt_rotate_right                    a k      → hex
    nt_swap_bytes                                     a        → hex
    nt_unsigned_shr nt_signed_shr nt_unsigned_shl nt_signed_shl  a k → hex / `P`
    nt_min_value nt_max_value nt_zero nt_one          (no args)→ hex
    nt_is_zero nt_is_one                              a        → bool
    nt_from_str_radix                                 radix <hexbytes> → as Drive/C10
    -- least-used entry points (all called through the traits)
    nt_divides (deprecated alias of is_multiple_of)   a b      → bool / `P`
    nt_div_ceil nt_next_multiple_of nt_prev_multiple_of   [dbg|rel] a b → hex / `P`  (num-integer's
                                                      provided methods on the crate's operators)
    nt_gcd_lcm                                        [dbg|rel] a b → `(g,l)` / `P`
    nt_inc nt_dec                                     [dbg|rel] a   → hex / `P`
    nt_mul_add_assign                                 [dbg|rel] a b c → hex / `P`
    nt_primint_pow (`PrimInt::pow`)                   [dbg|rel] a e → hex / `P`
    nt_saturating_add_ref nt_saturating_sub_ref nt_saturating_mul_ref  a b → hex
                                                      (`SaturatingAdd/Sub/Mul`, by reference)
    nt_checked_shl nt_checked_shr                     a k      → `S(x)` / `N`
    nt_wrapping_shl nt_wrapping_shr                   a k      → hex
    nt_leading_ones nt_trailing_ones                  a        → decimal
    nt_reverse_bits nt_from_be nt_from_le             a        → hex

  Ops whose result depends on the build profile (so the harness must send the profile word, or keep
  the inputs away from the overflow): gcd / lcm (only when the result is not representable),
  nt_pow, nt_mul_add, nt_abs (`MIN`), nt_abs_sub (overflowing difference), the four PrimInt shifts
  (amount `≥ BITS`).  Everything else is profile independent.
  Spec answers: `*` = left open by the property (gcd / lcm not representable; the wrapped amount of
  a shift by `≥ BITS` in a release build at a width that is not a power of two), `P|x` = alternatives
  (only `is_multiple_of(x, 0)`: the crate panics, num-integer's primitive impls answer `x == 0`, the
  trait documentation is silent).  `MIN / -1` is `P` in the whole division family, in both build
  profiles, like the primitive integers (theorem `i_min_neg_one`).
-/
import Bnum.Drive.Util
import Bnum.Drive.C10
import Bnum.Model.NumTraits
import Bnum.Model.C18Extra
import Bnum.Spec.NumTraits
import Bnum.Spec.Shift
import Bnum.Spec.Endian
namespace Bnum.Drive.C18
open Bnum Bnum.Drive Bnum.Spec

private def moV (c : Cfg) (o : Outcome (List Nat)) : String := showOut (showVal c) o
private def moB (o : Outcome Bool) : String := showOut showBool o
private def showVV (c : Cfg) (p : List Nat × List Nat) : String :=
  "(" ++ showVal c p.1 ++ "," ++ showVal c p.2 ++ ")"
private def moVV (c : Cfg) (o : Outcome (List Nat × List Nat)) : String := showOut (showVV c) o
private def spPair (p : Nat × Bool) : String := "(" ++ toHex p.1 ++ "," ++ showBool p.2 ++ ")"
private def hexOr (v : Option Nat) : String := match v with | some x => toHex x | none => "*"

private def stripNt (op : String) : String :=
  if op.startsWith "nt_" then (op.drop 3).toString else op

def handle : Handler := fun c op0 args0 =>
  let op := stripNt op0
  let w := c.w
  let n := c.n
  let sg := c.signed
  let m := M w n
  let bits := w * n
  let pr : Bool × List String := match args0 with
    | "dbg" :: r => (true, r)
    | "rel" :: r => (false, r)
    | r => (true, r)
  let dbg := pr.1
  let args := pr.2
  let pat (z : Int) : String := toHex (wrapU m z)
  /- result of an unsuffixed operator on the exact value `z` -/
  let opRes (z : Int) : String := if rep sg m z then pat z else if dbg then "P" else pat z
  let minI : Int := minV sg m
  match op, args with
  /- ---------------- Integer ---------------- -/
  | "gcd", [sa, sb] => do
    let a ← parseVal c sa; let b ← parseVal c sb
    let g := NumT.gcdInt (valOf c a) (valOf c b)
    some (moV c (if sg then NumT.I.gcd dbg w a b else NumT.U.gcd dbg w a b),
      if rep sg m g then toHex g else "*")
  | "lcm", [sa, sb] => do
    let a ← parseVal c sa; let b ← parseVal c sb
    let l := NumT.lcmInt (valOf c a) (valOf c b)
    let mo := if sg then NumT.I.lcm dbg w a b
              else NumT.U.lcm dbg w a b
    some (moV c mo, if rep sg m l then toHex l else "*")
  | "div_floor", [sa, sb] => do
    let a ← parseVal c sa; let b ← parseVal c sb
    let x := valOf c a; let y := valOf c b
    let mo := if sg then NumT.I.divFloor dbg w a b
              else NumT.U.divFloor w a b
    some (moV c mo, if y = 0 then "P" else if divOverflow sg m x y then "P" else pat (Int.fdiv x y))
  | "mod_floor", [sa, sb] => do
    let a ← parseVal c sa; let b ← parseVal c sb
    let x := valOf c a; let y := valOf c b
    let mo := if sg then NumT.I.modFloor dbg w a b
              else NumT.U.modFloor w a b
    some (moV c mo, if y = 0 then "P" else if divOverflow sg m x y then "P" else pat (Int.fmod x y))
  | "div_rem", [sa, sb] => do
    let a ← parseVal c sa; let b ← parseVal c sb
    let x := valOf c a; let y := valOf c b
    let mo := if sg then NumT.I.divRem dbg w a b
              else NumT.U.divRem w a b
    some (moVV c mo, if y = 0 then "P" else if divOverflow sg m x y then "P"
      else "(" ++ pat (Int.tdiv x y) ++ "," ++ pat (Int.tmod x y) ++ ")")
  | "div_mod_floor", [sa, sb] => do
    let a ← parseVal c sa; let b ← parseVal c sb
    let x := valOf c a; let y := valOf c b
    let mo := if sg then NumT.I.divModFloor dbg w a b
              else NumT.U.divModFloor w a b
    some (moVV c mo, if y = 0 then "P" else if divOverflow sg m x y then "P"
      else "(" ++ pat (Int.fdiv x y) ++ "," ++ pat (Int.fmod x y) ++ ")")
  | "is_multiple_of", [sa, sb] => do
    let a ← parseVal c sa; let b ← parseVal c sb
    let x := valOf c a; let y := valOf c b
    let mo := if sg then NumT.I.isMultipleOf dbg w a b
              else NumT.U.isMultipleOf w a b
    some (moB mo, if y = 0 then "P|" ++ showBool (x == 0)
      else if divOverflow sg m x y then "P" else showBool (x % y == 0))
  | "divides", [sa, sb] => do
    let a ← parseVal c sa; let b ← parseVal c sb
    let x := valOf c a; let y := valOf c b
    let mo := if sg then NumT.I.divides dbg w a b
              else NumT.U.divides w a b
    some (moB mo, if y = 0 then "P|" ++ showBool (x == 0)
      else if divOverflow sg m x y then "P" else showBool (x % y == 0))
  /- ---------------- Integer: num-integer's provided methods ---------------- -/
  | "div_ceil", [sa, sb] => do
    let a ← parseVal c sa; let b ← parseVal c sb
    let x := valOf c a; let y := valOf c b
    some (moV c (if sg then NumT.I.divCeil dbg w a b else NumT.U.divCeil dbg w a b),
      if y = 0 then "P" else if divOverflow sg m x y then "P" else pat (-(Int.fdiv (-x) y)))
  | "next_multiple_of", [sa, sb] => do
    let a ← parseVal c sa; let b ← parseVal c sb
    let x := valOf c a; let y := valOf c b
    let r := Int.fmod x y
    some (moV c (if sg then NumT.I.nextMultipleOf dbg w a b else NumT.U.nextMultipleOf dbg w a b),
      if y = 0 then "P" else if divOverflow sg m x y then "P"
      else opRes (if r = 0 then x else x + (y - r)))
  | "prev_multiple_of", [sa, sb] => do
    let a ← parseVal c sa; let b ← parseVal c sb
    let x := valOf c a; let y := valOf c b
    some (moV c (if sg then NumT.I.prevMultipleOf dbg w a b else NumT.U.prevMultipleOf dbg w a b),
      if y = 0 then "P" else if divOverflow sg m x y then "P" else opRes (x - Int.fmod x y))
  | "gcd_lcm", [sa, sb] => do
    let a ← parseVal c sa; let b ← parseVal c sb
    let g := NumT.gcdInt (valOf c a) (valOf c b)
    let l := NumT.lcmInt (valOf c a) (valOf c b)
    some (moVV c (if sg then NumT.I.gcdLcm dbg w a b else NumT.U.gcdLcm dbg w a b),
      if rep sg m g && rep sg m l then "(" ++ toHex g ++ "," ++ toHex l ++ ")" else "*")
  | "inc", [sa] => do
    let a ← parseVal c sa
    some (moV c (if sg then NumT.I.inc dbg w a else NumT.U.inc dbg w a), opRes (valOf c a + 1))
  | "dec", [sa] => do
    let a ← parseVal c sa
    some (moV c (if sg then NumT.I.dec dbg w a else NumT.U.dec dbg w a), opRes (valOf c a - 1))
  | "is_even", [sa] => do
    let a ← parseVal c sa
    some (showBool (if sg then NumT.I.isEven a else NumT.U.isEven a), showBool (valOf c a % 2 == 0))
  | "is_odd", [sa] => do
    let a ← parseVal c sa
    some (showBool (if sg then NumT.I.isOdd a else NumT.U.isOdd a), showBool (valOf c a % 2 == 1))
  /- ---------------- Roots ---------------- -/
  | "sqrt", [sa] => do
    let a ← parseVal c sa
    let x := valOf c a
    some (moV c (if sg then NumT.I.sqrt dbg w a else NumT.U.sqrt dbg w a),
      if x < 0 then "P" else pat (NumT.rootInt 2 x))
  | "cbrt", [sa] => do
    let a ← parseVal c sa
    some (moV c (if sg then NumT.I.cbrt dbg w a else NumT.U.cbrt dbg w a), pat (NumT.rootInt 3 (valOf c a)))
  | "nth_root", [sa, sk] => do
    let a ← parseVal c sa; let k ← sk.toNat?
    let x := valOf c a
    let mo := if sg then NumT.I.nthRoot dbg w a k else NumT.U.nthRoot dbg w a k
    some (moV c mo,
      if k = 0 then "P" else if x < 0 ∧ k % 2 = 0 then "P" else pat (NumT.rootInt k x))
  /- ---------------- arithmetic forwarders ---------------- -/
  | "checked_add", [sa, sb] => do
    let a ← parseVal c sa; let b ← parseVal c sb
    some (showOpt (showVal c) (if sg then NumT.I.checkedAdd w a b else NumT.U.checkedAdd w a b),
      showOpt toHex (checked sg m (valOf c a + valOf c b)))
  | "checked_sub", [sa, sb] => do
    let a ← parseVal c sa; let b ← parseVal c sb
    some (showOpt (showVal c) (if sg then NumT.I.checkedSub w a b else NumT.U.checkedSub w a b),
      showOpt toHex (checked sg m (valOf c a - valOf c b)))
  | "checked_mul", [sa, sb] => do
    let a ← parseVal c sa; let b ← parseVal c sb
    some (showOpt (showVal c) (if sg then NumT.I.checkedMul w a b else NumT.U.checkedMul w a b),
      showOpt toHex (checked sg m (valOf c a * valOf c b)))
  | "checked_div", [sa, sb] => do
    let a ← parseVal c sa; let b ← parseVal c sb
    some (showOut (showOpt (showVal c)) (if sg then NumT.I.checkedDiv dbg w a b else NumT.U.checkedDiv w a b),
      showOpt toHex (checkedDivLike sg m .tdiv (valOf c a) (valOf c b)))
  | "checked_rem", [sa, sb] => do
    let a ← parseVal c sa; let b ← parseVal c sb
    some (showOut (showOpt (showVal c)) (if sg then NumT.I.checkedRem dbg w a b else NumT.U.checkedRem w a b),
      showOpt toHex (checkedDivLike sg m .tmod (valOf c a) (valOf c b)))
  | "checked_div_euclid", [sa, sb] => do
    let a ← parseVal c sa; let b ← parseVal c sb
    some (showOut (showOpt (showVal c))
        (if sg then NumT.I.checkedDivEuclid dbg w a b else NumT.U.checkedDivEuclid w a b),
      showOpt toHex (checkedDivLike sg m .ediv (valOf c a) (valOf c b)))
  | "checked_rem_euclid", [sa, sb] => do
    let a ← parseVal c sa; let b ← parseVal c sb
    some (showOut (showOpt (showVal c))
        (if sg then NumT.I.checkedRemEuclid dbg w a b else NumT.U.checkedRemEuclid w a b),
      showOpt toHex (checkedDivLike sg m .emod (valOf c a) (valOf c b)))
  | "checked_neg", [sa] => do
    let a ← parseVal c sa
    some (showOpt (showVal c) (if sg then NumT.I.checkedNeg w a else NumT.U.checkedNeg w a),
      showOpt toHex (checked sg m (-(valOf c a))))
  | "wrapping_neg", [sa] => do
    let a ← parseVal c sa
    some (showVal c (if sg then NumT.I.wrappingNeg w a else NumT.U.wrappingNeg w a), pat (-(valOf c a)))
  | "wrapping_add", [sa, sb] => do
    let a ← parseVal c sa; let b ← parseVal c sb
    some (showVal c (if sg then NumT.I.wrappingAdd w a b else NumT.U.wrappingAdd w a b),
      pat (valOf c a + valOf c b))
  | "wrapping_sub", [sa, sb] => do
    let a ← parseVal c sa; let b ← parseVal c sb
    some (showVal c (if sg then NumT.I.wrappingSub w a b else NumT.U.wrappingSub w a b),
      pat (valOf c a - valOf c b))
  | "wrapping_mul", [sa, sb] => do
    let a ← parseVal c sa; let b ← parseVal c sb
    some (showVal c (if sg then NumT.I.wrappingMul w a b else NumT.U.wrappingMul w a b),
      pat (valOf c a * valOf c b))
  | "saturating_add", [sa, sb] => do
    let a ← parseVal c sa; let b ← parseVal c sb
    some (showVal c (if sg then NumT.I.saturatingAdd w a b else NumT.U.saturatingAdd w a b),
      toHex (saturating sg m (valOf c a + valOf c b)))
  | "saturating_sub", [sa, sb] => do
    let a ← parseVal c sa; let b ← parseVal c sb
    some (showVal c (if sg then NumT.I.saturatingSub w a b else NumT.U.saturatingSub w a b),
      toHex (saturating sg m (valOf c a - valOf c b)))
  | "saturating_mul", [sa, sb] => do
    let a ← parseVal c sa; let b ← parseVal c sb
    some (showVal c (if sg then NumT.I.saturatingMul w a b else NumT.U.saturatingMul w a b),
      toHex (saturating sg m (valOf c a * valOf c b)))
  | "saturating_add_ref", [sa, sb] => do
    let a ← parseVal c sa; let b ← parseVal c sb
    some (showVal c (if sg then NumT.I.saturatingAddRef w a b else NumT.U.saturatingAddRef w a b),
      toHex (saturating sg m (valOf c a + valOf c b)))
  | "saturating_sub_ref", [sa, sb] => do
    let a ← parseVal c sa; let b ← parseVal c sb
    some (showVal c (if sg then NumT.I.saturatingSubRef w a b else NumT.U.saturatingSubRef w a b),
      toHex (saturating sg m (valOf c a - valOf c b)))
  | "saturating_mul_ref", [sa, sb] => do
    let a ← parseVal c sa; let b ← parseVal c sb
    some (showVal c (if sg then NumT.I.saturatingMulRef w a b else NumT.U.saturatingMulRef w a b),
      toHex (saturating sg m (valOf c a * valOf c b)))
  | "checked_shl", [sa, sk] => do
    let a ← parseVal c sa; let k ← sk.toNat?
    some (showOpt (showVal c) (if sg then NumT.I.checkedShl w a k else NumT.U.checkedShl w a k),
      if k ≥ bits then "N" else "S(" ++ toHex (Spec.Shift.shlVal bits (valOf c a) k) ++ ")")
  | "checked_shr", [sa, sk] => do
    let a ← parseVal c sa; let k ← sk.toNat?
    some (showOpt (showVal c) (if sg then NumT.I.checkedShr w a k else NumT.U.checkedShr w a k),
      if k ≥ bits then "N" else "S(" ++ toHex (Spec.Shift.shrVal bits (valOf c a) k) ++ ")")
  | "wrapping_shl", [sa, sk] => do
    let a ← parseVal c sa; let k ← sk.toNat?
    some (showVal c (if sg then NumT.I.wrappingShl w a k else NumT.U.wrappingShl w a k),
      hexOr ((Spec.Shift.effAmount bits k).map (Spec.Shift.shlVal bits (valOf c a))))
  | "wrapping_shr", [sa, sk] => do
    let a ← parseVal c sa; let k ← sk.toNat?
    some (showVal c (if sg then NumT.I.wrappingShr w a k else NumT.U.wrappingShr w a k),
      hexOr ((Spec.Shift.effAmount bits k).map (Spec.Shift.shrVal bits (valOf c a))))
  | "overflowing_add", [sa, sb] => do
    let a ← parseVal c sa; let b ← parseVal c sb
    some (showPair c (if sg then NumT.I.overflowingAdd w a b else NumT.U.overflowingAdd w a b),
      spPair (overflowing sg m (valOf c a + valOf c b)))
  | "overflowing_sub", [sa, sb] => do
    let a ← parseVal c sa; let b ← parseVal c sb
    some (showPair c (if sg then NumT.I.overflowingSub w a b else NumT.U.overflowingSub w a b),
      spPair (overflowing sg m (valOf c a - valOf c b)))
  | "pow", [sa, se] => do
    let a ← parseVal c sa; let e ← se.toNat?
    let x := valOf c a
    some (moV c (if sg then NumT.I.pow w dbg a e else NumT.U.pow w dbg a e),
      if NumT.powRep sg m bits x e then toHex (NumT.powPat m x e)
      else if dbg then "P" else toHex (NumT.powPat m x e))
  | "primint_pow", [sa, se] => do
    let a ← parseVal c sa; let e ← se.toNat?
    let x := valOf c a
    some (moV c (if sg then NumT.I.primIntPow w dbg a e else NumT.U.primIntPow w dbg a e),
      if NumT.powRep sg m bits x e then toHex (NumT.powPat m x e)
      else if dbg then "P" else toHex (NumT.powPat m x e))
  | "mul_add_assign", [sa, sb, sc] => do
    let a ← parseVal c sa; let b ← parseVal c sb; let d ← parseVal c sc
    let x := valOf c a; let y := valOf c b; let z := valOf c d
    some (moV c (if sg then NumT.I.mulAddAssign dbg w a b d else NumT.U.mulAddAssign dbg w a b d),
      if dbg && !(rep sg m (x * y)) then "P" else
        (if rep sg m (x * y) then opRes (x * y + z) else pat (x * y + z)))
  | "mul_add", [sa, sb, sc] => do
    let a ← parseVal c sa; let b ← parseVal c sb; let d ← parseVal c sc
    let x := valOf c a; let y := valOf c b; let z := valOf c d
    some (moV c (if sg then NumT.I.mulAdd dbg w a b d else NumT.U.mulAdd dbg w a b d),
      if dbg && !(rep sg m (x * y)) then "P" else
        -- in release the product wraps first; the sum of the wrapped product wraps to the same pattern
        (if rep sg m (x * y) then opRes (x * y + z) else pat (x * y + z)))
  | "div_euclid", [sa, sb] => do
    let a ← parseVal c sa; let b ← parseVal c sb
    let x := valOf c a; let y := valOf c b
    some (moV c (if sg then NumT.I.divEuclid dbg w a b else NumT.U.divEuclid w a b),
      if y = 0 || divOverflow sg m x y then "P" else pat (x / y))
  | "rem_euclid", [sa, sb] => do
    let a ← parseVal c sa; let b ← parseVal c sb
    let x := valOf c a; let y := valOf c b
    some (moV c (if sg then NumT.I.remEuclid dbg w a b else NumT.U.remEuclid w a b),
      if y = 0 || divOverflow sg m x y then "P" else pat (x % y))
  /- ---------------- Signed ---------------- -/
  | "abs", [sa] =>
    if !sg then none else do
    let a ← parseVal c sa
    let x := valOf c a
    some (moV c (NumT.I.abs dbg w a), if x = minI then (if dbg then "P" else pat minI) else pat x.natAbs)
  | "signum", [sa] =>
    if !sg then none else do
    let a ← parseVal c sa
    some (showVal c (NumT.I.signum w a), pat (Spec.signum (valOf c a)))
  | "abs_sub", [sa, sb] =>
    if !sg then none else do
    let a ← parseVal c sa; let b ← parseVal c sb
    let x := valOf c a; let y := valOf c b
    some (moV c (NumT.I.absSub dbg w a b), if x ≤ y then "0" else opRes (x - y))
  | "is_positive", [sa] =>
    if !sg then none else do
    let a ← parseVal c sa
    some (showBool (NumT.I.isPositive w a), showBool (decide (0 < valOf c a)))
  | "is_negative", [sa] =>
    if !sg then none else do
    let a ← parseVal c sa
    some (showBool (NumT.I.isNegativeT w a), showBool (decide (valOf c a < 0)))
  /- ---------------- PrimInt ---------------- -/
  | "count_zeros", [sa] => do
    let a ← parseVal c sa
    some (toString (if sg then NumT.I.countZeros w a else NumT.U.countZeros w a),
      toString (Spec.countZeros bits (U w a)))
  | "to_be", [sa] => do
    let a ← parseVal c sa
    some (showVal c (if sg then NumT.I.toBe true (w / 8) a else NumT.U.toBe true (w / 8) a),
      toHex (Spec.Endian.swapPattern (n * (w / 8)) (U w a)))
  | "to_le", [sa] => do
    let a ← parseVal c sa
    some (showVal c (if sg then NumT.I.toLe true (w / 8) a else NumT.U.toLe true (w / 8) a), toHex (U w a))
  | "count_ones", [sa] => do
    let a ← parseVal c sa
    some (toString (if sg then NumT.I.countOnes w a else NumT.U.countOnes w a),
      toString (Spec.popcount bits (U w a)))
  | "leading_zeros", [sa] => do
    let a ← parseVal c sa
    some (toString (if sg then NumT.I.leadingZeros w a else NumT.U.leadingZeros w a),
      toString (Spec.leadingZeros bits (U w a)))
  | "trailing_zeros", [sa] => do
    let a ← parseVal c sa
    some (toString (if sg then NumT.I.trailingZeros w a else NumT.U.trailingZeros w a),
      toString (Spec.trailingZeros bits (U w a)))
  | "leading_ones", [sa] => do
    let a ← parseVal c sa
    some (toString (if sg then NumT.I.leadingOnes w a else NumT.U.leadingOnes w a),
      toString (Spec.leadingOnes bits (U w a)))
  | "trailing_ones", [sa] => do
    let a ← parseVal c sa
    some (toString (if sg then NumT.I.trailingOnes w a else NumT.U.trailingOnes w a),
      toString (Spec.trailingOnes bits (U w a)))
  | "reverse_bits", [sa] => do
    let a ← parseVal c sa
    some (showVal c (if sg then NumT.I.reverseBits w a else NumT.U.reverseBits w a),
      toHex (Spec.reverseBits bits (U w a)))
  | "from_be", [sa] => do
    let a ← parseVal c sa
    some (showVal c (if sg then NumT.I.fromBe true (w / 8) a else NumT.U.fromBe true (w / 8) a),
      toHex (Spec.Endian.swapPattern (n * (w / 8)) (U w a)))
  | "from_le", [sa] => do
    let a ← parseVal c sa
    some (showVal c (if sg then NumT.I.fromLe true (w / 8) a else NumT.U.fromLe true (w / 8) a), toHex (U w a))
  | "rotate_left", [sa, sk] => do
    let a ← parseVal c sa; let k ← sk.toNat?
    some (showVal c (if sg then NumT.I.rotateLeft w a k else NumT.U.rotateLeft w a k),
      toHex (Spec.Shift.rotl bits (U w a) k))
  | "rotate_right", [sa, sk] => do
    let a ← parseVal c sa; let k ← sk.toNat?
    some (showVal c (if sg then NumT.I.rotateRight w a k else NumT.U.rotateRight w a k),
      toHex (Spec.Shift.rotr bits (U w a) k))
  | "swap_bytes", [sa] => do
    let a ← parseVal c sa
    some (showVal c (if sg then NumT.I.swapBytes w a else NumT.U.swapBytes w a),
      toHex (Spec.swapBytes bits (U w a)))
  | "unsigned_shr", [sa, sk] => do
    let a ← parseVal c sa; let k ← sk.toNat?
    -- zero-filling shift of the pattern, whatever the signedness
    some (moV c (if sg then NumT.I.unsignedShr dbg w a k else NumT.U.unsignedShr dbg w a k),
      if dbg && decide (k ≥ bits) then "P"
      else hexOr ((Spec.Shift.effAmount bits k).map (Spec.Shift.shrVal bits (U w a : Int))))
  | "signed_shr", [sa, sk] => do
    let a ← parseVal c sa; let k ← sk.toNat?
    -- sign-propagating shift of the pattern, whatever the signedness
    some (moV c (if sg then NumT.I.signedShr dbg w a k else NumT.U.signedShr dbg w a k),
      if dbg && decide (k ≥ bits) then "P"
      else hexOr ((Spec.Shift.effAmount bits k).map (Spec.Shift.shrVal bits (S w a))))
  | "unsigned_shl", [sa, sk] => do
    let a ← parseVal c sa; let k ← sk.toNat?
    some (moV c (if sg then NumT.I.unsignedShl dbg w a k else NumT.U.unsignedShl dbg w a k),
      if dbg && decide (k ≥ bits) then "P"
      else hexOr ((Spec.Shift.effAmount bits k).map (Spec.Shift.shlVal bits (valOf c a))))
  | "signed_shl", [sa, sk] => do
    let a ← parseVal c sa; let k ← sk.toNat?
    some (moV c (if sg then NumT.I.signedShl dbg w a k else NumT.U.signedShl dbg w a k),
      if dbg && decide (k ≥ bits) then "P"
      else hexOr ((Spec.Shift.effAmount bits k).map (Spec.Shift.shlVal bits (valOf c a))))
  /- ---------------- Bounded / Zero / One / Num ---------------- -/
  | "min_value", [] =>
    some (showVal c (if sg then NumT.I.minValue w n else NumT.U.minValue n), pat (minV sg m))
  | "max_value", [] =>
    some (showVal c (if sg then NumT.I.maxValue w n else NumT.U.maxValue w n), pat (maxV sg m))
  | "zero", [] => some (showVal c (if sg then NumT.I.zeroV n else NumT.U.zeroV n), "0")
  | "one", [] => some (showVal c (if sg then NumT.I.oneV n else NumT.U.oneV n), "1")
  | "is_zero", [sa] => do
    let a ← parseVal c sa
    some (showBool (if sg then NumT.I.isZeroT a else NumT.U.isZeroT a), showBool (valOf c a == 0))
  | "is_one", [sa] => do
    let a ← parseVal c sa
    some (showBool (if sg then NumT.I.isOneT a else NumT.U.isOneT a), showBool (valOf c a == 1))
  | "from_str_radix", [r, s] => do
    let radix ← r.toNat?; let s ← parseBytes s
    let mo := if sg then NumT.I.fromStrRadix w n s radix else NumT.U.fromStrRadix w n s radix
    some (showOut (C10.showPRes c) mo,
      if 2 ≤ radix ∧ radix ≤ 36 then C10.showExpect c (Spec.Radix.expectParse radix sg m s) else "P")
  | _, _ => none

end Bnum.Drive.C18
