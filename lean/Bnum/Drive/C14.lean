/-
  Bnum.Drive.C14 — float <-> integer casts.
    to_f32   cfg [dbg|rel] a     -> hex of the f32 bit pattern of `a as f32`   (a: hex W-bit pattern)
    to_f64   cfg [dbg|rel] a     -> hex of the f64 bit pattern
    from_f32 cfg [dbg|rel] bits  -> hex pattern of `f32::from_bits(bits) as <cfg type>` (bits: hex)
    from_f64 cfg [dbg|rel] bits  -> hex pattern of `f64::from_bits(bits) as <cfg type>`
    as_to_f32 / as_to_f64 / as_from_f32 / as_from_f64
                                 the same conversions reached through `As::as_` (a blanket delegation to
                                 `CastFrom::cast_from`): same model function, same spec
    prim_to_f32 / prim_to_f64 / prim_from_f32 / prim_from_f64
                                 the harness answers with rustc's native `as` on the PRIMITIVE integer of
                                 the configuration's width (8 … 128 bits) — "exactly like Rust's `as`";
                                 the model answer is the bnum model at that width, the spec answer the
                                 exact spec: ties the (trusted) `Spec.Float` to rustc's own semantics.
  The build mode switches the `debug_assert!`s of `from_*_parts` and the strict / wrapping variants of
  the unsuffixed `>>`, `<<`, `-` (none of which can fire: Lemmas/FloatD.lean); `P` = panic.
  WITHOUT a mode token BOTH variants of the model are evaluated (`dbg = true` and `dbg = false`); they
  must agree (theorems `…_specD` hold for every `dbg`) and the common answer is printed — a disagreement
  is printed as `dbg:<a>/rel:<b>`, which no crate answer equals.  With a token only that variant runs.
  Model answer: the DIGIT-LEVEL model Bnum.Model.FloatD (`FltD.*`) on the digit list; spec answer:
  Bnum.Spec.Float (exact integers).
-/
import Bnum.Drive.Util
import Bnum.Model.FloatD
import Bnum.Spec.Float
namespace Bnum.Drive.C14
open Bnum Bnum.Drive

private def mfmt (is64 : Bool) : FloatFmt := if is64 then fmtF64 else fmtF32
private def sfmt (is64 : Bool) : Spec.Fmt := if is64 then Spec.f64 else Spec.f32

/-- the model answer for the requested build mode(s): `none` = both, which must agree -/
private def bothModes (mode : Option Bool) (f : Bool → String) : String :=
  match mode with
  | some dbg => f dbg
  | none =>
    let a := f true
    let b := f false
    if a == b then a else "dbg:" ++ a ++ "/rel:" ++ b

private def toFloat (c : Cfg) (is64 : Bool) (mode : Option Bool) (a : String) : Option (String × String) := do
  let x ← parseVal c a
  let pat := U c.w x
  let mo := fun dbg => showOut toHex
    (if c.signed then FltD.floatFromBInt (mfmt is64) dbg c.w x
     else FltD.floatFromBUint (mfmt is64) dbg c.w x)
  let z : Int := if c.signed then toInt (M c.w c.n) pat else (pat : Int)
  some (bothModes mode mo, toHex (Spec.intToFloat (sfmt is64) z))

private def fromFloat (c : Cfg) (is64 : Bool) (mode : Option Bool) (b : String) : Option (String × String) := do
  let bits ← parseHex b
  let F := mfmt is64
  if bits ≥ 2 ^ F.bits then none else
  let mo := fun dbg => showOut (showVal c)
    (if c.signed then FltD.bintFromFloat F dbg c.w c.n bits
     else FltD.buintFromFloat F dbg c.w c.n bits)
  some (bothModes mode mo, toHex (Spec.floatToInt (sfmt is64) c.signed (M c.w c.n) bits))

private def splitMode : List String → Option Bool × List String
  | "dbg" :: r => (some true, r)
  | "rel" :: r => (some false, r)
  | r => (none, r)

/-- widths that have a primitive integer type -/
private def primWidth (c : Cfg) : Bool :=
  let W := c.w * c.n
  W == 8 || W == 16 || W == 32 || W == 64 || W == 128

def handle : Handler := fun c op args =>
  let (mode, args) := splitMode args
  match op, args with
  | "to_f32", [a] => toFloat c false mode a
  | "to_f64", [a] => toFloat c true mode a
  | "from_f32", [b] => fromFloat c false mode b
  | "from_f64", [b] => fromFloat c true mode b
  | "as_to_f32", [a] => toFloat c false mode a
  | "as_to_f64", [a] => toFloat c true mode a
  | "as_from_f32", [b] => fromFloat c false mode b
  | "as_from_f64", [b] => fromFloat c true mode b
  | "prim_to_f32", [a] => if primWidth c then toFloat c false mode a else none
  | "prim_to_f64", [a] => if primWidth c then toFloat c true mode a else none
  | "prim_from_f32", [b] => if primWidth c then fromFloat c false mode b else none
  | "prim_from_f64", [b] => if primWidth c then fromFloat c true mode b else none
  | _, _ => none

end Bnum.Drive.C14
