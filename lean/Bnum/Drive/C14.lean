/-
  Bnum.Drive.C14 — float <-> integer casts.
    to_f32   cfg [dbg|rel] a     -> hex of the f32 bit pattern of `a as f32`   (a: hex W-bit pattern)
    to_f64   cfg [dbg|rel] a     -> hex of the f64 bit pattern
    from_f32 cfg bits            -> hex pattern of `f32::from_bits(bits) as <cfg type>` (bits: hex)
    from_f64 cfg bits            -> hex pattern of `f64::from_bits(bits) as <cfg type>`
  The build mode only switches the `debug_assert!`s of `from_*_parts` (never firing); default `dbg`.
  Model answer: Bnum.Model.Float on the value `U w a`; spec answer: Bnum.Spec.Float (exact integers).
-/
import Bnum.Drive.Util
import Bnum.Model.Float
import Bnum.Spec.Float
namespace Bnum.Drive.C14
open Bnum Bnum.Drive

private def mfmt (is64 : Bool) : FloatFmt := if is64 then fmtF64 else fmtF32
private def sfmt (is64 : Bool) : Spec.Fmt := if is64 then Spec.f64 else Spec.f32

private def toFloat (c : Cfg) (is64 dbg : Bool) (a : String) : Option (String × String) := do
  let x ← parseVal c a
  let W := c.w * c.n
  let pat := U c.w x
  let mo := if c.signed then Flt.floatFromBInt (mfmt is64) W dbg pat
            else Flt.floatFromBUint (mfmt is64) W dbg pat
  let z : Int := if c.signed then toInt (M c.w c.n) pat else (pat : Int)
  some (showOut toHex mo, toHex (Spec.intToFloat (sfmt is64) z))

private def fromFloat (c : Cfg) (is64 : Bool) (b : String) : Option (String × String) := do
  let bits ← parseHex b
  let F := mfmt is64
  if bits ≥ 2 ^ F.bits then none else
  let W := c.w * c.n
  let mo := if c.signed then Flt.bintFromFloat F W bits else Flt.buintFromFloat F W bits
  some (toHex mo, toHex (Spec.floatToInt (sfmt is64) c.signed (M c.w c.n) bits))

private def splitMode : List String → Bool × List String
  | "dbg" :: r => (true, r)
  | "rel" :: r => (false, r)
  | r => (true, r)

def handle : Handler := fun c op args =>
  let (dbg, args) := splitMode args
  match op, args with
  | "to_f32", [a] => toFloat c false dbg a
  | "to_f64", [a] => toFloat c true dbg a
  | "from_f32", [b] => fromFloat c false b
  | "from_f64", [b] => fromFloat c true b
  | _, _ => none

end Bnum.Drive.C14
