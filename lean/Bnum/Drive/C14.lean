/-
  Bnum.Drive.C14 — float <-> integer casts.
    to_f32   cfg [dbg|rel] a     -> hex of the f32 bit pattern of `a as f32`   (a: hex W-bit pattern)
    to_f64   cfg [dbg|rel] a     -> hex of the f64 bit pattern
    from_f32 cfg [dbg|rel] bits  -> hex pattern of `f32::from_bits(bits) as <cfg type>` (bits: hex)
    from_f64 cfg [dbg|rel] bits  -> hex pattern of `f64::from_bits(bits) as <cfg type>`
  The build mode switches the `debug_assert!`s of `from_*_parts` and the strict / wrapping variants of
  the unsuffixed `>>`, `<<`, `-` (none of which can fire: Lemmas/FloatD.lean); default `dbg`; `P` = panic.
  Model answer: the DIGIT-LEVEL model Bnum.Model.FloatD (`FltD.*`) on the digit list; spec answer:
  Bnum.Spec.Float (exact integers).
-/
import Bnum.Drive.Util
import Bnum.Model.FloatD
import Bnum.Spec.Float
namespace Bnum.Drive.C14
open Bnum Bnum.Drive

private def mfmt (is64 : Bool) : FloatFmt := if is64 then fmtF64 else fmtF32
private def sfmt (is64 : Bool) : Spec.Fmt := if is64 then Spec.f64 else Spec.f32

private def toFloat (c : Cfg) (is64 dbg : Bool) (a : String) : Option (String × String) := do
  let x ← parseVal c a
  let pat := U c.w x
  let mo := if c.signed then FltD.floatFromBInt (mfmt is64) dbg c.w x
            else FltD.floatFromBUint (mfmt is64) dbg c.w x
  let z : Int := if c.signed then toInt (M c.w c.n) pat else (pat : Int)
  some (showOut toHex mo, toHex (Spec.intToFloat (sfmt is64) z))

private def fromFloat (c : Cfg) (is64 dbg : Bool) (b : String) : Option (String × String) := do
  let bits ← parseHex b
  let F := mfmt is64
  if bits ≥ 2 ^ F.bits then none else
  let mo := if c.signed then FltD.bintFromFloat F dbg c.w c.n bits
            else FltD.buintFromFloat F dbg c.w c.n bits
  some (showOut (showVal c) mo, toHex (Spec.floatToInt (sfmt is64) c.signed (M c.w c.n) bits))

private def splitMode : List String → Bool × List String
  | "dbg" :: r => (true, r)
  | "rel" :: r => (false, r)
  | r => (true, r)

def handle : Handler := fun c op args =>
  let (dbg, args) := splitMode args
  match op, args with
  | "to_f32", [a] => toFloat c false dbg a
  | "to_f64", [a] => toFloat c true dbg a
  | "from_f32", [b] => fromFloat c false dbg b
  | "from_f64", [b] => fromFloat c true dbg b
  | _, _ => none

end Bnum.Drive.C14
