import Bnum.Drive.Util
import Bnum.Model.AddSub
import Bnum.Model.Misc
import Bnum.Spec.Arith
namespace Bnum.Drive.C01
open Bnum Bnum.Drive

private def sv (c : Cfg) (x : List Nat) : Int := S c.w x
private def uv (c : Cfg) (x : List Nat) : Int := (U c.w x : Int)
private def m (c : Cfg) : Nat := M c.w c.n
private def spPair (p : Nat × Bool) : String := "(" ++ toHex p.1 ++ "," ++ showBool p.2 ++ ")"
private def spOpt (p : Option Nat) : String := showOpt toHex p

def handle : Handler := fun c op args =>
  let w := c.w
  let pair (mo : List Nat × Bool) (signedRes : Bool) (z : Int) :=
    some (showPair c mo, spPair (Spec.overflowing signedRes (m c) z))
  let opt (mo : Option (List Nat)) (signedRes : Bool) (z : Int) :=
    some (showOpt (showVal c) mo, spOpt (Spec.checked signedRes (m c) z))
  let wrp (mo : List Nat) (z : Int) := some (showVal c mo, toHex (wrapU (m c) z))
  let sat (mo : List Nat) (signedRes : Bool) (z : Int) :=
    some (showVal c mo, toHex (Spec.saturating signedRes (m c) z))
  -- strict forms: the value if the exact result is representable, otherwise a panic
  let strict (mo : Outcome (List Nat)) (signedRes : Bool) (z : Int) :=
    some (showOut (showVal c) mo,
      if Spec.rep signedRes (m c) z then toHex (wrapU (m c) z) else "P")
  match c.signed, op, args with
  -- unsigned
  | false, "overflowing_add", [a, b] => do
    let a ← parseVal c a; let b ← parseVal c b
    pair (UI.overflowingAdd w a b) false (uv c a + uv c b)
  | false, "overflowing_sub", [a, b] => do
    let a ← parseVal c a; let b ← parseVal c b
    pair (UI.overflowingSub w a b) false (uv c a - uv c b)
  | false, "overflowing_neg", [a] => do
    let a ← parseVal c a
    pair (UI.overflowingNeg w a) false (- uv c a)
  | false, "overflowing_add_signed", [a, b] => do
    let a ← parseVal c a; let b ← parseVal c b
    pair (UI.overflowingAddSigned w a b) false (uv c a + sv c b)
  | false, "checked_add", [a, b] => do
    let a ← parseVal c a; let b ← parseVal c b
    opt (UI.checkedAdd w a b) false (uv c a + uv c b)
  | false, "checked_sub", [a, b] => do
    let a ← parseVal c a; let b ← parseVal c b
    opt (UI.checkedSub w a b) false (uv c a - uv c b)
  | false, "checked_neg", [a] => do
    let a ← parseVal c a
    opt (UI.checkedNeg w a) false (- uv c a)
  | false, "checked_add_signed", [a, b] => do
    let a ← parseVal c a; let b ← parseVal c b
    opt (UI.checkedAddSigned w a b) false (uv c a + sv c b)
  | false, "wrapping_add", [a, b] => do
    let a ← parseVal c a; let b ← parseVal c b
    wrp (UI.wrappingAdd w a b) (uv c a + uv c b)
  | false, "wrapping_sub", [a, b] => do
    let a ← parseVal c a; let b ← parseVal c b
    wrp (UI.wrappingSub w a b) (uv c a - uv c b)
  | false, "wrapping_neg", [a] => do
    let a ← parseVal c a
    wrp (UI.wrappingNeg w a) (- uv c a)
  | false, "wrapping_add_signed", [a, b] => do
    let a ← parseVal c a; let b ← parseVal c b
    wrp (UI.wrappingAddSigned w a b) (uv c a + sv c b)
  | false, "saturating_add", [a, b] => do
    let a ← parseVal c a; let b ← parseVal c b
    sat (UI.saturatingAdd w a b) false (uv c a + uv c b)
  | false, "saturating_sub", [a, b] => do
    let a ← parseVal c a; let b ← parseVal c b
    sat (UI.saturatingSub w a b) false (uv c a - uv c b)
  | false, "saturating_add_signed", [a, b] => do
    let a ← parseVal c a; let b ← parseVal c b
    sat (UI.saturatingAddSigned w a b) false (uv c a + sv c b)
  | false, "carrying_add", [a, b, ci] => do
    let a ← parseVal c a; let b ← parseVal c b; let ci ← parseBool ci
    pair (UI.carryingAdd w a b ci) false (uv c a + uv c b + ci.toNat)
  | false, "borrowing_sub", [a, b, ci] => do
    let a ← parseVal c a; let b ← parseVal c b; let ci ← parseBool ci
    pair (UI.borrowingSub w a b ci) false (uv c a - uv c b - ci.toNat)
  -- signed
  | true, "overflowing_add", [a, b] => do
    let a ← parseVal c a; let b ← parseVal c b
    pair (II.overflowingAdd w a b) true (sv c a + sv c b)
  | true, "overflowing_sub", [a, b] => do
    let a ← parseVal c a; let b ← parseVal c b
    pair (II.overflowingSub w a b) true (sv c a - sv c b)
  | true, "overflowing_neg", [a] => do
    let a ← parseVal c a
    pair (II.overflowingNeg w a) true (- sv c a)
  | true, "overflowing_abs", [a] => do
    let a ← parseVal c a
    pair (II.overflowingAbs w a) true (Int.natAbs (sv c a))
  | true, "overflowing_add_unsigned", [a, b] => do
    let a ← parseVal c a; let b ← parseVal c b
    pair (II.overflowingAddUnsigned w a b) true (sv c a + uv c b)
  | true, "overflowing_sub_unsigned", [a, b] => do
    let a ← parseVal c a; let b ← parseVal c b
    pair (II.overflowingSubUnsigned w a b) true (sv c a - uv c b)
  | true, "checked_add", [a, b] => do
    let a ← parseVal c a; let b ← parseVal c b
    opt (II.checkedAdd w a b) true (sv c a + sv c b)
  | true, "checked_sub", [a, b] => do
    let a ← parseVal c a; let b ← parseVal c b
    opt (II.checkedSub w a b) true (sv c a - sv c b)
  | true, "checked_neg", [a] => do
    let a ← parseVal c a
    opt (II.checkedNeg w a) true (- sv c a)
  | true, "checked_abs", [a] => do
    let a ← parseVal c a
    opt (II.checkedAbs w a) true (Int.natAbs (sv c a))
  | true, "checked_add_unsigned", [a, b] => do
    let a ← parseVal c a; let b ← parseVal c b
    opt (II.checkedAddUnsigned w a b) true (sv c a + uv c b)
  | true, "checked_sub_unsigned", [a, b] => do
    let a ← parseVal c a; let b ← parseVal c b
    opt (II.checkedSubUnsigned w a b) true (sv c a - uv c b)
  | true, "wrapping_add", [a, b] => do
    let a ← parseVal c a; let b ← parseVal c b
    wrp (II.wrappingAdd w a b) (sv c a + sv c b)
  | true, "wrapping_sub", [a, b] => do
    let a ← parseVal c a; let b ← parseVal c b
    wrp (II.wrappingSub w a b) (sv c a - sv c b)
  | true, "wrapping_neg", [a] => do
    let a ← parseVal c a
    wrp (II.wrappingNeg w a) (- sv c a)
  | true, "wrapping_abs", [a] => do
    let a ← parseVal c a
    wrp (II.wrappingAbs w a) (Int.natAbs (sv c a))
  | true, "wrapping_add_unsigned", [a, b] => do
    let a ← parseVal c a; let b ← parseVal c b
    wrp (II.wrappingAddUnsigned w a b) (sv c a + uv c b)
  | true, "wrapping_sub_unsigned", [a, b] => do
    let a ← parseVal c a; let b ← parseVal c b
    wrp (II.wrappingSubUnsigned w a b) (sv c a - uv c b)
  | true, "saturating_add", [a, b] => do
    let a ← parseVal c a; let b ← parseVal c b
    sat (II.saturatingAdd w a b) true (sv c a + sv c b)
  | true, "saturating_sub", [a, b] => do
    let a ← parseVal c a; let b ← parseVal c b
    sat (II.saturatingSub w a b) true (sv c a - sv c b)
  | true, "saturating_neg", [a] => do
    let a ← parseVal c a
    sat (II.saturatingNeg w a) true (- sv c a)
  | true, "saturating_abs", [a] => do
    let a ← parseVal c a
    sat (II.saturatingAbs w a) true (Int.natAbs (sv c a))
  | true, "saturating_add_unsigned", [a, b] => do
    let a ← parseVal c a; let b ← parseVal c b
    sat (II.saturatingAddUnsigned w a b) true (sv c a + uv c b)
  | true, "saturating_sub_unsigned", [a, b] => do
    let a ← parseVal c a; let b ← parseVal c b
    sat (II.saturatingSubUnsigned w a b) true (sv c a - uv c b)
  | true, "unsigned_abs", [a] => do
    let a ← parseVal c a
    some (showVal c (II.unsignedAbs w a), toHex (Int.natAbs (sv c a)))
  | true, "carrying_add", [a, b, ci] => do
    let a ← parseVal c a; let b ← parseVal c b; let ci ← parseBool ci
    pair (II.carryingAdd w a b ci) true (sv c a + sv c b + ci.toNat)
  | true, "borrowing_sub", [a, b, ci] => do
    let a ← parseVal c a; let b ← parseVal c b; let ci ← parseBool ci
    pair (II.borrowingSub w a b ci) true (sv c a - sv c b - ci.toNat)
  -- strict forms (`int/strict.rs`, `buint/strict.rs`, `bint/strict.rs`)
  | false, "strict_add", [a, b] => do
    let a ← parseVal c a; let b ← parseVal c b
    strict (UI.strictAdd w a b) false (uv c a + uv c b)
  | false, "strict_sub", [a, b] => do
    let a ← parseVal c a; let b ← parseVal c b
    strict (UI.strictSub w a b) false (uv c a - uv c b)
  | false, "strict_neg", [a] => do
    let a ← parseVal c a
    strict (UI.strictNeg w a) false (- uv c a)
  | false, "strict_add_signed", [a, b] => do
    let a ← parseVal c a; let b ← parseVal c b
    strict (UI.strictAddSigned w a b) false (uv c a + sv c b)
  | true, "strict_add", [a, b] => do
    let a ← parseVal c a; let b ← parseVal c b
    strict (II.strictAdd w a b) true (sv c a + sv c b)
  | true, "strict_sub", [a, b] => do
    let a ← parseVal c a; let b ← parseVal c b
    strict (II.strictSub w a b) true (sv c a - sv c b)
  | true, "strict_neg", [a] => do
    let a ← parseVal c a
    strict (II.strictNeg w a) true (- sv c a)
  | true, "strict_abs", [a] => do
    let a ← parseVal c a
    strict (II.strictAbs w a) true (Int.natAbs (sv c a))
  | true, "strict_add_unsigned", [a, b] => do
    let a ← parseVal c a; let b ← parseVal c b
    strict (II.strictAddUnsigned w a b) true (sv c a + uv c b)
  | true, "strict_sub_unsigned", [a, b] => do
    let a ← parseVal c a; let b ← parseVal c b
    strict (II.strictSubUnsigned w a b) true (sv c a - uv c b)
  -- midpoint (`dbg` / `rel` selects `cfg(debug_assertions)`) and abs_diff
  | false, "midpoint", [mode, a, b] => do
    let dbg ← if mode = "dbg" then some true else if mode = "rel" then some false else none
    let a ← parseVal c a; let b ← parseVal c b
    some (showOut (showVal c) (UI.midpoint dbg w a b), toHex (wrapU (m c) ((uv c a + uv c b) / 2)))
  | true, "midpoint", [mode, a, b] => do
    let dbg ← if mode = "dbg" then some true else if mode = "rel" then some false else none
    let a ← parseVal c a; let b ← parseVal c b
    some (showOut (showVal c) (II.midpoint dbg w a b),
      toHex (wrapU (m c) (Int.tdiv (sv c a + sv c b) 2)))
  | false, "abs_diff", [a, b] => do
    let a ← parseVal c a; let b ← parseVal c b
    some (showVal c (UI.absDiff w a b), toHex (Int.natAbs (uv c a - uv c b)))
  | true, "abs_diff", [a, b] => do
    let a ← parseVal c a; let b ← parseVal c b
    some (showVal c (II.absDiff w a b), toHex (Int.natAbs (sv c a - sv c b)))
  | _, _, _ => none

end Bnum.Drive.C01
