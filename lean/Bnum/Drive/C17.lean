/-
  Bnum.Drive.C17 — std trait implementations vs inherent methods (vocabulary of
  /verif/harness/src/bin/c17.rs).  The first argument after `cfg` is always `dbg|rel`.

    `<op>_<form> cfg mode a b`   op ∈ add sub mul div rem bitand bitor bitxor
                                 form ∈ vv vr rv rr as asr inh
    `neg_v|neg_r|neg_inh cfg mode a` (signed only)   `not_v|not_r|not_inh cfg mode a`
    `shl_<ty>_<form> cfg mode a k`, `shr_…`   ty ∈ u8 u16 u32 u64 u128 usize i8 i16 i32 i64 i128 isize
                                 (k decimal, may be negative; must fit `ty`), form ∈ vv vr rv rr as asr
    `shl_u32_inh|shr_u32_inh cfg mode a k`    the inherent `shl(ExpType)` / `shr(ExpType)`
    `shl_bu_<form>|shl_bi_<form>|shr_bu_<form>|shr_bi_<form> cfg mode a k`   k = hex pattern of a
                                 `BUint<N>` / `BInt<N>` amount (same N)
    `shl_bu<M>_<form>|shl_bi<M>_<form>|shr_bu<M>_<form>|shr_bi<M>_<form> cfg mode a k`   k = hex pattern of a
                                 `BUint<M>` / `BInt<M>` amount over the same digit type, M digits (M ≠ N allowed)
    `sum|sum_ref|product|product_ref cfg mode a1,a2,…`   (`-` = empty iterator)
    `default cfg mode`
    `add_digit|div_digit|rem_digit cfg mode a d`   (unsigned only; d hex digit)
    `cmp_partial_cmp|cmp_ord_cmp|cmp_cmp_inh|cmp_eq|cmp_eq_inh|cmp_ne|cmp_lt|cmp_le|cmp_gt|cmp_ge
        cfg mode a b`
    `ord_max|ord_min|max_inh|min_inh cfg mode a b`, `ord_clamp|clamp_inh cfg mode a mn mx`
                                 (`Ord::max/min/clamp` as overridden in `{buint,bint}/cmp.rs`, and the
                                 inherent `const fn`s they forward to)
  Answers: hex pattern; `P`; `true`/`false`; `Less|Equal|Greater`; `S(Less)`…; `rem_digit`: hex digit.
  Spec answer `*`: the property leaves the value open (release shift whose reduced amount is ≥ BITS at
  a width that is not a power of two; `add_digit` whose exact sum is not representable).
-/
import Bnum.Drive.Util
import Bnum.Model.Ops
import Bnum.Model.C17Extra
import Bnum.Spec.Ops
namespace Bnum.Drive.C17
open Bnum Bnum.Drive

private def parseMode (s : String) : Option Bool :=
  if s = "dbg" then some true else if s = "rel" then some false else none

private def showOrd : Ordering → String
  | .lt => "Less"
  | .eq => "Equal"
  | .gt => "Greater"

private def spOpt : Option Nat → String
  | some v => toHex v
  | none => "P"
private def spOpen : Option Nat → String
  | some v => toHex v
  | none => "*"
private def spAns : Spec.Ops.Ans → String
  | .panic => "P"
  | .any => "*"
  | .val v => toHex v

def ty (c : Cfg) : Ops.Ty := if c.signed then Ops.bint c.w c.n else Ops.buint c.w c.n

private def parsePrimTy : String → Option Ops.PrimTy
  | "u8" => some .u8 | "u16" => some .u16 | "u32" => some .u32 | "u64" => some .u64
  | "u128" => some .u128 | "usize" => some .usize
  | "i8" => some .i8 | "i16" => some .i16 | "i32" => some .i32 | "i64" => some .i64
  | "i128" => some .i128 | "isize" => some .isize
  | _ => none

/-- decimal amount → (exact value, bit pattern in `t`); `none` when it does not fit `t` -/
private def parseAmount (t : Ops.PrimTy) (s : String) : Option (Int × Nat) := do
  let k ← s.toInt?
  let bits := t.bits
  let fits : Bool :=
    if t.signed then decide (-(2 ^ (bits - 1) : Int) ≤ k) && decide (k < 2 ^ (bits - 1))
    else decide (0 ≤ k) && decide (k < 2 ^ bits)
  if fits then some (k, (k % 2 ^ bits).toNat) else none

private def parseList (c : Cfg) (s : String) : Option (List (List Nat)) :=
  if s = "-" then some [] else (s.splitOn ",").mapM (parseVal c)

/-- the model definition behind `<op>_<form>` -/
private def binModel (T : Ops.Ty) (dbg : Bool) (o form : String) :
    Option (List Nat → List Nat → Outcome (List Nat)) :=
  let pure2 (f : List Nat → List Nat → List Nat) : List Nat → List Nat → Outcome (List Nat) :=
    fun a b => .ok (f a b)
  match o, form with
  | "add", "vv" => some (Ops.add_vv T dbg) | "add", "vr" => some (Ops.add_vr T dbg)
  | "add", "rv" => some (Ops.add_rv T dbg) | "add", "rr" => some (Ops.add_rr T dbg)
  | "add", "as" => some (Ops.addAssign T dbg) | "add", "asr" => some (Ops.addAssignRef T dbg)
  | "add", "inh" => some (T.add dbg)
  | "sub", "vv" => some (Ops.sub_vv T dbg) | "sub", "vr" => some (Ops.sub_vr T dbg)
  | "sub", "rv" => some (Ops.sub_rv T dbg) | "sub", "rr" => some (Ops.sub_rr T dbg)
  | "sub", "as" => some (Ops.subAssign T dbg) | "sub", "asr" => some (Ops.subAssignRef T dbg)
  | "sub", "inh" => some (T.sub dbg)
  | "mul", "vv" => some (Ops.mul_vv T dbg) | "mul", "vr" => some (Ops.mul_vr T dbg)
  | "mul", "rv" => some (Ops.mul_rv T dbg) | "mul", "rr" => some (Ops.mul_rr T dbg)
  | "mul", "as" => some (Ops.mulAssign T dbg) | "mul", "asr" => some (Ops.mulAssignRef T dbg)
  | "mul", "inh" => some (T.mul dbg)
  | "div", "vv" => some (Ops.div_vv T dbg) | "div", "vr" => some (Ops.div_vr T dbg)
  | "div", "rv" => some (Ops.div_rv T dbg) | "div", "rr" => some (Ops.div_rr T dbg)
  | "div", "as" => some (Ops.divAssign T dbg) | "div", "asr" => some (Ops.divAssignRef T dbg)
  | "div", "inh" => some (T.div dbg)
  | "rem", "vv" => some (Ops.rem_vv T dbg) | "rem", "vr" => some (Ops.rem_vr T dbg)
  | "rem", "rv" => some (Ops.rem_rv T dbg) | "rem", "rr" => some (Ops.rem_rr T dbg)
  | "rem", "as" => some (Ops.remAssign T dbg) | "rem", "asr" => some (Ops.remAssignRef T dbg)
  | "rem", "inh" => some (T.rem dbg)
  | "bitand", "vv" => some (pure2 (Ops.bitand_vv T)) | "bitand", "vr" => some (pure2 (Ops.bitand_vr T))
  | "bitand", "rv" => some (pure2 (Ops.bitand_rv T)) | "bitand", "rr" => some (pure2 (Ops.bitand_rr T))
  | "bitand", "as" => some (pure2 (Ops.bitandAssign T))
  | "bitand", "asr" => some (pure2 (Ops.bitandAssignRef T))
  | "bitand", "inh" => some (pure2 T.bitand)
  | "bitor", "vv" => some (pure2 (Ops.bitor_vv T)) | "bitor", "vr" => some (pure2 (Ops.bitor_vr T))
  | "bitor", "rv" => some (pure2 (Ops.bitor_rv T)) | "bitor", "rr" => some (pure2 (Ops.bitor_rr T))
  | "bitor", "as" => some (pure2 (Ops.bitorAssign T))
  | "bitor", "asr" => some (pure2 (Ops.bitorAssignRef T))
  | "bitor", "inh" => some (pure2 T.bitor)
  | "bitxor", "vv" => some (pure2 (Ops.bitxor_vv T)) | "bitxor", "vr" => some (pure2 (Ops.bitxor_vr T))
  | "bitxor", "rv" => some (pure2 (Ops.bitxor_rv T)) | "bitxor", "rr" => some (pure2 (Ops.bitxor_rr T))
  | "bitxor", "as" => some (pure2 (Ops.bitxorAssign T))
  | "bitxor", "asr" => some (pure2 (Ops.bitxorAssignRef T))
  | "bitxor", "inh" => some (pure2 T.bitxor)
  | _, _ => none

/-- the independent answer for `a op b` -/
private def binSpec (c : Cfg) (dbg : Bool) (o : String) (a b : List Nat) : Option String :=
  let m := M c.w c.n
  let x := valOf c a
  let y := valOf c b
  match o with
  | "add" => some (spOpt (Spec.Ops.arith dbg c.signed m (x + y)))
  | "sub" => some (spOpt (Spec.Ops.arith dbg c.signed m (x - y)))
  | "mul" => some (spOpt (Spec.Ops.arith dbg c.signed m (x * y)))
  | "div" => some (spOpt (Spec.Ops.div c.signed m x y))
  | "rem" => some (spOpt (Spec.Ops.rem c.signed m x y))
  | "bitand" => some (toHex (U c.w a &&& U c.w b))
  | "bitor" => some (toHex (U c.w a ||| U c.w b))
  | "bitxor" => some (toHex (U c.w a ^^^ U c.w b))
  | _ => none

private def shiftPrimModel (T : Ops.Ty) (dbg left : Bool) (t : Ops.PrimTy) (form : String) :
    Option (List Nat → Nat → Outcome (List Nat)) :=
  match left, form with
  | true, "vv" => some (Ops.shl_vv T dbg t) | true, "vr" => some (Ops.shl_vr T dbg t)
  | true, "rv" => some (Ops.shl_rv T dbg t) | true, "rr" => some (Ops.shl_rr T dbg t)
  | true, "as" => some (Ops.shlAssign T dbg t) | true, "asr" => some (Ops.shlAssignRef T dbg t)
  | false, "vv" => some (Ops.shr_vv T dbg t) | false, "vr" => some (Ops.shr_vr T dbg t)
  | false, "rv" => some (Ops.shr_rv T dbg t) | false, "rr" => some (Ops.shr_rr T dbg t)
  | false, "as" => some (Ops.shrAssign T dbg t) | false, "asr" => some (Ops.shrAssignRef T dbg t)
  | _, _ => none

private def shiftBnumModel (T : Ops.Ty) (dbg left ks : Bool) (form : String) :
    Option (List Nat → List Nat → Outcome (List Nat)) :=
  match left, form with
  | true, "vv" => some (Ops.shlB_vv T dbg ks) | true, "vr" => some (Ops.shlB_vr T dbg ks)
  | true, "rv" => some (Ops.shlB_rv T dbg ks) | true, "rr" => some (Ops.shlB_rr T dbg ks)
  | true, "as" => some (Ops.shlBAssign T dbg ks) | true, "asr" => some (Ops.shlBAssignRef T dbg ks)
  | false, "vv" => some (Ops.shrB_vv T dbg ks) | false, "vr" => some (Ops.shrB_vr T dbg ks)
  | false, "rv" => some (Ops.shrB_rv T dbg ks) | false, "rr" => some (Ops.shrB_rr T dbg ks)
  | false, "as" => some (Ops.shrBAssign T dbg ks) | false, "asr" => some (Ops.shrBAssignRef T dbg ks)
  | _, _ => none

/-- `bu` / `bi` (amount has the operand's digit count) or `bu<M>` / `bi<M>`:
    (amount is signed, digit count of the amount) -/
private def parseBnumTy (n : Nat) (s : String) : Option (Bool × Nat) :=
  let go (ks : Bool) (rest : String) : Option (Bool × Nat) :=
    if rest.isEmpty then some (ks, n) else
      match rest.toNat? with
      | some m => if m = 0 then none else some (ks, m)
      | none => none
  if s.startsWith "bu" then go false (String.ofList (s.toList.drop 2))
  else if s.startsWith "bi" then go true (String.ofList (s.toList.drop 2))
  else none

private def parseDir : String → Option Bool
  | "shl" => some true
  | "shr" => some false
  | _ => none

def handle : Handler := fun c op args =>
  let T := ty c
  let w := c.w
  let m := M c.w c.n
  let bits := c.w * c.n
  let cmpArgs (f : List Nat → List Nat → String) (g : Int → Int → String) (a b : String) :
      Option (String × String) := do
    let a ← parseVal c a; let b ← parseVal c b
    some (f a b, g (valOf c a) (valOf c b))
  -- `clamp`: a panic iff `min > max`, else the mathematical clamp
  let clampSpec (x lo hi : Int) : String :=
    if lo > hi then "P" else showInt c (if x < lo then lo else if hi < x then hi else x)
  match op, args with
  -- Default
  | "default", [mode] => do
    let _ ← parseMode mode
    some (showVal c (Ops.default T), "0")
  -- Sum / Product
  | "sum", [mode, l] => do
    let dbg ← parseMode mode; let xs ← parseList c l
    some (showOut (showVal c) (Ops.sum T dbg xs), spOpt (Spec.Ops.sum dbg c.signed m (xs.map (valOf c))))
  | "sum_ref", [mode, l] => do
    let dbg ← parseMode mode; let xs ← parseList c l
    some (showOut (showVal c) (Ops.sumRef T dbg xs),
      spOpt (Spec.Ops.sum dbg c.signed m (xs.map (valOf c))))
  | "product", [mode, l] => do
    let dbg ← parseMode mode; let xs ← parseList c l
    some (showOut (showVal c) (Ops.product T dbg xs),
      spOpt (Spec.Ops.product dbg c.signed m (xs.map (valOf c))))
  | "product_ref", [mode, l] => do
    let dbg ← parseMode mode; let xs ← parseList c l
    some (showOut (showVal c) (Ops.productRef T dbg xs),
      spOpt (Spec.Ops.product dbg c.signed m (xs.map (valOf c))))
  -- digit-operand forms (BUint only)
  | "add_digit", [mode, a, d] =>
    if c.signed then none else do
    let _ ← parseMode mode; let a ← parseVal c a; let d ← parseHex d
    if d ≥ B w then none else
    some (showOut (showVal c) (Ops.addDigit w a d), spOpen (Spec.Ops.addDigit m (U w a) d))
  | "div_digit", [mode, a, d] =>
    if c.signed then none else do
    let _ ← parseMode mode; let a ← parseVal c a; let d ← parseHex d
    if d ≥ B w then none else
    some (showOut (showVal c) (Ops.divDigit w a d), spOpt (Spec.Ops.divDigit (U w a) d))
  | "rem_digit", [mode, a, d] =>
    if c.signed then none else do
    let _ ← parseMode mode; let a ← parseVal c a; let d ← parseHex d
    if d ≥ B w then none else
    some (showOut toHex (Ops.remDigit w a d), spOpt (Spec.Ops.remDigit (U w a) d))
  -- Neg (BInt only), Not
  | "neg_v", [mode, a] =>
    if !c.signed then none else do
    let dbg ← parseMode mode; let a ← parseVal c a
    some (showOut (showVal c) (Ops.neg_v dbg w a), spOpt (Spec.Ops.arith dbg true m (- S w a)))
  | "neg_r", [mode, a] =>
    if !c.signed then none else do
    let dbg ← parseMode mode; let a ← parseVal c a
    some (showOut (showVal c) (Ops.neg_r dbg w a), spOpt (Spec.Ops.arith dbg true m (- S w a)))
  | "neg_inh", [mode, a] =>
    if !c.signed then none else do
    let dbg ← parseMode mode; let a ← parseVal c a
    some (showOut (showVal c) (Ops.bintNeg dbg w a), spOpt (Spec.Ops.arith dbg true m (- S w a)))
  | "not_v", [mode, a] => do
    let _ ← parseMode mode; let a ← parseVal c a
    some (showVal c (Ops.not_v T a), toHex (m - 1 - U w a))
  | "not_r", [mode, a] => do
    let _ ← parseMode mode; let a ← parseVal c a
    some (showVal c (Ops.not_r T a), toHex (m - 1 - U w a))
  | "not_inh", [mode, a] => do
    let _ ← parseMode mode; let a ← parseVal c a
    some (showVal c (T.not a), toHex (m - 1 - U w a))
  -- inherent shl / shr (ExpType)
  | "shl_u32_inh", [mode, a, k] => do
    let dbg ← parseMode mode; let a ← parseVal c a; let (kv, p) ← parseAmount .u32 k
    some (showOut (showVal c) (T.shl dbg a p), spAns (Spec.Ops.shift true dbg false bits (valOf c a) kv))
  | "shr_u32_inh", [mode, a, k] => do
    let dbg ← parseMode mode; let a ← parseVal c a; let (kv, p) ← parseAmount .u32 k
    some (showOut (showVal c) (T.shr dbg a p), spAns (Spec.Ops.shift false dbg false bits (valOf c a) kv))
  -- comparison traits
  | "cmp_partial_cmp", [mode, a, b] => do
    let _ ← parseMode mode
    cmpArgs (fun a b => showOpt showOrd (Ops.partialCmp T a b))
      (fun x y => showOpt showOrd (some (compare x y))) a b
  | "cmp_ord_cmp", [mode, a, b] => do
    let _ ← parseMode mode
    cmpArgs (fun a b => showOrd (Ops.ordCmp T a b)) (fun x y => showOrd (compare x y)) a b
  | "cmp_cmp_inh", [mode, a, b] => do
    let _ ← parseMode mode
    cmpArgs (fun a b => showOrd (T.cmp a b)) (fun x y => showOrd (compare x y)) a b
  | "cmp_eq", [mode, a, b] => do
    let _ ← parseMode mode
    cmpArgs (fun a b => showBool (Ops.opEq a b)) (fun x y => showBool (x = y)) a b
  | "cmp_eq_inh", [mode, a, b] => do
    let _ ← parseMode mode
    cmpArgs (fun a b => showBool (T.eq a b)) (fun x y => showBool (x = y)) a b
  | "cmp_ne", [mode, a, b] => do
    let _ ← parseMode mode
    cmpArgs (fun a b => showBool (Ops.opNe a b)) (fun x y => showBool (x ≠ y)) a b
  | "cmp_lt", [mode, a, b] => do
    let _ ← parseMode mode
    cmpArgs (fun a b => showBool (Ops.opLt T a b)) (fun x y => showBool (x < y)) a b
  | "cmp_le", [mode, a, b] => do
    let _ ← parseMode mode
    cmpArgs (fun a b => showBool (Ops.opLe T a b)) (fun x y => showBool (x ≤ y)) a b
  | "cmp_gt", [mode, a, b] => do
    let _ ← parseMode mode
    cmpArgs (fun a b => showBool (Ops.opGt T a b)) (fun x y => showBool (x > y)) a b
  | "cmp_ge", [mode, a, b] => do
    let _ ← parseMode mode
    cmpArgs (fun a b => showBool (Ops.opGe T a b)) (fun x y => showBool (x ≥ y)) a b
  -- `Ord::max/min/clamp` (overridden) and their inherent twins
  | "ord_max", [mode, a, b] => do
    let _ ← parseMode mode
    cmpArgs (fun a b => showVal c (Ops.ordMax T a b)) (fun x y => showInt c (if x ≤ y then y else x)) a b
  | "max_inh", [mode, a, b] => do
    let _ ← parseMode mode
    cmpArgs (fun a b => showVal c (T.max a b)) (fun x y => showInt c (if x ≤ y then y else x)) a b
  | "ord_min", [mode, a, b] => do
    let _ ← parseMode mode
    cmpArgs (fun a b => showVal c (Ops.ordMin T a b)) (fun x y => showInt c (if x ≤ y then x else y)) a b
  | "min_inh", [mode, a, b] => do
    let _ ← parseMode mode
    cmpArgs (fun a b => showVal c (T.min a b)) (fun x y => showInt c (if x ≤ y then x else y)) a b
  | "ord_clamp", [mode, a, mn, mx] => do
    let _ ← parseMode mode
    let a ← parseVal c a; let mn ← parseVal c mn; let mx ← parseVal c mx
    some (showOut (showVal c) (Ops.ordClamp T a mn mx), clampSpec (valOf c a) (valOf c mn) (valOf c mx))
  | "clamp_inh", [mode, a, mn, mx] => do
    let _ ← parseMode mode
    let a ← parseVal c a; let mn ← parseVal c mn; let mx ← parseVal c mx
    some (showOut (showVal c) (T.clamp a mn mx), clampSpec (valOf c a) (valOf c mn) (valOf c mx))
  | _, _ =>
    match op.splitOn "_", args with
    -- binary operators, all forms
    | [o, form], [mode, a, b] => do
      let dbg ← parseMode mode
      let f ← binModel T dbg o form
      let a ← parseVal c a; let b ← parseVal c b
      let sp ← binSpec c dbg o a b
      some (showOut (showVal c) (f a b), sp)
    -- shifts
    | [dir, tys, form], [mode, a, k] => do
      let dbg ← parseMode mode
      let left ← parseDir dir
      let a ← parseVal c a
      if tys.startsWith "bu" ∨ tys.startsWith "bi" then
        let (ks, mk) ← parseBnumTy c.n tys
        let f ← shiftBnumModel T dbg left ks form
        -- the amount is a `BUint<mk>` / `BInt<mk>` over the same digit type
        let kd ← parseVal { c with n := mk } k
        let kv : Int := if ks then S w kd else (U w kd : Int)
        some (showOut (showVal c) (f a kd), spAns (Spec.Ops.shift left dbg true bits (valOf c a) kv))
      else
        let t ← parsePrimTy tys
        let f ← shiftPrimModel T dbg left t form
        let (kv, p) ← parseAmount t k
        some (showOut (showVal c) (f a p), spAns (Spec.Ops.shift left dbg false bits (valOf c a) kv))
    | _, _ => none

end Bnum.Drive.C17
