import Bnum.Drive.C01
import Bnum.Drive.C02
import Bnum.Drive.C03
import Bnum.Drive.C04
import Bnum.Drive.C05
import Bnum.Drive.C06
import Bnum.Drive.C07
import Bnum.Drive.C08
import Bnum.Drive.C09
import Bnum.Drive.C10
import Bnum.Drive.C11
import Bnum.Drive.C12
import Bnum.Drive.C13
import Bnum.Drive.C14
import Bnum.Drive.C15
import Bnum.Drive.C16
import Bnum.Drive.C17
import Bnum.Drive.C18
import Bnum.Drive.C19
import Bnum.Drive.C20
import Bnum.Drive.Prim
namespace Bnum.Drive.All
open Bnum.Drive
def handlers : List Handler :=
  [C01.handle, C02.handle, C03.handle, C04.handle, C05.handle, C06.handle, C07.handle, C08.handle, C10.handle, C11.handle,
   C12.handle, C14.handle, C15.handle, C16.handle, C17.handle, C18.handle, C19.handle, C20.handle, PrimD.handle]
/-- handlers that parse the raw token list themselves (the second token is not a configuration) -/
def rawHandlers : List (String → List String → Option (String × String)) := [C09.handleRaw, C13.handleRaw]
end Bnum.Drive.All
