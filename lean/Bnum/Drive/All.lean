import Bnum.Drive.C01
import Bnum.Drive.C02
import Bnum.Drive.C03
import Bnum.Drive.C06
import Bnum.Drive.C07
import Bnum.Drive.C09
import Bnum.Drive.C13
namespace Bnum.Drive.All
open Bnum.Drive
def handlers : List Handler := [C01.handle, C02.handle, C03.handle, C06.handle, C07.handle]
/-- handlers that parse the raw token list themselves (the second token is not a configuration) -/
def rawHandlers : List (String → List String → Option (String × String)) := [C09.handleRaw, C13.handleRaw]
end Bnum.Drive.All
