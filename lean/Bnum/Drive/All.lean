import Bnum.Drive.C01
namespace Bnum.Drive.All
open Bnum.Drive
def handlers : List Handler := [C01.handle]
end Bnum.Drive.All
