/-
  Bnum.Drive.C11 — printing ops.
    to_str_radix cfg radix a → hex bytes of the string / P
    to_radix_be  cfg radix a → hex bytes of the digit values (most significant first) / P
    to_radix_le  cfg radix a → hex bytes of the digit values (least significant first) / P
    roundtrip_str cfg radix a → from_str_radix (to_str_radix a radix) radix : Ok(hex) / Err(..) / P; spec Ok(a)
    roundtrip_be  cfg radix a → from_radix_be (to_radix_be a radix) radix   : S(hex) / N / P;    spec S(a)
    roundtrip_le  cfg radix a → from_radix_le (to_radix_le a radix) radix   : S(hex) / N / P;    spec S(a)
    roundtrip_parse_str   cfg radix a → parse_str_radix (to_str_radix a radix) radix : hex / P;        spec a
    roundtrip_parse_bytes cfg radix a → parse_bytes (to_str_radix a radix) radix     : S(hex) / N / P; spec S(a)
    roundtrip_from_str    cfg a       → <T as FromStr>::from_str (to_str_radix a 10) : Ok(hex)/Err(..); spec Ok(a)
    roundtrip_be_le cfg radix a → from_radix_le (reverse (to_radix_be a radix)) radix : S(hex)/N/P;    spec S(a)
    roundtrip_le_be cfg radix a → from_radix_be (reverse (to_radix_le a radix)) radix : S(hex)/N/P;    spec S(a)
  `radix` decimal (any u32), `a` hex pattern.  A digit value 256 cannot occur (digits `< radix ≤ 256`).
  Every spec answer is a single value: the property fixes the output for an in-range radix and demands a
  panic (`P`) for every other radix — also for the value zero and for negative values, and for the composed
  round trips (the printing half panics first).
-/
import Bnum.Drive.Util
import Bnum.Model.Radix
import Bnum.Spec.Radix
import Bnum.Drive.C10
namespace Bnum.Drive.C11
open Bnum Bnum.Drive Bnum.Spec.Radix

def handle : Handler := fun c op args =>
  let w := c.w
  match op, args with
  | "to_str_radix", [r, a] => do
    let radix ← r.toNat?; let a ← parseVal c a
    let mo := if c.signed then II.toStrRadix w a radix else UI.toStrRadix w a radix
    let sp := if 2 ≤ radix ∧ radix ≤ 36 then showBytes (canonStr radix (valOf c a)) else "P"
    some (showOut showBytes mo, sp)
  | "to_radix_be", [r, a] => do
    let radix ← r.toNat?; let a ← parseVal c a
    let sp := if 2 ≤ radix ∧ radix ≤ 256 then showBytes (canonBE radix (U w a)) else "P"
    some (showOut showBytes (UI.toRadixBe w a radix), sp)
  | "to_radix_le", [r, a] => do
    let radix ← r.toNat?; let a ← parseVal c a
    let sp := if 2 ≤ radix ∧ radix ≤ 256 then showBytes (canonLE radix (U w a)) else "P"
    some (showOut showBytes (UI.toRadixLe w a radix), sp)
  | "roundtrip_str", [r, a] => do
    let radix ← r.toNat?; let a ← parseVal c a
    let mo : Outcome PRes :=
      if c.signed then (II.toStrRadix w a radix).bind fun s => II.fromStrRadix w c.n s radix
      else (UI.toStrRadix w a radix).bind fun s => UI.fromStrRadix w c.n s radix
    let sp := if 2 ≤ radix ∧ radix ≤ 36 then "Ok(" ++ showVal c a ++ ")" else "P"
    some (showOut (C10.showPRes c) mo, sp)
  | "roundtrip_be", [r, a] => do
    let radix ← r.toNat?; let a ← parseVal c a
    let mo := (UI.toRadixBe w a radix).bind fun s => UI.fromRadixBe w c.n s radix
    let sp := if 2 ≤ radix ∧ radix ≤ 256 then "S(" ++ showVal c a ++ ")" else "P"
    some (showOut (showOpt (showVal c)) mo, sp)
  | "roundtrip_le", [r, a] => do
    let radix ← r.toNat?; let a ← parseVal c a
    let mo := (UI.toRadixLe w a radix).bind fun s => UI.fromRadixLe w c.n s radix
    let sp := if 2 ≤ radix ∧ radix ≤ 256 then "S(" ++ showVal c a ++ ")" else "P"
    some (showOut (showOpt (showVal c)) mo, sp)
  | "roundtrip_parse_str", [r, a] => do
    let radix ← r.toNat?; let a ← parseVal c a
    let mo : Outcome (List Nat) :=
      if c.signed then (II.toStrRadix w a radix).bind fun s => II.parseStrRadix w c.n s radix
      else (UI.toStrRadix w a radix).bind fun s => UI.parseStrRadix w c.n s radix
    let sp := if 2 ≤ radix ∧ radix ≤ 36 then showVal c a else "P"
    some (showOut (showVal c) mo, sp)
  | "roundtrip_parse_bytes", [r, a] => do
    let radix ← r.toNat?; let a ← parseVal c a
    let mo : Outcome (Option (List Nat)) :=
      if c.signed then (II.toStrRadix w a radix).bind fun s => II.parseBytes w c.n s radix
      else (UI.toStrRadix w a radix).bind fun s => UI.parseBytes w c.n s radix
    let sp := if 2 ≤ radix ∧ radix ≤ 36 then "S(" ++ showVal c a ++ ")" else "P"
    some (showOut (showOpt (showVal c)) mo, sp)
  | "roundtrip_from_str", [a] => do
    let a ← parseVal c a
    let mo : Outcome PRes :=
      if c.signed then (II.toStrRadix w a 10).bind fun s => II.fromStr w c.n s
      else (UI.toStrRadix w a 10).bind fun s => UI.fromStr w c.n s
    some (showOut (C10.showPRes c) mo, "Ok(" ++ showVal c a ++ ")")
  | "roundtrip_be_le", [r, a] => do
    let radix ← r.toNat?; let a ← parseVal c a
    let mo := (UI.toRadixBe w a radix).bind fun s => UI.fromRadixLe w c.n s.reverse radix
    let sp := if 2 ≤ radix ∧ radix ≤ 256 then "S(" ++ showVal c a ++ ")" else "P"
    some (showOut (showOpt (showVal c)) mo, sp)
  | "roundtrip_le_be", [r, a] => do
    let radix ← r.toNat?; let a ← parseVal c a
    let mo := (UI.toRadixLe w a radix).bind fun s => UI.fromRadixBe w c.n s.reverse radix
    let sp := if 2 ≤ radix ∧ radix ≤ 256 then "S(" ++ showVal c a ++ ")" else "P"
    some (showOut (showOpt (showVal c)) mo, sp)
  | _, _ => none

end Bnum.Drive.C11
