/-
  Bnum.Drive.C15 — endianness conversions (`src/{buint,bint}/endian.rs`).
  Ops (both signednesses; names = Rust method names).  `a` hex pattern; `bytes` hex-encoded byte
  string (`-` = empty).  The plain op names are answered for a little-endian target (`e = true`), like
  the harness host.  Every op also exists with the suffix `@be` (`to_be@be`, `to_ne_bytes@be`, …): the
  same Rust method executed on a BIG-endian target (`e = false`; the harness answers these only when it
  is itself compiled for a big-endian target — `gen/c15.py:post` runs it under Miri for s390x — and
  `skip` otherwise).  There `to_be`/`from_be` are the identity, `to_le`/`from_le` swap, and the `ne`
  byte conversions are the `be` ones.
    from_be_slice bytes | from_le_slice bytes          → `S(hex pattern)` / `N` / `P`
    to_be a | to_le a | from_be a | from_le a          → hex pattern
    to_be_bytes a | to_le_bytes a | to_ne_bytes a      → hex bytes (`P` on panic)
    from_be_bytes bytes | from_le_bytes bytes | from_ne_bytes bytes   (exactly `N*BYTES` bytes,
                                                        otherwise the request is rejected) → hex pattern
  Spec answers come from exact arithmetic on the byte list / pattern value (`Bnum.Spec.Endian`); for the
  signed `to_*_bytes` the spec goes through the SIGNED value (`wrapU M (toInt M pattern)`, "the
  two's-complement bytes").
-/
import Bnum.Drive.Util
import Bnum.Model.Endian
import Bnum.Spec.Endian
namespace Bnum.Drive.C15
open Bnum Bnum.Drive

/-- the plain ops run the model for a little-endian target -/
def little : Bool := true

private def showOO (c : Cfg) (r : Outcome (Option (List Nat))) : String :=
  showOut (showOpt (showVal c)) r

/-- all ops, for the target endianness `little` (`true` = little-endian target) -/
def handleE (little : Bool) : Handler := fun c op args =>
  let w := c.w
  let bw := c.w / 8
  let n := c.n
  let nb := n * bw
  let m := M w n
  let sg := c.signed
  -- the pattern whose bytes `to_*_bytes` must produce: for signed types via the signed value
  let pv : List Nat → Nat := fun a => if sg then wrapU m (toInt m (U w a)) else U w a
  -- exact byte reversal of the pattern iff `swap`
  let sw : Bool → List Nat → Nat := fun swap a =>
    if swap then Spec.Endian.swapPattern nb (U w a) else U w a
  match op, args with
  | "from_be_slice", [bs] => do
    let bs ← parseBytes bs
    some (showOO c (if sg then II.fromBeSlice bw n bs else UI.fromBeSlice bw n bs),
          showOpt toHex (Spec.Endian.fromSlice sg true m bs))
  | "from_le_slice", [bs] => do
    let bs ← parseBytes bs
    some (showOO c (if sg then II.fromLeSlice bw n bs else UI.fromLeSlice bw n bs),
          showOpt toHex (Spec.Endian.fromSlice sg false m bs))
  | "to_be", [a] => do
    let a ← parseVal c a
    some (showVal c (if sg then II.toBe little bw a else UI.toBe little bw a),
          toHex (sw little a))
  | "from_be", [a] => do
    let a ← parseVal c a
    some (showVal c (if sg then II.fromBe little bw a else UI.fromBe little bw a),
          toHex (sw little a))
  | "to_le", [a] => do
    let a ← parseVal c a
    some (showVal c (if sg then II.toLe little bw a else UI.toLe little bw a), toHex (sw (!little) a))
  | "from_le", [a] => do
    let a ← parseVal c a
    some (showVal c (if sg then II.fromLe little bw a else UI.fromLe little bw a),
          toHex (sw (!little) a))
  | "to_be_bytes", [a] => do
    let a ← parseVal c a
    some (showOut showBytes (if sg then II.toBeBytes bw n a else UI.toBeBytes bw n a),
          showBytes (Spec.Endian.beBytes nb (pv a)))
  | "to_le_bytes", [a] => do
    let a ← parseVal c a
    some (showOut showBytes (if sg then II.toLeBytes bw n a else UI.toLeBytes bw n a),
          showBytes (Spec.Endian.leBytes nb (pv a)))
  | "to_ne_bytes", [a] => do
    let a ← parseVal c a
    some (showOut showBytes (if sg then II.toNeBytes little bw n a else UI.toNeBytes little bw n a),
          showBytes (if little then Spec.Endian.leBytes nb (pv a) else Spec.Endian.beBytes nb (pv a)))
  | "from_be_bytes", [bs] => do
    let bs ← parseBytes bs
    if bs.length != nb then none else
    some (showOut (showVal c) (if sg then II.fromBeBytes bw n bs else UI.fromBeBytes bw n bs),
          toHex (Spec.Endian.beValue bs))
  | "from_le_bytes", [bs] => do
    let bs ← parseBytes bs
    if bs.length != nb then none else
    some (showOut (showVal c) (if sg then II.fromLeBytes bw n bs else UI.fromLeBytes bw n bs),
          toHex (Spec.Endian.leValue bs))
  | "from_ne_bytes", [bs] => do
    let bs ← parseBytes bs
    if bs.length != nb then none else
    some (showOut (showVal c)
            (if sg then II.fromNeBytes little bw n bs else UI.fromNeBytes little bw n bs),
          toHex (if little then Spec.Endian.leValue bs else Spec.Endian.beValue bs))
  | _, _ => none

/-- `op` → little-endian target; `op@be` → the same method on a big-endian target -/
def handle : Handler := fun c op args =>
  match op.splitOn "@" with
  | [o] => handleE little c o args
  | [o, "be"] => handleE false c o args
  | _ => none

end Bnum.Drive.C15
