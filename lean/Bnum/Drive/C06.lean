/-
  Bnum.Drive.C06 — bitwise logic, bit counts, bit manipulation.
  Ops (names = Rust method names).  `a`, `b` hex patterns; `idx`, `k` decimal u32; `v` = `0`/`1`.
    both signednesses : bitand a b | bitor a b | bitxor a b | not a | count_ones a | count_zeros a
                        | leading_zeros a | trailing_zeros a | leading_ones a | trailing_ones a
                        | bits a | bit a idx | is_power_of_two a | swap_bytes a | reverse_bits a
                        | is_zero a | is_one a
    unsigned only     : set_bit a idx v | power_of_two k | checked_next_power_of_two a
                        | wrapping_next_power_of_two a | next_power_of_two dbg|rel a
  Whole-index-range requests (one request = every index `0 ≤ i < BITS` of one value; the harness
  inspects the result of every single call through `digits()` with primitive digit arithmetic only):
    both signednesses : bit_scan a            -- the pattern reassembled from `bit(0) … bit(BITS-1)`
    unsigned only     : set_bit_scan a v      -- indices `i` where `set_bit(i, v)` did anything but
                                                 replace bit `i` (`-` = none, else `bad:i,j,…`, 8 at most)
                        power_of_two_scan     -- indices `k` where `power_of_two(k)` is not the digit
                                                 array of `2^k` (same answer format)
  Answers: hex pattern, decimal count, `true`/`false`, `S(x)`/`N`, `P`.
  Spec answers are computed from the pattern value `U` (and `S` for the signed `is_power_of_two`)
  with `Bnum.Spec.Bits` only.  `bit` / `set_bit` with `idx ≥ BITS`: the property statement is
  restricted to `i < BITS` ("bit(i) reads and set_bit(i, v) writes exactly bit i … for i < BITS") and
  the crate's documentation does not promise a panic either, so the result stays open (`*`);
  `power_of_two k` with `k ≥ BITS` is a documented panic (`P`).
-/
import Bnum.Drive.Util
import Bnum.Model.BitOps
import Bnum.Model.C06Extra
import Bnum.Spec.Bits
namespace Bnum.Drive.C06
open Bnum Bnum.Drive

private def W (c : Cfg) : Nat := c.w * c.n
private def num (n : Nat) : String := toString n

/-- answer format of the `*_scan` requests: `-` when no index failed, else `bad:` + the first 8 -/
private def showBad (bad : List Nat) : String :=
  if bad.isEmpty then "-" else "bad:" ++ ",".intercalate ((bad.take 8).map toString)

/-- digit `d` with bit `t` replaced by `v` — what the harness expects of `set_bit`, computed on one
    primitive digit (`if v { d | 1 << t } else { d & !(1 << t) }`, here in plain arithmetic) -/
private def digitWithBit (d t : Nat) (v : Bool) : Nat := d - (d / 2 ^ t % 2) * 2 ^ t + v.toNat * 2 ^ t

/-- `bit_scan`: Σ bit(i)·2^i over all `i < BITS`; `none` = some call panicked -/
private def bitScan (bitf : Nat → Outcome Bool) (W : Nat) : Option Nat :=
  (List.range W).foldl (fun acc i => do
    let s ← acc
    match bitf i with
    | .ok b => some (if b then s + 2 ^ i else s)
    | .panic => none) (some 0)

/-- indices `i < BITS` whose `.ok` result differs from `expect i`; `none` = some call panicked -/
private def scanBad (f : Nat → Outcome (List Nat)) (expect : Nat → List Nat) (W : Nat) :
    Option (List Nat) :=
  (List.range W).foldl (fun acc i => do
    let bad ← acc
    match f i with
    | .ok r => some (if r == expect i then bad else bad ++ [i])
    | .panic => none) (some [])

private def showScan : Option (List Nat) → String
  | some bad => showBad bad
  | none => "P"

def handle : Handler := fun c op args =>
  let w := c.w
  let un (f : List Nat → String) (g : Nat → String) (a : String) : Option (String × String) := do
    let a ← parseVal c a
    some (f a, g (U w a))
  match op, args with
  | "bitand", [a, b] => do
    let a ← parseVal c a; let b ← parseVal c b
    some (showVal c (if c.signed then II.bitand a b else UI.bitand a b), toHex (U w a &&& U w b))
  | "bitor", [a, b] => do
    let a ← parseVal c a; let b ← parseVal c b
    some (showVal c (if c.signed then II.bitor a b else UI.bitor a b), toHex (U w a ||| U w b))
  | "bitxor", [a, b] => do
    let a ← parseVal c a; let b ← parseVal c b
    some (showVal c (if c.signed then II.bitxor a b else UI.bitxor a b), toHex (U w a ^^^ U w b))
  | "not", [a] =>
    un (fun a => showVal c (if c.signed then II.not w a else UI.not w a))
       (fun v => toHex (Spec.compl (W c) v)) a
  | "count_ones", [a] =>
    un (fun a => num (if c.signed then II.countOnes w a else UI.countOnes w a))
       (fun v => num (Spec.popcount (W c) v)) a
  | "count_zeros", [a] =>
    un (fun a => num (if c.signed then II.countZeros w a else UI.countZeros w a))
       (fun v => num (Spec.countZeros (W c) v)) a
  | "leading_zeros", [a] =>
    un (fun a => num (if c.signed then II.leadingZeros w a else UI.leadingZeros w a))
       (fun v => num (Spec.leadingZeros (W c) v)) a
  | "trailing_zeros", [a] =>
    un (fun a => num (if c.signed then II.trailingZeros w a else UI.trailingZeros w a))
       (fun v => num (Spec.trailingZeros (W c) v)) a
  | "leading_ones", [a] =>
    un (fun a => num (if c.signed then II.leadingOnes w a else UI.leadingOnes w a))
       (fun v => num (Spec.leadingOnes (W c) v)) a
  | "trailing_ones", [a] =>
    un (fun a => num (if c.signed then II.trailingOnes w a else UI.trailingOnes w a))
       (fun v => num (Spec.trailingOnes (W c) v)) a
  | "bits", [a] =>
    un (fun a => num (if c.signed then II.bits w a else UI.bits w a))
       (fun v => num (Spec.bitLen v)) a
  | "bit", [a, i] => do
    let a ← parseVal c a; let i ← i.toNat?
    some (showOut showBool (if c.signed then II.bit w a i else UI.bit w a i),
      if i < W c then showBool (Spec.bit (U w a) i) else "*")
  | "is_power_of_two", [a] => do
    let a ← parseVal c a
    some (showBool (if c.signed then II.isPowerOfTwo w a else UI.isPowerOfTwo w a),
      showBool (if c.signed then decide (0 < S w a) && Spec.isPow2 (S w a).toNat
                else Spec.isPow2 (U w a)))
  | "swap_bytes", [a] =>
    un (fun a => showVal c (if c.signed then II.swapBytes w a else UI.swapBytes w a))
       (fun v => toHex (Spec.swapBytes (W c) v)) a
  | "reverse_bits", [a] =>
    un (fun a => showVal c (if c.signed then II.reverseBits w a else UI.reverseBits w a))
       (fun v => toHex (Spec.reverseBits (W c) v)) a
  | "is_zero", [a] =>
    un (fun a => showBool (if c.signed then II.isZeroBits a else isZero a)) (fun v => showBool (v = 0)) a
  | "is_one", [a] =>
    un (fun a => showBool (if c.signed then II.isOneBits a else isOne a)) (fun v => showBool (v = 1)) a
  | "bit_scan", [a] => do
    let a ← parseVal c a
    some (match bitScan (fun i => if c.signed then II.bit w a i else UI.bit w a i) (W c) with
          | some v => toHex v
          | none => "P",
      toHex (U w a))
  | "set_bit_scan", [a, v] =>
    if c.signed then none else do
    let a ← parseVal c a; let v ← parseBool v
    some (showScan (scanBad (fun i => UI.setBit w a i v)
        (fun i => a.set (i / w) (digitWithBit (a.getD (i / w) 0) (i % w) v)) (W c)), "-")
  | "power_of_two_scan", [] =>
    if c.signed then none else
    some (showScan (scanBad (fun k => UI.powerOfTwo w c.n k)
        (fun k => (List.replicate c.n 0).set (k / w) (2 ^ (k % w))) (W c)), "-")
  | "set_bit", [a, i, v] =>
    if c.signed then none else do
    let a ← parseVal c a; let i ← i.toNat?; let v ← parseBool v
    some (showOut (showVal c) (UI.setBit w a i v),
      if i < W c then toHex (Spec.setBit (U w a) i v) else "*")
  | "power_of_two", [k] =>
    if c.signed then none else do
    let k ← k.toNat?
    some (showOut (showVal c) (UI.powerOfTwo w c.n k), if k < W c then toHex (2 ^ k) else "P")
  | "checked_next_power_of_two", [a] =>
    if c.signed then none else do
    let a ← parseVal c a
    some (showOut (showOpt (showVal c)) (UI.checkedNextPowerOfTwo w a),
      showOpt toHex (Spec.checkedNextPow2 (W c) (U w a)))
  | "wrapping_next_power_of_two", [a] =>
    if c.signed then none else do
    let a ← parseVal c a
    some (showOut (showVal c) (UI.wrappingNextPowerOfTwo w a),
      toHex (Spec.wrappingNextPow2 (W c) (U w a)))
  | "next_power_of_two", [mode, a] =>
    if c.signed then none else do
    let dbg ← if mode = "dbg" then some true else if mode = "rel" then some false else none
    let a ← parseVal c a
    some (showOut (showVal c) (UI.nextPowerOfTwo dbg w a),
      match Spec.checkedNextPow2 (W c) (U w a) with
      | some p => toHex p
      | none => if dbg then "P" else "0")
  | _, _ => none

end Bnum.Drive.C06
