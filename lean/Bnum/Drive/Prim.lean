/-
  Bnum.Drive.Prim — exposes the trusted leaf layer (`Prim.*`: Rust primitive integer operations on one
  digit, UTF-8 validity) to the line protocol so that the harness bin `prim` can compare it with the
  rustc-compiled primitives (exhaustively at 8 bits, sampled at 16/32/64).  Model answer = spec answer
  = the `Prim` definition (these definitions ARE the specification of the leaves).
  Requests: `prim_<op> u8x1 a [b]` / `i8x1 …` (the digit width is taken from the configuration).
-/
import Bnum.Drive.Util
import Bnum.Model.Digit
import Bnum.Model.BitOps
import Bnum.Model.Endian
import Bnum.Model.Radix
namespace Bnum.Drive.PrimD
open Bnum Bnum.Drive

private def pairS (p : Nat × Bool) : String := "(" ++ toHex p.1 ++ "," ++ showBool p.2 ++ ")"

def handle : Handler := fun c op args =>
  let w := c.w
  let both (s : String) := some (s, s)
  match op, args with
  | "prim_overflowing_add", [a, b] => do
    let a ← parseHex a; let b ← parseHex b
    both (pairS (if c.signed then Prim.iOverflowingAdd w a b else Prim.uOverflowingAdd w a b))
  | "prim_overflowing_sub", [a, b] => do
    let a ← parseHex a; let b ← parseHex b
    both (pairS (if c.signed then Prim.iOverflowingSub w a b else Prim.uOverflowingSub w a b))
  | "prim_not", [a] => do let a ← parseHex a; both (toHex (Prim.not w a))
  | "prim_is_negative", [a] => do let a ← parseHex a; both (showBool (Prim.isNeg w a))
  | "prim_is_positive", [a] => do let a ← parseHex a; both (showBool (Prim.isPos w a))
  | "prim_trailing_zeros", [a] => do let a ← parseHex a; both (toString (Prim.trailingZeros w a))
  | "prim_leading_zeros", [a] => do let a ← parseHex a; both (toString (Prim.leadingZeros w a))
  | "prim_trailing_ones", [a] => do let a ← parseHex a; both (toString (Prim.trailingOnes w a))
  | "prim_leading_ones", [a] => do let a ← parseHex a; both (toString (Prim.leadingOnes w a))
  | "prim_count_ones", [a] => do let a ← parseHex a; both (toString (Prim.countOnes w a))
  | "prim_count_zeros", [a] => do let a ← parseHex a; both (toString (Prim.countZeros w a))
  | "prim_reverse_bits", [a] => do let a ← parseHex a; both (toHex (Prim.reverseBits w a))
  | "prim_swap_bytes", [a] => do let a ← parseHex a; both (toHex (Prim.swapBytes w a))
  | "prim_swap_bytes_endian", [a] => do let a ← parseHex a; both (toHex (Endian.Prim.swapBytes (w / 8) a))
  | "prim_to_le_bytes", [a] => do let a ← parseHex a; both (showBytes (Endian.Prim.toLeBytes (w / 8) a))
  | "prim_to_be_bytes", [a] => do let a ← parseHex a; both (showBytes (Endian.Prim.toBeBytes (w / 8) a))
  | "prim_utf8_valid", [bs] => do let bs ← parseBytes bs; both (showBool (Prim.utf8Valid bs))
  | _, _ => none
end Bnum.Drive.PrimD
