/-
  Bnum.Props.C02 — property C02:

  "For every bnum integer type and all operands a, b, overflowing_mul returns a*b reduced into the
   type's range with a flag that is true exactly when a*b is not representable (signed: outside
   [MIN, MAX], including the MIN * -1 and x * MIN cases), and checked/wrapping/saturating/strict
   multiplication are the corresponding projections, saturating toward the sign of the exact
   product. For unsigned types widening_mul returns (lo, hi) with hi*2^BITS + lo = a*b and
   carrying_mul returns the same for a*b + carry, so the helpers can be chained into exact
   multi-word arithmetic."

  Generic in the digit width `w` (bits) and the digit count `n`; `UI.*` = `BUint<N>`, `II.*` =
  `BInt<N>` (Model/Mul.lean).  `U` / `S` = unsigned / two's-complement value, `M w n = 2^(w*n)`,
  `B w = 2^w`.  Proofs are one-liners calling Lemmas/Mul.lean.

  Covered:
  * `digit::carrying_mul` / `digit::widening_mul`: exact, the `DoubleDigit` sum never wraps
  * `BUint::long_mul` (= `overflowing_mul`): value `a*b mod 2^BITS`, flag ↔ `2^BITS ≤ a*b`
  * `BUint::{checked,wrapping,saturating,strict}_mul`, `mul` (`dbg` = `cfg(debug_assertions)`)
  * `BUint::widening_mul`, `BUint::carrying_mul`: `hi * 2^BITS + lo = a*b (+ carry)`; `u_mul_chain`
    chains them into an exact two-word × one-word product; `u_mul_words` / `u_mul_words_digits`:
    `k` chained `carrying_mul`s give the exact `(k+1)`-word product of a `k`-word number by a word
    (any `k`), i.e. the digits of the result are those of a `BUint<N*(k+1)>` holding `a*b + carry`
  * `*`, `*=` by value and by reference (`impl Mul`, `Mul<&T>`, `MulAssign`, … of `src/int/ops.rs`)
    are the inherent `mul`: `u_mul_operator_forms`, `i_mul_operator_forms` (so `u_mul` / `i_mul` hold
    for every operator form)
  * `BInt::overflowing_mul` (via `unsigned_abs`, `long_mul`, `checked_neg`): value `wrapS (a*b)`,
    flag ↔ `a*b ∉ [MIN, MAX]`; `MIN * -1 = (MIN, true)`; `x * MIN` overflows iff `x ∉ {0, 1}`
  * `BInt::{checked,wrapping,saturating,strict}_mul`, `mul`; `i_saturating_mul_side`: on overflow the
    result is MAX when the exact product is positive and MIN when it is negative.

  Hypotheses: well-formed operands; the signed theorems need `2 ≤ w`, `1 ≤ n`; `carrying_mul` needs
  `1 ≤ w`, `1 ≤ n` (the constant ONE must exist); everything else holds for all `w`, `n`.
-/
import Bnum.Lemmas.Mul
import Bnum.Lemmas.C02Extra

namespace Bnum.C02
open Bnum

/-! ## digit layer (`src/digit.rs`) -/

/-- `digit::carrying_mul`: `a*b + carry + current` is returned exactly as `(low, high)`;
    the `DoubleDigit` arithmetic cannot wrap because `a*b + c + d < B²`. -/
theorem digit_carrying_mul {w a b c d : Nat} (ha : a < B w) (hb : b < B w) (hc : c < B w)
    (hd : d < B w) :
    (Digit.carryingMul w a b c d).1 + B w * (Digit.carryingMul w a b c d).2 = a * b + c + d
    ∧ (Digit.carryingMul w a b c d).1 < B w ∧ (Digit.carryingMul w a b c d).2 < B w :=
  Digit.carryingMul_spec ha hb hc hd
example : (255 < B 8 ∧ 255 < B 8 ∧ 255 < B 8 ∧ 255 < B 8) ∧
    Digit.carryingMul 8 255 255 255 255 = (255, 255) := by decide

/-- `digit::widening_mul` -/
theorem digit_widening_mul {w a b : Nat} (ha : a < B w) (hb : b < B w) :
    (Digit.wideningMul w a b).1 + B w * (Digit.wideningMul w a b).2 = a * b
    ∧ (Digit.wideningMul w a b).1 < B w ∧ (Digit.wideningMul w a b).2 < B w :=
  Digit.wideningMul_spec ha hb
example : (255 < B 8 ∧ 254 < B 8) ∧ Digit.wideningMul 8 255 254 = (2, 253) := by decide

/-! ## `BUint<N>` -/

/-- `BUint::long_mul` -/
theorem u_long_mul {w n : Nat} {a b : List Nat} (ha : WF w n a) (hb : WF w n b) :
    U w (UI.longMul w a b).1 = (U w a * U w b) % M w n ∧
    ((UI.longMul w a b).2 = true ↔ M w n ≤ U w a * U w b) ∧ WF w n (UI.longMul w a b).1 :=
  UI.u_longMul_spec ha hb
example : WF 8 3 [200, 7, 1] ∧ WF 8 3 [100, 250, 3] ∧
    UI.longMul 8 [200, 7, 1] [100, 250, 3] = ([32, 90, 88], true) := by decide
example : WF 8 3 [200, 7, 0] ∧ WF 8 3 [100, 2, 0] ∧
    UI.longMul 8 [200, 7, 0] [100, 2, 0] = ([32, 154, 18], false) := by decide

/-- `BUint::overflowing_mul` -/
theorem u_overflowing_mul {w n : Nat} {a b : List Nat} (ha : WF w n a) (hb : WF w n b) :
    WF w n (UI.overflowingMul w a b).1 ∧
    (U w (UI.overflowingMul w a b).1 : Int) = wrapU (M w n) ((U w a : Int) * (U w b : Int)) ∧
    ((UI.overflowingMul w a b).2 = true ↔ ¬ repU (M w n) ((U w a : Int) * (U w b : Int))) :=
  (UI.overflowingMul_spec ha hb).expand
example : WF 8 3 [200, 7, 255] ∧ WF 8 3 [100, 250, 3] ∧
    UI.overflowingMul 8 [200, 7, 255] [100, 250, 3] = ([32, 90, 144], true) := by decide

/-- `BUint::checked_mul` -/
theorem u_checked_mul {w n : Nat} {a b : List Nat} (ha : WF w n a) (hb : WF w n b) :
    (UI.checkedMul w a b = none ↔ ¬ repU (M w n) ((U w a : Int) * (U w b : Int))) ∧
    (∀ r, UI.checkedMul w a b = some r → WF w n r ∧ (U w r : Int) = (U w a : Int) * (U w b : Int)) :=
  (UI.overflowingMul_spec ha hb).checked
example : WF 8 3 [200, 7, 0] ∧ WF 8 3 [100, 2, 0] ∧
    UI.checkedMul 8 [200, 7, 0] [100, 2, 0] = some [32, 154, 18] := by decide
example : WF 8 3 [200, 7, 255] ∧ WF 8 3 [100, 250, 3] ∧
    UI.checkedMul 8 [200, 7, 255] [100, 250, 3] = none := by decide

/-- `BUint::wrapping_mul` -/
theorem u_wrapping_mul {w n : Nat} {a b : List Nat} (ha : WF w n a) (hb : WF w n b) :
    WF w n (UI.wrappingMul w a b) ∧
    (U w (UI.wrappingMul w a b) : Int) = wrapU (M w n) ((U w a : Int) * (U w b : Int)) :=
  (UI.overflowingMul_spec ha hb).wrapping
example : WF 8 3 [200, 7, 255] ∧ WF 8 3 [100, 250, 3] ∧
    UI.wrappingMul 8 [200, 7, 255] [100, 250, 3] = [32, 90, 144] := by decide

/-- `BUint::saturating_mul`: the exact product clamped into `[0, MAX]` -/
theorem u_saturating_mul {w n : Nat} {a b : List Nat} (ha : WF w n a) (hb : WF w n b) :
    WF w n (UI.saturatingMul w a b) ∧
    (U w (UI.saturatingMul w a b) : Int)
      = Spec.clamp false (M w n) ((U w a : Int) * (U w b : Int)) :=
  UI.saturatingMul_spec ha hb
example : WF 8 3 [200, 7, 255] ∧ WF 8 3 [100, 250, 3] ∧
    UI.saturatingMul 8 [200, 7, 255] [100, 250, 3] = [255, 255, 255] := by decide

/-- `BUint::strict_mul` -/
theorem u_strict_mul {w n : Nat} {a b : List Nat} (ha : WF w n a) (hb : WF w n b) :
    (UI.strictMul w a b = Outcome.panic ↔ ¬ repU (M w n) ((U w a : Int) * (U w b : Int))) ∧
    (∀ r, UI.strictMul w a b = Outcome.ok r →
      WF w n r ∧ (U w r : Int) = (U w a : Int) * (U w b : Int)) :=
  (UI.overflowingMul_spec ha hb).strict
example : WF 8 3 [200, 7, 255] ∧ WF 8 3 [100, 250, 3] ∧
    UI.strictMul 8 [200, 7, 255] [100, 250, 3] = Outcome.panic := by decide

/-- `BUint::mul` / `impl Mul`: panics ↔ built with `debug_assertions` ∧ overflow; otherwise the
    wrapped product (which is the exact product in the debug build). -/
theorem u_mul {w n : Nat} {a b : List Nat} (ha : WF w n a) (hb : WF w n b) (dbg : Bool) :
    (UI.mul w dbg a b = Outcome.panic ↔
      (dbg = true ∧ ¬ repU (M w n) ((U w a : Int) * (U w b : Int)))) ∧
    (∀ r, UI.mul w dbg a b = Outcome.ok r →
      WF w n r ∧ (U w r : Int) = wrapU (M w n) ((U w a : Int) * (U w b : Int)) ∧
      (dbg = true → (U w r : Int) = (U w a : Int) * (U w b : Int))) :=
  UI.mul_spec ha hb dbg
example : WF 8 3 [200, 7, 255] ∧ WF 8 3 [100, 250, 3] ∧
    UI.mul 8 true [200, 7, 255] [100, 250, 3] = Outcome.panic ∧
    UI.mul 8 false [200, 7, 255] [100, 250, 3] = Outcome.ok [32, 90, 144] := by decide

/-- `BUint::widening_mul`: `hi * 2^BITS + lo = a * b` -/
theorem u_widening_mul {w n : Nat} {a b : List Nat} (ha : WF w n a) (hb : WF w n b) :
    WF w n (UI.wideningMul w a b).1 ∧ WF w n (UI.wideningMul w a b).2 ∧
    U w (UI.wideningMul w a b).2 * M w n + U w (UI.wideningMul w a b).1 = U w a * U w b :=
  UI.u_wideningMul_spec ha hb
example : WF 8 3 [200, 7, 255] ∧ WF 8 3 [100, 250, 3] ∧
    UI.wideningMul 8 [200, 7, 255] [100, 250, 3] = ([32, 90, 144], [136, 246, 3]) := by decide

/-- `lo` / `hi` of `widening_mul` are remainder / quotient of the exact product -/
theorem u_widening_mul_divmod {w n : Nat} {a b : List Nat} (ha : WF w n a) (hb : WF w n b) :
    U w (UI.wideningMul w a b).1 = (U w a * U w b) % M w n ∧
    U w (UI.wideningMul w a b).2 = (U w a * U w b) / M w n :=
  UI.u_wideningMul_divmod ha hb

/-- `BUint::carrying_mul`: `hi * 2^BITS + lo = a * b + carry` -/
theorem u_carrying_mul {w n : Nat} {a b c : List Nat} (hw : 1 ≤ w) (hn : 1 ≤ n)
    (ha : WF w n a) (hb : WF w n b) (hc : WF w n c) :
    WF w n (UI.carryingMul w a b c).1 ∧ WF w n (UI.carryingMul w a b c).2 ∧
    U w (UI.carryingMul w a b c).2 * M w n + U w (UI.carryingMul w a b c).1
      = U w a * U w b + U w c :=
  UI.u_carryingMul_spec hw hn ha hb hc
example : 1 ≤ 8 ∧ 1 ≤ 3 ∧ WF 8 3 [255, 255, 255] ∧
    UI.carryingMul 8 [255, 255, 255] [255, 255, 255] [255, 255, 255]
      = ([0, 0, 0], [255, 255, 255]) := by decide

/-- chaining: `(a1 : a0) * b` as three words from one `widening_mul` and one `carrying_mul` -/
theorem u_mul_chain {w n : Nat} {a0 a1 b : List Nat} (hw : 1 ≤ w) (hn : 1 ≤ n)
    (h0 : WF w n a0) (h1 : WF w n a1) (hb : WF w n b) :
    let r0 := UI.wideningMul w a0 b
    let r1 := UI.carryingMul w a1 b r0.2
    U w r0.1 + M w n * U w r1.1 + M w n * M w n * U w r1.2
      = (U w a0 + M w n * U w a1) * U w b :=
  UI.mul_chain hw hn h0 h1 hb
example : 1 ≤ 8 ∧ 1 ≤ 2 ∧ WF 8 2 [200, 7] ∧ WF 8 2 [9, 255] ∧ WF 8 2 [100, 250] ∧
    UI.wideningMul 8 [200, 7] [100, 250] = ([32, 90], [156, 7]) ∧
    UI.carryingMul 8 [9, 255] [100, 250] [156, 7] = ([32, 113], [114, 249]) := by decide

/-- "so the helpers can be chained into exact multi-word arithmetic", any number of words:
    `UI.mulWords` is the loop `for a in words { (lo, carry) = a.carrying_mul(b, carry); push lo }`;
    for `k` words (little-endian, value `UW = Σ aᵢ·2^(BITS·i)`) it returns `k` well-formed low words
    and a well-formed carry word with `Σ loᵢ·2^(BITS·i) + 2^(BITS·k)·carry' = (Σ aᵢ·2^(BITS·i))·b + carry`. -/
theorem u_mul_words {w n : Nat} {b c : List Nat} {as : List (List Nat)} (hw : 1 ≤ w) (hn : 1 ≤ n)
    (has : ∀ a ∈ as, WF w n a) (hb : WF w n b) (hc : WF w n c) :
    (UI.mulWords w as b c).1.length = as.length ∧
    (∀ x ∈ (UI.mulWords w as b c).1, WF w n x) ∧ WF w n (UI.mulWords w as b c).2 ∧
    UI.UW w n (UI.mulWords w as b c).1 + M w n ^ as.length * U w (UI.mulWords w as b c).2
      = UI.UW w n as * U w b + U w c :=
  UI.mulWords_spec hw hn hb as c has hc
example : 1 ≤ 8 ∧ 1 ≤ 2 ∧ (∀ a ∈ [[200, 7], [9, 255], [255, 255]], WF 8 2 a) ∧ WF 8 2 [100, 250] ∧
    WF 8 2 [255, 255] ∧
    UI.mulWords 8 [[200, 7], [9, 255], [255, 255]] [100, 250] [255, 255]
      = ([[31, 90], [33, 113], [14, 255]], [99, 250]) := by decide

/-- the same on digits: the low words followed by the carry word, concatenated, are the `N·(k+1)`
    digits of the exact value `a·b + carry`, where `a` is the `N·k`-digit number whose digits are the
    concatenated input words. -/
theorem u_mul_words_digits {w n : Nat} {b c : List Nat} {as : List (List Nat)} (hw : 1 ≤ w)
    (hn : 1 ≤ n) (has : ∀ a ∈ as, WF w n a) (hb : WF w n b) (hc : WF w n c) :
    WF w (n * (as.length + 1)) ((UI.mulWords w as b c).1 ++ [(UI.mulWords w as b c).2]).flatten ∧
    U w ((UI.mulWords w as b c).1 ++ [(UI.mulWords w as b c).2]).flatten
      = U w as.flatten * U w b + U w c :=
  UI.mulWords_digits hw hn has hb hc
example : ([[31, 90], [33, 113], [14, 255]] ++ [[99, 250]]).flatten
      = [31, 90, 33, 113, 14, 255, 99, 250] ∧
    U 8 [31, 90, 33, 113, 14, 255, 99, 250]
      = U 8 [200, 7, 9, 255, 255, 255] * U 8 [100, 250] + U 8 [255, 255] := by decide

/-- `*`, `*=` (`impl Mul for T`, `Mul<&T> for T`, `Mul<T> for &T`, `Mul<&T> for &T`, `MulAssign<T>`,
    `MulAssign<&T>`; `src/int/ops.rs`) on `BUint<N>`: all delegate to the inherent `mul`, so `u_mul`
    describes every operator form. -/
theorem u_mul_operator_forms (w n : Nat) (dbg : Bool) (a b : List Nat) :
    Ops.mul_vv (Ops.buint w n) dbg a b = UI.mul w dbg a b ∧
    Ops.mul_vr (Ops.buint w n) dbg a b = UI.mul w dbg a b ∧
    Ops.mul_rv (Ops.buint w n) dbg a b = UI.mul w dbg a b ∧
    Ops.mul_rr (Ops.buint w n) dbg a b = UI.mul w dbg a b ∧
    Ops.mulAssign (Ops.buint w n) dbg a b = UI.mul w dbg a b ∧
    Ops.mulAssignRef (Ops.buint w n) dbg a b = UI.mul w dbg a b :=
  Ops.mul_forms_buint w n dbg a b
example : Ops.mulAssignRef (Ops.buint 8 3) true [200, 7, 255] [100, 250, 3] = Outcome.panic ∧
    Ops.mul_rr (Ops.buint 8 3) false [200, 7, 255] [100, 250, 3] = Outcome.ok [32, 90, 144] := by
  decide

/-! ## `BInt<N>` -/

/-- `BInt::overflowing_mul` -/
theorem i_overflowing_mul {w n : Nat} {a b : List Nat} (hw : 2 ≤ w) (hn : 1 ≤ n)
    (ha : WF w n a) (hb : WF w n b) :
    WF w n (II.overflowingMul w a b).1 ∧
    S w (II.overflowingMul w a b).1 = wrapS (M w n) (S w a * S w b) ∧
    ((II.overflowingMul w a b).2 = true ↔ ¬ repS (M w n) (S w a * S w b)) :=
  (II.overflowingMul_spec hw hn ha hb).expand
example : 2 ≤ 8 ∧ 1 ≤ 3 ∧ WF 8 3 [200, 7, 255] ∧ WF 8 3 [100, 250, 3] ∧
    II.overflowingMul 8 [200, 7, 255] [100, 250, 3] = ([32, 90, 144], true) := by decide

/-- `MIN * -1 = (MIN, true)` -/
theorem i_min_mul_neg_one {w n : Nat} (hw : 2 ≤ w) (hn : 1 ≤ n) :
    II.overflowingMul w (iMin w n) (allOnes w n) = (iMin w n, true) :=
  II.min_mul_neg_one hw hn
example : II.overflowingMul 8 [0, 0, 128] [255, 255, 255] = ([0, 0, 128], true) := by decide

/-- `x * MIN` and `MIN * x` overflow exactly when `x ∉ {0, 1}` -/
theorem i_mul_min_overflow_iff {w n : Nat} {x : List Nat} (hw : 2 ≤ w) (hn : 1 ≤ n)
    (hx : WF w n x) :
    ((II.overflowingMul w x (iMin w n)).2 = true ↔ (S w x ≠ 0 ∧ S w x ≠ 1)) ∧
    ((II.overflowingMul w (iMin w n) x).2 = true ↔ (S w x ≠ 0 ∧ S w x ≠ 1)) :=
  II.mul_min_overflow_iff hw hn hx
example : II.overflowingMul 8 [2, 0, 0] [0, 0, 128] = ([0, 0, 0], true) ∧
    II.overflowingMul 8 [1, 0, 0] [0, 0, 128] = ([0, 0, 128], false) := by decide

/-- `BInt::checked_mul` -/
theorem i_checked_mul {w n : Nat} {a b : List Nat} (hw : 2 ≤ w) (hn : 1 ≤ n)
    (ha : WF w n a) (hb : WF w n b) :
    (II.checkedMul w a b = none ↔ ¬ repS (M w n) (S w a * S w b)) ∧
    (∀ r, II.checkedMul w a b = some r → WF w n r ∧ S w r = S w a * S w b) :=
  (II.overflowingMul_spec hw hn ha hb).checked
example : 2 ≤ 8 ∧ 1 ≤ 3 ∧ WF 8 3 [200, 7, 255] ∧ WF 8 3 [100, 0, 0] ∧
    II.checkedMul 8 [200, 7, 255] [100, 0, 0] = some [32, 10, 159] ∧
    II.checkedMul 8 [200, 7, 255] [100, 250, 3] = none := by decide

/-- `BInt::wrapping_mul` (computed on the bit patterns: `from_bits(self.bits.wrapping_mul(rhs.bits))`) -/
theorem i_wrapping_mul {w n : Nat} {a b : List Nat} (ha : WF w n a) (hb : WF w n b) :
    WF w n (II.wrappingMul w a b) ∧
    S w (II.wrappingMul w a b) = wrapS (M w n) (S w a * S w b) :=
  II.wrappingMul_spec ha hb
example : WF 8 3 [200, 7, 255] ∧ WF 8 3 [100, 250, 3] ∧
    II.wrappingMul 8 [200, 7, 255] [100, 250, 3] = [32, 90, 144] := by decide

/-- `BInt::saturating_mul`: the exact product clamped into `[MIN, MAX]` -/
theorem i_saturating_mul {w n : Nat} {a b : List Nat} (hw : 2 ≤ w) (hn : 1 ≤ n)
    (ha : WF w n a) (hb : WF w n b) :
    WF w n (II.saturatingMul w a b) ∧
    S w (II.saturatingMul w a b) = Spec.clamp true (M w n) (S w a * S w b) :=
  II.saturatingMul_spec hw hn ha hb
example : 2 ≤ 8 ∧ 1 ≤ 3 ∧ WF 8 3 [200, 7, 255] ∧ WF 8 3 [100, 250, 3] ∧ WF 8 3 [100, 250, 255] ∧
    II.saturatingMul 8 [200, 7, 255] [100, 250, 3] = [0, 0, 128] ∧
    II.saturatingMul 8 [200, 7, 255] [100, 250, 255] = [255, 255, 127] := by decide

/-- saturation goes toward the sign of the exact product -/
theorem i_saturating_mul_side {w n : Nat} {a b : List Nat} (hw : 2 ≤ w) (hn : 1 ≤ n)
    (ha : WF w n a) (hb : WF w n b) (hov : ¬ repS (M w n) (S w a * S w b)) :
    (0 < S w a * S w b → II.saturatingMul w a b = iMax w n) ∧
    (S w a * S w b < 0 → II.saturatingMul w a b = iMin w n) :=
  II.saturatingMul_side hw hn ha hb hov

/-- `BInt::strict_mul` -/
theorem i_strict_mul {w n : Nat} {a b : List Nat} (hw : 2 ≤ w) (hn : 1 ≤ n)
    (ha : WF w n a) (hb : WF w n b) :
    (II.strictMul w a b = Outcome.panic ↔ ¬ repS (M w n) (S w a * S w b)) ∧
    (∀ r, II.strictMul w a b = Outcome.ok r → WF w n r ∧ S w r = S w a * S w b) :=
  (II.overflowingMul_spec hw hn ha hb).strict
example : 2 ≤ 8 ∧ 1 ≤ 3 ∧ WF 8 3 [200, 7, 255] ∧ WF 8 3 [100, 250, 3] ∧
    II.strictMul 8 [200, 7, 255] [100, 250, 3] = Outcome.panic := by decide

/-- `BInt::mul` / `impl Mul` -/
theorem i_mul {w n : Nat} {a b : List Nat} (hw : 2 ≤ w) (hn : 1 ≤ n)
    (ha : WF w n a) (hb : WF w n b) (dbg : Bool) :
    (II.mul w dbg a b = Outcome.panic ↔ (dbg = true ∧ ¬ repS (M w n) (S w a * S w b))) ∧
    (∀ r, II.mul w dbg a b = Outcome.ok r →
      WF w n r ∧ S w r = wrapS (M w n) (S w a * S w b) ∧
      (dbg = true → S w r = S w a * S w b)) :=
  II.mul_spec hw hn ha hb dbg
example : 2 ≤ 8 ∧ 1 ≤ 3 ∧ WF 8 3 [200, 7, 255] ∧ WF 8 3 [100, 250, 3] ∧
    II.mul 8 true [200, 7, 255] [100, 250, 3] = Outcome.panic ∧
    II.mul 8 false [200, 7, 255] [100, 250, 3] = Outcome.ok [32, 90, 144] := by decide

/-- `*`, `*=` by value / by reference on `BInt<N>` are the inherent `mul` (see `i_mul`) -/
theorem i_mul_operator_forms (w n : Nat) (dbg : Bool) (a b : List Nat) :
    Ops.mul_vv (Ops.bint w n) dbg a b = II.mul w dbg a b ∧
    Ops.mul_vr (Ops.bint w n) dbg a b = II.mul w dbg a b ∧
    Ops.mul_rv (Ops.bint w n) dbg a b = II.mul w dbg a b ∧
    Ops.mul_rr (Ops.bint w n) dbg a b = II.mul w dbg a b ∧
    Ops.mulAssign (Ops.bint w n) dbg a b = II.mul w dbg a b ∧
    Ops.mulAssignRef (Ops.bint w n) dbg a b = II.mul w dbg a b :=
  Ops.mul_forms_bint w n dbg a b
example : Ops.mulAssignRef (Ops.bint 8 3) true [200, 7, 255] [100, 250, 3] = Outcome.panic ∧
    Ops.mul_rr (Ops.bint 8 3) false [200, 7, 255] [100, 250, 3] = Outcome.ok [32, 90, 144] := by
  decide

/-- non-vacuity of `i_saturating_mul_side`: both saturation directions occur -/
example : ¬ repS (M 8 3) (S 8 [200, 7, 255] * S 8 [100, 250, 3]) ∧
    S 8 [200, 7, 255] * S 8 [100, 250, 3] < 0 ∧
    II.saturatingMul 8 [200, 7, 255] [100, 250, 3] = iMin 8 3 ∧
    ¬ repS (M 8 3) (S 8 [200, 7, 255] * S 8 [100, 250, 255]) ∧
    0 < S 8 [200, 7, 255] * S 8 [100, 250, 255] ∧
    II.saturatingMul 8 [200, 7, 255] [100, 250, 255] = iMax 8 3 := by decide

end Bnum.C02
