/-
  C07 — "For every bnum integer type and all a, b, the results of ==, !=, <, <=, >, >=, cmp,
  partial_cmp, min, max and clamp are those of comparing the denoted integers (two's complement for
  signed types), so the order is total and consistent with arithmetic; two values are equal exactly
  when their digit arrays are identical, and equal values hash equally. signum, is_positive and
  is_negative report the sign of the denoted value, with zero neither positive nor negative."

  All theorems: every digit width `w ≥ 1` (`signum`: `w ≥ 2`), every digit count `n ≥ 1`, all
  well-formed `a`, `b`.  The `Ord` trait forms have their own statements (`*_ord_*`), the order axioms
  (total, antisymmetric on digit arrays, transitive, `cmp` antisymmetric) are `*_total_order`, the
  hash-table view of Hash/Eq coherence is `*_hash_lookup_iff`.  `U` = denoted natural (unsigned types), `S` = denoted two's-complement
  integer (signed types).  Since `cmp` *is* `compare` on the denoted integers, totality,
  antisymmetry, transitivity and consistency with arithmetic are inherited from `Nat` / `Int`.
-/
import Bnum.Lemmas.Cmp
import Bnum.Lemmas.C07Extra
namespace Bnum.C07
open Bnum

/-! ### cmp / partial_cmp -/

/-- `BUint::cmp` (and `Ord::cmp`, which forwards to it) compares the denoted naturals. -/
theorem u_cmp_spec {w n : Nat} {a b : List Nat} (ha : WF w n a) (hb : WF w n b) :
    UI.cmp a b = compare (U w a) (U w b) := UI.cmp_spec ha hb
example : WF 8 2 [0xff, 0x01] ∧ WF 8 2 [0x00, 0x02] := by decide

/-- `BInt::cmp` compares the denoted two's-complement integers. -/
theorem i_cmp_spec {w n : Nat} (hw : 1 ≤ w) (hn : 1 ≤ n) {a b : List Nat}
    (ha : WF w n a) (hb : WF w n b) : II.cmp w a b = compare (S w a) (S w b) :=
  II.cmp_spec hw hn ha hb
example : 1 ≤ 8 ∧ 1 ≤ 2 ∧ WF 8 2 [0xff, 0x80] ∧ WF 8 2 [0x00, 0x7f] := by decide

/-- `partial_cmp` is `Some` of the value comparison (so the order is total). -/
theorem u_partial_cmp_spec {w n : Nat} {a b : List Nat} (ha : WF w n a) (hb : WF w n b) :
    Traits.partialCmp UI.cmp a b = some (compare (U w a) (U w b)) := by
  unfold Traits.partialCmp; rw [UI.cmp_spec ha hb]
example : WF 8 2 [0xff, 0x01] ∧ WF 8 2 [0x00, 0x02] := by decide

theorem i_partial_cmp_spec {w n : Nat} (hw : 1 ≤ w) (hn : 1 ≤ n) {a b : List Nat}
    (ha : WF w n a) (hb : WF w n b) :
    Traits.partialCmp (II.cmp w) a b = some (compare (S w a) (S w b)) := by
  unfold Traits.partialCmp; rw [II.cmp_spec hw hn ha hb]
example : 1 ≤ 8 ∧ 1 ≤ 2 ∧ WF 8 2 [0xff, 0x80] ∧ WF 8 2 [0x00, 0x7f] := by decide

/-! ### equality: digit arrays identical ⇔ values equal ⇔ `eq` / `==` -/

/-- inherent `BUint::eq` ⇔ identical digit arrays ⇔ equal values. -/
theorem u_eq_iff {w n : Nat} {a b : List Nat} (ha : WF w n a) (hb : WF w n b) :
    (UI.eq a b = true ↔ a = b) ∧ (a = b ↔ U w a = U w b) :=
  ⟨UI.eq_iff a b (by rw [ha.1, hb.1]), fun h => by rw [h], U_injective ha hb⟩
example : WF 8 2 [0xff, 0x01] ∧ WF 8 2 [0xff, 0x01] := by decide

theorem i_eq_iff {w n : Nat} {a b : List Nat} (ha : WF w n a) (hb : WF w n b) :
    (II.eq a b = true ↔ a = b) ∧ (a = b ↔ S w a = S w b) :=
  ⟨UI.eq_iff a b (by rw [ha.1, hb.1]), fun h => by rw [h], Cmp.S_injective ha hb⟩
example : WF 8 2 [0xff, 0x81] ∧ WF 8 2 [0xff, 0x81] := by decide

theorem u_ne_iff {w n : Nat} {a b : List Nat} (ha : WF w n a) (hb : WF w n b) :
    UI.ne a b = true ↔ U w a ≠ U w b := by
  unfold UI.ne
  have h := UI.eq_iff_U ha hb
  cases h' : UI.eq a b <;> simp_all
example : WF 8 2 [0xff, 0x01] ∧ WF 8 2 [0xfe, 0x01] := by decide

theorem i_ne_iff {w n : Nat} {a b : List Nat} (ha : WF w n a) (hb : WF w n b) :
    II.ne a b = true ↔ S w a ≠ S w b := by
  unfold II.ne
  have h := II.eq_iff_S ha hb
  cases h' : II.eq a b <;> simp_all
example : WF 8 2 [0xff, 0x81] ∧ WF 8 2 [0xfe, 0x81] := by decide

/-- operator `==` (the derived `PartialEq` on the digit array) ⇔ equal values; `!=` its negation. -/
theorem u_op_eq_iff {w n : Nat} {a b : List Nat} (ha : WF w n a) (hb : WF w n b) :
    (Traits.opEq a b = true ↔ U w a = U w b) ∧ (Traits.opNe a b = true ↔ U w a ≠ U w b) := by
  rw [Traits.opEq_iff, Traits.opNe_iff]
  exact ⟨⟨fun h => by rw [h], U_injective ha hb⟩,
    ⟨fun h e => h (U_injective ha hb e), fun h e => h (by rw [e])⟩⟩
example : WF 8 2 [0xff, 0x01] ∧ WF 8 2 [0xfe, 0x01] := by decide

theorem i_op_eq_iff {w n : Nat} {a b : List Nat} (ha : WF w n a) (hb : WF w n b) :
    (Traits.opEq a b = true ↔ S w a = S w b) ∧ (Traits.opNe a b = true ↔ S w a ≠ S w b) := by
  rw [Traits.opEq_iff, Traits.opNe_iff]
  exact ⟨⟨fun h => by rw [h], Cmp.S_injective ha hb⟩,
    ⟨fun h e => h (Cmp.S_injective ha hb e), fun h e => h (by rw [e])⟩⟩
example : WF 8 2 [0xff, 0x81] ∧ WF 8 2 [0xfe, 0x81] := by decide

/-- Equal values hash equally.  HONESTY NOTE: `#[derive(Hash)]` feeds the hasher the digit array and
    nothing else, so the model of hashing is "any function `h` of the digit list"; with that model
    this theorem is `congrArg` after `U_injective` — its content is exactly that equal *values* have
    identical digit arrays (no redundant representations), not a statement about any hasher. -/
theorem u_hash_congr {w n : Nat} {α : Type} (h : List Nat → α) {a b : List Nat}
    (ha : WF w n a) (hb : WF w n b) (hv : U w a = U w b) :
    Traits.hashWith h a = Traits.hashWith h b := congrArg h (U_injective ha hb hv)
example : WF 8 2 [0xff, 0x01] ∧ WF 8 2 [0xff, 0x01] ∧ U 8 [0xff, 0x01] = U 8 [0xff, 0x01] := by
  decide

theorem i_hash_congr {w n : Nat} {α : Type} (h : List Nat → α) {a b : List Nat}
    (ha : WF w n a) (hb : WF w n b) (hv : S w a = S w b) :
    Traits.hashWith h a = Traits.hashWith h b := congrArg h (Cmp.S_injective ha hb hv)
example : WF 8 2 [0xff, 0x81] ∧ WF 8 2 [0xff, 0x81] := by decide

/-! ### lt / le / gt / ge (inherent fns and the `<`,`<=`,`>`,`>=` operators) -/

theorem u_order {w n : Nat} {a b : List Nat} (ha : WF w n a) (hb : WF w n b) :
    (CmpImpl.lt UI.cmp a b = true ↔ U w a < U w b) ∧ (CmpImpl.le UI.cmp a b = true ↔ U w a ≤ U w b) ∧
    (CmpImpl.gt UI.cmp a b = true ↔ U w b < U w a) ∧ (CmpImpl.ge UI.cmp a b = true ↔ U w b ≤ U w a) := by
  have hc := UI.cmp_spec ha hb
  unfold CmpImpl.lt CmpImpl.le CmpImpl.gt CmpImpl.ge
  rw [hc]
  rcases h : compare (U w a) (U w b) with _ | _ | _
  · rw [Nat.compare_eq_lt] at h; simp; omega
  · rw [Nat.compare_eq_eq] at h; simp; omega
  · rw [Nat.compare_eq_gt] at h; simp; omega
example : WF 8 2 [0xff, 0x01] ∧ WF 8 2 [0x00, 0x02] := by decide

theorem i_order {w n : Nat} (hw : 1 ≤ w) (hn : 1 ≤ n) {a b : List Nat}
    (ha : WF w n a) (hb : WF w n b) :
    (CmpImpl.lt (II.cmp w) a b = true ↔ S w a < S w b) ∧
    (CmpImpl.le (II.cmp w) a b = true ↔ S w a ≤ S w b) ∧
    (CmpImpl.gt (II.cmp w) a b = true ↔ S w b < S w a) ∧
    (CmpImpl.ge (II.cmp w) a b = true ↔ S w b ≤ S w a) := by
  have hc := II.cmp_spec hw hn ha hb
  unfold CmpImpl.lt CmpImpl.le CmpImpl.gt CmpImpl.ge
  rw [hc]
  rcases h : compare (S w a) (S w b) with _ | _ | _
  · rw [Int.compare_eq_lt] at h; simp; omega
  · rw [Int.compare_eq_eq] at h; simp; omega
  · rw [Int.compare_eq_gt] at h; simp; omega
example : 1 ≤ 8 ∧ 1 ≤ 2 ∧ WF 8 2 [0xff, 0x80] ∧ WF 8 2 [0x00, 0x7f] := by decide

/-- the comparison operators (`PartialOrd` defaults through `partial_cmp`) coincide with the
    inherent functions, for any `cmp`. -/
theorem op_order_eq (cmp : List Nat → List Nat → Ordering) (a b : List Nat) :
    Traits.opLt cmp a b = CmpImpl.lt cmp a b ∧ Traits.opLe cmp a b = CmpImpl.le cmp a b ∧
    Traits.opGt cmp a b = CmpImpl.gt cmp a b ∧ Traits.opGe cmp a b = CmpImpl.ge cmp a b :=
  ⟨Traits.opLt_eq cmp a b, Traits.opLe_eq cmp a b, Traits.opGt_eq cmp a b, Traits.opGe_eq cmp a b⟩

/-! ### min / max / clamp.  To use the generic `CmpImpl` lemmas (which need `cmp = compare ∘ value`
    for *all* arguments) we restrict `cmp` to well-formed arguments pointwise. -/

theorem u_max_spec {w n : Nat} {a b : List Nat} (ha : WF w n a) (hb : WF w n b) :
    CmpImpl.max UI.cmp a b = (if U w a ≤ U w b then b else a) ∧
    U w (CmpImpl.max UI.cmp a b) = max (U w a) (U w b) := by
  have hc := UI.cmp_spec ha hb
  unfold CmpImpl.max; rw [hc]
  rcases h : compare (U w a) (U w b) with _ | _ | _
  · rw [Nat.compare_eq_lt] at h
    simp only [if_pos (Nat.le_of_lt h)]; exact ⟨trivial, by omega⟩
  · rw [Nat.compare_eq_eq] at h
    simp only [if_pos (Nat.le_of_eq h)]; exact ⟨trivial, by omega⟩
  · rw [Nat.compare_eq_gt] at h
    simp only [if_neg (Nat.not_le.mpr h)]; exact ⟨trivial, by omega⟩
example : WF 8 2 [0xff, 0x01] ∧ WF 8 2 [0x00, 0x02] := by decide

theorem u_min_spec {w n : Nat} {a b : List Nat} (ha : WF w n a) (hb : WF w n b) :
    CmpImpl.min UI.cmp a b = (if U w a ≤ U w b then a else b) ∧
    U w (CmpImpl.min UI.cmp a b) = min (U w a) (U w b) := by
  have hc := UI.cmp_spec ha hb
  unfold CmpImpl.min; rw [hc]
  rcases h : compare (U w a) (U w b) with _ | _ | _
  · rw [Nat.compare_eq_lt] at h
    simp only [if_pos (Nat.le_of_lt h)]; exact ⟨trivial, by omega⟩
  · rw [Nat.compare_eq_eq] at h
    simp only [if_pos (Nat.le_of_eq h)]; exact ⟨trivial, by omega⟩
  · rw [Nat.compare_eq_gt] at h
    simp only [if_neg (Nat.not_le.mpr h)]; exact ⟨trivial, by omega⟩
example : WF 8 2 [0xff, 0x01] ∧ WF 8 2 [0x00, 0x02] := by decide

theorem i_max_spec {w n : Nat} (hw : 1 ≤ w) (hn : 1 ≤ n) {a b : List Nat}
    (ha : WF w n a) (hb : WF w n b) :
    CmpImpl.max (II.cmp w) a b = (if S w a ≤ S w b then b else a) ∧
    S w (CmpImpl.max (II.cmp w) a b) = max (S w a) (S w b) := by
  have hc := II.cmp_spec hw hn ha hb
  unfold CmpImpl.max; rw [hc]
  rcases h : compare (S w a) (S w b) with _ | _ | _
  · rw [Int.compare_eq_lt] at h
    simp only [if_pos (Int.le_of_lt h)]; exact ⟨trivial, by omega⟩
  · rw [Int.compare_eq_eq] at h
    simp only [if_pos (Int.le_of_eq h)]; exact ⟨trivial, by omega⟩
  · rw [Int.compare_eq_gt] at h
    simp only [if_neg (Int.not_le.mpr h)]; exact ⟨trivial, by omega⟩
example : 1 ≤ 8 ∧ 1 ≤ 2 ∧ WF 8 2 [0xff, 0x80] ∧ WF 8 2 [0x00, 0x7f] := by decide

theorem i_min_spec {w n : Nat} (hw : 1 ≤ w) (hn : 1 ≤ n) {a b : List Nat}
    (ha : WF w n a) (hb : WF w n b) :
    CmpImpl.min (II.cmp w) a b = (if S w a ≤ S w b then a else b) ∧
    S w (CmpImpl.min (II.cmp w) a b) = min (S w a) (S w b) := by
  have hc := II.cmp_spec hw hn ha hb
  unfold CmpImpl.min; rw [hc]
  rcases h : compare (S w a) (S w b) with _ | _ | _
  · rw [Int.compare_eq_lt] at h
    simp only [if_pos (Int.le_of_lt h)]; exact ⟨trivial, by omega⟩
  · rw [Int.compare_eq_eq] at h
    simp only [if_pos (Int.le_of_eq h)]; exact ⟨trivial, by omega⟩
  · rw [Int.compare_eq_gt] at h
    simp only [if_neg (Int.not_le.mpr h)]; exact ⟨trivial, by omega⟩
example : 1 ≤ 8 ∧ 1 ≤ 2 ∧ WF 8 2 [0xff, 0x80] ∧ WF 8 2 [0x00, 0x7f] := by decide

/-- `clamp` panics exactly when `min > max` as values, and otherwise returns `mn`, `mx` or `a`
    so that the value is the mathematical clamp `max mn (min mx a)`. -/
theorem u_clamp_spec {w n : Nat} {a mn mx : List Nat}
    (ha : WF w n a) (hmn : WF w n mn) (hmx : WF w n mx) :
    (CmpImpl.clamp UI.cmp a mn mx = .panic ↔ U w mx < U w mn) ∧
    (U w mn ≤ U w mx → ∃ r, CmpImpl.clamp UI.cmp a mn mx = .ok r ∧ WF w n r ∧
      U w r = max (U w mn) (min (U w mx) (U w a))) := by
  have h1 := (u_order hmn hmx).2.1
  have h2 := (u_order ha hmn).1
  have h3 := (u_order ha hmx).2.2.1
  unfold CmpImpl.clamp
  unfold CmpImpl.lt at h2; unfold CmpImpl.gt at h3
  have e2 : (UI.cmp a mn == Ordering.lt) = decide (U w a < U w mn) := by
    cases h : UI.cmp a mn <;> simp [h] at h2 ⊢ <;> omega
  have e3 : (UI.cmp a mx == Ordering.gt) = decide (U w mx < U w a) := by
    cases h : UI.cmp a mx <;> simp [h] at h3 ⊢ <;> omega
  rw [e2, e3]
  by_cases hle : U w mn ≤ U w mx
  · rw [h1.mpr hle]
    simp only [Bool.not_true, Bool.false_eq_true, if_false, decide_eq_true_eq]
    constructor
    · constructor
      · intro h; split_ifs at h
      · intro h; omega
    · intro _
      by_cases c1 : U w a < U w mn
      · exact ⟨mn, by simp [c1], hmn, by omega⟩
      · by_cases c2 : U w mx < U w a
        · exact ⟨mx, by simp [c1, c2], hmx, by omega⟩
        · exact ⟨a, by simp [c1, c2], ha, by omega⟩
  · have : CmpImpl.le UI.cmp mn mx = false := by
      cases hh : CmpImpl.le UI.cmp mn mx
      · rfl
      · exact absurd (h1.mp hh) hle
    rw [this]
    simp only [Bool.not_false, if_true, true_iff]
    exact ⟨by omega, fun h => absurd h hle⟩
example : WF 8 2 [0xff, 0x01] ∧ WF 8 2 [0x00, 0x01] ∧ WF 8 2 [0x00, 0x02] ∧
    U 8 [0x00, 0x01] ≤ U 8 [0x00, 0x02] := by decide

theorem i_clamp_spec {w n : Nat} (hw : 1 ≤ w) (hn : 1 ≤ n) {a mn mx : List Nat}
    (ha : WF w n a) (hmn : WF w n mn) (hmx : WF w n mx) :
    (CmpImpl.clamp (II.cmp w) a mn mx = .panic ↔ S w mx < S w mn) ∧
    (S w mn ≤ S w mx → ∃ r, CmpImpl.clamp (II.cmp w) a mn mx = .ok r ∧ WF w n r ∧
      S w r = max (S w mn) (min (S w mx) (S w a))) := by
  have h1 := (i_order hw hn hmn hmx).2.1
  have h2 := (i_order hw hn ha hmn).1
  have h3 := (i_order hw hn ha hmx).2.2.1
  unfold CmpImpl.clamp
  unfold CmpImpl.lt at h2; unfold CmpImpl.gt at h3
  have e2 : (II.cmp w a mn == Ordering.lt) = decide (S w a < S w mn) := by
    cases h : II.cmp w a mn <;> simp [h] at h2 ⊢ <;> omega
  have e3 : (II.cmp w a mx == Ordering.gt) = decide (S w mx < S w a) := by
    cases h : II.cmp w a mx <;> simp [h] at h3 ⊢ <;> omega
  rw [e2, e3]
  by_cases hle : S w mn ≤ S w mx
  · rw [h1.mpr hle]
    simp only [Bool.not_true, Bool.false_eq_true, if_false, decide_eq_true_eq]
    constructor
    · constructor
      · intro h; split_ifs at h
      · intro h; omega
    · intro _
      by_cases c1 : S w a < S w mn
      · exact ⟨mn, by simp [c1], hmn, by omega⟩
      · by_cases c2 : S w mx < S w a
        · exact ⟨mx, by simp [c1, c2], hmx, by omega⟩
        · exact ⟨a, by simp [c1, c2], ha, by omega⟩
  · have : CmpImpl.le (II.cmp w) mn mx = false := by
      cases hh : CmpImpl.le (II.cmp w) mn mx
      · rfl
      · exact absurd (h1.mp hh) hle
    rw [this]
    simp only [Bool.not_false, if_true, true_iff]
    exact ⟨by omega, fun h => absurd h hle⟩
example : 1 ≤ 8 ∧ 1 ≤ 2 ∧ WF 8 2 [0xff, 0x01] ∧ WF 8 2 [0x00, 0x81] ∧ WF 8 2 [0x00, 0x02] ∧
    S 8 [0x00, 0x81] ≤ S 8 [0x00, 0x02] := by decide

/-! ### the `Ord` trait methods (`Ord::cmp`, `Ord::max`, `Ord::min`, `Ord::clamp`): `{buint,bint}/cmp.rs`
    override all four to forward to the inherent functions, so they too compare the denoted integers -/

/-- the four `Ord` methods are the inherent functions, for any `cmp`. -/
theorem ord_forward (cmp : List Nat → List Nat → Ordering) (a b c : List Nat) :
    Traits.ordCmp cmp a b = cmp a b ∧ Traits.ordMax cmp a b = CmpImpl.max cmp a b ∧
    Traits.ordMin cmp a b = CmpImpl.min cmp a b ∧
    Traits.ordClamp cmp a b c = CmpImpl.clamp cmp a b c := ⟨rfl, rfl, rfl, rfl⟩

/-- `Ord::cmp / max / min` on `BUint`: value comparison, and the operand returned is the one the
    value order selects (ties: `max` returns the second, `min` the first — as for primitives). -/
theorem u_ord_spec {w n : Nat} {a b : List Nat} (ha : WF w n a) (hb : WF w n b) :
    Traits.ordCmp UI.cmp a b = compare (U w a) (U w b) ∧
    Traits.ordMax UI.cmp a b = (if U w a ≤ U w b then b else a) ∧
    U w (Traits.ordMax UI.cmp a b) = max (U w a) (U w b) ∧
    Traits.ordMin UI.cmp a b = (if U w a ≤ U w b then a else b) ∧
    U w (Traits.ordMin UI.cmp a b) = min (U w a) (U w b) :=
  ⟨u_cmp_spec ha hb, (u_max_spec ha hb).1, (u_max_spec ha hb).2, (u_min_spec ha hb).1,
    (u_min_spec ha hb).2⟩
example : WF 8 2 [0xff, 0x01] ∧ WF 8 2 [0x00, 0x02] := by decide

theorem i_ord_spec {w n : Nat} (hw : 1 ≤ w) (hn : 1 ≤ n) {a b : List Nat}
    (ha : WF w n a) (hb : WF w n b) :
    Traits.ordCmp (II.cmp w) a b = compare (S w a) (S w b) ∧
    Traits.ordMax (II.cmp w) a b = (if S w a ≤ S w b then b else a) ∧
    S w (Traits.ordMax (II.cmp w) a b) = max (S w a) (S w b) ∧
    Traits.ordMin (II.cmp w) a b = (if S w a ≤ S w b then a else b) ∧
    S w (Traits.ordMin (II.cmp w) a b) = min (S w a) (S w b) :=
  ⟨i_cmp_spec hw hn ha hb, (i_max_spec hw hn ha hb).1, (i_max_spec hw hn ha hb).2,
    (i_min_spec hw hn ha hb).1, (i_min_spec hw hn ha hb).2⟩
example : 1 ≤ 8 ∧ 1 ≤ 2 ∧ WF 8 2 [0xff, 0x80] ∧ WF 8 2 [0x00, 0x7f] := by decide

/-- `Ord::clamp` on `BUint`: panics exactly when `min > max`, otherwise the mathematical clamp. -/
theorem u_ord_clamp_spec {w n : Nat} {a mn mx : List Nat}
    (ha : WF w n a) (hmn : WF w n mn) (hmx : WF w n mx) :
    (Traits.ordClamp UI.cmp a mn mx = .panic ↔ U w mx < U w mn) ∧
    (U w mn ≤ U w mx → ∃ r, Traits.ordClamp UI.cmp a mn mx = .ok r ∧ WF w n r ∧
      U w r = max (U w mn) (min (U w mx) (U w a))) := u_clamp_spec ha hmn hmx
example : WF 8 2 [0xff, 0x01] ∧ WF 8 2 [0x00, 0x01] ∧ WF 8 2 [0x00, 0x02] ∧
    U 8 [0x00, 0x01] ≤ U 8 [0x00, 0x02] := by decide

theorem i_ord_clamp_spec {w n : Nat} (hw : 1 ≤ w) (hn : 1 ≤ n) {a mn mx : List Nat}
    (ha : WF w n a) (hmn : WF w n mn) (hmx : WF w n mx) :
    (Traits.ordClamp (II.cmp w) a mn mx = .panic ↔ S w mx < S w mn) ∧
    (S w mn ≤ S w mx → ∃ r, Traits.ordClamp (II.cmp w) a mn mx = .ok r ∧ WF w n r ∧
      S w r = max (S w mn) (min (S w mx) (S w a))) := i_clamp_spec hw hn ha hmn hmx
example : 1 ≤ 8 ∧ 1 ≤ 2 ∧ WF 8 2 [0xff, 0x01] ∧ WF 8 2 [0x00, 0x81] ∧ WF 8 2 [0x00, 0x02] ∧
    S 8 [0x00, 0x81] ≤ S 8 [0x00, 0x02] := by decide

/-- `clamp` returns one of its three operands unchanged (never a fresh value): `a` itself when it is
    within the bounds, else the violated bound. -/
theorem u_clamp_operand {w n : Nat} {a mn mx : List Nat}
    (ha : WF w n a) (hmn : WF w n mn) (hmx : WF w n mx) (hle : U w mn ≤ U w mx) :
    CmpImpl.clamp UI.cmp a mn mx =
      .ok (if U w a < U w mn then mn else if U w mx < U w a then mx else a) := by
  obtain ⟨r, hr, hwf, hv⟩ := (u_clamp_spec ha hmn hmx).2 hle
  rw [hr]; congr 1
  apply U_injective hwf (by split_ifs <;> assumption)
  rw [hv]; split_ifs <;> omega
example : WF 8 2 [0xff, 0x01] ∧ WF 8 2 [0x00, 0x01] ∧ WF 8 2 [0x00, 0x02] ∧
    U 8 [0x00, 0x01] ≤ U 8 [0x00, 0x02] := by decide

theorem i_clamp_operand {w n : Nat} (hw : 1 ≤ w) (hn : 1 ≤ n) {a mn mx : List Nat}
    (ha : WF w n a) (hmn : WF w n mn) (hmx : WF w n mx) (hle : S w mn ≤ S w mx) :
    CmpImpl.clamp (II.cmp w) a mn mx =
      .ok (if S w a < S w mn then mn else if S w mx < S w a then mx else a) := by
  obtain ⟨r, hr, hwf, hv⟩ := (i_clamp_spec hw hn ha hmn hmx).2 hle
  rw [hr]; congr 1
  apply Cmp.S_injective hwf (by split_ifs <;> assumption)
  rw [hv]; split_ifs <;> omega
example : 1 ≤ 8 ∧ 1 ≤ 2 ∧ WF 8 2 [0xff, 0x01] ∧ WF 8 2 [0x00, 0x81] ∧ WF 8 2 [0x00, 0x02] ∧
    S 8 [0x00, 0x81] ≤ S 8 [0x00, 0x02] := by decide

/-! ### "so the order is total and consistent with arithmetic": the order axioms, stated on the
    functions themselves (`le` = `<=`, `lt` = `<` by `op_order_eq`) -/

/-- `BUint`: `<=` is total, antisymmetric *on digit arrays*, transitive; `<` is the strict part;
    `cmp` is antisymmetric (`b.cmp(a) = a.cmp(b).reverse()`) and `Equal` exactly on identical arrays. -/
theorem u_total_order {w n : Nat} {a b c : List Nat} (ha : WF w n a) (hb : WF w n b)
    (hc : WF w n c) :
    (CmpImpl.le UI.cmp a b = true ∨ CmpImpl.le UI.cmp b a = true) ∧
    (CmpImpl.le UI.cmp a b = true → CmpImpl.le UI.cmp b a = true → a = b) ∧
    (CmpImpl.le UI.cmp a b = true → CmpImpl.le UI.cmp b c = true → CmpImpl.le UI.cmp a c = true) ∧
    (CmpImpl.lt UI.cmp a b = true ↔ CmpImpl.le UI.cmp b a = false) ∧
    UI.cmp b a = (UI.cmp a b).swap ∧
    (UI.cmp a b = .eq ↔ a = b) := by
  have hab := (u_order ha hb).2.1
  have hba := (u_order hb ha).2.1
  have hbc := (u_order hb hc).2.1
  have hac := (u_order ha hc).2.1
  have hsw : UI.cmp b a = (UI.cmp a b).swap := by
    rw [UI.cmp_spec ha hb, UI.cmp_spec hb ha]; exact C07X.nat_compare_swap _ _
  refine ⟨?_, ?_, ?_, C07X.lt_iff_not_le _ _ _ hsw, hsw, ?_⟩
  · rcases Nat.le_total (U w a) (U w b) with h | h
    · exact Or.inl (hab.mpr h)
    · exact Or.inr (hba.mpr h)
  · intro h1 h2; exact U_injective ha hb (Nat.le_antisymm (hab.mp h1) (hba.mp h2))
  · intro h1 h2; exact hac.mpr (Nat.le_trans (hab.mp h1) (hbc.mp h2))
  · rw [UI.cmp_spec ha hb, Nat.compare_eq_eq]
    exact ⟨U_injective ha hb, fun h => by rw [h]⟩
example : WF 8 2 [0xff, 0x01] ∧ WF 8 2 [0x00, 0x02] ∧ WF 8 2 [0x01, 0x02] := by decide

theorem i_total_order {w n : Nat} (hw : 1 ≤ w) (hn : 1 ≤ n) {a b c : List Nat}
    (ha : WF w n a) (hb : WF w n b) (hc : WF w n c) :
    (CmpImpl.le (II.cmp w) a b = true ∨ CmpImpl.le (II.cmp w) b a = true) ∧
    (CmpImpl.le (II.cmp w) a b = true → CmpImpl.le (II.cmp w) b a = true → a = b) ∧
    (CmpImpl.le (II.cmp w) a b = true → CmpImpl.le (II.cmp w) b c = true →
      CmpImpl.le (II.cmp w) a c = true) ∧
    (CmpImpl.lt (II.cmp w) a b = true ↔ CmpImpl.le (II.cmp w) b a = false) ∧
    II.cmp w b a = (II.cmp w a b).swap ∧
    (II.cmp w a b = .eq ↔ a = b) := by
  have hab := (i_order hw hn ha hb).2.1
  have hba := (i_order hw hn hb ha).2.1
  have hbc := (i_order hw hn hb hc).2.1
  have hac := (i_order hw hn ha hc).2.1
  have hsw : II.cmp w b a = (II.cmp w a b).swap := by
    rw [II.cmp_spec hw hn ha hb, II.cmp_spec hw hn hb ha]; exact C07X.int_compare_swap _ _
  refine ⟨?_, ?_, ?_, C07X.lt_iff_not_le _ _ _ hsw, hsw, ?_⟩
  · rcases Int.le_total (S w a) (S w b) with h | h
    · exact Or.inl (hab.mpr h)
    · exact Or.inr (hba.mpr h)
  · intro h1 h2; exact Cmp.S_injective ha hb (Int.le_antisymm (hab.mp h1) (hba.mp h2))
  · intro h1 h2; exact hac.mpr (Int.le_trans (hab.mp h1) (hbc.mp h2))
  · rw [II.cmp_spec hw hn ha hb, Int.compare_eq_eq]
    exact ⟨Cmp.S_injective ha hb, fun h => by rw [h]⟩
example : 1 ≤ 8 ∧ 1 ≤ 2 ∧ WF 8 2 [0xff, 0x80] ∧ WF 8 2 [0x00, 0x7f] ∧ WF 8 2 [0xff, 0xff] := by
  decide

/-! ### Hash / Eq coherence as a hash table sees it -/

/-- A `HashSet`/`HashMap` lookup of `b` finds the stored `a` (hashes agree and `==` holds) exactly
    when the values are equal — for every hasher `h` (any function of the digit array). -/
theorem u_hash_lookup_iff {w n : Nat} {α : Type} [BEq α] [LawfulBEq α] (h : List Nat → α)
    {a b : List Nat} (ha : WF w n a) (hb : WF w n b) :
    (Traits.hashWith h a == Traits.hashWith h b && Traits.opEq a b) = true ↔ U w a = U w b := by
  rw [Bool.and_eq_true, Traits.opEq_iff]
  constructor
  · rintro ⟨_, rfl⟩; rfl
  · intro hv
    have e := U_injective ha hb hv
    subst e; exact ⟨beq_self_eq_true _, rfl⟩
example : WF 8 2 [0xff, 0x01] ∧ WF 8 2 [0xff, 0x01] := by decide

theorem i_hash_lookup_iff {w n : Nat} {α : Type} [BEq α] [LawfulBEq α] (h : List Nat → α)
    {a b : List Nat} (ha : WF w n a) (hb : WF w n b) :
    (Traits.hashWith h a == Traits.hashWith h b && Traits.opEq a b) = true ↔ S w a = S w b := by
  rw [Bool.and_eq_true, Traits.opEq_iff]
  constructor
  · rintro ⟨_, rfl⟩; rfl
  · intro hv
    have e := Cmp.S_injective ha hb hv
    subst e; exact ⟨beq_self_eq_true _, rfl⟩
example : WF 8 2 [0xff, 0x81] ∧ WF 8 2 [0xff, 0x81] := by decide

/-! ### sign -/

/-- `is_negative` ⇔ value `< 0`. -/
theorem is_negative_iff {w n : Nat} (hw : 1 ≤ w) (hn : 1 ≤ n) {a : List Nat} (ha : WF w n a) :
    isNegative w a = true ↔ S w a < 0 := isNegative_iff' hw hn ha
example : 1 ≤ 8 ∧ 1 ≤ 2 ∧ WF 8 2 [0x00, 0x80] := by decide

/-- `is_positive` ⇔ value `> 0`; in particular zero is neither positive nor negative. -/
theorem is_positive_iff {w n : Nat} (hw : 1 ≤ w) (hn : 1 ≤ n) {a : List Nat} (ha : WF w n a) :
    II.isPositive w a = true ↔ 0 < S w a := II.isPositive_iff hw hn ha
example : 1 ≤ 8 ∧ 1 ≤ 2 ∧ WF 8 2 [0x01, 0x00] := by decide

theorem zero_neither {w n : Nat} (hw : 1 ≤ w) (hn : 1 ≤ n) {a : List Nat} (ha : WF w n a)
    (h0 : S w a = 0) : II.isPositive w a = false ∧ isNegative w a = false := by
  have h1 := II.isPositive_iff hw hn ha
  have h2 := isNegative_iff' hw hn ha
  constructor
  · cases h : II.isPositive w a
    · rfl
    · have := h1.mp h; omega
  · cases h : isNegative w a
    · rfl
    · have := h2.mp h; omega
example : 1 ≤ 8 ∧ 1 ≤ 2 ∧ WF 8 2 [0x00, 0x00] ∧ S 8 [0x00, 0x00] = 0 := by decide

/-- `signum` is well-formed and denotes `-1`, `0` or `1` according to the sign of the value. -/
theorem signum_spec {w n : Nat} (hw : 2 ≤ w) (hn : 1 ≤ n) {a : List Nat} (ha : WF w n a) :
    WF w n (II.signum w a) ∧
    S w (II.signum w a) = if S w a < 0 then -1 else if S w a = 0 then 0 else 1 :=
  II.signum_spec hw hn ha
example : 2 ≤ 8 ∧ 1 ≤ 2 ∧ WF 8 2 [0x00, 0x80] := by decide

/-- exactly one of negative / zero / positive, and the two predicates say which. -/
theorem sign_trichotomy {w n : Nat} (hw : 1 ≤ w) (hn : 1 ≤ n) {a : List Nat} (ha : WF w n a) :
    (S w a < 0 ∧ isNegative w a = true ∧ II.isPositive w a = false) ∨
    (S w a = 0 ∧ isNegative w a = false ∧ II.isPositive w a = false) ∨
    (0 < S w a ∧ isNegative w a = false ∧ II.isPositive w a = true) := by
  have h1 := II.isPositive_iff hw hn ha
  have h2 := isNegative_iff' hw hn ha
  cases hp : II.isPositive w a <;> cases hq : isNegative w a <;> rw [hp] at h1 <;> rw [hq] at h2 <;>
    simp at h1 h2 ⊢ <;> omega
example : 1 ≤ 8 ∧ 1 ≤ 3 ∧ WF 8 3 [0x00, 0x01, 0x00] := by decide

/-- `signum` agrees with the two predicates: it is `-1` / `1` / `0` exactly when the value is
    negative / positive / zero. -/
theorem signum_iff {w n : Nat} (hw : 2 ≤ w) (hn : 1 ≤ n) {a : List Nat} (ha : WF w n a) :
    (S w (II.signum w a) = -1 ↔ isNegative w a = true) ∧
    (S w (II.signum w a) = 1 ↔ II.isPositive w a = true) ∧
    (S w (II.signum w a) = 0 ↔ S w a = 0) := by
  have hs := (II.signum_spec hw hn ha).2
  have h1 := II.isPositive_iff (by omega) hn ha
  have h2 := isNegative_iff' (by omega) hn ha
  rw [h1, h2, hs]
  refine ⟨?_, ?_, ?_⟩ <;> split_ifs <;> constructor <;> intro _ <;>
    first | omega | contradiction
example : 2 ≤ 8 ∧ 1 ≤ 3 ∧ WF 8 3 [0x00, 0x01, 0x00] := by decide

end Bnum.C07
