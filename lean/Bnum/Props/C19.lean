/-
  C19 — "With the numtraits feature, FromPrimitive::from_{u8..u128, i8..i128, usize, isize} return
  Some(v) with the same numeric value exactly when it is representable in the bnum integer - for
  every width, including targets narrower than the source - and None otherwise, without panicking;
  from_f32/from_f64 return Some of the float truncated toward zero whenever the float is finite, the
  truncated value is in range and (for unsigned targets) the float is not negative, and None for
  NaN, infinities and out-of-range values. ToPrimitive::to_* return Some exactly when the value fits
  the primitive (to_f32/to_f64 always Some with the nearest float), and AsPrimitive::as_ equals the
  As cast."

  Model: Bnum/Model/NumConv.lean (`Bnum.NumC.*`), spec: Bnum/Spec/NumConv.lean, lemmas:
  Bnum/Lemmas/NumConv.lean.  Every theorem holds for EVERY digit width `w` and digit count `n ≥ 1`
  (the hypotheses say which lower bound on `w` is used: `1 ≤ w`, or `2 ≤ w` where the signed
  negation of `from_float!` is involved); nothing relates `w·n` to the width of the primitive, so
  targets narrower than the source are covered.

  Shapes (Lemmas/Cast.lean):
    `ConvOk s w n o z`  := (rep ∧ ∃ r, o = .ok (some r) ∧ WF w n r ∧ valOf s w r = z) ∨ (¬rep ∧ o = .ok none)
    `ConvOkP t o z`     := the same with a primitive pattern `q < 2^K`, `PInt.val t q = z`
  where rep = `repOf s (M w n) z` / `repOf t.signed (2^K) z` is representability in the target.

  Trusted (modelled at value level, not bnum code): the num-traits 0.2.19 default methods
  `from_u8/u16/u32 = from_u64 ∘ From::from`, `from_i8/i16/i32 = from_i64 ∘ From::from`,
  `from_usize = to_u64().and_then(from_u64)`, `from_isize = to_i64().and_then(from_i64)` on a 64-bit
  target; `u64::try_from(i64)`; primitive float predicates / negation / `to_bits`; `leading_zeros`
  and `checked_shr` of the mantissa word; `i << BIT_SHIFT = i * w`.  The float → float-free side
  (`to_f32`, `as_`) rests on the C14 model of `cast_float_from_uint` at value level.

  `AsPrimitive`: `src/int/numtraits.rs` has FOUR impl families — (a) bnum → primitive / float,
  (b) primitive / char / bool / float → bnum, (c) bnum → `BUint<M>`, (d) bnum → `BInt<M>` (same
  digit type).  Every body is a single `cast_from` call, and so is every model definition
  (`asPrim`, `asFloat`; `asFromPrim`, `asFromChar`, `asFromBool`, `asFromFloat`, `asBig` of
  Model/C19Extra.lean): the `…_eq_cast` theorems are therefore `rfl` — they record the delegation,
  they are not evidence for it.  The evidence that the Rust `AsPrimitive::as_` equals the `As` cast is
  the harness (harness/src/bin/c19.rs), which evaluates `AsPrimitive::as_`, `CastFrom::cast_from`
  and `bnum::cast::As::as_` on every `as_*` request and answers `MISMATCH(..)` unless they agree.
  The substantive theorems are the `…_spec` / `…_matches_spec` ones: the result is the source value
  modulo `2^BITS` (integers) resp. C14's truncate-and-saturate value (float sources), never a panic.
-/
import Bnum.Lemmas.NumConv
import Bnum.Lemmas.NumConvD
import Bnum.Lemmas.C19Extra
namespace Bnum.C19
open Bnum Bnum.NumC

/-! ### `FromPrimitive::from_<int>` — "Some(v) with the same numeric value exactly when it is
    representable … for every width, including targets narrower than the source … and None
    otherwise, without panicking" -/

/-- `fromPrim_spec`: all twelve primitives, both signednesses of the bnum type, all `w`, `n` -/
theorem fromPrim_spec {w n : Nat} (s : Bool) (t : PrimT) {p : Nat} (hw : 1 ≤ w) (hn : 1 ≤ n)
    (hp : p < B t.ty.bits) : ConvOk s w n (fromPrim w n s t p) (PInt.val t.ty p) :=
  NumC.fromPrim_spec s t hw hn hp
-- narrow target: `BUintD8<3>::from_u64(0xffffff)` fits, `0x1000000` does not (digit 3 rejected)
example : (1 ≤ 8 ∧ 1 ≤ 3 ∧ 0xffffff < B (PrimT.u64).ty.bits) ∧
    fromPrim 8 3 false .u64 0xffffff = .ok (some [0xff, 0xff, 0xff]) ∧
    fromPrim 8 3 false .u64 0x1000000 = .ok none := by decide

/-- `from_T v = Some x ↔ v representable` -/
theorem fromPrim_some_iff {w n : Nat} (s : Bool) (t : PrimT) {p : Nat} (hw : 1 ≤ w) (hn : 1 ≤ n)
    (hp : p < B t.ty.bits) :
    (∃ r, fromPrim w n s t p = .ok (some r)) ↔ repOf s (M w n) (PInt.val t.ty p) :=
  (fromPrim_spec s t hw hn hp).ok_iff
example : fromPrim 8 3 true .i64 0xffffffffff800000 = .ok (some [0, 0, 0x80]) ∧
    repOf true (M 8 3) (PInt.val (PrimT.i64).ty 0xffffffffff800000) := by decide

/-- `from_T v = None ↔ v not representable` -/
theorem fromPrim_none_iff {w n : Nat} (s : Bool) (t : PrimT) {p : Nat} (hw : 1 ≤ w) (hn : 1 ≤ n)
    (hp : p < B t.ty.bits) :
    fromPrim w n s t p = .ok none ↔ ¬ repOf s (M w n) (PInt.val t.ty p) :=
  (fromPrim_spec s t hw hn hp).err_iff
-- `BIntD64<1>::from_u64(u64::MAX)` is `None` (contrast with the wrapping `From<u64>`, finding F6)
example : fromPrim 64 1 true .u64 0xffffffffffffffff = .ok none := by decide

/-- value preserved -/
theorem fromPrim_value {w n : Nat} (s : Bool) (t : PrimT) {p : Nat} (hw : 1 ≤ w) (hn : 1 ≤ n)
    (hp : p < B t.ty.bits) {r : List Nat} (hr : fromPrim w n s t p = .ok (some r)) :
    WF w n r ∧ valOf s w r = PInt.val t.ty p :=
  (fromPrim_spec s t hw hn hp).value hr
example : fromPrim 64 1 true .i8 0x80 = .ok (some [0xffffffffffffff80]) := by decide

/-- never panics -/
theorem fromPrim_ne_panic {w n : Nat} (s : Bool) (t : PrimT) {p : Nat} (hw : 1 ≤ w) (hn : 1 ≤ n)
    (hp : p < B t.ty.bits) : fromPrim w n s t p ≠ .panic :=
  (fromPrim_spec s t hw hn hp).ne_panic

/-- the model answer printed by the driver is the specification's answer (`Spec.NumC.conv`) -/
theorem fromPrim_matches_spec {w n : Nat} (s : Bool) (t : PrimT) {p : Nat} (hw : 1 ≤ w)
    (hn : 1 ≤ n) (hp : p < B t.ty.bits) :
    (fromPrim w n s t p).map (Option.map (U w))
      = .ok (Spec.NumC.conv t.ty.signed (2 ^ t.ty.bits) p s (M w n)) :=
  NumC.fromPrim_matches s t hw hn hp

/-! ### `FromPrimitive::from_f32 / from_f64` — "Some of the float truncated toward zero whenever the
    float is finite, the truncated value is in range and (for unsigned targets) the float is not
    negative, and None for NaN, infinities and out-of-range values".
    `Spec.NumC.fromFloat` is exactly this case split (`.some` / `.none` / `.any` = left open);
    `FloatOk w n o ans` says the outcome `o` agrees with it. -/

/-- the whole case split at once; `F` is `fmtF32` or `fmtF64` (`Flt.valid_f32`, `Flt.valid_f64`) -/
theorem fromFloat_matches_spec {F : FloatFmt} (hF : F.Valid) {w n : Nat} (hw : 2 ≤ w) (hn : 1 ≤ n)
    (dbg : Bool) (s : Bool) {x : Nat} (hx : x < 2 ^ F.bits) :
    FloatOk w n (fromFloat dbg F w n s x) (Spec.NumC.fromFloat F.spec s (M w n) x) :=
  NumC.fromFloat_matches hF hw hn dbg s hx

/-- `fromFloat_spec`: finite, (unsigned → not negative), truncation representable ⇒ `Some(trunc f)` -/
theorem fromFloat_some {F : FloatFmt} (hF : F.Valid) {w n : Nat} (hw : 2 ≤ w) (hn : 1 ≤ n)
    (dbg : Bool) (s : Bool) {x : Nat} (hx : x < 2 ^ F.bits)
    (hfin : (Spec.isNaN F.spec x || Spec.isInf F.spec x) = false)
    (hsign : s = false → Spec.NumC.floatNegative F.spec x = false)
    (hrep : Spec.rep s (M w n) (Spec.NumC.truncFloat F.spec x) = true) :
    ∃ r, fromFloat dbg F w n s x = .ok (some r) ∧ WF w n r ∧
      valOf s w r = Spec.NumC.truncFloat F.spec x := by
  have h := fromFloat_matches_spec hF hw hn dbg s hx
  have hc : (!s && Spec.NumC.floatNegative F.spec x) = false := by
    cases s
    · simp [hsign rfl]
    · rfl
  unfold Spec.NumC.fromFloat at h
  simp only [hfin, hrep, hc, Bool.false_eq_true, if_false, Bool.not_true] at h
  obtain ⟨r, h1, h2, h3⟩ := h
  refine ⟨r, h1, h2, ?_⟩
  have hr : repOf s (M w n) (Spec.NumC.truncFloat F.spec x) := by
    rw [rep_eq_decide] at hrep; exact of_decide_eq_true hrep
  have := U_eq_wrapU_valOf s h2
  rw [h3] at this
  generalize Spec.NumC.truncFloat F.spec x = z at *
  unfold valOf repOf at *
  cases s
  · simp only [Bool.false_eq_true, if_false] at hr this ⊢
    have := wrapU_of_rep hr; omega
  · simp only [if_true] at hr ⊢
    rw [S_eq h2, h3]; exact wrapS_of_rep (M_pos w n) hr
-- 255.9f32 → `Some(255)` in 8 bits unsigned; -1.5f32 → `Some(-1)` in 8 bits signed
example : fromFloat true fmtF32 8 1 false 0x437fe666 = .ok (some [0xff]) ∧
    fromFloat true fmtF32 8 1 true 0xbfc00000 = .ok (some [0xff]) := by decide

/-- NaN and ±∞ ⇒ `None` -/
theorem fromFloat_nan_inf {F : FloatFmt} (hF : F.Valid) {w n : Nat} (hw : 2 ≤ w) (hn : 1 ≤ n)
    (dbg : Bool) (s : Bool) {x : Nat} (hx : x < 2 ^ F.bits)
    (h : (Spec.isNaN F.spec x || Spec.isInf F.spec x) = true) :
    fromFloat dbg F w n s x = .ok none := by
  have hm := fromFloat_matches_spec hF hw hn dbg s hx
  unfold Spec.NumC.fromFloat at hm
  rw [if_pos h] at hm
  exact hm
example : fromFloat true fmtF32 8 3 true 0x7fc00000 = .ok none ∧
    fromFloat true fmtF32 8 3 true 0xff800000 = .ok none := by decide

/-- finite but `trunc f` out of range ⇒ `None` (in particular every float `≤ -1` for unsigned
    targets, and `±2^BITS` boundaries) -/
theorem fromFloat_out_of_range {F : FloatFmt} (hF : F.Valid) {w n : Nat} (hw : 2 ≤ w) (hn : 1 ≤ n)
    (dbg : Bool) (s : Bool) {x : Nat} (hx : x < 2 ^ F.bits)
    (hfin : (Spec.isNaN F.spec x || Spec.isInf F.spec x) = false)
    (hrep : Spec.rep s (M w n) (Spec.NumC.truncFloat F.spec x) = false) :
    fromFloat dbg F w n s x = .ok none := by
  have hm := fromFloat_matches_spec hF hw hn dbg s hx
  unfold Spec.NumC.fromFloat at hm
  simp only [hfin, hrep, Bool.false_eq_true, if_false, Bool.not_false, if_true] at hm
  exact hm
-- 256.0f32 into 8 unsigned bits, 128.0f32 into 8 signed bits, -129.0f32 into 8 signed bits
example : fromFloat true fmtF32 8 1 false 0x43800000 = .ok none ∧
    fromFloat true fmtF32 8 1 true 0x43000000 = .ok none ∧
    fromFloat true fmtF32 8 1 true 0xc3010000 = .ok none ∧
    fromFloat true fmtF32 8 1 true 0xc3000000 = .ok (some [0x80]) := by decide

/-- never panics — also on the inputs the property leaves open (`-1 < f < 0`, unsigned target) -/
theorem fromFloat_ne_panic {F : FloatFmt} (hF : F.Valid) {w n : Nat} (hw : 2 ≤ w) (hn : 1 ≤ n)
    (dbg : Bool) (s : Bool) {x : Nat} (hx : x < 2 ^ F.bits) :
    fromFloat dbg F w n s x ≠ .panic := by
  have hm := fromFloat_matches_spec hF hw hn dbg s hx
  generalize Spec.NumC.fromFloat F.spec s (M w n) x = a at hm
  cases a with
  | some pat => obtain ⟨r, h, _⟩ := hm; rw [h]; intro hc; cases hc
  | none => change _ = _ at hm; rw [hm]; intro hc; cases hc
  | any => exact hm

/-- what the current tree does on the open inputs: a non-zero negative float into an unsigned
    target is `None` (so `-0.5 ↦ None`, although `trunc(-0.5) = 0` is representable) -/
theorem fromFloat_unsigned_negative {F : FloatFmt} (hF : F.Valid) (w n : Nat) (dbg : Bool)
    {x : Nat} (hx : x < 2 ^ F.bits) (hfin : (Spec.isNaN F.spec x || Spec.isInf F.spec x) = false)
    (hneg : Spec.NumC.floatNegative F.spec x = true) :
    fromFloat dbg F w n false x = .ok none := by
  rw [floatNegative_eq hF hx] at hneg
  simp only [Bool.and_eq_true, decide_eq_true_eq] at hneg
  simp only [Bool.or_eq_false_iff] at hfin
  exact UI.fromFloat_neg hF w n dbg hx hfin.1 hfin.2 hneg.2 hneg.1
example : fromFloat true fmtF32 8 3 false 0xbf000000 = .ok none ∧            -- -0.5
    fromFloat true fmtF32 8 3 false 0x80000000 = .ok (some [0, 0, 0]) := by decide   -- -0.0

/-! ### `ToPrimitive::to_<int>` — "return Some exactly when the value fits the primitive" -/

/-- `toPrim_spec`.  `hdiv`: the primitive is narrower than a digit, or a whole number of digits
    (true for every pair of real types: widths are powers of two) -/
theorem toPrim_spec {w n : Nat} {x : List Nat} (s : Bool) (t : PTy) (hw : 1 ≤ w) (hn : 1 ≤ n)
    (hk : 1 ≤ t.bits) (hdiv : t.bits < w ∨ ∃ c, t.bits = c * w) (hx : WF w n x) :
    ConvOkP t (toPrim w s x t) (valOf s w x) :=
  NumC.toPrim_spec s t hw hn hk hdiv hx
example : (1 ≤ 8 ∧ 1 ≤ 3 ∧ ((8 : Nat) < 8 ∨ ∃ c, c < 2 ∧ 8 = c * 8)) ∧ WF 8 3 [0x80, 0xff, 0xff] ∧
    toPrim 8 true [0x80, 0xff, 0xff] ⟨8, true⟩ = .ok (some 0x80) ∧
    toPrim 8 true [0x7f, 0xff, 0xff] ⟨8, true⟩ = .ok none := by decide

theorem toPrim_some_iff {w n : Nat} {x : List Nat} (s : Bool) (t : PTy) (hw : 1 ≤ w) (hn : 1 ≤ n)
    (hk : 1 ≤ t.bits) (hdiv : t.bits < w ∨ ∃ c, t.bits = c * w) (hx : WF w n x) :
    (∃ q, toPrim w s x t = .ok (some q)) ↔ repOf t.signed (B t.bits) (valOf s w x) :=
  (toPrim_spec s t hw hn hk hdiv hx).ok_iff

theorem toPrim_value {w n : Nat} {x : List Nat} (s : Bool) (t : PTy) (hw : 1 ≤ w) (hn : 1 ≤ n)
    (hk : 1 ≤ t.bits) (hdiv : t.bits < w ∨ ∃ c, t.bits = c * w) (hx : WF w n x) {q : Nat}
    (hq : toPrim w s x t = .ok (some q)) : q < B t.bits ∧ PInt.val t q = valOf s w x :=
  (toPrim_spec s t hw hn hk hdiv hx).value hq

theorem toPrim_ne_panic {w n : Nat} {x : List Nat} (s : Bool) (t : PTy) (hw : 1 ≤ w) (hn : 1 ≤ n)
    (hk : 1 ≤ t.bits) (hdiv : t.bits < w ∨ ∃ c, t.bits = c * w) (hx : WF w n x) :
    toPrim w s x t ≠ .panic :=
  (toPrim_spec s t hw hn hk hdiv hx).ne_panic

/-- the model answer is the specification's answer -/
theorem toPrim_matches_spec {w n : Nat} {x : List Nat} (s : Bool) (t : PTy) (hw : 1 ≤ w)
    (hn : 1 ≤ n) (hk : 1 ≤ t.bits) (hdiv : t.bits < w ∨ ∃ c, t.bits = c * w) (hx : WF w n x) :
    toPrim w s x t = .ok (Spec.NumC.conv s (M w n) (U w x) t.signed (2 ^ t.bits)) :=
  NumC.toPrim_matches s t hw hn hk hdiv hx

/-- `to_int!` / `to_uint!` are the `TryFrom<bnum> for primitive` bodies of C13 -/
theorem toPrim_eq_tryFrom (w : Nat) (s : Bool) (x : List Nat) (t : PTy) :
    toPrim w s x t = tryToPrim w s x t := NumC.toPrim_eq w s x t

/-! ### `to_f32` / `to_f64` — "always Some with the nearest float" (nearest = C14's `intToFloat`:
    round to nearest, ties to even, ±∞ on overflow; `Flt.rne_nearest*` in Lemmas/Float.lean) -/

theorem toFloat_spec {F : FloatFmt} (hF : F.Valid) {w n : Nat} {x : List Nat} (s : Bool)
    (hw : 1 ≤ w) (hn : 1 ≤ n) (dbg : Bool) (hx : WF w n x) :
    toFloat dbg F w s x = .ok (some (Spec.intToFloat F.spec (valOf s w x))) :=
  NumC.toFloat_spec hF s hw hn dbg hx
example : toFloat true fmtF32 8 true [0x01, 0x00, 0x80] = .ok (some 0xcafffffe) := by decide

/-- `to_f32` / `to_f64` are `Some(self.as_())` -/
theorem toFloat_eq_some_as (dbg : Bool) (F : FloatFmt) (w : Nat) (s : Bool) (x : List Nat) :
    toFloat dbg F w s x = (asFloat dbg F w s x).map some := NumC.toFloat_eq_as dbg F w s x

/-! ### `AsPrimitive::as_` — "equals the As cast" -/

/-- integer targets: `as_` is definitionally the `CastFrom` impl of C09 … -/
theorem as_eq_cast (w : Nat) (s : Bool) (x : List Nat) (t : PTy) :
    asPrim w s x t = castToPrim w s x t := rfl
/-- … hence the value modulo `2^K`, never panicking -/
theorem as_spec {w n : Nat} {x : List Nat} (s : Bool) (hw : 1 ≤ w) (hn : 1 ≤ n) (hx : WF w n x)
    (t : PTy) : asPrim w s x t = .ok (wrapU (B t.bits) (valOf s w x)) :=
  NumC.asPrim_spec s hw hn hx t
example : asPrim 8 true [0x01, 0x00, 0x80] ⟨8, false⟩ = .ok 1 := by decide

/-- float targets: `as_` is the C14 cast (`CastFrom<BUint/BInt> for f32/f64`) -/
theorem as_float_eq_cast (dbg : Bool) (F : FloatFmt) (w : Nat) (x : List Nat) :
    asFloat dbg F w false x = Flt.floatFromBUint F (w * x.length) dbg (U w x) ∧
    asFloat dbg F w true x = Flt.floatFromBInt F (w * x.length) dbg (U w x) := ⟨rfl, rfl⟩
theorem as_float_spec {F : FloatFmt} (hF : F.Valid) {w n : Nat} {x : List Nat} (s : Bool)
    (hw : 1 ≤ w) (hn : 1 ≤ n) (dbg : Bool) (hx : WF w n x) :
    asFloat dbg F w s x = .ok (Spec.intToFloat F.spec (valOf s w x)) :=
  NumC.asFloat_spec hF s hw hn dbg hx

/-- the model answer printed by the driver for `as_<int>` is the specification's answer -/
theorem as_matches_spec {w n : Nat} {x : List Nat} (s : Bool) (hw : 1 ≤ w) (hn : 1 ≤ n)
    (hx : WF w n x) (t : PTy) :
    asPrim w s x t = .ok (Spec.cast s (M w n) (U w x) (2 ^ t.bits)) := by
  rw [as_spec s hw hn hx t]; unfold Spec.cast; rw [NumC.valueOf_digits s hx]; rfl
example : WF 8 3 [0x01, 0x00, 0x80] ∧
    asPrim 8 true [0x01, 0x00, 0x80] ⟨16, true⟩ = .ok 1 ∧
    asPrim 8 true [0x01, 0x80, 0xff] ⟨64, false⟩ = .ok 0xffffffffffff8001 := by decide

/-! ### the other `AsPrimitive` impl families of `src/int/numtraits.rs` (Model/C19Extra.lean)

  (b) `impl AsPrimitive<$Big<N>> for u8 … i128, usize, isize, char, bool, f32, f64`
      (`as_bigint_impl!`, l.28-42,164): `$Big::cast_from(self)`;
  (c) `impl AsPrimitive<$BUint<M>> for $Int<N>` (l.166-171), (d) `impl AsPrimitive<$BInt<M>> for
      $Int<N>` (l.173-178): `…::<M>::cast_from(self)`, both sides of the same digit type. -/

/-- (b), integer sources: `as_` is the `as_buint!` / `as_bint!` cast of C09 … -/
theorem as_from_prim_eq_cast (w n : Nat) (s : Bool) (t : PTy) (p : Nat) :
    asFromPrim w n s t p = castFromPrim w n s t p := rfl
/-- … hence: never panics, `n` well-formed digits, pattern = the primitive's VALUE modulo `2^(w·n)`
    (zero-extension of unsigned, sign-extension of signed sources, truncation when narrower) -/
theorem as_from_prim_spec {w n : Nat} {t : PTy} {p : Nat} (s : Bool) (hn : 1 ≤ n)
    (hk : 1 ≤ t.bits) (hp : p < B t.bits) :
    CastOk w n (asFromPrim w n s t p) (PInt.val t p) := NumC.asFromPrim_spec s hn hk hp
-- `(-2i8).as_()` into 32 bits of u16 digits sign-extends; `0x1234u16.as_()` into 8 bits truncates
example : ((1 : Nat) ≤ 2 ∧ 1 ≤ (⟨8, true⟩ : PTy).bits ∧ (0xfe : Nat) < B 8) ∧
    asFromPrim 16 2 false ⟨8, true⟩ 0xfe = .ok [0xfffe, 0xffff] ∧
    asFromPrim 8 1 true ⟨16, false⟩ 0x1234 = .ok [0x34] := by decide

/-- a primitive value that the target can represent is preserved -/
theorem as_from_prim_value {w n : Nat} {t : PTy} {p : Nat} (s : Bool) (hn : 1 ≤ n)
    (hk : 1 ≤ t.bits) (hp : p < B t.bits)
    (hrep : if s then repS (M w n) (PInt.val t p) else repU (M w n) (PInt.val t p)) :
    ∃ r, asFromPrim w n s t p = .ok r ∧ WF w n r ∧ valOf s w r = PInt.val t p :=
  (as_from_prim_spec s hn hk hp).value s hrep
example : repS (M 8 3) (PInt.val ⟨64, true⟩ 0xffffffffffff8000) ∧
    asFromPrim 8 3 true ⟨64, true⟩ 0xffffffffffff8000 = .ok [0x00, 0x80, 0xff] := by decide

theorem as_from_prim_ne_panic {w n : Nat} {t : PTy} {p : Nat} (s : Bool) (hn : 1 ≤ n)
    (hk : 1 ≤ t.bits) (hp : p < B t.bits) : asFromPrim w n s t p ≠ .panic :=
  (as_from_prim_spec s hn hk hp).ne_panic

/-- the printed model answer is the specification's answer (`Spec.cast`) -/
theorem as_from_prim_matches_spec {w n : Nat} {t : PTy} {p : Nat} (s : Bool) (hn : 1 ≤ n)
    (hk : 1 ≤ t.bits) (hp : p < B t.bits) :
    (asFromPrim w n s t p).map (U w) = .ok (Spec.cast t.signed (2 ^ t.bits) p (M w n)) :=
  NumC.asFromPrim_matches s hn hk hp

/-- (b), `char`: the code point modulo `2^BITS`; `as_` is `CastFrom<char>` -/
theorem as_from_char_spec {w n c : Nat} (s : Bool) (hn : 1 ≤ n) (hc : c < B 32) :
    CastOk w n (asFromChar w n s c) (c : Int) ∧
    (asFromChar w n s c).map (U w) = .ok (Spec.cast false (2 ^ 32) c (M w n)) ∧
    asFromChar w n s c = (if s then II.castFromChar w n c else UI.castFromChar w n c) :=
  ⟨NumC.asFromChar_spec s hn hc, NumC.asFromChar_matches s hn hc, rfl⟩
example : ((1 : Nat) ≤ 2 ∧ (0x10ffff : Nat) < B 32) ∧
    asFromChar 8 2 false 0x10ffff = .ok [0xff, 0xff] ∧
    asFromChar 8 3 true 0x10ffff = .ok [0xff, 0xff, 0x10] := by decide

/-- (b), `bool`: `true ↦ 1`, `false ↦ 0` (total: cannot panic); `as_` is `CastFrom<bool>` -/
theorem as_from_bool_spec {w n : Nat} (s : Bool) (hw : 1 ≤ w) (hn : 1 ≤ n) (b : Bool) :
    WF w n (asFromBool n s b) ∧ U w (asFromBool n s b) = b.toNat ∧
    U w (asFromBool n s b) = Spec.cast false 2 b.toNat (M w n) ∧
    asFromBool n s b = (if s then II.castFromBool n b else UI.castFromBool n b) :=
  ⟨(NumC.asFromBool_spec s hw hn b).1, (NumC.asFromBool_spec s hw hn b).2,
   NumC.asFromBool_matches s hw hn b, rfl⟩
example : asFromBool 3 true true = [1, 0, 0] ∧ asFromBool 2 false false = [0, 0] := by decide

/-- (b), `f32` / `f64`: `as_` is the digit-level `CastFrom<f32/f64>` of C14 … -/
theorem as_from_float_eq_cast (dbg : Bool) (F : FloatFmt) (w n : Nat) (x : Nat) :
    asFromFloat dbg F w n false x = FltD.buintFromFloat F dbg w n x ∧
    asFromFloat dbg F w n true x = FltD.bintFromFloat F dbg w n x := ⟨rfl, rfl⟩
/-- … hence in both build modes: no panic, well-formed digits, NaN ↦ 0, ±∞ / out of range ↦
    saturation, otherwise truncation toward zero (`Spec.floatToInt`) -/
theorem as_from_float_spec {F : FloatFmt} (hF : F.Valid) (dbg : Bool) {w n : Nat} (hw : 2 ≤ w)
    (hn : 1 ≤ n) (s : Bool) {x : Nat} (hx : x < 2 ^ F.bits) :
    ∃ r, asFromFloat dbg F w n s x = .ok r ∧ WF w n r ∧
      U w r = Spec.floatToInt F.spec s (M w n) x := NumC.asFromFloat_spec hF dbg hw hn s hx
-- `(-2.5f32).as_()` = -2 in 16 signed bits and 0 in 16 unsigned bits; `256.0f32` saturates 8 bits
example : ((2 : Nat) ≤ 8 ∧ (1 : Nat) ≤ 2 ∧ (0xc0200000 : Nat) < 2 ^ fmtF32.bits) ∧
    asFromFloat false fmtF32 8 2 true 0xc0200000 = .ok [0xfe, 0xff] ∧
    asFromFloat true fmtF32 8 2 false 0xc0200000 = .ok [0, 0] ∧
    asFromFloat true fmtF32 8 1 false 0x43800000 = .ok [0xff] := by decide

theorem as_from_float_matches_spec {F : FloatFmt} (hF : F.Valid) (dbg : Bool) {w n : Nat}
    (hw : 2 ≤ w) (hn : 1 ≤ n) (s : Bool) {x : Nat} (hx : x < 2 ^ F.bits) :
    (asFromFloat dbg F w n s x).map (U w) = .ok (Spec.floatToInt F.spec s (M w n) x) :=
  NumC.asFromFloat_matches hF dbg hw hn s hx

/-- (c), (d): `as_` between two bnum types of one digit type is the same-digit `CastFrom` of C09 … -/
theorem as_big_eq_cast (w : Nat) (s₁ : Bool) (x : List Nat) (m : Nat) (s₂ : Bool) :
    asBig w s₁ x m s₂ = castBnum w s₁ x w m s₂ ∧
    asBig w false x m false = UI.castFromU x m ∧ asBig w true x m false = UI.castFromI w x m ∧
    asBig w false x m true = II.castFromU x m ∧ asBig w true x m true = II.castFromI w x m := by
  refine ⟨rfl, ?_, ?_, ?_, ?_⟩ <;> simp [asBig, castBnum]
/-- … hence: never panics, `m` well-formed digits, pattern = the source VALUE modulo `2^(w·m)`
    (any `n`, `m ≥ 1`: widening with zero / sign extension, same size, truncation) -/
theorem as_big_spec {w n : Nat} {x : List Nat} (s₁ s₂ : Bool) {m : Nat} (hw : 1 ≤ w) (hn : 1 ≤ n)
    (hm : 1 ≤ m) (hx : WF w n x) : CastOk w m (asBig w s₁ x m s₂) (valOf s₁ w x) :=
  NumC.asBig_spec s₁ s₂ hw hn hm hx
-- `BIntD8<1>(-2).as_::<BUintD8<3>>()` sign-extends; `BUintD8<3> → BIntD8<1>` truncates
example : ((1 : Nat) ≤ 8 ∧ (1 : Nat) ≤ 1 ∧ (1 : Nat) ≤ 3) ∧ WF 8 1 [0xfe] ∧
    asBig 8 true [0xfe] 3 false = .ok [0xfe, 0xff, 0xff] ∧
    asBig 8 false [0x34, 0x12, 0xff] 1 true = .ok [0x34] := by decide

/-- a source value that the target can represent is preserved -/
theorem as_big_value {w n : Nat} {x : List Nat} (s₁ s₂ : Bool) {m : Nat} (hw : 1 ≤ w) (hn : 1 ≤ n)
    (hm : 1 ≤ m) (hx : WF w n x)
    (hrep : if s₂ then repS (M w m) (valOf s₁ w x) else repU (M w m) (valOf s₁ w x)) :
    ∃ r, asBig w s₁ x m s₂ = .ok r ∧ WF w m r ∧ valOf s₂ w r = valOf s₁ w x :=
  (as_big_spec s₁ s₂ hw hn hm hx).value s₂ hrep
example : repS (M 8 3) (valOf true 8 [0xfe]) ∧ asBig 8 true [0xfe] 3 true = .ok [0xfe, 0xff, 0xff] ∧
    valOf true 8 [0xfe, 0xff, 0xff] = valOf true 8 [0xfe] := by decide

theorem as_big_ne_panic {w n : Nat} {x : List Nat} (s₁ s₂ : Bool) {m : Nat} (hw : 1 ≤ w)
    (hn : 1 ≤ n) (hm : 1 ≤ m) (hx : WF w n x) : asBig w s₁ x m s₂ ≠ .panic :=
  (as_big_spec s₁ s₂ hw hn hm hx).ne_panic

theorem as_big_matches_spec {w n : Nat} {x : List Nat} (s₁ s₂ : Bool) {m : Nat} (hw : 1 ≤ w)
    (hn : 1 ≤ n) (hm : 1 ≤ m) (hx : WF w n x) :
    (asBig w s₁ x m s₂).map (U w) = .ok (Spec.cast s₁ (M w n) (U w x) (M w m)) :=
  NumC.asBig_matches s₁ s₂ hw hn hm hx

/-! ### digit-level float conversions (Model/NumConvD.lean, what `bnum_driver` runs)

  `from_float!` never had a value-level bnum operation (`fromFloat_digit_eq` is `rfl`: cast from the
  mantissa word = `as_buint!` loop, `<<` = `unchecked_shl_internal`, `== MIN` / `is_negative` / `-i`
  = digit scans and `negLoop`).  `to_f32` / `to_f64` / `as_` into floats used the value-level
  `cast_float_from_uint` of C14; `NumCD.toFloat` / `NumCD.asFloat` run it on the digit list
  (`bits`, `bit`, `>>`, `trailing_zeros`, `Mantissa::cast_from`, `unsigned_abs`, `is_negative` of
  Model/BitOps, Shift, Cast, AddSub).  The theorems below say the two levels return the same
  `Outcome` for every digit width `w = 2^s` (`1 ≤ s < 32`: all real digit types), every `n ≥ 1`,
  in both build modes, so every value-level theorem above transfers. -/

/-- `from_f32` / `from_f64`: the digit-level function IS the function of the theorems above -/
theorem fromFloat_digit_eq (dbg : Bool) (F : FloatFmt) (w n : Nat) (s : Bool) (f : Nat) :
    NumCD.fromFloat dbg F w n s f = fromFloat dbg F w n s f := rfl

/-- refinement: digit-level `to_f32` / `to_f64` = value-level, same `Outcome (Option _)` -/
theorem toFloat_digit_refines {F : FloatFmt} (hp : 1 ≤ F.p) {s n : Nat} (hs1 : 1 ≤ s) (hs : s < 32)
    (hn : 1 ≤ n) (dbg : Bool) (sg : Bool) {x : List Nat} (hx : WF (2 ^ s) n x) :
    NumCD.toFloat dbg F (2 ^ s) sg x = toFloat dbg F (2 ^ s) sg x :=
  NumCD.toFloat_refines hp hs1 hs hn dbg sg hx

/-- refinement: digit-level `AsPrimitive<f32/f64>::as_` = value-level, same `Outcome` -/
theorem as_float_digit_refines {F : FloatFmt} (hp : 1 ≤ F.p) {s n : Nat} (hs1 : 1 ≤ s)
    (hs : s < 32) (hn : 1 ≤ n) (dbg : Bool) (sg : Bool) {x : List Nat} (hx : WF (2 ^ s) n x) :
    NumCD.asFloat dbg F (2 ^ s) sg x = asFloat dbg F (2 ^ s) sg x :=
  NumCD.asFloat_refines hp hs1 hs hn dbg sg hx

/-- the digit-level casts themselves refine the value-level C14 casts through `U` -/
theorem float_from_bnum_digit_refines {F : FloatFmt} (hp : 1 ≤ F.p) {s n : Nat} (hs1 : 1 ≤ s)
    (hs : s < 32) (hn : 1 ≤ n) (dbg : Bool) {x : List Nat} (hx : WF (2 ^ s) n x) :
    FltD.floatFromBUint F dbg (2 ^ s) x = Flt.floatFromBUint F (2 ^ s * n) dbg (U (2 ^ s) x) ∧
    FltD.floatFromBInt F dbg (2 ^ s) x = Flt.floatFromBInt F (2 ^ s * n) dbg (U (2 ^ s) x) :=
  ⟨NumCD.floatFromBUint_refines hp hs dbg hx, NumCD.floatFromBInt_refines hp hs1 hs hn dbg hx⟩

/-- digit-level `to_f32` / `to_f64`: always `Some` of the nearest float, never panics -/
theorem toFloat_digit_spec {F : FloatFmt} (hF : F.Valid) {s n : Nat} (hs1 : 1 ≤ s) (hs : s < 32)
    (hn : 1 ≤ n) (dbg : Bool) (sg : Bool) {x : List Nat} (hx : WF (2 ^ s) n x) :
    NumCD.toFloat dbg F (2 ^ s) sg x = .ok (some (Spec.intToFloat F.spec (valOf sg (2 ^ s) x))) :=
  NumCD.toFloat_spec hF hs1 hs hn dbg sg hx
example : (1 ≤ 3 ∧ 3 < 32 ∧ 1 ≤ 3) ∧ WF (2 ^ 3) 3 [0x01, 0x00, 0x80] ∧
    NumCD.toFloat true fmtF32 (2 ^ 3) true [0x01, 0x00, 0x80] = .ok (some 0xcafffffe) ∧
    NumCD.toFloat false fmtF32 (2 ^ 3) false [0xff, 0xff, 0xff, 0x01] = .ok (some 0x4c000000) := by
  decide

/-- digit-level `as_` into a float: the C14 cast value, never panics -/
theorem as_float_digit_spec {F : FloatFmt} (hF : F.Valid) {s n : Nat} (hs1 : 1 ≤ s) (hs : s < 32)
    (hn : 1 ≤ n) (dbg : Bool) (sg : Bool) {x : List Nat} (hx : WF (2 ^ s) n x) :
    NumCD.asFloat dbg F (2 ^ s) sg x = .ok (Spec.intToFloat F.spec (valOf sg (2 ^ s) x)) :=
  NumCD.asFloat_spec hF hs1 hs hn dbg sg hx

/-- digit-level `as_` is the digit-level `CastFrom<BUint/BInt> for f32/f64`, and `to_f*` wraps it -/
theorem as_float_digit_eq_cast (dbg : Bool) (F : FloatFmt) (w : Nat) (x : List Nat) :
    NumCD.asFloat dbg F w false x = FltD.floatFromBUint F dbg w x ∧
    NumCD.asFloat dbg F w true x = FltD.floatFromBInt F dbg w x ∧
    (∀ sg, NumCD.toFloat dbg F w sg x = (NumCD.asFloat dbg F w sg x).map some) :=
  ⟨rfl, rfl, fun _ => rfl⟩

/-- digit-level `from_f32/f64` against the specification (restated for the driver's function) -/
theorem fromFloat_digit_matches_spec {F : FloatFmt} (hF : F.Valid) {w n : Nat} (hw : 2 ≤ w)
    (hn : 1 ≤ n) (dbg : Bool) (s : Bool) {x : Nat} (hx : x < 2 ^ F.bits) :
    FloatOk w n (NumCD.fromFloat dbg F w n s x) (Spec.NumC.fromFloat F.spec s (M w n) x) :=
  NumCD.fromFloat_matches hF hw hn dbg s hx

end Bnum.C19
