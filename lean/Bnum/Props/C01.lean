/-
  Bnum.Props.C01 — property C01:

  "For every bnum integer type and all operands, overflowing add/sub/neg/abs (including add_signed,
   add_unsigned, sub_unsigned, carrying_add and borrowing_sub with a carry/borrow in, abs_diff,
   unsigned_abs and midpoint) return the mathematically exact result reduced into the type's
   two's-complement range, with an overflow flag that is true exactly when the exact result is not
   representable. The checked, wrapping, saturating and strict forms are projections of that pair:
   None (or panic) exactly when the flag is set, the wrapped value otherwise, and saturating forms
   clamp to MIN or MAX on the side where the exact result lies. midpoint never overflows and rounds
   toward zero for signed, down for unsigned."

  Everything is generic in the digit width `w` (bits) and the digit count `n`; `UI.*` = `BUint<N>`,
  `II.*` = `BInt<N>` (Model/AddSub.lean).  `U` / `S` = unsigned / two's-complement value, `M w n = 2^(w*n)`.

  Covered here (theorem per function; proofs are one-liners calling Lemmas/AddSub2.lean):
  * overflowing_*  : result WF, value = wrapU/wrapS of the exact result `z`, flag ↔ `z` not representable
      BUint: add, sub, neg, add_signed, carrying_add, borrowing_sub (z includes the carry / borrow)
      BInt : add, sub, neg, abs, add_unsigned, sub_unsigned, carrying_add, borrowing_sub; unsigned_abs
  * checked_*      : `none ↔ ¬rep z`, and `some r → value r = z`
  * strict_*       : `panic ↔ ¬rep z`, `ok r → value r = z`
  * wrapping_*     : value = wrap z
  * saturating_*   : value = `Spec.clamp signed (M w n) z` (clamp of the exact result into
      [0, M-1] resp. [-M/2, M/2-1]); for the signed forms the side (MIN/MAX) is picked by the code from
      the sign of `self` (or is fixed), and the equality with the clamp shows it is the side where `z` lies;
      `i_saturating_add_side` / `i_saturating_sub_side` state that explicitly.
  * `u_checked_neg_proj`: `BUint::checked_neg` is written `if self.is_zero() {Some(self)} else {None}`
      (and modelled so); it equals the projection of `overflowing_neg`.

  * projections    : `checked_forms_are_projections`, `strict_forms_are_projections`, `wrapping_forms_are_projections`,
      `u_saturating_forms_are_projections`, `i_saturating_forms_are_projections` state literally that each derived
      form is a function of the `overflowing_*` pair; `u_strict_neg_proj`, `i_wrapping_add_proj`,
      `i_wrapping_sub_proj` are the cases where the code takes another route (Lemmas/C01Extra.lean).
  * sides          : `i_saturating_add_unsigned_side`, `i_saturating_sub_unsigned_side`, `i_saturating_neg_abs_side`,
      `u_saturating_add_signed_side` — the fixed / rhs-sign-picked bound is the side where the exact result lies.

  * midpoint       : `u_midpoint_spec`, `i_midpoint_spec` — in debug and in release builds (`dbg`) the
      function never panics/overflows; value = floor((a+b)/2) for BUint, (a+b)/2 rounded toward zero
      (`Int.tdiv`) for BInt.  (Model/Misc.lean; needs `2 ≤ w` so that `shr(1)` is in range.)
  * abs_diff       : `u_abs_diff`, `i_abs_diff` — the (unsigned) result is `|a - b|`.

  Hypotheses: the signed theorems need `2 ≤ w` (signed digit arithmetic; every real digit has w ≥ 8) and
  `1 ≤ n`; unsigned add/sub need nothing beyond well-formedness, the other unsigned ones `1 ≤ w`, `1 ≤ n`
  (the constant ONE must exist).
-/
import Bnum.Lemmas.AddSub2
import Bnum.Lemmas.Misc
import Bnum.Lemmas.C01Extra

namespace Bnum.C01
open Bnum

/-! ## `BUint<N>` -/

/-- `BUint::overflowing_add` -/
theorem u_overflowing_add {w n : Nat} {a b : List Nat} (ha : WF w n a) (hb : WF w n b) :
    WF w n (UI.overflowingAdd w a b).1 ∧
    (U w (UI.overflowingAdd w a b).1 : Int) = wrapU (M w n) ((U w a : Int) + (U w b : Int)) ∧
    ((UI.overflowingAdd w a b).2 = true ↔ ¬ repU (M w n) ((U w a : Int) + (U w b : Int))) :=
  (UI.overflowingAdd_spec ha hb).expand
example : WF 8 3 [200, 7, 255] ∧ WF 8 3 [100, 250, 3] ∧
    UI.overflowingAdd 8 [200, 7, 255] [100, 250, 3] = ([44, 2, 3], true) := by decide

/-- `BUint::overflowing_sub` -/
theorem u_overflowing_sub {w n : Nat} {a b : List Nat} (ha : WF w n a) (hb : WF w n b) :
    WF w n (UI.overflowingSub w a b).1 ∧
    (U w (UI.overflowingSub w a b).1 : Int) = wrapU (M w n) ((U w a : Int) - (U w b : Int)) ∧
    ((UI.overflowingSub w a b).2 = true ↔ ¬ repU (M w n) ((U w a : Int) - (U w b : Int))) :=
  (UI.overflowingSub_spec ha hb).expand
example : WF 8 3 [100, 250, 3] ∧ WF 8 3 [200, 7, 255] ∧
    UI.overflowingSub 8 [100, 250, 3] [200, 7, 255] = ([156, 242, 4], true) := by decide

/-- `BUint::overflowing_neg` -/
theorem u_overflowing_neg {w n : Nat} {a : List Nat} (hw : 1 ≤ w) (hn : 1 ≤ n)
    (ha : WF w n a) :
    WF w n (UI.overflowingNeg w a).1 ∧
    (U w (UI.overflowingNeg w a).1 : Int) = wrapU (M w n) (-(U w a : Int)) ∧
    ((UI.overflowingNeg w a).2 = true ↔ ¬ repU (M w n) (-(U w a : Int))) :=
  (UI.overflowingNeg_spec hw hn ha).expand
example : 1 ≤ 8 ∧ 1 ≤ 3 ∧ WF 8 3 [100, 250, 3] ∧
    UI.overflowingNeg 8 [100, 250, 3] = ([156, 5, 252], true) := by decide

/-- `BUint::overflowing_add_signed(self, rhs: BInt)` -/
theorem u_overflowing_add_signed {w n : Nat} {a b : List Nat} (hw : 1 ≤ w) (hn : 1 ≤ n)
    (ha : WF w n a) (hb : WF w n b) :
    WF w n (UI.overflowingAddSigned w a b).1 ∧
    (U w (UI.overflowingAddSigned w a b).1 : Int) = wrapU (M w n) ((U w a : Int) + S w b) ∧
    ((UI.overflowingAddSigned w a b).2 = true ↔ ¬ repU (M w n) ((U w a : Int) + S w b)) :=
  (UI.overflowingAddSigned_spec hw hn ha hb).expand
example : 1 ≤ 8 ∧ 1 ≤ 3 ∧ WF 8 3 [100, 250, 3] ∧ WF 8 3 [200, 7, 255] ∧
    UI.overflowingAddSigned 8 [100, 250, 3] [200, 7, 255] = ([44, 2, 3], false) := by decide

/-- `BUint::carrying_add (bigint_helpers)` -/
theorem u_carrying_add {w n : Nat} {a b : List Nat} (hw : 1 ≤ w) (hn : 1 ≤ n)
    (ha : WF w n a) (hb : WF w n b) (c : Bool) :
    WF w n (UI.carryingAdd w a b c).1 ∧
    (U w (UI.carryingAdd w a b c).1 : Int) = wrapU (M w n) ((U w a : Int) + (U w b : Int) + (c.toNat : Int)) ∧
    ((UI.carryingAdd w a b c).2 = true ↔ ¬ repU (M w n) ((U w a : Int) + (U w b : Int) + (c.toNat : Int))) :=
  (UI.carryingAdd_spec hw hn ha hb c).expand
example : 1 ≤ 8 ∧ 1 ≤ 3 ∧ WF 8 3 [200, 7, 255] ∧ WF 8 3 [100, 250, 3] ∧
    UI.carryingAdd 8 [200, 7, 255] [100, 250, 3] true = ([45, 2, 3], true) := by decide

/-- `BUint::borrowing_sub (bigint_helpers)` -/
theorem u_borrowing_sub {w n : Nat} {a b : List Nat} (hw : 1 ≤ w) (hn : 1 ≤ n)
    (ha : WF w n a) (hb : WF w n b) (c : Bool) :
    WF w n (UI.borrowingSub w a b c).1 ∧
    (U w (UI.borrowingSub w a b c).1 : Int) = wrapU (M w n) ((U w a : Int) - (U w b : Int) - (c.toNat : Int)) ∧
    ((UI.borrowingSub w a b c).2 = true ↔ ¬ repU (M w n) ((U w a : Int) - (U w b : Int) - (c.toNat : Int))) :=
  (UI.borrowingSub_spec hw hn ha hb c).expand
example : 1 ≤ 8 ∧ 1 ≤ 3 ∧ WF 8 3 [100, 250, 3] ∧ WF 8 3 [100, 250, 3] ∧
    UI.borrowingSub 8 [100, 250, 3] [100, 250, 3] true = ([255, 255, 255], true) := by decide

/-- `BUint::checked_add` -/
theorem u_checked_add {w n : Nat} {a b : List Nat} (ha : WF w n a) (hb : WF w n b) :
    (UI.checkedAdd w a b = none ↔ ¬ repU (M w n) ((U w a : Int) + (U w b : Int))) ∧
    (∀ r, UI.checkedAdd w a b = some r → WF w n r ∧ (U w r : Int) = (U w a : Int) + (U w b : Int)) :=
  (UI.overflowingAdd_spec ha hb).checked
example : WF 8 3 [100, 250, 3] ∧ WF 8 3 [100, 250, 3] ∧
    UI.checkedAdd 8 [100, 250, 3] [100, 250, 3] = some [200, 244, 7] := by decide

/-- `BUint::checked_sub` -/
theorem u_checked_sub {w n : Nat} {a b : List Nat} (ha : WF w n a) (hb : WF w n b) :
    (UI.checkedSub w a b = none ↔ ¬ repU (M w n) ((U w a : Int) - (U w b : Int))) ∧
    (∀ r, UI.checkedSub w a b = some r → WF w n r ∧ (U w r : Int) = (U w a : Int) - (U w b : Int)) :=
  (UI.overflowingSub_spec ha hb).checked
example : WF 8 3 [100, 250, 3] ∧ WF 8 3 [200, 7, 255] ∧
    UI.checkedSub 8 [100, 250, 3] [200, 7, 255] = none := by decide

/-- `BUint::checked_neg` -/
theorem u_checked_neg {w n : Nat} {a : List Nat} (hw : 1 ≤ w) (hn : 1 ≤ n)
    (ha : WF w n a) :
    (UI.checkedNeg w a = none ↔ ¬ repU (M w n) (-(U w a : Int))) ∧
    (∀ r, UI.checkedNeg w a = some r → WF w n r ∧ (U w r : Int) = -(U w a : Int)) :=
  UI.checkedNeg_spec hw hn ha
example : 1 ≤ 8 ∧ 1 ≤ 3 ∧ WF 8 3 [100, 250, 3] ∧
    UI.checkedNeg 8 [100, 250, 3] = none := by decide

/-- `BUint::checked_add_signed` -/
theorem u_checked_add_signed {w n : Nat} {a b : List Nat} (hw : 1 ≤ w) (hn : 1 ≤ n)
    (ha : WF w n a) (hb : WF w n b) :
    (UI.checkedAddSigned w a b = none ↔ ¬ repU (M w n) ((U w a : Int) + S w b)) ∧
    (∀ r, UI.checkedAddSigned w a b = some r → WF w n r ∧ (U w r : Int) = (U w a : Int) + S w b) :=
  (UI.overflowingAddSigned_spec hw hn ha hb).checked
example : 1 ≤ 8 ∧ 1 ≤ 3 ∧ WF 8 3 [100, 250, 3] ∧ WF 8 3 [200, 7, 255] ∧
    UI.checkedAddSigned 8 [100, 250, 3] [200, 7, 255] = some [44, 2, 3] := by decide

/-- `BUint::strict_add` -/
theorem u_strict_add {w n : Nat} {a b : List Nat} (ha : WF w n a) (hb : WF w n b) :
    (UI.strictAdd w a b = Outcome.panic ↔ ¬ repU (M w n) ((U w a : Int) + (U w b : Int))) ∧
    (∀ r, UI.strictAdd w a b = Outcome.ok r → WF w n r ∧ (U w r : Int) = (U w a : Int) + (U w b : Int)) :=
  (UI.overflowingAdd_spec ha hb).strict
example : WF 8 3 [100, 250, 3] ∧ WF 8 3 [100, 250, 3] ∧
    UI.strictAdd 8 [100, 250, 3] [100, 250, 3] = Outcome.ok [200, 244, 7] := by decide

/-- `BUint::strict_sub` -/
theorem u_strict_sub {w n : Nat} {a b : List Nat} (ha : WF w n a) (hb : WF w n b) :
    (UI.strictSub w a b = Outcome.panic ↔ ¬ repU (M w n) ((U w a : Int) - (U w b : Int))) ∧
    (∀ r, UI.strictSub w a b = Outcome.ok r → WF w n r ∧ (U w r : Int) = (U w a : Int) - (U w b : Int)) :=
  (UI.overflowingSub_spec ha hb).strict
example : WF 8 3 [100, 250, 3] ∧ WF 8 3 [200, 7, 255] ∧
    UI.strictSub 8 [100, 250, 3] [200, 7, 255] = Outcome.panic := by decide

/-- `BUint::strict_neg` -/
theorem u_strict_neg {w n : Nat} {a : List Nat} (hw : 1 ≤ w) (hn : 1 ≤ n)
    (ha : WF w n a) :
    (UI.strictNeg w a = Outcome.panic ↔ ¬ repU (M w n) (-(U w a : Int))) ∧
    (∀ r, UI.strictNeg w a = Outcome.ok r → WF w n r ∧ (U w r : Int) = -(U w a : Int)) :=
  UI.strictNeg_spec hw hn ha
example : 1 ≤ 8 ∧ 1 ≤ 3 ∧ WF 8 3 [100, 250, 3] ∧
    UI.strictNeg 8 [100, 250, 3] = Outcome.panic := by decide

/-- `BUint::strict_add_signed` -/
theorem u_strict_add_signed {w n : Nat} {a b : List Nat} (hw : 1 ≤ w) (hn : 1 ≤ n)
    (ha : WF w n a) (hb : WF w n b) :
    (UI.strictAddSigned w a b = Outcome.panic ↔ ¬ repU (M w n) ((U w a : Int) + S w b)) ∧
    (∀ r, UI.strictAddSigned w a b = Outcome.ok r → WF w n r ∧ (U w r : Int) = (U w a : Int) + S w b) :=
  (UI.overflowingAddSigned_spec hw hn ha hb).strict
example : 1 ≤ 8 ∧ 1 ≤ 3 ∧ WF 8 3 [100, 250, 3] ∧ WF 8 3 [200, 7, 255] ∧
    UI.strictAddSigned 8 [100, 250, 3] [200, 7, 255] = Outcome.ok [44, 2, 3] := by decide

/-- `BUint::wrapping_add` -/
theorem u_wrapping_add {w n : Nat} {a b : List Nat} (ha : WF w n a) (hb : WF w n b) :
    WF w n (UI.wrappingAdd w a b) ∧ (U w (UI.wrappingAdd w a b) : Int) = wrapU (M w n) ((U w a : Int) + (U w b : Int)) :=
  (UI.overflowingAdd_spec ha hb).wrapping
example : WF 8 3 [100, 250, 3] ∧ WF 8 3 [100, 250, 3] ∧
    UI.wrappingAdd 8 [100, 250, 3] [100, 250, 3] = [200, 244, 7] := by decide

/-- `BUint::wrapping_sub` -/
theorem u_wrapping_sub {w n : Nat} {a b : List Nat} (ha : WF w n a) (hb : WF w n b) :
    WF w n (UI.wrappingSub w a b) ∧ (U w (UI.wrappingSub w a b) : Int) = wrapU (M w n) ((U w a : Int) - (U w b : Int)) :=
  (UI.overflowingSub_spec ha hb).wrapping
example : WF 8 3 [100, 250, 3] ∧ WF 8 3 [200, 7, 255] ∧
    UI.wrappingSub 8 [100, 250, 3] [200, 7, 255] = [156, 242, 4] := by decide

/-- `BUint::wrapping_neg` -/
theorem u_wrapping_neg {w n : Nat} {a : List Nat} (hw : 1 ≤ w) (hn : 1 ≤ n)
    (ha : WF w n a) :
    WF w n (UI.wrappingNeg w a) ∧ (U w (UI.wrappingNeg w a) : Int) = wrapU (M w n) (-(U w a : Int)) :=
  (UI.overflowingNeg_spec hw hn ha).wrapping
example : 1 ≤ 8 ∧ 1 ≤ 3 ∧ WF 8 3 [100, 250, 3] ∧
    UI.wrappingNeg 8 [100, 250, 3] = [156, 5, 252] := by decide

/-- `BUint::wrapping_add_signed` -/
theorem u_wrapping_add_signed {w n : Nat} {a b : List Nat} (hw : 1 ≤ w) (hn : 1 ≤ n)
    (ha : WF w n a) (hb : WF w n b) :
    WF w n (UI.wrappingAddSigned w a b) ∧ (U w (UI.wrappingAddSigned w a b) : Int) = wrapU (M w n) ((U w a : Int) + S w b) :=
  (UI.overflowingAddSigned_spec hw hn ha hb).wrapping
example : 1 ≤ 8 ∧ 1 ≤ 3 ∧ WF 8 3 [100, 250, 3] ∧ WF 8 3 [200, 7, 255] ∧
    UI.wrappingAddSigned 8 [100, 250, 3] [200, 7, 255] = [44, 2, 3] := by decide

/-- `BUint::saturating_add` -/
theorem u_saturating_add {w n : Nat} {a b : List Nat} (ha : WF w n a) (hb : WF w n b) :
    WF w n (UI.saturatingAdd w a b) ∧
    (U w (UI.saturatingAdd w a b) : Int) = Spec.clamp false (M w n) ((U w a : Int) + (U w b : Int)) :=
  UI.saturatingAdd_spec ha hb
example : WF 8 3 [200, 7, 255] ∧ WF 8 3 [100, 250, 3] ∧
    UI.saturatingAdd 8 [200, 7, 255] [100, 250, 3] = [255, 255, 255] := by decide

/-- `BUint::saturating_sub` -/
theorem u_saturating_sub {w n : Nat} {a b : List Nat} (ha : WF w n a) (hb : WF w n b) :
    WF w n (UI.saturatingSub w a b) ∧
    (U w (UI.saturatingSub w a b) : Int) = Spec.clamp false (M w n) ((U w a : Int) - (U w b : Int)) :=
  UI.saturatingSub_spec ha hb
example : WF 8 3 [100, 250, 3] ∧ WF 8 3 [200, 7, 255] ∧
    UI.saturatingSub 8 [100, 250, 3] [200, 7, 255] = [0, 0, 0] := by decide

/-- `BUint::saturating_add_signed (side chosen by the sign of `rhs`)` -/
theorem u_saturating_add_signed {w n : Nat} {a b : List Nat} (hw : 1 ≤ w) (hn : 1 ≤ n)
    (ha : WF w n a) (hb : WF w n b) :
    WF w n (UI.saturatingAddSigned w a b) ∧
    (U w (UI.saturatingAddSigned w a b) : Int) = Spec.clamp false (M w n) ((U w a : Int) + S w b) :=
  UI.saturatingAddSigned_spec hw hn ha hb
example : 1 ≤ 8 ∧ 1 ≤ 3 ∧ WF 8 3 [5, 0, 0] ∧ WF 8 3 [200, 7, 255] ∧
    UI.saturatingAddSigned 8 [5, 0, 0] [200, 7, 255] = [0, 0, 0] := by decide

/-! ## `BInt<N>` -/

/-- `BInt::overflowing_add` -/
theorem i_overflowing_add {w n : Nat} {a b : List Nat} (hw : 2 ≤ w) (hn : 1 ≤ n)
    (ha : WF w n a) (hb : WF w n b) :
    WF w n (II.overflowingAdd w a b).1 ∧
    S w (II.overflowingAdd w a b).1 = wrapS (M w n) (S w a + S w b) ∧
    ((II.overflowingAdd w a b).2 = true ↔ ¬ repS (M w n) (S w a + S w b)) :=
  (II.overflowingAdd_spec hw hn ha hb).expand
example : 2 ≤ 8 ∧ 1 ≤ 3 ∧ WF 8 3 [255, 255, 127] ∧ WF 8 3 [5, 0, 0] ∧
    II.overflowingAdd 8 [255, 255, 127] [5, 0, 0] = ([4, 0, 128], true) := by decide

/-- `BInt::overflowing_sub` -/
theorem i_overflowing_sub {w n : Nat} {a b : List Nat} (hw : 2 ≤ w) (hn : 1 ≤ n)
    (ha : WF w n a) (hb : WF w n b) :
    WF w n (II.overflowingSub w a b).1 ∧
    S w (II.overflowingSub w a b).1 = wrapS (M w n) (S w a - S w b) ∧
    ((II.overflowingSub w a b).2 = true ↔ ¬ repS (M w n) (S w a - S w b)) :=
  (II.overflowingSub_spec hw hn ha hb).expand
example : 2 ≤ 8 ∧ 1 ≤ 3 ∧ WF 8 3 [0, 0, 128] ∧ WF 8 3 [5, 0, 0] ∧
    II.overflowingSub 8 [0, 0, 128] [5, 0, 0] = ([251, 255, 127], true) := by decide

/-- `BInt::overflowing_neg` -/
theorem i_overflowing_neg {w n : Nat} {a : List Nat} (hw : 2 ≤ w) (hn : 1 ≤ n)
    (ha : WF w n a) :
    WF w n (II.overflowingNeg w a).1 ∧
    S w (II.overflowingNeg w a).1 = wrapS (M w n) (-S w a) ∧
    ((II.overflowingNeg w a).2 = true ↔ ¬ repS (M w n) (-S w a)) :=
  (II.overflowingNeg_spec hw hn ha).expand
example : 2 ≤ 8 ∧ 1 ≤ 3 ∧ WF 8 3 [0, 0, 128] ∧
    II.overflowingNeg 8 [0, 0, 128] = ([0, 0, 128], true) := by decide

/-- `BInt::overflowing_abs` -/
theorem i_overflowing_abs {w n : Nat} {a : List Nat} (hw : 2 ≤ w) (hn : 1 ≤ n)
    (ha : WF w n a) :
    WF w n (II.overflowingAbs w a).1 ∧
    S w (II.overflowingAbs w a).1 = wrapS (M w n) (((S w a).natAbs : Int)) ∧
    ((II.overflowingAbs w a).2 = true ↔ ¬ repS (M w n) (((S w a).natAbs : Int))) :=
  (II.overflowingAbs_spec hw hn ha).expand
example : 2 ≤ 8 ∧ 1 ≤ 3 ∧ WF 8 3 [200, 7, 255] ∧
    II.overflowingAbs 8 [200, 7, 255] = ([56, 248, 0], false) := by decide

/-- `BInt::overflowing_add_unsigned(self, rhs: BUint)` -/
theorem i_overflowing_add_unsigned {w n : Nat} {a b : List Nat} (hw : 2 ≤ w) (hn : 1 ≤ n)
    (ha : WF w n a) (hb : WF w n b) :
    WF w n (II.overflowingAddUnsigned w a b).1 ∧
    S w (II.overflowingAddUnsigned w a b).1 = wrapS (M w n) (S w a + (U w b : Int)) ∧
    ((II.overflowingAddUnsigned w a b).2 = true ↔ ¬ repS (M w n) (S w a + (U w b : Int))) :=
  (II.overflowingAddUnsigned_spec hw hn ha hb).expand
example : 2 ≤ 8 ∧ 1 ≤ 3 ∧ WF 8 3 [5, 0, 0] ∧ WF 8 3 [200, 7, 255] ∧
    II.overflowingAddUnsigned 8 [5, 0, 0] [200, 7, 255] = ([205, 7, 255], true) := by decide

/-- `BInt::overflowing_sub_unsigned(self, rhs: BUint)` -/
theorem i_overflowing_sub_unsigned {w n : Nat} {a b : List Nat} (hw : 2 ≤ w) (hn : 1 ≤ n)
    (ha : WF w n a) (hb : WF w n b) :
    WF w n (II.overflowingSubUnsigned w a b).1 ∧
    S w (II.overflowingSubUnsigned w a b).1 = wrapS (M w n) (S w a - (U w b : Int)) ∧
    ((II.overflowingSubUnsigned w a b).2 = true ↔ ¬ repS (M w n) (S w a - (U w b : Int))) :=
  (II.overflowingSubUnsigned_spec hw hn ha hb).expand
example : 2 ≤ 8 ∧ 1 ≤ 3 ∧ WF 8 3 [255, 255, 127] ∧ WF 8 3 [200, 7, 255] ∧
    II.overflowingSubUnsigned 8 [255, 255, 127] [200, 7, 255] = ([55, 248, 128], false) := by decide

/-- `BInt::carrying_add (bigint_helpers)` -/
theorem i_carrying_add {w n : Nat} {a b : List Nat} (hw : 2 ≤ w) (hn : 1 ≤ n)
    (ha : WF w n a) (hb : WF w n b) (c : Bool) :
    WF w n (II.carryingAdd w a b c).1 ∧
    S w (II.carryingAdd w a b c).1 = wrapS (M w n) (S w a + S w b + (c.toNat : Int)) ∧
    ((II.carryingAdd w a b c).2 = true ↔ ¬ repS (M w n) (S w a + S w b + (c.toNat : Int))) :=
  (II.carryingAdd_spec hw hn ha hb c).expand
example : 2 ≤ 8 ∧ 1 ≤ 3 ∧ WF 8 3 [0, 0, 128] ∧ WF 8 3 [255, 255, 255] ∧
    II.carryingAdd 8 [0, 0, 128] [255, 255, 255] true = ([0, 0, 128], false) := by decide

/-- `BInt::borrowing_sub (bigint_helpers)` -/
theorem i_borrowing_sub {w n : Nat} {a b : List Nat} (hw : 2 ≤ w) (hn : 1 ≤ n)
    (ha : WF w n a) (hb : WF w n b) (c : Bool) :
    WF w n (II.borrowingSub w a b c).1 ∧
    S w (II.borrowingSub w a b c).1 = wrapS (M w n) (S w a - S w b - (c.toNat : Int)) ∧
    ((II.borrowingSub w a b c).2 = true ↔ ¬ repS (M w n) (S w a - S w b - (c.toNat : Int))) :=
  (II.borrowingSub_spec hw hn ha hb c).expand
example : 2 ≤ 8 ∧ 1 ≤ 3 ∧ WF 8 3 [255, 255, 127] ∧ WF 8 3 [255, 255, 255] ∧
    II.borrowingSub 8 [255, 255, 127] [255, 255, 255] true = ([255, 255, 127], false) := by decide

/-- `BInt::unsigned_abs` : the result, read as unsigned, is `|self|` -/
theorem i_unsigned_abs {w n : Nat} {a : List Nat} (hw : 2 ≤ w) (hn : 1 ≤ n)
    (ha : WF w n a) :
    WF w n (II.unsignedAbs w a) ∧ U w (II.unsignedAbs w a) = (S w a).natAbs :=
  II.unsignedAbs_spec hw hn ha
example : 2 ≤ 8 ∧ 1 ≤ 3 ∧ WF 8 3 [0, 0, 128] ∧
    II.unsignedAbs 8 [0, 0, 128] = [0, 0, 128] := by decide

/-- `BInt::checked_add` -/
theorem i_checked_add {w n : Nat} {a b : List Nat} (hw : 2 ≤ w) (hn : 1 ≤ n)
    (ha : WF w n a) (hb : WF w n b) :
    (II.checkedAdd w a b = none ↔ ¬ repS (M w n) (S w a + S w b)) ∧
    (∀ r, II.checkedAdd w a b = some r → WF w n r ∧ S w r = S w a + S w b) :=
  (II.overflowingAdd_spec hw hn ha hb).checked
example : 2 ≤ 8 ∧ 1 ≤ 3 ∧ WF 8 3 [255, 255, 127] ∧ WF 8 3 [5, 0, 0] ∧
    II.checkedAdd 8 [255, 255, 127] [5, 0, 0] = none := by decide

/-- `BInt::checked_sub` -/
theorem i_checked_sub {w n : Nat} {a b : List Nat} (hw : 2 ≤ w) (hn : 1 ≤ n)
    (ha : WF w n a) (hb : WF w n b) :
    (II.checkedSub w a b = none ↔ ¬ repS (M w n) (S w a - S w b)) ∧
    (∀ r, II.checkedSub w a b = some r → WF w n r ∧ S w r = S w a - S w b) :=
  (II.overflowingSub_spec hw hn ha hb).checked
example : 2 ≤ 8 ∧ 1 ≤ 3 ∧ WF 8 3 [200, 7, 255] ∧ WF 8 3 [5, 0, 0] ∧
    II.checkedSub 8 [200, 7, 255] [5, 0, 0] = some [195, 7, 255] := by decide

/-- `BInt::checked_neg` -/
theorem i_checked_neg {w n : Nat} {a : List Nat} (hw : 2 ≤ w) (hn : 1 ≤ n)
    (ha : WF w n a) :
    (II.checkedNeg w a = none ↔ ¬ repS (M w n) (-S w a)) ∧
    (∀ r, II.checkedNeg w a = some r → WF w n r ∧ S w r = -S w a) :=
  (II.overflowingNeg_spec hw hn ha).checked
example : 2 ≤ 8 ∧ 1 ≤ 3 ∧ WF 8 3 [0, 0, 128] ∧
    II.checkedNeg 8 [0, 0, 128] = none := by decide

/-- `BInt::checked_abs` -/
theorem i_checked_abs {w n : Nat} {a : List Nat} (hw : 2 ≤ w) (hn : 1 ≤ n)
    (ha : WF w n a) :
    (II.checkedAbs w a = none ↔ ¬ repS (M w n) (((S w a).natAbs : Int))) ∧
    (∀ r, II.checkedAbs w a = some r → WF w n r ∧ S w r = ((S w a).natAbs : Int)) :=
  (II.overflowingAbs_spec hw hn ha).checked
example : 2 ≤ 8 ∧ 1 ≤ 3 ∧ WF 8 3 [200, 7, 255] ∧
    II.checkedAbs 8 [200, 7, 255] = some [56, 248, 0] := by decide

/-- `BInt::checked_add_unsigned` -/
theorem i_checked_add_unsigned {w n : Nat} {a b : List Nat} (hw : 2 ≤ w) (hn : 1 ≤ n)
    (ha : WF w n a) (hb : WF w n b) :
    (II.checkedAddUnsigned w a b = none ↔ ¬ repS (M w n) (S w a + (U w b : Int))) ∧
    (∀ r, II.checkedAddUnsigned w a b = some r → WF w n r ∧ S w r = S w a + (U w b : Int)) :=
  (II.overflowingAddUnsigned_spec hw hn ha hb).checked
example : 2 ≤ 8 ∧ 1 ≤ 3 ∧ WF 8 3 [5, 0, 0] ∧ WF 8 3 [200, 7, 255] ∧
    II.checkedAddUnsigned 8 [5, 0, 0] [200, 7, 255] = none := by decide

/-- `BInt::checked_sub_unsigned` -/
theorem i_checked_sub_unsigned {w n : Nat} {a b : List Nat} (hw : 2 ≤ w) (hn : 1 ≤ n)
    (ha : WF w n a) (hb : WF w n b) :
    (II.checkedSubUnsigned w a b = none ↔ ¬ repS (M w n) (S w a - (U w b : Int))) ∧
    (∀ r, II.checkedSubUnsigned w a b = some r → WF w n r ∧ S w r = S w a - (U w b : Int)) :=
  (II.overflowingSubUnsigned_spec hw hn ha hb).checked
example : 2 ≤ 8 ∧ 1 ≤ 3 ∧ WF 8 3 [255, 255, 127] ∧ WF 8 3 [200, 7, 255] ∧
    II.checkedSubUnsigned 8 [255, 255, 127] [200, 7, 255] = some [55, 248, 128] := by decide

/-- `BInt::strict_add` -/
theorem i_strict_add {w n : Nat} {a b : List Nat} (hw : 2 ≤ w) (hn : 1 ≤ n)
    (ha : WF w n a) (hb : WF w n b) :
    (II.strictAdd w a b = Outcome.panic ↔ ¬ repS (M w n) (S w a + S w b)) ∧
    (∀ r, II.strictAdd w a b = Outcome.ok r → WF w n r ∧ S w r = S w a + S w b) :=
  (II.overflowingAdd_spec hw hn ha hb).strict
example : 2 ≤ 8 ∧ 1 ≤ 3 ∧ WF 8 3 [255, 255, 127] ∧ WF 8 3 [5, 0, 0] ∧
    II.strictAdd 8 [255, 255, 127] [5, 0, 0] = Outcome.panic := by decide

/-- `BInt::strict_sub` -/
theorem i_strict_sub {w n : Nat} {a b : List Nat} (hw : 2 ≤ w) (hn : 1 ≤ n)
    (ha : WF w n a) (hb : WF w n b) :
    (II.strictSub w a b = Outcome.panic ↔ ¬ repS (M w n) (S w a - S w b)) ∧
    (∀ r, II.strictSub w a b = Outcome.ok r → WF w n r ∧ S w r = S w a - S w b) :=
  (II.overflowingSub_spec hw hn ha hb).strict
example : 2 ≤ 8 ∧ 1 ≤ 3 ∧ WF 8 3 [200, 7, 255] ∧ WF 8 3 [5, 0, 0] ∧
    II.strictSub 8 [200, 7, 255] [5, 0, 0] = Outcome.ok [195, 7, 255] := by decide

/-- `BInt::strict_neg` -/
theorem i_strict_neg {w n : Nat} {a : List Nat} (hw : 2 ≤ w) (hn : 1 ≤ n)
    (ha : WF w n a) :
    (II.strictNeg w a = Outcome.panic ↔ ¬ repS (M w n) (-S w a)) ∧
    (∀ r, II.strictNeg w a = Outcome.ok r → WF w n r ∧ S w r = -S w a) :=
  (II.overflowingNeg_spec hw hn ha).strict
example : 2 ≤ 8 ∧ 1 ≤ 3 ∧ WF 8 3 [0, 0, 128] ∧
    II.strictNeg 8 [0, 0, 128] = Outcome.panic := by decide

/-- `BInt::strict_abs` -/
theorem i_strict_abs {w n : Nat} {a : List Nat} (hw : 2 ≤ w) (hn : 1 ≤ n)
    (ha : WF w n a) :
    (II.strictAbs w a = Outcome.panic ↔ ¬ repS (M w n) (((S w a).natAbs : Int))) ∧
    (∀ r, II.strictAbs w a = Outcome.ok r → WF w n r ∧ S w r = ((S w a).natAbs : Int)) :=
  (II.overflowingAbs_spec hw hn ha).strict
example : 2 ≤ 8 ∧ 1 ≤ 3 ∧ WF 8 3 [200, 7, 255] ∧
    II.strictAbs 8 [200, 7, 255] = Outcome.ok [56, 248, 0] := by decide

/-- `BInt::strict_add_unsigned` -/
theorem i_strict_add_unsigned {w n : Nat} {a b : List Nat} (hw : 2 ≤ w) (hn : 1 ≤ n)
    (ha : WF w n a) (hb : WF w n b) :
    (II.strictAddUnsigned w a b = Outcome.panic ↔ ¬ repS (M w n) (S w a + (U w b : Int))) ∧
    (∀ r, II.strictAddUnsigned w a b = Outcome.ok r → WF w n r ∧ S w r = S w a + (U w b : Int)) :=
  (II.overflowingAddUnsigned_spec hw hn ha hb).strict
example : 2 ≤ 8 ∧ 1 ≤ 3 ∧ WF 8 3 [5, 0, 0] ∧ WF 8 3 [200, 7, 255] ∧
    II.strictAddUnsigned 8 [5, 0, 0] [200, 7, 255] = Outcome.panic := by decide

/-- `BInt::strict_sub_unsigned` -/
theorem i_strict_sub_unsigned {w n : Nat} {a b : List Nat} (hw : 2 ≤ w) (hn : 1 ≤ n)
    (ha : WF w n a) (hb : WF w n b) :
    (II.strictSubUnsigned w a b = Outcome.panic ↔ ¬ repS (M w n) (S w a - (U w b : Int))) ∧
    (∀ r, II.strictSubUnsigned w a b = Outcome.ok r → WF w n r ∧ S w r = S w a - (U w b : Int)) :=
  (II.overflowingSubUnsigned_spec hw hn ha hb).strict
example : 2 ≤ 8 ∧ 1 ≤ 3 ∧ WF 8 3 [255, 255, 127] ∧ WF 8 3 [200, 7, 255] ∧
    II.strictSubUnsigned 8 [255, 255, 127] [200, 7, 255] = Outcome.ok [55, 248, 128] := by decide

/-- `BInt::wrapping_add (= from_bits(self.bits.wrapping_add(rhs.bits)))` -/
theorem i_wrapping_add {w n : Nat} {a b : List Nat} (ha : WF w n a) (hb : WF w n b) :
    WF w n (II.wrappingAdd w a b) ∧
    S w (II.wrappingAdd w a b) = wrapS (M w n) (S w a + S w b) :=
  II.wrappingAdd_spec ha hb
example : WF 8 3 [255, 255, 127] ∧ WF 8 3 [5, 0, 0] ∧
    II.wrappingAdd 8 [255, 255, 127] [5, 0, 0] = [4, 0, 128] := by decide

/-- `BInt::wrapping_sub (= from_bits(self.bits.wrapping_sub(rhs.bits)))` -/
theorem i_wrapping_sub {w n : Nat} {a b : List Nat} (ha : WF w n a) (hb : WF w n b) :
    WF w n (II.wrappingSub w a b) ∧
    S w (II.wrappingSub w a b) = wrapS (M w n) (S w a - S w b) :=
  II.wrappingSub_spec ha hb
example : WF 8 3 [200, 7, 255] ∧ WF 8 3 [5, 0, 0] ∧
    II.wrappingSub 8 [200, 7, 255] [5, 0, 0] = [195, 7, 255] := by decide

/-- `BInt::wrapping_neg` -/
theorem i_wrapping_neg {w n : Nat} {a : List Nat} (hw : 2 ≤ w) (hn : 1 ≤ n)
    (ha : WF w n a) :
    WF w n (II.wrappingNeg w a) ∧ S w (II.wrappingNeg w a) = wrapS (M w n) (-S w a) :=
  (II.overflowingNeg_spec hw hn ha).wrapping
example : 2 ≤ 8 ∧ 1 ≤ 3 ∧ WF 8 3 [0, 0, 128] ∧
    II.wrappingNeg 8 [0, 0, 128] = [0, 0, 128] := by decide

/-- `BInt::wrapping_abs` -/
theorem i_wrapping_abs {w n : Nat} {a : List Nat} (hw : 2 ≤ w) (hn : 1 ≤ n)
    (ha : WF w n a) :
    WF w n (II.wrappingAbs w a) ∧ S w (II.wrappingAbs w a) = wrapS (M w n) (((S w a).natAbs : Int)) :=
  (II.overflowingAbs_spec hw hn ha).wrapping
example : 2 ≤ 8 ∧ 1 ≤ 3 ∧ WF 8 3 [200, 7, 255] ∧
    II.wrappingAbs 8 [200, 7, 255] = [56, 248, 0] := by decide

/-- `BInt::wrapping_add_unsigned` -/
theorem i_wrapping_add_unsigned {w n : Nat} {a b : List Nat} (hw : 2 ≤ w) (hn : 1 ≤ n)
    (ha : WF w n a) (hb : WF w n b) :
    WF w n (II.wrappingAddUnsigned w a b) ∧ S w (II.wrappingAddUnsigned w a b) = wrapS (M w n) (S w a + (U w b : Int)) :=
  (II.overflowingAddUnsigned_spec hw hn ha hb).wrapping
example : 2 ≤ 8 ∧ 1 ≤ 3 ∧ WF 8 3 [5, 0, 0] ∧ WF 8 3 [200, 7, 255] ∧
    II.wrappingAddUnsigned 8 [5, 0, 0] [200, 7, 255] = [205, 7, 255] := by decide

/-- `BInt::wrapping_sub_unsigned` -/
theorem i_wrapping_sub_unsigned {w n : Nat} {a b : List Nat} (hw : 2 ≤ w) (hn : 1 ≤ n)
    (ha : WF w n a) (hb : WF w n b) :
    WF w n (II.wrappingSubUnsigned w a b) ∧ S w (II.wrappingSubUnsigned w a b) = wrapS (M w n) (S w a - (U w b : Int)) :=
  (II.overflowingSubUnsigned_spec hw hn ha hb).wrapping
example : 2 ≤ 8 ∧ 1 ≤ 3 ∧ WF 8 3 [255, 255, 127] ∧ WF 8 3 [200, 7, 255] ∧
    II.wrappingSubUnsigned 8 [255, 255, 127] [200, 7, 255] = [55, 248, 128] := by decide

/-- `BInt::saturating_add (MIN if `self` is negative, else MAX)` -/
theorem i_saturating_add {w n : Nat} {a b : List Nat} (hw : 2 ≤ w) (hn : 1 ≤ n)
    (ha : WF w n a) (hb : WF w n b) :
    WF w n (II.saturatingAdd w a b) ∧
    S w (II.saturatingAdd w a b) = Spec.clamp true (M w n) (S w a + S w b) :=
  II.saturatingAdd_spec hw hn ha hb
example : 2 ≤ 8 ∧ 1 ≤ 3 ∧ WF 8 3 [0, 0, 128] ∧ WF 8 3 [200, 7, 255] ∧
    II.saturatingAdd 8 [0, 0, 128] [200, 7, 255] = [0, 0, 128] := by decide

/-- `BInt::saturating_sub (MIN if `self` is negative, else MAX)` -/
theorem i_saturating_sub {w n : Nat} {a b : List Nat} (hw : 2 ≤ w) (hn : 1 ≤ n)
    (ha : WF w n a) (hb : WF w n b) :
    WF w n (II.saturatingSub w a b) ∧
    S w (II.saturatingSub w a b) = Spec.clamp true (M w n) (S w a - S w b) :=
  II.saturatingSub_spec hw hn ha hb
example : 2 ≤ 8 ∧ 1 ≤ 3 ∧ WF 8 3 [255, 255, 127] ∧ WF 8 3 [200, 7, 255] ∧
    II.saturatingSub 8 [255, 255, 127] [200, 7, 255] = [255, 255, 127] := by decide

/-- `BInt::saturating_add_unsigned (MAX on overflow)` -/
theorem i_saturating_add_unsigned {w n : Nat} {a b : List Nat} (hw : 2 ≤ w) (hn : 1 ≤ n)
    (ha : WF w n a) (hb : WF w n b) :
    WF w n (II.saturatingAddUnsigned w a b) ∧
    S w (II.saturatingAddUnsigned w a b) = Spec.clamp true (M w n) (S w a + (U w b : Int)) :=
  II.saturatingAddUnsigned_spec hw hn ha hb
example : 2 ≤ 8 ∧ 1 ≤ 3 ∧ WF 8 3 [5, 0, 0] ∧ WF 8 3 [200, 7, 255] ∧
    II.saturatingAddUnsigned 8 [5, 0, 0] [200, 7, 255] = [255, 255, 127] := by decide

/-- `BInt::saturating_sub_unsigned (MIN on overflow)` -/
theorem i_saturating_sub_unsigned {w n : Nat} {a b : List Nat} (hw : 2 ≤ w) (hn : 1 ≤ n)
    (ha : WF w n a) (hb : WF w n b) :
    WF w n (II.saturatingSubUnsigned w a b) ∧
    S w (II.saturatingSubUnsigned w a b) = Spec.clamp true (M w n) (S w a - (U w b : Int)) :=
  II.saturatingSubUnsigned_spec hw hn ha hb
example : 2 ≤ 8 ∧ 1 ≤ 3 ∧ WF 8 3 [200, 7, 255] ∧ WF 8 3 [200, 7, 255] ∧
    II.saturatingSubUnsigned 8 [200, 7, 255] [200, 7, 255] = [0, 0, 128] := by decide

/-- `BInt::saturating_neg (MAX on overflow)` -/
theorem i_saturating_neg {w n : Nat} {a : List Nat} (hw : 2 ≤ w) (hn : 1 ≤ n)
    (ha : WF w n a) :
    WF w n (II.saturatingNeg w a) ∧
    S w (II.saturatingNeg w a) = Spec.clamp true (M w n) (-S w a) :=
  II.saturatingNeg_spec hw hn ha
example : 2 ≤ 8 ∧ 1 ≤ 3 ∧ WF 8 3 [0, 0, 128] ∧
    II.saturatingNeg 8 [0, 0, 128] = [255, 255, 127] := by decide

/-- `BInt::saturating_abs (MAX on overflow)` -/
theorem i_saturating_abs {w n : Nat} {a : List Nat} (hw : 2 ≤ w) (hn : 1 ≤ n)
    (ha : WF w n a) :
    WF w n (II.saturatingAbs w a) ∧
    S w (II.saturatingAbs w a) = Spec.clamp true (M w n) (((S w a).natAbs : Int)) :=
  II.saturatingAbs_spec hw hn ha
example : 2 ≤ 8 ∧ 1 ≤ 3 ∧ WF 8 3 [0, 0, 128] ∧
    II.saturatingAbs 8 [0, 0, 128] = [255, 255, 127] := by decide

/-- the side picked by `BInt::saturating_add` (sign of `self`) is the side where the exact result lies -/
theorem i_saturating_add_side {w n : Nat} {a b : List Nat} (hw : 1 ≤ w) (hn : 1 ≤ n)
    (ha : WF w n a) (hb : WF w n b) (hov : ¬ repS (M w n) (S w a + S w b)) :
    (isNegative w a = true → 2 * (S w a + S w b) < -(M w n : Int)) ∧
    (isNegative w a = false → (M w n : Int) ≤ 2 * (S w a + S w b)) :=
  II.add_overflow_side hw hn ha hb hov
example : 1 ≤ 8 ∧ 1 ≤ 3 ∧ WF 8 3 [0, 0, 128] ∧ WF 8 3 [200, 7, 255] ∧
    ¬ repS (M 8 3) (S 8 [0, 0, 128] + S 8 [200, 7, 255]) := by decide

/-- the side picked by `BInt::saturating_sub` (sign of `self`) is the side where the exact result lies -/
theorem i_saturating_sub_side {w n : Nat} {a b : List Nat} (hw : 1 ≤ w) (hn : 1 ≤ n)
    (ha : WF w n a) (hb : WF w n b) (hov : ¬ repS (M w n) (S w a - S w b)) :
    (isNegative w a = true → 2 * (S w a - S w b) < -(M w n : Int)) ∧
    (isNegative w a = false → (M w n : Int) ≤ 2 * (S w a - S w b)) :=
  II.sub_overflow_side hw hn ha hb hov
example : 1 ≤ 8 ∧ 1 ≤ 3 ∧ WF 8 3 [0, 0, 128] ∧ WF 8 3 [5, 0, 0] ∧
    ¬ repS (M 8 3) (S 8 [0, 0, 128] - S 8 [5, 0, 0]) := by decide

/-! ## midpoint and abs_diff (Model/Misc.lean) -/

/-- `BUint::midpoint`: never panics (either build profile), rounds down -/
theorem u_midpoint_spec {w n : Nat} {a b : List Nat} (dbg : Bool) (hw : 2 ≤ w) (hn : 1 ≤ n)
    (ha : WF w n a) (hb : WF w n b) :
    ∃ r, UI.midpoint dbg w a b = Outcome.ok r ∧ WF w n r ∧ U w r = (U w a + U w b) / 2 :=
  UI.midpoint_spec dbg hw hn ha hb
example : 2 ≤ 8 ∧ 1 ≤ 3 ∧ WF 8 3 [255, 255, 255] ∧ WF 8 3 [254, 255, 255] ∧
    UI.midpoint true 8 [255, 255, 255] [254, 255, 255] = Outcome.ok [254, 255, 255] := by decide

/-- `BInt::midpoint`: never panics (either build profile), rounds toward zero -/
theorem i_midpoint_spec {w n : Nat} {a b : List Nat} (dbg : Bool) (hw : 2 ≤ w) (hn : 1 ≤ n)
    (ha : WF w n a) (hb : WF w n b) :
    ∃ r, II.midpoint dbg w a b = Outcome.ok r ∧ WF w n r ∧ S w r = Int.tdiv (S w a + S w b) 2 :=
  II.midpoint_spec dbg hw hn ha hb
example : 2 ≤ 8 ∧ 1 ≤ 3 ∧ WF 8 3 [255, 255, 255] ∧ WF 8 3 [252, 255, 255] ∧
    II.midpoint true 8 [255, 255, 255] [252, 255, 255] = Outcome.ok [254, 255, 255] ∧
    II.midpoint false 8 [0, 0, 128] [255, 255, 127] = Outcome.ok [0, 0, 0] := by decide

/-- `BUint::abs_diff` -/
theorem u_abs_diff {w n : Nat} {a b : List Nat} (ha : WF w n a) (hb : WF w n b) :
    WF w n (UI.absDiff w a b) ∧ U w (UI.absDiff w a b) = ((U w a : Int) - U w b).natAbs :=
  UI.absDiff_spec ha hb
example : WF 8 3 [3, 0, 0] ∧ WF 8 3 [255, 255, 127] ∧
    UI.absDiff 8 [3, 0, 0] [255, 255, 127] = [252, 255, 127] := by decide

/-- `BInt::abs_diff` (returns a `BUint`) -/
theorem i_abs_diff {w n : Nat} {a b : List Nat} (hw : 1 ≤ w) (hn : 1 ≤ n)
    (ha : WF w n a) (hb : WF w n b) :
    WF w n (II.absDiff w a b) ∧ U w (II.absDiff w a b) = (S w a - S w b).natAbs :=
  II.absDiff_spec hw hn ha hb
example : 1 ≤ 8 ∧ 1 ≤ 3 ∧ WF 8 3 [0, 0, 128] ∧ WF 8 3 [255, 255, 127] ∧
    II.absDiff 8 [0, 0, 128] [255, 255, 127] = [255, 255, 255] := by decide
/-- `BUint::checked_neg` is written (and modelled) with an `is_zero` test; it is nevertheless the
    projection of `overflowing_neg` like every other checked form -/
theorem u_checked_neg_proj {w n : Nat} {a : List Nat} (hw : 1 ≤ w) (hn : 1 ≤ n) (ha : WF w n a) :
    UI.checkedNeg w a = tupleToOption (UI.overflowingNeg w a) :=
  UI.checkedNeg_eq_proj hw hn ha
example : 1 ≤ 8 ∧ 1 ≤ 3 ∧ WF 8 3 [0, 0, 0] ∧ UI.checkedNeg 8 [0, 0, 0] = some [0, 0, 0] := by decide


/-! ## "The checked, wrapping, saturating and strict forms are projections of that pair" — stated literally

The theorems above characterise every form directly against the exact result; the ones below state the
relation between the forms themselves: each derived form is a function of the `overflowing_*` pair only
(`tuple_to_option`, `.0`, `expect`, flag-selected bound).  Most hold by the way the code (and so the model)
is written; `BUint::checked_neg` / `strict_neg` (written with `is_zero`) and `BInt::wrapping_add` /
`wrapping_sub` (computed by the unsigned adder on the bit patterns, not by the signed loop) need a proof. -/

/-- every `checked_*` form is `tuple_to_option` of its `overflowing_*` pair
    (`BUint::checked_neg`: `u_checked_neg_proj`) -/
theorem checked_forms_are_projections (w : Nat) (a b : List Nat) :
    UI.checkedAdd w a b = tupleToOption (UI.overflowingAdd w a b) ∧
    UI.checkedSub w a b = tupleToOption (UI.overflowingSub w a b) ∧
    UI.checkedAddSigned w a b = tupleToOption (UI.overflowingAddSigned w a b) ∧
    II.checkedAdd w a b = tupleToOption (II.overflowingAdd w a b) ∧
    II.checkedSub w a b = tupleToOption (II.overflowingSub w a b) ∧
    II.checkedAddUnsigned w a b = tupleToOption (II.overflowingAddUnsigned w a b) ∧
    II.checkedSubUnsigned w a b = tupleToOption (II.overflowingSubUnsigned w a b) ∧
    II.checkedNeg w a = tupleToOption (II.overflowingNeg w a) ∧
    II.checkedAbs w a = tupleToOption (II.overflowingAbs w a) :=
  ⟨rfl, rfl, rfl, rfl, rfl, rfl, rfl, rfl, rfl⟩
example : II.checkedAdd 8 [255, 255, 127] [5, 0, 0] = none ∧
    II.overflowingAdd 8 [255, 255, 127] [5, 0, 0] = ([4, 0, 128], true) ∧
    UI.checkedSub 8 [200, 7, 255] [100, 250, 3] = some [100, 13, 251] := by decide

/-- every `strict_*` form is `expect` (panic on `None`) of `tuple_to_option` of its `overflowing_*` pair
    (`BUint::strict_neg`: `u_strict_neg_proj`) -/
theorem strict_forms_are_projections (w : Nat) (a b : List Nat) :
    UI.strictAdd w a b = Outcome.expect (tupleToOption (UI.overflowingAdd w a b)) ∧
    UI.strictSub w a b = Outcome.expect (tupleToOption (UI.overflowingSub w a b)) ∧
    UI.strictAddSigned w a b = Outcome.expect (tupleToOption (UI.overflowingAddSigned w a b)) ∧
    II.strictAdd w a b = Outcome.expect (tupleToOption (II.overflowingAdd w a b)) ∧
    II.strictSub w a b = Outcome.expect (tupleToOption (II.overflowingSub w a b)) ∧
    II.strictAddUnsigned w a b = Outcome.expect (tupleToOption (II.overflowingAddUnsigned w a b)) ∧
    II.strictSubUnsigned w a b = Outcome.expect (tupleToOption (II.overflowingSubUnsigned w a b)) ∧
    II.strictNeg w a = Outcome.expect (tupleToOption (II.overflowingNeg w a)) ∧
    II.strictAbs w a = Outcome.expect (tupleToOption (II.overflowingAbs w a)) :=
  ⟨rfl, rfl, rfl, rfl, rfl, rfl, rfl, rfl, rfl⟩
example : II.strictAdd 8 [255, 255, 127] [5, 0, 0] = Outcome.panic ∧
    II.strictNeg 8 [0, 0, 128] = Outcome.panic ∧ II.strictAbs 8 [200, 7, 255] = Outcome.ok [56, 248, 0] := by
  decide

/-- `BUint::strict_neg` (through the `is_zero` form of `checked_neg`) is the projection of `overflowing_neg` -/
theorem u_strict_neg_proj {w n : Nat} {a : List Nat} (hw : 1 ≤ w) (hn : 1 ≤ n) (ha : WF w n a) :
    UI.strictNeg w a = Outcome.expect (tupleToOption (UI.overflowingNeg w a)) := by
  unfold UI.strictNeg; rw [UI.checkedNeg_eq_proj hw hn ha]
example : 1 ≤ 8 ∧ 1 ≤ 3 ∧ WF 8 3 [1, 0, 0] ∧ UI.strictNeg 8 [1, 0, 0] = Outcome.panic ∧
    UI.overflowingNeg 8 [1, 0, 0] = ([255, 255, 255], true) := by decide

/-- every `wrapping_*` form is the `.0` of its `overflowing_*` pair
    (`BInt::wrapping_add` / `wrapping_sub`: `i_wrapping_add_proj` / `i_wrapping_sub_proj`) -/
theorem wrapping_forms_are_projections (w : Nat) (a b : List Nat) :
    UI.wrappingAdd w a b = (UI.overflowingAdd w a b).1 ∧
    UI.wrappingSub w a b = (UI.overflowingSub w a b).1 ∧
    UI.wrappingNeg w a = (UI.overflowingNeg w a).1 ∧
    UI.wrappingAddSigned w a b = (UI.overflowingAddSigned w a b).1 ∧
    II.wrappingAddUnsigned w a b = (II.overflowingAddUnsigned w a b).1 ∧
    II.wrappingSubUnsigned w a b = (II.overflowingSubUnsigned w a b).1 ∧
    II.wrappingNeg w a = (II.overflowingNeg w a).1 ∧
    II.wrappingAbs w a = (II.overflowingAbs w a).1 :=
  ⟨rfl, rfl, rfl, rfl, rfl, rfl, rfl, rfl⟩
example : UI.wrappingAdd 8 [200, 7, 255] [100, 250, 3] = [44, 2, 3] ∧
    II.wrappingAbs 8 [0, 0, 128] = [0, 0, 128] := by decide

/-- `BInt::wrapping_add` is computed as `from_bits(self.bits.wrapping_add(rhs.bits))` — by the unsigned adder —
    and is nevertheless exactly the `.0` of `BInt::overflowing_add` (computed by the signed loop) -/
theorem i_wrapping_add_proj {w n : Nat} {a b : List Nat} (hw : 2 ≤ w) (hn : 1 ≤ n)
    (ha : WF w n a) (hb : WF w n b) :
    II.wrappingAdd w a b = (II.overflowingAdd w a b).1 := II.wrappingAdd_eq_proj hw hn ha hb
example : 2 ≤ 8 ∧ 1 ≤ 3 ∧ WF 8 3 [255, 255, 127] ∧ WF 8 3 [5, 0, 0] ∧
    II.wrappingAdd 8 [255, 255, 127] [5, 0, 0] = [4, 0, 128] ∧
    (II.overflowingAdd 8 [255, 255, 127] [5, 0, 0]).1 = [4, 0, 128] := by decide

/-- same for `BInt::wrapping_sub` -/
theorem i_wrapping_sub_proj {w n : Nat} {a b : List Nat} (hw : 2 ≤ w) (hn : 1 ≤ n)
    (ha : WF w n a) (hb : WF w n b) :
    II.wrappingSub w a b = (II.overflowingSub w a b).1 := II.wrappingSub_eq_proj hw hn ha hb
example : 2 ≤ 8 ∧ 1 ≤ 3 ∧ WF 8 3 [0, 0, 128] ∧ WF 8 3 [5, 0, 0] ∧
    II.wrappingSub 8 [0, 0, 128] [5, 0, 0] = [251, 255, 127] ∧
    (II.overflowingSub 8 [0, 0, 128] [5, 0, 0]).1 = [251, 255, 127] := by decide

/-- unsigned `saturating_*`: the bound (MAX = all ones, MIN = zero) when the flag of the pair is set, else its value;
    for `saturating_add_signed` the bound is picked by the sign of `rhs` -/
theorem u_saturating_forms_are_projections (w : Nat) (a b : List Nat) :
    UI.saturatingAdd w a b =
      (if (UI.overflowingAdd w a b).2 then allOnes w a.length else (UI.overflowingAdd w a b).1) ∧
    UI.saturatingSub w a b =
      (if (UI.overflowingSub w a b).2 then zero a.length else (UI.overflowingSub w a b).1) ∧
    UI.saturatingAddSigned w a b =
      (if (UI.overflowingAddSigned w a b).2 then (if isNegative w b then zero a.length else allOnes w a.length)
       else (UI.overflowingAddSigned w a b).1) := by
  refine ⟨rfl, rfl, ?_⟩
  unfold UI.saturatingAddSigned UI.saturateDown UI.saturateUp
  cases isNegative w b <;> cases (UI.overflowingAddSigned w a b).2 <;> rfl
example : UI.saturatingAdd 8 [200, 7, 255] [100, 250, 3] = [255, 255, 255] ∧
    UI.saturatingAddSigned 8 [5, 0, 0] [200, 7, 255] = [0, 0, 0] := by decide

/-- signed `saturating_*`: MIN / MAX (picked by the sign of `self`, or fixed) when the flag of the pair is set,
    else its value -/
theorem i_saturating_forms_are_projections (w : Nat) (a b : List Nat) :
    II.saturatingAdd w a b =
      (if (II.overflowingAdd w a b).2 then (if isNegative w a then iMin w a.length else iMax w a.length)
       else (II.overflowingAdd w a b).1) ∧
    II.saturatingSub w a b =
      (if (II.overflowingSub w a b).2 then (if isNegative w a then iMin w a.length else iMax w a.length)
       else (II.overflowingSub w a b).1) ∧
    II.saturatingAddUnsigned w a b =
      (if (II.overflowingAddUnsigned w a b).2 then iMax w a.length else (II.overflowingAddUnsigned w a b).1) ∧
    II.saturatingSubUnsigned w a b =
      (if (II.overflowingSubUnsigned w a b).2 then iMin w a.length else (II.overflowingSubUnsigned w a b).1) ∧
    II.saturatingNeg w a =
      (if (II.overflowingNeg w a).2 then iMax w a.length else (II.overflowingNeg w a).1) ∧
    II.saturatingAbs w a =
      (if (II.overflowingAbs w a).2 then iMax w a.length else (II.overflowingAbs w a).1) := by
  refine ⟨?_, ?_, ?_, ?_, ?_, ?_⟩
  · unfold II.saturatingAdd II.checkedAdd tupleToOption
    cases (II.overflowingAdd w a b).2 <;> rfl
  · unfold II.saturatingSub II.checkedSub tupleToOption
    cases (II.overflowingSub w a b).2 <;> rfl
  · unfold II.saturatingAddUnsigned II.checkedAddUnsigned tupleToOption
    cases (II.overflowingAddUnsigned w a b).2 <;> rfl
  · unfold II.saturatingSubUnsigned II.checkedSubUnsigned tupleToOption
    cases (II.overflowingSubUnsigned w a b).2 <;> rfl
  · unfold II.saturatingNeg II.checkedNeg tupleToOption
    cases (II.overflowingNeg w a).2 <;> rfl
  · unfold II.saturatingAbs II.checkedAbs tupleToOption
    cases (II.overflowingAbs w a).2 <;> rfl
example : II.saturatingAdd 8 [0, 0, 128] [200, 7, 255] = [0, 0, 128] ∧
    II.saturatingSubUnsigned 8 [200, 7, 255] [200, 7, 255] = [0, 0, 128] ∧
    II.saturatingNeg 8 [0, 0, 128] = [255, 255, 127] := by decide

/-! ## the side of the remaining saturating forms ("clamp to MIN or MAX on the side where the exact result lies")

`i_saturating_add_side` / `i_saturating_sub_side` above cover the forms whose bound depends on the sign of `self`;
the forms below use a fixed bound (or, for `BUint::saturating_add_signed`, the sign of `rhs`). -/

/-- `BInt::saturating_add_unsigned` clamps to MAX: an unrepresentable `self + rhs` (`rhs` unsigned) lies above MAX -/
theorem i_saturating_add_unsigned_side {w n : Nat} {a b : List Nat} (hw : 1 ≤ w) (hn : 1 ≤ n)
    (ha : WF w n a) (hov : ¬ repS (M w n) (S w a + (U w b : Int))) :
    (M w n : Int) ≤ 2 * (S w a + (U w b : Int)) :=
  II.addUnsigned_overflow_side hw hn ha hov
example : 1 ≤ 8 ∧ 1 ≤ 3 ∧ WF 8 3 [5, 0, 0] ∧
    ¬ repS (M 8 3) (S 8 [5, 0, 0] + (U 8 [200, 7, 255] : Int)) := by decide

/-- `BInt::saturating_sub_unsigned` clamps to MIN: an unrepresentable `self - rhs` (`rhs` unsigned) lies below MIN -/
theorem i_saturating_sub_unsigned_side {w n : Nat} {a b : List Nat} (hw : 1 ≤ w) (hn : 1 ≤ n)
    (ha : WF w n a) (hov : ¬ repS (M w n) (S w a - (U w b : Int))) :
    2 * (S w a - (U w b : Int)) < -(M w n : Int) :=
  II.subUnsigned_overflow_side hw hn ha hov
example : 1 ≤ 8 ∧ 1 ≤ 3 ∧ WF 8 3 [200, 7, 255] ∧
    ¬ repS (M 8 3) (S 8 [200, 7, 255] - (U 8 [200, 7, 255] : Int)) := by decide

/-- `BInt::saturating_neg` / `saturating_abs` clamp to MAX: an unrepresentable `-self` / `|self|` lies above MAX -/
theorem i_saturating_neg_abs_side {w n : Nat} {a : List Nat} (hw : 1 ≤ w) (hn : 1 ≤ n)
    (ha : WF w n a) :
    (¬ repS (M w n) (-S w a) → (M w n : Int) ≤ 2 * (-S w a)) ∧
    (¬ repS (M w n) ((S w a).natAbs : Int) → (M w n : Int) ≤ 2 * ((S w a).natAbs : Int)) :=
  II.neg_overflow_side hw hn ha
example : 1 ≤ 8 ∧ 1 ≤ 3 ∧ WF 8 3 [0, 0, 128] ∧ ¬ repS (M 8 3) (-S 8 [0, 0, 128]) ∧
    ¬ repS (M 8 3) ((S 8 [0, 0, 128]).natAbs : Int) := by decide

/-- `BUint::saturating_add_signed` picks 0 when `rhs` is negative and MAX otherwise: an unrepresentable
    `self + rhs` lies below 0 in the first case and above MAX in the second -/
theorem u_saturating_add_signed_side {w n : Nat} {a b : List Nat} (hw : 1 ≤ w) (hn : 1 ≤ n)
    (ha : WF w n a) (hb : WF w n b) (hov : ¬ repU (M w n) ((U w a : Int) + S w b)) :
    (isNegative w b = true → (U w a : Int) + S w b < 0) ∧
    (isNegative w b = false → (M w n : Int) ≤ (U w a : Int) + S w b) :=
  UI.addSigned_overflow_side hw hn ha hb hov
example : 1 ≤ 8 ∧ 1 ≤ 3 ∧ WF 8 3 [5, 0, 0] ∧ WF 8 3 [200, 7, 255] ∧
    ¬ repU (M 8 3) ((U 8 [5, 0, 0] : Int) + S 8 [200, 7, 255]) := by decide

end Bnum.C01
