/-
  C10 — "For every radix in 2..=36 and every string made of an optional sign ('+', or '-' for signed
  types) followed by one or more valid digits - with any number of leading zeros - from_str_radix,
  FromStr and parse_bytes return Ok(v) exactly when the denoted integer v is representable and
  otherwise Err with kind PosOverflow or NegOverflow according to the sign. The empty string gives
  Empty and a lone sign gives InvalidDigit; a string containing any character that is not a digit of
  the radix (whitespace, non-ASCII, a second sign, '-' for unsigned types) is never accepted, and is
  rejected with InvalidDigit whenever it is too short for its digits to overflow the type.
  from_radix_be/from_radix_le (radix 2..=256) return Some(v) exactly when every digit is below the
  radix and the denoted value fits, and all of these panic only for an out-of-range radix."

  Scope of the theorems.  `w` = digit width, `n ≥ 1` = digit count.  Unsigned: every `w ≥ 8` with
  `4 ∣ w` (the `u8 → $Digit` casts must be lossless and `log2 radix ∣ w` for radices 2, 4, 16; all
  real digit types are 8/16/32/64).  Signed: `w = 2^s`, `3 ≤ s < 32` (`BInt::from_str_radix` tests
  `bit(BITS-1)`, whose index arithmetic uses shifts: see Model/BitOps.lean).  Strings are byte lists.
  `Spec.Radix.Grammar r signOk s = some (neg, ds)`: optional sign, then `ds ≠ []` digits `< r`
  (most significant first); `denote r (neg, ds) = ± valueOf r ds`.

  History.  On the original tree (a8327ce) `parse_complete` was false for radices 2, 4, 16: that arm
  of `from_buf_radix_internal` decided overflow from the digit *count*, so leading zeros beyond the
  capacity gave `PosOverflow`/`None` (`"00000000000000001"`, radix 16, 64 bits; finding F2, found by
  the differential check of this model against the crate).  /repo commit e0b6218 skips the most
  significant zero digits before the capacity test; Model/Radix.lean mirrors the repaired code
  (`skipZerosLoop`), and `parse_complete` below is the full statement, for every radix and any
  number of leading zeros.
-/
import Bnum.Lemmas.Radix
import Bnum.Lemmas.C10Extra
namespace Bnum.C10
open Bnum Bnum.Radix Bnum.Spec.Radix

/-! ### master statements: the model answers what `Spec.Radix.expectParse` prescribes
    (`Matches`: `Ok` of the denoted value / the prescribed error kind / some error) -/

theorem u_from_str_radix_spec {w n : Nat} (hn : 1 ≤ n) (hw8 : 8 ≤ w) (hw4 : 4 ∣ w) {r : Nat}
    (hr : 2 ≤ r) (hr36 : r ≤ 36) (s : List Nat) :
    Matches w n (expectParse r false (M w n) s) (UI.fromStrRadix w n s r) :=
  UI.fromStrRadix_matches hn hw8 hw4 hr hr36 s
example : 1 ≤ 2 ∧ 8 ≤ 8 ∧ 4 ∣ 8 ∧ 2 ≤ 10 ∧ 10 ≤ 36 ∧
    UI.fromStrRadix 8 2 [0x2b, 0x30, 0x31, 0x32, 0x33, 0x34] 10 = .ok (.ok [210, 4]) := by decide

theorem i_from_str_radix_spec {s n : Nat} (hn : 1 ≤ n) (hs3 : 3 ≤ s) (hs : s < 32) {r : Nat}
    (hr : 2 ≤ r) (hr36 : r ≤ 36) (str : List Nat) :
    Matches (2 ^ s) n (expectParse r true (M (2 ^ s) n) str) (II.fromStrRadix (2 ^ s) n str r) :=
  II.fromStrRadix_matches hn hs3 hs hr hr36 str
example : 1 ≤ 1 ∧ 3 ≤ 3 ∧ 3 < 32 ∧
    II.fromStrRadix (2 ^ 3) 1 [0x2d, 0x30, 0x31, 0x32, 0x38] 10 = .ok (.ok [128]) := by decide

/-! ### soundness: `Ok x` only for strings of the grammar, with the denoted, representable value -/

theorem u_parse_sound {w n : Nat} (hn : 1 ≤ n) (hw8 : 8 ≤ w) (hw4 : 4 ∣ w) {r : Nat}
    (hr : 2 ≤ r) (hr36 : r ≤ 36) {s x : List Nat} (h : UI.fromStrRadix w n s r = .ok (.ok x)) :
    ∃ g, Grammar r false s = some g ∧ WF w n x ∧ (U w x : Int) = denote r g ∧
      repU (M w n) (denote r g) := by
  have hm := u_from_str_radix_spec hn hw8 hw4 hr hr36 s
  rw [h] at hm
  obtain ⟨z, hz, rfl⟩ := Matches_ok_inv hm
  obtain ⟨g, hg, rfl, hrep⟩ := expect_ok_inv hz
  simp only [Bool.false_eq_true, if_false] at hrep
  exact ⟨g, hg, WF_ofInt _ _ _, U_ofInt_of_rep hrep, hrep⟩
example : UI.fromStrRadix 8 1 [0x66, 0x46] 16 = .ok (.ok [255]) := by decide

theorem i_parse_sound {s n : Nat} (hn : 1 ≤ n) (hs3 : 3 ≤ s) (hs : s < 32) {r : Nat}
    (hr : 2 ≤ r) (hr36 : r ≤ 36) {str x : List Nat}
    (h : II.fromStrRadix (2 ^ s) n str r = .ok (.ok x)) :
    ∃ g, Grammar r true str = some g ∧ WF (2 ^ s) n x ∧ S (2 ^ s) x = denote r g ∧
      repS (M (2 ^ s) n) (denote r g) := by
  have hm := i_from_str_radix_spec hn hs3 hs hr hr36 str
  rw [h] at hm
  obtain ⟨z, hz, rfl⟩ := Matches_ok_inv hm
  obtain ⟨g, hg, rfl, hrep⟩ := expect_ok_inv hz
  simp only [if_true] at hrep
  exact ⟨g, hg, WF_ofInt _ _ _, S_ofInt_of_rep hrep, hrep⟩
example : II.fromStrRadix (2 ^ 3) 1 [0x2d, 0x38, 0x30] 16 = .ok (.ok [128]) := by decide

/-- a string outside the grammar is never accepted (and the parser does not panic on it) -/
theorem u_parse_never_accepts_invalid {w n : Nat} (hn : 1 ≤ n) (hw8 : 8 ≤ w) (hw4 : 4 ∣ w)
    {r : Nat} (hr : 2 ≤ r) (hr36 : r ≤ 36) {s : List Nat} (h : Grammar r false s = none) :
    ∃ k, UI.fromStrRadix w n s r = .ok (.err k) := by
  have hm := u_from_str_radix_spec hn hw8 hw4 hr hr36 s
  by_cases hs : s = []
  · subst hs; exact ⟨.empty, by simpa [expectParse, Matches] using hm⟩
  · exact Matches_err hm (expect_of_none hs h).2
example : Grammar 10 false [0x31, 0x20] = none := by decide

theorem i_parse_never_accepts_invalid {s n : Nat} (hn : 1 ≤ n) (hs3 : 3 ≤ s) (hs : s < 32)
    {r : Nat} (hr : 2 ≤ r) (hr36 : r ≤ 36) {str : List Nat} (h : Grammar r true str = none) :
    ∃ k, II.fromStrRadix (2 ^ s) n str r = .ok (.err k) := by
  have hm := i_from_str_radix_spec hn hs3 hs hr hr36 str
  by_cases hs : str = []
  · subst hs; exact ⟨.empty, by simpa [expectParse, Matches] using hm⟩
  · exact Matches_err hm (expect_of_none hs h).2
example : Grammar 10 true [0x2d, 0x2d, 0x31] = none := by decide

/-! ### completeness (any number of leading zeros) and the overflow kinds -/

theorem u_parse_complete {w n : Nat} (hn : 1 ≤ n) (hw8 : 8 ≤ w) (hw4 : 4 ∣ w) {r : Nat}
    (hr : 2 ≤ r) (hr36 : r ≤ 36) {s : List Nat} {g : Bool × List Nat}
    (hg : Grammar r false s = some g) (hrep : repU (M w n) (denote r g)) :
    UI.fromStrRadix w n s r = .ok (.ok (ofInt w n (denote r g))) := by
  have hm := u_from_str_radix_spec (n := n) hn hw8 hw4 hr hr36 s
  rw [expect_of_grammar hg] at hm
  simpa [hrep, Matches] using hm
/-- the former counterexample (F2): 17 hex digits on 8 bits -/
example : Grammar 16 false (List.replicate 16 0x30 ++ [0x31]) = some (false, List.replicate 16 0 ++ [1])
    ∧ UI.fromStrRadix 8 1 (List.replicate 16 0x30 ++ [0x31]) 16 = .ok (.ok [1]) := by decide

theorem i_parse_complete {s n : Nat} (hn : 1 ≤ n) (hs3 : 3 ≤ s) (hs : s < 32) {r : Nat}
    (hr : 2 ≤ r) (hr36 : r ≤ 36) {str : List Nat} {g : Bool × List Nat}
    (hg : Grammar r true str = some g) (hrep : repS (M (2 ^ s) n) (denote r g)) :
    II.fromStrRadix (2 ^ s) n str r = .ok (.ok (ofInt (2 ^ s) n (denote r g))) := by
  have hm := i_from_str_radix_spec (n := n) hn hs3 hs hr hr36 str
  rw [expect_of_grammar hg] at hm
  simpa [hrep, Matches] using hm
example : Grammar 4 true [0x2d, 0x30, 0x30, 0x30, 0x30, 0x30, 0x31] = some (true, [0, 0, 0, 0, 0, 1])
    ∧ II.fromStrRadix (2 ^ 3) 1 [0x2d, 0x30, 0x30, 0x30, 0x30, 0x30, 0x31] 4 = .ok (.ok [255]) := by
  decide

theorem u_parse_overflow_kind {w n : Nat} (hn : 1 ≤ n) (hw8 : 8 ≤ w) (hw4 : 4 ∣ w) {r : Nat}
    (hr : 2 ≤ r) (hr36 : r ≤ 36) {s : List Nat} {g : Bool × List Nat}
    (hg : Grammar r false s = some g) (hrep : ¬ repU (M w n) (denote r g)) :
    UI.fromStrRadix w n s r = .ok (.err .posOverflow) := by
  have hm := u_from_str_radix_spec (n := n) hn hw8 hw4 hr hr36 s
  rw [expect_of_grammar hg] at hm
  have hneg : g.1 = false := Grammar_unsigned_fst hg
  simpa [hrep, hneg, Matches] using hm
example : Grammar 10 false [0x32, 0x35, 0x36] = some (false, [2, 5, 6]) ∧
    ¬ repU (M 8 1) (denote 10 (false, [2, 5, 6])) := by decide

theorem i_parse_overflow_kind {s n : Nat} (hn : 1 ≤ n) (hs3 : 3 ≤ s) (hs : s < 32) {r : Nat}
    (hr : 2 ≤ r) (hr36 : r ≤ 36) {str : List Nat} {g : Bool × List Nat}
    (hg : Grammar r true str = some g) (hrep : ¬ repS (M (2 ^ s) n) (denote r g)) :
    II.fromStrRadix (2 ^ s) n str r
      = .ok (.err (if g.1 then .negOverflow else .posOverflow)) := by
  have hm := i_from_str_radix_spec (n := n) hn hs3 hs hr hr36 str
  rw [expect_of_grammar hg] at hm
  cases hg1 : g.1 <;> simpa [hrep, hg1, Matches] using hm
example : Grammar 10 true [0x2d, 0x31, 0x32, 0x39] = some (true, [1, 2, 9]) ∧
    ¬ repS (M (2 ^ 3) 1) (denote 10 (true, [1, 2, 9])) := by decide

/-! ### empty string, lone sign, short malformed strings -/

theorem u_parse_empty (w n : Nat) {r : Nat} (hr : 2 ≤ r) (hr36 : r ≤ 36) :
    UI.fromStrRadix w n [] r = .ok (.err .empty) := by
  simp [UI.fromStrRadix, inRange, hr, hr36]
theorem i_parse_empty (w n : Nat) {r : Nat} (hr : 2 ≤ r) (hr36 : r ≤ 36) :
    II.fromStrRadix w n [] r = .ok (.err .empty) := by
  simp [II.fromStrRadix, inRange, hr, hr36]

theorem u_parse_lone_sign (w n : Nat) {r : Nat} (hr : 2 ≤ r) (hr36 : r ≤ 36) :
    UI.fromStrRadix w n [43] r = .ok (.err .invalidDigit) := by
  simp [UI.fromStrRadix, inRange, hr, hr36, fromBufRadixInternal]
theorem i_parse_lone_sign (w n : Nat) {r : Nat} (hr : 2 ≤ r) (hr36 : r ≤ 36) (c : Nat)
    (hc : c = 43 ∨ c = 45) : II.fromStrRadix w n [c] r = .ok (.err .invalidDigit) := by
  rcases hc with rfl | rfl <;>
    simp [II.fromStrRadix, inRange, hr, hr36, fromBufRadixInternal, Outcome.bind, II.finishParse]

/-- a malformed string whose digits cannot overflow (`r^len ≤ 2^BITS`, `len` = number of bytes after
    the optional sign) is rejected with `InvalidDigit` -/
theorem u_parse_invalid_short {w n : Nat} (hn : 1 ≤ n) (hw8 : 8 ≤ w) (hw4 : 4 ∣ w) {r : Nat}
    (hr : 2 ≤ r) (hr36 : r ≤ 36) {s : List Nat} (hs : s ≠ []) (h : Grammar r false s = none)
    (hlen : r ^ (splitSign false s).2.length ≤ M w n) :
    UI.fromStrRadix w n s r = .ok (.err .invalidDigit) := by
  have hm := u_from_str_radix_spec (n := n) hn hw8 hw4 hr hr36 s
  rw [(expect_of_none hs h).1 hlen] at hm
  exact hm
example : Grammar 10 false [0x2d, 0x35] = none ∧ 10 ^ (splitSign false [0x2d, 0x35]).2.length ≤ M 8 1 := by
  decide

theorem i_parse_invalid_short {s n : Nat} (hn : 1 ≤ n) (hs3 : 3 ≤ s) (hs : s < 32) {r : Nat}
    (hr : 2 ≤ r) (hr36 : r ≤ 36) {str : List Nat} (hne : str ≠ []) (h : Grammar r true str = none)
    (hlen : r ^ (splitSign true str).2.length ≤ M (2 ^ s) n) :
    II.fromStrRadix (2 ^ s) n str r = .ok (.err .invalidDigit) := by
  have hm := i_from_str_radix_spec (n := n) hn hs3 hs hr hr36 str
  rw [(expect_of_none hne h).1 hlen] at hm
  exact hm
example : Grammar 16 true [0x2b, 0x2d, 0x35] = none ∧
    16 ^ (splitSign true [0x2b, 0x2d, 0x35]).2.length ≤ M (2 ^ 3) 1 := by decide

/-! ### panics: exactly for an out-of-range radix -/

theorem u_from_str_radix_panic_iff {w n : Nat} (hn : 1 ≤ n) (hw8 : 8 ≤ w) (hw4 : 4 ∣ w) (r : Nat)
    (s : List Nat) : UI.fromStrRadix w n s r = .panic ↔ ¬ (2 ≤ r ∧ r ≤ 36) := by
  constructor
  · intro h hr
    have hm := u_from_str_radix_spec (n := n) hn hw8 hw4 hr.1 hr.2 s
    rw [h] at hm; exact Matches_not_panic hm
  · intro h
    have : inRange r 36 = false := by simpa [inRange] using h
    simp [UI.fromStrRadix, this]

theorem i_from_str_radix_panic_iff {s n : Nat} (hn : 1 ≤ n) (hs3 : 3 ≤ s) (hs : s < 32) (r : Nat)
    (str : List Nat) : II.fromStrRadix (2 ^ s) n str r = .panic ↔ ¬ (2 ≤ r ∧ r ≤ 36) := by
  constructor
  · intro h hr
    have hm := i_from_str_radix_spec (n := n) hn hs3 hs hr.1 hr.2 str
    rw [h] at hm; exact Matches_not_panic hm
  · intro h
    have : inRange r 36 = false := by simpa [inRange] using h
    simp [II.fromStrRadix, this]

/-! ### `FromStr` is `from_str_radix(_, 10)` -/

theorem u_from_str_eq (w n : Nat) (s : List Nat) : UI.fromStr w n s = UI.fromStrRadix w n s 10 := rfl
theorem i_from_str_eq (w n : Nat) (s : List Nat) : II.fromStr w n s = II.fromStrRadix w n s 10 := rfl

/-! ### `parse_bytes`: `Some` of the same value, `None` for every error -/

theorem u_parse_bytes_spec {w n : Nat} (hn : 1 ≤ n) (hw8 : 8 ≤ w) (hw4 : 4 ∣ w) {r : Nat}
    (hr : 2 ≤ r) (hr36 : r ≤ 36) (buf : List Nat) :
    UI.parseBytes w n buf r = .ok (expectOpt w n (expectParse r false (M w n) buf)) :=
  UI.parseBytes_spec hn hw8 hw4 hr hr36 buf
example : UI.parseBytes 8 1 [0x37, 0x66] 16 = .ok (some [0x7f]) ∧
    UI.parseBytes 8 1 [0x37, 0xc3, 0xa9] 16 = .ok none ∧ UI.parseBytes 8 1 [0x37, 0xc3] 16 = .ok none := by
  decide

theorem i_parse_bytes_spec {s n : Nat} (hn : 1 ≤ n) (hs3 : 3 ≤ s) (hs : s < 32) {r : Nat}
    (hr : 2 ≤ r) (hr36 : r ≤ 36) (buf : List Nat) :
    II.parseBytes (2 ^ s) n buf r
      = .ok (expectOpt (2 ^ s) n (expectParse r true (M (2 ^ s) n) buf)) :=
  II.parseBytes_spec hn hs3 hs hr hr36 buf
example : II.parseBytes (2 ^ 3) 1 [0x2d, 0x38, 0x30] 16 = .ok (some [0x80]) := by decide

/-- `parse_bytes` panics only for an out-of-range radix (and then only on valid UTF-8: the
    `from_utf8` check runs first) -/
theorem u_parse_bytes_panic {w n : Nat} (hn : 1 ≤ n) (hw8 : 8 ≤ w) (hw4 : 4 ∣ w) (r : Nat)
    (buf : List Nat) (h : UI.parseBytes w n buf r = .panic) : ¬ (2 ≤ r ∧ r ≤ 36) := by
  intro hr
  rw [u_parse_bytes_spec hn hw8 hw4 hr.1 hr.2] at h; cases h
theorem i_parse_bytes_panic {s n : Nat} (hn : 1 ≤ n) (hs3 : 3 ≤ s) (hs : s < 32) (r : Nat)
    (buf : List Nat) (h : II.parseBytes (2 ^ s) n buf r = .panic) : ¬ (2 ≤ r ∧ r ≤ 36) := by
  intro hr
  rw [i_parse_bytes_spec hn hs3 hs hr.1 hr.2] at h; cases h

/-- `parse_bytes` with an out-of-range radix, exactly: `from_utf8` runs before the radix assertion, so
    the call panics iff the bytes are well-formed UTF-8 and answers `None` otherwise (every `w`, `n`) -/
theorem u_parse_bytes_bad_radix (w n : Nat) {r : Nat} (hr : ¬ (2 ≤ r ∧ r ≤ 36)) (buf : List Nat) :
    UI.parseBytes w n buf r = if Prim.utf8Valid buf then .panic else .ok none := by
  have hR : inRange r 36 = false := by simpa [inRange] using hr
  unfold UI.parseBytes UI.fromStrRadix
  cases Prim.utf8Valid buf <;> simp [hR, Outcome.map]
example : UI.parseBytes 8 1 [0x31] 37 = .panic ∧ UI.parseBytes 8 1 [0x31, 0xc3] 37 = .ok none ∧
    UI.parseBytes 8 1 [] 0 = .panic ∧ UI.parseBytes 8 1 [0xff] 1 = .ok none := by decide

theorem i_parse_bytes_bad_radix (w n : Nat) {r : Nat} (hr : ¬ (2 ≤ r ∧ r ≤ 36)) (buf : List Nat) :
    II.parseBytes w n buf r = if Prim.utf8Valid buf then .panic else .ok none := by
  have hR : inRange r 36 = false := by simpa [inRange] using hr
  unfold II.parseBytes II.fromStrRadix
  cases Prim.utf8Valid buf <;> simp [hR, Outcome.map]
example : II.parseBytes 8 1 [0x2d, 0x31] 256 = .panic ∧ II.parseBytes 8 1 [0x2d, 0x80] 256 = .ok none := by
  decide

/-- `parse_bytes` panics exactly for an out-of-range radix on well-formed UTF-8 -/
theorem u_parse_bytes_panic_iff {w n : Nat} (hn : 1 ≤ n) (hw8 : 8 ≤ w) (hw4 : 4 ∣ w) (r : Nat)
    (buf : List Nat) :
    UI.parseBytes w n buf r = .panic ↔ ¬ (2 ≤ r ∧ r ≤ 36) ∧ Prim.utf8Valid buf = true := by
  constructor
  · intro h
    have hr := u_parse_bytes_panic hn hw8 hw4 r buf h
    refine ⟨hr, ?_⟩
    rw [u_parse_bytes_bad_radix w n hr] at h
    cases hu : Prim.utf8Valid buf
    · rw [hu] at h; cases h
    · rfl
  · rintro ⟨hr, hu⟩
    rw [u_parse_bytes_bad_radix w n hr, hu]; rfl
example : ¬ (2 ≤ 37 ∧ 37 ≤ 36) ∧ Prim.utf8Valid [0x31, 0xc3, 0xa9] = true ∧
    UI.parseBytes 8 1 [0x31, 0xc3, 0xa9] 37 = .panic := by decide

theorem i_parse_bytes_panic_iff {s n : Nat} (hn : 1 ≤ n) (hs3 : 3 ≤ s) (hs : s < 32) (r : Nat)
    (buf : List Nat) :
    II.parseBytes (2 ^ s) n buf r = .panic ↔ ¬ (2 ≤ r ∧ r ≤ 36) ∧ Prim.utf8Valid buf = true := by
  constructor
  · intro h
    have hr := i_parse_bytes_panic hn hs3 hs r buf h
    refine ⟨hr, ?_⟩
    rw [i_parse_bytes_bad_radix _ n hr] at h
    cases hu : Prim.utf8Valid buf
    · rw [hu] at h; cases h
    · rfl
  · rintro ⟨hr, hu⟩
    rw [i_parse_bytes_bad_radix _ n hr, hu]; rfl
example : ¬ (2 ≤ 1 ∧ 1 ≤ 36) ∧ Prim.utf8Valid [0x2d] = true ∧
    II.parseBytes (2 ^ 3) 1 [0x2d] 1 = .panic := by decide

/-- the UTF-8 validator of the spec side (`Spec.Utf8.valid`: decode each scalar value, require the
    shortest form, no surrogate, at most U+10FFFF — used by the driver's spec answer) and the model's
    `Prim.utf8Valid` (Unicode Table 3-7 byte ranges) agree on every byte list -/
theorem utf8_spec_eq_prim (buf : List Nat) : Spec.Utf8.valid buf = Prim.utf8Valid buf :=
  utf8_valid_eq buf
example : Spec.Utf8.valid [0x31, 0xe2, 0x82, 0xac, 0xf0, 0x9f, 0x98, 0x80] = true ∧
    Spec.Utf8.valid [0xc0, 0xb1] = false ∧ Spec.Utf8.valid [0xed, 0xa0, 0x80] = false ∧
    Spec.Utf8.valid [0xf4, 0x90, 0x80, 0x80] = false ∧ Spec.Utf8.valid [0xe2, 0x82] = false := by decide

/-- `FromStr::from_str` / `str::parse` never panics (radix 10 is in range) -/
theorem u_from_str_no_panic {w n : Nat} (hn : 1 ≤ n) (hw8 : 8 ≤ w) (hw4 : 4 ∣ w) (s : List Nat) :
    UI.fromStr w n s ≠ .panic := by
  rw [u_from_str_eq]
  intro h
  exact (u_from_str_radix_panic_iff hn hw8 hw4 10 s).mp h ⟨by omega, by omega⟩
theorem i_from_str_no_panic {s n : Nat} (hn : 1 ≤ n) (hs3 : 3 ≤ s) (hs : s < 32) (str : List Nat) :
    II.fromStr (2 ^ s) n str ≠ .panic := by
  rw [i_from_str_eq]
  intro h
  exact (i_from_str_radix_panic_iff hn hs3 hs 10 str).mp h ⟨by omega, by omega⟩
example : UI.fromStr 8 1 [0x32, 0x35, 0x36] = .ok (.err .posOverflow) ∧
    II.fromStr (2 ^ 3) 1 [0x2d, 0x31, 0x32, 0x38] = .ok (.ok [128]) := by decide

/-! ### `from_radix_be` / `from_radix_le` (radix 2..=256, digits are bytes)
    `Spec.Radix.expectDigits r m ds = some v` iff every digit is `< r` and `v = valueOf r ds < m`. -/

theorem from_radix_be_spec {w n r sh : Nat} (hn : 1 ≤ n) (hwb : w = 8 * 2 ^ sh) (hr : 2 ≤ r)
    (hr256 : r ≤ 256) (buf : List Nat) (hbuf : ∀ b ∈ buf, b < 256) :
    UI.fromRadixBe w n buf r = .ok ((expectDigits r (M w n) buf).map (ofNat w n)) :=
  UI.fromRadixBe_spec hn hwb hr hr256 buf hbuf
example : UI.fromRadixBe 8 2 [0, 0, 0, 1, 0] 2 = .ok (some [2, 0]) ∧
    UI.fromRadixBe 8 1 [1, 0] 256 = .ok none ∧ UI.fromRadixBe 8 1 [0, 7] 256 = .ok (some [7]) := by decide

theorem from_radix_le_spec {w n r sh : Nat} (hn : 1 ≤ n) (hwb : w = 8 * 2 ^ sh) (hr : 2 ≤ r)
    (hr256 : r ≤ 256) (buf : List Nat) (hbuf : ∀ b ∈ buf, b < 256) :
    UI.fromRadixLe w n buf r = .ok ((expectDigits r (M w n) buf.reverse).map (ofNat w n)) :=
  UI.fromRadixLe_spec hn hwb hr hr256 buf hbuf
example : UI.fromRadixLe 8 1 [9, 9, 1, 0, 0] 10 = .ok (some [199]) ∧
    UI.fromRadixLe 8 1 [9, 10] 10 = .ok none := by decide

/-- `Some(x)` exactly when every digit is below the radix and the denoted value fits -/
theorem from_radix_be_some_iff {w n r sh : Nat} (hn : 1 ≤ n) (hwb : w = 8 * 2 ^ sh) (hr : 2 ≤ r)
    (hr256 : r ≤ 256) (buf : List Nat) (hbuf : ∀ b ∈ buf, b < 256) (x : List Nat) :
    UI.fromRadixBe w n buf r = .ok (some x) ↔
      (∀ d ∈ buf, d < r) ∧ valueOf r buf < M w n ∧ WF w n x ∧ U w x = valueOf r buf := by
  rw [from_radix_be_spec hn hwb hr hr256 buf hbuf]
  unfold expectDigits
  by_cases h : buf.all (· < r) = true ∧ valueOf r buf < M w n
  · rw [if_pos h]
    have hall : ∀ d ∈ buf, d < r := by simpa using h.1
    simp only [Option.map_some, Outcome.ok.injEq, Option.some.injEq]
    constructor
    · intro e; subst e
      exact ⟨hall, h.2, WF_ofNat _ _ _, by rw [U_ofNat, Nat.mod_eq_of_lt h.2]⟩
    · rintro ⟨_, _, hx, hu⟩
      rw [← hu]; exact (eq_ofNat hx).symm
  · rw [if_neg h]
    simp only [Option.map_none, Outcome.ok.injEq, reduceCtorEq, false_iff]
    rintro ⟨h1, h2, _, _⟩
    exact h ⟨by simpa using h1, h2⟩

theorem from_radix_le_some_iff {w n r sh : Nat} (hn : 1 ≤ n) (hwb : w = 8 * 2 ^ sh) (hr : 2 ≤ r)
    (hr256 : r ≤ 256) (buf : List Nat) (hbuf : ∀ b ∈ buf, b < 256) (x : List Nat) :
    UI.fromRadixLe w n buf r = .ok (some x) ↔
      (∀ d ∈ buf, d < r) ∧ valueOfLE r buf < M w n ∧ WF w n x ∧ U w x = valueOfLE r buf := by
  rw [from_radix_le_spec hn hwb hr hr256 buf hbuf]
  unfold expectDigits
  rw [valueOf_reverse]
  by_cases h : buf.reverse.all (· < r) = true ∧ valueOfLE r buf < M w n
  · rw [if_pos h]
    have hall : ∀ d ∈ buf, d < r := by simpa using h.1
    simp only [Option.map_some, Outcome.ok.injEq, Option.some.injEq]
    constructor
    · intro e; subst e
      exact ⟨hall, h.2, WF_ofNat _ _ _, by rw [U_ofNat, Nat.mod_eq_of_lt h.2]⟩
    · rintro ⟨_, _, hx, hu⟩
      rw [← hu]; exact (eq_ofNat hx).symm
  · rw [if_neg h]
    simp only [Option.map_none, Outcome.ok.injEq, reduceCtorEq, false_iff]
    rintro ⟨h1, h2, _, _⟩
    exact h ⟨by simpa using h1, h2⟩

theorem from_radix_be_panic_iff {w n sh : Nat} (hn : 1 ≤ n) (hwb : w = 8 * 2 ^ sh) (r : Nat)
    (buf : List Nat) (hbuf : ∀ b ∈ buf, b < 256) :
    UI.fromRadixBe w n buf r = .panic ↔ ¬ (2 ≤ r ∧ r ≤ 256) := by
  constructor
  · intro h hr
    rw [from_radix_be_spec hn hwb hr.1 hr.2 buf hbuf] at h; cases h
  · intro h
    have : inRange r 256 = false := by simpa [inRange] using h
    simp [UI.fromRadixBe, this]

theorem from_radix_le_panic_iff {w n sh : Nat} (hn : 1 ≤ n) (hwb : w = 8 * 2 ^ sh) (r : Nat)
    (buf : List Nat) (hbuf : ∀ b ∈ buf, b < 256) :
    UI.fromRadixLe w n buf r = .panic ↔ ¬ (2 ≤ r ∧ r ≤ 256) := by
  constructor
  · intro h hr
    rw [from_radix_le_spec hn hwb hr.1 hr.2 buf hbuf] at h; cases h
  · intro h
    have : inRange r 256 = false := by simpa [inRange] using h
    simp [UI.fromRadixLe, this]

/-- the signed types wrap the unsigned result with `from_bits` -/
theorem i_from_radix_eq (w n : Nat) (buf : List Nat) (r : Nat) :
    II.fromRadixBe w n buf r = UI.fromRadixBe w n buf r ∧
    II.fromRadixLe w n buf r = UI.fromRadixLe w n buf r := ⟨rfl, rfl⟩

/-- `BInt::from_radix_be` in terms of the *signed* value: "the denoted value fits" is the unsigned
    range `valueOf r buf < 2^BITS`, and the result is that value reinterpreted in two's complement
    (`wrapS`): a value in `[2^(BITS-1), 2^BITS)` is accepted and comes out negative -/
theorem i_from_radix_be_some_iff {w n r sh : Nat} (hn : 1 ≤ n) (hwb : w = 8 * 2 ^ sh) (hr : 2 ≤ r)
    (hr256 : r ≤ 256) (buf : List Nat) (hbuf : ∀ b ∈ buf, b < 256) (x : List Nat) :
    II.fromRadixBe w n buf r = .ok (some x) ↔
      (∀ d ∈ buf, d < r) ∧ valueOf r buf < M w n ∧ WF w n x ∧
        S w x = wrapS (M w n) (valueOf r buf : Int) := by
  show UI.fromRadixBe w n buf r = .ok (some x) ↔ _
  rw [from_radix_be_some_iff hn hwb hr hr256 buf hbuf x]
  constructor
  · rintro ⟨h1, h2, h3, h4⟩; exact ⟨h1, h2, h3, (U_eq_iff_S_eq_wrapS h3 h2).mp h4⟩
  · rintro ⟨h1, h2, h3, h4⟩; exact ⟨h1, h2, h3, (U_eq_iff_S_eq_wrapS h3 h2).mpr h4⟩
example : II.fromRadixBe 8 1 [2, 5, 5] 10 = .ok (some [255]) ∧ S 8 [255] = -1 ∧
    wrapS (M 8 1) (valueOf 10 [2, 5, 5] : Int) = -1 ∧ II.fromRadixBe 8 1 [2, 5, 6] 10 = .ok none := by
  decide

theorem i_from_radix_le_some_iff {w n r sh : Nat} (hn : 1 ≤ n) (hwb : w = 8 * 2 ^ sh) (hr : 2 ≤ r)
    (hr256 : r ≤ 256) (buf : List Nat) (hbuf : ∀ b ∈ buf, b < 256) (x : List Nat) :
    II.fromRadixLe w n buf r = .ok (some x) ↔
      (∀ d ∈ buf, d < r) ∧ valueOfLE r buf < M w n ∧ WF w n x ∧
        S w x = wrapS (M w n) (valueOfLE r buf : Int) := by
  show UI.fromRadixLe w n buf r = .ok (some x) ↔ _
  rw [from_radix_le_some_iff hn hwb hr hr256 buf hbuf x]
  constructor
  · rintro ⟨h1, h2, h3, h4⟩; exact ⟨h1, h2, h3, (U_eq_iff_S_eq_wrapS h3 h2).mp h4⟩
  · rintro ⟨h1, h2, h3, h4⟩; exact ⟨h1, h2, h3, (U_eq_iff_S_eq_wrapS h3 h2).mpr h4⟩
example : II.fromRadixLe 8 1 [8, 2, 1] 10 = .ok (some [128]) ∧ S 8 [128] = -128 ∧
    wrapS (M 8 1) (valueOfLE 10 [8, 2, 1] : Int) = -128 := by decide

/-- the signed digit-slice constructors, too, panic exactly for an out-of-range radix -/
theorem i_from_radix_panic_iff {w n sh : Nat} (hn : 1 ≤ n) (hwb : w = 8 * 2 ^ sh) (r : Nat)
    (buf : List Nat) (hbuf : ∀ b ∈ buf, b < 256) :
    (II.fromRadixBe w n buf r = .panic ↔ ¬ (2 ≤ r ∧ r ≤ 256)) ∧
    (II.fromRadixLe w n buf r = .panic ↔ ¬ (2 ≤ r ∧ r ≤ 256)) :=
  ⟨from_radix_be_panic_iff hn hwb r buf hbuf, from_radix_le_panic_iff hn hwb r buf hbuf⟩
example : II.fromRadixBe 8 1 [] 257 = .panic ∧ II.fromRadixLe 8 1 [] 1 = .panic ∧
    II.fromRadixLe 8 1 [] 256 = .ok (some [0]) := by decide

/-! `parse_str_radix` (the panicking `const` twin, outside the property's list but part of the same
    API): it returns `x` exactly when `from_str_radix` returns `Ok(x)` and panics in every other
    case, so with the theorems above it accepts exactly the representable numerals. -/
theorem u_parse_str_radix_iff (w n : Nat) (s : List Nat) (r : Nat) (x : List Nat) :
    UI.parseStrRadix w n s r = .ok x ↔ UI.fromStrRadix w n s r = .ok (.ok x) := by
  unfold UI.parseStrRadix
  cases h : UI.fromStrRadix w n s r with
  | panic => simp
  | ok p => cases p <;> simp
example : UI.parseStrRadix 8 2 [0x2b, 0x30, 0x31, 0x32, 0x33, 0x34] 10 = .ok [210, 4]
    ∧ UI.parseStrRadix 8 1 [0x32, 0x35, 0x36] 10 = .panic := by decide

theorem i_parse_str_radix_iff (w n : Nat) (s : List Nat) (r : Nat) (x : List Nat) :
    II.parseStrRadix w n s r = .ok x ↔ II.fromStrRadix w n s r = .ok (.ok x) := by
  unfold II.parseStrRadix
  cases h : II.fromStrRadix w n s r with
  | panic => simp
  | ok p => cases p <;> simp
example : II.parseStrRadix (2 ^ 3) 1 [0x2d, 0x31, 0x32, 0x38] 10 = .ok [128]
    ∧ II.parseStrRadix (2 ^ 3) 1 [0x31, 0x32, 0x38] 10 = .panic := by decide

/-- `parse_str_radix` panics exactly when `from_str_radix` panics or returns `Err` -/
theorem u_parse_str_radix_panic_iff (w n : Nat) (s : List Nat) (r : Nat) :
    UI.parseStrRadix w n s r = .panic ↔ ∀ x, UI.fromStrRadix w n s r ≠ .ok (.ok x) := by
  unfold UI.parseStrRadix
  cases h : UI.fromStrRadix w n s r with
  | panic => simp
  | ok p => cases p <;> simp
theorem i_parse_str_radix_panic_iff (w n : Nat) (s : List Nat) (r : Nat) :
    II.parseStrRadix w n s r = .panic ↔ ∀ x, II.fromStrRadix w n s r ≠ .ok (.ok x) := by
  unfold II.parseStrRadix
  cases h : II.fromStrRadix w n s r with
  | panic => simp
  | ok p => cases p <;> simp
example : UI.parseStrRadix 8 1 [0x31] 37 = .panic ∧ II.parseStrRadix (2 ^ 3) 1 [] 10 = .panic := by decide

end Bnum.C10
