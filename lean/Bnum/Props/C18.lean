/-
  C18: "With the numtraits feature, the Integer, Roots, Euclid, Signed, PrimInt, Bounded, Zero/One,
  Num, Pow, MulAdd and Checked*/Wrapping*/Saturating*/Overflowing* implementations return what each
  trait documents for the denoted value at every width: div_floor/mod_floor round toward negative
  infinity with the remainder taking the divisor's sign, div_rem truncates, gcd is the non-negative
  greatest common divisor and lcm the least common multiple whenever these are representable, sqrt,
  cbrt and nth_root(n) return the integer r of largest magnitude with |r^n| <= |x| (sign preserved
  for odd n) for every n >= 1, and the arithmetic forwarders equal the inherent methods."

  Model: Bnum/Model/NumTraits.lean (`NumT.U.*` = trait methods of `BUint<N>`, `NumT.I.*` = of
  `BInt<N>`), mirroring `src/{int,buint,bint}/numtraits.rs` of /repo at 7f46e5d.

  Status.  Every statement below is proved for all digit counts `n ≥ 1` and
    * the `Integer` part for all digit widths `w ≥ 1` (unsigned) / `w ≥ 2` (signed),
    * the `Roots` part for all power-of-two digit widths `w = 2^s`, `1 ≤ s < 32` (sqrt: `s < 32`);
      `power_of_two` and `to_u128` index digits with shifts and masks that are `/ w`, `% w` only for
      such widths — u8/u16/u32/u64 are `s = 3..6`,
  in both build profiles (`dbg : Bool` = `cfg(debug_assertions)`), for all root degrees
  `1 ≤ d ≤ u32::MAX`.  Division inside the trait bodies is the crate's `div_rem_unchecked`, i.e.
  Knuth's Algorithm D, whose correctness is `KDL.knuthD_correct` (Lemmas/KnuthD.lean).
  The loops without syntactic bound (binary gcd, the two loops of `fixpoint`) are modelled with fuel;
  the theorems include that the fuel is never exhausted (termination) and that no intermediate
  `+`, `-`, `*`, `<<`, `>>`, `pow`, `/` panics.

  Trusted assumption.  Values below `2^128` take the `#[cfg(not(test))]` shortcut through
  `to_u128()` and num-integer's primitive `u128::sqrt/cbrt/nth_root`; the model puts
  `NumT.Prim.uRoot` there ("the exact integer root", proved so in `prim_uRoot_spec`), which stands for
  num-integer's code — not verified here.  Everything `≥ 2^128` is the crate's own Newton iteration
  and is proved from the digit level up.

  History (defects found by this property on the pinned snapshot a8327ce, repaired in /repo; the
  model and the theorems are about the repaired code, the differential check reproduced both):
    F4  (fix: 1a88b70, src/bint/numtraits.rs)  `Integer::div_floor` / `mod_floor` for `BInt` were
        `*self / *other`, `*self % *other` — truncating: `(-7).div_floor(2) = -3` (want `-4`),
        `(-7).mod_floor(2) = -1` (want `1`), and `div_rem` was built on them.
    F5  (fix: 7f46e5d, src/buint/numtraits.rs)  `nth_root(n)`, `n ≥ 4`: the Newton step computed
        `self / s.pow(n-1)`; for the first guess `s = 2^(bits/n+1)` the power overflows whenever
        `(bits/n+1)(n-1) ≥ BITS` — panic in both build modes, e.g. `BUint::<4>::MAX.nth_root(17)`,
        `nth_root(40)`, `(100)`, `(255)`.  Now `checked_pow`, overflow ⇒ quotient `0` (exact, since
        then `s^(n-1) > self`).
  Observation (not part of the property): `is_multiple_of(x, 0)` panics (remainder by zero) where
  num-integer's primitive impls return `x == 0`.

  Sections 6–8 (added after the gap audit): the whole division family incl. `div_mod_floor`,
  `is_multiple_of`, `divides` on `MIN / -1`; `MulAdd` / `abs_sub` in BOTH build profiles including the
  overflow branch (debug: panic, release: wrap); `Signed::abs/signum/is_positive/is_negative` at value
  level; num-integer's provided `Integer` methods (`div_ceil`, `next_multiple_of`, `prev_multiple_of`,
  `gcd_lcm`, `inc`, `dec`) running on the crate's operators (Model/C18Extra.lean).
-/
import Bnum.Lemmas.NumTraits
import Bnum.Lemmas.C18Extra
namespace Bnum.C18
open Bnum NumT

/-! ## 1. `Integer` for `BUint<N>` -/

/-- C18: `gcd` is the greatest common divisor (binary gcd: terminates, never panics) -/
theorem u_gcd_spec {w n : Nat} (hw : 1 ≤ w) {a b : List Nat} (ha : WF w n a) (hb : WF w n b)
    (dbg : Bool) :
    ∃ r, U.gcd dbg w a b = .ok r ∧ WF w n r ∧ U w r = Nat.gcd (U w a) (U w b) :=
  U.gcd_spec hw ha hb dbg
example : WF 8 3 [12, 0, 1] ∧ WF 8 3 [18, 3, 0] := by decide
example : U.gcd true 8 [12, 0, 1] [18, 3, 0] = .ok [2, 0, 0] := by decide

/-- C18: `lcm` is the least common multiple whenever it is representable -/
theorem u_lcm_spec {w n : Nat} (hw : 1 ≤ w) (hn : 1 ≤ n) {a b : List Nat} (ha : WF w n a)
    (hb : WF w n b) (hrep : Nat.lcm (U w a) (U w b) < M w n) (dbg : Bool) :
    ∃ r, U.lcm dbg w a b = .ok r ∧ WF w n r ∧ U w r = Nat.lcm (U w a) (U w b) :=
  U.lcm_spec hw hn ha hb hrep dbg
example : WF 8 2 [12, 0] ∧ WF 8 2 [18, 0] ∧ Nat.lcm (U 8 [12, 0]) (U 8 [18, 0]) < M 8 2 := by decide

/-- C18: unsigned `div_floor` / `mod_floor` / `div_rem` / `div_mod_floor` are quotient and remainder
    (for unsigned numbers floor and truncation coincide) -/
theorem u_divFloor_spec {w n : Nat} (hw : 1 ≤ w) (hn : 1 ≤ n) {a b : List Nat} (ha : WF w n a)
    (hb : WF w n b) (hb0 : U w b ≠ 0) :
    ∃ q, U.divFloor w a b = .ok q ∧ WF w n q ∧ U w q = U w a / U w b :=
  U.divFloor_spec hw hn ha hb hb0
theorem u_modFloor_spec {w n : Nat} (hw : 1 ≤ w) (hn : 1 ≤ n) {a b : List Nat} (ha : WF w n a)
    (hb : WF w n b) (hb0 : U w b ≠ 0) :
    ∃ r, U.modFloor w a b = .ok r ∧ WF w n r ∧ U w r = U w a % U w b :=
  U.modFloor_spec hw hn ha hb hb0
theorem u_divRem_spec {w n : Nat} (hw : 1 ≤ w) (hn : 1 ≤ n) {a b : List Nat} (ha : WF w n a)
    (hb : WF w n b) (hb0 : U w b ≠ 0) :
    ∃ q r, U.divRem w a b = .ok (q, r) ∧ WF w n q ∧ WF w n r ∧
      U w q = U w a / U w b ∧ U w r = U w a % U w b :=
  U.divRem_spec hw hn ha hb hb0
theorem u_divModFloor_spec {w n : Nat} (hw : 1 ≤ w) (hn : 1 ≤ n) {a b : List Nat} (ha : WF w n a)
    (hb : WF w n b) (hb0 : U w b ≠ 0) :
    ∃ q r, U.divModFloor w a b = .ok (q, r) ∧ WF w n q ∧ WF w n r ∧
      U w q = U w a / U w b ∧ U w r = U w a % U w b :=
  U.divModFloor_spec hw hn ha hb hb0
example : WF 8 3 [200, 1, 7] ∧ WF 8 3 [9, 2, 0] ∧ U 8 [9, 2, 0] ≠ 0 := by decide

/-- C18: `is_multiple_of` decides divisibility (non-zero divisor) -/
theorem u_isMultipleOf_spec {w n : Nat} (hw : 1 ≤ w) (hn : 1 ≤ n) {a b : List Nat} (ha : WF w n a)
    (hb : WF w n b) (hb0 : U w b ≠ 0) :
    U.isMultipleOf w a b = .ok (decide (U w b ∣ U w a)) :=
  U.isMultipleOf_spec hw hn ha hb hb0

/-- C18: a zero divisor panics in the whole division family -/
theorem u_div_by_zero {w : Nat} {a b : List Nat} (hb0 : U w b = 0) :
    U.divFloor w a b = .panic ∧ U.modFloor w a b = .panic ∧ U.divRem w a b = .panic ∧
    U.divModFloor w a b = .panic ∧ U.isMultipleOf w a b = .panic :=
  U.div_by_zero hb0
example : U 8 [0, 0, 0] = 0 := by decide

/-- C18: `is_even` / `is_odd` -/
theorem u_isEven_spec {w n : Nat} (hw : 1 ≤ w) (hn : 1 ≤ n) {a : List Nat} (ha : WF w n a) :
    U.isEven a = decide (U w a % 2 = 0) ∧ U.isOdd a = decide (U w a % 2 = 1) :=
  U.isEven_spec hw hn ha

/-! ## 2. `Integer` for `BInt<N>` -/

section signed
variable {w n : Nat} {a b : List Nat} (hw : 2 ≤ w) (hn : 1 ≤ n) (ha : WF w n a) (hb : WF w n b)
  (hb0 : S w b ≠ 0) (hov : ¬ (S w a = -((M w n / 2 : Nat) : Int) ∧ S w b = -1)) (dbg : Bool)
include hw hn ha hb hb0 hov

/-- C18: `div_rem` truncates -/
theorem i_divRem_spec :
    ∃ q r, I.divRem dbg w a b = .ok (q, r) ∧ WF w n q ∧ WF w n r ∧
      S w q = (S w a).tdiv (S w b) ∧ S w r = (S w a).tmod (S w b) :=
  I.divRem_spec hw hn ha hb hb0 hov dbg

/-- C18: `div_floor` rounds toward negative infinity -/
theorem i_divFloor_spec :
    ∃ q, I.divFloor dbg w a b = .ok q ∧ WF w n q ∧ S w q = (S w a).fdiv (S w b) :=
  I.divFloor_spec hw hn ha hb hb0 hov dbg

/-- C18: `mod_floor` is the remainder of the floor division … -/
theorem i_modFloor_spec :
    ∃ r, I.modFloor dbg w a b = .ok r ∧ WF w n r ∧ S w r = (S w a).fmod (S w b) :=
  I.modFloor_spec hw hn ha hb hb0 hov dbg

/-- … which takes the divisor's sign, is smaller than the divisor in magnitude, and recomposes -/
theorem i_modFloor_sign :
    ∃ q r, I.divModFloor dbg w a b = .ok (q, r) ∧ S w a = S w b * S w q + S w r ∧
      (0 < S w b → 0 ≤ S w r ∧ S w r < S w b) ∧ (S w b < 0 → S w b < S w r ∧ S w r ≤ 0) := by
  obtain ⟨q, r, h, -, -, sq, sr⟩ := I.divModFloor_spec hw hn ha hb hb0 hov dbg
  refine ⟨q, r, h, ?_, ?_⟩
  · rw [sq, sr]; exact (fdiv_fmod _ _).symm
  · rw [sr]; exact fmod_sign _ _ hb0

theorem i_divModFloor_spec :
    ∃ q r, I.divModFloor dbg w a b = .ok (q, r) ∧ WF w n q ∧ WF w n r ∧
      S w q = (S w a).fdiv (S w b) ∧ S w r = (S w a).fmod (S w b) :=
  I.divModFloor_spec hw hn ha hb hb0 hov dbg

/-- C18: `is_multiple_of` decides divisibility -/
theorem i_isMultipleOf_spec : I.isMultipleOf dbg w a b = .ok (decide (S w b ∣ S w a)) :=
  I.isMultipleOf_spec hw hn ha hb hb0 hov dbg
end signed
-- the hypotheses are satisfiable: -7 and 2 on 8 bits; and the model on them (the F4 inputs)
example : WF 8 1 [0xf9] ∧ WF 8 1 [2] ∧ S 8 [0xf9] = -7 ∧ S 8 [2] ≠ 0 ∧
    ¬ (S 8 [0xf9] = -((M 8 1 / 2 : Nat) : Int) ∧ S 8 [2] = -1) := by decide
example : I.divFloor true 8 [0xf9] [2] = .ok [0xfc] ∧ I.modFloor true 8 [0xf9] [2] = .ok [1] ∧
    I.divRem true 8 [0xf9] [2] = .ok ([0xfd], [0xff]) := by decide

/-- C18: a zero divisor panics in the whole signed division family -/
theorem i_div_by_zero {w n : Nat} {a b : List Nat} (hb : WF w n b) (hb0 : S w b = 0) (dbg : Bool) :
    I.divRem dbg w a b = .panic ∧ I.divFloor dbg w a b = .panic ∧ I.modFloor dbg w a b = .panic ∧
    I.divModFloor dbg w a b = .panic ∧ I.isMultipleOf dbg w a b = .panic :=
  I.div_by_zero hb hb0 dbg

/-- C18: `MIN / -1` (quotient not representable) panics like the primitive integers -/
theorem i_min_neg_one {w n : Nat} {a b : List Nat} (hw : 1 ≤ w) (hn : 1 ≤ n) (ha : WF w n a)
    (hb : WF w n b) (hov : S w a = -((M w n / 2 : Nat) : Int) ∧ S w b = -1) (dbg : Bool) :
    I.divRem dbg w a b = .panic ∧ I.divFloor dbg w a b = .panic ∧ I.modFloor dbg w a b = .panic :=
  I.min_neg_one hw hn ha hb hov dbg
example : WF 8 2 [0, 0x80] ∧ WF 8 2 [0xff, 0xff] ∧
    S 8 [0, 0x80] = -((M 8 2 / 2 : Nat) : Int) ∧ S 8 [0xff, 0xff] = -1 := by decide

/-- C18: signed `gcd` is the non-negative gcd of the magnitudes whenever representable
    (always, except `gcd(MIN, MIN)` and `gcd(MIN, 0)` whose value `2^(BITS-1)` does not fit) -/
theorem i_gcd_spec {w n : Nat} {a b : List Nat} (hw : 2 ≤ w) (hn : 1 ≤ n) (ha : WF w n a)
    (hb : WF w n b) (hrep : 2 * Nat.gcd (S w a).natAbs (S w b).natAbs < M w n) (dbg : Bool) :
    ∃ r, I.gcd dbg w a b = .ok r ∧ WF w n r ∧
      S w r = (Nat.gcd (S w a).natAbs (S w b).natAbs : Int) :=
  I.gcd_spec hw hn ha hb hrep dbg
example : WF 8 1 [0xf4] ∧ WF 8 1 [18] ∧ S 8 [0xf4] = -12 ∧
    2 * Nat.gcd (S 8 [0xf4]).natAbs (S 8 [18]).natAbs < M 8 1 := by decide
example : I.gcd true 8 [0xf4] [18] = .ok [6] := by decide

/-- C18: signed `lcm` is the non-negative least common multiple whenever representable -/
theorem i_lcm_spec {w n : Nat} {a b : List Nat} (hw : 2 ≤ w) (hn : 1 ≤ n) (ha : WF w n a)
    (hb : WF w n b) (hrep : 2 * Nat.lcm (S w a).natAbs (S w b).natAbs < M w n) (dbg : Bool) :
    ∃ r, I.lcm dbg w a b = .ok r ∧ WF w n r ∧
      S w r = (Nat.lcm (S w a).natAbs (S w b).natAbs : Int) :=
  I.lcm_spec hw hn ha hb hrep dbg
example : 2 * Nat.lcm (S 8 [0xf4]).natAbs (S 8 [18]).natAbs < M 8 1 := by decide
example : I.lcm true 8 [0xf4] [18] = .ok [36] := by decide

theorem i_isEven_spec {w n : Nat} {a : List Nat} (hw : 2 ≤ w) (hn : 1 ≤ n) (ha : WF w n a) :
    I.isEven a = decide (S w a % 2 = 0) ∧ I.isOdd a = decide (S w a % 2 = 1) :=
  I.isEven_spec hw hn ha

/-! ## 3. `Roots`

`IsRoot d x r`  :=  `r^d ≤ x ∧ x < (r+1)^d`;
`IsRootZ d z r` :=  `IsRoot d |z| |r|` and `r` has the sign of `z`
(the integer of largest magnitude with `|r^d| ≤ |z|`, sign preserved). -/

/-- the two characterisations determine the root uniquely -/
theorem root_unique {d x r r' : Nat} (h : IsRoot d x r) (h' : IsRoot d x r') : r = r' := h.unique h'
theorem rootZ_unique {d : Nat} {z r r' : Int} (h : IsRootZ d z r) (h' : IsRootZ d z r') : r = r' :=
  h.unique h'

/-- the stand-in for num-integer's `u128` roots is the exact integer root (what is *assumed* about
    num-integer is that its `u128::sqrt/cbrt/nth_root` compute this function) -/
theorem prim_uRoot_spec {d x : Nat} (hd : 1 ≤ d) (hx : x < 2 ^ 128) : IsRoot d x (Prim.uRoot d x) :=
  uRoot_spec hd hx
set_option maxRecDepth 100000 in
example : IsRoot 3 1000 (Prim.uRoot 3 1000) ∧ Prim.uRoot 3 1000 = 10 := by decide

section roots
variable {s n : Nat} {x : List Nat} (hs1 : 1 ≤ s) (hs : s < 32) (hn : 1 ≤ n)
  (hx : WF (2 ^ s) n x) (dbg : Bool)

/-- C18: `sqrt` of a `BUint`: `r² ≤ x < (r+1)²`; no panic, no internal overflow, terminates -/
theorem u_sqrt_spec (hs : s < 32) (hn : 1 ≤ n) (hx : WF (2 ^ s) n x) (dbg : Bool) :
    ∃ r, U.sqrt dbg (2 ^ s) x = .ok r ∧ WF (2 ^ s) n r ∧ IsRoot 2 (U (2 ^ s) x) (U (2 ^ s) r) :=
  U.sqrt_spec hs hn hx dbg

include hs1 hs hn hx
/-- C18: `cbrt` of a `BUint`: `r³ ≤ x < (r+1)³` -/
theorem u_cbrt_spec :
    ∃ r, U.cbrt dbg (2 ^ s) x = .ok r ∧ WF (2 ^ s) n r ∧ IsRoot 3 (U (2 ^ s) x) (U (2 ^ s) r) :=
  U.cbrt_spec hs1 hs hn hx dbg

/-- C18: `nth_root(d)` of a `BUint` for EVERY degree `1 ≤ d ≤ u32::MAX`: `r^d ≤ x < (r+1)^d`;
    in particular no panic when `s^(d-1)` exceeds the width (F5) -/
theorem u_nthRoot_spec {d : Nat} (hd : 1 ≤ d) (hd32 : d < 2 ^ 32) :
    ∃ r, U.nthRoot dbg (2 ^ s) x d = .ok r ∧ WF (2 ^ s) n r ∧
      IsRoot d (U (2 ^ s) x) (U (2 ^ s) r) :=
  U.nthRoot_spec hs1 hs hn hx hd hd32 dbg

/-- C18: signed `sqrt`: panics on negative numbers, else the integer square root -/
theorem i_sqrt_spec :
    (S (2 ^ s) x < 0 → I.sqrt dbg (2 ^ s) x = .panic) ∧
    (0 ≤ S (2 ^ s) x → ∃ r, I.sqrt dbg (2 ^ s) x = .ok r ∧ WF (2 ^ s) n r ∧
      IsRootZ 2 (S (2 ^ s) x) (S (2 ^ s) r)) :=
  I.sqrt_spec hs1 hs hn hx dbg

/-- C18: signed `cbrt`: sign preserved (`cbrt(-x) = -cbrt(x)`), `MIN` included -/
theorem i_cbrt_spec :
    ∃ r, I.cbrt dbg (2 ^ s) x = .ok r ∧ WF (2 ^ s) n r ∧ IsRootZ 3 (S (2 ^ s) x) (S (2 ^ s) r) :=
  I.cbrt_spec hs1 hs hn hx dbg

/-- C18: signed `nth_root(d)`: panics for `d = 0` and for an even root of a negative number;
    otherwise the root of largest magnitude with the sign of the radicand, for every degree -/
theorem i_nthRoot_spec {d : Nat} (hd32 : d < 2 ^ 32) :
    (d = 0 → I.nthRoot dbg (2 ^ s) x d = .panic) ∧
    (S (2 ^ s) x < 0 → d % 2 = 0 → I.nthRoot dbg (2 ^ s) x d = .panic) ∧
    (1 ≤ d → (0 ≤ S (2 ^ s) x ∨ d % 2 = 1) →
      ∃ r, I.nthRoot dbg (2 ^ s) x d = .ok r ∧ WF (2 ^ s) n r ∧
        IsRootZ d (S (2 ^ s) x) (S (2 ^ s) r)) :=
  I.nthRoot_spec hs1 hs hn hx hd32 dbg
end roots

/-- C18: `nth_root(0)` panics ("attempt to calculate zeroth root") -/
theorem u_nthRoot_zero (dbg : Bool) (w : Nat) (x : List Nat) : U.nthRoot dbg w x 0 = .panic := rfl

-- the hypotheses are satisfiable at 64-bit digits (s = 6), and the kernel's run of the model on the
-- F5 inputs: `BUint::<4>::MAX.nth_root(17)` and a degree whose power overflows in every iteration
example : (1 : Nat) ≤ 6 ∧ 6 < 32 ∧ WF (2 ^ 6) 4 (allOnes 64 4) ∧ (17 : Nat) < 2 ^ 32 := by decide
example : U.nthRoot true 64 (allOnes 64 4) 17 = .ok [34131, 0, 0, 0] := by decide
example : U.nthRoot false 64 (allOnes 64 3) 100 = .ok [3, 0, 0] := by decide
example : IsRoot 17 (U 64 (allOnes 64 4)) 34131 := by decide

/-- the Spec functions used by the driver are the same mathematical objects as in the theorems -/
theorem spec_iroot_isRoot (d x : Nat) (hd : 1 ≤ d) : IsRoot d x (Spec.NumT.iroot d x) :=
  spec_iroot d x hd
theorem spec_rootInt_isRootZ (d : Nat) (z : Int) (hd : 1 ≤ d) :
    IsRootZ d z (Spec.NumT.rootInt d z) := spec_rootInt d z hd

/-! ## 4. `Signed::abs_sub`, `MulAdd` (the only forwarders with a body of their own) -/

/-- C18: `abs_sub` is the positive difference -/
theorem i_absSub_spec {w n : Nat} {a b : List Nat} (hw : 2 ≤ w) (hn : 1 ≤ n) (ha : WF w n a)
    (hb : WF w n b) (dbg : Bool) :
    (S w a ≤ S w b → I.absSub dbg w a b = .ok (zero n)) ∧
    (S w b < S w a → repS (M w n) (S w a - S w b) →
      ∃ r, I.absSub dbg w a b = .ok r ∧ WF w n r ∧ S w r = S w a - S w b) :=
  I.absSub_spec hw hn ha hb dbg

/-- C18: `mul_add(a, b) = self * a + b` -/
theorem u_mulAdd_spec {w n : Nat} {x a c : List Nat} (hx : WF w n x) (ha : WF w n a)
    (hc : WF w n c) (hrep : U w x * U w a + U w c < M w n) (dbg : Bool) :
    ∃ r, U.mulAdd dbg w x a c = .ok r ∧ WF w n r ∧ U w r = U w x * U w a + U w c :=
  U.mulAdd_spec hx ha hc hrep dbg
theorem i_mulAdd_spec {w n : Nat} {x a c : List Nat} (hw : 2 ≤ w) (hn : 1 ≤ n) (hx : WF w n x)
    (ha : WF w n a) (hc : WF w n c) (hrep1 : repS (M w n) (S w x * S w a))
    (hrep2 : repS (M w n) (S w x * S w a + S w c)) (dbg : Bool) :
    ∃ r, I.mulAdd dbg w x a c = .ok r ∧ WF w n r ∧ S w r = S w x * S w a + S w c :=
  I.mulAdd_spec hw hn hx ha hc hrep1 hrep2 dbg
example : WF 8 1 [7] ∧ WF 8 1 [9] ∧ WF 8 1 [0xf0] ∧ repS (M 8 1) (S 8 [7] * S 8 [9]) ∧
    repS (M 8 1) (S 8 [7] * S 8 [9] + S 8 [0xf0]) := by decide

/-! ## 5. the forwarders equal the inherent methods
(`src/int/numtraits.rs impls!`, `prim_int_methods!`, `Signed`, `Bounded`, `Zero`, `One`, `Num`, `Pow`):
the trait model function IS the inherent model function. -/

theorem u_forwarders (w n : Nat) (dbg : Bool) (a b : List Nat) (k : Nat) :
    U.checkedAdd w a b = UI.checkedAdd w a b ∧ U.checkedSub w a b = UI.checkedSub w a b ∧
    U.checkedMul w a b = UI.checkedMul w a b ∧ U.checkedDiv w a b = UI.checkedDiv w a b ∧
    U.checkedRem w a b = UI.checkedRem w a b ∧ U.checkedNeg w a = UI.checkedNeg w a ∧
    U.checkedShl w a k = UI.checkedShl w a k ∧ U.checkedShr w a k = UI.checkedShr w a k ∧
    U.checkedDivEuclid w a b = UI.checkedDivEuclid w a b ∧
    U.checkedRemEuclid w a b = UI.checkedRemEuclid w a b ∧
    U.divEuclid w a b = UI.divEuclid w a b ∧ U.remEuclid w a b = UI.remEuclid w a b ∧
    U.saturatingAdd w a b = UI.saturatingAdd w a b ∧ U.saturatingSub w a b = UI.saturatingSub w a b ∧
    U.saturatingMul w a b = UI.saturatingMul w a b ∧
    U.wrappingAdd w a b = UI.wrappingAdd w a b ∧ U.wrappingSub w a b = UI.wrappingSub w a b ∧
    U.wrappingMul w a b = UI.wrappingMul w a b ∧ U.wrappingNeg w a = UI.wrappingNeg w a ∧
    U.wrappingShl w a k = UI.wrappingShl w a k ∧ U.wrappingShr w a k = UI.wrappingShr w a k ∧
    U.overflowingAdd w a b = UI.overflowingAdd w a b ∧
    U.overflowingSub w a b = UI.overflowingSub w a b ∧
    U.pow w dbg a k = UI.pow w dbg a k ∧
    U.minValue n = zero n ∧ U.maxValue w n = allOnes w n ∧ U.zeroV n = zero n ∧ U.oneV n = one n ∧
    U.isZeroT a = isZero a ∧ U.isOneT a = isOne a :=
  ⟨rfl, rfl, rfl, rfl, rfl, rfl, rfl, rfl, rfl, rfl, rfl, rfl, rfl, rfl, rfl, rfl, rfl, rfl, rfl, rfl,
   rfl, rfl, rfl, rfl, rfl, rfl, rfl, rfl, rfl, rfl⟩

theorem u_primInt_forwarders (w : Nat) (dbg e : Bool) (bw : Nat) (a : List Nat) (k : Nat) :
    U.countOnes w a = UI.countOnes w a ∧ U.countZeros w a = UI.countZeros w a ∧
    U.leadingZeros w a = UI.leadingZeros w a ∧ U.trailingZeros w a = UI.trailingZeros w a ∧
    U.leadingOnes w a = UI.leadingOnes w a ∧ U.trailingOnes w a = UI.trailingOnes w a ∧
    U.rotateLeft w a k = UI.rotateLeft w a k ∧ U.rotateRight w a k = UI.rotateRight w a k ∧
    U.swapBytes w a = UI.swapBytes w a ∧ U.reverseBits w a = UI.reverseBits w a ∧
    U.toBe e bw a = UI.toBe e bw a ∧ U.toLe e bw a = UI.toLe e bw a ∧
    U.fromBe e bw a = UI.fromBe e bw a ∧ U.fromLe e bw a = UI.fromLe e bw a ∧
    -- `signed_shl`, `unsigned_shl`, `unsigned_shr` are the operator `<<` / `>>` of `BUint`;
    -- `signed_shr` is the operator `>>` of `BInt` on the same bits (sign-propagating)
    U.signedShl dbg w a k = UI.shl dbg w a k ∧ U.unsignedShl dbg w a k = UI.shl dbg w a k ∧
    U.unsignedShr dbg w a k = UI.shr dbg w a k ∧ U.signedShr dbg w a k = II.shr dbg w a k :=
  ⟨rfl, rfl, rfl, rfl, rfl, rfl, rfl, rfl, rfl, rfl, rfl, rfl, rfl, rfl, rfl, rfl, rfl, rfl⟩

theorem u_num_forwarder (w n : Nat) (src : List Nat) (radix : Nat) :
    U.fromStrRadix w n src radix = UI.fromStrRadix w n src radix := rfl

theorem i_forwarders (w n : Nat) (dbg : Bool) (a b : List Nat) (k : Nat) :
    I.checkedAdd w a b = II.checkedAdd w a b ∧ I.checkedSub w a b = II.checkedSub w a b ∧
    I.checkedMul w a b = II.checkedMul w a b ∧ I.checkedDiv dbg w a b = II.checkedDiv dbg w a b ∧
    I.checkedRem dbg w a b = II.checkedRem dbg w a b ∧ I.checkedNeg w a = II.checkedNeg w a ∧
    I.checkedShl w a k = II.checkedShl w a k ∧ I.checkedShr w a k = II.checkedShr w a k ∧
    I.checkedDivEuclid dbg w a b = II.checkedDivEuclid dbg w a b ∧
    I.checkedRemEuclid dbg w a b = II.checkedRemEuclid dbg w a b ∧
    I.divEuclid dbg w a b = II.divEuclid dbg w a b ∧ I.remEuclid dbg w a b = II.remEuclid dbg w a b ∧
    I.saturatingAdd w a b = II.saturatingAdd w a b ∧ I.saturatingSub w a b = II.saturatingSub w a b ∧
    I.saturatingMul w a b = II.saturatingMul w a b ∧
    I.wrappingAdd w a b = II.wrappingAdd w a b ∧ I.wrappingSub w a b = II.wrappingSub w a b ∧
    I.wrappingMul w a b = II.wrappingMul w a b ∧ I.wrappingNeg w a = II.wrappingNeg w a ∧
    I.wrappingShl w a k = II.wrappingShl w a k ∧ I.wrappingShr w a k = II.wrappingShr w a k ∧
    I.overflowingAdd w a b = II.overflowingAdd w a b ∧
    I.overflowingSub w a b = II.overflowingSub w a b ∧
    I.pow w dbg a k = II.pow w dbg a k ∧
    I.minValue w n = iMin w n ∧ I.maxValue w n = iMax w n ∧ I.zeroV n = zero n ∧ I.oneV n = one n ∧
    I.isZeroT a = isZero a ∧ I.isOneT a = isOne a :=
  ⟨rfl, rfl, rfl, rfl, rfl, rfl, rfl, rfl, rfl, rfl, rfl, rfl, rfl, rfl, rfl, rfl, rfl, rfl, rfl, rfl,
   rfl, rfl, rfl, rfl, rfl, rfl, rfl, rfl, rfl, rfl⟩

theorem i_primInt_forwarders (w : Nat) (dbg e : Bool) (bw : Nat) (a : List Nat) (k : Nat) :
    I.countOnes w a = II.countOnes w a ∧ I.countZeros w a = II.countZeros w a ∧
    I.leadingZeros w a = II.leadingZeros w a ∧ I.trailingZeros w a = II.trailingZeros w a ∧
    I.leadingOnes w a = II.leadingOnes w a ∧ I.trailingOnes w a = II.trailingOnes w a ∧
    I.rotateLeft w a k = II.rotateLeft w a k ∧ I.rotateRight w a k = II.rotateRight w a k ∧
    I.swapBytes w a = II.swapBytes w a ∧ I.reverseBits w a = II.reverseBits w a ∧
    I.toBe e bw a = II.toBe e bw a ∧ I.toLe e bw a = II.toLe e bw a ∧
    I.fromBe e bw a = II.fromBe e bw a ∧ I.fromLe e bw a = II.fromLe e bw a ∧
    -- `signed_shl`, `unsigned_shl`, `signed_shr` are the operators of `BInt`;
    -- `unsigned_shr` is the operator `>>` of `BUint` on the same bits (zero-filling)
    I.signedShl dbg w a k = II.shl dbg w a k ∧ I.unsignedShl dbg w a k = II.shl dbg w a k ∧
    I.signedShr dbg w a k = II.shr dbg w a k ∧ I.unsignedShr dbg w a k = UI.shr dbg w a k :=
  ⟨rfl, rfl, rfl, rfl, rfl, rfl, rfl, rfl, rfl, rfl, rfl, rfl, rfl, rfl, rfl, rfl, rfl, rfl⟩

/-- `Signed`: `abs`, `signum`, `is_positive`, `is_negative` forward to the inherent methods
    (`abs`: `strict_abs` in debug builds, `MIN` for `MIN` in release builds) -/
theorem i_signed_forwarders (w : Nat) (dbg : Bool) (a : List Nat) :
    I.abs dbg w a = Inh.abs dbg w a ∧ I.signum w a = II.signum w a ∧
    I.isPositive w a = II.isPositive w a ∧ I.isNegativeT w a = isNegative w a :=
  ⟨rfl, rfl, rfl, rfl⟩

theorem i_num_forwarder (w n : Nat) (src : List Nat) (radix : Nat) :
    I.fromStrRadix w n src radix = II.fromStrRadix w n src radix := rfl

/-! ## 6. the rest of the division family: `divides`, `MIN / -1` -/

/-- C18: `divides` (deprecated alias) decides divisibility like `is_multiple_of` -/
theorem u_divides_spec {w n : Nat} (hw : 1 ≤ w) (hn : 1 ≤ n) {a b : List Nat} (ha : WF w n a)
    (hb : WF w n b) (hb0 : U w b ≠ 0) :
    U.divides w a b = .ok (decide (U w b ∣ U w a)) :=
  U.isMultipleOf_spec hw hn ha hb hb0
example : WF 8 2 [12, 1] ∧ WF 8 2 [4, 0] ∧ U 8 [4, 0] ≠ 0 := by decide
example : U.divides 8 [12, 1] [4, 0] = .ok true ∧ U.divides 8 [13, 1] [4, 0] = .ok false := by decide

theorem i_divides_spec {w n : Nat} {a b : List Nat} (hw : 2 ≤ w) (hn : 1 ≤ n) (ha : WF w n a)
    (hb : WF w n b) (hb0 : S w b ≠ 0)
    (hov : ¬ (S w a = -((M w n / 2 : Nat) : Int) ∧ S w b = -1)) (dbg : Bool) :
    I.divides dbg w a b = .ok (decide (S w b ∣ S w a)) :=
  I.isMultipleOf_spec hw hn ha hb hb0 hov dbg
example : WF 8 1 [0xf4] ∧ WF 8 1 [0xfc] ∧ S 8 [0xfc] ≠ 0 ∧
    ¬ (S 8 [0xf4] = -((M 8 1 / 2 : Nat) : Int) ∧ S 8 [0xfc] = -1) := by decide
example : I.divides true 8 [0xf4] [0xfc] = .ok true := by decide

/-- C18: a zero divisor panics in `divides` too -/
theorem divides_by_zero {w n : Nat} {a b : List Nat} (hb : WF w n b) (dbg : Bool) :
    (U w b = 0 → U.divides w a b = .panic) ∧ (S w b = 0 → I.divides dbg w a b = .panic) :=
  ⟨fun h => (U.div_by_zero h).2.2.2.2, fun h => (I.div_by_zero hb h dbg).2.2.2.2⟩
example : WF 8 2 [0, 0] ∧ U 8 [0, 0] = 0 ∧ S 8 [0, 0] = 0 := by decide

/-- C18: `MIN / -1` panics in `div_mod_floor`, `is_multiple_of` and `divides` as well (together with
    `i_min_neg_one`: in the WHOLE division family, in both build profiles) -/
theorem i_min_neg_one_rest {w n : Nat} {a b : List Nat} (hw : 1 ≤ w) (hn : 1 ≤ n) (ha : WF w n a)
    (hb : WF w n b) (hov : S w a = -((M w n / 2 : Nat) : Int) ∧ S w b = -1) (dbg : Bool) :
    I.divModFloor dbg w a b = .panic ∧ I.isMultipleOf dbg w a b = .panic ∧
    I.divides dbg w a b = .panic :=
  I.min_neg_one_rest hw hn ha hb hov dbg
example : I.divModFloor false 8 [0, 0x80] [0xff, 0xff] = .panic ∧
    I.isMultipleOf false 8 [0, 0x80] [0xff, 0xff] = .panic := by decide

/-! ## 7. `MulAdd`, `abs_sub` in both build profiles (overflow branch included); `Signed` at value level -/

/-- C18: `mul_add` for `BUint`, complete: a debug build panics exactly when `x*a + c` does not fit;
    every run that returns, returns `x*a + c` reduced mod `2^BITS` -/
theorem u_mulAdd_full {w n : Nat} {x a c : List Nat} (hx : WF w n x) (ha : WF w n a)
    (hc : WF w n c) (dbg : Bool) :
    (U.mulAdd dbg w x a c = .panic ↔ dbg = true ∧ M w n ≤ U w x * U w a + U w c) ∧
    (∀ r, U.mulAdd dbg w x a c = .ok r →
      WF w n r ∧ U w r = (U w x * U w a + U w c) % M w n) :=
  U.mulAdd_full hx ha hc dbg
example : WF 8 1 [200] ∧ WF 8 1 [2] ∧ WF 8 1 [7] ∧ M 8 1 ≤ U 8 [200] * U 8 [2] + U 8 [7] := by decide
example : U.mulAdd true 8 [200] [2] [7] = .panic ∧ U.mulAdd false 8 [200] [2] [7] = .ok [151] := by
  decide

/-- C18: `mul_add` for `BInt`, complete -/
theorem i_mulAdd_full {w n : Nat} {x a c : List Nat} (hw : 2 ≤ w) (hn : 1 ≤ n) (hx : WF w n x)
    (ha : WF w n a) (hc : WF w n c) (dbg : Bool) :
    (I.mulAdd dbg w x a c = .panic ↔
      dbg = true ∧ (¬ repS (M w n) (S w x * S w a) ∨ ¬ repS (M w n) (S w x * S w a + S w c))) ∧
    (∀ r, I.mulAdd dbg w x a c = .ok r →
      WF w n r ∧ S w r = wrapS (M w n) (S w x * S w a + S w c)) :=
  I.mulAdd_full hw hn hx ha hc dbg
-- 100 * 2 overflows i8 although 100 * 2 + (-100) would fit: debug panics, release wraps to 100
example : WF 8 1 [100] ∧ WF 8 1 [2] ∧ WF 8 1 [0x9c] ∧ ¬ repS (M 8 1) (S 8 [100] * S 8 [2]) ∧
    repS (M 8 1) (S 8 [100] * S 8 [2] + S 8 [0x9c]) := by decide
example : I.mulAdd true 8 [100] [2] [0x9c] = .panic ∧ I.mulAdd false 8 [100] [2] [0x9c] = .ok [100] := by
  decide

/-- C18: `mul_add_assign` stores what `mul_add` returns -/
theorem mulAddAssign_eq (w : Nat) (dbg : Bool) (x a c : List Nat) :
    U.mulAddAssign dbg w x a c = U.mulAdd dbg w x a c ∧
    I.mulAddAssign dbg w x a c = I.mulAdd dbg w x a c := ⟨rfl, rfl⟩

/-- C18: `abs_sub`, complete: `0` for `self ≤ other`; otherwise the difference — a debug build panics
    exactly when it is not representable, a release build wraps -/
theorem i_absSub_full {w n : Nat} {a b : List Nat} (hw : 2 ≤ w) (hn : 1 ≤ n) (ha : WF w n a)
    (hb : WF w n b) (dbg : Bool) :
    (S w a ≤ S w b → I.absSub dbg w a b = .ok (zero n)) ∧
    (S w b < S w a →
      (I.absSub dbg w a b = .panic ↔ dbg = true ∧ ¬ repS (M w n) (S w a - S w b)) ∧
      (∀ r, I.absSub dbg w a b = .ok r → WF w n r ∧ S w r = wrapS (M w n) (S w a - S w b))) :=
  I.absSub_full hw hn ha hb dbg
example : WF 8 1 [100] ∧ WF 8 1 [0x9c] ∧ S 8 [0x9c] < S 8 [100] ∧
    ¬ repS (M 8 1) (S 8 [100] - S 8 [0x9c]) := by decide
example : I.absSub true 8 [100] [0x9c] = .panic ∧ I.absSub false 8 [100] [0x9c] = .ok [200] := by decide

/-- C18: `Signed::abs` is `|self|`; for `MIN` (whose magnitude does not fit) a debug build panics and a
    release build returns `MIN` -/
theorem i_abs_spec {w n : Nat} {a : List Nat} (hw : 2 ≤ w) (hn : 1 ≤ n) (ha : WF w n a) (dbg : Bool) :
    (S w a ≠ -((M w n / 2 : Nat) : Int) →
      ∃ r, I.abs dbg w a = .ok r ∧ WF w n r ∧ S w r = ((S w a).natAbs : Int)) ∧
    (S w a = -((M w n / 2 : Nat) : Int) →
      I.abs true w a = .panic ∧ I.abs false w a = .ok (iMin w n) ∧
      S w (iMin w n) = -((M w n / 2 : Nat) : Int)) :=
  I.abs_spec hw hn ha dbg
example : WF 8 2 [0xfb, 0xff] ∧ S 8 [0xfb, 0xff] ≠ -((M 8 2 / 2 : Nat) : Int) ∧
    I.abs true 8 [0xfb, 0xff] = .ok [5, 0] := by decide
example : WF 8 2 [0, 0x80] ∧ S 8 [0, 0x80] = -((M 8 2 / 2 : Nat) : Int) ∧
    I.abs true 8 [0, 0x80] = .panic ∧ I.abs false 8 [0, 0x80] = .ok [0, 0x80] := by decide

/-- C18: `Signed::signum` is `-1 / 0 / 1`, `is_positive` is `> 0`, `is_negative` is `< 0` -/
theorem i_signum_spec {w n : Nat} {a : List Nat} (hw : 2 ≤ w) (hn : 1 ≤ n) (ha : WF w n a) :
    WF w n (I.signum w a) ∧
    S w (I.signum w a) = if S w a < 0 then -1 else if S w a = 0 then 0 else 1 :=
  I.signum_spec hw hn ha
theorem i_isPositive_spec {w n : Nat} {a : List Nat} (hw : 1 ≤ w) (hn : 1 ≤ n) (ha : WF w n a) :
    I.isPositive w a = decide (0 < S w a) := I.isPositive_spec hw hn ha
theorem i_isNegative_spec {w n : Nat} {a : List Nat} (hw : 1 ≤ w) (hn : 1 ≤ n) (ha : WF w n a) :
    I.isNegativeT w a = decide (S w a < 0) := I.isNegativeT_spec hw hn ha
example : WF 8 2 [0, 0x80] ∧ I.signum 8 [0, 0x80] = [0xff, 0xff] ∧ I.isNegativeT 8 [0, 0x80] = true ∧
    I.isPositive 8 [0, 1] = true ∧ I.isPositive 8 [0, 0] = false := by decide

/-! ## 8. num-integer's provided `Integer` methods, run on the crate's operators
(`div_ceil`, `next_multiple_of`, `prev_multiple_of`, `gcd_lcm`, `inc`, `dec`; Model/C18Extra.lean) -/

/-- C18: `div_ceil` for `BUint` rounds the quotient up and never panics for a non-zero divisor -/
theorem u_divCeil_spec {w n : Nat} {a b : List Nat} (hw : 1 ≤ w) (hn : 1 ≤ n) (ha : WF w n a)
    (hb : WF w n b) (hb0 : U w b ≠ 0) (dbg : Bool) :
    ∃ r, U.divCeil dbg w a b = .ok r ∧ WF w n r ∧
      U w r = U w a / U w b + (if U w a % U w b = 0 then 0 else 1) :=
  U.divCeil_spec hw hn ha hb hb0 dbg
example : WF 8 1 [255] ∧ WF 8 1 [2] ∧ U 8 [2] ≠ 0 ∧ U.divCeil true 8 [255] [2] = .ok [128] := by decide

/-- C18: `prev_multiple_of` for `BUint` -/
theorem u_prevMultipleOf_spec {w n : Nat} {a b : List Nat} (hw : 1 ≤ w) (hn : 1 ≤ n)
    (ha : WF w n a) (hb : WF w n b) (hb0 : U w b ≠ 0) (dbg : Bool) :
    ∃ r, U.prevMultipleOf dbg w a b = .ok r ∧ WF w n r ∧ U w r = U w a - U w a % U w b :=
  U.prevMultipleOf_spec hw hn ha hb hb0 dbg
example : U.prevMultipleOf true 8 [255] [7] = .ok [252] := by decide

/-- C18: `next_multiple_of` for `BUint`, complete (a multiple beyond `MAX`: debug panic, release wrap) -/
theorem u_nextMultipleOf_full {w n : Nat} {a b : List Nat} (hw : 1 ≤ w) (hn : 1 ≤ n)
    (ha : WF w n a) (hb : WF w n b) (hb0 : U w b ≠ 0) (dbg : Bool) :
    let t := U w a + (if U w a % U w b = 0 then 0 else U w b - U w a % U w b)
    (U.nextMultipleOf dbg w a b = .panic ↔ dbg = true ∧ M w n ≤ t) ∧
    (∀ r, U.nextMultipleOf dbg w a b = .ok r → WF w n r ∧ U w r = t % M w n) :=
  U.nextMultipleOf_full hw hn ha hb hb0 dbg
example : WF 8 1 [255] ∧ WF 8 1 [7] ∧ U 8 [7] ≠ 0 ∧ U.nextMultipleOf true 8 [255] [7] = .panic ∧
    U.nextMultipleOf false 8 [255] [7] = .ok [3] ∧ U.nextMultipleOf true 8 [250] [7] = .ok [252] := by
  decide

/-- C18: `gcd_lcm` for `BUint` -/
theorem u_gcdLcm_spec {w n : Nat} {a b : List Nat} (hw : 1 ≤ w) (hn : 1 ≤ n) (ha : WF w n a)
    (hb : WF w n b) (hrep : Nat.lcm (U w a) (U w b) < M w n) (dbg : Bool) :
    ∃ g l, U.gcdLcm dbg w a b = .ok (g, l) ∧ WF w n g ∧ WF w n l ∧
      U w g = Nat.gcd (U w a) (U w b) ∧ U w l = Nat.lcm (U w a) (U w b) :=
  U.gcdLcm_spec hw hn ha hb hrep dbg
example : Nat.lcm (U 8 [12, 0]) (U 8 [18, 0]) < M 8 2 ∧
    U.gcdLcm true 8 [12, 0] [18, 0] = .ok ([6, 0], [36, 0]) := by decide

/-- C18: `inc` / `dec` for `BUint`, complete -/
theorem u_inc_dec_full {w n : Nat} {a : List Nat} (hw : 1 ≤ w) (hn : 1 ≤ n) (ha : WF w n a)
    (dbg : Bool) :
    ((U.inc dbg w a = .panic ↔ dbg = true ∧ M w n ≤ U w a + 1) ∧
     (∀ r, U.inc dbg w a = .ok r → WF w n r ∧ U w r = (U w a + 1) % M w n)) ∧
    ((U.dec dbg w a = .panic ↔ dbg = true ∧ U w a = 0) ∧
     (∀ r, U.dec dbg w a = .ok r →
       WF w n r ∧ (U w r : Int) = wrapU (M w n) ((U w a : Int) - 1))) :=
  ⟨U.inc_full hw hn ha dbg, U.dec_full hw hn ha dbg⟩
example : U.inc true 8 [255, 255] = .panic ∧ U.inc false 8 [255, 255] = .ok [0, 0] ∧
    U.dec false 8 [0, 0] = .ok [255, 255] ∧ U.dec true 8 [0, 1] = .ok [255, 0] := by decide

section provided_signed
variable {w n : Nat} {a b : List Nat} (hw : 2 ≤ w) (hn : 1 ≤ n) (ha : WF w n a) (hb : WF w n b)
  (hb0 : S w b ≠ 0) (hov : ¬ (S w a = -((M w n / 2 : Nat) : Int) ∧ S w b = -1)) (dbg : Bool)
include hw hn ha hb hb0 hov

/-- C18: `div_ceil` for `BInt`: the floor quotient plus one when the division is inexact, i.e. the
    quotient rounded toward `+∞`; no panic, the `+ 1` never overflows -/
theorem i_divCeil_spec :
    ∃ r, I.divCeil dbg w a b = .ok r ∧ WF w n r ∧
      S w r = (S w a).fdiv (S w b) + (if (S w a).fmod (S w b) = 0 then 0 else 1) :=
  I.divCeil_spec hw hn ha hb hb0 hov dbg

/-- C18: `prev_multiple_of` for `BInt`, complete -/
theorem i_prevMultipleOf_full :
    let t := S w a - (S w a).fmod (S w b)
    (I.prevMultipleOf dbg w a b = .panic ↔ dbg = true ∧ ¬ repS (M w n) t) ∧
    (∀ r, I.prevMultipleOf dbg w a b = .ok r → WF w n r ∧ S w r = wrapS (M w n) t) :=
  I.prevMultipleOf_full hw hn ha hb hb0 hov dbg

/-- C18: `next_multiple_of` for `BInt`, complete -/
theorem i_nextMultipleOf_full :
    let m := (S w a).fmod (S w b)
    let t := S w a + (if m = 0 then 0 else S w b - m)
    (I.nextMultipleOf dbg w a b = .panic ↔ dbg = true ∧ ¬ repS (M w n) t) ∧
    (∀ r, I.nextMultipleOf dbg w a b = .ok r → WF w n r ∧ S w r = wrapS (M w n) t) :=
  I.nextMultipleOf_full hw hn ha hb hb0 hov dbg
end provided_signed
-- -23 and 8 on 8 bits (num-integer's documentation examples), and the overflowing cases at the limits
example : WF 8 1 [0xe9] ∧ WF 8 1 [8] ∧ S 8 [0xe9] = -23 ∧ S 8 [8] ≠ 0 ∧
    ¬ (S 8 [0xe9] = -((M 8 1 / 2 : Nat) : Int) ∧ S 8 [8] = -1) := by decide
example : I.divCeil true 8 [0xe9] [8] = .ok [0xfe] ∧ I.nextMultipleOf true 8 [0xe9] [8] = .ok [0xf0] ∧
    I.prevMultipleOf true 8 [0xe9] [8] = .ok [0xe8] := by decide
example : I.nextMultipleOf true 8 [126] [5] = .panic ∧ I.nextMultipleOf false 8 [126] [5] = .ok [130] ∧
    I.prevMultipleOf true 8 [0x81] [5] = .panic := by decide

/-- C18: `gcd_lcm` for `BInt` -/
theorem i_gcdLcm_spec {w n : Nat} {a b : List Nat} (hw : 2 ≤ w) (hn : 1 ≤ n) (ha : WF w n a)
    (hb : WF w n b) (hrepg : 2 * Nat.gcd (S w a).natAbs (S w b).natAbs < M w n)
    (hrepl : 2 * Nat.lcm (S w a).natAbs (S w b).natAbs < M w n) (dbg : Bool) :
    ∃ g l, I.gcdLcm dbg w a b = .ok (g, l) ∧ WF w n g ∧ WF w n l ∧
      S w g = (Nat.gcd (S w a).natAbs (S w b).natAbs : Int) ∧
      S w l = (Nat.lcm (S w a).natAbs (S w b).natAbs : Int) :=
  I.gcdLcm_spec hw hn ha hb hrepg hrepl dbg
example : I.gcdLcm true 8 [0xf4] [18] = .ok ([6], [36]) := by decide

/-- C18: `inc` / `dec` for `BInt`, complete -/
theorem i_inc_dec_full {w n : Nat} {a : List Nat} (hw : 2 ≤ w) (hn : 1 ≤ n) (ha : WF w n a)
    (dbg : Bool) :
    ((I.inc dbg w a = .panic ↔ dbg = true ∧ ¬ repS (M w n) (S w a + 1)) ∧
     (∀ r, I.inc dbg w a = .ok r → WF w n r ∧ S w r = wrapS (M w n) (S w a + 1))) ∧
    ((I.dec dbg w a = .panic ↔ dbg = true ∧ ¬ repS (M w n) (S w a - 1)) ∧
     (∀ r, I.dec dbg w a = .ok r → WF w n r ∧ S w r = wrapS (M w n) (S w a - 1))) :=
  ⟨I.inc_full hw hn ha dbg, I.dec_full hw hn ha dbg⟩
example : I.inc true 8 [0xff, 0x7f] = .panic ∧ I.inc false 8 [0xff, 0x7f] = .ok [0, 0x80] ∧
    I.dec true 8 [0, 0x80] = .panic := by decide

/-- C18: the remaining forwarders (by-reference `SaturatingAdd/Sub/Mul`, `PrimInt::pow`) equal the
    inherent methods -/
theorem extra_forwarders (w : Nat) (dbg : Bool) (a b : List Nat) (k : Nat) :
    U.saturatingAddRef w a b = UI.saturatingAdd w a b ∧ U.saturatingSubRef w a b = UI.saturatingSub w a b ∧
    U.saturatingMulRef w a b = UI.saturatingMul w a b ∧ U.primIntPow w dbg a k = UI.pow w dbg a k ∧
    I.saturatingAddRef w a b = II.saturatingAdd w a b ∧ I.saturatingSubRef w a b = II.saturatingSub w a b ∧
    I.saturatingMulRef w a b = II.saturatingMul w a b ∧ I.primIntPow w dbg a k = II.pow w dbg a k ∧
    U.divides w a b = U.isMultipleOf w a b ∧ I.divides dbg w a b = I.isMultipleOf dbg w a b :=
  ⟨rfl, rfl, rfl, rfl, rfl, rfl, rfl, rfl, rfl, rfl⟩

end Bnum.C18
