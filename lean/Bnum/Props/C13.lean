/-
  C13 — "TryFrom from any bnum integer to any primitive integer, BTryFrom between any two bnum
  integers (all digit types, widths and signedness), and TryFrom/From from a primitive integer,
  bool or char into a bnum integer at least as wide as the source, return Ok/the value with the
  same numeric value exactly when it is representable in the target and Err otherwise, without
  panicking. from_digits/digits()/From<[digit; N]> expose the little-endian digit array unchanged
  and from_digit places its argument in the least significant digit."

  Shapes (Lemmas/Cast.lean):
    `ConvOk s w n o z`  : bnum target  — `o = .ok (some r)`, `WF r`, `valOf s w r = z` when `z` is
                          representable (`repOf s (M w n) z`); `o = .ok none` (`Err`) otherwise.
    `ConvOkP t o z`     : primitive target, same with a pattern `q < 2^K`, `PInt.val t q = z`.
    `FromOk s w n o z`  : infallible `From`: `o = .ok r`, `WF r`, `valOf s w r = z`.
  Each shape yields `ne_panic`, `ok_iff` (Ok ⇔ representable) and `value` (Ok x → same number).
  `valOf s w x` = `S w x` for signed, `U w x` for unsigned sources; `PInt.val t p` for primitives.
  Digit-width side conditions: BTryFrom — one digit width divides the other; bnum → primitive —
  the digit is wider than the primitive or the primitive is a whole number of digits (true for all
  real digit/primitive widths).  Modelling abstraction: `i << BIT_SHIFT` is `i * w`.

  The primitive → bnum dispatcher the driver executes has its own value-level theorem
  (`try_from_prim`, with F6 as the single explicit exclusion; `from_prim_total`: the `From`
  directions — and hence core's blanket `TryFrom` over them — never answer `Err`).  The digit-array
  clause is stated on the VALUE (`digits_little_endian`: digit `i` is `value / B^i mod B`) and the
  driver's independent specification functions are tied to `U` (`spec_from_digits`, `spec_digits`),
  besides the definitional identities (`fromDigits`/`digits` mirror the Rust field access).

  KNOWN DEFECT (F6): `From<uK> for BInt<N>` with `K = BITS` wraps — see `from_uint_signed_partial`
  (hypothesis `K < BITS`) and the counterexample `from_uint_signed_defect`.
-/
import Bnum.Lemmas.C13Extra
namespace Bnum.C13
open Bnum

/-! ### bnum → primitive: `TryFrom<BUint<N>/BInt<N>> for {u,i}{8…128,size}` -/

theorem try_to_prim {w n : Nat} {x : List Nat} (s : Bool) (t : PTy) (hw : 1 ≤ w) (hn : 1 ≤ n)
    (hk : 1 ≤ t.bits) (hdiv : t.bits < w ∨ ∃ c, t.bits = c * w) (hx : WF w n x) :
    ConvOkP t (tryToPrim w s x t) (valOf s w x) := tryToPrim_spec s t hw hn hk hdiv hx
example : WF 8 3 [0x80, 0xff, 0xff] ∧ (∃ c, (16 : Nat) = c * 8) ∧
    tryToPrim 8 true [0x80, 0xff, 0xff] ⟨16, true⟩ = .ok (some 0xff80) ∧
    tryToPrim 8 true [0x80, 0x7f, 0xff] ⟨16, true⟩ = .ok none := by
  refine ⟨by decide, ⟨2, rfl⟩, by decide, by decide⟩

/-- `Ok` exactly when representable -/
theorem try_to_prim_ok_iff {w n : Nat} {x : List Nat} (s : Bool) (t : PTy) (hw : 1 ≤ w)
    (hn : 1 ≤ n) (hk : 1 ≤ t.bits) (hdiv : t.bits < w ∨ ∃ c, t.bits = c * w) (hx : WF w n x) :
    (∃ q, tryToPrim w s x t = .ok (some q)) ↔ repOf t.signed (B t.bits) (valOf s w x) :=
  (try_to_prim s t hw hn hk hdiv hx).ok_iff
/-- `Ok q` denotes the same number -/
theorem try_to_prim_value {w n : Nat} {x : List Nat} (s : Bool) (t : PTy) (hw : 1 ≤ w)
    (hn : 1 ≤ n) (hk : 1 ≤ t.bits) (hdiv : t.bits < w ∨ ∃ c, t.bits = c * w) (hx : WF w n x)
    {q : Nat} (hq : tryToPrim w s x t = .ok (some q)) :
    q < B t.bits ∧ PInt.val t q = valOf s w x := (try_to_prim s t hw hn hk hdiv hx).value hq
theorem try_to_prim_ne_panic {w n : Nat} {x : List Nat} (s : Bool) (t : PTy) (hw : 1 ≤ w)
    (hn : 1 ≤ n) (hk : 1 ≤ t.bits) (hdiv : t.bits < w ∨ ∃ c, t.bits = c * w) (hx : WF w n x) :
    tryToPrim w s x t ≠ .panic := (try_to_prim s t hw hn hk hdiv hx).ne_panic

/-- the individual macros -/
theorem try_from_buint {w n : Nat} {x : List Nat} (t : PTy) (hw : 1 ≤ w) (hn : 1 ≤ n)
    (hk : 1 ≤ t.bits) (hdiv : t.bits < w ∨ ∃ c, t.bits = c * w) (hx : WF w n x) :
    ConvOkP t (UI.tryToPrim w x t) (U w x) := UI.tryToPrim_spec t hw hn hk hdiv hx
theorem int_try_from_bint {w n : Nat} {x : List Nat} (t : PTy) (hw : 1 ≤ w) (hn : 1 ≤ n)
    (hk : 1 ≤ t.bits) (hs : t.signed = true) (hdiv : t.bits < w ∨ ∃ c, t.bits = c * w)
    (hx : WF w n x) : ConvOkP t (II.tryToPrimSigned w x t) (S w x) :=
  II.tryToPrimSigned_spec t hw hn hk hs hdiv hx
theorem uint_try_from_bint {w n : Nat} {x : List Nat} (t : PTy) (hw : 1 ≤ w) (hn : 1 ≤ n)
    (hk : 1 ≤ t.bits) (hs : t.signed = false) (hdiv : t.bits < w ∨ ∃ c, t.bits = c * w)
    (hx : WF w n x) : ConvOkP t (II.tryToPrimUnsigned w x t) (S w x) :=
  II.tryToPrimUnsigned_spec t hw hn hk hs hdiv hx
example : WF 64 1 [0xffffffffffffff80] ∧ (8 : Nat) < 64 ∧
    II.tryToPrimSigned 64 [0xffffffffffffff80] ⟨8, true⟩ = .ok (some 0x80) ∧
    II.tryToPrimSigned 64 [0xffffffffffffff7f] ⟨8, true⟩ = .ok none := by decide

/-! ### bnum → bnum: `BTryFrom` (all four macros, any digit types) -/

theorem btry_from {w₁ n₁ w₂ n₂ : Nat} {x : List Nat} (s₁ s₂ : Bool) (hw₁ : 1 ≤ w₁)
    (hw₂ : 1 ≤ w₂) (hn₁ : 1 ≤ n₁) (hn₂ : 1 ≤ n₂) (hdvd : w₁ ∣ w₂ ∨ w₂ ∣ w₁) (hx : WF w₁ n₁ x) :
    ConvOk s₂ w₂ n₂ (btryFrom w₁ s₁ x w₂ n₂ s₂) (valOf s₁ w₁ x) :=
  btryFrom_spec s₁ s₂ hw₁ hw₂ hn₁ hn₂ hdvd hx
example : WF 16 2 [0xff80, 0xffff] ∧ ((16 : Nat) ∣ 8 ∨ (8 : Nat) ∣ 16) ∧
    btryFrom 16 true [0xff80, 0xffff] 8 1 true = .ok (some [0x80]) ∧
    btryFrom 16 true [0xff7f, 0xffff] 8 1 true = .ok none ∧
    btryFrom 16 true [0xff80, 0xffff] 8 3 false = .ok none := by decide

theorem btry_from_ok_iff {w₁ n₁ w₂ n₂ : Nat} {x : List Nat} (s₁ s₂ : Bool) (hw₁ : 1 ≤ w₁)
    (hw₂ : 1 ≤ w₂) (hn₁ : 1 ≤ n₁) (hn₂ : 1 ≤ n₂) (hdvd : w₁ ∣ w₂ ∨ w₂ ∣ w₁) (hx : WF w₁ n₁ x) :
    (∃ r, btryFrom w₁ s₁ x w₂ n₂ s₂ = .ok (some r)) ↔ repOf s₂ (M w₂ n₂) (valOf s₁ w₁ x) :=
  (btry_from s₁ s₂ hw₁ hw₂ hn₁ hn₂ hdvd hx).ok_iff
theorem btry_from_value {w₁ n₁ w₂ n₂ : Nat} {x r : List Nat} (s₁ s₂ : Bool) (hw₁ : 1 ≤ w₁)
    (hw₂ : 1 ≤ w₂) (hn₁ : 1 ≤ n₁) (hn₂ : 1 ≤ n₂) (hdvd : w₁ ∣ w₂ ∨ w₂ ∣ w₁) (hx : WF w₁ n₁ x)
    (hr : btryFrom w₁ s₁ x w₂ n₂ s₂ = .ok (some r)) :
    WF w₂ n₂ r ∧ valOf s₂ w₂ r = valOf s₁ w₁ x :=
  (btry_from s₁ s₂ hw₁ hw₂ hn₁ hn₂ hdvd hx).value hr
theorem btry_from_ne_panic {w₁ n₁ w₂ n₂ : Nat} {x : List Nat} (s₁ s₂ : Bool) (hw₁ : 1 ≤ w₁)
    (hw₂ : 1 ≤ w₂) (hn₁ : 1 ≤ n₁) (hn₂ : 1 ≤ n₂) (hdvd : w₁ ∣ w₂ ∨ w₂ ∣ w₁) (hx : WF w₁ n₁ x) :
    btryFrom w₁ s₁ x w₂ n₂ s₂ ≠ .panic := (btry_from s₁ s₂ hw₁ hw₂ hn₁ hn₂ hdvd hx).ne_panic

/-! ### primitive → bnum -/

/-- `From<uK> for BUint<N>`: right whenever the value fits — in particular for every `K ≤ BITS` -/
theorem from_uint {w n k p : Nat} (hw : 1 ≤ w) (hp : p < B k) (hpM : p < M w n) :
    FromOk false w n (UI.fromUint w n k p) (p : Int) := UI.fromUint_spec hw hp hpM
theorem from_uint_in_scope {w n k p : Nat} (hw : 1 ≤ w) (hk : k ≤ w * n) (hp : p < B k) :
    FromOk false w n (UI.fromUint w n k p) (p : Int) :=
  UI.fromUint_spec hw hp (Nat.lt_of_lt_of_le hp (Nat.pow_le_pow_right (by decide) hk))
example : (0xabcd : Nat) < B 16 ∧ 16 ≤ 8 * 3 ∧ UI.fromUint 8 3 16 0xabcd = .ok [0xcd, 0xab, 0] := by
  decide
/-- outside C13 (README limitation): a source wider than the target indexes out of bounds -/
theorem from_uint_wider_panics : UI.fromUint 8 1 64 0x100 = .panic := by decide

/-- `TryFrom<iK> for BUint<N>`, `K ≤ BITS` -/
theorem try_from_iint {w n k p : Nat} (hw : 1 ≤ w) (hk : k ≤ w * n) (hp : p < B k) :
    ConvOk false w n (UI.tryFromIint w n k p) (toInt (B k) p) := UI.tryFromIint_spec hw hk hp
example : UI.tryFromIint 8 2 16 0x8000 = .ok none ∧ UI.tryFromIint 8 2 16 0x7fff = .ok (some [0xff, 0x7f]) := by
  decide

/-- `From<iK> for BInt<N>`, `K ≤ BITS` -/
theorem from_int {w n k p : Nat} (hw : 1 ≤ w) (hn : 1 ≤ n) (hk1 : 1 ≤ k) (hk : k ≤ w * n)
    (hp : p < B k) : FromOk true w n (II.fromInt w n k p) (toInt (B k) p) :=
  II.fromInt_spec hw hn hk1 hk hp
example : (0x80 : Nat) < B 8 ∧ II.fromInt 16 2 8 0x80 = .ok [0xff80, 0xffff] := by decide
theorem from_int_wider_panics : II.fromInt 8 1 16 0 = .panic := by decide

/- FALSE on the current tree (F6) — `From<uK> for BInt<N>` for every `K ≤ BITS`:
   theorem from_uint_signed {w n k p} (hw : 1 ≤ w) (hk : k ≤ w * n) (hp : p < B k) :
       FromOk true w n (II.fromUint w n k p) (p : Int)                                          -/
/-- `From<uK> for BInt<N>` is right when the target is STRICTLY wider than `K` bits … -/
theorem from_uint_signed_partial {w n k p : Nat} (hw : 1 ≤ w) (hk : k < w * n) (hp : p < B k) :
    FromOk true w n (II.fromUint w n k p) (p : Int) := II.fromUint_partial hw hk hp
example : (0xffff : Nat) < B 16 ∧ 16 < 8 * 3 ∧ II.fromUint 8 3 16 0xffff = .ok [0xff, 0xff, 0] := by
  decide
/-- … and WRONG at `K = BITS`: `BInt::<1>::from(u64::MAX) == -1` (no panic, value not preserved) -/
theorem from_uint_signed_defect :
    II.fromUint 64 1 64 (2 ^ 64 - 1) = .ok [2 ^ 64 - 1] ∧ S 64 [2 ^ 64 - 1] = -1
    ∧ II.fromUint 8 1 8 200 = .ok [200] ∧ S 8 [200] = -56 := by decide

/-- the dispatcher used by the driver (`From` answers wrapped in `some`), in-scope non-panic -/
theorem try_from_prim_ne_panic {w n : Nat} {t : PTy} {p : Nat} (s : Bool) (hw : 1 ≤ w)
    (hn : 1 ≤ n) (hk1 : 1 ≤ t.bits) (hk : t.bits ≤ w * n) (hp : p < B t.bits) :
    tryFromPrim w n s t p ≠ .panic := by
  have hpM : p < M w n := Nat.lt_of_lt_of_le hp (Nat.pow_le_pow_right (by decide) hk)
  unfold tryFromPrim
  cases s <;> cases hs : t.signed <;> simp only
  · obtain ⟨r, h, _⟩ := UI.fromUint_spec (n := n) hw hp hpM; rw [h]; intro h; cases h
  · exact (UI.tryFromIint_spec hw hk hp).ne_panic
  · obtain ⟨r, h, _⟩ := UI.fromUint_spec (n := n) hw hp hpM
    unfold II.fromUint; rw [h]; intro h; cases h
  · obtain ⟨r, h, _⟩ := II.fromInt_spec hw hn hk1 hk hp; rw [h]; intro h; cases h

/-- VALUE-level theorem for the dispatcher the driver runs (`try <prim> <bnum> v`, plain and `tf`
    form): for every primitive source at most as wide as the target the answer is `Ok` of the same
    number exactly when it is representable and `Err` otherwise — F6 (unsigned `K`-bit primitive
    into a signed target of exactly `K` bits) is the single explicit exclusion. -/
theorem try_from_prim {w n : Nat} {t : PTy} {p : Nat} (s : Bool) (hw : 1 ≤ w) (hn : 1 ≤ n)
    (hk1 : 1 ≤ t.bits) (hk : t.bits ≤ w * n)
    (hF6 : ¬ (s = true ∧ t.signed = false ∧ t.bits = w * n)) (hp : p < B t.bits) :
    ConvOk s w n (tryFromPrim w n s t p) (PInt.val t p) := tryFromPrim_spec s hw hn hk1 hk hF6 hp
example : (1 : Nat) ≤ 16 ∧ 16 ≤ 8 * 2 ∧ ¬ (true = true ∧ true = false ∧ 16 = 8 * 2) ∧ (0x8000 : Nat) < B 16 ∧
    tryFromPrim 8 2 true ⟨16, true⟩ 0x8000 = .ok (some [0x00, 0x80]) ∧
    tryFromPrim 8 2 false ⟨16, true⟩ 0x8000 = .ok none ∧
    tryFromPrim 8 3 true ⟨16, false⟩ 0x8000 = .ok (some [0x00, 0x80, 0x00]) := by decide
/-- `Ok` exactly when representable, and then the same number -/
theorem try_from_prim_ok_iff {w n : Nat} {t : PTy} {p : Nat} (s : Bool) (hw : 1 ≤ w) (hn : 1 ≤ n)
    (hk1 : 1 ≤ t.bits) (hk : t.bits ≤ w * n)
    (hF6 : ¬ (s = true ∧ t.signed = false ∧ t.bits = w * n)) (hp : p < B t.bits) :
    (∃ r, tryFromPrim w n s t p = .ok (some r)) ↔ repOf s (M w n) (PInt.val t p) :=
  (try_from_prim s hw hn hk1 hk hF6 hp).ok_iff
theorem try_from_prim_value {w n : Nat} {t : PTy} {p : Nat} {r : List Nat} (s : Bool) (hw : 1 ≤ w)
    (hn : 1 ≤ n) (hk1 : 1 ≤ t.bits) (hk : t.bits ≤ w * n)
    (hF6 : ¬ (s = true ∧ t.signed = false ∧ t.bits = w * n)) (hp : p < B t.bits)
    (hr : tryFromPrim w n s t p = .ok (some r)) : WF w n r ∧ valOf s w r = PInt.val t p :=
  (try_from_prim s hw hn hk1 hk hF6 hp).value hr
/-- the `From` directions (every pair except signed primitive → unsigned bnum) never answer `Err`:
    this is what makes the blanket `TryFrom` (`Ok(U::into(x))`, error `Infallible`) total -/
theorem from_prim_total {w n : Nat} {t : PTy} {p : Nat} (s : Bool) (hw : 1 ≤ w) (hn : 1 ≤ n)
    (hk1 : 1 ≤ t.bits) (hk : t.bits ≤ w * n)
    (hF6 : ¬ (s = true ∧ t.signed = false ∧ t.bits = w * n))
    (hfrom : ¬ (s = false ∧ t.signed = true)) (hp : p < B t.bits) :
    ∃ r, tryFromPrim w n s t p = .ok (some r) ∧ WF w n r ∧ valOf s w r = PInt.val t p := by
  have hBM : B t.bits ≤ M w n := Nat.pow_le_pow_right (by decide) hk
  rcases try_from_prim s hw hn hk1 hk hF6 hp with ⟨_, r, h1, h2, h3⟩ | ⟨hnr, _⟩
  · exact ⟨r, h1, h2, h3⟩
  · exfalso; apply hnr
    unfold PInt.val
    cases s <;> cases hs : t.signed <;> simp only [Bool.false_eq_true, if_false, if_true]
    · exact repU_of_lt (Nat.lt_of_lt_of_le hp hBM)
    · exact absurd ⟨rfl, hs⟩ hfrom
    · have hlt : t.bits < w * n := by
        rcases Nat.lt_or_ge t.bits (w * n) with h | h
        · exact h
        · exact absurd ⟨rfl, hs, Nat.le_antisymm hk h⟩ hF6
      have : B (t.bits + 1) ≤ M w n := Nat.pow_le_pow_right (by decide) hlt
      apply repS_of_two_mul_lt
      unfold B at *; rw [Nat.pow_succ] at this; omega
    · exact repS_toInt_of_le (B_even hk1) hp hBM
example : ¬ (true = true ∧ false = false ∧ 8 = 16 * 1) ∧ ¬ (true = false ∧ false = true) ∧
    tryFromPrim 16 1 true ⟨8, false⟩ 0xff = .ok (some [0xff]) ∧ valOf true 16 [0xff] = 255 := by decide

/-- `From<bool>` (both signednesses): `false ↦ 0`, `true ↦ 1` -/
theorem from_bool {w n : Nat} (hw : 2 ≤ w) (hn : 1 ≤ n) (b : Bool) :
    II.fromBool n b = UI.fromBool n b ∧ WF w n (UI.fromBool n b)
    ∧ U w (UI.fromBool n b) = b.toNat ∧ S w (UI.fromBool n b) = b.toNat := fromBool_spec hw hn b

/-- `From<char> for BUint<N>`: the code point, whenever it fits (`BITS ≥ 32`: always) -/
theorem from_char {w n c : Nat} (hn : 1 ≤ n) (hc : c < B 32) (hcM : c < M w n) :
    FromOk false w n (UI.fromChar w n c) (c : Int) := UI.fromChar_spec hn hc hcM
/-- in scope (`BITS ≥ 32`, "at least as wide as the source"): every `char` -/
theorem from_char_in_scope {w n c : Nat} (hn : 1 ≤ n) (hk : 32 ≤ w * n) (hc : c < B 32) :
    FromOk false w n (UI.fromChar w n c) (c : Int) :=
  UI.fromChar_spec hn hc (Nat.lt_of_lt_of_le hc (Nat.pow_le_pow_right (by decide) hk))
example : (0xe000 : Nat) < B 32 ∧ 32 ≤ 16 * 2 ∧ UI.fromChar 16 2 0xe000 = .ok [0xe000, 0] := by decide
example : (0x10ffff : Nat) < B 32 ∧ 0x10ffff < M 8 3 ∧
    UI.fromChar 8 3 0x10ffff = .ok [0xff, 0xff, 0x10] := by decide

/-! ### digit-array access -/
theorem from_digits_digits (a : List Nat) : UI.fromDigits (UI.digits a) = a := rfl
theorem digits_from_digits (d : List Nat) : UI.digits (UI.fromDigits d) = d := rfl
/-- `from_digits` / `From<[Digit; N]>` denote the little-endian positional value of the array -/
theorem from_digits_value (w : Nat) (d : List Nat) : U w (UI.fromDigits d) = U w d := rfl
/-- little-endian, stated on the value: digit `i` of `digits()` / `Into<[Digit; N]>` is
    `value / B^i mod B` (so the array is exposed unchanged AND in little-endian order) -/
theorem digits_little_endian {w n : Nat} {x : List Nat} (hx : WF w n x) (i : Nat) (hi : i < n) :
    (UI.digits x).getD i 0 = U w x / B w ^ i % B w := digits_getD hx i hi
example : WF 8 3 [0x11, 0x22, 0x33] ∧ U 8 [0x11, 0x22, 0x33] = 0x332211 ∧
    (UI.digits [0x11, 0x22, 0x33]).getD 1 0 = 0x332211 / B 8 ^ 1 % B 8 := by decide
/-- the independent specification functions the driver compares against (`Drive/C13.lean`) are the
    positional value and its inverse: `from_digits`/`From<[Digit; N]>` … -/
theorem spec_from_digits (w : Nat) (d : List Nat) :
    Drive.C13.digitsValue w d = U w (UI.fromDigits d) := digitsValue_eq_U w d
/-- … and `digits()` / `From<BUint<N>> for [Digit; N]` -/
theorem spec_digits {w n : Nat} {x : List Nat} (hx : WF w n x) :
    Drive.C13.valueDigits w n (U w x) = UI.digits x := valueDigits_U hx
example : WF 16 2 [0xbeef, 0xdead] ∧ Drive.C13.digitsValue 16 [0xbeef, 0xdead] = 0xdeadbeef ∧
    Drive.C13.valueDigits 16 2 0xdeadbeef = [0xbeef, 0xdead] := by decide
/-- `from_digit(d)`: no panic (`N ≥ 1`), the digit lands in the least significant position -/
theorem from_digit {w n d : Nat} (hn : 1 ≤ n) :
    UI.fromDigitO n d = .ok (fromDigit n d) ∧ U w (fromDigit n d) = d := UI.fromDigitO_spec hn
example : UI.fromDigitO 3 0xab = .ok [0xab, 0, 0] := by decide

end Bnum.C13
