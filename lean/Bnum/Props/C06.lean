/-
  C06 — "For every bnum integer type, and/or/xor/not act independently on each of the BITS bits of
  the two's-complement pattern; count_ones, count_zeros, leading_zeros, trailing_zeros, leading_ones,
  trailing_ones and bits() report the corresponding counts of that pattern (with the all-zero and
  all-one patterns giving BITS or 0); bit(i) reads and set_bit(i, v) writes exactly bit i and
  nothing else for i < BITS. power_of_two(k) is 2^k, is_power_of_two holds exactly for positive
  powers of two, checked/wrapping next_power_of_two return the least power of two >= self (None / 0
  when it does not fit), and swap_bytes / reverse_bits reverse the byte / bit sequence of the pattern
  and are involutions."

  The pattern of a digit list `x` is the natural number `U w x < 2^(w*n)`; its bits are
  `(U w x).testBit i`.  Signed types (`II.*`) forward to the unsigned functions on the same digit
  list (`signed_forwarders`), so every theorem below covers both signednesses.

  Hypotheses: all digit widths `w` and digit counts `n`, `WF w n x`; the functions that index a digit
  with `index >> BIT_SHIFT` / `index & (BITS-1)` (`bit`, `set_bit`, `power_of_two`, and through it
  `next_power_of_two`) are stated for `w = 2^s`, `s < 32` (every real digit type: 8,16,32,64) because
  the Rust expressions are only `/ w`, `% w` for power-of-two widths; `swap_bytes` for `w = 8*nb`.
  The counts are specified by the executable `Spec` functions (what the driver compares against),
  whose meaning is pinned down by the `spec_*` theorems at the end.
-/
import Bnum.Lemmas.C06Extra
namespace Bnum.C06
open Bnum Bnum.Bits

/-! ### and / or / xor / not -/

/-- `bitand`, `bitor`, `bitxor` act bit by bit on the pattern. -/
theorem logic_spec {w n : Nat} {a b : List Nat} (ha : WF w n a) (hb : WF w n b) :
    (WF w n (UI.bitand a b) ∧ U w (UI.bitand a b) = U w a &&& U w b) ∧
    (WF w n (UI.bitor a b) ∧ U w (UI.bitor a b) = U w a ||| U w b) ∧
    (WF w n (UI.bitxor a b) ∧ U w (UI.bitxor a b) = U w a ^^^ U w b) :=
  ⟨bitand_spec n a b ha hb, bitor_spec n a b ha hb, bitxor_spec n a b ha hb⟩
example : WF 8 2 [0xf0, 0x3c] ∧ WF 8 2 [0xaa, 0x55] := by decide

/-- per-bit reading of `logic_spec` -/
theorem logic_testBit {w n : Nat} {a b : List Nat} (ha : WF w n a) (hb : WF w n b) (i : Nat) :
    (U w (UI.bitand a b)).testBit i = ((U w a).testBit i && (U w b).testBit i) ∧
    (U w (UI.bitor a b)).testBit i = ((U w a).testBit i || (U w b).testBit i) ∧
    (U w (UI.bitxor a b)).testBit i = ((U w a).testBit i ^^ (U w b).testBit i) := by
  obtain ⟨⟨_, h1⟩, ⟨_, h2⟩, ⟨_, h3⟩⟩ := logic_spec ha hb
  rw [h1, h2, h3, Nat.testBit_and, Nat.testBit_or, Nat.testBit_xor]; exact ⟨rfl, rfl, rfl⟩
example : WF 8 2 [0xf0, 0x3c] ∧ WF 8 2 [0xaa, 0x55] := by decide

/-- `not` complements the pattern: `2^BITS - 1 - pattern`, i.e. every bit below `BITS` flips. -/
theorem not_spec {w n : Nat} {a : List Nat} (ha : WF w n a) :
    WF w n (UI.not w a) ∧ U w (UI.not w a) = M w n - 1 - U w a ∧
    ∀ i, (U w (UI.not w a)).testBit i = (decide (i < w * n) && !(U w a).testBit i) := by
  obtain ⟨h1, h2⟩ := bnot_spec n a ha
  refine ⟨h1, h2, fun i => ?_⟩
  unfold UI.not; rw [h2]; exact testBit_compl (U_lt ha) i
example : WF 8 2 [0xf0, 0x3c] := by decide

/-- KEY LEMMA: bit `t` of digit `j` is bit `w*j + t` of the pattern. -/
theorem testBit_digit {w n : Nat} {x : List Nat} (hx : WF w n x) {j t : Nat} (ht : t < w) :
    (U w x).testBit (w * j + t) = (x.getD j 0).testBit t := testBit_U x hx.2 j t ht
example : WF 8 2 [0xf0, 0x3c] ∧ 3 < 8 := by decide

/-! ### counts -/

/-- `count_ones` = number of set bits among the `BITS` bits; `count_zeros` = `BITS` minus that. -/
theorem count_spec {w n : Nat} {x : List Nat} (hx : WF w n x) :
    UI.countOnes w x = Spec.popcount (w * n) (U w x) ∧
    UI.countZeros w x = w * n - Spec.popcount (w * n) (U w x) :=
  ⟨countOnes_spec hx, countZeros_spec hx⟩
example : WF 8 2 [0xf0, 0x3c] := by decide

/-- `leading_zeros = BITS - bitLen`, `bits = bitLen` (so `BITS` resp. `0` on the zero pattern). -/
theorem leading_zeros_spec {w n : Nat} {x : List Nat} (hx : WF w n x) :
    UI.leadingZeros w x = w * n - Spec.bitLen (U w x) ∧ UI.bits w x = Spec.bitLen (U w x) ∧
    UI.leadingZeros w x ≤ w * n :=
  ⟨leadingZeros_spec hx, bits_spec hx, leadingZeros_le hx⟩
example : WF 8 3 [0xf0, 0x3c, 0x00] := by decide

/-- `trailing_zeros` = index of the lowest set bit, `BITS` on the zero pattern. -/
theorem trailing_zeros_spec {w n : Nat} {x : List Nat} (hx : WF w n x) :
    UI.trailingZeros w x = Spec.trailingZeros (w * n) (U w x) := trailingZeros_spec hx
example : WF 8 3 [0x00, 0x3c, 0x00] := by decide

/-- `leading_ones` / `trailing_ones` are `leading_zeros` / `trailing_zeros` of the complement. -/
theorem ones_spec {w n : Nat} {x : List Nat} (hx : WF w n x) :
    UI.leadingOnes w x = UI.leadingZeros w (UI.not w x) ∧
    UI.trailingOnes w x = UI.trailingZeros w (UI.not w x) ∧
    UI.leadingOnes w x = Spec.leadingOnes (w * n) (U w x) ∧
    UI.trailingOnes w x = Spec.trailingOnes (w * n) (U w x) :=
  ⟨leadingOnes_eq_not hx, trailingOnes_eq_not hx, leadingOnes_spec hx, trailingOnes_spec hx⟩
example : WF 8 3 [0xff, 0x3c, 0xff] := by decide

/-- The four run counts read directly on the bits of the pattern (no `Spec` function in between):
    each is `≤ BITS`; exactly that many bits from the top / bottom are clear (resp. set), and unless
    the count is `BITS` the next bit is set (resp. clear). -/
theorem run_counts_bits {w n : Nat} {x : List Nat} (hx : WF w n x) :
    (UI.leadingZeros w x ≤ w * n ∧
      (∀ i, i < UI.leadingZeros w x → (U w x).testBit (w * n - 1 - i) = false) ∧
      (UI.leadingZeros w x < w * n → (U w x).testBit (w * n - 1 - UI.leadingZeros w x) = true)) ∧
    (UI.trailingZeros w x ≤ w * n ∧
      (∀ i, i < UI.trailingZeros w x → (U w x).testBit i = false) ∧
      (UI.trailingZeros w x < w * n → (U w x).testBit (UI.trailingZeros w x) = true)) ∧
    (UI.leadingOnes w x ≤ w * n ∧
      (∀ i, i < UI.leadingOnes w x → (U w x).testBit (w * n - 1 - i) = true) ∧
      (UI.leadingOnes w x < w * n → (U w x).testBit (w * n - 1 - UI.leadingOnes w x) = false)) ∧
    (UI.trailingOnes w x ≤ w * n ∧
      (∀ i, i < UI.trailingOnes w x → (U w x).testBit i = true) ∧
      (UI.trailingOnes w x < w * n → (U w x).testBit (UI.trailingOnes w x) = false)) := by
  have hv : U w x < 2 ^ (w * n) := U_lt hx
  have e1 : UI.leadingZeros w x = Spec.leadingZeros (w * n) (U w x) := leadingZeros_spec hx
  rw [e1, trailingZeros_spec hx, leadingOnes_spec hx, trailingOnes_spec hx]
  exact ⟨leadingZeros_char hv, trailingZeros_char _ _, leadingOnes_char hv, trailingOnes_char hv⟩
example : WF 8 3 [0xff, 0x3c, 0x0f] := by decide

/-- "with the all-zero and all-one patterns giving BITS or 0" -/
theorem extreme_patterns (w n : Nat) (hW : 1 ≤ w * n) :
    (UI.countOnes w (zero n) = 0 ∧ UI.countZeros w (zero n) = w * n ∧
     UI.leadingZeros w (zero n) = w * n ∧ UI.trailingZeros w (zero n) = w * n ∧
     UI.leadingOnes w (zero n) = 0 ∧ UI.trailingOnes w (zero n) = 0 ∧ UI.bits w (zero n) = 0) ∧
    (UI.countOnes w (allOnes w n) = w * n ∧ UI.countZeros w (allOnes w n) = 0 ∧
     UI.leadingZeros w (allOnes w n) = 0 ∧ UI.trailingZeros w (allOnes w n) = 0 ∧
     UI.leadingOnes w (allOnes w n) = w * n ∧ UI.trailingOnes w (allOnes w n) = w * n ∧
     UI.bits w (allOnes w n) = w * n) := ⟨counts_zero w n hW, counts_allOnes w n hW⟩
example : 1 ≤ 8 * 3 := by decide

/-- `is_zero` / `is_one` (early-exit scans) ⇔ the pattern is `0` / `1`. -/
theorem is_zero_one_iff {w n : Nat} (hw : 1 ≤ w) {x : List Nat} (hx : WF w n x) :
    (isZero x = true ↔ U w x = 0) ∧ (isOne x = true ↔ U w x = 1) :=
  ⟨Cmp.isZero_iff_U x, isOne_iff hw hx⟩
example : 1 ≤ 8 ∧ WF 8 2 [0x01, 0x00] := by decide

/-- `BInt::is_zero` / `BInt::is_one` (forwarders to the pattern scans) ⇔ the signed value is `0` / `1`
    (`2 ≤ w`: at one bit the pattern `1` denotes −1). -/
theorem i_is_zero_one_iff {w n : Nat} (hw : 2 ≤ w) (hn : 1 ≤ n) {x : List Nat} (hx : WF w n x) :
    (II.isZeroBits x = true ↔ S w x = 0) ∧ (II.isOneBits x = true ↔ S w x = 1) :=
  ⟨i_isZero_iff hx, i_isOne_iff hw hn hx⟩
example : 2 ≤ 8 ∧ 1 ≤ 2 ∧ WF 8 2 [0x01, 0x00] := by decide

/-! ### bit / set_bit / power_of_two -/

/-- `bit(i)`: index panic for `i ≥ BITS`, otherwise bit `i` of the pattern. -/
theorem bit_spec {s n : Nat} (hs : s < 32) {x : List Nat} (hx : WF (2 ^ s) n x) (i : Nat) :
    UI.bit (2 ^ s) x i = if i < 2 ^ s * n then .ok ((U (2 ^ s) x).testBit i) else .panic :=
  Bits.bit_spec hs hx i
example : 3 < 32 ∧ WF (2 ^ 3) 2 [0xf0, 0x3c] := by decide

/-- `set_bit(i, v)`: index panic for `i ≥ BITS`; otherwise bit `i` becomes `v`, nothing else moves. -/
theorem set_bit_spec {s n : Nat} (hs : s < 32) {x : List Nat} (hx : WF (2 ^ s) n x) (i : Nat)
    (v : Bool) :
    (2 ^ s * n ≤ i → UI.setBit (2 ^ s) x i v = .panic) ∧
    (i < 2 ^ s * n → ∃ r, UI.setBit (2 ^ s) x i v = .ok r ∧ WF (2 ^ s) n r ∧
      ∀ j, (U (2 ^ s) r).testBit j = if j = i then v else (U (2 ^ s) x).testBit j) :=
  setBit_spec hs hx i v
example : 3 < 32 ∧ WF (2 ^ 3) 2 [0xf0, 0x3c] ∧ 11 < 2 ^ 3 * 2 := by decide

/-- …and in arithmetic form, as the driver checks it: the new pattern is `Spec.setBit`. -/
theorem set_bit_eq_spec {s n : Nat} (hs : s < 32) {x : List Nat} (hx : WF (2 ^ s) n x) {i : Nat}
    (hi : i < 2 ^ s * n) (v : Bool) :
    ∃ r, UI.setBit (2 ^ s) x i v = .ok r ∧ WF (2 ^ s) n r ∧
      U (2 ^ s) r = Spec.setBit (U (2 ^ s) x) i v := setBit_eq_spec hs hx hi v
example : 3 < 32 ∧ WF (2 ^ 3) 2 [0xf0, 0x3c] ∧ 11 < 2 ^ 3 * 2 := by decide

/-- `power_of_two(k)`: panic for `k ≥ BITS`, otherwise the pattern `2^k`. -/
theorem power_of_two_spec {s : Nat} (hs : s < 32) (n k : Nat) :
    (2 ^ s * n ≤ k → UI.powerOfTwo (2 ^ s) n k = .panic) ∧
    (k < 2 ^ s * n → ∃ r, UI.powerOfTwo (2 ^ s) n k = .ok r ∧ WF (2 ^ s) n r ∧
      U (2 ^ s) r = 2 ^ k) := powerOfTwo_spec hs n k
example : 3 < 32 ∧ 11 < 2 ^ 3 * 2 := by decide

/-! ### powers of two -/

/-- `is_power_of_two` ⇔ the value is `2^k` for some `k` (unsigned: pattern; signed: two's
    complement value, so negative numbers and zero are excluded). -/
theorem is_power_of_two_iff {w n : Nat} {x : List Nat} (hx : WF w n x) :
    UI.isPowerOfTwo w x = true ↔ ∃ k, U w x = 2 ^ k := isPowerOfTwo_iff hx
example : WF 8 2 [0x00, 0x20] := by decide

theorem i_is_power_of_two_iff {w n : Nat} (hw : 1 ≤ w) (hn : 1 ≤ n) {x : List Nat}
    (hx : WF w n x) : II.isPowerOfTwo w x = true ↔ ∃ k : Nat, S w x = 2 ^ k :=
  i_isPowerOfTwo_iff hw hn hx
example : 1 ≤ 8 ∧ 1 ≤ 2 ∧ WF 8 2 [0x00, 0x80] := by decide

/-- `checked_next_power_of_two` never panics and returns `Some(least power of two ≥ self)` when that
    fits in `BITS` bits, `None` otherwise. -/
theorem checked_next_power_of_two_spec {s n : Nat} (hs : s < 32) {x : List Nat}
    (hx : WF (2 ^ s) n x) :
    (∃ r, UI.checkedNextPowerOfTwo (2 ^ s) x = .ok (some r) ∧ WF (2 ^ s) n r ∧
      IsNextPow2 (U (2 ^ s) x) (U (2 ^ s) r)) ∨
    (UI.checkedNextPowerOfTwo (2 ^ s) x = .ok none ∧
      ∀ k, U (2 ^ s) x ≤ 2 ^ k → M (2 ^ s) n ≤ 2 ^ k) := checkedNextPowerOfTwo_spec hs hx
example : 3 < 32 ∧ WF (2 ^ 3) 2 [0x01, 0x20] := by decide

/-- …and agrees with the executable `Spec.checkedNextPow2`. -/
theorem checked_next_power_of_two_eq_spec {s n : Nat} (hs : s < 32) {x : List Nat}
    (hx : WF (2 ^ s) n x) :
    (UI.checkedNextPowerOfTwo (2 ^ s) x).map (Option.map (U (2 ^ s))) =
      .ok (Spec.checkedNextPow2 (2 ^ s * n) (U (2 ^ s) x)) := checkedNextPowerOfTwo_eq_spec hs hx
example : 3 < 32 ∧ WF (2 ^ 3) 2 [0x01, 0x20] := by decide

/-- `wrapping_next_power_of_two`: the least power of two `≥ self`, or `0` when it does not fit. -/
theorem wrapping_next_power_of_two_spec {s n : Nat} (hs : s < 32) {x : List Nat}
    (hx : WF (2 ^ s) n x) :
    ∃ r, UI.wrappingNextPowerOfTwo (2 ^ s) x = .ok r ∧ WF (2 ^ s) n r ∧
      (IsNextPow2 (U (2 ^ s) x) (U (2 ^ s) r) ∨
       (U (2 ^ s) r = 0 ∧ ∀ k, U (2 ^ s) x ≤ 2 ^ k → M (2 ^ s) n ≤ 2 ^ k)) :=
  wrappingNextPowerOfTwo_spec hs hx
example : 3 < 32 ∧ WF (2 ^ 3) 2 [0x01, 0x80] := by decide

/-- `next_power_of_two`: as `checked…`, and when nothing fits: panic in debug, `0` in release. -/
theorem next_power_of_two_spec {s n : Nat} (hs : s < 32) (dbg : Bool) {x : List Nat}
    (hx : WF (2 ^ s) n x) :
    (∃ r, UI.nextPowerOfTwo dbg (2 ^ s) x = .ok r ∧ WF (2 ^ s) n r ∧
      IsNextPow2 (U (2 ^ s) x) (U (2 ^ s) r)) ∨
    ((∀ k, U (2 ^ s) x ≤ 2 ^ k → M (2 ^ s) n ≤ 2 ^ k) ∧
      UI.nextPowerOfTwo dbg (2 ^ s) x = if dbg then .panic else .ok (zero n)) :=
  nextPowerOfTwo_spec hs dbg hx
example : 3 < 32 ∧ WF (2 ^ 3) 2 [0x01, 0x80] := by decide

/-- …and both agree with the executable `Spec.wrappingNextPow2` / `Spec.checkedNextPow2` the driver
    compares against (`0`, resp. panic in debug / `0` in release, when nothing fits). -/
theorem wrapping_next_power_of_two_eq_spec {s n : Nat} (hs : s < 32) {x : List Nat}
    (hx : WF (2 ^ s) n x) :
    (UI.wrappingNextPowerOfTwo (2 ^ s) x).map (U (2 ^ s)) =
      .ok (Spec.wrappingNextPow2 (2 ^ s * n) (U (2 ^ s) x)) := wrappingNextPowerOfTwo_eq_spec hs hx
example : 3 < 32 ∧ WF (2 ^ 3) 2 [0x01, 0x80] := by decide

theorem next_power_of_two_eq_spec {s n : Nat} (hs : s < 32) (dbg : Bool) {x : List Nat}
    (hx : WF (2 ^ s) n x) :
    (UI.nextPowerOfTwo dbg (2 ^ s) x).map (U (2 ^ s)) =
      match Spec.checkedNextPow2 (2 ^ s * n) (U (2 ^ s) x) with
      | some p => .ok p
      | none => if dbg then .panic else .ok 0 := nextPowerOfTwo_eq_spec hs dbg hx
example : 3 < 32 ∧ WF (2 ^ 3) 2 [0x01, 0x80] := by decide

/-! ### reverse_bits / swap_bytes -/

/-- `reverse_bits`: bit `i` of the result is bit `BITS-1-i` of the argument; involution. -/
theorem reverse_bits_spec {w n : Nat} (hw : 1 ≤ w) {x : List Nat} (hx : WF w n x) :
    WF w n (UI.reverseBits w x) ∧
    (∀ i, i < w * n → (U w (UI.reverseBits w x)).testBit i = (U w x).testBit (w * n - 1 - i)) ∧
    UI.reverseBits w (UI.reverseBits w x) = x :=
  ⟨(reverseBits_spec hw hx).1, (reverseBits_spec hw hx).2, reverseBits_invol hx⟩
example : 1 ≤ 8 ∧ WF 8 2 [0x01, 0x80] := by decide

/-- `swap_bytes` (digit width `8*nb`): byte `k` of the result is byte `BYTES-1-k` of the argument
    (bit `i` ↦ same offset `i % 8` in byte `nb*n - 1 - i/8`); involution. -/
theorem swap_bytes_spec {nb n : Nat} (hnb : 1 ≤ nb) {x : List Nat} (hx : WF (8 * nb) n x) :
    WF (8 * nb) n (UI.swapBytes (8 * nb) x) ∧
    (∀ i, i < 8 * nb * n → (U (8 * nb) (UI.swapBytes (8 * nb) x)).testBit i =
      (U (8 * nb) x).testBit (8 * (nb * n - 1 - i / 8) + i % 8)) ∧
    UI.swapBytes (8 * nb) (UI.swapBytes (8 * nb) x) = x :=
  ⟨(swapBytes_spec hnb hx).1, (swapBytes_spec hnb hx).2, swapBytes_invol hx⟩
example : 1 ≤ 2 ∧ WF (8 * 2) 2 [0x0123, 0x4567] := by decide

/-- the results of `reverse_bits` / `swap_bytes` are the executable `Spec.reverseBits` /
    `Spec.swapBytes` of the pattern -/
theorem reverse_swap_eq_spec {nb n : Nat} (hnb : 1 ≤ nb) {x : List Nat} (hx : WF (8 * nb) n x) :
    U (8 * nb) (UI.reverseBits (8 * nb) x) = Spec.reverseBits (8 * nb * n) (U (8 * nb) x) ∧
    U (8 * nb) (UI.swapBytes (8 * nb) x) = Spec.swapBytes (8 * nb * n) (U (8 * nb) x) :=
  ⟨reverseBits_eq_spec (by omega) hx, swapBytes_eq_spec hnb hx⟩
example : 1 ≤ 2 ∧ WF (8 * 2) 2 [0x0123, 0x4567] := by decide

/-! ### signed types -/

/-- every `BInt` bit operation is the `BUint` operation on the same digit list (`self.bits.…`) -/
theorem signed_forwarders (w : Nat) (x y : List Nat) (i : Nat) :
    II.bitand x y = UI.bitand x y ∧ II.bitor x y = UI.bitor x y ∧ II.bitxor x y = UI.bitxor x y ∧
    II.not w x = UI.not w x ∧ II.countOnes w x = UI.countOnes w x ∧
    II.countZeros w x = UI.countZeros w x ∧ II.leadingZeros w x = UI.leadingZeros w x ∧
    II.trailingZeros w x = UI.trailingZeros w x ∧ II.leadingOnes w x = UI.leadingOnes w x ∧
    II.trailingOnes w x = UI.trailingOnes w x ∧ II.bits w x = UI.bits w x ∧
    II.bit w x i = UI.bit w x i ∧ II.swapBytes w x = UI.swapBytes w x ∧
    II.reverseBits w x = UI.reverseBits w x :=
  ⟨rfl, rfl, rfl, rfl, rfl, rfl, rfl, rfl, rfl, rfl, rfl, rfl, rfl, rfl⟩

/-- `BInt::is_zero` / `is_one` are `self.bits.is_zero()` / `self.bits.is_one()` -/
theorem signed_forwarders_zero_one (x : List Nat) :
    II.isZeroBits x = isZero x ∧ II.isOneBits x = isOne x := ⟨rfl, rfl⟩

/-! ### meaning of the executable specification functions used above -/

/-- `Spec.bitLen v ≤ k ↔ v < 2^k` (so `bitLen 0 = 0` and `2^(bitLen v - 1) ≤ v < 2^bitLen v`). -/
theorem spec_bitLen (v k : Nat) : Spec.bitLen v ≤ k ↔ v < 2 ^ k := bitLen_le_iff v k

/-- `Spec.trailingZeros W v ≤ W`, all lower bits are clear and, below the cap, that bit is set. -/
theorem spec_trailingZeros (W v : Nat) :
    Spec.trailingZeros W v ≤ W ∧ (∀ i, i < Spec.trailingZeros W v → v.testBit i = false) ∧
    (Spec.trailingZeros W v < W → v.testBit (Spec.trailingZeros W v) = true) :=
  trailingZeros_char W v

/-- `Spec.popcount` counts one bit at a time; it is additive over digit boundaries, complements to
    `W`, and singles out the powers of two. -/
theorem spec_popcount (W v : Nat) (hv : v < 2 ^ W) :
    Spec.popcount (W + 1) v = v % 2 + Spec.popcount W (v / 2) ∧
    Spec.popcount W (2 ^ W - 1 - v) + Spec.popcount W v = W ∧
    (Spec.popcount W v = 0 ↔ v = 0) ∧ (Spec.popcount W v = 1 ↔ ∃ k, v = 2 ^ k) :=
  ⟨rfl, popcount_compl W v hv, popcount_eq_zero W v hv, popcount_eq_one W v hv⟩
example : (5 : Nat) < 2 ^ 3 := by decide

/-- `Spec.compl W` flips exactly the low `W` bits; `Spec.countZeros` is the complement of the
    popcount -/
theorem spec_compl (W v : Nat) (hv : v < 2 ^ W) (i : Nat) :
    (Spec.compl W v).testBit i = (decide (i < W) && !v.testBit i) := spec_compl_testBit hv i
example : (5 : Nat) < 2 ^ 3 := by decide
theorem spec_countZeros (W v : Nat) : Spec.countZeros W v + Spec.popcount W v = W :=
  spec_countZeros_add W v

/-- `Spec.leadingZeros` / `Spec.leadingOnes` / `Spec.trailingOnes` of a `W`-bit pattern: the count is
    `≤ W`, that many bits from the top (bottom) are clear (set), and below the cap the next bit is
    set (clear). -/
theorem spec_leadingZeros (W v : Nat) (hv : v < 2 ^ W) :
    Spec.leadingZeros W v ≤ W ∧
    (∀ i, i < Spec.leadingZeros W v → v.testBit (W - 1 - i) = false) ∧
    (Spec.leadingZeros W v < W → v.testBit (W - 1 - Spec.leadingZeros W v) = true) :=
  leadingZeros_char hv
example : (5 : Nat) < 2 ^ 4 := by decide
theorem spec_leadingOnes (W v : Nat) (hv : v < 2 ^ W) :
    Spec.leadingOnes W v ≤ W ∧
    (∀ i, i < Spec.leadingOnes W v → v.testBit (W - 1 - i) = true) ∧
    (Spec.leadingOnes W v < W → v.testBit (W - 1 - Spec.leadingOnes W v) = false) :=
  leadingOnes_char hv
example : (13 : Nat) < 2 ^ 4 := by decide
theorem spec_trailingOnes (W v : Nat) (hv : v < 2 ^ W) :
    Spec.trailingOnes W v ≤ W ∧
    (∀ i, i < Spec.trailingOnes W v → v.testBit i = true) ∧
    (Spec.trailingOnes W v < W → v.testBit (Spec.trailingOnes W v) = false) :=
  trailingOnes_char hv
example : (11 : Nat) < 2 ^ 4 := by decide

theorem spec_isPow2 (v : Nat) : Spec.isPow2 v = true ↔ ∃ k, v = 2 ^ k := spec_isPow2_iff v
theorem spec_nextPow2_least (v : Nat) : IsNextPow2 v (Spec.nextPow2 v) := spec_nextPow2 v
theorem spec_bit (v i : Nat) : Spec.bit v i = v.testBit i := spec_bit_eq v i
theorem spec_setBit (v i : Nat) (b : Bool) (j : Nat) :
    (Spec.setBit v i b).testBit j = if j = i then b else v.testBit j := spec_setBit_testBit v i b j
theorem spec_reverseBits (W v i : Nat) :
    (Spec.reverseBits W v).testBit i = (decide (i < W) && v.testBit (W - 1 - i)) :=
  spec_reverseBits_testBit W v i
theorem spec_swapBytes (nb v i : Nat) :
    (Spec.swapBytes (8 * nb) v).testBit i =
      (decide (i < 8 * nb) && v.testBit (8 * (nb - 1 - i / 8) + i % 8)) := by
  unfold Spec.swapBytes
  have : 8 * nb / 8 = nb := by omega
  rw [this]; exact (spec_swapBytes_aux nb v).2 i

end Bnum.C06
