/-
  Bnum.Props.C15 — endianness conversions.

  Property C15: "from_be_slice and from_le_slice return Some(v) exactly when the byte string, read as
  a big- or little-endian unsigned number (for signed types: two's complement with the sign taken
  from the most significant byte), denotes a representable value: shorter slices are zero- or
  sign-extended, longer slices are accepted only if the excess bytes are pure zero or sign padding,
  and the empty slice is zero.  to_be/from_be/to_le/from_le reverse the byte order of the pattern
  exactly when the target's endianness differs, and with the nightly feature to_{be,le,ne}_bytes and
  from_{be,le,ne}_bytes are exact inverses producing the two's-complement bytes."

  Parameters: `bw = 2^sh` bytes per digit (digit width `w = 8*bw`), `n ≥ 1` digits, target endianness
  `e` (`true` = little).  Byte strings are `List Nat` with `Bytes bs` (entries `< 256`).
  `beValue`/`leValue`/`twosBE`/`twosLE` are the exact-arithmetic readings of `Bnum.Spec.Endian`.
  Every model function returns an `Outcome`; each theorem below exhibits an `.ok _` result, i.e. no
  slice/array index computation of the Rust code can panic, for ANY slice length.
  The last three sections state the big-endian "shorter"/"longer" clauses directly, the value of
  `to_be`…`from_le` for either target, and the SIGNED reading of the nightly `*_bytes` methods (bytes of
  `S a mod 2^BITS`, two's-complement value of the bytes, signed round trips).
-/
import Bnum.Lemmas.C15Extra
set_option autoImplicit false
namespace Bnum.C15
open Bnum Bnum.Endian Bnum.Spec.Endian

/-! ## `from_be_slice` / `from_le_slice`, unsigned -/

/-- C15 (unsigned, BE): total (never panics); `Some(x)` exactly when `beValue bs < 2^BITS`, and then
    `x` is THE well-formed integer of that value (short slices: zero-extended; empty: zero). -/
theorem u_fromBeSlice_closed {bw sh : Nat} (hbw : bw = 2 ^ sh) (n : Nat) {bs : List Nat} (hb : Bytes bs) :
    UI.fromBeSlice bw n bs
      = .ok (if beValue bs < M (8 * bw) n then some (ofNat (8 * bw) n (beValue bs)) else none) :=
  UI.fromBeSlice_closed hbw n hb
example : Bytes [0, 0x12, 0x34] := by decide

/-- C15: `from_be_slice bs = Some x ↔ beValue bs < M` (existence form) -/
theorem u_fromBeSlice_spec {bw sh : Nat} (hbw : bw = 2 ^ sh) (n : Nat) {bs : List Nat} (hb : Bytes bs) :
    (∃ x, UI.fromBeSlice bw n bs = .ok (some x)) ↔ beValue bs < M (8 * bw) n := by
  rw [u_fromBeSlice_closed hbw n hb]
  by_cases h : beValue bs < M (8 * bw) n <;> simp [h]
example : beValue [0, 0x12, 0x34] < M (8 * 1) 2 := by decide

/-- C15: … and then `U x = beValue bs` (and `x` is well-formed) -/
theorem u_fromBeSlice_value {bw sh : Nat} (hbw : bw = 2 ^ sh) (n : Nat) {bs x : List Nat} (hb : Bytes bs)
    (h : UI.fromBeSlice bw n bs = .ok (some x)) :
    WF (8 * bw) n x ∧ U (8 * bw) x = beValue bs := by
  rw [u_fromBeSlice_closed hbw n hb] at h
  by_cases hc : beValue bs < M (8 * bw) n
  · simp only [hc, if_true, Outcome.ok.injEq, Option.some.injEq] at h
    subst h
    exact ⟨WF_ofNat _ _ _, by rw [U_ofNat, Nat.mod_eq_of_lt hc]⟩
  · simp [hc] at h
example : UI.fromBeSlice 1 2 [0, 0x12, 0x34] = .ok (some [0x34, 0x12]) := by decide

/-- C15 (unsigned, LE) -/
theorem u_fromLeSlice_closed {bw sh : Nat} (hbw : bw = 2 ^ sh) (n : Nat) {bs : List Nat} (hb : Bytes bs) :
    UI.fromLeSlice bw n bs
      = .ok (if leValue bs < M (8 * bw) n then some (ofNat (8 * bw) n (leValue bs)) else none) :=
  UI.fromLeSlice_closed hbw n hb
example : Bytes [0x34, 0x12, 0] := by decide

theorem u_fromLeSlice_spec {bw sh : Nat} (hbw : bw = 2 ^ sh) (n : Nat) {bs : List Nat} (hb : Bytes bs) :
    (∃ x, UI.fromLeSlice bw n bs = .ok (some x)) ↔ leValue bs < M (8 * bw) n := by
  rw [u_fromLeSlice_closed hbw n hb]
  by_cases h : leValue bs < M (8 * bw) n <;> simp [h]
example : leValue [0x34, 0x12, 0] < M (8 * 1) 2 := by decide

theorem u_fromLeSlice_value {bw sh : Nat} (hbw : bw = 2 ^ sh) (n : Nat) {bs x : List Nat} (hb : Bytes bs)
    (h : UI.fromLeSlice bw n bs = .ok (some x)) :
    WF (8 * bw) n x ∧ U (8 * bw) x = leValue bs := by
  rw [u_fromLeSlice_closed hbw n hb] at h
  by_cases hc : leValue bs < M (8 * bw) n
  · simp only [hc, if_true, Outcome.ok.injEq, Option.some.injEq] at h
    subst h
    exact ⟨WF_ofNat _ _ _, by rw [U_ofNat, Nat.mod_eq_of_lt hc]⟩
  · simp [hc] at h
example : UI.fromLeSlice 2 1 [0x34, 0x12, 0] = .ok (some [0x1234]) := by decide

/-- C15: the big-endian constructor is the little-endian one on the reversed slice -/
theorem u_fromBeSlice_eq_fromLeSlice_reverse {bw sh : Nat} (hbw : bw = 2 ^ sh) (n : Nat) (bs : List Nat) :
    UI.fromBeSlice bw n bs = UI.fromLeSlice bw n bs.reverse :=
  UI.fromBeSlice_eq_fromLeSlice hbw n bs
example : (2 : Nat) = 2 ^ 1 := by decide

/-- C15 "never panics for any slice length" (unsigned; no `Bytes` hypothesis needed) -/
theorem u_fromSlice_no_panic {bw sh : Nat} (hbw : bw = 2 ^ sh) (n : Nat) (bs : List Nat) :
    UI.fromBeSlice bw n bs ≠ .panic ∧ UI.fromLeSlice bw n bs ≠ .panic := by
  rw [UI.fromBeSlice_eq hbw, UI.fromLeSlice_eq hbw]; exact ⟨by simp, by simp⟩
example : (8 : Nat) = 2 ^ 3 := by decide

/-- C15 "the empty slice is zero" (unsigned) -/
theorem u_fromSlice_empty {bw sh : Nat} (hbw : bw = 2 ^ sh) (n : Nat) :
    UI.fromBeSlice bw n [] = .ok (some (List.replicate n 0)) ∧
    UI.fromLeSlice bw n [] = .ok (some (List.replicate n 0)) := by
  have hb : Bytes [] := by intro b h; simp at h
  have hM := M_pos (8 * bw) n
  rw [u_fromBeSlice_closed hbw n hb, u_fromLeSlice_closed hbw n hb]
  simp [beValue, leValue, hM, ofNat_zero]
example : (1 : Nat) = 2 ^ 0 := by decide

/-- C15 "shorter slices are zero-extended": a slice of at most `N*BYTES` bytes is always accepted -/
theorem u_fromLeSlice_short {bw sh : Nat} (hbw : bw = 2 ^ sh) (n : Nat) {bs : List Nat} (hb : Bytes bs)
    (hlen : bs.length ≤ n * bw) :
    UI.fromLeSlice bw n bs = .ok (some (ofNat (8 * bw) n (leValue bs))) := by
  rw [u_fromLeSlice_closed hbw n hb, if_pos]
  rw [leValue_eq, M_bytes]
  exact Nat.lt_of_lt_of_le (U_lt hb.wf) (M_le (by rw [Nat.mul_comm]; exact hlen))
example : [0x34, 0x12].length ≤ 2 * 2 := by decide

/-- C15 "longer slices are accepted only if the excess bytes are pure zero padding" (LE form;
    the BE form follows with `u_fromBeSlice_eq_fromLeSlice_reverse`) -/
theorem u_fromLeSlice_long {bw sh : Nat} (hbw : bw = 2 ^ sh) (n : Nat) {bs : List Nat} (hb : Bytes bs)
    (hlen : n * bw ≤ bs.length) :
    (∃ x, UI.fromLeSlice bw n bs = .ok (some x)) ↔ ∀ b ∈ bs.drop (n * bw), b = 0 := by
  rw [u_fromLeSlice_spec hbw n hb, leValue_eq, M_bytes, Nat.mul_comm bw n]
  exact le_fits_iff hb hlen
example : (2 : Nat) * 1 ≤ [1, 2, 0].length := by decide

/-! ## `from_be_slice` / `from_le_slice`, signed -/

/-- C15 (signed, BE): total; `Some(x)` exactly when the two's-complement reading (sign from the FIRST
    byte) is representable, and then `x` is THE integer of that value. -/
theorem i_fromBeSlice_closed {bw sh : Nat} (hbw : bw = 2 ^ sh) {n : Nat} (hn : 1 ≤ n) {bs : List Nat}
    (hb : Bytes bs) :
    II.fromBeSlice bw n bs
      = .ok (if repS (M (8 * bw) n) (twosBE bs) then some (ofInt (8 * bw) n (twosBE bs)) else none) :=
  II.fromBeSlice_closed hbw hn hb
example : Bytes [0xff, 0x80] := by decide

/-- C15: `from_be_slice bs = Some x ↔ -H ≤ twosBE bs < H` -/
theorem i_fromBeSlice_spec {bw sh : Nat} (hbw : bw = 2 ^ sh) {n : Nat} (hn : 1 ≤ n) {bs : List Nat}
    (hb : Bytes bs) :
    (∃ x, II.fromBeSlice bw n bs = .ok (some x))
      ↔ (-(H (8 * bw) n : Int) ≤ twosBE bs ∧ twosBE bs < H (8 * bw) n) := by
  have hw : 1 ≤ 8 * bw := by have := pow_pos_bw hbw; omega
  rw [i_fromBeSlice_closed hbw hn hb, ← repS_iff_H hw hn]
  by_cases h : repS (M (8 * bw) n) (twosBE bs) <;> simp [h]
example : -(H (8 * 1) 1 : Int) ≤ twosBE [0xff, 0x80] ∧ twosBE [0xff, 0x80] < H (8 * 1) 1 := by decide

/-- C15: … and then `S x = twosBE bs` -/
theorem i_fromBeSlice_value {bw sh : Nat} (hbw : bw = 2 ^ sh) {n : Nat} (hn : 1 ≤ n) {bs x : List Nat}
    (hb : Bytes bs) (h : II.fromBeSlice bw n bs = .ok (some x)) :
    WF (8 * bw) n x ∧ S (8 * bw) x = twosBE bs := by
  have hw : 1 ≤ 8 * bw := by have := pow_pos_bw hbw; omega
  rw [i_fromBeSlice_closed hbw hn hb] at h
  by_cases hc : repS (M (8 * bw) n) (twosBE bs)
  · simp only [hc, if_true, Outcome.ok.injEq, Option.some.injEq] at h
    subst h
    have hwf : WF (8 * bw) n (ofInt (8 * bw) n (twosBE bs)) := WF_ofNat _ _ _
    refine ⟨hwf, ?_⟩
    unfold S; rw [hwf.1]
    apply toInt_eq_of_emod (M_pos _ _) (U_lt hwf) hc
    unfold ofInt; rw [U_ofNat, Nat.mod_eq_of_lt (wrapU_lt (M_pos _ _) _)]
    unfold wrapU
    exact (Int.toNat_of_nonneg (Int.emod_nonneg _ (by have := M_pos (8 * bw) n; omega))).symm
  · simp [hc] at h
example : II.fromBeSlice 1 1 [0xff, 0x80] = .ok (some [0x80]) := by decide

/-- C15 (signed, LE; sign from the LAST byte) -/
theorem i_fromLeSlice_closed {bw sh : Nat} (hbw : bw = 2 ^ sh) {n : Nat} (hn : 1 ≤ n) {bs : List Nat}
    (hb : Bytes bs) :
    II.fromLeSlice bw n bs
      = .ok (if repS (M (8 * bw) n) (twosLE bs) then some (ofInt (8 * bw) n (twosLE bs)) else none) :=
  II.fromLeSlice_closed hbw hn hb
example : Bytes [0x80, 0xff] := by decide

theorem i_fromLeSlice_spec {bw sh : Nat} (hbw : bw = 2 ^ sh) {n : Nat} (hn : 1 ≤ n) {bs : List Nat}
    (hb : Bytes bs) :
    (∃ x, II.fromLeSlice bw n bs = .ok (some x))
      ↔ (-(H (8 * bw) n : Int) ≤ twosLE bs ∧ twosLE bs < H (8 * bw) n) := by
  have hw : 1 ≤ 8 * bw := by have := pow_pos_bw hbw; omega
  rw [i_fromLeSlice_closed hbw hn hb, ← repS_iff_H hw hn]
  by_cases h : repS (M (8 * bw) n) (twosLE bs) <;> simp [h]
example : -(H (8 * 1) 1 : Int) ≤ twosLE [0x80, 0xff] ∧ twosLE [0x80, 0xff] < H (8 * 1) 1 := by decide

theorem i_fromLeSlice_value {bw sh : Nat} (hbw : bw = 2 ^ sh) {n : Nat} (hn : 1 ≤ n) {bs x : List Nat}
    (hb : Bytes bs) (h : II.fromLeSlice bw n bs = .ok (some x)) :
    WF (8 * bw) n x ∧ S (8 * bw) x = twosLE bs := by
  have h' : II.fromBeSlice bw n bs.reverse = .ok (some x) := by
    rw [II.fromBeSlice_eq_fromLeSlice hbw hn, List.reverse_reverse]; exact h
  have := i_fromBeSlice_value hbw hn hb.reverse h'
  rwa [twosBE_eq_twosLE_reverse, List.reverse_reverse] at this
example : II.fromLeSlice 1 1 [0x80, 0xff] = .ok (some [0x80]) := by decide

theorem i_fromBeSlice_eq_fromLeSlice_reverse {bw sh : Nat} (hbw : bw = 2 ^ sh) {n : Nat} (hn : 1 ≤ n)
    (bs : List Nat) : II.fromBeSlice bw n bs = II.fromLeSlice bw n bs.reverse :=
  II.fromBeSlice_eq_fromLeSlice hbw hn bs
example : (4 : Nat) = 2 ^ 2 := by decide

/-- C15 "never panics for any slice length" (signed) -/
theorem i_fromSlice_no_panic {bw sh : Nat} (hbw : bw = 2 ^ sh) {n : Nat} (hn : 1 ≤ n) (bs : List Nat) :
    II.fromBeSlice bw n bs ≠ .panic ∧ II.fromLeSlice bw n bs ≠ .panic := by
  by_cases hne : bs = []
  · subst hne; rw [II.fromBeSlice_nil, II.fromLeSlice_nil]; exact ⟨by simp, by simp⟩
  · rw [II.fromBeSlice_eq hbw hn bs hne, II.fromLeSlice_eq hbw hn bs hne]; exact ⟨by simp, by simp⟩
example : (1 : Nat) ≤ 3 := by decide

/-- C15 "the empty slice is zero" (signed) -/
theorem i_fromSlice_empty (bw n : Nat) :
    II.fromBeSlice bw n [] = .ok (some (List.replicate n 0)) ∧
    II.fromLeSlice bw n [] = .ok (some (List.replicate n 0)) :=
  ⟨II.fromBeSlice_nil bw n, II.fromLeSlice_nil bw n⟩

/-- C15 "shorter slices are sign-extended": a slice of at most `N*BYTES` bytes is always accepted -/
theorem i_fromLeSlice_short {bw sh : Nat} (hbw : bw = 2 ^ sh) {n : Nat} (hn : 1 ≤ n) {bs : List Nat}
    (hb : Bytes bs) (hlen : bs.length ≤ n * bw) :
    II.fromLeSlice bw n bs = .ok (some (ofInt (8 * bw) n (twosLE bs))) := by
  rw [i_fromLeSlice_closed hbw hn hb, if_pos]
  by_cases hne : bs = []
  · subst hne; have := M_pos (8 * bw) n; unfold repS twosLE; simp; omega
  · have hl : 1 ≤ bs.length := List.length_pos_iff.mpr hne
    have h1 := S_repS (w := 8) (by decide) hl hb.wf
    have h2 : M 8 bs.length ≤ M (8 * bw) n := by
      rw [M_bytes]; exact M_le (by rw [Nat.mul_comm]; exact hlen)
    rw [twosLE_eq hb]
    unfold repS at *; omega
example : [0x80].length ≤ 2 * 2 := by decide

/-- C15 "longer slices are accepted only if the excess bytes are pure sign padding" (LE form): the
    bytes beyond `N*BYTES` must all equal `0xFF`/`0x00` according to the sign bit of byte `N*BYTES-1` -/
theorem i_fromLeSlice_long {bw sh : Nat} (hbw : bw = 2 ^ sh) {n : Nat} (hn : 1 ≤ n) {bs : List Nat}
    (hb : Bytes bs) (hlen : n * bw ≤ bs.length) :
    (∃ x, II.fromLeSlice bw n bs = .ok (some x)) ↔
      bs.drop (n * bw) = List.replicate (bs.length - n * bw)
        (if twosLE (bs.take (n * bw)) < 0 then 255 else 0) := by
  have hpos := pow_pos_bw hbw
  have hK : 1 ≤ n * bw := Nat.mul_le_mul hn hpos
  have hbt : Bytes (bs.take (n * bw)) := fun b h => hb b (List.mem_of_mem_take h)
  rw [i_fromLeSlice_closed hbw hn hb, twosLE_eq hb, twosLE_eq hbt, M_bytes, Nat.mul_comm bw n,
    ← twos_fits_iff hK hb hlen]
  by_cases h : repS (M 8 (n * bw)) (S 8 bs) <;> simp [h]
example : (1 : Nat) * 1 ≤ [0x80, 0xff].length := by decide

/-! ## `to_be` / `from_be` / `to_le` / `from_le` / `swap_bytes` -/

/-- C15: `to_be`/`from_be` swap the bytes exactly on a little-endian target (`e = true`) -/
theorem toBe_eq (e : Bool) (bw : Nat) (a : List Nat) :
    UI.toBe e bw a = (if e then Endian.swapBytes bw a else a) ∧
    UI.fromBe e bw a = (if e then Endian.swapBytes bw a else a) ∧
    II.toBe e bw a = (if e then Endian.swapBytes bw a else a) ∧
    II.fromBe e bw a = (if e then Endian.swapBytes bw a else a) := ⟨rfl, rfl, rfl, rfl⟩

/-- C15: `to_le`/`from_le` swap the bytes exactly on a big-endian target (`e = false`) -/
theorem toLe_eq (e : Bool) (bw : Nat) (a : List Nat) :
    UI.toLe e bw a = (if e then a else Endian.swapBytes bw a) ∧
    UI.fromLe e bw a = (if e then a else Endian.swapBytes bw a) ∧
    II.toLe e bw a = (if e then a else Endian.swapBytes bw a) ∧
    II.fromLe e bw a = (if e then a else Endian.swapBytes bw a) := ⟨rfl, rfl, rfl, rfl⟩

/-- C15: `swap_bytes` reverses the byte order of the pattern … -/
theorem swapBytes_bytes (bw : Nat) (a : List Nat) :
    bytesOf bw (Endian.swapBytes bw a) = (bytesOf bw a).reverse := bytesOf_swapBytes bw a

/-- … i.e. on pattern values it is the exact-arithmetic byte reversal of `Spec.Endian`, and the
    result is well-formed -/
theorem swapBytes_value {bw n : Nat} {a : List Nat} (ha : WF (8 * bw) n a) :
    WF (8 * bw) n (Endian.swapBytes bw a) ∧
    U (8 * bw) (Endian.swapBytes bw a) = swapPattern (n * bw) (U (8 * bw) a) :=
  ⟨swapBytes_WF ha.1, U_swapBytes ha⟩
example : WF (8 * 2) 2 [0x1234, 0x5678] := by decide

/-- C15: `swap_bytes` is an involution -/
theorem swapBytes_involutive {bw n : Nat} {a : List Nat} (ha : WF (8 * bw) n a) :
    Endian.swapBytes bw (Endian.swapBytes bw a) = a := swapBytes_swapBytes ha
example : Endian.swapBytes 2 [0x1234, 0x5678] = [0x7856, 0x3412] := by decide

/-- C15: `from_be (to_be a) = a`, `from_le (to_le a) = a` (either target, either signedness) -/
theorem fromBe_toBe {bw n : Nat} (e : Bool) {a : List Nat} (ha : WF (8 * bw) n a) :
    UI.fromBe e bw (UI.toBe e bw a) = a ∧ UI.fromLe e bw (UI.toLe e bw a) = a ∧
    II.fromBe e bw (II.toBe e bw a) = a ∧ II.fromLe e bw (II.toLe e bw a) = a :=
  ⟨UI.fromBe_toBe e ha, UI.fromLe_toLe e ha, UI.fromBe_toBe e ha, UI.fromLe_toLe e ha⟩
example : WF (8 * 1) 3 [1, 2, 3] := by decide

/-! ## nightly: `to_*_bytes` / `from_*_bytes` -/

/-- C15: `to_le_bytes` never panics and yields the little-endian two's-complement bytes:
    `N*BYTES` bytes whose little-endian value is the pattern `U a`. -/
theorem toLeBytes_spec {bw sh : Nat} (hbw : bw = 2 ^ sh) {n : Nat} {a : List Nat} (ha : WF (8 * bw) n a) :
    UI.toLeBytes bw n a = .ok (leBytes (n * bw) (U (8 * bw) a)) ∧
    II.toLeBytes bw n a = .ok (leBytes (n * bw) (U (8 * bw) a)) ∧
    leValue (leBytes (n * bw) (U (8 * bw) a)) = U (8 * bw) a := by
  have h1 : UI.toLeBytes bw n a = .ok (leBytes (n * bw) (U (8 * bw) a)) := by
    rw [UI.toLeBytes_eq hbw ha.1, bytesOf_eq_leBytes ha]
  refine ⟨h1, h1, ?_⟩
  rw [leValue_eq, ← bytesOf_eq_leBytes ha, U_bytesOf ha]
example : UI.toLeBytes 2 2 [0x1234, 0x5678] = .ok [0x34, 0x12, 0x78, 0x56] := by decide

/-- C15: `to_be_bytes a = reverse (to_le_bytes a)` -/
theorem toBeBytes_spec {bw sh : Nat} (hbw : bw = 2 ^ sh) {n : Nat} {a : List Nat} (ha : WF (8 * bw) n a) :
    UI.toBeBytes bw n a = .ok (beBytes (n * bw) (U (8 * bw) a)) ∧
    II.toBeBytes bw n a = .ok (beBytes (n * bw) (U (8 * bw) a)) ∧
    UI.toBeBytes bw n a = (UI.toLeBytes bw n a).map List.reverse := by
  have h1 : UI.toBeBytes bw n a = .ok (beBytes (n * bw) (U (8 * bw) a)) := by
    rw [UI.toBeBytes_eq hbw ha.1, bytesOf_eq_leBytes ha]; rfl
  refine ⟨h1, h1, ?_⟩
  rw [UI.toBeBytes_eq hbw ha.1, UI.toLeBytes_eq hbw ha.1]; rfl
example : UI.toBeBytes 2 2 [0x1234, 0x5678] = .ok [0x56, 0x78, 0x12, 0x34] := by decide

/-- C15: `to_ne_bytes` / `from_ne_bytes` pick the target's order -/
theorem neBytes_eq (e : Bool) (bw n : Nat) (a : List Nat) :
    UI.toNeBytes e bw n a = (if e then UI.toLeBytes bw n a else UI.toBeBytes bw n a) ∧
    UI.fromNeBytes e bw n a = (if e then UI.fromLeBytes bw n a else UI.fromBeBytes bw n a) ∧
    II.toNeBytes e bw n a = (if e then II.toLeBytes bw n a else II.toBeBytes bw n a) ∧
    II.fromNeBytes e bw n a = (if e then II.fromLeBytes bw n a else II.fromBeBytes bw n a) :=
  ⟨rfl, rfl, rfl, rfl⟩

/-- C15: `from_le_bytes` / `from_be_bytes` never panic and produce the integer whose pattern is the
    little- resp. big-endian value of the `N*BYTES` bytes -/
theorem fromBytes_spec {bw sh : Nat} (hbw : bw = 2 ^ sh) {n : Nat} {bytes : List Nat} (hb : Bytes bytes)
    (hlen : bytes.length = n * bw) :
    (∃ x, UI.fromLeBytes bw n bytes = .ok x ∧ II.fromLeBytes bw n bytes = .ok x ∧
        WF (8 * bw) n x ∧ U (8 * bw) x = leValue bytes) ∧
    (∃ x, UI.fromBeBytes bw n bytes = .ok x ∧ II.fromBeBytes bw n bytes = .ok x ∧
        WF (8 * bw) n x ∧ U (8 * bw) x = beValue bytes) := by
  constructor
  · obtain ⟨x, h1, h2, h3⟩ := UI.fromLeBytes_value hbw hb hlen
    exact ⟨x, h1, h1, h2, by rw [h3, leValue_eq]⟩
  · obtain ⟨x, h1, h2, h3⟩ := UI.fromLeBytes_value hbw hb.reverse (by simpa using hlen)
    rw [← UI.fromBeBytes_eq_fromLeBytes_reverse hbw hlen] at h1
    exact ⟨x, h1, h1, h2, by rw [h3, beValue_eq]⟩
example : UI.fromBeBytes 2 2 [0x56, 0x78, 0x12, 0x34] = .ok [0x1234, 0x5678] := by decide

/-- C15: `from_X_bytes (to_X_bytes a) = a` for X ∈ {le, be, ne} -/
theorem fromBytes_toBytes {bw sh : Nat} (hbw : bw = 2 ^ sh) {n : Nat} (e : Bool) {a : List Nat}
    (ha : WF (8 * bw) n a) :
    (UI.toLeBytes bw n a).bind (UI.fromLeBytes bw n) = .ok a ∧
    (UI.toBeBytes bw n a).bind (UI.fromBeBytes bw n) = .ok a ∧
    (UI.toNeBytes e bw n a).bind (UI.fromNeBytes e bw n) = .ok a := by
  refine ⟨UI.fromLeBytes_toLeBytes hbw ha, UI.fromBeBytes_toBeBytes hbw ha, ?_⟩
  cases e
  · exact UI.fromBeBytes_toBeBytes hbw ha
  · exact UI.fromLeBytes_toLeBytes hbw ha
example : WF (8 * 4) 1 [0xdeadbeef] := by decide

/-- C15: `to_X_bytes (from_X_bytes b) = b` for X ∈ {le, be, ne}: exact inverses -/
theorem toBytes_fromBytes {bw sh : Nat} (hbw : bw = 2 ^ sh) {n : Nat} (e : Bool) {bytes : List Nat}
    (hb : Bytes bytes) (hlen : bytes.length = n * bw) :
    (UI.fromLeBytes bw n bytes).bind (UI.toLeBytes bw n) = .ok bytes ∧
    (UI.fromBeBytes bw n bytes).bind (UI.toBeBytes bw n) = .ok bytes ∧
    (UI.fromNeBytes e bw n bytes).bind (UI.toNeBytes e bw n) = .ok bytes := by
  refine ⟨UI.toLeBytes_fromLeBytes hbw hb hlen, UI.toBeBytes_fromBeBytes hbw hb hlen, ?_⟩
  cases e
  · exact UI.toBeBytes_fromBeBytes hbw hb hlen
  · exact UI.toLeBytes_fromLeBytes hbw hb hlen
example : Bytes [1, 2, 3, 4] ∧ [1, 2, 3, 4].length = 2 * 2 := by decide

/-- the signed methods are the unsigned ones on the bit pattern -/
theorem signed_delegates (e : Bool) (bw n : Nat) (a : List Nat) :
    II.toLeBytes bw n a = UI.toLeBytes bw n a ∧ II.toBeBytes bw n a = UI.toBeBytes bw n a ∧
    II.fromLeBytes bw n a = UI.fromLeBytes bw n a ∧ II.fromBeBytes bw n a = UI.fromBeBytes bw n a ∧
    II.toNeBytes e bw n a = UI.toNeBytes e bw n a ∧ II.fromNeBytes e bw n a = UI.fromNeBytes e bw n a :=
  ⟨rfl, rfl, rfl, rfl, rfl, rfl⟩

/-! ## big-endian forms of the "shorter" / "longer" clauses (stated directly, not via the reversed slice) -/

/-- C15 "shorter slices are zero-extended" (unsigned, BE): at most `N*BYTES` bytes are always accepted and
    denote their big-endian value -/
theorem u_fromBeSlice_short {bw sh : Nat} (hbw : bw = 2 ^ sh) (n : Nat) {bs : List Nat} (hb : Bytes bs)
    (hlen : bs.length ≤ n * bw) :
    UI.fromBeSlice bw n bs = .ok (some (ofNat (8 * bw) n (beValue bs))) := by
  rw [u_fromBeSlice_eq_fromLeSlice_reverse hbw,
    u_fromLeSlice_short hbw n hb.reverse (by simpa using hlen), ← beValue_eq_leValue_reverse]
example : UI.fromBeSlice 2 2 [0x12, 0x34, 0x56] = .ok (some [0x3456, 0x12]) := by decide

/-- C15 "longer slices are accepted only if the excess bytes are pure zero padding" (unsigned, BE): the
    excess bytes are the FIRST `len - N*BYTES` bytes -/
theorem u_fromBeSlice_long {bw sh : Nat} (hbw : bw = 2 ^ sh) (n : Nat) {bs : List Nat} (hb : Bytes bs)
    (hlen : n * bw ≤ bs.length) :
    (∃ x, UI.fromBeSlice bw n bs = .ok (some x)) ↔ ∀ b ∈ bs.take (bs.length - n * bw), b = 0 := by
  rw [u_fromBeSlice_eq_fromLeSlice_reverse hbw,
    u_fromLeSlice_long hbw n hb.reverse (by simpa using hlen), reverse_drop_eq]
  simp only [List.mem_reverse]
example : UI.fromBeSlice 1 2 [0, 1, 2] = .ok (some [2, 1]) ∧ UI.fromBeSlice 1 2 [1, 0, 0] = .ok none ∧
    [0, 1, 2].take ([0, 1, 2].length - 2 * 1) = [0] := by decide

/-- C15 "shorter slices are sign-extended" (signed, BE; sign from the FIRST byte) -/
theorem i_fromBeSlice_short {bw sh : Nat} (hbw : bw = 2 ^ sh) {n : Nat} (hn : 1 ≤ n) {bs : List Nat}
    (hb : Bytes bs) (hlen : bs.length ≤ n * bw) :
    II.fromBeSlice bw n bs = .ok (some (ofInt (8 * bw) n (twosBE bs))) := by
  rw [i_fromBeSlice_eq_fromLeSlice_reverse hbw hn,
    i_fromLeSlice_short hbw hn hb.reverse (by simpa using hlen), twosBE_eq_twosLE_reverse]
example : II.fromBeSlice 1 3 [0x80, 0x01] = .ok (some [0x01, 0x80, 0xff]) := by decide

/-- C15 "longer slices are accepted only if the excess bytes are pure sign padding" (signed, BE): the first
    `len - N*BYTES` bytes must all be `0xFF` / `0x00` according to the sign of the remaining `N*BYTES` bytes
    (i.e. of byte `len - N*BYTES`) -/
theorem i_fromBeSlice_long {bw sh : Nat} (hbw : bw = 2 ^ sh) {n : Nat} (hn : 1 ≤ n) {bs : List Nat}
    (hb : Bytes bs) (hlen : n * bw ≤ bs.length) :
    (∃ x, II.fromBeSlice bw n bs = .ok (some x)) ↔
      bs.take (bs.length - n * bw) = List.replicate (bs.length - n * bw)
        (if twosBE (bs.drop (bs.length - n * bw)) < 0 then 255 else 0) := by
  rw [i_fromBeSlice_eq_fromLeSlice_reverse hbw hn,
    i_fromLeSlice_long hbw hn hb.reverse (by simpa using hlen), reverse_drop_eq, reverse_take_eq,
    ← twosBE_eq_twosLE_reverse, List.length_reverse, List.reverse_eq_iff, List.reverse_replicate]
example : II.fromBeSlice 1 1 [0xff, 0x80] = .ok (some [0x80]) ∧ II.fromBeSlice 1 1 [0x00, 0x80] = .ok none ∧
    twosBE ([0xff, 0x80].drop ([0xff, 0x80].length - 1 * 1)) < 0 := by decide

/-- C15: a slice of exactly `N*BYTES` bytes is decoded like the byte ARRAY of the nightly constructors,
    for both signednesses and both byte orders (always `Some`) -/
theorem fromSlice_eq_fromBytes {bw sh : Nat} (hbw : bw = 2 ^ sh) {n : Nat} (hn : 1 ≤ n) {bytes : List Nat}
    (hb : Bytes bytes) (hlen : bytes.length = n * bw) :
    UI.fromLeSlice bw n bytes = (UI.fromLeBytes bw n bytes).map some ∧
    UI.fromBeSlice bw n bytes = (UI.fromBeBytes bw n bytes).map some ∧
    II.fromLeSlice bw n bytes = (II.fromLeBytes bw n bytes).map some ∧
    II.fromBeSlice bw n bytes = (II.fromBeBytes bw n bytes).map some := by
  obtain ⟨⟨x, hx1, hx2, hxw, hxu⟩, ⟨y, hy1, hy2, hyw, hyu⟩⟩ := fromBytes_spec hbw hb hlen
  have hxs := S_of_U_eq_leValue hxw hb hlen hxu
  have hys : S (8 * bw) y = twosBE bytes := by
    rw [twosBE_eq_twosLE_reverse]
    exact S_of_U_eq_leValue hyw hb.reverse (by simpa using hlen) (by rw [hyu, beValue_eq_leValue_reverse])
  refine ⟨?_, ?_, ?_, ?_⟩
  · rw [u_fromLeSlice_short hbw n hb (Nat.le_of_eq hlen), hx1, ← hxu, ← eq_ofNat hxw]; rfl
  · rw [u_fromBeSlice_short hbw n hb (Nat.le_of_eq hlen), hy1, ← hyu, ← eq_ofNat hyw]; rfl
  · rw [i_fromLeSlice_short hbw hn hb (Nat.le_of_eq hlen), hx2, ← hxs, ← eq_ofInt hxw]; rfl
  · rw [i_fromBeSlice_short hbw hn hb (Nat.le_of_eq hlen), hy2, ← hys, ← eq_ofInt hyw]; rfl
example : II.fromBeSlice 2 1 [0x80, 0x01] = (II.fromBeBytes 2 1 [0x80, 0x01]).map some := by decide

/-! ## `to_be` … `from_le` on pattern values, for either target -/

/-- C15 "to_be/from_be/to_le/from_le reverse the byte order of the pattern exactly when the target's
    endianness differs": on the pattern VALUE, `to_be`/`from_be` are the exact-arithmetic byte reversal
    `swapPattern` on a little-endian target and the identity on a big-endian one; `to_le`/`from_le` the
    other way round; the result is well-formed (both signednesses: the signed methods are the same functions) -/
theorem toBe_toLe_value {bw n : Nat} (e : Bool) {a : List Nat} (ha : WF (8 * bw) n a) :
    (WF (8 * bw) n (UI.toBe e bw a) ∧
      U (8 * bw) (UI.toBe e bw a) = (if e then swapPattern (n * bw) (U (8 * bw) a) else U (8 * bw) a)) ∧
    (WF (8 * bw) n (UI.toLe e bw a) ∧
      U (8 * bw) (UI.toLe e bw a) = (if e then U (8 * bw) a else swapPattern (n * bw) (U (8 * bw) a))) ∧
    UI.fromBe e bw a = UI.toBe e bw a ∧ UI.fromLe e bw a = UI.toLe e bw a ∧
    II.toBe e bw a = UI.toBe e bw a ∧ II.toLe e bw a = UI.toLe e bw a ∧
    II.fromBe e bw a = UI.toBe e bw a ∧ II.fromLe e bw a = UI.toLe e bw a := by
  refine ⟨?_, ?_, rfl, rfl, rfl, rfl, rfl, rfl⟩
  · rw [(toBe_eq e bw a).1]; cases e
    · exact ⟨ha, rfl⟩
    · exact swapBytes_value ha
  · rw [(toLe_eq e bw a).1]; cases e
    · exact swapBytes_value ha
    · exact ⟨ha, rfl⟩
example : U (8 * 1) (UI.toBe true 1 [1, 2, 3]) = swapPattern (3 * 1) (U (8 * 1) [1, 2, 3]) := by decide

/-! ## nightly `*_bytes`: the signed reading ("producing the two's-complement bytes") -/

/-- C15: for a signed integer of value `S a`, `to_le_bytes` / `to_be_bytes` / `to_ne_bytes` produce exactly the
    `N*BYTES` bytes of the two's-complement pattern `S a mod 2^BITS`, and those bytes, read back as a
    two's-complement number (sign from the most significant byte), denote `S a` -/
theorem i_toBytes_twos {bw sh : Nat} (hbw : bw = 2 ^ sh) {n : Nat} (e : Bool) {a : List Nat}
    (ha : WF (8 * bw) n a) :
    II.toLeBytes bw n a = .ok (leBytes (n * bw) (wrapU (M (8 * bw) n) (S (8 * bw) a))) ∧
    II.toBeBytes bw n a = .ok (beBytes (n * bw) (wrapU (M (8 * bw) n) (S (8 * bw) a))) ∧
    II.toNeBytes e bw n a = .ok (if e then leBytes (n * bw) (wrapU (M (8 * bw) n) (S (8 * bw) a))
                                  else beBytes (n * bw) (wrapU (M (8 * bw) n) (S (8 * bw) a))) ∧
    twosLE (leBytes (n * bw) (wrapU (M (8 * bw) n) (S (8 * bw) a))) = S (8 * bw) a ∧
    twosBE (beBytes (n * bw) (wrapU (M (8 * bw) n) (S (8 * bw) a))) = S (8 * bw) a := by
  rw [U_eq_wrapU_S ha]
  have hl := (toLeBytes_spec hbw ha).2.1
  have hbe := (toBeBytes_spec hbw ha).2.1
  refine ⟨hl, hbe, ?_, twosLE_leBytes ha, twosBE_beBytes ha⟩
  rw [(neBytes_eq e bw n a).2.2.1]; cases e
  · exact hbe
  · exact hl
example : II.toBeBytes 1 2 [0xfe, 0xff] = .ok [0xff, 0xfe] ∧ wrapU (M (8 * 1) 2) (S (8 * 1) [0xfe, 0xff]) = 0xfffe ∧
    S (8 * 1) [0xfe, 0xff] = -2 := by decide

/-- C15: the unsigned `to_ne_bytes` / `from_ne_bytes` are the `le` forms on a little-endian target and the `be`
    forms on a big-endian one, as VALUES (bytes of / value of), not only as a choice of function -/
theorem neBytes_spec {bw sh : Nat} (hbw : bw = 2 ^ sh) {n : Nat} (e : Bool) {a bytes : List Nat}
    (ha : WF (8 * bw) n a) (hb : Bytes bytes) (hlen : bytes.length = n * bw) :
    UI.toNeBytes e bw n a = .ok (if e then leBytes (n * bw) (U (8 * bw) a) else beBytes (n * bw) (U (8 * bw) a)) ∧
    (∃ x, UI.fromNeBytes e bw n bytes = .ok x ∧ II.fromNeBytes e bw n bytes = .ok x ∧ WF (8 * bw) n x ∧
      U (8 * bw) x = (if e then leValue bytes else beValue bytes)) := by
  obtain ⟨⟨x, hx1, _, hxw, hxu⟩, ⟨y, hy1, _, hyw, hyu⟩⟩ := fromBytes_spec hbw hb hlen
  cases e
  · exact ⟨(toBeBytes_spec hbw ha).1, y, hy1, hy1, hyw, hyu⟩
  · exact ⟨(toLeBytes_spec hbw ha).1, x, hx1, hx1, hxw, hxu⟩
example : UI.toNeBytes false 2 1 [0x1234] = .ok [0x12, 0x34] ∧ UI.fromNeBytes false 2 1 [0x12, 0x34] = .ok [0x1234] := by
  decide

/-- C15: the signed `from_*_bytes` never panic and produce THE integer whose signed value is the
    two's-complement reading of the `N*BYTES` bytes (sign from the last byte for `le`, the first for `be`) -/
theorem i_fromBytes_spec {bw sh : Nat} (hbw : bw = 2 ^ sh) {n : Nat} {bytes : List Nat} (hb : Bytes bytes)
    (hlen : bytes.length = n * bw) :
    (∃ x, II.fromLeBytes bw n bytes = .ok x ∧ WF (8 * bw) n x ∧ S (8 * bw) x = twosLE bytes) ∧
    (∃ x, II.fromBeBytes bw n bytes = .ok x ∧ WF (8 * bw) n x ∧ S (8 * bw) x = twosBE bytes) := by
  obtain ⟨⟨x, _, hx2, hxw, hxu⟩, ⟨y, _, hy2, hyw, hyu⟩⟩ := fromBytes_spec hbw hb hlen
  refine ⟨⟨x, hx2, hxw, S_of_U_eq_leValue hxw hb hlen hxu⟩, ⟨y, hy2, hyw, ?_⟩⟩
  rw [twosBE_eq_twosLE_reverse]
  exact S_of_U_eq_leValue hyw hb.reverse (by simpa using hlen) (by rw [hyu, beValue_eq_leValue_reverse])
example : II.fromBeBytes 1 2 [0xff, 0xfe] = .ok [0xfe, 0xff] ∧ twosBE [0xff, 0xfe] = -2 := by decide

/-- C15 "exact inverses", signed: `from_X_bytes (to_X_bytes a) = a` for X ∈ {le, be, ne} -/
theorem i_fromBytes_toBytes {bw sh : Nat} (hbw : bw = 2 ^ sh) {n : Nat} (e : Bool) {a : List Nat}
    (ha : WF (8 * bw) n a) :
    (II.toLeBytes bw n a).bind (II.fromLeBytes bw n) = .ok a ∧
    (II.toBeBytes bw n a).bind (II.fromBeBytes bw n) = .ok a ∧
    (II.toNeBytes e bw n a).bind (II.fromNeBytes e bw n) = .ok a :=
  fromBytes_toBytes hbw e ha
example : (II.toBeBytes 2 2 [0x0001, 0x8000]).bind (II.fromBeBytes 2 2) = .ok [0x0001, 0x8000] := by decide

/-- C15 "exact inverses", signed: `to_X_bytes (from_X_bytes b) = b` for X ∈ {le, be, ne} -/
theorem i_toBytes_fromBytes {bw sh : Nat} (hbw : bw = 2 ^ sh) {n : Nat} (e : Bool) {bytes : List Nat}
    (hb : Bytes bytes) (hlen : bytes.length = n * bw) :
    (II.fromLeBytes bw n bytes).bind (II.toLeBytes bw n) = .ok bytes ∧
    (II.fromBeBytes bw n bytes).bind (II.toBeBytes bw n) = .ok bytes ∧
    (II.fromNeBytes e bw n bytes).bind (II.toNeBytes e bw n) = .ok bytes :=
  toBytes_fromBytes hbw e hb hlen
example : (II.fromLeBytes 2 2 [0x80, 0xff, 0, 1]).bind (II.toLeBytes 2 2) = .ok [0x80, 0xff, 0, 1] := by decide

end Bnum.C15
