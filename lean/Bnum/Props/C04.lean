/-
  Bnum.Props.C04 — property C04 (cross-cutting: panic behaviour):

  "Operators (+ - * / % and unary -, and << >> with any primitive integer as shift amount) and the
   unsuffixed methods pow, abs, next_power_of_two and next_multiple_of panic in builds with debug
   assertions exactly when the exact result is unrepresentable or the shift amount is negative or
   >= BITS, and in builds without them return the wrapped result instead; division or remainder by
   zero, signed MIN / -1 and MIN % -1 through the operators, ilog of a non-positive value or with
   base < 2, and strict_* on overflow panic in both build modes. checked_* methods never panic for
   any input, and wrapping_/overflowing_/saturating_ methods panic only for a zero divisor."

  Conventions.  Every function that can panic returns `Outcome`; a function whose Rust body depends
  on `cfg(debug_assertions)` takes `dbg : Bool` (`true` = debug build, `false` = release build).  A
  statement "for both build modes" is a statement for all `dbg : Bool`; for a model without a `dbg`
  argument (nothing `cfg`-dependent is reachable from its body) it is by typing.  `UI.*` = `BUint<N>`,
  `II.*` = `BInt<N>`; `Ops.*_vv (buint w n)` / `(bint w n)` are the operator-trait impls of
  Model/Ops.lean, `Panic.addForms` … `Panic.shrForms` (Lemmas/Panic.lean) list ALL operand forms of an
  operator (by value, the three by-reference combinations, `op=`, `op= &`).  `U` / `S` = unsigned /
  two's-complement value, `M w n = 2^BITS`, `repU` / `repS` = representable, `wrapU` / `wrapS` = the
  result reduced into the type's range.  Signed `MIN` is `-((M w n / 2 : Nat) : Int)` as in C03.
  Almost everything is a corollary of C01 / C02 / C03 / C05 / C06 / C08 / C17 (cited per theorem);
  new proofs are in Lemmas/Panic.lean and Lemmas/C04Extra.lean (`Panic.*`).

  COVERAGE TABLE — every function the property names × the theorem(s) covering it
  ┌──────────────────────────────────────────────┬──────────────────────────────────────────────────┐
  │ debug-only panics / release wraps            │                                                  │
  │  `+` (6 forms), inherent `add`    U, I       │ add_dbg_panics_iff, add_rel_value                │
  │  `-` (6 forms), inherent `sub`    U, I       │ sub_dbg_panics_iff, sub_rel_value                │
  │  `*` (6 forms), inherent `mul`    U, I       │ mul_dbg_panics_iff, mul_rel_value                │
  │  unary `-` (2 forms), inherent `neg`   I     │ neg_dbg_panics_iff, neg_rel_value                │
  │    (BUint: no `Neg`, no unsuffixed `neg`)    │                                                  │
  │  `pow`                            U, I       │ pow_dbg_panics_iff, pow_rel_value                │
  │  `abs`                               I       │ abs_dbg_panics_iff, abs_rel_value                │
  │    (BUint has no `abs`)                      │                                                  │
  │  `next_power_of_two`              U          │ next_power_of_two_dbg_panics_iff, …_rel_value    │
  │    (BInt has no `next_power_of_two`)         │                                                  │
  │  `next_multiple_of`               U, I       │ next_multiple_of_dbg_panics_iff, …_rel_value     │
  │  `<<` `>>` (6 forms each) with u8 u16 u32    │ shift_prim_panics, shift_prim_rel_value,         │
  │    u64 u128 usize i8 i16 i32 i64 i128 isize  │   prim_types_twelve                              │
  │    U, I                                      │                                                  │
  │    value for an amount 0 ≤ k < BITS (both    │ shift_prim_in_range_value                        │
  │    modes); release value for ANY amount      │ shift_rel_any_amount                             │
  │  inherent `shl` / `shr` (ExpType) U, I       │ shift_inherent_panics, shift_rel_any_amount      │
  ├──────────────────────────────────────────────┼──────────────────────────────────────────────────┤
  │ panics in both build modes                   │                                                  │
  │  `/` `%` (6 forms each), inherent `div`,     │ u_div_rem_panics, i_div_rem_panics               │
  │    `rem`, `div_euclid`, `rem_euclid`  U, I   │   (zero divisor; I: MIN / -1, MIN % -1)          │
  │  `next_multiple_of` with zero rhs  U, I      │ next_multiple_of_dbg_panics_iff, …_rel_value     │
  │  `ilog`, `ilog2`, `ilog10`        U, I       │ u_ilog_panics_iff, i_ilog_panics_iff             │
  │  strict_add strict_sub strict_mul strict_div │ u_strict_panics_iff (12 conjuncts)               │
  │    strict_div_euclid strict_rem              │                                                  │
  │    strict_rem_euclid strict_neg strict_shl   │                                                  │
  │    strict_shr strict_pow strict_add_signed U │                                                  │
  │  strict_add strict_sub strict_mul strict_div │ i_strict_panics_iff (14 conjuncts)               │
  │    strict_div_euclid strict_rem              │                                                  │
  │    strict_rem_euclid strict_neg strict_shl   │                                                  │
  │    strict_shr strict_pow strict_abs          │                                                  │
  │    strict_add_unsigned strict_sub_unsigned I │                                                  │
  ├──────────────────────────────────────────────┼──────────────────────────────────────────────────┤
  │ checked_* never panic                        │                                                  │
  │  U: checked_add checked_add_signed           │ checked_total_by_typing (model type `Option _`)  │
  │     checked_sub checked_mul checked_neg      │                                                  │
  │     checked_shl checked_shr checked_pow      │                                                  │
  │     checked_ilog2                            │                                                  │
  │  I: checked_add checked_add_unsigned         │ checked_total_by_typing                          │
  │     checked_sub checked_sub_unsigned         │                                                  │
  │     checked_mul checked_neg checked_abs      │                                                  │
  │     checked_shl checked_shr checked_pow      │                                                  │
  │     checked_ilog2                            │                                                  │
  │  U, I: checked_div checked_rem               │ checked_div_never_panics                         │
  │     checked_div_euclid checked_rem_euclid    │                                                  │
  │     checked_next_multiple_of                 │                                                  │
  │  U, I: checked_ilog checked_ilog10           │ checked_ilog_never_panics                        │
  │  U: checked_next_power_of_two                │ checked_next_power_of_two_never_panics           │
  ├──────────────────────────────────────────────┼──────────────────────────────────────────────────┤
  │ wrapping_/overflowing_/saturating_           │                                                  │
  │  U: wrapping_{add add_signed sub mul neg shl │ wos_total_by_typing (model types `List Nat`,     │
  │       shr pow}, overflowing_{the same},      │   `List Nat × Bool`: no divisor, never panic)    │
  │     saturating_{add add_signed sub mul pow}  │                                                  │
  │  I: wrapping_{add add_unsigned sub           │ wos_total_by_typing                              │
  │       sub_unsigned mul neg abs shl shr pow}, │                                                  │
  │     overflowing_{the same}, saturating_{add  │                                                  │
  │       add_unsigned sub sub_unsigned mul neg  │                                                  │
  │       abs pow}                               │                                                  │
  │  U, I: wrapping_{div rem div_euclid          │ wos_panics_only_zero_divisor (18 conjuncts,      │
  │       rem_euclid}, overflowing_{the same},   │   `= .panic ↔ divisor = 0`)                      │
  │     saturating_div                           │                                                  │
  │  U: wrapping_next_power_of_two               │ wrapping_next_power_of_two_never_panics          │
  └──────────────────────────────────────────────┴──────────────────────────────────────────────────┘
  This is the complete list of `pub const fn (checked|strict|wrapping|overflowing|saturating)_*` of
  /repo/src (buint/, bint/, int/strict.rs), plus `checked_ilog2` / `checked_ilog10` of `BInt`, which
  come from the `checked_ilog!` macro.  Not named by the property and not restated here: the
  `unchecked_*` functions (undefined behaviour, not a panic; Model/Panic.lean, Model/Shift.lean),
  shifts by a `BUint` / `BInt` amount (C17.shift_bnum_*), `Sum` / `Product` (C17.sum_product_*),
  `Add/Div/Rem<digit>` (C17.add_digit, C17.div_rem_digit), `midpoint` (never panics: C01),
  `div_floor` / `div_ceil` (C03).

  Hypotheses.  Well-formed operands, `1 ≤ n`, `2 ≤ w` for anything signed (`1 ≤ w` unsigned).
  `next_power_of_two` family: digit width `2^s`, `s < 32`, as in C06 (the crate computes digit
  indices with `>> BIT_SHIFT`).  Logarithms: `BITS < 2^32` and `10 < 2^w`, as in C08.  Primitive
  shifts: `BITS ≤ 2^32` and the amount's pattern `p < 2^t.bits`, as in C17.
-/
import Bnum.Lemmas.Panic
import Bnum.Lemmas.C04Extra
namespace Bnum.C04
open Bnum Bnum.Ops

/-! ## 1. `+ - *`, unary `-`, `pow`, `abs`, `next_power_of_two`, `next_multiple_of`:
    a panic under `debug_assertions` exactly when the exact result is unrepresentable, the wrapped
    result otherwise.  `… true …` is the debug build, `… false …` the release build. -/

/-- `+` / `add` (cites C01.u_strict_add, C01.i_strict_add): every operator form
    (`Panic.addForms`: `a + b`, `a + &b`, `&a + b`, `&a + &b`, `a += b`, `a += &b`) and the inherent
    unsuffixed `add`, for `BUint` and for `BInt`.  The third / sixth conjunct: when it does not
    panic the result is the exact sum. -/
theorem add_dbg_panics_iff {w n : Nat} {a b : List Nat} (hw : 2 ≤ w) (hn : 1 ≤ n)
    (ha : WF w n a) (hb : WF w n b) :
    (UI.add true w a b = .panic ↔ ¬ repU (M w n) ((U w a : Int) + U w b)) ∧
    (∀ f ∈ Panic.addForms,
      (f (buint w n) true a b = .panic ↔ ¬ repU (M w n) ((U w a : Int) + U w b))) ∧
    (∀ r, UI.add true w a b = .ok r → WF w n r ∧ (U w r : Int) = U w a + U w b) ∧
    (II.add true w a b = .panic ↔ ¬ repS (M w n) (S w a + S w b)) ∧
    (∀ f ∈ Panic.addForms,
      (f (bint w n) true a b = .panic ↔ ¬ repS (M w n) (S w a + S w b))) ∧
    (∀ r, II.add true w a b = .ok r → WF w n r ∧ S w r = S w a + S w b) :=
  ⟨(C01.u_strict_add ha hb).1,
   fun f hf => by rw [Panic.addForms_eq hf]; exact (C01.u_strict_add ha hb).1,
   (C01.u_strict_add ha hb).2,
   (C01.i_strict_add hw hn ha hb).1,
   fun f hf => by rw [Panic.addForms_eq hf]; exact (C01.i_strict_add hw hn ha hb).1,
   (C01.i_strict_add hw hn ha hb).2⟩
example : 2 ≤ 8 ∧ 1 ≤ 2 ∧ WF 8 2 [255, 127] ∧ WF 8 2 [1, 0] ∧
    add_vv (buint 8 2) true [255, 255] [1, 0] = .panic ∧
    add_vv (bint 8 2) true [255, 127] [1, 0] = .panic ∧
    add_vv (bint 8 2) true [255, 255] [1, 0] = .ok [0, 0] := by decide

/-- `+` / `add` in release builds (cites C01.u_wrapping_add, C01.i_wrapping_add): never a panic,
    every form returns the same `r`, the exact sum reduced into the type's range -/
theorem add_rel_value {w n : Nat} {a b : List Nat} (ha : WF w n a) (hb : WF w n b) :
    (∃ r, UI.add false w a b = .ok r ∧ (∀ f ∈ Panic.addForms, f (buint w n) false a b = .ok r) ∧
      WF w n r ∧ (U w r : Int) = wrapU (M w n) ((U w a : Int) + U w b)) ∧
    (∃ r, II.add false w a b = .ok r ∧ (∀ f ∈ Panic.addForms, f (bint w n) false a b = .ok r) ∧
      WF w n r ∧ S w r = wrapS (M w n) (S w a + S w b)) :=
  ⟨⟨_, rfl, fun f hf => by rw [Panic.addForms_eq hf]; rfl,
      (C01.u_wrapping_add ha hb).1, (C01.u_wrapping_add ha hb).2⟩,
   ⟨_, rfl, fun f hf => by rw [Panic.addForms_eq hf]; rfl,
      (C01.i_wrapping_add ha hb).1, (C01.i_wrapping_add ha hb).2⟩⟩
example : WF 8 2 [255, 127] ∧ WF 8 2 [1, 0] ∧
    add_vv (buint 8 2) false [255, 255] [1, 0] = .ok [0, 0] ∧
    add_vv (bint 8 2) false [255, 127] [1, 0] = .ok [0, 128] := by decide

/-- `-` / `sub` (cites C01.u_strict_sub, C01.i_strict_sub) -/
theorem sub_dbg_panics_iff {w n : Nat} {a b : List Nat} (hw : 2 ≤ w) (hn : 1 ≤ n)
    (ha : WF w n a) (hb : WF w n b) :
    (UI.sub true w a b = .panic ↔ ¬ repU (M w n) ((U w a : Int) - U w b)) ∧
    (∀ f ∈ Panic.subForms,
      (f (buint w n) true a b = .panic ↔ ¬ repU (M w n) ((U w a : Int) - U w b))) ∧
    (∀ r, UI.sub true w a b = .ok r → WF w n r ∧ (U w r : Int) = U w a - U w b) ∧
    (II.sub true w a b = .panic ↔ ¬ repS (M w n) (S w a - S w b)) ∧
    (∀ f ∈ Panic.subForms,
      (f (bint w n) true a b = .panic ↔ ¬ repS (M w n) (S w a - S w b))) ∧
    (∀ r, II.sub true w a b = .ok r → WF w n r ∧ S w r = S w a - S w b) :=
  ⟨(C01.u_strict_sub ha hb).1,
   fun f hf => by rw [Panic.subForms_eq hf]; exact (C01.u_strict_sub ha hb).1,
   (C01.u_strict_sub ha hb).2,
   (C01.i_strict_sub hw hn ha hb).1,
   fun f hf => by rw [Panic.subForms_eq hf]; exact (C01.i_strict_sub hw hn ha hb).1,
   (C01.i_strict_sub hw hn ha hb).2⟩
example : 2 ≤ 8 ∧ 1 ≤ 2 ∧ WF 8 2 [0, 128] ∧ WF 8 2 [1, 0] ∧
    sub_vv (buint 8 2) true [0, 0] [1, 0] = .panic ∧
    sub_vv (bint 8 2) true [0, 128] [1, 0] = .panic ∧
    sub_vv (bint 8 2) true [0, 0] [1, 0] = .ok [255, 255] := by decide

/-- `-` / `sub` in release builds (cites C01.u_wrapping_sub, C01.i_wrapping_sub) -/
theorem sub_rel_value {w n : Nat} {a b : List Nat} (ha : WF w n a) (hb : WF w n b) :
    (∃ r, UI.sub false w a b = .ok r ∧ (∀ f ∈ Panic.subForms, f (buint w n) false a b = .ok r) ∧
      WF w n r ∧ (U w r : Int) = wrapU (M w n) ((U w a : Int) - U w b)) ∧
    (∃ r, II.sub false w a b = .ok r ∧ (∀ f ∈ Panic.subForms, f (bint w n) false a b = .ok r) ∧
      WF w n r ∧ S w r = wrapS (M w n) (S w a - S w b)) :=
  ⟨⟨_, rfl, fun f hf => by rw [Panic.subForms_eq hf]; rfl,
      (C01.u_wrapping_sub ha hb).1, (C01.u_wrapping_sub ha hb).2⟩,
   ⟨_, rfl, fun f hf => by rw [Panic.subForms_eq hf]; rfl,
      (C01.i_wrapping_sub ha hb).1, (C01.i_wrapping_sub ha hb).2⟩⟩
example : WF 8 2 [0, 128] ∧ WF 8 2 [1, 0] ∧
    sub_vv (buint 8 2) false [0, 0] [1, 0] = .ok [255, 255] ∧
    sub_vv (bint 8 2) false [0, 128] [1, 0] = .ok [255, 127] := by decide

/-- `*` / `mul` (cites C02.u_strict_mul, C02.i_strict_mul) -/
theorem mul_dbg_panics_iff {w n : Nat} {a b : List Nat} (hw : 2 ≤ w) (hn : 1 ≤ n)
    (ha : WF w n a) (hb : WF w n b) :
    (UI.mul w true a b = .panic ↔ ¬ repU (M w n) ((U w a : Int) * U w b)) ∧
    (∀ f ∈ Panic.mulForms,
      (f (buint w n) true a b = .panic ↔ ¬ repU (M w n) ((U w a : Int) * U w b))) ∧
    (∀ r, UI.mul w true a b = .ok r → WF w n r ∧ (U w r : Int) = U w a * U w b) ∧
    (II.mul w true a b = .panic ↔ ¬ repS (M w n) (S w a * S w b)) ∧
    (∀ f ∈ Panic.mulForms,
      (f (bint w n) true a b = .panic ↔ ¬ repS (M w n) (S w a * S w b))) ∧
    (∀ r, II.mul w true a b = .ok r → WF w n r ∧ S w r = S w a * S w b) :=
  ⟨(C02.u_strict_mul ha hb).1,
   fun f hf => by rw [Panic.mulForms_eq hf]; exact (C02.u_strict_mul ha hb).1,
   (C02.u_strict_mul ha hb).2,
   (C02.i_strict_mul hw hn ha hb).1,
   fun f hf => by rw [Panic.mulForms_eq hf]; exact (C02.i_strict_mul hw hn ha hb).1,
   (C02.i_strict_mul hw hn ha hb).2⟩
example : 2 ≤ 8 ∧ 1 ≤ 2 ∧ WF 8 2 [0, 128] ∧ WF 8 2 [255, 255] ∧
    mul_vv (buint 8 2) true [0, 1] [0, 1] = .panic ∧
    mul_vv (bint 8 2) true [0, 128] [255, 255] = .panic ∧
    mul_vv (bint 8 2) true [3, 0] [255, 255] = .ok [253, 255] := by decide

/-- `*` / `mul` in release builds (cites C02.u_wrapping_mul, C02.i_wrapping_mul) -/
theorem mul_rel_value {w n : Nat} {a b : List Nat} (ha : WF w n a) (hb : WF w n b) :
    (∃ r, UI.mul w false a b = .ok r ∧ (∀ f ∈ Panic.mulForms, f (buint w n) false a b = .ok r) ∧
      WF w n r ∧ (U w r : Int) = wrapU (M w n) ((U w a : Int) * U w b)) ∧
    (∃ r, II.mul w false a b = .ok r ∧ (∀ f ∈ Panic.mulForms, f (bint w n) false a b = .ok r) ∧
      WF w n r ∧ S w r = wrapS (M w n) (S w a * S w b)) :=
  ⟨⟨_, rfl, fun f hf => by rw [Panic.mulForms_eq hf]; rfl,
      (C02.u_wrapping_mul ha hb).1, (C02.u_wrapping_mul ha hb).2⟩,
   ⟨_, rfl, fun f hf => by rw [Panic.mulForms_eq hf]; rfl,
      (C02.i_wrapping_mul ha hb).1, (C02.i_wrapping_mul ha hb).2⟩⟩
example : WF 8 2 [0, 128] ∧ WF 8 2 [255, 255] ∧
    mul_vv (buint 8 2) false [0, 1] [0, 1] = .ok [0, 0] ∧
    mul_vv (bint 8 2) false [0, 128] [255, 255] = .ok [0, 128] := by decide

/-- unary `-` / the inherent `BInt::neg` (cites C01.i_strict_neg; equivalently C17.neg_value):
    `-a` and `-&a` (`Panic.negForms`).  `BUint` has neither a `Neg` impl nor an unsuffixed `neg`
    (only `strict_neg` / `checked_neg` / `wrapping_neg` / `overflowing_neg`, see §5–§7). -/
theorem neg_dbg_panics_iff {w n : Nat} {a : List Nat} (hw : 2 ≤ w) (hn : 1 ≤ n) (ha : WF w n a) :
    (bintNeg true w a = .panic ↔ ¬ repS (M w n) (-S w a)) ∧
    (∀ f ∈ Panic.negForms, (f true w a = .panic ↔ ¬ repS (M w n) (-S w a))) ∧
    (∀ r, bintNeg true w a = .ok r → WF w n r ∧ S w r = -S w a) :=
  ⟨(C01.i_strict_neg hw hn ha).1,
   fun f hf => by rw [Panic.negForms_eq hf]; exact (C01.i_strict_neg hw hn ha).1,
   (C01.i_strict_neg hw hn ha).2⟩
example : 2 ≤ 8 ∧ 1 ≤ 2 ∧ WF 8 2 [0, 128] ∧ neg_v true 8 [0, 128] = .panic ∧
    neg_v true 8 [1, 128] = .ok [255, 127] := by decide

/-- unary `-` in release builds (cites C01.i_wrapping_neg): `-MIN = MIN` -/
theorem neg_rel_value {w n : Nat} {a : List Nat} (hw : 2 ≤ w) (hn : 1 ≤ n) (ha : WF w n a) :
    ∃ r, bintNeg false w a = .ok r ∧ (∀ f ∈ Panic.negForms, f false w a = .ok r) ∧
      WF w n r ∧ S w r = wrapS (M w n) (-S w a) :=
  ⟨_, rfl, fun f hf => by rw [Panic.negForms_eq hf]; rfl,
    (C01.i_wrapping_neg hw hn ha).1, (C01.i_wrapping_neg hw hn ha).2⟩
example : 2 ≤ 8 ∧ 1 ≤ 2 ∧ WF 8 2 [0, 128] ∧ neg_v false 8 [0, 128] = .ok [0, 128] := by decide

/-- `pow` (cites C08.u_pow, C08.i_pow); `e` is any exponent, in particular every `u32` -/
theorem pow_dbg_panics_iff {w n : Nat} {a : List Nat} (hw : 2 ≤ w) (hn : 1 ≤ n) (ha : WF w n a)
    (e : Nat) :
    (UI.pow w true a e = .panic ↔ ¬ repU (M w n) ((U w a : Int) ^ e)) ∧
    (∀ r, UI.pow w true a e = .ok r → WF w n r ∧ (U w r : Int) = (U w a : Int) ^ e) ∧
    (II.pow w true a e = .panic ↔ ¬ repS (M w n) (S w a ^ e)) ∧
    (∀ r, II.pow w true a e = .ok r → WF w n r ∧ S w r = S w a ^ e) := by
  have hu := C08.u_pow (by omega : 1 ≤ w) hn ha e true
  have hi := C08.i_pow hw hn ha e true
  exact ⟨by simpa using hu.1, fun r hr => ⟨(hu.2 r hr).1, (hu.2 r hr).2.2 rfl⟩,
    by simpa using hi.1, fun r hr => ⟨(hi.2 r hr).1, (hi.2 r hr).2.2 rfl⟩⟩
example : 2 ≤ 8 ∧ 1 ≤ 2 ∧ WF 8 2 [254, 255] ∧ UI.pow 8 true [2, 0] 16 = .panic ∧
    II.pow 8 true [2, 0] 15 = .panic ∧ II.pow 8 true [254, 255] 15 = .ok [0, 128] := by decide

/-- `pow` in release builds (cites C08.u_pow, C08.i_pow) -/
theorem pow_rel_value {w n : Nat} {a : List Nat} (hw : 2 ≤ w) (hn : 1 ≤ n) (ha : WF w n a)
    (e : Nat) :
    (∃ r, UI.pow w false a e = .ok r ∧ WF w n r ∧
      (U w r : Int) = wrapU (M w n) ((U w a : Int) ^ e)) ∧
    (∃ r, II.pow w false a e = .ok r ∧ WF w n r ∧ S w r = wrapS (M w n) (S w a ^ e)) := by
  have hu := (C08.u_pow (by omega : 1 ≤ w) hn ha e false).2 _ rfl
  have hi := (C08.i_pow hw hn ha e false).2 _ rfl
  exact ⟨⟨_, rfl, hu.1, hu.2.1⟩, ⟨_, rfl, hi.1, hi.2.1⟩⟩
example : 2 ≤ 8 ∧ 1 ≤ 2 ∧ WF 8 2 [2, 0] ∧ UI.pow 8 false [2, 0] 16 = .ok [0, 0] ∧
    II.pow 8 false [2, 0] 15 = .ok [0, 128] := by decide

/-- the unsuffixed `BInt::abs` (`II.abs` = `NumT.Inh.abs`; cites C01.i_strict_abs): debug panics
    exactly for `MIN`.  `BUint` has no `abs`. -/
theorem abs_dbg_panics_iff {w n : Nat} {a : List Nat} (hw : 2 ≤ w) (hn : 1 ≤ n) (ha : WF w n a) :
    (II.abs true w a = .panic ↔ ¬ repS (M w n) (((S w a).natAbs : Int))) ∧
    (∀ r, II.abs true w a = .ok r → WF w n r ∧ S w r = ((S w a).natAbs : Int)) :=
  C01.i_strict_abs hw hn ha
example : 2 ≤ 8 ∧ 1 ≤ 2 ∧ WF 8 2 [0, 128] ∧ II.abs true 8 [0, 128] = .panic ∧
    II.abs true 8 [1, 128] = .ok [255, 127] := by decide

/-- `abs` in release builds (`Panic.abs_rel`): `checked_abs`, or `MIN` for `MIN` — which is `|self|`
    wrapped -/
theorem abs_rel_value {w n : Nat} {a : List Nat} (hw : 2 ≤ w) (hn : 1 ≤ n) (ha : WF w n a) :
    ∃ r, II.abs false w a = .ok r ∧ WF w n r ∧
      S w r = wrapS (M w n) (((S w a).natAbs : Int)) :=
  Panic.abs_rel hw hn ha
example : 2 ≤ 8 ∧ 1 ≤ 2 ∧ WF 8 2 [0, 128] ∧ II.abs false 8 [0, 128] = .ok [0, 128] ∧
    II.abs false 8 [1, 128] = .ok [255, 127] := by decide

/-- `BUint::next_power_of_two` (`Panic.nextPowerOfTwo_full`, from C06.next_power_of_two_spec): the
    exact result is `Spec.nextPow2 self`, the least power of two `≥ self` (`C06.spec_nextPow2_least`).
    The digit width is a power of two `2^s` (u8/u16/u32/u64), as in C06: `power_of_two` computes
    its digit index with `>> BIT_SHIFT`.  `BInt` has no `next_power_of_two`. -/
theorem next_power_of_two_dbg_panics_iff {s n : Nat} (hs : s < 32) {x : List Nat}
    (hx : WF (2 ^ s) n x) :
    (UI.nextPowerOfTwo true (2 ^ s) x = .panic ↔
      ¬ repU (M (2 ^ s) n) ((Spec.nextPow2 (U (2 ^ s) x) : Nat) : Int)) ∧
    (∀ r, UI.nextPowerOfTwo true (2 ^ s) x = .ok r →
      WF (2 ^ s) n r ∧ U (2 ^ s) r = Spec.nextPow2 (U (2 ^ s) x)) :=
  ⟨(Panic.nextPowerOfTwo_full hs hx).1, (Panic.nextPowerOfTwo_full hs hx).2.1⟩
example : 3 < 32 ∧ WF (2 ^ 3) 2 [1, 128] ∧ UI.nextPowerOfTwo true (2 ^ 3) [1, 128] = .panic ∧
    UI.nextPowerOfTwo true (2 ^ 3) [0, 128] = .ok [0, 128] ∧
    UI.nextPowerOfTwo true (2 ^ 3) [1, 64] = .ok [0, 128] := by decide

/-- `next_power_of_two` in release builds: the exact result reduced mod `2^BITS` (i.e. `0` when it
    is `2^BITS`) -/
theorem next_power_of_two_rel_value {s n : Nat} (hs : s < 32) {x : List Nat}
    (hx : WF (2 ^ s) n x) :
    ∃ r, UI.nextPowerOfTwo false (2 ^ s) x = .ok r ∧ WF (2 ^ s) n r ∧
      (U (2 ^ s) r : Int) = wrapU (M (2 ^ s) n) ((Spec.nextPow2 (U (2 ^ s) x) : Nat) : Int) :=
  (Panic.nextPowerOfTwo_full hs hx).2.2
example : 3 < 32 ∧ WF (2 ^ 3) 2 [1, 128] ∧ UI.nextPowerOfTwo false (2 ^ 3) [1, 128] = .ok [0, 0] := by
  decide

/-- `next_multiple_of` (`Panic.u_nextMultipleOf_full`, `Panic.i_nextMultipleOf_full`, completing
    C03.u_nextMultipleOf_spec / C03.i_nextMultipleOf_spec; zero divisor: C03.u_zero_divisor,
    C03.i_zero_divisor).  The exact result is `Spec.nextMultiple self rhs`
    (`C03.cdiv_nextMultiple_meaning`).  A zero `rhs` has no exact result: the internal remainder
    panics in both build modes (second clause of the property). -/
theorem next_multiple_of_dbg_panics_iff {w n : Nat} {a b : List Nat} (hw : 2 ≤ w) (hn : 1 ≤ n)
    (ha : WF w n a) (hb : WF w n b) :
    (UI.nextMultipleOf true w a b = .panic ↔
      U w b = 0 ∨ ¬ repU (M w n) (Spec.nextMultiple (U w a) (U w b))) ∧
    (∀ r, UI.nextMultipleOf true w a b = .ok r →
      WF w n r ∧ (U w r : Int) = Spec.nextMultiple (U w a) (U w b)) ∧
    (II.nextMultipleOf true w a b = .panic ↔
      S w b = 0 ∨ ¬ repS (M w n) (Spec.nextMultiple (S w a) (S w b))) ∧
    (∀ r, II.nextMultipleOf true w a b = .ok r →
      WF w n r ∧ S w r = Spec.nextMultiple (S w a) (S w b)) := by
  have hw1 : 1 ≤ w := by omega
  refine ⟨?_, ?_, ?_, ?_⟩
  · by_cases hb0 : U w b = 0
    · simp [hb0, (C03.u_zero_divisor (a := a) hb0 true).2.2.2.2.2.2.2.2.2.2.2.2.2.2.2.2.2.2.2.2]
    · rw [(Panic.u_nextMultipleOf_full hw1 hn ha hb hb0).1]; simp [hb0]
  · intro r hr
    by_cases hb0 : U w b = 0
    · rw [(C03.u_zero_divisor (a := a) hb0 true).2.2.2.2.2.2.2.2.2.2.2.2.2.2.2.2.2.2.2.2] at hr
      cases hr
    · exact (Panic.u_nextMultipleOf_full hw1 hn ha hb hb0).2.1 r hr
  · by_cases hb0 : S w b = 0
    · simp [hb0, (C03.i_zero_divisor hw hn ha hb hb0 true).2.2.2.2.2.2.2.2.2.2.2.2.2.2.2.2.2.2.2.2]
    · rw [(Panic.i_nextMultipleOf_full hw hn ha hb hb0).1]; simp [hb0]
  · intro r hr
    by_cases hb0 : S w b = 0
    · rw [(C03.i_zero_divisor hw hn ha hb hb0 true).2.2.2.2.2.2.2.2.2.2.2.2.2.2.2.2.2.2.2.2] at hr
      cases hr
    · exact (Panic.i_nextMultipleOf_full hw hn ha hb hb0).2.1 r hr
example : 2 ≤ 8 ∧ 1 ≤ 1 ∧ WF 8 1 [254] ∧ WF 8 1 [7] ∧
    UI.nextMultipleOf true 8 [254] [7] = .panic ∧ UI.nextMultipleOf true 8 [250] [7] = .ok [252] ∧
    II.nextMultipleOf true 8 [127] [7] = .panic ∧ II.nextMultipleOf true 8 [129] [249] = .panic ∧
    II.nextMultipleOf true 8 [128] [255] = .ok [128] ∧
    UI.nextMultipleOf true 8 [254] [0] = .panic := by decide

/-- `next_multiple_of` in release builds: a panic exactly for a zero divisor, otherwise the exact
    result wrapped -/
theorem next_multiple_of_rel_value {w n : Nat} {a b : List Nat} (hw : 2 ≤ w) (hn : 1 ≤ n)
    (ha : WF w n a) (hb : WF w n b) :
    (UI.nextMultipleOf false w a b = .panic ↔ U w b = 0) ∧
    (U w b ≠ 0 → ∃ r, UI.nextMultipleOf false w a b = .ok r ∧ WF w n r ∧
      (U w r : Int) = wrapU (M w n) (Spec.nextMultiple (U w a) (U w b))) ∧
    (II.nextMultipleOf false w a b = .panic ↔ S w b = 0) ∧
    (S w b ≠ 0 → ∃ r, II.nextMultipleOf false w a b = .ok r ∧ WF w n r ∧
      S w r = wrapS (M w n) (Spec.nextMultiple (S w a) (S w b))) := by
  have hw1 : 1 ≤ w := by omega
  refine ⟨?_, fun hb0 => (Panic.u_nextMultipleOf_full hw1 hn ha hb hb0).2.2, ?_,
    fun hb0 => (Panic.i_nextMultipleOf_full hw hn ha hb hb0).2.2⟩
  · by_cases hb0 : U w b = 0
    · simp [hb0, (C03.u_zero_divisor (a := a) hb0 false).2.2.2.2.2.2.2.2.2.2.2.2.2.2.2.2.2.2.2.2]
    · obtain ⟨r, h, -⟩ := (Panic.u_nextMultipleOf_full hw1 hn ha hb hb0).2.2
      rw [h]; simp [hb0]
  · by_cases hb0 : S w b = 0
    · simp [hb0, (C03.i_zero_divisor hw hn ha hb hb0 false).2.2.2.2.2.2.2.2.2.2.2.2.2.2.2.2.2.2.2.2]
    · obtain ⟨r, h, -⟩ := (Panic.i_nextMultipleOf_full hw hn ha hb hb0).2.2
      rw [h]; simp [hb0]
example : 2 ≤ 8 ∧ 1 ≤ 1 ∧ WF 8 1 [254] ∧ WF 8 1 [7] ∧
    UI.nextMultipleOf false 8 [254] [7] = .ok [3] ∧ II.nextMultipleOf false 8 [127] [7] = .ok [133] ∧
    II.nextMultipleOf false 8 [127] [0] = .panic := by decide

/-! ## 2. `<<` and `>>`: a panic under `debug_assertions` exactly when the amount is negative or
    `≥ BITS`; in release builds never a panic (the amount is truncated to `u32` and masked) -/

/-- the twelve primitive integer types are exactly the constructors of `PrimTy` -/
theorem prim_types_twelve (t : PrimTy) :
    t ∈ [PrimTy.u8, .u16, .u32, .u64, .u128, .usize, .i8, .i16, .i32, .i64, .i128, .isize] := by
  cases t <;> simp

/-- `a << k`, `a >> k` for `k` of any primitive type `t` (pattern `p`, value `t.val p`), every
    operator form (`Panic.shlForms`, `Panic.shrForms`), `BUint` and `BInt` (cites
    C17.shift_prim_dbg): debug builds panic iff `k < 0 ∨ k ≥ BITS`.  (`BITS ≤ 2^32`: `BITS` is a
    `u32` in the crate.) -/
theorem shift_prim_panics {w : Nat} {a : List Nat} (t : PrimTy) {p : Nat} (hp : p < B t.bits)
    (hB : w * a.length ≤ 2 ^ 32) :
    (∀ f ∈ Panic.shlForms, (f (buint w a.length) true t a p = .panic ↔
      t.val p < 0 ∨ ((w * a.length : Nat) : Int) ≤ t.val p)) ∧
    (∀ f ∈ Panic.shrForms, (f (buint w a.length) true t a p = .panic ↔
      t.val p < 0 ∨ ((w * a.length : Nat) : Int) ≤ t.val p)) ∧
    (∀ f ∈ Panic.shlForms, (f (bint w a.length) true t a p = .panic ↔
      t.val p < 0 ∨ ((w * a.length : Nat) : Int) ≤ t.val p)) ∧
    (∀ f ∈ Panic.shrForms, (f (bint w a.length) true t a p = .panic ↔
      t.val p < 0 ∨ ((w * a.length : Nat) : Int) ≤ t.val p)) := by
  obtain ⟨h1, h2, h3, h4⟩ := C17.shift_prim_dbg (w := w) (a := a) t hp hB
  refine ⟨fun f hf => ?_, fun f hf => ?_, fun f hf => ?_, fun f hf => ?_⟩
  · rw [Panic.shlForms_eq hf, h1, Panic.ite_panic_iff]; omega
  · rw [Panic.shrForms_eq hf, h2, Panic.ite_panic_iff]; omega
  · rw [Panic.shlForms_eq hf, h3, Panic.ite_panic_iff]; omega
  · rw [Panic.shrForms_eq hf, h4, Panic.ite_panic_iff]; omega
example : (0xfd : Nat) < B PrimTy.i8.bits ∧ 8 * [1, 0, 0].length ≤ 2 ^ 32 ∧
    PrimTy.i8.val 0xfd = -3 ∧ shl_vv (buint 8 3) true .i8 [1, 0, 0] 0xfd = .panic ∧
    shr_vv (bint 8 3) true .u64 [1, 0, 0] 24 = .panic ∧
    shr_vv (bint 8 3) true .u64 [1, 0, 128] 23 = .ok [255, 255, 255] := by decide

/-- release builds (cites C17.shift_prim_rel): never a panic; every form returns `wrapping_shl` /
    `wrapping_shr` of `k mod 2^32` (`rhs as u32`), whose value is the in-range shift by the masked
    amount (C05.u_overflowing_shl …; at power-of-two widths `k mod BITS`: C17.shift_prim_rel_pow2) -/
theorem shift_prim_rel_value {w n : Nat} (a : List Nat) (t : PrimTy) {p : Nat} (hp : p < B t.bits) :
    (∀ f ∈ Panic.shlForms,
      f (buint w n) false t a p = .ok (UI.wrappingShl w a (t.val p % 2 ^ 32).toNat)) ∧
    (∀ f ∈ Panic.shrForms,
      f (buint w n) false t a p = .ok (UI.wrappingShr w a (t.val p % 2 ^ 32).toNat)) ∧
    (∀ f ∈ Panic.shlForms,
      f (bint w n) false t a p = .ok (II.wrappingShl w a (t.val p % 2 ^ 32).toNat)) ∧
    (∀ f ∈ Panic.shrForms,
      f (bint w n) false t a p = .ok (II.wrappingShr w a (t.val p % 2 ^ 32).toNat)) := by
  obtain ⟨h1, h2, h3, h4⟩ := C17.shift_prim_rel (w := w) (n := n) a t hp
  exact ⟨fun f hf => by rw [Panic.shlForms_eq hf, h1], fun f hf => by rw [Panic.shrForms_eq hf, h2],
    fun f hf => by rw [Panic.shlForms_eq hf, h3], fun f hf => by rw [Panic.shrForms_eq hf, h4]⟩
example : (0xfd : Nat) < B PrimTy.i8.bits ∧
    shl_vv (buint 8 4) false .i8 [1, 0, 0, 0] 0xfd = .ok [0, 0, 0, 0x20] := by decide

/-- the inherent unsuffixed `shl(ExpType)` / `shr(ExpType)` (= `Shl<u32>` / `Shr<u32>`; cites
    C05.strict_panic, C05.shl_shr_rel) -/
theorem shift_inherent_panics (w : Nat) (a : List Nat) (s : Nat) :
    (UI.shl true w a s = .panic ↔ w * a.length ≤ s) ∧
    (UI.shr true w a s = .panic ↔ w * a.length ≤ s) ∧
    (II.shl true w a s = .panic ↔ w * a.length ≤ s) ∧
    (II.shr true w a s = .panic ↔ w * a.length ≤ s) ∧
    UI.shl false w a s = .ok (UI.wrappingShl w a s) ∧
    UI.shr false w a s = .ok (UI.wrappingShr w a s) ∧
    II.shl false w a s = .ok (II.wrappingShl w a s) ∧
    II.shr false w a s = .ok (II.wrappingShr w a s) :=
  ⟨C05.strict_panic.1, C05.strict_panic.2.1, C05.strict_panic.2.2.1, C05.strict_panic.2.2.2,
    rfl, rfl, rfl, rfl⟩
example : UI.shl true 8 [1, 0, 0] 24 = .panic ∧ UI.shl false 8 [1, 0, 0] 24 = .ok [0, 0, 1] := by
  decide

/-- the VALUE of `a << k` / `a >> k` for an amount of any primitive type with `0 ≤ k < BITS` (i.e.
    whenever `shift_prim_panics` says the debug build does not panic): in BOTH build modes every
    operator form returns the same well-formed `r`, the exact shift — `x·2^k mod 2^BITS` for `<<`
    (on `BInt`: the pattern of `S a · 2^k`), `⌊x / 2^k⌋` for `>>` (zero-filling on `BUint`,
    sign-propagating on `BInt`).  In particular debug and release builds agree wherever the debug
    build does not panic.  (`Panic.shiftPrim_inRange`, from C17.shift_prim_dbg, C17.shift_prim_rel,
    C05.u_inrange, C05.i_inrange; values: C05.shl_spec, i_shl_spec, u_shr_spec, i_shr_spec.) -/
theorem shift_prim_in_range_value {w n : Nat} {a : List Nat} (hw : 1 ≤ w) (hn : 1 ≤ n)
    (ha : WF w n a) (hB : w * n ≤ 2 ^ 32) (t : PrimTy) {p : Nat} (hp : p < B t.bits)
    (h0 : 0 ≤ t.val p) (hlt : t.val p < ((w * n : Nat) : Int)) (dbg : Bool) :
    (∃ r, (∀ f ∈ Panic.shlForms, f (buint w n) dbg t a p = .ok r) ∧ WF w n r ∧
      U w r = (U w a * 2 ^ (t.val p).toNat) % M w n) ∧
    (∃ r, (∀ f ∈ Panic.shrForms, f (buint w n) dbg t a p = .ok r) ∧ WF w n r ∧
      U w r = U w a / 2 ^ (t.val p).toNat) ∧
    (∃ r, (∀ f ∈ Panic.shlForms, f (bint w n) dbg t a p = .ok r) ∧ WF w n r ∧
      U w r = wrapU (M w n) (S w a * 2 ^ (t.val p).toNat)) ∧
    (∃ r, (∀ f ∈ Panic.shrForms, f (bint w n) dbg t a p = .ok r) ∧ WF w n r ∧
      S w r = Int.fdiv (S w a) (2 ^ (t.val p).toNat)) := by
  have hl := ha.1
  subst hl
  obtain ⟨e1, e2, e3, e4⟩ := Panic.shiftPrim_inRange t hp hB h0 hlt dbg
  have hs := (Panic.amount_toNat h0 hlt hB).2
  exact ⟨⟨_, fun f hf => by rw [Panic.shlForms_eq hf, e1], C05.shl_spec hw ha hs⟩,
    ⟨_, fun f hf => by rw [Panic.shrForms_eq hf, e2], C05.u_shr_spec hw ha hs⟩,
    ⟨_, fun f hf => by rw [Panic.shlForms_eq hf, e3], (C05.shl_spec hw ha hs).1,
      C05.i_shl_spec hw ha hs⟩,
    ⟨_, fun f hf => by rw [Panic.shrForms_eq hf, e4], C05.i_shr_spec hw hn ha hs⟩⟩
example : 1 ≤ 8 ∧ 1 ≤ 3 ∧ WF 8 3 [1, 0, 128] ∧ 8 * 3 ≤ 2 ^ 32 ∧ (23 : Nat) < B PrimTy.i64.bits ∧
    0 ≤ PrimTy.i64.val 23 ∧ PrimTy.i64.val 23 < ((8 * 3 : Nat) : Int) ∧
    shr_vv (bint 8 3) true .i64 [1, 0, 128] 23 = .ok [255, 255, 255] ∧
    shr_vv (bint 8 3) false .i64 [1, 0, 128] 23 = .ok [255, 255, 255] ∧
    shlAssignRef (buint 8 3) false .i64 [1, 0, 128] 23 = .ok [0, 0, 128] := by decide

/-- release builds, ANY amount `s` (every `u32`; the operators pass `k mod 2^32`:
    `shift_prim_rel_value`): the inherent `shl` / `shr`, hence every operator form, and
    `wrapping_shl` / `wrapping_shr` never panic and return a well-formed value — the in-range shift
    by the reduced amount `Shift.effAmount BITS s < BITS` (`s` itself below `BITS`; for `s ≥ BITS`
    the crate's `s & (BITS - 1)`, which is `s mod BITS` exactly at the power-of-two widths:
    C05.effAmount_facts).  This is what the correspondence run checks where no property fixes the
    value (Drive/C04 `anyValue`: any pattern, but not a panic).  `Panic.wrappingShift_wf`. -/
theorem shift_rel_any_amount {w n : Nat} {a : List Nat} (hw : 1 ≤ w) (hn : 1 ≤ n) (ha : WF w n a)
    (s : Nat) :
    Shift.effAmount (w * n) s < w * n ∧ (s < w * n → Shift.effAmount (w * n) s = s) ∧
    (UI.shl false w a s = .ok (UI.wrappingShl w a s) ∧ WF w n (UI.wrappingShl w a s) ∧
      U w (UI.wrappingShl w a s) = (U w a * 2 ^ Shift.effAmount (w * n) s) % M w n) ∧
    (UI.shr false w a s = .ok (UI.wrappingShr w a s) ∧ WF w n (UI.wrappingShr w a s) ∧
      U w (UI.wrappingShr w a s) = U w a / 2 ^ Shift.effAmount (w * n) s) ∧
    (II.shl false w a s = .ok (II.wrappingShl w a s) ∧ WF w n (II.wrappingShl w a s) ∧
      U w (II.wrappingShl w a s) = (U w a * 2 ^ Shift.effAmount (w * n) s) % M w n) ∧
    (II.shr false w a s = .ok (II.wrappingShr w a s) ∧ WF w n (II.wrappingShr w a s) ∧
      S w (II.wrappingShr w a s) = Int.fdiv (S w a) (2 ^ Shift.effAmount (w * n) s)) := by
  obtain ⟨h, h1, h2, h3, h4⟩ := Panic.wrappingShift_wf hw hn ha s
  exact ⟨h, Shift.effAmount_of_lt, ⟨rfl, h1⟩, ⟨rfl, h2⟩, ⟨rfl, h3⟩, ⟨rfl, h4⟩⟩
example : 1 ≤ 8 ∧ 1 ≤ 3 ∧ WF 8 3 [1, 0, 128] ∧ Shift.effAmount (8 * 3) 25 = 17 ∧
    UI.shl false 8 [1, 0, 128] 25 = .ok [0, 0, 2] ∧ II.wrappingShr 8 [1, 0, 128] 4294967295 = [255, 255, 255] ∧
    UI.shl true 8 [1, 0, 128] 25 = .panic := by decide

/-! ## 3. division and remainder: a panic in BOTH build modes exactly for a zero divisor and, for
    `BInt`, for `MIN` with `-1` — through the operators `/`, `%` and the inherent `div`, `rem`,
    `div_euclid`, `rem_euclid` -/

/-- `BUint` (`Panic.u_div_panic_iff`, from C03.u_forms and C03.u_zero_divisor).  `dbg` is the build
    mode: the statement holds for both values. -/
theorem u_div_rem_panics {w n : Nat} {a b : List Nat} (hw : 1 ≤ w) (hn : 1 ≤ n) (ha : WF w n a)
    (hb : WF w n b) (dbg : Bool) :
    (∀ f ∈ Panic.divForms, (f (buint w n) dbg a b = .panic ↔ U w b = 0)) ∧
    (∀ f ∈ Panic.remForms, (f (buint w n) dbg a b = .panic ↔ U w b = 0)) ∧
    (UI.div w a b = .panic ↔ U w b = 0) ∧ (UI.rem w a b = .panic ↔ U w b = 0) ∧
    (UI.divEuclid w a b = .panic ↔ U w b = 0) ∧ (UI.remEuclid w a b = .panic ↔ U w b = 0) := by
  obtain ⟨h1, h2, h3, h4, -⟩ := Panic.u_div_panic_iff hw hn ha hb
  exact ⟨fun f hf => by rw [Panic.divForms_eq hf]; exact h1,
    fun f hf => by rw [Panic.remForms_eq hf]; exact h2, h1, h2, h3, h4⟩
example : 1 ≤ 8 ∧ 1 ≤ 2 ∧ WF 8 2 [5, 0] ∧ WF 8 2 [0, 0] ∧
    div_vv (buint 8 2) false [5, 0] [0, 0] = .panic ∧ rem_vv (buint 8 2) true [5, 0] [0, 0] = .panic ∧
    div_vv (buint 8 2) true [5, 0] [2, 0] = .ok [2, 0] := by decide

/-- `BInt` (`Panic.i_div_panic_iff`, from C03.i_forms, C03.i_zero_divisor, C03.i_min_neg_one) -/
theorem i_div_rem_panics {w n : Nat} {a b : List Nat} (hw : 2 ≤ w) (hn : 1 ≤ n) (ha : WF w n a)
    (hb : WF w n b) (dbg : Bool) :
    (∀ f ∈ Panic.divForms, (f (bint w n) dbg a b = .panic ↔
      S w b = 0 ∨ (S w a = -((M w n / 2 : Nat) : Int) ∧ S w b = -1))) ∧
    (∀ f ∈ Panic.remForms, (f (bint w n) dbg a b = .panic ↔
      S w b = 0 ∨ (S w a = -((M w n / 2 : Nat) : Int) ∧ S w b = -1))) ∧
    (II.div dbg w a b = .panic ↔ S w b = 0 ∨ (S w a = -((M w n / 2 : Nat) : Int) ∧ S w b = -1)) ∧
    (II.rem dbg w a b = .panic ↔ S w b = 0 ∨ (S w a = -((M w n / 2 : Nat) : Int) ∧ S w b = -1)) ∧
    (II.divEuclid dbg w a b = .panic ↔
      S w b = 0 ∨ (S w a = -((M w n / 2 : Nat) : Int) ∧ S w b = -1)) ∧
    (II.remEuclid dbg w a b = .panic ↔
      S w b = 0 ∨ (S w a = -((M w n / 2 : Nat) : Int) ∧ S w b = -1)) := by
  obtain ⟨h1, h2, h3, h4⟩ := Panic.i_div_panic_iff hw hn ha hb dbg
  exact ⟨fun f hf => by rw [Panic.divForms_eq hf]; exact h1,
    fun f hf => by rw [Panic.remForms_eq hf]; exact h2, h1, h2, h3, h4⟩
example : 2 ≤ 8 ∧ 1 ≤ 2 ∧ WF 8 2 [0, 128] ∧ WF 8 2 [255, 255] ∧
    S 8 [0, 128] = -((M 8 2 / 2 : Nat) : Int) ∧ S 8 [255, 255] = -1 ∧
    div_vv (bint 8 2) false [0, 128] [255, 255] = .panic ∧
    rem_vv (bint 8 2) false [0, 128] [255, 255] = .panic ∧
    rem_vv (bint 8 2) true [1, 128] [255, 255] = .ok [0, 0] ∧
    II.remEuclid false 8 [0, 128] [255, 255] = .panic := by decide

/-! ## 4. `ilog`, `ilog2`, `ilog10`: a panic in both build modes exactly for a non-positive argument
    or a base `< 2` -/

/-- `BUint` (cites C08.u_ilog, C08.u_ilog2, C08.u_ilog10).  Hypotheses as in C08: `BITS < 2^32`
    (`BITS` is a `u32`), `10 < 2^w` for `ilog10` (`TEN` is one digit). -/
theorem u_ilog_panics_iff {w n : Nat} (hw : 2 ≤ w) (h10 : 10 < B w) (hn : 1 ≤ n)
    (hW : w * n < 2 ^ 32) {a b : List Nat} (ha : WF w n a) (hb : WF w n b) (dbg : Bool) :
    (UI.ilog dbg w a b = .panic ↔ U w a = 0 ∨ U w b < 2) ∧
    (UI.ilog2 w a = .panic ↔ U w a = 0) ∧
    (UI.ilog10 dbg w a = .panic ↔ U w a = 0) := by
  rw [C08.u_ilog hw hn hW ha hb dbg, C08.u_ilog2 ha, C08.u_ilog10 h10 hn hW ha dbg]
  refine ⟨?_, ?_, ?_⟩
  · by_cases h : 1 ≤ U w a ∧ 2 ≤ U w b
    · simp [h]; omega
    · simp [h]; omega
  · by_cases h : 1 ≤ U w a
    · simp [h]; omega
    · simp [h]; omega
  · by_cases h : 1 ≤ U w a
    · simp [h]; omega
    · simp [h]; omega
example : 2 ≤ 8 ∧ 10 < B 8 ∧ 1 ≤ 2 ∧ 8 * 2 < 2 ^ 32 ∧ WF 8 2 [231, 3] ∧ WF 8 2 [1, 0] ∧
    UI.ilog false 8 [231, 3] [1, 0] = .panic ∧ UI.ilog10 false 8 [0, 0] = .panic ∧
    UI.ilog2 8 [0, 0] = .panic := by decide

/-- `BInt` (cites C08.i_ilog, C08.i_ilog2, C08.i_ilog10) -/
theorem i_ilog_panics_iff {w n : Nat} (hw : 2 ≤ w) (h10 : 10 < B w) (hn : 1 ≤ n)
    (hW : w * n < 2 ^ 32) {a b : List Nat} (ha : WF w n a) (hb : WF w n b) (dbg : Bool) :
    (II.ilog dbg w a b = .panic ↔ S w a ≤ 0 ∨ S w b < 2) ∧
    (II.ilog2 w a = .panic ↔ S w a ≤ 0) ∧
    (II.ilog10 dbg w a = .panic ↔ S w a ≤ 0) := by
  rw [C08.i_ilog hw hn hW ha hb dbg, C08.i_ilog2 hw hn ha, C08.i_ilog10 hw h10 hn hW ha dbg]
  refine ⟨?_, ?_, ?_⟩
  · by_cases h : 1 ≤ S w a ∧ 2 ≤ S w b
    · simp [h]; omega
    · simp [h]; omega
  · by_cases h : 1 ≤ S w a
    · simp [h]; omega
    · simp [h]; omega
  · by_cases h : 1 ≤ S w a
    · simp [h]; omega
    · simp [h]; omega
example : 2 ≤ 8 ∧ 10 < B 8 ∧ 1 ≤ 2 ∧ 8 * 2 < 2 ^ 32 ∧ WF 8 2 [24, 252] ∧ WF 8 2 [3, 0] ∧
    II.ilog false 8 [24, 252] [3, 0] = .panic ∧ II.ilog true 8 [232, 3] [255, 255] = .panic ∧
    II.ilog2 8 [24, 252] = .panic := by decide

/-! ## 5. `strict_*`: a panic on overflow in BOTH build modes.  The models of `strict_add` …
    `strict_pow` take no `dbg` argument at all (their bodies are `option_expect!(self.checked_*(..))`,
    which contains nothing `cfg`-dependent), so "both build modes" is by typing; the four division
    forms of `BInt` do take `dbg` and the statement is for both values. -/

/-- every `strict_*` method of `BUint` (`int/strict.rs`, `buint/strict.rs`); cites C01.u_strict_add,
    u_strict_sub, u_strict_neg, u_strict_add_signed, C02.u_strict_mul, C05.strict_panic,
    C08.u_pow, `Panic.u_div_panic_iff` -/
theorem u_strict_panics_iff {w n : Nat} {a b : List Nat} (hw : 1 ≤ w) (hn : 1 ≤ n) (ha : WF w n a)
    (hb : WF w n b) (s e : Nat) :
    (UI.strictAdd w a b = .panic ↔ ¬ repU (M w n) ((U w a : Int) + U w b)) ∧
    (UI.strictSub w a b = .panic ↔ ¬ repU (M w n) ((U w a : Int) - U w b)) ∧
    (UI.strictMul w a b = .panic ↔ ¬ repU (M w n) ((U w a : Int) * U w b)) ∧
    (UI.strictDiv w a b = .panic ↔ U w b = 0) ∧
    (UI.strictDivEuclid w a b = .panic ↔ U w b = 0) ∧
    (UI.strictRem w a b = .panic ↔ U w b = 0) ∧
    (UI.strictRemEuclid w a b = .panic ↔ U w b = 0) ∧
    (UI.strictNeg w a = .panic ↔ ¬ repU (M w n) (-(U w a : Int))) ∧
    (UI.strictShl w a s = .panic ↔ w * n ≤ s) ∧
    (UI.strictShr w a s = .panic ↔ w * n ≤ s) ∧
    (UI.strictPow w a e = .panic ↔ ¬ repU (M w n) ((U w a : Int) ^ e)) ∧
    (UI.strictAddSigned w a b = .panic ↔ ¬ repU (M w n) ((U w a : Int) + S w b)) := by
  obtain ⟨d1, d2, d3, d4, -⟩ := Panic.u_div_panic_iff hw hn ha hb
  have hp : UI.pow w true a e = .panic ↔ ¬ repU (M w n) ((U w a : Int) ^ e) := by
    simpa using (C08.u_pow hw hn ha e true).1
  have hs := C05.strict_panic (w := w) (a := a) (s := s)
  rw [ha.1] at hs
  exact ⟨(C01.u_strict_add ha hb).1, (C01.u_strict_sub ha hb).1, (C02.u_strict_mul ha hb).1,
    d1, d3, d2, d4, (C01.u_strict_neg hw hn ha).1, hs.1, hs.2.1, hp,
    (C01.u_strict_add_signed hw hn ha hb).1⟩
example : 1 ≤ 8 ∧ 1 ≤ 2 ∧ WF 8 2 [255, 255] ∧ WF 8 2 [1, 0] ∧
    UI.strictAdd 8 [255, 255] [1, 0] = .panic ∧ UI.strictDiv 8 [255, 255] [0, 0] = .panic ∧
    UI.strictNeg 8 [1, 0] = .panic ∧ UI.strictShl 8 [1, 0] 16 = .panic ∧
    UI.strictPow 8 [2, 0] 16 = .panic ∧ UI.strictAddSigned 8 [1, 0] [254, 255] = .panic := by decide

/-- every `strict_*` method of `BInt` (`int/strict.rs`, `bint/strict.rs`); cites C01.i_strict_add,
    i_strict_sub, i_strict_neg, i_strict_abs, i_strict_add_unsigned, i_strict_sub_unsigned,
    C02.i_strict_mul, C05.strict_panic, C08.i_pow, `Panic.i_div_panic_iff`.  `dbg` = build mode
    (only the division forms depend on it syntactically; semantically nothing does). -/
theorem i_strict_panics_iff {w n : Nat} {a b : List Nat} (hw : 2 ≤ w) (hn : 1 ≤ n) (ha : WF w n a)
    (hb : WF w n b) (s e : Nat) (dbg : Bool) :
    (II.strictAdd w a b = .panic ↔ ¬ repS (M w n) (S w a + S w b)) ∧
    (II.strictSub w a b = .panic ↔ ¬ repS (M w n) (S w a - S w b)) ∧
    (II.strictMul w a b = .panic ↔ ¬ repS (M w n) (S w a * S w b)) ∧
    (II.strictDiv dbg w a b = .panic ↔
      S w b = 0 ∨ (S w a = -((M w n / 2 : Nat) : Int) ∧ S w b = -1)) ∧
    (II.strictDivEuclid dbg w a b = .panic ↔
      S w b = 0 ∨ (S w a = -((M w n / 2 : Nat) : Int) ∧ S w b = -1)) ∧
    (II.strictRem dbg w a b = .panic ↔
      S w b = 0 ∨ (S w a = -((M w n / 2 : Nat) : Int) ∧ S w b = -1)) ∧
    (II.strictRemEuclid dbg w a b = .panic ↔
      S w b = 0 ∨ (S w a = -((M w n / 2 : Nat) : Int) ∧ S w b = -1)) ∧
    (II.strictNeg w a = .panic ↔ ¬ repS (M w n) (-S w a)) ∧
    (II.strictShl w a s = .panic ↔ w * n ≤ s) ∧
    (II.strictShr w a s = .panic ↔ w * n ≤ s) ∧
    (II.strictPow w a e = .panic ↔ ¬ repS (M w n) (S w a ^ e)) ∧
    (II.strictAbs w a = .panic ↔ ¬ repS (M w n) (((S w a).natAbs : Int))) ∧
    (II.strictAddUnsigned w a b = .panic ↔ ¬ repS (M w n) (S w a + (U w b : Int))) ∧
    (II.strictSubUnsigned w a b = .panic ↔ ¬ repS (M w n) (S w a - (U w b : Int))) := by
  obtain ⟨d1, d2, d3, d4⟩ := Panic.i_div_panic_iff hw hn ha hb dbg
  have hp : II.pow w true a e = .panic ↔ ¬ repS (M w n) (S w a ^ e) := by
    simpa using (C08.i_pow hw hn ha e true).1
  have hs := C05.strict_panic (w := w) (a := a) (s := s)
  rw [ha.1] at hs
  exact ⟨(C01.i_strict_add hw hn ha hb).1, (C01.i_strict_sub hw hn ha hb).1,
    (C02.i_strict_mul hw hn ha hb).1, d1, d3, d2, d4, (C01.i_strict_neg hw hn ha).1,
    hs.2.2.1, hs.2.2.2, hp, (C01.i_strict_abs hw hn ha).1,
    (C01.i_strict_add_unsigned hw hn ha hb).1, (C01.i_strict_sub_unsigned hw hn ha hb).1⟩
example : 2 ≤ 8 ∧ 1 ≤ 2 ∧ WF 8 2 [0, 128] ∧ WF 8 2 [255, 255] ∧
    II.strictAdd 8 [0, 128] [255, 255] = .panic ∧ II.strictDiv false 8 [0, 128] [255, 255] = .panic ∧
    II.strictRemEuclid false 8 [0, 128] [255, 255] = .panic ∧ II.strictAbs 8 [0, 128] = .panic ∧
    II.strictNeg 8 [0, 128] = .panic ∧ II.strictShr 8 [0, 128] 16 = .panic ∧
    II.strictSubUnsigned 8 [0, 128] [1, 0] = .panic := by decide

/-! ## 6. `checked_*` never panic -/

/-- The `checked_*` methods whose bodies contain no operation that can panic are modelled with
    result type `Option _` (not `Outcome _`): for them "never panics" is BY TYPING.  This theorem
    records those result types — each conjunct type-checks only because the function's codomain
    is `Option`.  (`BUint`: add, add_signed, sub, mul, neg, shl, shr, pow, ilog2; `BInt`: add,
    add_unsigned, sub, sub_unsigned, mul, neg, abs, shl, shr, pow, ilog2.)  Their values are C01,
    C02, C05, C08. -/
theorem checked_total_by_typing (w : Nat) :
    (∃ f : List Nat → List Nat → Option (List Nat), f = UI.checkedAdd w) ∧
    (∃ f : List Nat → List Nat → Option (List Nat), f = UI.checkedAddSigned w) ∧
    (∃ f : List Nat → List Nat → Option (List Nat), f = UI.checkedSub w) ∧
    (∃ f : List Nat → List Nat → Option (List Nat), f = UI.checkedMul w) ∧
    (∃ f : List Nat → Option (List Nat), f = UI.checkedNeg w) ∧
    (∃ f : List Nat → Nat → Option (List Nat), f = UI.checkedShl w) ∧
    (∃ f : List Nat → Nat → Option (List Nat), f = UI.checkedShr w) ∧
    (∃ f : List Nat → Nat → Option (List Nat), f = UI.checkedPow w) ∧
    (∃ f : List Nat → Option Nat, f = UI.checkedIlog2 w) ∧
    (∃ f : List Nat → List Nat → Option (List Nat), f = II.checkedAdd w) ∧
    (∃ f : List Nat → List Nat → Option (List Nat), f = II.checkedAddUnsigned w) ∧
    (∃ f : List Nat → List Nat → Option (List Nat), f = II.checkedSub w) ∧
    (∃ f : List Nat → List Nat → Option (List Nat), f = II.checkedSubUnsigned w) ∧
    (∃ f : List Nat → List Nat → Option (List Nat), f = II.checkedMul w) ∧
    (∃ f : List Nat → Option (List Nat), f = II.checkedNeg w) ∧
    (∃ f : List Nat → Option (List Nat), f = II.checkedAbs w) ∧
    (∃ f : List Nat → Nat → Option (List Nat), f = II.checkedShl w) ∧
    (∃ f : List Nat → Nat → Option (List Nat), f = II.checkedShr w) ∧
    (∃ f : List Nat → Nat → Option (List Nat), f = II.checkedPow w) ∧
    (∃ f : List Nat → Option Nat, f = II.checkedIlog2 w) :=
  ⟨⟨_, rfl⟩, ⟨_, rfl⟩, ⟨_, rfl⟩, ⟨_, rfl⟩, ⟨_, rfl⟩, ⟨_, rfl⟩, ⟨_, rfl⟩, ⟨_, rfl⟩, ⟨_, rfl⟩, ⟨_, rfl⟩,
   ⟨_, rfl⟩, ⟨_, rfl⟩, ⟨_, rfl⟩, ⟨_, rfl⟩, ⟨_, rfl⟩, ⟨_, rfl⟩, ⟨_, rfl⟩, ⟨_, rfl⟩, ⟨_, rfl⟩, ⟨_, rfl⟩⟩

/-- `checked_div`, `checked_rem`, `checked_div_euclid`, `checked_rem_euclid`,
    `checked_next_multiple_of` — bodies that reach panicking code (`div_rem_unchecked`, Algorithm D's
    index arithmetic, and for `BInt` the `cfg`-dependent unsuffixed `neg` / `add` / `sub`): never a
    panic for any input, in either build mode (`Panic.u_checked_div_ne_panic`,
    `Panic.i_checked_div_ne_panic`, from C03) -/
theorem checked_div_never_panics {w n : Nat} {a b : List Nat} (hw : 2 ≤ w) (hn : 1 ≤ n)
    (ha : WF w n a) (hb : WF w n b) (dbg : Bool) :
    UI.checkedDiv w a b ≠ .panic ∧ UI.checkedRem w a b ≠ .panic ∧
    UI.checkedDivEuclid w a b ≠ .panic ∧ UI.checkedRemEuclid w a b ≠ .panic ∧
    UI.checkedNextMultipleOf dbg w a b ≠ .panic ∧
    II.checkedDiv dbg w a b ≠ .panic ∧ II.checkedRem dbg w a b ≠ .panic ∧
    II.checkedDivEuclid dbg w a b ≠ .panic ∧ II.checkedRemEuclid dbg w a b ≠ .panic ∧
    II.checkedNextMultipleOf dbg w a b ≠ .panic := by
  obtain ⟨u1, u2, u3, u4, u5⟩ := Panic.u_checked_div_ne_panic (by omega : 1 ≤ w) hn ha hb dbg
  obtain ⟨i1, i2, i3, i4, i5⟩ := Panic.i_checked_div_ne_panic hw hn ha hb dbg
  exact ⟨u1, u2, u3, u4, u5, i1, i2, i3, i4, i5⟩
example : 2 ≤ 8 ∧ 1 ≤ 2 ∧ WF 8 2 [0, 128] ∧ WF 8 2 [255, 255] ∧
    II.checkedDiv true 8 [0, 128] [255, 255] = .ok none ∧
    II.checkedRemEuclid true 8 [0, 128] [0, 0] = .ok none ∧
    UI.checkedNextMultipleOf true 8 [255, 255] [7, 0] = .ok none := by decide

/-- `checked_ilog`, `checked_ilog10` (bodies use the unsuffixed `mul`, `u32 +`, `div` inside
    `iilog`): never a panic, in either build mode (cites C08.u_checked_ilog, u_checked_ilog10,
    i_checked_ilog, i_checked_ilog10).  `checked_ilog2` is `Option`-typed (by typing). -/
theorem checked_ilog_never_panics {w n : Nat} (hw : 2 ≤ w) (h10 : 10 < B w) (hn : 1 ≤ n)
    (hW : w * n < 2 ^ 32) {a b : List Nat} (ha : WF w n a) (hb : WF w n b) (dbg : Bool) :
    UI.checkedIlog dbg w a b ≠ .panic ∧ UI.checkedIlog10 dbg w a ≠ .panic ∧
    II.checkedIlog dbg w a b ≠ .panic ∧ II.checkedIlog10 dbg w a ≠ .panic :=
  ⟨Panic.ne_panic_of_ok (C08.u_checked_ilog hw hn hW ha hb dbg),
   Panic.ne_panic_of_ok (C08.u_checked_ilog10 h10 hn hW ha dbg),
   Panic.ne_panic_of_ok (C08.i_checked_ilog hw hn hW ha hb dbg),
   Panic.ne_panic_of_ok (C08.i_checked_ilog10 hw h10 hn hW ha dbg)⟩
example : 2 ≤ 8 ∧ 10 < B 8 ∧ 1 ≤ 2 ∧ 8 * 2 < 2 ^ 32 ∧ WF 8 2 [0, 0] ∧ WF 8 2 [1, 0] ∧
    UI.checkedIlog true 8 [0, 0] [1, 0] = .ok none ∧
    II.checkedIlog10 true 8 [24, 252] = .ok none := by decide

/-- `checked_next_power_of_two` (body calls `power_of_two`, which indexes the digit array): never a
    panic (cites C06.checked_next_power_of_two_spec; digit width `2^s`) -/
theorem checked_next_power_of_two_never_panics {s n : Nat} (hs : s < 32) {x : List Nat}
    (hx : WF (2 ^ s) n x) : UI.checkedNextPowerOfTwo (2 ^ s) x ≠ .panic := by
  rcases C06.checked_next_power_of_two_spec hs hx with ⟨r, h, -⟩ | ⟨h, -⟩
  · exact Panic.ne_panic_of_ok h
  · exact Panic.ne_panic_of_ok h
example : 3 < 32 ∧ WF (2 ^ 3) 2 [1, 128] ∧
    UI.checkedNextPowerOfTwo (2 ^ 3) [1, 128] = .ok none := by decide

/-! ## 7. `wrapping_*`, `overflowing_*`, `saturating_*` panic only for a zero divisor -/

/-- The `wrapping_*` / `overflowing_*` / `saturating_*` methods that have no divisor are modelled
    as total functions into `List Nat` resp. `List Nat × Bool` (no `Outcome`): they never panic BY
    TYPING.  Each conjunct type-checks only because of that codomain.  Values: C01, C02, C05, C08. -/
theorem wos_total_by_typing (w : Nat) :
    -- BUint wrapping_{add, add_signed, sub, mul, neg, shl, shr, pow}
    (∃ f : List Nat → List Nat → List Nat, f = UI.wrappingAdd w) ∧
    (∃ f : List Nat → List Nat → List Nat, f = UI.wrappingAddSigned w) ∧
    (∃ f : List Nat → List Nat → List Nat, f = UI.wrappingSub w) ∧
    (∃ f : List Nat → List Nat → List Nat, f = UI.wrappingMul w) ∧
    (∃ f : List Nat → List Nat, f = UI.wrappingNeg w) ∧
    (∃ f : List Nat → Nat → List Nat, f = UI.wrappingShl w) ∧
    (∃ f : List Nat → Nat → List Nat, f = UI.wrappingShr w) ∧
    (∃ f : List Nat → Nat → List Nat, f = UI.wrappingPow w) ∧
    -- BUint overflowing_{add, add_signed, sub, mul, neg, shl, shr, pow}
    (∃ f : List Nat → List Nat → List Nat × Bool, f = UI.overflowingAdd w) ∧
    (∃ f : List Nat → List Nat → List Nat × Bool, f = UI.overflowingAddSigned w) ∧
    (∃ f : List Nat → List Nat → List Nat × Bool, f = UI.overflowingSub w) ∧
    (∃ f : List Nat → List Nat → List Nat × Bool, f = UI.overflowingMul w) ∧
    (∃ f : List Nat → List Nat × Bool, f = UI.overflowingNeg w) ∧
    (∃ f : List Nat → Nat → List Nat × Bool, f = UI.overflowingShl w) ∧
    (∃ f : List Nat → Nat → List Nat × Bool, f = UI.overflowingShr w) ∧
    (∃ f : List Nat → Nat → List Nat × Bool, f = UI.overflowingPow w) ∧
    -- BUint saturating_{add, add_signed, sub, mul, pow}
    (∃ f : List Nat → List Nat → List Nat, f = UI.saturatingAdd w) ∧
    (∃ f : List Nat → List Nat → List Nat, f = UI.saturatingAddSigned w) ∧
    (∃ f : List Nat → List Nat → List Nat, f = UI.saturatingSub w) ∧
    (∃ f : List Nat → List Nat → List Nat, f = UI.saturatingMul w) ∧
    (∃ f : List Nat → Nat → List Nat, f = UI.saturatingPow w) ∧
    -- BInt wrapping_{add, add_unsigned, sub, sub_unsigned, mul, neg, abs, shl, shr, pow}
    (∃ f : List Nat → List Nat → List Nat, f = II.wrappingAdd w) ∧
    (∃ f : List Nat → List Nat → List Nat, f = II.wrappingAddUnsigned w) ∧
    (∃ f : List Nat → List Nat → List Nat, f = II.wrappingSub w) ∧
    (∃ f : List Nat → List Nat → List Nat, f = II.wrappingSubUnsigned w) ∧
    (∃ f : List Nat → List Nat → List Nat, f = II.wrappingMul w) ∧
    (∃ f : List Nat → List Nat, f = II.wrappingNeg w) ∧
    (∃ f : List Nat → List Nat, f = II.wrappingAbs w) ∧
    (∃ f : List Nat → Nat → List Nat, f = II.wrappingShl w) ∧
    (∃ f : List Nat → Nat → List Nat, f = II.wrappingShr w) ∧
    (∃ f : List Nat → Nat → List Nat, f = II.wrappingPow w) ∧
    -- BInt overflowing_{add, add_unsigned, sub, sub_unsigned, mul, neg, abs, shl, shr, pow}
    (∃ f : List Nat → List Nat → List Nat × Bool, f = II.overflowingAdd w) ∧
    (∃ f : List Nat → List Nat → List Nat × Bool, f = II.overflowingAddUnsigned w) ∧
    (∃ f : List Nat → List Nat → List Nat × Bool, f = II.overflowingSub w) ∧
    (∃ f : List Nat → List Nat → List Nat × Bool, f = II.overflowingSubUnsigned w) ∧
    (∃ f : List Nat → List Nat → List Nat × Bool, f = II.overflowingMul w) ∧
    (∃ f : List Nat → List Nat × Bool, f = II.overflowingNeg w) ∧
    (∃ f : List Nat → List Nat × Bool, f = II.overflowingAbs w) ∧
    (∃ f : List Nat → Nat → List Nat × Bool, f = II.overflowingShl w) ∧
    (∃ f : List Nat → Nat → List Nat × Bool, f = II.overflowingShr w) ∧
    (∃ f : List Nat → Nat → List Nat × Bool, f = II.overflowingPow w) ∧
    -- BInt saturating_{add, add_unsigned, sub, sub_unsigned, mul, neg, abs, pow}
    (∃ f : List Nat → List Nat → List Nat, f = II.saturatingAdd w) ∧
    (∃ f : List Nat → List Nat → List Nat, f = II.saturatingAddUnsigned w) ∧
    (∃ f : List Nat → List Nat → List Nat, f = II.saturatingSub w) ∧
    (∃ f : List Nat → List Nat → List Nat, f = II.saturatingSubUnsigned w) ∧
    (∃ f : List Nat → List Nat → List Nat, f = II.saturatingMul w) ∧
    (∃ f : List Nat → List Nat, f = II.saturatingNeg w) ∧
    (∃ f : List Nat → List Nat, f = II.saturatingAbs w) ∧
    (∃ f : List Nat → Nat → List Nat, f = II.saturatingPow w) := by
  refine ⟨?_, ?_, ?_, ?_, ?_, ?_, ?_, ?_, ?_, ?_, ?_, ?_, ?_, ?_, ?_, ?_, ?_, ?_, ?_, ?_, ?_, ?_, ?_,
    ?_, ?_, ?_, ?_, ?_, ?_, ?_, ?_, ?_, ?_, ?_, ?_, ?_, ?_, ?_, ?_, ?_, ?_, ?_, ?_, ?_, ?_, ?_, ?_,
    ?_, ?_⟩ <;> exact ⟨_, rfl⟩

/-- the div/rem forms: a panic — in both build modes — exactly for a zero divisor; in particular
    `= .panic → divisor = 0`.  Signed `MIN` with `-1` does NOT panic here (it wraps / sets the flag /
    saturates: C03.i_min_neg_one).  `Panic.u_div_panic_iff`, `Panic.i_wos_div_panic_iff`. -/
theorem wos_panics_only_zero_divisor {w n : Nat} {a b : List Nat} (hw : 2 ≤ w) (hn : 1 ≤ n)
    (ha : WF w n a) (hb : WF w n b) (dbg : Bool) :
    (UI.wrappingDiv w a b = .panic ↔ U w b = 0) ∧ (UI.wrappingRem w a b = .panic ↔ U w b = 0) ∧
    (UI.wrappingDivEuclid w a b = .panic ↔ U w b = 0) ∧
    (UI.wrappingRemEuclid w a b = .panic ↔ U w b = 0) ∧
    (UI.overflowingDiv w a b = .panic ↔ U w b = 0) ∧ (UI.overflowingRem w a b = .panic ↔ U w b = 0) ∧
    (UI.overflowingDivEuclid w a b = .panic ↔ U w b = 0) ∧
    (UI.overflowingRemEuclid w a b = .panic ↔ U w b = 0) ∧
    (UI.saturatingDiv w a b = .panic ↔ U w b = 0) ∧
    (II.wrappingDiv dbg w a b = .panic ↔ S w b = 0) ∧
    (II.wrappingRem dbg w a b = .panic ↔ S w b = 0) ∧
    (II.wrappingDivEuclid dbg w a b = .panic ↔ S w b = 0) ∧
    (II.wrappingRemEuclid dbg w a b = .panic ↔ S w b = 0) ∧
    (II.overflowingDiv dbg w a b = .panic ↔ S w b = 0) ∧
    (II.overflowingRem dbg w a b = .panic ↔ S w b = 0) ∧
    (II.overflowingDivEuclid dbg w a b = .panic ↔ S w b = 0) ∧
    (II.overflowingRemEuclid dbg w a b = .panic ↔ S w b = 0) ∧
    (II.saturatingDiv dbg w a b = .panic ↔ S w b = 0) := by
  obtain ⟨-, -, -, -, u1, u2, u3, u4, u5, u6, u7, u8, u9⟩ :=
    Panic.u_div_panic_iff (by omega : 1 ≤ w) hn ha hb
  obtain ⟨i1, i2, i3, i4, i5, i6, i7, i8, i9⟩ := Panic.i_wos_div_panic_iff hw hn ha hb dbg
  exact ⟨u1, u2, u3, u4, u5, u6, u7, u8, u9, i1, i2, i3, i4, i5, i6, i7, i8, i9⟩
example : 2 ≤ 8 ∧ 1 ≤ 2 ∧ WF 8 2 [0, 128] ∧ WF 8 2 [255, 255] ∧
    II.wrappingDiv true 8 [0, 128] [255, 255] = .ok [0, 128] ∧
    II.overflowingRem false 8 [0, 128] [255, 255] = .ok ([0, 0], true) ∧
    II.saturatingDiv true 8 [0, 128] [255, 255] = .ok [255, 127] ∧
    II.saturatingDiv true 8 [0, 128] [0, 0] = .panic ∧
    UI.overflowingDivEuclid 8 [0, 128] [0, 0] = .panic := by decide

/-- `wrapping_next_power_of_two` (the only other `wrapping_*` whose model is an `Outcome`, because
    its body reaches `power_of_two`'s array index): never a panic (cites
    C06.wrapping_next_power_of_two_spec; digit width `2^s`) -/
theorem wrapping_next_power_of_two_never_panics {s n : Nat} (hs : s < 32) {x : List Nat}
    (hx : WF (2 ^ s) n x) : UI.wrappingNextPowerOfTwo (2 ^ s) x ≠ .panic := by
  obtain ⟨r, h, -⟩ := C06.wrapping_next_power_of_two_spec hs hx
  exact Panic.ne_panic_of_ok h
example : 3 < 32 ∧ WF (2 ^ 3) 2 [1, 128] ∧
    UI.wrappingNextPowerOfTwo (2 ^ 3) [1, 128] = .ok [0, 0] := by decide

end Bnum.C04
