/-
  C03: "For every bnum integer type, every dividend n and every non-zero divisor d (excluding only
  signed MIN / -1), div and rem return the unique q, r with n = q*d + r, |r| < |d| and r carrying the
  sign of n (truncation); div_euclid/rem_euclid return the unique pair with 0 <= r < |d|; div_floor
  and div_ceil round toward negative and positive infinity; next_multiple_of /
  checked_next_multiple_of return the nearest multiple of the divisor at or beyond self in the
  direction of the divisor's sign.  A zero divisor yields None from every checked form, and signed
  MIN / -1 is reported as overflow (None from checked, (MIN, true) / (0, true) from overflowing,
  MIN / 0 from wrapping, MAX from saturating_div)."

  Status.  Everything below is proved for all digit widths `w ≥ 2` and digit counts `n ≥ 1`.
  The multi-digit-divisor path of `BUint::div_rem_unchecked` calls `basecase_div_rem` (Knuth's
  Algorithm D); its correctness is the single named obligation `KnuthD_correct w` (Lemmas/Div.lean).
  * `u_divRem_spec_partial` is unconditional for divisors that fit one digit or are `≥` the dividend.
  * All layered results take `hU : UDivSpec w n` ("`div_rem_unchecked` is right on `n`-digit
    operands"), which is `UDivSpec_of_KnuthD hK …` in general and holds outright for `n = 1`
    (`UDivSpec_one`) — so every theorem of this file is unconditional for single-digit integers.
-/
import Bnum.Lemmas.Div
namespace Bnum.C03
open Bnum

/-! ## 1. `digit::div_rem_wide` and short division -/

/-- C03 (leaf): the double-digit by digit division used by both division algorithms -/
theorem divRemWide_spec {w low high rhs : Nat} (h1 : high < rhs) (h2 : rhs < B w) (h3 : low < B w) :
    (Digit.divRemWide w low high rhs).1 * rhs + (Digit.divRemWide w low high rhs).2
      = high * B w + low ∧
    (Digit.divRemWide w low high rhs).2 < rhs ∧ (Digit.divRemWide w low high rhs).1 < B w :=
  Digit.divRemWide_spec h1 h2 h3
example : (3 : Nat) < 7 ∧ 7 < B 8 ∧ 200 < B 8 := by decide

/-- C03: `div_rem_digit` (short division) returns quotient and remainder -/
theorem u_divRemDigit_spec {w n d : Nat} {a : List Nat} (hd0 : 0 < d) (hd : d < B w)
    (ha : WF w n a) :
    ∃ q r, UI.divRemDigit w a d = .ok (q, r) ∧ U w q * d + r = U w a ∧ r < d ∧ WF w n q :=
  UI.u_divRemDigit_spec hd0 hd ha
example : 0 < 10 ∧ 10 < B 8 ∧ WF 8 3 [0x12, 0xff, 0x80] := by decide

/-! ## 2. `BUint::div_rem_unchecked` -/

/-- C03, unsigned core, unconditional part: divisor fits one digit, or dividend ≤ divisor
    (third alternative: Algorithm D granted) -/
theorem u_divRem_spec_partial {w n : Nat} {a b : List Nat} (hw : 1 ≤ w) (hn : 1 ≤ n)
    (ha : WF w n a) (hb : WF w n b) (hb0 : U w b ≠ 0)
    (hpath : lastDigitIndex b = 0 ∨ U w a ≤ U w b ∨ KnuthD_correct w) :
    ∃ q r, UI.divRemUnchecked w a b = .ok (q, r) ∧ WF w n q ∧ WF w n r ∧
      U w q = U w a / U w b ∧ U w r = U w a % U w b :=
  UI.u_divRem_spec_partial hw hn ha hb hb0 hpath
example : WF 8 3 [0x12, 0xff, 0x80] ∧ WF 8 3 [0x07, 0, 0] ∧ U 8 [0x07, 0, 0] ≠ 0 ∧
    lastDigitIndex [0x07, 0, 0] = 0 := by decide
example : UI.divRemUnchecked 8 [0x12, 0xff, 0x80] [0x07, 0, 0] = .ok ([148, 109, 18], [6, 0, 0]) := by
  decide

/-- C03, unsigned core, all paths, relative to the one obligation `KnuthD_correct` -/
theorem u_divRem_spec {w n : Nat} {a b : List Nat} (hK : KnuthD_correct w) (hw : 1 ≤ w)
    (hn : 1 ≤ n) (ha : WF w n a) (hb : WF w n b) (hb0 : U w b ≠ 0) :
    ∃ q r, UI.divRemUnchecked w a b = .ok (q, r) ∧ WF w n q ∧ WF w n r ∧
      U w q = U w a / U w b ∧ U w r = U w a % U w b :=
  UI.u_divRem_spec hK hw hn ha hb hb0
/-- an instance of the multi-digit path (Algorithm D with an add-back step) evaluated by the kernel -/
example : UI.divRemUnchecked 8 [5, 8, 128] [195, 128, 0] = .ok ([254, 0, 0], [139, 70, 0]) ∧
    8390661 / 32963 = 254 ∧ 8390661 % 32963 = 70 * 256 + 139 := by decide

/-- uniqueness of quotient and remainder (stated once, on exact integers): truncation … -/
theorem divRem_unique_trunc {a b q r : Int} (hb : b ≠ 0) (h1 : a = q * b + r)
    (h2 : r.natAbs < b.natAbs) (h3 : (0 ≤ a → 0 ≤ r) ∧ (a ≤ 0 → r ≤ 0)) :
    q = a.tdiv b ∧ r = a.tmod b := DivL.divRem_unique_trunc hb h1 h2 h3
/-- … and the Euclidean convention -/
theorem divRem_unique_euclid {a b q r : Int} (hb : b ≠ 0) (h1 : a = q * b + r)
    (h2 : 0 ≤ r) (h3 : r < b.natAbs) : q = a / b ∧ r = a % b :=
  DivL.divRem_unique_euclid hb h1 h2 h3
example : (-7 : Int) = (-2) * 3 + (-1) ∧ (-7 : Int) = (-3) * 3 + 2 := by decide

end Bnum.C03
