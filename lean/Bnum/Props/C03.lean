/-
  C03: "For every bnum integer type, every dividend n and every non-zero divisor d (excluding only
  signed MIN / -1), div and rem return the unique q, r with n = q*d + r, |r| < |d| and r carrying the
  sign of n (truncation); div_euclid/rem_euclid return the unique pair with 0 <= r < |d|; div_floor
  and div_ceil round toward negative and positive infinity; next_multiple_of /
  checked_next_multiple_of return the nearest multiple of the divisor at or beyond self in the
  direction of the divisor's sign.  A zero divisor yields None from every checked form, and signed
  MIN / -1 is reported as overflow (None from checked, (MIN, true) / (0, true) from overflowing,
  MIN / 0 from wrapping, MAX from saturating_div)."

  Status.  Everything below is proved, unconditionally, for all digit widths `w ≥ 2` (the unsigned
  part for `w ≥ 1`) and all digit counts `n ≥ 1`.  The multi-digit-divisor path of
  `BUint::div_rem_unchecked` calls `basecase_div_rem` (Knuth's Algorithm D); its correctness is the
  named statement `KnuthD_correct w` (Lemmas/Div.lean), proved in Lemmas/KnuthD.lean
  (`KDL.knuthD_correct`: Theorem A and the two-digit test give `q ≤ q̂ ≤ q + 1`, multiply-subtract
  borrows iff `q̂ = q + 1`, add-back, loop invariant, normalisation / de-normalisation shifts).
  `udivspec : UDivSpec w n` ("`div_rem_unchecked` is right on all `n`-digit operands") is what the
  layered results use.
  Also proved: the three overflow-checked `q_hat -= 1` of Algorithm D never see `q_hat = 0`
  (`knuthD_decrements_never_underflow`, `knuthD_checked_correct`); `next_multiple_of` on an
  unrepresentable multiple panics in debug and wraps in release (`u_/i_nextMultipleOf_overflow`);
  signed `div_floor` / `div_ceil` of `MIN / -1` return `MIN` without a panic
  (`i_divFloor_divCeil_min_neg_one` — the statement's list of `MIN / -1` results does not name
  these two methods; the primitive types panic there).
-/
import Bnum.Lemmas.KnuthD
import Bnum.Lemmas.C03Extra
namespace Bnum.C03
open Bnum DivL

/-- C03, the hard core: `basecase_div_rem` (Knuth's Algorithm D, exactly as written in
    `src/buint/div.rs`) returns quotient and remainder -/
theorem knuthD_correct {w : Nat} (hw : 1 ≤ w) : KnuthD_correct w := KDL.knuthD_correct hw

/-- `BUint::div_rem_unchecked` is correct on all operands -/
theorem udivspec {w n : Nat} (hw : 1 ≤ w) (hn : 1 ≤ n) : UDivSpec w n :=
  UDivSpec_of_KnuthD (knuthD_correct hw) hw hn
-- an instance of the hypotheses of `KnuthD_correct` (3 digits of 8 bits, two-digit divisor) and the
-- kernel's evaluation of Algorithm D on it (this run takes the add-back branch D6)
example : WF 8 3 [5, 8, 128] ∧ WF 8 3 [195, 128, 0] ∧ lastDigitIndex [195, 128, 0] ≠ 0 ∧
    U 8 [195, 128, 0] < U 8 [5, 8, 128] := by decide
example : KD.basecaseDivRem 8 [5, 8, 128] [195, 128, 0] 2 = .ok ([254, 0, 0], [139, 70, 0]) := by decide

/-- C03, Algorithm D, the three `q_hat -= 1` statements (overflow-checked on the digit type in debug
    builds, wrapping in release builds): Algorithm D written with the decrements as compiled
    (`KD.basecaseDivRemC dbg`, Model/C03Extra.lean: panic resp. wrap to `Digit::MAX` at `q_hat = 0`)
    is, on ALL inputs and in both build modes, the function `KD.basecaseDivRem` that `knuthD_correct`
    is about — a correction decrement is guarded by a strict `>` against a product with `q_hat`, the
    add-back decrement by a borrow that `q_hat = 0` cannot produce.  So the model hides no debug
    panic and no release wrap-around. -/
theorem knuthD_decrements_never_underflow (dbg : Bool) (w : Nat) (a v : List Nat) (n : Nat) :
    KD.basecaseDivRemC dbg w a v n = KD.basecaseDivRem w a v n := KD.basecaseDivRemC_eq dbg w a v n
-- a run in which decrements are executed (add-back), evaluated through the checked version
example : KD.basecaseDivRemC true 8 [5, 8, 128] [195, 128, 0] 2 = .ok ([254, 0, 0], [139, 70, 0]) ∧
    KD.decDigit true 8 0 = .panic ∧ KD.decDigit false 8 0 = .ok 255 := by decide

/-- … consequently the checked version is correct too (same statement as `KnuthD_correct`) -/
theorem knuthD_checked_correct {w : Nat} (hw : 1 ≤ w) (dbg : Bool) {N : Nat} {a v : List Nat}
    (ha : WF w N a) (hv : WF w N v) (hl : lastDigitIndex v ≠ 0) (hlt : U w v < U w a) :
    ∃ q r, KD.basecaseDivRemC dbg w a v (lastDigitIndex v + 1) = .ok (q, r) ∧ WF w N q ∧ WF w N r ∧
      U w q = U w a / U w v ∧ U w r = U w a % U w v := by
  rw [knuthD_decrements_never_underflow]
  exact knuthD_correct hw N a v ha hv hl hlt
example : WF 8 3 [5, 8, 128] ∧ WF 8 3 [195, 128, 0] ∧ lastDigitIndex [195, 128, 0] ≠ 0 ∧
    U 8 [195, 128, 0] < U 8 [5, 8, 128] := by decide

/-! ## 1. `digit::div_rem_wide` and short division -/

/-- C03 (leaf): the double-digit by digit division used by both division algorithms -/
theorem divRemWide_spec {w low high rhs : Nat} (h1 : high < rhs) (h2 : rhs < B w) (h3 : low < B w) :
    (Digit.divRemWide w low high rhs).1 * rhs + (Digit.divRemWide w low high rhs).2
      = high * B w + low ∧
    (Digit.divRemWide w low high rhs).2 < rhs ∧ (Digit.divRemWide w low high rhs).1 < B w :=
  Digit.divRemWide_spec h1 h2 h3
example : (3 : Nat) < 7 ∧ 7 < B 8 ∧ 200 < B 8 := by decide

/-- C03: `div_rem_digit` (short division) returns quotient and remainder -/
theorem u_divRemDigit_spec {w n d : Nat} {a : List Nat} (hd0 : 0 < d) (hd : d < B w)
    (ha : WF w n a) :
    ∃ q r, UI.divRemDigit w a d = .ok (q, r) ∧ U w q * d + r = U w a ∧ r < d ∧ WF w n q :=
  UI.u_divRemDigit_spec hd0 hd ha
example : 0 < 10 ∧ 10 < B 8 ∧ WF 8 3 [0x12, 0xff, 0x80] := by decide

/-! ## 2. `BUint::div_rem_unchecked` -/

/-- C03, unsigned core, unconditional part: divisor fits one digit, or dividend ≤ divisor
    (third alternative: Algorithm D granted) -/
theorem u_divRem_spec_partial {w n : Nat} {a b : List Nat} (hw : 1 ≤ w) (hn : 1 ≤ n)
    (ha : WF w n a) (hb : WF w n b) (hb0 : U w b ≠ 0)
    (hpath : lastDigitIndex b = 0 ∨ U w a ≤ U w b ∨ KnuthD_correct w) :
    ∃ q r, UI.divRemUnchecked w a b = .ok (q, r) ∧ WF w n q ∧ WF w n r ∧
      U w q = U w a / U w b ∧ U w r = U w a % U w b :=
  UI.u_divRem_spec_partial hw hn ha hb hb0 hpath
example : WF 8 3 [0x12, 0xff, 0x80] ∧ WF 8 3 [0x07, 0, 0] ∧ U 8 [0x07, 0, 0] ≠ 0 ∧
    lastDigitIndex [0x07, 0, 0] = 0 := by decide
example : UI.divRemUnchecked 8 [0x12, 0xff, 0x80] [0x07, 0, 0] = .ok ([148, 109, 18], [6, 0, 0]) := by
  decide

/-- C03, unsigned core, all four dispatch paths (zero dividend / `cmp` / short division /
    Algorithm D) -/
theorem u_divRem_spec {w n : Nat} {a b : List Nat} (hw : 1 ≤ w)
    (hn : 1 ≤ n) (ha : WF w n a) (hb : WF w n b) (hb0 : U w b ≠ 0) :
    ∃ q r, UI.divRemUnchecked w a b = .ok (q, r) ∧ WF w n q ∧ WF w n r ∧
      U w q = U w a / U w b ∧ U w r = U w a % U w b :=
  UI.u_divRem_spec (knuthD_correct hw) hw hn ha hb hb0
/-- an instance of the multi-digit path (Algorithm D with an add-back step) evaluated by the kernel -/
example : UI.divRemUnchecked 8 [5, 8, 128] [195, 128, 0] = .ok ([254, 0, 0], [139, 70, 0]) ∧
    8390661 / 32963 = 254 ∧ 8390661 % 32963 = 70 * 256 + 139 := by decide

/-- uniqueness of quotient and remainder (stated once, on exact integers): truncation … -/
theorem divRem_unique_trunc {a b q r : Int} (hb : b ≠ 0) (h1 : a = q * b + r)
    (h2 : r.natAbs < b.natAbs) (h3 : (0 ≤ a → 0 ≤ r) ∧ (a ≤ 0 → r ≤ 0)) :
    q = a.tdiv b ∧ r = a.tmod b := DivL.divRem_unique_trunc hb h1 h2 h3
/-- … and the Euclidean convention -/
theorem divRem_unique_euclid {a b q r : Int} (hb : b ≠ 0) (h1 : a = q * b + r)
    (h2 : 0 ≤ r) (h3 : r < b.natAbs) : q = a / b ∧ r = a % b :=
  DivL.divRem_unique_euclid hb h1 h2 h3
example : (-7 : Int) = (-2) * 3 + (-1) ∧ (-7 : Int) = (-3) * 3 + 2 := by decide



/-! ## 3. the unsigned forms -/

/-- C03, `BUint`: every div/rem form on a non-zero divisor returns `⌊a/b⌋` resp. `a mod b`
    (for unsigned integers truncation, Euclid and floor coincide), never `None`, never a panic,
    overflow flag `false` -/
theorem u_forms {w n : Nat} {a b : List Nat} (hw : 1 ≤ w) (hn : 1 ≤ n) (ha : WF w n a)
    (hb : WF w n b) (hb0 : U w b ≠ 0) :
    ∃ q r, WF w n q ∧ WF w n r ∧ U w q = U w a / U w b ∧ U w r = U w a % U w b ∧
      UI.divRem w a b = .ok (q, r) ∧
      UI.checkedDiv w a b = .ok (some q) ∧ UI.checkedRem w a b = .ok (some r) ∧
      UI.checkedDivEuclid w a b = .ok (some q) ∧ UI.checkedRemEuclid w a b = .ok (some r) ∧
      UI.overflowingDiv w a b = .ok (q, false) ∧ UI.overflowingRem w a b = .ok (r, false) ∧
      UI.overflowingDivEuclid w a b = .ok (q, false) ∧
      UI.overflowingRemEuclid w a b = .ok (r, false) ∧
      UI.wrappingDiv w a b = .ok q ∧ UI.wrappingRem w a b = .ok r ∧
      UI.wrappingDivEuclid w a b = .ok q ∧ UI.wrappingRemEuclid w a b = .ok r ∧
      UI.saturatingDiv w a b = .ok q ∧ UI.div w a b = .ok q ∧ UI.rem w a b = .ok r ∧
      UI.divEuclid w a b = .ok q ∧ UI.remEuclid w a b = .ok r ∧ UI.divFloor w a b = .ok q := by
  obtain ⟨q, r, h, wq, wr, uq, ur⟩ := udivspec hw hn a b ha hb hb0
  have hz : isZero b = false := (isZero_false_iff_U b).mpr hb0
  refine ⟨q, r, wq, wr, uq, ur, ?_⟩
  simp [UI.divRem, UI.checkedDiv, UI.checkedRem, UI.checkedDivEuclid, UI.checkedRemEuclid,
    UI.overflowingDiv, UI.overflowingRem, UI.overflowingDivEuclid, UI.overflowingRemEuclid,
    UI.wrappingDiv, UI.wrappingRem, UI.wrappingDivEuclid, UI.wrappingRemEuclid, UI.saturatingDiv,
    UI.div, UI.rem, UI.divEuclid, UI.remEuclid, UI.divFloor, hz, h, Outcome.map, Outcome.bind,
    Outcome.expect]

/-- C03, `BUint::div_ceil`: rounds up; the `+ 1` never overflows in either build mode -/
theorem u_divCeil_spec {w n : Nat} {a b : List Nat} (hw : 1 ≤ w) (hn : 1 ≤ n) (ha : WF w n a)
    (hb : WF w n b) (hb0 : U w b ≠ 0) (dbg : Bool) :
    ∃ q, UI.divCeil dbg w a b = .ok q ∧ WF w n q ∧
      (U w q : Int) = Spec.cdiv (U w a) (U w b) := by
  obtain ⟨q, r, h, wq, wr, uq, ur⟩ := udivspec hw hn a b ha hb hb0
  have hz : isZero b = false := (isZero_false_iff_U b).mpr hb0
  have hb0' : (U w b : Int) ≠ 0 := by omega
  unfold UI.divCeil UI.divRem
  rw [hz]; simp only [Bool.false_eq_true, if_false, h]
  rw [cdiv_of_tdiv _ _ hb0', ← Int.ofNat_tdiv, ← Int.ofNat_tmod, ← uq, ← ur]
  have e : ((U w a : Int) < 0 ↔ (U w b : Int) < 0) := by
    constructor <;> intro <;> omega
  have hzr : isZero r = decide (U w r = 0) := bool_eq_decide (isZero_iff_U r)
  rw [hzr, ha.1]
  simp only [e, not_true, or_false]
  by_cases hr : U w r = 0
  · simp only [hr, decide_true, if_true, Nat.cast_zero]
    exact ⟨_, rfl, wq, rfl⟩
  · have hr' : ¬ ((U w r : Int) = 0) := by omega
    simp only [hr, hr', decide_false, Bool.false_eq_true, if_false]
    have hlt := U_lt ha
    have hml := Nat.mod_lt (U w a) (show 0 < U w b by omega)
    have hdm := Nat.div_add_mod (U w a) (U w b)
    have h2 : 2 * (U w a / U w b) ≤ U w b * (U w a / U w b) :=
      Nat.mul_le_mul_right _ (by omega)
    obtain ⟨d, e1, e2, e3⟩ := uOpAdd_ok wq (WF_one hw hn) (by rw [U_one hn]; omega) dbg
    rw [e1]; exact ⟨_, rfl, e2, by rw [e3, U_one hn]; push_cast; rfl⟩

/-- `Spec.nextMultiple` on natural numbers -/
theorem nextMultiple_nat (x y : Nat) (hy : y ≠ 0) :
    Spec.nextMultiple x y = if x % y = 0 then (x : Int) else ((x + (y - x % y) : Nat) : Int) := by
  have hml := Nat.mod_lt x (show 0 < y by omega)
  rw [nextMultiple_eq _ _ (by omega), ← Int.natCast_mod]
  by_cases h : x % y = 0
  · simp [h]
  · have h' : ¬ (((x % y : Nat) : Int) = 0) := by omega
    rw [if_neg h', if_neg h, if_pos (by omega)]
    omega

/-- C03, `BUint::next_multiple_of` when the result is representable -/
theorem u_nextMultipleOf_spec {w n : Nat} {a b : List Nat} (hw : 1 ≤ w) (hn : 1 ≤ n)
    (ha : WF w n a) (hb : WF w n b) (hb0 : U w b ≠ 0)
    (hrep : Spec.nextMultiple (U w a) (U w b) < M w n) (dbg : Bool) :
    ∃ r, UI.nextMultipleOf dbg w a b = .ok r ∧ WF w n r ∧
      (U w r : Int) = Spec.nextMultiple (U w a) (U w b) := by
  obtain ⟨q, r, h, wq, wr, uq, ur⟩ := udivspec hw hn a b ha hb hb0
  have hz : isZero b = false := (isZero_false_iff_U b).mpr hb0
  have hml := Nat.mod_lt (U w a) (show 0 < U w b by omega)
  unfold UI.nextMultipleOf UI.wrappingRem UI.checkedRem
  rw [hz]; simp only [Bool.false_eq_true, if_false, h, Outcome.map, Outcome.bind, Outcome.expect]
  rw [nextMultiple_nat _ _ hb0, ← ur] at hrep ⊢
  have hzr : isZero r = decide (U w r = 0) := bool_eq_decide (isZero_iff_U r)
  rw [hzr]
  by_cases hr : U w r = 0
  · simp only [hr, decide_true, if_true]
    exact ⟨_, rfl, ha, rfl⟩
  · simp only [hr, decide_false, Bool.false_eq_true, if_false] at hrep ⊢
    obtain ⟨s, c1, c2, c3⟩ := uOpSub_ok hb wr (by omega) dbg
    rw [c1]; simp only
    obtain ⟨d, e1, e2, e3⟩ := uOpAdd_ok ha c2 (by rw [c3]; exact_mod_cast hrep) dbg
    exact ⟨_, e1, e2, by rw [e3, c3]⟩

/-- C03, `BUint::checked_next_multiple_of`: `None` exactly when the multiple is not representable -/
theorem u_checkedNextMultipleOf_spec {w n : Nat} {a b : List Nat} (hw : 1 ≤ w) (hn : 1 ≤ n)
    (ha : WF w n a) (hb : WF w n b) (hb0 : U w b ≠ 0) (dbg : Bool) :
    ∃ o, UI.checkedNextMultipleOf dbg w a b = .ok o ∧
      (o = none ↔ ¬ repU (M w n) (Spec.nextMultiple (U w a) (U w b))) ∧
      (∀ r, o = some r → WF w n r ∧ (U w r : Int) = Spec.nextMultiple (U w a) (U w b)) := by
  obtain ⟨q, r, h, wq, wr, uq, ur⟩ := udivspec hw hn a b ha hb hb0
  have hz : isZero b = false := (isZero_false_iff_U b).mpr hb0
  have hml := Nat.mod_lt (U w a) (show 0 < U w b by omega)
  unfold UI.checkedNextMultipleOf UI.checkedRem
  rw [hz]; simp only [Bool.false_eq_true, if_false, h, Outcome.map]
  rw [nextMultiple_nat _ _ hb0, ← ur]
  have hzr : isZero r = decide (U w r = 0) := bool_eq_decide (isZero_iff_U r)
  rw [hzr]
  by_cases hr : U w r = 0
  · simp only [hr, decide_true, if_true]
    refine ⟨_, rfl, ?_, ?_⟩
    · have := U_lt ha; simp [repU]; omega
    · intro r' hr'; cases hr'; exact ⟨ha, rfl⟩
  · simp only [hr, decide_false, Bool.false_eq_true, if_false]
    obtain ⟨s, c1, c2, c3⟩ := uOpSub_ok hb wr (by omega) dbg
    rw [c1]; simp only
    have := (UI.overflowingAdd_spec ha c2).checked
    rw [c3] at this
    refine ⟨_, rfl, ?_⟩
    unfold UI.checkedAdd
    push_cast at this ⊢
    exact this

/-- C03, `BUint::next_multiple_of` when the multiple is NOT representable (≥ 2^BITS): the debug
    build panics, the release build returns the multiple modulo 2^BITS (what the correspondence
    run's spec demands for these requests) -/
theorem u_nextMultipleOf_overflow {w n : Nat} {a b : List Nat} (hw : 1 ≤ w) (hn : 1 ≤ n)
    (ha : WF w n a) (hb : WF w n b) (hb0 : U w b ≠ 0)
    (hov : ¬ (Spec.nextMultiple (U w a) (U w b) < M w n)) :
    UI.nextMultipleOf true w a b = .panic ∧
    ∃ r, UI.nextMultipleOf false w a b = .ok r ∧ WF w n r ∧
      U w r = wrapU (M w n) (Spec.nextMultiple (U w a) (U w b)) :=
  DivX.u_nextMultipleOf_overflow (udivspec hw hn) ha hb hb0 hov
example : WF 8 1 [254] ∧ WF 8 1 [7] ∧ U 8 [7] ≠ 0 ∧
    ¬ (Spec.nextMultiple (U 8 [254]) (U 8 [7]) < M 8 1) ∧
    wrapU (M 8 1) (Spec.nextMultiple (U 8 [254]) (U 8 [7])) = 3 := by decide

/-- C03: a zero divisor yields `None` from every checked form of `BUint` and a panic from all
    other forms -/
theorem u_zero_divisor {w : Nat} {a b : List Nat} (hb0 : U w b = 0) (dbg : Bool) :
    UI.checkedDiv w a b = .ok none ∧ UI.checkedRem w a b = .ok none ∧
    UI.checkedDivEuclid w a b = .ok none ∧ UI.checkedRemEuclid w a b = .ok none ∧
    UI.checkedNextMultipleOf dbg w a b = .ok none ∧
    UI.wrappingDiv w a b = .panic ∧ UI.wrappingRem w a b = .panic ∧
    UI.wrappingDivEuclid w a b = .panic ∧ UI.wrappingRemEuclid w a b = .panic ∧
    UI.overflowingDiv w a b = .panic ∧ UI.overflowingRem w a b = .panic ∧
    UI.overflowingDivEuclid w a b = .panic ∧ UI.overflowingRemEuclid w a b = .panic ∧
    UI.saturatingDiv w a b = .panic ∧ UI.div w a b = .panic ∧ UI.rem w a b = .panic ∧
    UI.divEuclid w a b = .panic ∧ UI.remEuclid w a b = .panic ∧ UI.divFloor w a b = .panic ∧
    UI.divCeil dbg w a b = .panic ∧ UI.nextMultipleOf dbg w a b = .panic := by
  have hz : isZero b = true := (isZero_iff_U b).mpr hb0
  simp [UI.divRem, UI.checkedDiv, UI.checkedRem, UI.checkedDivEuclid, UI.checkedRemEuclid,
    UI.overflowingDiv, UI.overflowingRem, UI.overflowingDivEuclid, UI.overflowingRemEuclid,
    UI.wrappingDiv, UI.wrappingRem, UI.wrappingDivEuclid, UI.wrappingRemEuclid, UI.saturatingDiv,
    UI.div, UI.rem, UI.divEuclid, UI.remEuclid, UI.divFloor, UI.divCeil, UI.nextMultipleOf,
    UI.checkedNextMultipleOf, hz, Outcome.map, Outcome.bind, Outcome.expect]




/-! ## 4. the signed layer -/

/-- C03, `BInt::div_rem_unchecked`: truncated quotient and remainder (sign of the dividend),
    no panic in either build mode -/
theorem i_divRem_spec {w n : Nat} {a b : List Nat} (hw : 2 ≤ w) (hn : 1 ≤ n)
    (ha : WF w n a) (hb : WF w n b) (hb0 : S w b ≠ 0)
    (hov : ¬ (S w a = -((M w n / 2 : Nat) : Int) ∧ S w b = -1)) (dbg : Bool) :
    ∃ q r, II.divRemUnchecked dbg w a b = .ok (q, r) ∧ WF w n q ∧ WF w n r ∧
      S w q = (S w a).tdiv (S w b) ∧ S w r = (S w a).tmod (S w b) :=
  II.i_divRemUnchecked_spec hw hn (udivspec (by omega) hn) ha hb hb0 hov dbg

/-- C03, `BInt`: all div/rem forms on a non-zero divisor other than `MIN / -1`:
    truncation for `div`/`rem`, the Euclidean pair for `*_euclid`; never `None`, never a panic,
    overflow flag `false` -/
theorem i_forms {w n : Nat} {a b : List Nat} (hw : 2 ≤ w) (hn : 1 ≤ n)
    (ha : WF w n a) (hb : WF w n b) (hb0 : S w b ≠ 0)
    (hov : ¬ (S w a = -((M w n / 2 : Nat) : Int) ∧ S w b = -1)) (dbg : Bool) :
    ∃ q r qe re, WF w n q ∧ WF w n r ∧ WF w n qe ∧ WF w n re ∧
      S w q = (S w a).tdiv (S w b) ∧ S w r = (S w a).tmod (S w b) ∧
      S w qe = S w a / S w b ∧ S w re = S w a % S w b ∧
      II.checkedDiv dbg w a b = .ok (some q) ∧ II.checkedRem dbg w a b = .ok (some r) ∧
      II.checkedDivEuclid dbg w a b = .ok (some qe) ∧
      II.checkedRemEuclid dbg w a b = .ok (some re) ∧
      II.overflowingDiv dbg w a b = .ok (q, false) ∧ II.overflowingRem dbg w a b = .ok (r, false) ∧
      II.overflowingDivEuclid dbg w a b = .ok (qe, false) ∧
      II.overflowingRemEuclid dbg w a b = .ok (re, false) ∧
      II.wrappingDiv dbg w a b = .ok q ∧ II.wrappingRem dbg w a b = .ok r ∧
      II.wrappingDivEuclid dbg w a b = .ok qe ∧ II.wrappingRemEuclid dbg w a b = .ok re ∧
      II.saturatingDiv dbg w a b = .ok q ∧ II.div dbg w a b = .ok q ∧ II.rem dbg w a b = .ok r ∧
      II.divEuclid dbg w a b = .ok qe ∧ II.remEuclid dbg w a b = .ok re := by
  have hw1 : 1 ≤ w := by omega
  obtain ⟨q, h1, wq, sq⟩ := II.i_overflowingDiv_spec hw hn (udivspec (by omega) hn) ha hb hb0 hov dbg
  obtain ⟨r, h2, wr, sr⟩ := II.i_overflowingRem_spec hw hn (udivspec (by omega) hn) ha hb hb0 hov dbg
  obtain ⟨qe, h3, wqe, sqe⟩ := II.i_overflowingDivEuclid_spec hw hn (udivspec (by omega) hn) ha hb hb0 hov dbg
  obtain ⟨re, h4, wre, sre⟩ := II.i_overflowingRemEuclid_spec hw hn (udivspec (by omega) hn) ha hb hb0 hov dbg
  obtain ⟨q0, r0, h5, wq0, wr0, sq0, sr0⟩ := II.i_divRemUnchecked_spec hw hn (udivspec (by omega) hn) ha hb hb0 hov dbg
  have eq0 : q0 = q := S_inj wq0 wq (by rw [sq0, sq])
  have er0 : r0 = r := S_inj wr0 wr (by rw [sr0, sr])
  subst eq0; subst er0
  have hz := II.isZero_false hb hb0
  have hg := II.ovfGuard_false hw1 hn ha hb hov
  have hgp : II.eq a (iMin w n) = true → II.eq b (II.negOne w n) = false := by
    intro h; rw [h] at hg; simpa using hg
  have hgq : ¬ (II.eq a (iMin w n) = true ∧ II.eq b (II.negOne w n) = true) := by
    rintro ⟨x, y⟩; rw [hgp x] at y; cases y
  refine ⟨q0, r0, qe, re, wq, wr, wqe, wre, sq, sr, sqe, sre, ?_⟩
  simp [II.ne, hgq, II.checkedDiv, II.checkedRem, II.checkedDivEuclid, II.checkedRemEuclid, II.wrappingDiv,
    II.wrappingRem, II.wrappingDivEuclid, II.wrappingRemEuclid, II.saturatingDiv, II.div, II.rem,
    II.divEuclid, II.remEuclid, hz, h1, h2, h3, h4, h5, ha.1, Outcome.map, tupleToOption]

/-- C03, `BInt::div_floor`: rounds toward negative infinity (`Int.fdiv`) -/
theorem i_divFloor_spec {w n : Nat} {a b : List Nat} (hw : 2 ≤ w) (hn : 1 ≤ n)
    (ha : WF w n a) (hb : WF w n b) (hb0 : S w b ≠ 0)
    (hov : ¬ (S w a = -((M w n / 2 : Nat) : Int) ∧ S w b = -1)) (dbg : Bool) :
    ∃ q, II.divFloor dbg w a b = .ok q ∧ WF w n q ∧ S w q = (S w a).fdiv (S w b) :=
  II.i_divFloor_spec hw hn (udivspec (by omega) hn) ha hb hb0 hov dbg

/-- C03, `BInt::div_ceil`: rounds toward positive infinity -/
theorem i_divCeil_spec {w n : Nat} {a b : List Nat} (hw : 2 ≤ w) (hn : 1 ≤ n)
    (ha : WF w n a) (hb : WF w n b) (hb0 : S w b ≠ 0)
    (hov : ¬ (S w a = -((M w n / 2 : Nat) : Int) ∧ S w b = -1)) (dbg : Bool) :
    ∃ q, II.divCeil dbg w a b = .ok q ∧ WF w n q ∧ S w q = Spec.cdiv (S w a) (S w b) :=
  II.i_divCeil_spec hw hn (udivspec (by omega) hn) ha hb hb0 hov dbg

/-- what `Spec.cdiv` and `Spec.nextMultiple` mean: the ceiling, and the multiple of `b` at or beyond
    `a` in the direction of the sign of `b`, less than `|b|` away -/
theorem cdiv_nextMultiple_meaning (a b : Int) (hb : b ≠ 0) :
    (0 < b → b * (Spec.cdiv a b - 1) < a ∧ a ≤ b * Spec.cdiv a b) ∧
    (b < 0 → b * Spec.cdiv a b ≤ a ∧ a < b * (Spec.cdiv a b - 1)) ∧
    b ∣ Spec.nextMultiple a b ∧
    (0 < b → a ≤ Spec.nextMultiple a b ∧ Spec.nextMultiple a b < a + b) ∧
    (b < 0 → a + b < Spec.nextMultiple a b ∧ Spec.nextMultiple a b ≤ a) := by
  have key := nextMultiple_eq a b hb
  have hnn : 0 ≤ a % b := Int.emod_nonneg a hb
  have hlt : a % b < b.natAbs := by have := Int.emod_lt a hb; omega
  have hdm := Int.mul_ediv_add_emod a b
  have hdvd : b ∣ Spec.nextMultiple a b := ⟨Spec.cdiv a b, rfl⟩
  have hmul : b * (Spec.cdiv a b - 1) = Spec.nextMultiple a b - b := by
    unfold Spec.nextMultiple; rw [Int.mul_sub]; omega
  rw [hmul]
  change _ ∧ _ ∧ _ ∧ _ ∧ _
  have hnm : b * Spec.cdiv a b = Spec.nextMultiple a b := rfl
  rw [hnm]
  refine ⟨?_, ?_, hdvd, ?_, ?_⟩ <;> intro hs <;> rw [key] <;> split_ifs <;> omega

/-- C03, `BInt::next_multiple_of` when the result is representable -/
theorem i_nextMultipleOf_spec {w n : Nat} {a b : List Nat} (hw : 2 ≤ w) (hn : 1 ≤ n)
    (ha : WF w n a) (hb : WF w n b) (hb0 : S w b ≠ 0)
    (hrep : repS (M w n) (Spec.nextMultiple (S w a) (S w b))) (dbg : Bool) :
    ∃ r, II.nextMultipleOf dbg w a b = .ok r ∧ WF w n r ∧
      S w r = Spec.nextMultiple (S w a) (S w b) :=
  II.i_nextMultipleOf_spec hw hn (udivspec (by omega) hn) ha hb hb0 hrep dbg

/-- C03, `BInt::checked_next_multiple_of`: `None` exactly when the multiple is not representable -/
theorem i_checkedNextMultipleOf_spec {w n : Nat} {a b : List Nat} (hw : 2 ≤ w) (hn : 1 ≤ n)
    (ha : WF w n a) (hb : WF w n b) (hb0 : S w b ≠ 0) (dbg : Bool) :
    ∃ o, II.checkedNextMultipleOf dbg w a b = .ok o ∧
      (o = none ↔ ¬ repS (M w n) (Spec.nextMultiple (S w a) (S w b))) ∧
      (∀ r, o = some r → WF w n r ∧ S w r = Spec.nextMultiple (S w a) (S w b)) :=
  II.i_checkedNextMultipleOf_spec hw hn (udivspec (by omega) hn) ha hb hb0 dbg

/-- C03, `BInt::next_multiple_of` when the multiple is NOT representable: the debug build panics,
    the release build returns its two's-complement wrap -/
theorem i_nextMultipleOf_overflow {w n : Nat} {a b : List Nat} (hw : 2 ≤ w) (hn : 1 ≤ n)
    (ha : WF w n a) (hb : WF w n b) (hb0 : S w b ≠ 0)
    (hov : ¬ repS (M w n) (Spec.nextMultiple (S w a) (S w b))) :
    II.nextMultipleOf true w a b = .panic ∧
    ∃ r, II.nextMultipleOf false w a b = .ok r ∧ WF w n r ∧
      S w r = wrapS (M w n) (Spec.nextMultiple (S w a) (S w b)) :=
  DivX.i_nextMultipleOf_overflow hw hn (udivspec (by omega) hn) ha hb hb0 hov
-- positive divisor (overflow in the final `add`) and negative divisor (overflow in the final `sub`)
example : WF 8 1 [127] ∧ WF 8 1 [7] ∧ S 8 [7] ≠ 0 ∧
    ¬ repS (M 8 1) (Spec.nextMultiple (S 8 [127]) (S 8 [7])) ∧
    WF 8 1 [0x81] ∧ WF 8 1 [0xf9] ∧ S 8 [0xf9] = -7 ∧ S 8 [0x81] = -127 ∧
    ¬ repS (M 8 1) (Spec.nextMultiple (S 8 [0x81]) (S 8 [0xf9])) := by decide

/-- C03: a zero divisor yields `None` from every checked form of `BInt` and a panic elsewhere -/
theorem i_zero_divisor {w n : Nat} {a b : List Nat} (hw : 2 ≤ w) (hn : 1 ≤ n) (ha : WF w n a)
    (hb : WF w n b) (hb0 : S w b = 0) (dbg : Bool) :
    II.checkedDiv dbg w a b = .ok none ∧ II.checkedRem dbg w a b = .ok none ∧
    II.checkedDivEuclid dbg w a b = .ok none ∧ II.checkedRemEuclid dbg w a b = .ok none ∧
    II.checkedNextMultipleOf dbg w a b = .ok none ∧
    II.overflowingDiv dbg w a b = .panic ∧ II.overflowingRem dbg w a b = .panic ∧
    II.overflowingDivEuclid dbg w a b = .panic ∧ II.overflowingRemEuclid dbg w a b = .panic ∧
    II.wrappingDiv dbg w a b = .panic ∧ II.wrappingRem dbg w a b = .panic ∧
    II.wrappingDivEuclid dbg w a b = .panic ∧ II.wrappingRemEuclid dbg w a b = .panic ∧
    II.saturatingDiv dbg w a b = .panic ∧ II.div dbg w a b = .panic ∧ II.rem dbg w a b = .panic ∧
    II.divEuclid dbg w a b = .panic ∧ II.remEuclid dbg w a b = .panic ∧
    II.divFloor dbg w a b = .panic ∧ II.divCeil dbg w a b = .panic ∧
    II.nextMultipleOf dbg w a b = .panic := by
  have hw1 : 1 ≤ w := by omega
  have hz : isZero b = true := (II.isZero_iff_S hb).mpr hb0
  have hg : (II.eq a (iMin w n) && II.eq b (II.negOne w n)) = false :=
    II.ovfGuard_false hw1 hn ha hb (by omega)
  have hgp : II.eq a (iMin w n) = true → II.eq b (II.negOne w n) = false := by
    intro h; rw [h] at hg; simpa using hg
  have hgq : ¬ (II.eq a (iMin w n) = true ∧ II.eq b (II.negOne w n) = true) := by
    rintro ⟨x, y⟩; rw [hgp x] at y; cases y
  simp [II.ne, hgq, II.checkedDiv, II.checkedRem, II.checkedDivEuclid, II.checkedRemEuclid, II.wrappingDiv,
    II.wrappingRem, II.wrappingDivEuclid, II.wrappingRemEuclid, II.saturatingDiv, II.div, II.rem,
    II.divEuclid, II.remEuclid, II.overflowingDiv, II.overflowingRem, II.overflowingDivEuclid,
    II.overflowingRemEuclid, II.checkedNextMultipleOf, II.nextMultipleOf, II.divFloor, II.divCeil,
    hz, ha.1, Outcome.map]

/-- C03: signed `MIN / -1` is reported as overflow: `None` from the checked forms, `(MIN, true)` /
    `(0, true)` from the overflowing forms, `MIN` / `0` from the wrapping forms, `MAX` from
    `saturating_div`, and a panic from `div`, `rem`, `div_euclid`, `rem_euclid` -/
theorem i_min_neg_one {w n : Nat} {a b : List Nat} (hw : 2 ≤ w) (hn : 1 ≤ n) (ha : WF w n a)
    (hb : WF w n b) (hov : S w a = -((M w n / 2 : Nat) : Int) ∧ S w b = -1) (dbg : Bool) :
    a = iMin w n ∧
    II.checkedDiv dbg w a b = .ok none ∧ II.checkedRem dbg w a b = .ok none ∧
    II.checkedDivEuclid dbg w a b = .ok none ∧ II.checkedRemEuclid dbg w a b = .ok none ∧
    II.overflowingDiv dbg w a b = .ok (iMin w n, true) ∧
    II.overflowingRem dbg w a b = .ok (zero n, true) ∧
    II.overflowingDivEuclid dbg w a b = .ok (iMin w n, true) ∧
    II.overflowingRemEuclid dbg w a b = .ok (zero n, true) ∧
    II.wrappingDiv dbg w a b = .ok (iMin w n) ∧ II.wrappingRem dbg w a b = .ok (zero n) ∧
    II.wrappingDivEuclid dbg w a b = .ok (iMin w n) ∧
    II.wrappingRemEuclid dbg w a b = .ok (zero n) ∧
    II.saturatingDiv dbg w a b = .ok (iMax w n) ∧
    II.div dbg w a b = .panic ∧ II.rem dbg w a b = .panic ∧
    II.divEuclid dbg w a b = .panic ∧ II.remEuclid dbg w a b = .panic := by
  have hw1 : 1 ≤ w := by omega
  have hz : isZero b = false := II.isZero_false hb (by omega)
  have hg : (II.eq a (iMin w n) && II.eq b (II.negOne w n)) = true :=
    (II.ovfGuard_iff hw1 hn ha hb).mpr hov
  have e : a = iMin w n := S_inj ha (WF_iMin hw1 hn) (by rw [hov.1, S_iMin hw1 hn])
  refine ⟨e, ?_⟩
  have hlen : (iMin w n).length = n := (WF_iMin hw1 hn).1
  subst e
  rw [Bool.and_eq_true] at hg
  obtain ⟨g1, g2⟩ := hg
  simp [II.ne, g1, g2, II.checkedDiv, II.checkedRem, II.checkedDivEuclid, II.checkedRemEuclid, II.wrappingDiv,
    II.wrappingRem, II.wrappingDivEuclid, II.wrappingRemEuclid, II.saturatingDiv, II.div, II.rem,
    II.divEuclid, II.remEuclid, II.overflowingDiv, II.overflowingRem, II.overflowingDivEuclid,
    II.overflowingRemEuclid, hz, hlen, Outcome.map, tupleToOption]

/-- C03, what the code does for signed `div_floor` / `div_ceil` of `MIN / -1` (the one request the
    statement does not pin down: these methods have no overflow channel): both return `MIN` — the
    exact quotient `2^(BITS-1)` wrapped — and neither panics, in both build modes.  (The primitive
    `iN::div_floor(MIN, -1)` panics; the correspondence run accepts `P` or `MIN` and nothing else.) -/
theorem i_divFloor_divCeil_min_neg_one {w n : Nat} {a b : List Nat} (hw : 2 ≤ w) (hn : 1 ≤ n)
    (ha : WF w n a) (hb : WF w n b) (hov : S w a = -((M w n / 2 : Nat) : Int) ∧ S w b = -1)
    (dbg : Bool) :
    II.divFloor dbg w a b = .ok (iMin w n) ∧ II.divCeil dbg w a b = .ok (iMin w n) ∧
    S w (iMin w n) = wrapS (M w n) ((S w a).fdiv (S w b)) ∧
    S w (iMin w n) = wrapS (M w n) (Spec.cdiv (S w a) (S w b)) := by
  obtain ⟨h1, h2⟩ := DivX.i_divFloorCeil_min_neg_one hw hn (udivspec (by omega) hn) ha hb hov dbg
  have hw1 : 1 ≤ w := by omega
  have hme := M_even hw1 hn
  have hM := M_pos w n
  have e1 : (S w a).fdiv (S w b) = ((M w n / 2 : Nat) : Int) := by
    rw [hov.1, hov.2, DivL.fdiv_of_tdiv _ _ (by decide)]
    simp [Int.tdiv_neg, Int.tmod_neg]
  have e2 : Spec.cdiv (S w a) (S w b) = ((M w n / 2 : Nat) : Int) := by
    rw [hov.1, hov.2, DivL.cdiv_of_tdiv _ _ (by decide)]
    simp [Int.tdiv_neg, Int.tmod_neg]
  have e3 : wrapS (M w n) ((M w n / 2 : Nat) : Int) = -((M w n / 2 : Nat) : Int) := by
    unfold wrapS
    rw [wrapU_natCast, Nat.mod_eq_of_lt (by omega), toInt_of_ge (by omega)]
    omega
  exact ⟨h1, h2, by rw [e1, e3, S_iMin hw1 hn], by rw [e2, e3, S_iMin hw1 hn]⟩
example : II.divFloor true 8 [0x00, 0x80] [0xff, 0xff] = .ok [0x00, 0x80] ∧
    II.divCeil false 8 [0x00, 0x80] [0xff, 0xff] = .ok [0x00, 0x80] := by decide

/-! ## 5. the hypotheses are satisfiable; concrete evaluations by the kernel -/


-- operands satisfying the hypotheses of `u_forms` / `i_forms` (w = 8, n = 2: −7 and 2)
example : WF 8 2 [0xf9, 0xff] ∧ WF 8 2 [0x02, 0x00] ∧ S 8 [0xf9, 0xff] = -7 ∧ S 8 [0x02, 0x00] = 2 ∧
    S 8 [0x02, 0x00] ≠ 0 ∧ ¬ (S 8 [0xf9, 0xff] = -((M 8 2 / 2 : Nat) : Int) ∧ S 8 [0x02, 0x00] = -1) := by
  decide
-- −7 / 2: truncation −3 rem −1; Euclid −4 rem 1; floor −4; ceil −3; next multiple −6
example : II.overflowingDiv true 8 [0xf9, 0xff] [0x02, 0x00] = .ok ([0xfd, 0xff], false) ∧
    II.overflowingRem true 8 [0xf9, 0xff] [0x02, 0x00] = .ok ([0xff, 0xff], false) ∧
    II.overflowingDivEuclid true 8 [0xf9, 0xff] [0x02, 0x00] = .ok ([0xfc, 0xff], false) ∧
    II.overflowingRemEuclid true 8 [0xf9, 0xff] [0x02, 0x00] = .ok ([0x01, 0x00], false) ∧
    II.divFloor true 8 [0xf9, 0xff] [0x02, 0x00] = .ok [0xfc, 0xff] ∧
    II.divCeil true 8 [0xf9, 0xff] [0x02, 0x00] = .ok [0xfd, 0xff] ∧
    II.nextMultipleOf true 8 [0xf9, 0xff] [0x02, 0x00] = .ok [0xfa, 0xff] := by decide
-- MIN / −1 (hypothesis of `i_min_neg_one`) and a zero divisor
example : WF 8 2 [0x00, 0x80] ∧ WF 8 2 [0xff, 0xff] ∧
    S 8 [0x00, 0x80] = -((M 8 2 / 2 : Nat) : Int) ∧ S 8 [0xff, 0xff] = -1 := by decide
example : II.checkedDiv false 8 [0x00, 0x80] [0xff, 0xff] = .ok none ∧
    II.saturatingDiv false 8 [0x00, 0x80] [0xff, 0xff] = .ok [0xff, 0x7f] ∧
    II.div false 8 [0x00, 0x80] [0xff, 0xff] = .panic ∧
    II.checkedRem true 8 [0x05, 0x00] [0x00, 0x00] = .ok none ∧
    II.rem true 8 [0x05, 0x00] [0x00, 0x00] = .panic := by decide
-- representability hypothesis of `*_nextMultipleOf_spec`, and its failure (overflow: debug panics,
-- release wraps, checked gives None)
example : repS (M 8 1) (Spec.nextMultiple 100 7) ∧ ¬ repS (M 8 1) (Spec.nextMultiple 127 7) := by
  decide
example : II.nextMultipleOf true 8 [127] [7] = .panic ∧ II.nextMultipleOf false 8 [127] [7] = .ok [133] ∧
    II.checkedNextMultipleOf true 8 [127] [7] = .ok none ∧
    UI.nextMultipleOf true 8 [254] [7] = .panic ∧ UI.nextMultipleOf false 8 [254] [7] = .ok [3] ∧
    UI.checkedNextMultipleOf true 8 [254] [7] = .ok none := by
  decide

end Bnum.C03
