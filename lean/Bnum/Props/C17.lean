/-
  C17 — "Every std trait implementation on bnum integers - Add, Sub, Mul, Div, Rem, Neg, Not, BitAnd,
  BitOr, BitXor, Shl and Shr for each of the twelve primitive shift-amount types and for bnum-typed
  amounts below BITS, all op-assign forms, all four by-value/by-reference operand combinations, Sum,
  Product, Default, PartialOrd/Ord, FromStr, and the digit-operand forms Add/Div/Rem<digit> when the
  exact result is representable - computes the same value and has the same panic outcome as the
  corresponding inherent method on the same operands. `a op= b` leaves a equal to `a op b`, Sum and
  Product equal the left fold with + and * from ZERO and ONE, and the const inherent twins (add, sub,
  mul, div, rem, shl, shr, bitand, ..., eq, cmp) agree with the operators."

  Model: Bnum/Model/Ops.lean — one definition per Rust `impl`, written as the delegation the source
  performs (`src/int/ops.rs`, `src/{buint,bint}/ops.rs`, `src/{buint,bint}/mod.rs`,
  `src/{buint,bint}/cmp.rs`).  The shared macro text `impls!($Struct …)` is modelled once over the
  record `Ops.Ty` of inherent methods; `Ops.buint w n` / `Ops.bint w n` are its two instances, and
  their fields ARE the inherent `const fn`s of Model/{AddSub,Mul,Div,Shift,Bits,BitOps,Cmp}.lean
  (`inherent_buint`, `inherent_bint` below), whose value-level meaning is C01/C02/C03/C05/C06/C07.
  Bnum/Model/C17Extra.lean adds the overridden `Ord::max/min/clamp` with their inherent twins
  (`ord_forms`, `ord_eq_inherent`, `ord_max_min_value`, `ord_clamp_value`) and the primitive-amount shift
  impls on 16- and 32-bit targets, where `usize`/`isize` are narrower than on the 64-bit harness target
  (`shift_prim_at_64`, `shift_prim_at_eq`, `shift_prim_usize_small`).

  Because each impl is modelled as its literal delegation, "trait form = inherent method" is `rfl`
  for the forwarding impls; the content of this file is (i) that EVERY impl is enumerated,
  (ii) the amount conversions of the shift impls (`as u32`, `u32::try_from`, the crate's own
  `TryFrom<BUint/BInt> for u32`), (iii) the early-exit carry loop of `Add<Digit>`,
  (iv) `Sum`/`Product` as folds including their panic outcome.
  `dbg` = `cfg(debug_assertions)`.  Theorems that are about one build mode say so in their name.
-/
import Bnum.Lemmas.Ops
import Bnum.Lemmas.C17Extra
import Bnum.Props.C01
import Bnum.Props.C02
import Bnum.Props.C05
import Bnum.Props.C07
namespace Bnum.C17
open Bnum Bnum.Ops

/-! ## the inherent twins: the fields of `Ops.buint` / `Ops.bint` are the inherent methods -/

/-- `Ops.buint w n` bundles exactly the inherent `BUint` methods -/
theorem inherent_buint (w n : Nat) (dbg : Bool) (a b : List Nat) (s : Nat) :
    (buint w n).add dbg a b = UI.add dbg w a b ∧ (buint w n).sub dbg a b = UI.sub dbg w a b ∧
    (buint w n).mul dbg a b = UI.mul w dbg a b ∧ (buint w n).div dbg a b = UI.div w a b ∧
    (buint w n).rem dbg a b = UI.rem w a b ∧ (buint w n).bitand a b = UI.bitand a b ∧
    (buint w n).bitor a b = UI.bitor a b ∧ (buint w n).bitxor a b = UI.bitxor a b ∧
    (buint w n).not a = UI.not w a ∧ (buint w n).shl dbg a s = UI.shl dbg w a s ∧
    (buint w n).shr dbg a s = UI.shr dbg w a s ∧ (buint w n).cmp a b = UI.cmp a b ∧
    (buint w n).eq a b = UI.eq a b ∧ (buint w n).zero = zero n ∧ (buint w n).one = one n :=
  ⟨rfl, rfl, rfl, rfl, rfl, rfl, rfl, rfl, rfl, rfl, rfl, rfl, rfl, rfl, rfl⟩

/-- `Ops.bint w n` bundles exactly the inherent `BInt` methods -/
theorem inherent_bint (w n : Nat) (dbg : Bool) (a b : List Nat) (s : Nat) :
    (bint w n).add dbg a b = II.add dbg w a b ∧ (bint w n).sub dbg a b = II.sub dbg w a b ∧
    (bint w n).mul dbg a b = II.mul w dbg a b ∧ (bint w n).div dbg a b = II.div dbg w a b ∧
    (bint w n).rem dbg a b = II.rem dbg w a b ∧ (bint w n).bitand a b = II.bitand a b ∧
    (bint w n).bitor a b = II.bitor a b ∧ (bint w n).bitxor a b = II.bitxor a b ∧
    (bint w n).not a = II.not w a ∧ (bint w n).shl dbg a s = II.shl dbg w a s ∧
    (bint w n).shr dbg a s = II.shr dbg w a s ∧ (bint w n).cmp a b = II.cmp w a b ∧
    (bint w n).eq a b = II.eq a b ∧ (bint w n).zero = zero n ∧ (bint w n).one = one n :=
  ⟨rfl, rfl, rfl, rfl, rfl, rfl, rfl, rfl, rfl, rfl, rfl, rfl, rfl, rfl, rfl⟩

/-! ## Add, Sub, Mul, Div, Rem, BitAnd, BitOr, BitXor: "all four by-value/by-reference operand
    combinations", "all op-assign forms", "`a op= b` leaves a equal to `a op b`" — value AND panic
    outcome (`Outcome` equality) of every form is that of the inherent method on the same operands.
    The first conjunct is `BUint`, the second `BInt`. -/

theorem add_forms (w n : Nat) (dbg : Bool) (a b : List Nat) :
    (add_vv (buint w n) dbg a b = UI.add dbg w a b ∧ add_vr (buint w n) dbg a b = UI.add dbg w a b ∧
     add_rv (buint w n) dbg a b = UI.add dbg w a b ∧ add_rr (buint w n) dbg a b = UI.add dbg w a b ∧
     addAssign (buint w n) dbg a b = UI.add dbg w a b ∧
     addAssignRef (buint w n) dbg a b = UI.add dbg w a b) ∧
    (add_vv (bint w n) dbg a b = II.add dbg w a b ∧ add_vr (bint w n) dbg a b = II.add dbg w a b ∧
     add_rv (bint w n) dbg a b = II.add dbg w a b ∧ add_rr (bint w n) dbg a b = II.add dbg w a b ∧
     addAssign (bint w n) dbg a b = II.add dbg w a b ∧
     addAssignRef (bint w n) dbg a b = II.add dbg w a b) :=
  ⟨Ops.add_forms _ dbg a b, Ops.add_forms _ dbg a b⟩
example : add_vr (buint 8 3) true [255, 255, 255] [1, 0, 0] = .panic ∧
    addAssignRef (bint 8 3) false [255, 255, 127] [1, 0, 0] = .ok [0, 0, 128] := by decide

theorem sub_forms (w n : Nat) (dbg : Bool) (a b : List Nat) :
    (sub_vv (buint w n) dbg a b = UI.sub dbg w a b ∧ sub_vr (buint w n) dbg a b = UI.sub dbg w a b ∧
     sub_rv (buint w n) dbg a b = UI.sub dbg w a b ∧ sub_rr (buint w n) dbg a b = UI.sub dbg w a b ∧
     subAssign (buint w n) dbg a b = UI.sub dbg w a b ∧
     subAssignRef (buint w n) dbg a b = UI.sub dbg w a b) ∧
    (sub_vv (bint w n) dbg a b = II.sub dbg w a b ∧ sub_vr (bint w n) dbg a b = II.sub dbg w a b ∧
     sub_rv (bint w n) dbg a b = II.sub dbg w a b ∧ sub_rr (bint w n) dbg a b = II.sub dbg w a b ∧
     subAssign (bint w n) dbg a b = II.sub dbg w a b ∧
     subAssignRef (bint w n) dbg a b = II.sub dbg w a b) :=
  ⟨Ops.sub_forms _ dbg a b, Ops.sub_forms _ dbg a b⟩
example : sub_rv (buint 8 3) true [0, 0, 0] [1, 0, 0] = .panic ∧
    subAssign (buint 8 3) false [0, 0, 0] [1, 0, 0] = .ok [255, 255, 255] := by decide

theorem mul_forms (w n : Nat) (dbg : Bool) (a b : List Nat) :
    (mul_vv (buint w n) dbg a b = UI.mul w dbg a b ∧ mul_vr (buint w n) dbg a b = UI.mul w dbg a b ∧
     mul_rv (buint w n) dbg a b = UI.mul w dbg a b ∧ mul_rr (buint w n) dbg a b = UI.mul w dbg a b ∧
     mulAssign (buint w n) dbg a b = UI.mul w dbg a b ∧
     mulAssignRef (buint w n) dbg a b = UI.mul w dbg a b) ∧
    (mul_vv (bint w n) dbg a b = II.mul w dbg a b ∧ mul_vr (bint w n) dbg a b = II.mul w dbg a b ∧
     mul_rv (bint w n) dbg a b = II.mul w dbg a b ∧ mul_rr (bint w n) dbg a b = II.mul w dbg a b ∧
     mulAssign (bint w n) dbg a b = II.mul w dbg a b ∧
     mulAssignRef (bint w n) dbg a b = II.mul w dbg a b) :=
  ⟨Ops.mul_forms _ dbg a b, Ops.mul_forms _ dbg a b⟩
example : mul_rr (buint 8 3) true [200, 7, 255] [100, 250, 3] = .panic ∧
    mulAssign (bint 8 3) false [200, 7, 255] [100, 250, 3] = .ok [32, 90, 144] := by decide

theorem div_forms (w n : Nat) (dbg : Bool) (a b : List Nat) :
    (div_vv (buint w n) dbg a b = UI.div w a b ∧ div_vr (buint w n) dbg a b = UI.div w a b ∧
     div_rv (buint w n) dbg a b = UI.div w a b ∧ div_rr (buint w n) dbg a b = UI.div w a b ∧
     divAssign (buint w n) dbg a b = UI.div w a b ∧ divAssignRef (buint w n) dbg a b = UI.div w a b) ∧
    (div_vv (bint w n) dbg a b = II.div dbg w a b ∧ div_vr (bint w n) dbg a b = II.div dbg w a b ∧
     div_rv (bint w n) dbg a b = II.div dbg w a b ∧ div_rr (bint w n) dbg a b = II.div dbg w a b ∧
     divAssign (bint w n) dbg a b = II.div dbg w a b ∧
     divAssignRef (bint w n) dbg a b = II.div dbg w a b) :=
  ⟨Ops.div_forms _ dbg a b, Ops.div_forms _ dbg a b⟩
example : div_vr (buint 8 2) true [7, 1] [0, 0] = .panic ∧
    div_rr (bint 8 2) false [0, 128] [255, 255] = .panic ∧
    divAssignRef (bint 8 2) true [249, 255] [2, 0] = .ok [253, 255] := by decide

theorem rem_forms (w n : Nat) (dbg : Bool) (a b : List Nat) :
    (rem_vv (buint w n) dbg a b = UI.rem w a b ∧ rem_vr (buint w n) dbg a b = UI.rem w a b ∧
     rem_rv (buint w n) dbg a b = UI.rem w a b ∧ rem_rr (buint w n) dbg a b = UI.rem w a b ∧
     remAssign (buint w n) dbg a b = UI.rem w a b ∧ remAssignRef (buint w n) dbg a b = UI.rem w a b) ∧
    (rem_vv (bint w n) dbg a b = II.rem dbg w a b ∧ rem_vr (bint w n) dbg a b = II.rem dbg w a b ∧
     rem_rv (bint w n) dbg a b = II.rem dbg w a b ∧ rem_rr (bint w n) dbg a b = II.rem dbg w a b ∧
     remAssign (bint w n) dbg a b = II.rem dbg w a b ∧
     remAssignRef (bint w n) dbg a b = II.rem dbg w a b) :=
  ⟨Ops.rem_forms _ dbg a b, Ops.rem_forms _ dbg a b⟩
example : rem_vv (buint 8 2) false [7, 1] [0, 0] = .panic ∧
    remAssign (bint 8 2) true [249, 255] [2, 0] = .ok [255, 255] := by decide

theorem bitand_forms (w n : Nat) (a b : List Nat) :
    (bitand_vv (buint w n) a b = UI.bitand a b ∧ bitand_vr (buint w n) a b = UI.bitand a b ∧
     bitand_rv (buint w n) a b = UI.bitand a b ∧ bitand_rr (buint w n) a b = UI.bitand a b ∧
     bitandAssign (buint w n) a b = UI.bitand a b ∧ bitandAssignRef (buint w n) a b = UI.bitand a b) ∧
    (bitand_vv (bint w n) a b = II.bitand a b ∧ bitand_vr (bint w n) a b = II.bitand a b ∧
     bitand_rv (bint w n) a b = II.bitand a b ∧ bitand_rr (bint w n) a b = II.bitand a b ∧
     bitandAssign (bint w n) a b = II.bitand a b ∧ bitandAssignRef (bint w n) a b = II.bitand a b) :=
  ⟨Ops.bitand_forms _ a b, Ops.bitand_forms _ a b⟩
theorem bitor_forms (w n : Nat) (a b : List Nat) :
    (bitor_vv (buint w n) a b = UI.bitor a b ∧ bitor_vr (buint w n) a b = UI.bitor a b ∧
     bitor_rv (buint w n) a b = UI.bitor a b ∧ bitor_rr (buint w n) a b = UI.bitor a b ∧
     bitorAssign (buint w n) a b = UI.bitor a b ∧ bitorAssignRef (buint w n) a b = UI.bitor a b) ∧
    (bitor_vv (bint w n) a b = II.bitor a b ∧ bitor_vr (bint w n) a b = II.bitor a b ∧
     bitor_rv (bint w n) a b = II.bitor a b ∧ bitor_rr (bint w n) a b = II.bitor a b ∧
     bitorAssign (bint w n) a b = II.bitor a b ∧ bitorAssignRef (bint w n) a b = II.bitor a b) :=
  ⟨Ops.bitor_forms _ a b, Ops.bitor_forms _ a b⟩
theorem bitxor_forms (w n : Nat) (a b : List Nat) :
    (bitxor_vv (buint w n) a b = UI.bitxor a b ∧ bitxor_vr (buint w n) a b = UI.bitxor a b ∧
     bitxor_rv (buint w n) a b = UI.bitxor a b ∧ bitxor_rr (buint w n) a b = UI.bitxor a b ∧
     bitxorAssign (buint w n) a b = UI.bitxor a b ∧ bitxorAssignRef (buint w n) a b = UI.bitxor a b) ∧
    (bitxor_vv (bint w n) a b = II.bitxor a b ∧ bitxor_vr (bint w n) a b = II.bitxor a b ∧
     bitxor_rv (bint w n) a b = II.bitxor a b ∧ bitxor_rr (bint w n) a b = II.bitxor a b ∧
     bitxorAssign (bint w n) a b = II.bitxor a b ∧ bitxorAssignRef (bint w n) a b = II.bitxor a b) :=
  ⟨Ops.bitxor_forms _ a b, Ops.bitxor_forms _ a b⟩
example : bitand_vr (buint 8 2) [0xf0, 0x3c] [0xaa, 0x0f] = [0xa0, 0x0c] ∧
    bitorAssign (bint 8 2) [0xf0, 0x3c] [0xaa, 0x0f] = [0xfa, 0x3f] ∧
    bitxor_rr (bint 8 2) [0xf0, 0x3c] [0xaa, 0x0f] = [0x5a, 0x33] := by decide

/-- "`a op= b` leaves a equal to `a op b`", for every operator (the shifts are below) -/
theorem assign_eq_op (T : Ty) (dbg : Bool) (a b : List Nat) :
    addAssign T dbg a b = add_vv T dbg a b ∧ addAssignRef T dbg a b = add_vr T dbg a b ∧
    subAssign T dbg a b = sub_vv T dbg a b ∧ subAssignRef T dbg a b = sub_vr T dbg a b ∧
    mulAssign T dbg a b = mul_vv T dbg a b ∧ mulAssignRef T dbg a b = mul_vr T dbg a b ∧
    divAssign T dbg a b = div_vv T dbg a b ∧ divAssignRef T dbg a b = div_vr T dbg a b ∧
    remAssign T dbg a b = rem_vv T dbg a b ∧ remAssignRef T dbg a b = rem_vr T dbg a b ∧
    bitandAssign T a b = bitand_vv T a b ∧ bitandAssignRef T a b = bitand_vr T a b ∧
    bitorAssign T a b = bitor_vv T a b ∧ bitorAssignRef T a b = bitor_vr T a b ∧
    bitxorAssign T a b = bitxor_vv T a b ∧ bitxorAssignRef T a b = bitxor_vr T a b :=
  ⟨rfl, rfl, rfl, rfl, rfl, rfl, rfl, rfl, rfl, rfl, rfl, rfl, rfl, rfl, rfl, rfl⟩

/-- value-level reading of `+` (citing C01): in debug builds a panic iff the exact sum is not
    representable, else the exact sum; in release builds the sum reduced mod `2^BITS` -/
theorem u_add_value {w n : Nat} {a b : List Nat} (ha : WF w n a) (hb : WF w n b) :
    (add_vv (buint w n) true a b = .panic ↔ ¬ repU (M w n) ((U w a : Int) + U w b)) ∧
    (∀ r, add_vv (buint w n) true a b = .ok r → WF w n r ∧ (U w r : Int) = U w a + U w b) ∧
    (∃ r, add_vv (buint w n) false a b = .ok r ∧ WF w n r ∧
      (U w r : Int) = wrapU (M w n) ((U w a : Int) + U w b)) :=
  ⟨(C01.u_strict_add ha hb).1, (C01.u_strict_add ha hb).2,
   ⟨_, rfl, (C01.u_wrapping_add ha hb).1, (C01.u_wrapping_add ha hb).2⟩⟩
example : WF 8 3 [100, 250, 3] ∧ WF 8 3 [100, 250, 3] := by decide

theorem i_add_value {w n : Nat} {a b : List Nat} (hw : 2 ≤ w) (hn : 1 ≤ n)
    (ha : WF w n a) (hb : WF w n b) :
    (add_vv (bint w n) true a b = .panic ↔ ¬ repS (M w n) (S w a + S w b)) ∧
    (∀ r, add_vv (bint w n) true a b = .ok r → WF w n r ∧ S w r = S w a + S w b) ∧
    (∃ r, add_vv (bint w n) false a b = .ok r ∧ WF w n r ∧ S w r = wrapS (M w n) (S w a + S w b)) :=
  ⟨(C01.i_strict_add hw hn ha hb).1, (C01.i_strict_add hw hn ha hb).2,
   ⟨_, rfl, (C01.i_wrapping_add ha hb).1, (C01.i_wrapping_add ha hb).2⟩⟩
example : 2 ≤ 8 ∧ 1 ≤ 3 ∧ WF 8 3 [255, 255, 127] ∧ WF 8 3 [5, 0, 0] := by decide

/-- `*` through the trait (citing C02) -/
theorem u_mul_value {w n : Nat} {a b : List Nat} (ha : WF w n a) (hb : WF w n b) (dbg : Bool) :
    (mul_vv (buint w n) dbg a b = .panic ↔
      (dbg = true ∧ ¬ repU (M w n) ((U w a : Int) * (U w b : Int)))) ∧
    (∀ r, mul_vv (buint w n) dbg a b = .ok r →
      WF w n r ∧ (U w r : Int) = wrapU (M w n) ((U w a : Int) * (U w b : Int)) ∧
      (dbg = true → (U w r : Int) = (U w a : Int) * (U w b : Int))) := C02.u_mul ha hb dbg
example : WF 8 3 [200, 7, 255] ∧ WF 8 3 [100, 250, 3] := by decide

/-! ## Neg, Not -/

/-- `-x`, `-&x` and the inherent `BInt::neg` coincide; `!x`, `!&x` and the inherent `not` coincide -/
theorem neg_not_forms (w n : Nat) (dbg : Bool) (a : List Nat) :
    neg_v dbg w a = bintNeg dbg w a ∧ neg_r dbg w a = bintNeg dbg w a ∧
    not_v (buint w n) a = UI.not w a ∧ not_r (buint w n) a = UI.not w a ∧
    not_v (bint w n) a = II.not w a ∧ not_r (bint w n) a = II.not w a :=
  ⟨rfl, rfl, rfl, rfl, rfl, rfl⟩
example : neg_r true 8 [0, 0, 128] = .panic ∧ neg_v false 8 [0, 0, 128] = .ok [0, 0, 128] ∧
    not_r (bint 8 3) [0, 0, 128] = [255, 255, 127] := by decide

/-- value-level reading of unary `-` (citing C01): debug panics exactly for `MIN` -/
theorem neg_value {w n : Nat} {a : List Nat} (hw : 2 ≤ w) (hn : 1 ≤ n) (ha : WF w n a) :
    (neg_v true w a = .panic ↔ ¬ repS (M w n) (-S w a)) ∧
    (∀ r, neg_v true w a = .ok r → WF w n r ∧ S w r = -S w a) ∧
    (∃ r, neg_v false w a = .ok r ∧ WF w n r ∧ S w r = wrapS (M w n) (-S w a)) :=
  ⟨(C01.i_strict_neg hw hn ha).1, (C01.i_strict_neg hw hn ha).2,
   ⟨_, rfl, (C01.i_wrapping_neg hw hn ha).1, (C01.i_wrapping_neg hw hn ha).2⟩⟩
example : 2 ≤ 8 ∧ 1 ≤ 3 ∧ WF 8 3 [0, 0, 128] := by decide

/-! ## Shl / Shr with a primitive amount: "for each of the twelve primitive shift-amount types".
    `t : PrimTy` ranges over u8 … isize, `p < 2^t.bits` is the amount's bit pattern and `t.val p`
    the integer it denotes. -/

/-- the by-reference and `op=` forms are the by-value impl (so `a <<= k` leaves `a << k`) -/
theorem shift_prim_forms (T : Ty) (dbg : Bool) (t : PrimTy) (a : List Nat) (p : Nat) :
    (shl_vr T dbg t a p = shl_vv T dbg t a p ∧ shl_rv T dbg t a p = shl_vv T dbg t a p ∧
     shl_rr T dbg t a p = shl_vv T dbg t a p ∧ shlAssign T dbg t a p = shl_vv T dbg t a p ∧
     shlAssignRef T dbg t a p = shl_vv T dbg t a p) ∧
    (shr_vr T dbg t a p = shr_vv T dbg t a p ∧ shr_rv T dbg t a p = shr_vv T dbg t a p ∧
     shr_rr T dbg t a p = shr_vv T dbg t a p ∧ shrAssign T dbg t a p = shr_vv T dbg t a p ∧
     shrAssignRef T dbg t a p = shr_vv T dbg t a p) :=
  ⟨Ops.shl_forms T dbg t a p, Ops.shr_forms T dbg t a p⟩

/-- `Shl<u32>` / `Shr<u32>` are the inherent `shl(ExpType)` / `shr(ExpType)` verbatim -/
theorem shift_u32 (T : Ty) (dbg : Bool) (a : List Nat) (p : Nat) :
    shl_vv T dbg .u32 a p = T.shl dbg a p ∧ shr_vv T dbg .u32 a p = T.shr dbg a p := ⟨rfl, rfl⟩

/-- every primitive type: a panic in debug builds when the amount does not fit `u32` (negative or
    `≥ 2^32`; impossible for u8/u16/u32), otherwise the inherent `shl`/`shr` on `k mod 2^32`
    (which is `k` itself whenever it fits) -/
theorem shift_prim_eq (T : Ty) (dbg : Bool) (t : PrimTy) (a : List Nat) {p : Nat}
    (hp : p < B t.bits) :
    shl_vv T dbg t a p =
      (if dbg = true ∧ ¬ (0 ≤ t.val p ∧ t.val p < 2 ^ 32) then .panic
       else T.shl dbg a (t.val p % 2 ^ 32).toNat) ∧
    shr_vv T dbg t a p =
      (if dbg = true ∧ ¬ (0 ≤ t.val p ∧ t.val p < 2 ^ 32) then .panic
       else T.shr dbg a (t.val p % 2 ^ 32).toNat) :=
  ⟨shiftPrim_eq dbg t _ hp, shiftPrim_eq dbg t _ hp⟩
example : (0xfd : Nat) < B PrimTy.i8.bits ∧ PrimTy.i8.val 0xfd = -3 ∧
    shl_vv (buint 8 3) true .i8 [1, 0, 0] 0xfd = .panic ∧
    shl_vv (buint 8 3) false .i8 [1, 0, 0] 0xfd = .ok [0, 0, 0x20] := by decide

/-- debug builds (combined with C05): the operator panics iff `k < 0 ∨ k ≥ BITS`, and otherwise is
    the in-range shift by `k` — `x·2^k mod 2^BITS`, resp. `⌊x / 2^k⌋` (`C05.shl_spec`,
    `C05.u_shr_spec`, `C05.i_shr_spec`).  (`BITS ≤ 2^32`: `BITS` is itself a `u32`.) -/
theorem shift_prim_dbg {w : Nat} {a : List Nat} (t : PrimTy) {p : Nat} (hp : p < B t.bits)
    (hB : w * a.length ≤ 2 ^ 32) :
    shl_vv (buint w a.length) true t a p =
      (if 0 ≤ t.val p ∧ t.val p < (w * a.length : Nat) then
        .ok (UI.uncheckedShlInternal w a (t.val p).toNat) else .panic) ∧
    shr_vv (buint w a.length) true t a p =
      (if 0 ≤ t.val p ∧ t.val p < (w * a.length : Nat) then
        .ok (UI.uncheckedShrInternal w a (t.val p).toNat) else .panic) ∧
    shl_vv (bint w a.length) true t a p =
      (if 0 ≤ t.val p ∧ t.val p < (w * a.length : Nat) then
        .ok (UI.uncheckedShlInternal w a (t.val p).toNat) else .panic) ∧
    shr_vv (bint w a.length) true t a p =
      (if 0 ≤ t.val p ∧ t.val p < (w * a.length : Nat) then
        .ok (II.shrVal w a (t.val p).toNat) else .panic) :=
  ⟨shiftPrim_dbg (fun _ h => UI.shl_of_lt true h) (fun _ h => UI.strictShl_of_ge h) hB t hp,
   shiftPrim_dbg (fun _ h => UI.shr_of_lt true h) (fun _ h => UI.strictShr_of_ge h) hB t hp,
   shiftPrim_dbg (fun _ h => II.shl_of_lt true h) (fun _ h => II.strictShl_of_ge h) hB t hp,
   shiftPrim_dbg (fun _ h => II.shr_of_lt true h) (fun _ h => II.strictShr_of_ge h) hB t hp⟩
example : (0xfd : Nat) < B PrimTy.i8.bits ∧ 8 * [1, 0, 0].length ≤ 2 ^ 32 := by decide

/-- release builds: never a panic; the result is `wrapping_shl` / `wrapping_shr` of `k mod 2^32`
    (the `as u32` truncation, two's complement for negative `k`) -/
theorem shift_prim_rel {w n : Nat} (a : List Nat) (t : PrimTy) {p : Nat} (hp : p < B t.bits) :
    shl_vv (buint w n) false t a p = .ok (UI.wrappingShl w a (t.val p % 2 ^ 32).toNat) ∧
    shr_vv (buint w n) false t a p = .ok (UI.wrappingShr w a (t.val p % 2 ^ 32).toNat) ∧
    shl_vv (bint w n) false t a p = .ok (II.wrappingShl w a (t.val p % 2 ^ 32).toNat) ∧
    shr_vv (bint w n) false t a p = .ok (II.wrappingShr w a (t.val p % 2 ^ 32).toNat) :=
  ⟨shiftPrim_rel t _ hp, shiftPrim_rel t _ hp, shiftPrim_rel t _ hp, shiftPrim_rel t _ hp⟩
example : (0xfd : Nat) < B PrimTy.i8.bits := by decide

/-- release builds at a power-of-two width `BITS = 2^j ≤ 2^32` (combined with C05.wrapping_pow2):
    the in-range shift by `k mod BITS` — so `x·2^(k mod BITS) mod 2^BITS` for `<<`,
    `⌊x / 2^(k mod BITS)⌋` for `>>` (sign-propagating on `BInt`) -/
theorem shift_prim_rel_pow2 {w n j : Nat} {a : List Nat} (hw : 1 ≤ w) (hn : 1 ≤ n) (ha : WF w n a)
    (hW : w * n = 2 ^ j) (hj : j ≤ 32) (t : PrimTy) {p : Nat} (hp : p < B t.bits) :
    (t.val p % (w * n : Nat)).toNat < w * n ∧
    shl_vv (buint w n) false t a p
      = .ok (UI.uncheckedShlInternal w a (t.val p % (w * n : Nat)).toNat) ∧
    shr_vv (buint w n) false t a p
      = .ok (UI.uncheckedShrInternal w a (t.val p % (w * n : Nat)).toNat) ∧
    shl_vv (bint w n) false t a p
      = .ok (UI.uncheckedShlInternal w a (t.val p % (w * n : Nat)).toNat) ∧
    shr_vv (bint w n) false t a p = .ok (II.shrVal w a (t.val p % (w * n : Nat)).toNat) ∧
    U w (UI.uncheckedShlInternal w a (t.val p % (w * n : Nat)).toNat)
      = (U w a * 2 ^ (t.val p % (w * n : Nat)).toNat) % M w n ∧
    U w (UI.uncheckedShrInternal w a (t.val p % (w * n : Nat)).toNat)
      = U w a / 2 ^ (t.val p % (w * n : Nat)).toNat ∧
    S w (II.shrVal w a (t.val p % (w * n : Nat)).toNat)
      = Int.fdiv (S w a) (2 ^ (t.val p % (w * n : Nat)).toNat) := by
  -- `(k mod 2^32) mod 2^j = k mod 2^j`
  have hdvd : ((w * n : Nat) : Int) ∣ 2 ^ 32 := by
    rw [hW]; push_cast
    exact pow_dvd_pow 2 hj
  have hpos : (0 : Int) < (w * n : Nat) := by rw [hW]; positivity
  have h0 : 0 ≤ t.val p % 2 ^ 32 := Int.emod_nonneg _ (by norm_num)
  have e : t.val p % 2 ^ 32 % ((w * n : Nat) : Int) = t.val p % ((w * n : Nat) : Int) :=
    Int.emod_emod_of_dvd _ hdvd
  have h1 : 0 ≤ t.val p % ((w * n : Nat) : Int) := Int.emod_nonneg _ (by omega)
  have h2 : t.val p % ((w * n : Nat) : Int) < (w * n : Nat) := Int.emod_lt_of_pos _ hpos
  have hs : (t.val p % 2 ^ 32).toNat % (w * a.length) = (t.val p % (w * n : Nat)).toNat := by
    rw [ha.1]
    apply Int.natCast_inj.mp
    rw [Int.natCast_mod, Int.toNat_of_nonneg h0, Int.toNat_of_nonneg h1, e]
  have hlt : (t.val p % (w * n : Nat)).toNat < w * n := by omega
  obtain ⟨r1, r2, r3, r4⟩ := shift_prim_rel (w := w) (n := n) a t hp
  obtain ⟨e1, e2, e3, e4⟩ :=
    C05.wrapping_pow2 (s := (t.val p % 2 ^ 32).toNat) (a := a) (w := w) (k := j) (by rw [ha.1]; exact hW)
  rw [hs] at e1 e2 e3 e4
  exact ⟨hlt, by rw [r1, e1], by rw [r2, e2], by rw [r3, e3], by rw [r4, e4],
    (C05.shl_spec hw ha hlt).2, (C05.u_shr_spec hw ha hlt).2, (C05.i_shr_spec hw hn ha hlt).2⟩
example : 1 ≤ 8 ∧ 1 ≤ 4 ∧ WF 8 4 [1, 2, 3, 4] ∧ 8 * 4 = 2 ^ 5 ∧ 5 ≤ 32 := by decide

/-! ### `usize` / `isize` amounts on 16- and 32-bit targets.  `Ops.shiftPrim` (and every theorem above)
    fixes the two pointer-sized types at 64 bits, the target the harness runs on.  `Ops.shiftPrimAt pw`
    (Model/C17Extra.lean) is the same macro text on a target with `pw`-bit pointers; the
    characterisation is the same for every pointer width Rust supports. -/

/-- at `pw = 64` the parametrised impl IS the one all other theorems are about -/
theorem shift_prim_at_64 (T : Ty) (dbg : Bool) (t : PrimTy) (a : List Nat) (p : Nat) :
    shiftPrimAt 64 dbg t (T.shl dbg a) p = shl_vv T dbg t a p ∧
    shiftPrimAt 64 dbg t (T.shr dbg a) p = shr_vv T dbg t a p ∧
    t.valAt 64 p = t.val p ∧ t.bitsAt 64 = t.bits :=
  ⟨shiftPrimAt_64 dbg t _ p, shiftPrimAt_64 dbg t _ p, valAt_64 t p, bitsAt_64 t⟩

/-- `shift_prim_eq` for 16-, 32- and 64-bit pointers: a panic in debug builds when the amount does
    not fit `u32`, otherwise the inherent `shl`/`shr` on `k mod 2^32` -/
theorem shift_prim_at_eq {pw : Nat} (hpw : pw = 16 ∨ pw = 32 ∨ pw = 64) (T : Ty) (dbg : Bool)
    (t : PrimTy) (a : List Nat) {p : Nat} (hp : p < B (t.bitsAt pw)) :
    shiftPrimAt pw dbg t (T.shl dbg a) p =
      (if dbg = true ∧ ¬ (0 ≤ t.valAt pw p ∧ t.valAt pw p < 2 ^ 32) then .panic
       else T.shl dbg a (t.valAt pw p % 2 ^ 32).toNat) ∧
    shiftPrimAt pw dbg t (T.shr dbg a) p =
      (if dbg = true ∧ ¬ (0 ≤ t.valAt pw p ∧ t.valAt pw p < 2 ^ 32) then .panic
       else T.shr dbg a (t.valAt pw p % 2 ^ 32).toNat) :=
  ⟨shiftPrimAt_eq hpw dbg t _ hp, shiftPrimAt_eq hpw dbg t _ hp⟩
example : (32 = 16 ∨ 32 = 32 ∨ 32 = 64) ∧ (0xfffffffd : Nat) < B (PrimTy.isize.bitsAt 32) ∧
    PrimTy.isize.valAt 32 0xfffffffd = -3 ∧
    shiftPrimAt 32 true .isize ((buint 8 3).shl true [1, 0, 0]) 0xfffffffd = .panic ∧
    shiftPrimAt 32 false .isize ((buint 8 3).shl false [1, 0, 0]) 0xfffffffd = .ok [0, 0, 0x20] := by
  decide

/-- on a 16- or 32-bit target every `usize` fits `u32`: `x << k` with `k : usize` is the inherent
    `shl(k)` in both build modes (the debug-build `try_from` never fails there) -/
theorem shift_prim_usize_small {pw : Nat} (hpw : pw = 16 ∨ pw = 32) (T : Ty) (dbg : Bool)
    (a : List Nat) {p : Nat} (hp : p < B pw) :
    shiftPrimAt pw dbg .usize (T.shl dbg a) p = T.shl dbg a p ∧
    shiftPrimAt pw dbg .usize (T.shr dbg a) p = T.shr dbg a p :=
  ⟨shiftPrimAt_usize_small hpw dbg _ hp, shiftPrimAt_usize_small hpw dbg _ hp⟩
example : (32 = 16 ∨ 32 = 32) ∧ (0xffffffff : Nat) < B 32 ∧
    shiftPrimAt 32 true .usize ((buint 8 3).shl true [1, 0, 0]) 0xffffffff = .panic ∧
    shiftPrimAt 32 true .usize ((buint 8 3).shl true [1, 0, 0]) 5 = .ok [32, 0, 0] := by decide

/-! ## Shl / Shr with an amount of type `BUint<M>` / `BInt<M>` ("bnum-typed amounts below BITS").
    `ks = false`: `BUint` amount (value `U w k`), `ks = true`: `BInt` amount (value `S w k`);
    `valOf ks w k` is that value.  The conversion is the crate's `TryFrom<…> for u32` (C13), so the
    digit width must be one for which that impl is meaningful: `w ∣ 32` or `w > 32`
    (u8, u16, u32, u64 all qualify). -/

theorem shift_bnum_forms (T : Ty) (dbg ks : Bool) (a k : List Nat) :
    (shlB_vr T dbg ks a k = shlB_vv T dbg ks a k ∧ shlB_rv T dbg ks a k = shlB_vv T dbg ks a k ∧
     shlB_rr T dbg ks a k = shlB_vv T dbg ks a k ∧ shlBAssign T dbg ks a k = shlB_vv T dbg ks a k ∧
     shlBAssignRef T dbg ks a k = shlB_vv T dbg ks a k) ∧
    (shrB_vr T dbg ks a k = shrB_vv T dbg ks a k ∧ shrB_rv T dbg ks a k = shrB_vv T dbg ks a k ∧
     shrB_rr T dbg ks a k = shrB_vv T dbg ks a k ∧ shrBAssign T dbg ks a k = shrB_vv T dbg ks a k ∧
     shrBAssignRef T dbg ks a k = shrB_vv T dbg ks a k) :=
  ⟨Ops.shlB_forms T dbg ks a k, Ops.shrB_forms T dbg ks a k⟩

/-- in BOTH build modes: a panic iff the amount is negative or `≥ 2^32`, otherwise the inherent
    `shl` / `shr` on the amount -/
theorem shift_bnum_eq (T : Ty) (dbg ks : Bool) (a : List Nat) {m : Nat} {k : List Nat}
    (hw : 1 ≤ T.w) (hm : 1 ≤ m) (hdiv : 32 < T.w ∨ ∃ c, 32 = c * T.w) (hk : WF T.w m k) :
    shlB_vv T dbg ks a k =
      (if 0 ≤ valOf ks T.w k ∧ valOf ks T.w k < 2 ^ 32 then T.shl dbg a (valOf ks T.w k).toNat
       else .panic) ∧
    shrB_vv T dbg ks a k =
      (if 0 ≤ valOf ks T.w k ∧ valOf ks T.w k < 2 ^ 32 then T.shr dbg a (valOf ks T.w k).toNat
       else .panic) :=
  ⟨shiftBnum_eq ks _ hw hm hdiv hk, shiftBnum_eq ks _ hw hm hdiv hk⟩
example : 1 ≤ (buint 8 3).w ∧ 1 ≤ 3 ∧ (∃ c, 32 = c * (buint 8 3).w) ∧ WF (buint 8 3).w 3 [5, 0, 0] ∧
    shlB_vv (buint 8 3) true false [1, 0, 0] [5, 0, 0] = .ok [32, 0, 0] ∧
    shlB_vv (buint 8 3) false true [1, 0, 0] [255, 255, 255] = .panic := by
  refine ⟨by decide, by decide, ⟨4, by decide⟩, by decide, by decide, by decide⟩
/-- the amount's digit count `m` is independent of the operand's (`impl<const N, const M> Shl<BUint<M>>
    for BUint<N>`): a one-digit and a five-digit amount on a three-digit operand -/
example : WF (bint 8 3).w 1 [9] ∧ WF (bint 8 3).w 5 [9, 0, 0, 0, 1] ∧
    shlB_vv (bint 8 3) true false [1, 0, 0] [9] = .ok [0, 2, 0] ∧
    shrB_vv (bint 8 3) false true [0, 0, 0x80] [9] = .ok [0, 0xc0, 0xff] ∧
    shlB_vv (bint 8 3) false false [1, 0, 0] [9, 0, 0, 0, 1] = .panic := by decide

/-- "bnum-typed amounts below BITS": the operator is the inherent `shl`/`shr` on the same amount,
    in either build mode; with C05 this is the in-range shift itself -/
theorem shift_bnum_below {w m : Nat} (dbg ks : Bool) {a k : List Nat} (hw : 1 ≤ w) (hm : 1 ≤ m)
    (hdiv : 32 < w ∨ ∃ c, 32 = c * w) (hk : WF w m k) (hB : w * a.length ≤ 2 ^ 32)
    (h0 : 0 ≤ valOf ks w k) (hlt : valOf ks w k < (w * a.length : Nat)) :
    shlB_vv (buint w a.length) dbg ks a k = UI.shl dbg w a (valOf ks w k).toNat ∧
    shrB_vv (buint w a.length) dbg ks a k = UI.shr dbg w a (valOf ks w k).toNat ∧
    shlB_vv (bint w a.length) dbg ks a k = II.shl dbg w a (valOf ks w k).toNat ∧
    shrB_vv (bint w a.length) dbg ks a k = II.shr dbg w a (valOf ks w k).toNat ∧
    UI.shl dbg w a (valOf ks w k).toNat = .ok (UI.uncheckedShlInternal w a (valOf ks w k).toNat) ∧
    UI.shr dbg w a (valOf ks w k).toNat = .ok (UI.uncheckedShrInternal w a (valOf ks w k).toNat) ∧
    II.shl dbg w a (valOf ks w k).toNat = .ok (UI.uncheckedShlInternal w a (valOf ks w k).toNat) ∧
    II.shr dbg w a (valOf ks w k).toNat = .ok (II.shrVal w a (valOf ks w k).toNat) := by
  have hs : (valOf ks w k).toNat < w * a.length := by omega
  exact ⟨shiftBnum_below ks _ hw hm hdiv hk hB h0 hlt, shiftBnum_below ks _ hw hm hdiv hk hB h0 hlt,
    shiftBnum_below ks _ hw hm hdiv hk hB h0 hlt, shiftBnum_below ks _ hw hm hdiv hk hB h0 hlt,
    UI.shl_of_lt dbg hs, UI.shr_of_lt dbg hs, II.shl_of_lt dbg hs, II.shr_of_lt dbg hs⟩
example : 1 ≤ 8 ∧ 1 ≤ 3 ∧ (∃ c, 32 = c * 8) ∧ WF 8 3 [23, 0, 0] ∧ 8 * [1, 0, 0].length ≤ 2 ^ 32 ∧
    0 ≤ valOf true 8 [23, 0, 0] ∧ valOf true 8 [23, 0, 0] < (8 * [1, 0, 0].length : Nat) := by
  refine ⟨by decide, by decide, ⟨4, by decide⟩, by decide, by decide, by decide, by decide⟩

/-! ## Sum / Product: "equal the left fold with + and * from ZERO and ONE" -/

/-- `Sum<Self>`, `Sum<&Self>`, `Product<Self>`, `Product<&Self>` are the left folds of the
    inherent `add` / `mul` from `ZERO` / `ONE`, including the panic outcome (`Ops.foldO` stops at
    the first panicking step, as unwinding out of `Iterator::fold` does) -/
theorem sum_product_fold (T : Ty) (dbg : Bool) (xs : List (List Nat)) :
    sum T dbg xs = foldO (T.add dbg) T.zero xs ∧ sumRef T dbg xs = foldO (T.add dbg) T.zero xs ∧
    product T dbg xs = foldO (T.mul dbg) T.one xs ∧
    productRef T dbg xs = foldO (T.mul dbg) T.one xs := ⟨rfl, rfl, rfl, rfl⟩

/-- the empty iterator: `ZERO` resp. `ONE`; one more element: one more `+` / `*` on the left fold -/
theorem sum_product_nil (T : Ty) (dbg : Bool) :
    sum T dbg [] = .ok T.zero ∧ product T dbg [] = .ok T.one := ⟨rfl, rfl⟩
example : sum (buint 8 2) true [[255, 0], [1, 0], [0, 255]] = .panic ∧
    sum (buint 8 2) false [[255, 0], [1, 0], [0, 255]] = .ok [0, 0] ∧
    productRef (bint 8 2) true [[255, 255], [3, 0], [254, 255]] = .ok [6, 0] := by decide

/-- release builds: literally `foldl wrapping_add ZERO` / `foldl wrapping_mul ONE`, with value the
    exact sum / product reduced mod `2^BITS` (both signednesses share the pattern) -/
theorem sum_product_rel {w n : Nat} (hw : 1 ≤ w) (hn : 1 ≤ n) (xs : List (List Nat))
    (hxs : ∀ x ∈ xs, WF w n x) :
    (∃ r, sum (buint w n) false xs = .ok r ∧ sum (bint w n) false xs = .ok r ∧
      r = xs.foldl (UI.wrappingAdd w) (zero n) ∧ WF w n r ∧
      U w r = (xs.map (U w)).sum % M w n) ∧
    (∃ r, product (buint w n) false xs = .ok r ∧ product (bint w n) false xs = .ok r ∧
      r = xs.foldl (UI.wrappingMul w) (one n) ∧ WF w n r ∧
      U w r = (xs.map (U w)).prod % M w n) := by
  obtain ⟨a1, a2⟩ := foldl_wrappingAdd_spec xs hxs (zero n) (WF_zero w n)
  obtain ⟨m1, m2⟩ := foldl_wrappingMul_spec xs hxs (one n) (WF_one hw hn)
  rw [U_zero, Nat.zero_add] at a2
  rw [U_one hn, Nat.one_mul] at m2
  exact ⟨⟨_, u_sum_rel_foldl w n xs, i_sum_rel_foldl w n xs, rfl, a1, a2⟩,
    ⟨_, u_product_rel_foldl w n xs, i_product_rel_foldl w n xs, rfl, m1, m2⟩⟩
example : 1 ≤ 8 ∧ 1 ≤ 2 ∧ ∀ x ∈ [[255, 0], [1, 0], [0, 255]], WF 8 2 x := by decide

/-- debug builds, unsigned `Sum`: the exact sum when it is representable, a panic otherwise -/
theorem u_sum_dbg {w n : Nat} (xs : List (List Nat)) (hxs : ∀ x ∈ xs, WF w n x) :
    ((xs.map (U w)).sum < M w n →
      ∃ r, sum (buint w n) true xs = .ok r ∧ WF w n r ∧ U w r = (xs.map (U w)).sum) ∧
    (M w n ≤ (xs.map (U w)).sum → sum (buint w n) true xs = .panic) := Ops.u_sum_dbg xs hxs
example : (∀ x ∈ [[255, 0], [1, 0], [0, 254]], WF 8 2 x) ∧
    ([[255, 0], [1, 0], [0, 254]].map (U 8)).sum < M 8 2 := by decide

/-- debug builds, all four of `Sum`/`Product` × `BUint`/`BInt`: `Ops.prefixVal op val z xs k` is the
    exact (`Int`) result of the first `k` steps of the left fold from `z`.  The trait returns the exact
    total (`prefix_total`) when every prefix `1 ≤ k ≤ len` is representable, and panics as soon as one
    is not — exactly the panic outcome of the fold of the panicking inherent `+` / `*`. -/
theorem sum_product_dbg {w n : Nat} (hw : 2 ≤ w) (hn : 1 ≤ n) (xs : List (List Nat))
    (hxs : ∀ x ∈ xs, WF w n x) :
    (((∀ k, 1 ≤ k → k ≤ xs.length →
          repU (M w n) (prefixVal (· + ·) (fun x => (U w x : Int)) 0 xs k)) →
        ∃ r, sum (buint w n) true xs = .ok r ∧ WF w n r ∧
          (U w r : Int) = prefixVal (· + ·) (fun x => (U w x : Int)) 0 xs xs.length) ∧
      ((∃ k, 1 ≤ k ∧ k ≤ xs.length ∧
          ¬ repU (M w n) (prefixVal (· + ·) (fun x => (U w x : Int)) 0 xs k)) →
        sum (buint w n) true xs = .panic)) ∧
    (((∀ k, 1 ≤ k → k ≤ xs.length → repS (M w n) (prefixVal (· + ·) (S w) 0 xs k)) →
        ∃ r, sum (bint w n) true xs = .ok r ∧ WF w n r ∧
          S w r = prefixVal (· + ·) (S w) 0 xs xs.length) ∧
      ((∃ k, 1 ≤ k ∧ k ≤ xs.length ∧ ¬ repS (M w n) (prefixVal (· + ·) (S w) 0 xs k)) →
        sum (bint w n) true xs = .panic)) ∧
    (((∀ k, 1 ≤ k → k ≤ xs.length →
          repU (M w n) (prefixVal (· * ·) (fun x => (U w x : Int)) 1 xs k)) →
        ∃ r, product (buint w n) true xs = .ok r ∧ WF w n r ∧
          (U w r : Int) = prefixVal (· * ·) (fun x => (U w x : Int)) 1 xs xs.length) ∧
      ((∃ k, 1 ≤ k ∧ k ≤ xs.length ∧
          ¬ repU (M w n) (prefixVal (· * ·) (fun x => (U w x : Int)) 1 xs k)) →
        product (buint w n) true xs = .panic)) ∧
    (((∀ k, 1 ≤ k → k ≤ xs.length → repS (M w n) (prefixVal (· * ·) (S w) 1 xs k)) →
        ∃ r, product (bint w n) true xs = .ok r ∧ WF w n r ∧
          S w r = prefixVal (· * ·) (S w) 1 xs xs.length) ∧
      ((∃ k, 1 ≤ k ∧ k ≤ xs.length ∧ ¬ repS (M w n) (prefixVal (· * ·) (S w) 1 xs k)) →
        product (bint w n) true xs = .panic)) :=
  ⟨u_sum_dbg_prefix xs hxs, i_sum_dbg_prefix hw hn xs hxs,
   u_product_dbg_prefix (by omega) hn xs hxs, i_product_dbg_prefix hw hn xs hxs⟩
example : 2 ≤ 8 ∧ 1 ≤ 2 ∧ (∀ x ∈ [[255, 255], [3, 0], [254, 255]], WF 8 2 x) ∧
    (∀ k ∈ [1, 2, 3],
      repS (M 8 2) (prefixVal (· * ·) (S 8) 1 [[255, 255], [3, 0], [254, 255]] k)) ∧
    ¬ repU (M 8 2)
      (prefixVal (· + ·) (fun x => (U 8 x : Int)) 0 [[255, 255], [3, 0], [254, 255]] 2) := by
  decide

/-- the last prefix is the exact total sum / product -/
theorem prefix_total (val : List Nat → Int) (xs : List (List Nat)) :
    prefixVal (· + ·) val 0 xs xs.length = (xs.map val).sum ∧
    prefixVal (· * ·) val 1 xs xs.length = (xs.map val).prod := prefixVal_total val xs

/-! ## Default -/

/-- `Default::default()` is `ZERO` (value 0) -/
theorem default_zero (w n : Nat) :
    default (buint w n) = zero n ∧ default (bint w n) = zero n ∧
    WF w n (default (buint w n)) ∧ U w (default (buint w n)) = 0 ∧ S w (default (bint w n)) = 0 := by
  refine ⟨rfl, rfl, WF_zero w n, U_zero w n, ?_⟩
  show S w (zero n) = 0
  unfold S; rw [U_zero]; unfold toInt; simp [M_pos]
example : default (bint 8 3) = [0, 0, 0] := by decide

/-! ## PartialEq / Eq / PartialOrd / Ord -/

/-- `partial_cmp`, `Ord::cmp`, `<`, `<=`, `>`, `>=` are the inherent `cmp` (resp. the inherent
    `lt`/`le`/`gt`/`ge` built on it); value-level meaning: C07 -/
theorem cmp_forms (w n : Nat) (a b : List Nat) :
    (partialCmp (buint w n) a b = some (UI.cmp a b) ∧ ordCmp (buint w n) a b = UI.cmp a b ∧
     opLt (buint w n) a b = CmpImpl.lt UI.cmp a b ∧ opLe (buint w n) a b = CmpImpl.le UI.cmp a b ∧
     opGt (buint w n) a b = CmpImpl.gt UI.cmp a b ∧ opGe (buint w n) a b = CmpImpl.ge UI.cmp a b) ∧
    (partialCmp (bint w n) a b = some (II.cmp w a b) ∧ ordCmp (bint w n) a b = II.cmp w a b ∧
     opLt (bint w n) a b = CmpImpl.lt (II.cmp w) a b ∧
     opLe (bint w n) a b = CmpImpl.le (II.cmp w) a b ∧
     opGt (bint w n) a b = CmpImpl.gt (II.cmp w) a b ∧
     opGe (bint w n) a b = CmpImpl.ge (II.cmp w) a b) :=
  ⟨Ops.cmp_forms _ a b, Ops.cmp_forms _ a b⟩

/-- with C07: the trait comparisons compare the denoted integers -/
theorem cmp_value {w n : Nat} (hw : 1 ≤ w) (hn : 1 ≤ n) {a b : List Nat}
    (ha : WF w n a) (hb : WF w n b) :
    partialCmp (buint w n) a b = some (compare (U w a) (U w b)) ∧
    ordCmp (buint w n) a b = compare (U w a) (U w b) ∧
    partialCmp (bint w n) a b = some (compare (S w a) (S w b)) ∧
    ordCmp (bint w n) a b = compare (S w a) (S w b) :=
  ⟨C07.u_partial_cmp_spec ha hb, C07.u_cmp_spec ha hb, C07.i_partial_cmp_spec hw hn ha hb,
   C07.i_cmp_spec hw hn ha hb⟩
example : 1 ≤ 8 ∧ 1 ≤ 2 ∧ WF 8 2 [0xff, 0x80] ∧ WF 8 2 [0x00, 0x7f] := by decide

/-- `Ord::max`, `Ord::min`, `Ord::clamp` are OVERRIDDEN in `{buint,bint}/cmp.rs` (core's provided
    bodies are not used): each is the inherent `const fn` of `int/cmp.rs` on the same operands — same
    value, and for `clamp` the same panic outcome -/
theorem ord_forms (w n : Nat) (a b mn mx : List Nat) :
    (ordMax (buint w n) a b = CmpImpl.max UI.cmp a b ∧ ordMin (buint w n) a b = CmpImpl.min UI.cmp a b ∧
     ordClamp (buint w n) a mn mx = CmpImpl.clamp UI.cmp a mn mx ∧
     (buint w n).max a b = CmpImpl.max UI.cmp a b ∧ (buint w n).min a b = CmpImpl.min UI.cmp a b ∧
     (buint w n).clamp a mn mx = CmpImpl.clamp UI.cmp a mn mx) ∧
    (ordMax (bint w n) a b = CmpImpl.max (II.cmp w) a b ∧
     ordMin (bint w n) a b = CmpImpl.min (II.cmp w) a b ∧
     ordClamp (bint w n) a mn mx = CmpImpl.clamp (II.cmp w) a mn mx ∧
     (bint w n).max a b = CmpImpl.max (II.cmp w) a b ∧ (bint w n).min a b = CmpImpl.min (II.cmp w) a b ∧
     (bint w n).clamp a mn mx = CmpImpl.clamp (II.cmp w) a mn mx) :=
  ⟨⟨rfl, rfl, rfl, rfl, rfl, rfl⟩, ⟨rfl, rfl, rfl, rfl, rfl, rfl⟩⟩

/-- the same, once over the shared macro text: trait method = inherent twin -/
theorem ord_eq_inherent (T : Ty) (a b mn mx : List Nat) :
    ordMax T a b = T.max a b ∧ ordMin T a b = T.min a b ∧ ordClamp T a mn mx = T.clamp a mn mx :=
  ⟨rfl, rfl, rfl⟩
example : ordMax (bint 8 2) [0xff, 0x80] [0x00, 0x7f] = [0x00, 0x7f] ∧
    ordMax (buint 8 2) [0xff, 0x80] [0x00, 0x7f] = [0xff, 0x80] ∧
    ordMin (bint 8 2) [0xff, 0x80] [0x00, 0x7f] = [0xff, 0x80] ∧
    ordClamp (bint 8 2) [7, 0] [0xff, 0xff] [3, 0] = .ok [3, 0] ∧
    ordClamp (buint 8 2) [7, 0] [0xff, 0xff] [3, 0] = .panic := by decide

/-- with C07: `Ord::max` / `Ord::min` return the operand denoting the larger / smaller integer
    (the second operand on a tie, resp. the first — as `core::cmp::Ord` documents) -/
theorem ord_max_min_value {w n : Nat} (hw : 1 ≤ w) (hn : 1 ≤ n) {a b : List Nat}
    (ha : WF w n a) (hb : WF w n b) :
    (ordMax (buint w n) a b = (if U w a ≤ U w b then b else a) ∧
     U w (ordMax (buint w n) a b) = max (U w a) (U w b)) ∧
    (ordMin (buint w n) a b = (if U w a ≤ U w b then a else b) ∧
     U w (ordMin (buint w n) a b) = min (U w a) (U w b)) ∧
    (ordMax (bint w n) a b = (if S w a ≤ S w b then b else a) ∧
     S w (ordMax (bint w n) a b) = max (S w a) (S w b)) ∧
    (ordMin (bint w n) a b = (if S w a ≤ S w b then a else b) ∧
     S w (ordMin (bint w n) a b) = min (S w a) (S w b)) :=
  ⟨C07.u_max_spec ha hb, C07.u_min_spec ha hb, C07.i_max_spec hw hn ha hb,
   C07.i_min_spec hw hn ha hb⟩
example : 1 ≤ 8 ∧ 1 ≤ 2 ∧ WF 8 2 [0xff, 0x80] ∧ WF 8 2 [0x00, 0x7f] := by decide

/-- with C07: `Ord::clamp` panics exactly when `min > max` (as integers) and otherwise denotes the
    mathematical clamp -/
theorem ord_clamp_value {w n : Nat} (hw : 1 ≤ w) (hn : 1 ≤ n) {a mn mx : List Nat}
    (ha : WF w n a) (hmn : WF w n mn) (hmx : WF w n mx) :
    ((ordClamp (buint w n) a mn mx = .panic ↔ U w mx < U w mn) ∧
     (U w mn ≤ U w mx → ∃ r, ordClamp (buint w n) a mn mx = .ok r ∧ WF w n r ∧
       U w r = max (U w mn) (min (U w mx) (U w a)))) ∧
    ((ordClamp (bint w n) a mn mx = .panic ↔ S w mx < S w mn) ∧
     (S w mn ≤ S w mx → ∃ r, ordClamp (bint w n) a mn mx = .ok r ∧ WF w n r ∧
       S w r = max (S w mn) (min (S w mx) (S w a)))) :=
  ⟨C07.u_clamp_spec ha hmn hmx, C07.i_clamp_spec hw hn ha hmn hmx⟩
example : 1 ≤ 8 ∧ 1 ≤ 2 ∧ WF 8 2 [7, 0] ∧ WF 8 2 [0xff, 0xff] ∧ WF 8 2 [3, 0] ∧
    S 8 [0xff, 0xff] ≤ S 8 [3, 0] ∧ U 8 [3, 0] < U 8 [0xff, 0xff] := by decide

/-- the derived `==` / `!=` agree with the inherent `eq` / `ne` (on operands of the same type) -/
theorem eq_forms {w n : Nat} {a b : List Nat} (ha : WF w n a) (hb : WF w n b) :
    opEq a b = UI.eq a b ∧ opEq a b = II.eq a b ∧ opNe a b = UI.ne a b ∧ opNe a b = II.ne a b :=
  opEq_eq_inherent (by rw [ha.1, hb.1])
example : WF 8 2 [0xff, 0x01] ∧ WF 8 2 [0xfe, 0x01] := by decide

/-! ## FromStr -/

/-- `str::parse` / `FromStr::from_str` is the inherent `from_str_radix(src, 10)` (C15 for its meaning) -/
theorem from_str (w n : Nat) (src : List Nat) :
    fromStr (buint w n) src = UI.fromStrRadix w n src 10 ∧
    fromStr (bint w n) src = II.fromStrRadix w n src 10 := ⟨rfl, rfl⟩

/-! ## digit-operand forms `BUint + digit`, `BUint / digit`, `BUint % digit` -/

/-- `a + d` never panics; its value is `(a + d) mod 2^BITS`, so it is the exact sum whenever that is
    representable.  (Unlike `a + b` it does NOT panic on overflow in debug builds — it wraps
    silently in both modes; the property only claims the representable case.) -/
theorem add_digit {w n d : Nat} {a : List Nat} (hn : 1 ≤ n) (ha : WF w n a) (hd : d < B w) :
    (∃ r, addDigit w a d = .ok r ∧ WF w n r ∧ U w r = (U w a + d) % M w n) ∧
    (U w a + d < M w n → ∃ r, addDigit w a d = .ok r ∧ WF w n r ∧ U w r = U w a + d) :=
  ⟨addDigit_spec hn ha hd, addDigit_exact hn ha hd⟩
example : 1 ≤ 3 ∧ WF 8 3 [255, 255, 3] ∧ 200 < B 8 ∧ U 8 [255, 255, 3] + 200 < M 8 3 ∧
    addDigit 8 [255, 255, 3] 200 = .ok [199, 0, 4] ∧
    addDigit 8 [255, 255, 255] 200 = .ok [199, 0, 0] := by decide

/-- in the representable case `a + d` agrees with the inherent `a.add(BUint::from_digit(d))`, in
    either build mode -/
theorem add_digit_eq_add {w n d : Nat} {a : List Nat} (hn : 1 ≤ n) (ha : WF w n a)
    (hd : d < B w) (hrep : U w a + d < M w n) (dbg : Bool) :
    addDigit w a d = UI.add dbg w a (fromDigit n d) := by
  obtain ⟨r, h1, h2, h3⟩ := addDigit_exact hn ha hd hrep
  have hf : WF w n (fromDigit n d) := WF_fromDigit hn hd
  have hu : U w (fromDigit n d) = d := U_fromDigit d hn
  have hrepU : repU (M w n) ((U w a : Int) + U w (fromDigit n d)) := by
    rw [hu]; unfold repU; constructor <;> omega
  rw [h1]
  cases dbg
  · obtain ⟨g1, g2⟩ := C01.u_wrapping_add ha hf
    show _ = Outcome.ok (UI.wrappingAdd w a (fromDigit n d))
    congr 1
    apply U_injective h2 g1
    have : (U w (UI.wrappingAdd w a (fromDigit n d)) : Int) = U w a + d := by
      rw [g2, wrapU_of_rep hrepU, hu]
    omega
  · obtain ⟨s1, s2⟩ := C01.u_strict_add ha hf
    show _ = UI.strictAdd w a (fromDigit n d)
    cases hr : UI.strictAdd w a (fromDigit n d) with
    | panic => exact absurd hrepU (s1.mp hr)
    | ok r' =>
      obtain ⟨g1, g2⟩ := s2 r' hr
      congr 1
      apply U_injective h2 g1
      rw [hu] at g2; omega
example : 1 ≤ 3 ∧ WF 8 3 [255, 255, 3] ∧ 200 < B 8 ∧ U 8 [255, 255, 3] + 200 < M 8 3 := by decide

/-- `a / d`, `a % d` (from the C03 `div_rem_digit` specification): floor quotient and remainder for
    `d ≠ 0`; both panic iff `d = 0` -/
theorem div_rem_digit {w n d : Nat} {a : List Nat} (hn : 1 ≤ n) (hd : d < B w) (ha : WF w n a) :
    (0 < d → (∃ q, divDigit w a d = .ok q ∧ WF w n q ∧ U w q = U w a / d) ∧
      remDigit w a d = .ok (U w a % d)) ∧
    (divDigit w a d = .panic ↔ d = 0) ∧ (remDigit w a d = .panic ↔ d = 0) :=
  ⟨fun h => divRemDigit_forms h hd ha, (divRemDigit_panic_iff hn hd ha).1,
   (divRemDigit_panic_iff hn hd ha).2⟩
example : 1 ≤ 3 ∧ 10 < B 8 ∧ WF 8 3 [255, 255, 3] ∧
    divDigit 8 [255, 255, 3] 10 = .ok [102, 102, 0] ∧ remDigit 8 [255, 255, 3] 10 = .ok 3 ∧
    divDigit 8 [255, 255, 3] 0 = .panic := by decide

/-- they are the two projections of the inherent `div_rem_digit` -/
theorem div_rem_digit_inherent (w : Nat) (a : List Nat) (d : Nat) :
    divDigit w a d = (UI.divRemDigit w a d).map (·.1) ∧
    remDigit w a d = (UI.divRemDigit w a d).map (·.2) := ⟨rfl, rfl⟩

end Bnum.C17
