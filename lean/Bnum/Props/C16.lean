/-
  Bnum.Props.C16 — property C16:

  "For every bit width that can be built from more than one digit type, every operation gives the
   same result (after an As cast between the representations) whichever digit type is used, and
   zero- or sign-extending the operands into a wider bnum integer commutes with every value-level
   operation (add, sub, mul, div, rem, pow, left shift, comparison, decimal parsing and printing)
   whose exact result is representable in the narrower type. For every digit type and N the
   associated constants denote the advertised values: BITS = N x digit bits, BYTES = BITS/8, MIN,
   MAX, ZERO, ONE..TEN, NEG_ONE..NEG_TEN, and the aliases U128..U8192 / I128..I8192 have exactly the
   named widths."

  This is a cross-cutting corollary of C01–C03, C05–C15, C18, C19: every specification theorem proved there has
  a right-hand side that mentions only the total width `W = w·n` (through `M w n = 2^(w·n)`) and the
  VALUES of the operands, never the digits.

  Notation.  Two configurations `(w₁, n₁)`, `(w₂, n₂)` (digit bits, digit count).
    `Indep.Cfgs w₁ n₁ w₂ n₂`  : `2 ≤ wᵢ`, `1 ≤ nᵢ`, `w₁·n₁ = w₂·n₂`  (same width, two digit types)
    `Indep.Ext  w₁ n₁ w₂ n₂`  : `2 ≤ wᵢ`, `1 ≤ nᵢ`, `w₁·n₁ ≤ w₂·n₂`  (the second type is wider)
    `Indep.SameU … a₁ a₂`     : `a₁`, `a₂` well formed, `U w₁ a₁ = U w₂ a₂`
    `Indep.SameS … a₁ a₂`     : `a₁`, `a₂` well formed, `S w₁ a₁ = S w₂ a₂`
  `SameU`/`SameS` is exactly "`a₂` is the `As` cast of `a₁`" (zero- or sign-extension; §1), so the
  statements below read: *cast the operands, operate, and you get the cast of the result*.
    `EqU w₁ w₂ r₁ r₂` / `EqS` : results of equal value;   `PairRel R` : `R` on `.0`, equal flag `.1`;
    `OptRel R` : both `None` or both `Some` with `R`;     `OutRel R`  : both panic or both return, `R`.
  When the results are well formed (every spec theorem says so) `EqU`/`EqS` ⇒ the `As` cast of `r₁`
  is `r₂` (`result_is_cast`).

  §1  operands: `SameU`/`SameS` ⇔ `As` cast (`sameU_iff_cast`, `sameS_iff_cast`, `result_is_cast`)   (C09)
  §2  (i)  digit-type independence: one theorem per operation family `indep_*`, listing every form
           (C01 add/sub/neg/abs/…, C02 mul, C03 div/rem incl. zero divisor and `MIN / -1`, C05 shifts and
           rotations for every amount, C06 bit operations, C07 comparisons/sign, C08 pow/ilog,
           C10 parsing, C11 printing), and the one-line-per-function table `op_digit_independent`
           (197 functions).
  §3  (ii) extension: `ext_u_arith`, `ext_i_arith`, `ext_pow`, `ext_u_div`, `ext_i_div`, `ext_shl`,
           `ext_cmp_print`, `ext_u_parse`, `ext_i_parse`; summary `op_extend_commutes`.
  §4  (iii) constants: `bits_bytes`, `u_min_max_zero`, `u_one_to_ten`, `i_min_max_zero`,
           `i_one_to_ten`, `consts_real`, `small_width_counterexamples`, `byName_spec`  (Model/Consts.lean)
  §5  (iv) alias table: `aliases_widths`, `aliases_names`, `aliases_complete`, `aliases_spec`, and
           `aliases_generated` (the model's table = the table re-read from `src/types.rs` on every run)
  §6  (i, continued) the operations outside C01–C11: `indep_fmt` (C12, all eight traits), `indep_slices`,
           `indep_to_bytes`, `indep_from_bytes`, `indep_to_be` (C15), `indep_to_prim` (`as` C09, `TryFrom` C13,
           `ToPrimitive`/`AsPrimitive` C19), `indep_btry_from` (C13), `indep_from_prim` (C19), `indep_to_float`,
           `indep_from_float` (C14, C19), `indep_u_gcd_lcm`, `indep_i_gcd_lcm`, `indep_u_integer_div`,
           `indep_i_integer_div`, `indep_u_roots`, `indep_i_roots`, `indep_mul_add_abs_sub_even` (C18);
           C03 completed: `indep_u_next_multiple_of`, `indep_i_div_round_all` (all operands, `MIN / -1` and
           unrepresentable multiples included); (ii) `ext_i_wrapping_rem` (`MIN % -1` included)

  Honest limits of the statements (all inherited from the cited properties):
  * error KIND of `from_str_radix` on over-long malformed strings is not claimed equal (C10 leaves it
    open: `Expect.anyErr`); everything else about parsing is (`ParseRel`).
  * (closed in §6: `BInt::div_floor/div_ceil/(checked_)next_multiple_of` at `MIN / -1` and the non-`checked`
    `next_multiple_of` with an unrepresentable multiple are covered by `indep_i_div_round_all` /
    `indep_u_next_multiple_of`.)
  * `op_extend_commutes` for signed `div`/`rem` excludes `MIN / -1` of the narrow type — there the
    narrow type overflows and the wide one does not (example after `ext_i_div`); the value-returning
    remainder forms are covered there too (`ext_i_wrapping_rem`).
  * `lcm`, signed `gcd`, `mul_add`, `abs_sub` are claimed where C18 determines them (exact result
    representable); `FromPrimitive::from_f32/f64` where C19 does (not: unsigned target, float in `(-1, 0)`).
  * `Hash` is not claimed: a `BUint` hashes its digit array, so equal values held in different digit types
    hash differently by design (and `Hash` is not a value-level result).  Formatting needs `W < 2^64`.
-/
import Bnum.Lemmas.Indep
import Bnum.Lemmas.C16Extra
import Bnum.Generated.Aliases
import Bnum.Props.C01
import Bnum.Props.C02
import Bnum.Props.C03
import Bnum.Props.C05
import Bnum.Props.C06
import Bnum.Props.C07
import Bnum.Props.C08
import Bnum.Props.C09
import Bnum.Props.C10
import Bnum.Props.C11
import Bnum.Props.C12
import Bnum.Props.C13
import Bnum.Props.C14
import Bnum.Props.C15
import Bnum.Props.C18
import Bnum.Props.C19

namespace Bnum.C16
open Bnum Bnum.Indep

section
variable {w₁ n₁ w₂ n₂ : Nat} {a₁ a₂ b₁ b₂ : List Nat}

/-! ## §1 operands and results: `SameU` / `SameS` is the `As` cast (C09)

  `castBnum w₁ s a₁ w₂ n₂ s` is `a₁ as BUint<N₂>/BInt<N₂>` over the other digit type (Model/Cast.lean,
  proved in C09).  `hdvd` holds for all real digit widths (8, 16, 32, 64). -/

/-- the cast of an unsigned operand into a type at least as wide (zero-extension; at equal width:
    the same integer over another digit type) is a `SameU` partner — and the only one -/
theorem sameU_iff_cast (c : Ext w₁ n₁ w₂ n₂) (hdvd : w₁ ∣ w₂ ∨ w₂ ∣ w₁) (hx : WF w₁ n₁ a₁) :
    (∃ r, castBnum w₁ false a₁ w₂ n₂ false = .ok r) ∧
    (SameU w₁ n₁ w₂ n₂ a₁ a₂ ↔ castBnum w₁ false a₁ w₂ n₂ false = .ok a₂) := by
  obtain ⟨r, hr, hs⟩ := castU c hdvd hx
  refine ⟨⟨r, hr⟩, fun h => h.cast_eq c hdvd, fun h => ?_⟩
  rw [hr] at h; cases h; exact hs
example : Ext 8 2 16 2 ∧ ((8 : Nat) ∣ 16 ∨ (16 : Nat) ∣ 8) ∧ WF 8 2 [0x34, 0x12] ∧
    castBnum 8 false [0x34, 0x12] 16 2 false = .ok [0x1234, 0] :=
  ⟨⟨by decide, by decide, by decide, by decide, by decide⟩, by decide, by decide, by decide⟩

/-- same for signed operands (sign-extension) -/
theorem sameS_iff_cast (c : Ext w₁ n₁ w₂ n₂) (hdvd : w₁ ∣ w₂ ∨ w₂ ∣ w₁) (hx : WF w₁ n₁ a₁) :
    (∃ r, castBnum w₁ true a₁ w₂ n₂ true = .ok r) ∧
    (SameS w₁ n₁ w₂ n₂ a₁ a₂ ↔ castBnum w₁ true a₁ w₂ n₂ true = .ok a₂) := by
  obtain ⟨r, hr, hs⟩ := castS c hdvd hx
  refine ⟨⟨r, hr⟩, fun h => h.cast_eq c hdvd, fun h => ?_⟩
  rw [hr] at h; cases h; exact hs
example : Ext 16 1 8 3 ∧ ((16 : Nat) ∣ 8 ∨ (8 : Nat) ∣ 16) ∧ WF 16 1 [0xfffe] ∧
    castBnum 16 true [0xfffe] 8 3 true = .ok [0xfe, 0xff, 0xff] :=
  ⟨⟨by decide, by decide, by decide, by decide, by decide⟩, by decide, by decide, by decide⟩

/-- at equal total width the two operand relations coincide (same bit pattern) -/
theorem sameU_iff_sameS (c : Cfgs w₁ n₁ w₂ n₂) :
    SameU w₁ n₁ w₂ n₂ a₁ a₂ ↔ SameS w₁ n₁ w₂ n₂ a₁ a₂ := ⟨fun h => h.toS c, fun h => h.toU c⟩

/-- results of equal value are casts of each other -/
theorem result_is_cast {r₁ r₂ : List Nat} (c : Ext w₁ n₁ w₂ n₂) (hdvd : w₁ ∣ w₂ ∨ w₂ ∣ w₁)
    (h₁ : WF w₁ n₁ r₁) (h₂ : WF w₂ n₂ r₂) :
    (EqU w₁ w₂ r₁ r₂ → castBnum w₁ false r₁ w₂ n₂ false = .ok r₂) ∧
    (EqS w₁ w₂ r₁ r₂ → castBnum w₁ true r₁ w₂ n₂ true = .ok r₂) :=
  ⟨fun h => (h.same h₁ h₂).cast_eq c hdvd, fun h => (h.same h₁ h₂).cast_eq c hdvd⟩

/-- the standing hypotheses are satisfiable: 32 bits as 4 × u8 and as 2 × u16, the value 0x12345678 -/
example : Cfgs 8 4 16 2 ∧ SameU 8 4 16 2 [0x78, 0x56, 0x34, 0x12] [0x5678, 0x1234] ∧
    SameS 8 4 16 2 [0xfe, 0xff, 0xff, 0xff] [0xfffe, 0xffff] :=
  ⟨⟨by decide, by decide, by decide, by decide, by decide⟩, ⟨by decide, by decide, by decide⟩,
   ⟨by decide, by decide, by decide⟩⟩

/-! ## §2 (i) `op_digit_independent`

  Standing hypotheses: `c : Cfgs w₁ n₁ w₂ n₂` and operands of equal value.  One theorem per
  operation, listing all its forms (overflowing / checked / strict / wrapping / saturating /
  operator under `debug_assertions` = `dbg`). -/

/-! ### C01: add, sub, neg, abs, … -/

/-- `BUint`: `overflowing_add`, `checked_add`, `strict_add`, `wrapping_add`, `saturating_add`, `+` -/
theorem indep_u_add (c : Cfgs w₁ n₁ w₂ n₂) (ha : SameU w₁ n₁ w₂ n₂ a₁ a₂)
    (hb : SameU w₁ n₁ w₂ n₂ b₁ b₂) (dbg : Bool) :
    PairRel (EqU w₁ w₂) (UI.overflowingAdd w₁ a₁ b₁) (UI.overflowingAdd w₂ a₂ b₂) ∧
    OptRel (EqU w₁ w₂) (UI.checkedAdd w₁ a₁ b₁) (UI.checkedAdd w₂ a₂ b₂) ∧
    OutRel (EqU w₁ w₂) (UI.strictAdd w₁ a₁ b₁) (UI.strictAdd w₂ a₂ b₂) ∧
    EqU w₁ w₂ (UI.wrappingAdd w₁ a₁ b₁) (UI.wrappingAdd w₂ a₂ b₂) ∧
    EqU w₁ w₂ (UI.saturatingAdd w₁ a₁ b₁) (UI.saturatingAdd w₂ a₂ b₂) ∧
    OutRel (EqU w₁ w₂) (UI.add dbg w₁ a₁ b₁) (UI.add dbg w₂ a₂ b₂) :=
  have hz : (U w₁ a₁ : Int) + U w₁ b₁ = (U w₂ a₂ : Int) + U w₂ b₂ := by rw [ha.val, hb.val]
  have p := ovfU c.M_eq (UI.overflowingAdd_spec ha.wf₁ hb.wf₁) (UI.overflowingAdd_spec ha.wf₂ hb.wf₂) hz
  ⟨p, p.checked, p.strict, p.wrapping,
   EqU.of_int (UI.saturatingAdd_spec ha.wf₁ hb.wf₁).2 (UI.saturatingAdd_spec ha.wf₂ hb.wf₂).2
     (by rw [c.M_eq, hz]),
   p.strict.dbg p.wrapping dbg⟩

/-- `BUint`: `overflowing_sub`, `checked_sub`, `strict_sub`, `wrapping_sub`, `saturating_sub`, `-` -/
theorem indep_u_sub (c : Cfgs w₁ n₁ w₂ n₂) (ha : SameU w₁ n₁ w₂ n₂ a₁ a₂)
    (hb : SameU w₁ n₁ w₂ n₂ b₁ b₂) (dbg : Bool) :
    PairRel (EqU w₁ w₂) (UI.overflowingSub w₁ a₁ b₁) (UI.overflowingSub w₂ a₂ b₂) ∧
    OptRel (EqU w₁ w₂) (UI.checkedSub w₁ a₁ b₁) (UI.checkedSub w₂ a₂ b₂) ∧
    OutRel (EqU w₁ w₂) (UI.strictSub w₁ a₁ b₁) (UI.strictSub w₂ a₂ b₂) ∧
    EqU w₁ w₂ (UI.wrappingSub w₁ a₁ b₁) (UI.wrappingSub w₂ a₂ b₂) ∧
    EqU w₁ w₂ (UI.saturatingSub w₁ a₁ b₁) (UI.saturatingSub w₂ a₂ b₂) ∧
    OutRel (EqU w₁ w₂) (UI.sub dbg w₁ a₁ b₁) (UI.sub dbg w₂ a₂ b₂) :=
  have hz : (U w₁ a₁ : Int) - U w₁ b₁ = (U w₂ a₂ : Int) - U w₂ b₂ := by rw [ha.val, hb.val]
  have p := ovfU' c.M_eq (C01.u_overflowing_sub ha.wf₁ hb.wf₁) (C01.u_overflowing_sub ha.wf₂ hb.wf₂) hz
  ⟨p, p.checked, p.strict, p.wrapping,
   EqU.of_int (C01.u_saturating_sub ha.wf₁ hb.wf₁).2 (C01.u_saturating_sub ha.wf₂ hb.wf₂).2
     (by rw [c.M_eq, hz]),
   p.strict.dbg p.wrapping dbg⟩

/-- `BUint`: `overflowing_neg`, `checked_neg` (written with `is_zero`), `strict_neg`, `wrapping_neg` -/
theorem indep_u_neg (c : Cfgs w₁ n₁ w₂ n₂) (ha : SameU w₁ n₁ w₂ n₂ a₁ a₂) :
    PairRel (EqU w₁ w₂) (UI.overflowingNeg w₁ a₁) (UI.overflowingNeg w₂ a₂) ∧
    OptRel (EqU w₁ w₂) (UI.checkedNeg w₁ a₁) (UI.checkedNeg w₂ a₂) ∧
    OutRel (EqU w₁ w₂) (UI.strictNeg w₁ a₁) (UI.strictNeg w₂ a₂) ∧
    EqU w₁ w₂ (UI.wrappingNeg w₁ a₁) (UI.wrappingNeg w₂ a₂) := by
  have hz : -(U w₁ a₁ : Int) = -(U w₂ a₂ : Int) := by rw [ha.val]
  have p := ovfU' c.M_eq (C01.u_overflowing_neg c.one₁ c.hn₁ ha.wf₁)
    (C01.u_overflowing_neg c.one₂ c.hn₂ ha.wf₂) hz
  have q : OptRel (EqU w₁ w₂) (UI.checkedNeg w₁ a₁) (UI.checkedNeg w₂ a₂) := by
    rw [C01.u_checked_neg_proj c.one₁ c.hn₁ ha.wf₁, C01.u_checked_neg_proj c.one₂ c.hn₂ ha.wf₂]
    exact p.checked
  exact ⟨p, q, q.expect, p.wrapping⟩

/-- `BUint`: `overflowing_add_signed` (rhs a `BInt`), checked / strict / wrapping / saturating -/
theorem indep_u_add_signed (c : Cfgs w₁ n₁ w₂ n₂) (ha : SameU w₁ n₁ w₂ n₂ a₁ a₂)
    (hb : SameS w₁ n₁ w₂ n₂ b₁ b₂) :
    PairRel (EqU w₁ w₂) (UI.overflowingAddSigned w₁ a₁ b₁) (UI.overflowingAddSigned w₂ a₂ b₂) ∧
    OptRel (EqU w₁ w₂) (UI.checkedAddSigned w₁ a₁ b₁) (UI.checkedAddSigned w₂ a₂ b₂) ∧
    OutRel (EqU w₁ w₂) (UI.strictAddSigned w₁ a₁ b₁) (UI.strictAddSigned w₂ a₂ b₂) ∧
    EqU w₁ w₂ (UI.wrappingAddSigned w₁ a₁ b₁) (UI.wrappingAddSigned w₂ a₂ b₂) ∧
    EqU w₁ w₂ (UI.saturatingAddSigned w₁ a₁ b₁) (UI.saturatingAddSigned w₂ a₂ b₂) :=
  have hz : (U w₁ a₁ : Int) + S w₁ b₁ = (U w₂ a₂ : Int) + S w₂ b₂ := by rw [ha.val, hb.val]
  have p := ovfU' c.M_eq (C01.u_overflowing_add_signed c.one₁ c.hn₁ ha.wf₁ hb.wf₁)
    (C01.u_overflowing_add_signed c.one₂ c.hn₂ ha.wf₂ hb.wf₂) hz
  ⟨p, p.checked, p.strict, p.wrapping,
   EqU.of_int (C01.u_saturating_add_signed c.one₁ c.hn₁ ha.wf₁ hb.wf₁).2
     (C01.u_saturating_add_signed c.one₂ c.hn₂ ha.wf₂ hb.wf₂).2 (by rw [c.M_eq, hz])⟩

/-- `BUint`: `carrying_add`, `borrowing_sub` (with a carry / borrow in) -/
theorem indep_u_carrying (c : Cfgs w₁ n₁ w₂ n₂) (ha : SameU w₁ n₁ w₂ n₂ a₁ a₂)
    (hb : SameU w₁ n₁ w₂ n₂ b₁ b₂) (ci : Bool) :
    PairRel (EqU w₁ w₂) (UI.carryingAdd w₁ a₁ b₁ ci) (UI.carryingAdd w₂ a₂ b₂ ci) ∧
    PairRel (EqU w₁ w₂) (UI.borrowingSub w₁ a₁ b₁ ci) (UI.borrowingSub w₂ a₂ b₂ ci) :=
  ⟨ovfU' c.M_eq (C01.u_carrying_add c.one₁ c.hn₁ ha.wf₁ hb.wf₁ ci)
     (C01.u_carrying_add c.one₂ c.hn₂ ha.wf₂ hb.wf₂ ci) (by rw [ha.val, hb.val]),
   ovfU' c.M_eq (C01.u_borrowing_sub c.one₁ c.hn₁ ha.wf₁ hb.wf₁ ci)
     (C01.u_borrowing_sub c.one₂ c.hn₂ ha.wf₂ hb.wf₂ ci) (by rw [ha.val, hb.val])⟩

/-- `BUint`: `midpoint` (either build profile), `abs_diff` -/
theorem indep_u_midpoint_abs_diff (c : Cfgs w₁ n₁ w₂ n₂) (ha : SameU w₁ n₁ w₂ n₂ a₁ a₂)
    (hb : SameU w₁ n₁ w₂ n₂ b₁ b₂) (dbg : Bool) :
    OutRel (EqU w₁ w₂) (UI.midpoint dbg w₁ a₁ b₁) (UI.midpoint dbg w₂ a₂ b₂) ∧
    EqU w₁ w₂ (UI.absDiff w₁ a₁ b₁) (UI.absDiff w₂ a₂ b₂) :=
  ⟨okUn (C01.u_midpoint_spec dbg c.hw₁ c.hn₁ ha.wf₁ hb.wf₁)
     (C01.u_midpoint_spec dbg c.hw₂ c.hn₂ ha.wf₂ hb.wf₂) (by rw [ha.val, hb.val]),
   EqU.of_nat (C01.u_abs_diff ha.wf₁ hb.wf₁).2 (C01.u_abs_diff ha.wf₂ hb.wf₂).2
     (by rw [ha.val, hb.val])⟩

/-- `BInt`: `overflowing_add`, `checked_add`, `strict_add`, `wrapping_add`, `saturating_add`, `+` -/
theorem indep_i_add (c : Cfgs w₁ n₁ w₂ n₂) (ha : SameS w₁ n₁ w₂ n₂ a₁ a₂)
    (hb : SameS w₁ n₁ w₂ n₂ b₁ b₂) (dbg : Bool) :
    PairRel (EqS w₁ w₂) (II.overflowingAdd w₁ a₁ b₁) (II.overflowingAdd w₂ a₂ b₂) ∧
    OptRel (EqS w₁ w₂) (II.checkedAdd w₁ a₁ b₁) (II.checkedAdd w₂ a₂ b₂) ∧
    OutRel (EqS w₁ w₂) (II.strictAdd w₁ a₁ b₁) (II.strictAdd w₂ a₂ b₂) ∧
    EqS w₁ w₂ (II.wrappingAdd w₁ a₁ b₁) (II.wrappingAdd w₂ a₂ b₂) ∧
    EqS w₁ w₂ (II.saturatingAdd w₁ a₁ b₁) (II.saturatingAdd w₂ a₂ b₂) ∧
    OutRel (EqS w₁ w₂) (II.add dbg w₁ a₁ b₁) (II.add dbg w₂ a₂ b₂) :=
  have hz : S w₁ a₁ + S w₁ b₁ = S w₂ a₂ + S w₂ b₂ := by rw [ha.val, hb.val]
  have p := ovfS' c.M_eq (C01.i_overflowing_add c.hw₁ c.hn₁ ha.wf₁ hb.wf₁)
    (C01.i_overflowing_add c.hw₂ c.hn₂ ha.wf₂ hb.wf₂) hz
  have q := EqS.of_int (C01.i_wrapping_add ha.wf₁ hb.wf₁).2 (C01.i_wrapping_add ha.wf₂ hb.wf₂).2
    (by rw [c.M_eq, hz])
  ⟨p, p.checked, p.strict, q,
   EqS.of_int (C01.i_saturating_add c.hw₁ c.hn₁ ha.wf₁ hb.wf₁).2
     (C01.i_saturating_add c.hw₂ c.hn₂ ha.wf₂ hb.wf₂).2 (by rw [c.M_eq, hz]),
   p.strict.dbg q dbg⟩

/-- `BInt`: `overflowing_sub`, `checked_sub`, `strict_sub`, `wrapping_sub`, `saturating_sub`, `-` -/
theorem indep_i_sub (c : Cfgs w₁ n₁ w₂ n₂) (ha : SameS w₁ n₁ w₂ n₂ a₁ a₂)
    (hb : SameS w₁ n₁ w₂ n₂ b₁ b₂) (dbg : Bool) :
    PairRel (EqS w₁ w₂) (II.overflowingSub w₁ a₁ b₁) (II.overflowingSub w₂ a₂ b₂) ∧
    OptRel (EqS w₁ w₂) (II.checkedSub w₁ a₁ b₁) (II.checkedSub w₂ a₂ b₂) ∧
    OutRel (EqS w₁ w₂) (II.strictSub w₁ a₁ b₁) (II.strictSub w₂ a₂ b₂) ∧
    EqS w₁ w₂ (II.wrappingSub w₁ a₁ b₁) (II.wrappingSub w₂ a₂ b₂) ∧
    EqS w₁ w₂ (II.saturatingSub w₁ a₁ b₁) (II.saturatingSub w₂ a₂ b₂) ∧
    OutRel (EqS w₁ w₂) (II.sub dbg w₁ a₁ b₁) (II.sub dbg w₂ a₂ b₂) :=
  have hz : S w₁ a₁ - S w₁ b₁ = S w₂ a₂ - S w₂ b₂ := by rw [ha.val, hb.val]
  have p := ovfS' c.M_eq (C01.i_overflowing_sub c.hw₁ c.hn₁ ha.wf₁ hb.wf₁)
    (C01.i_overflowing_sub c.hw₂ c.hn₂ ha.wf₂ hb.wf₂) hz
  have q := EqS.of_int (C01.i_wrapping_sub ha.wf₁ hb.wf₁).2 (C01.i_wrapping_sub ha.wf₂ hb.wf₂).2
    (by rw [c.M_eq, hz])
  ⟨p, p.checked, p.strict, q,
   EqS.of_int (C01.i_saturating_sub c.hw₁ c.hn₁ ha.wf₁ hb.wf₁).2
     (C01.i_saturating_sub c.hw₂ c.hn₂ ha.wf₂ hb.wf₂).2 (by rw [c.M_eq, hz]),
   p.strict.dbg q dbg⟩

/-- `BInt`: `overflowing_neg`, `checked_neg`, `strict_neg`, `wrapping_neg`, `saturating_neg` -/
theorem indep_i_neg (c : Cfgs w₁ n₁ w₂ n₂) (ha : SameS w₁ n₁ w₂ n₂ a₁ a₂) :
    PairRel (EqS w₁ w₂) (II.overflowingNeg w₁ a₁) (II.overflowingNeg w₂ a₂) ∧
    OptRel (EqS w₁ w₂) (II.checkedNeg w₁ a₁) (II.checkedNeg w₂ a₂) ∧
    OutRel (EqS w₁ w₂) (II.strictNeg w₁ a₁) (II.strictNeg w₂ a₂) ∧
    EqS w₁ w₂ (II.wrappingNeg w₁ a₁) (II.wrappingNeg w₂ a₂) ∧
    EqS w₁ w₂ (II.saturatingNeg w₁ a₁) (II.saturatingNeg w₂ a₂) :=
  have hz : -S w₁ a₁ = -S w₂ a₂ := by rw [ha.val]
  have p := ovfS' c.M_eq (C01.i_overflowing_neg c.hw₁ c.hn₁ ha.wf₁)
    (C01.i_overflowing_neg c.hw₂ c.hn₂ ha.wf₂) hz
  ⟨p, p.checked, p.strict, p.wrapping,
   EqS.of_int (C01.i_saturating_neg c.hw₁ c.hn₁ ha.wf₁).2 (C01.i_saturating_neg c.hw₂ c.hn₂ ha.wf₂).2
     (by rw [c.M_eq, hz])⟩

/-- `BInt`: `overflowing_abs`, `checked_abs`, `strict_abs`, `wrapping_abs`, `saturating_abs`,
    `unsigned_abs` (a `BUint`) -/
theorem indep_i_abs (c : Cfgs w₁ n₁ w₂ n₂) (ha : SameS w₁ n₁ w₂ n₂ a₁ a₂) :
    PairRel (EqS w₁ w₂) (II.overflowingAbs w₁ a₁) (II.overflowingAbs w₂ a₂) ∧
    OptRel (EqS w₁ w₂) (II.checkedAbs w₁ a₁) (II.checkedAbs w₂ a₂) ∧
    OutRel (EqS w₁ w₂) (II.strictAbs w₁ a₁) (II.strictAbs w₂ a₂) ∧
    EqS w₁ w₂ (II.wrappingAbs w₁ a₁) (II.wrappingAbs w₂ a₂) ∧
    EqS w₁ w₂ (II.saturatingAbs w₁ a₁) (II.saturatingAbs w₂ a₂) ∧
    EqU w₁ w₂ (II.unsignedAbs w₁ a₁) (II.unsignedAbs w₂ a₂) :=
  have hz : (((S w₁ a₁).natAbs : Nat) : Int) = (((S w₂ a₂).natAbs : Nat) : Int) := by rw [ha.val]
  have p := ovfS' c.M_eq (C01.i_overflowing_abs c.hw₁ c.hn₁ ha.wf₁)
    (C01.i_overflowing_abs c.hw₂ c.hn₂ ha.wf₂) hz
  ⟨p, p.checked, p.strict, p.wrapping,
   EqS.of_int (C01.i_saturating_abs c.hw₁ c.hn₁ ha.wf₁).2 (C01.i_saturating_abs c.hw₂ c.hn₂ ha.wf₂).2
     (by rw [c.M_eq, hz]),
   EqU.of_nat (C01.i_unsigned_abs c.hw₁ c.hn₁ ha.wf₁).2 (C01.i_unsigned_abs c.hw₂ c.hn₂ ha.wf₂).2
     (by rw [ha.val])⟩

/-- `BInt`: `overflowing_add_unsigned` (rhs a `BUint`), checked / strict / wrapping / saturating -/
theorem indep_i_add_unsigned (c : Cfgs w₁ n₁ w₂ n₂) (ha : SameS w₁ n₁ w₂ n₂ a₁ a₂)
    (hb : SameU w₁ n₁ w₂ n₂ b₁ b₂) :
    PairRel (EqS w₁ w₂) (II.overflowingAddUnsigned w₁ a₁ b₁) (II.overflowingAddUnsigned w₂ a₂ b₂) ∧
    OptRel (EqS w₁ w₂) (II.checkedAddUnsigned w₁ a₁ b₁) (II.checkedAddUnsigned w₂ a₂ b₂) ∧
    OutRel (EqS w₁ w₂) (II.strictAddUnsigned w₁ a₁ b₁) (II.strictAddUnsigned w₂ a₂ b₂) ∧
    EqS w₁ w₂ (II.wrappingAddUnsigned w₁ a₁ b₁) (II.wrappingAddUnsigned w₂ a₂ b₂) ∧
    EqS w₁ w₂ (II.saturatingAddUnsigned w₁ a₁ b₁) (II.saturatingAddUnsigned w₂ a₂ b₂) :=
  have hz : S w₁ a₁ + (U w₁ b₁ : Int) = S w₂ a₂ + (U w₂ b₂ : Int) := by rw [ha.val, hb.val]
  have p := ovfS' c.M_eq (C01.i_overflowing_add_unsigned c.hw₁ c.hn₁ ha.wf₁ hb.wf₁)
    (C01.i_overflowing_add_unsigned c.hw₂ c.hn₂ ha.wf₂ hb.wf₂) hz
  ⟨p, p.checked, p.strict, p.wrapping,
   EqS.of_int (C01.i_saturating_add_unsigned c.hw₁ c.hn₁ ha.wf₁ hb.wf₁).2
     (C01.i_saturating_add_unsigned c.hw₂ c.hn₂ ha.wf₂ hb.wf₂).2 (by rw [c.M_eq, hz])⟩

/-- `BInt`: `overflowing_sub_unsigned`, checked / strict / wrapping / saturating -/
theorem indep_i_sub_unsigned (c : Cfgs w₁ n₁ w₂ n₂) (ha : SameS w₁ n₁ w₂ n₂ a₁ a₂)
    (hb : SameU w₁ n₁ w₂ n₂ b₁ b₂) :
    PairRel (EqS w₁ w₂) (II.overflowingSubUnsigned w₁ a₁ b₁) (II.overflowingSubUnsigned w₂ a₂ b₂) ∧
    OptRel (EqS w₁ w₂) (II.checkedSubUnsigned w₁ a₁ b₁) (II.checkedSubUnsigned w₂ a₂ b₂) ∧
    OutRel (EqS w₁ w₂) (II.strictSubUnsigned w₁ a₁ b₁) (II.strictSubUnsigned w₂ a₂ b₂) ∧
    EqS w₁ w₂ (II.wrappingSubUnsigned w₁ a₁ b₁) (II.wrappingSubUnsigned w₂ a₂ b₂) ∧
    EqS w₁ w₂ (II.saturatingSubUnsigned w₁ a₁ b₁) (II.saturatingSubUnsigned w₂ a₂ b₂) :=
  have hz : S w₁ a₁ - (U w₁ b₁ : Int) = S w₂ a₂ - (U w₂ b₂ : Int) := by rw [ha.val, hb.val]
  have p := ovfS' c.M_eq (C01.i_overflowing_sub_unsigned c.hw₁ c.hn₁ ha.wf₁ hb.wf₁)
    (C01.i_overflowing_sub_unsigned c.hw₂ c.hn₂ ha.wf₂ hb.wf₂) hz
  ⟨p, p.checked, p.strict, p.wrapping,
   EqS.of_int (C01.i_saturating_sub_unsigned c.hw₁ c.hn₁ ha.wf₁ hb.wf₁).2
     (C01.i_saturating_sub_unsigned c.hw₂ c.hn₂ ha.wf₂ hb.wf₂).2 (by rw [c.M_eq, hz])⟩

/-- `BInt`: `carrying_add`, `borrowing_sub` -/
theorem indep_i_carrying (c : Cfgs w₁ n₁ w₂ n₂) (ha : SameS w₁ n₁ w₂ n₂ a₁ a₂)
    (hb : SameS w₁ n₁ w₂ n₂ b₁ b₂) (ci : Bool) :
    PairRel (EqS w₁ w₂) (II.carryingAdd w₁ a₁ b₁ ci) (II.carryingAdd w₂ a₂ b₂ ci) ∧
    PairRel (EqS w₁ w₂) (II.borrowingSub w₁ a₁ b₁ ci) (II.borrowingSub w₂ a₂ b₂ ci) :=
  ⟨ovfS' c.M_eq (C01.i_carrying_add c.hw₁ c.hn₁ ha.wf₁ hb.wf₁ ci)
     (C01.i_carrying_add c.hw₂ c.hn₂ ha.wf₂ hb.wf₂ ci) (by rw [ha.val, hb.val]),
   ovfS' c.M_eq (C01.i_borrowing_sub c.hw₁ c.hn₁ ha.wf₁ hb.wf₁ ci)
     (C01.i_borrowing_sub c.hw₂ c.hn₂ ha.wf₂ hb.wf₂ ci) (by rw [ha.val, hb.val])⟩

/-- `BInt`: `midpoint` (either build profile), `abs_diff` (a `BUint`) -/
theorem indep_i_midpoint_abs_diff (c : Cfgs w₁ n₁ w₂ n₂) (ha : SameS w₁ n₁ w₂ n₂ a₁ a₂)
    (hb : SameS w₁ n₁ w₂ n₂ b₁ b₂) (dbg : Bool) :
    OutRel (EqS w₁ w₂) (II.midpoint dbg w₁ a₁ b₁) (II.midpoint dbg w₂ a₂ b₂) ∧
    EqU w₁ w₂ (II.absDiff w₁ a₁ b₁) (II.absDiff w₂ a₂ b₂) :=
  ⟨okS (C01.i_midpoint_spec dbg c.hw₁ c.hn₁ ha.wf₁ hb.wf₁)
     (C01.i_midpoint_spec dbg c.hw₂ c.hn₂ ha.wf₂ hb.wf₂) (by rw [ha.val, hb.val]),
   EqU.of_nat (C01.i_abs_diff c.one₁ c.hn₁ ha.wf₁ hb.wf₁).2 (C01.i_abs_diff c.one₂ c.hn₂ ha.wf₂ hb.wf₂).2
     (by rw [ha.val, hb.val])⟩
example : II.midpoint true 8 [0xfd, 0xff, 0xff, 0xff] [0x02, 0, 0, 0] = .ok [0, 0, 0, 0] ∧
    II.midpoint true 16 [0xfffd, 0xffff] [0x0002, 0] = .ok [0, 0] := by decide

/-! ### C02: mul -/

/-- `BUint`: `overflowing_mul`, `checked_mul`, `strict_mul`, `wrapping_mul`, `saturating_mul`, `*` -/
theorem indep_u_mul (c : Cfgs w₁ n₁ w₂ n₂) (ha : SameU w₁ n₁ w₂ n₂ a₁ a₂)
    (hb : SameU w₁ n₁ w₂ n₂ b₁ b₂) (dbg : Bool) :
    PairRel (EqU w₁ w₂) (UI.overflowingMul w₁ a₁ b₁) (UI.overflowingMul w₂ a₂ b₂) ∧
    OptRel (EqU w₁ w₂) (UI.checkedMul w₁ a₁ b₁) (UI.checkedMul w₂ a₂ b₂) ∧
    OutRel (EqU w₁ w₂) (UI.strictMul w₁ a₁ b₁) (UI.strictMul w₂ a₂ b₂) ∧
    EqU w₁ w₂ (UI.wrappingMul w₁ a₁ b₁) (UI.wrappingMul w₂ a₂ b₂) ∧
    EqU w₁ w₂ (UI.saturatingMul w₁ a₁ b₁) (UI.saturatingMul w₂ a₂ b₂) ∧
    OutRel (EqU w₁ w₂) (UI.mul w₁ dbg a₁ b₁) (UI.mul w₂ dbg a₂ b₂) :=
  have hz : (U w₁ a₁ : Int) * U w₁ b₁ = (U w₂ a₂ : Int) * U w₂ b₂ := by rw [ha.val, hb.val]
  have p := ovfU' c.M_eq (C02.u_overflowing_mul ha.wf₁ hb.wf₁) (C02.u_overflowing_mul ha.wf₂ hb.wf₂) hz
  ⟨p, p.checked, p.strict, p.wrapping,
   EqU.of_int (C02.u_saturating_mul ha.wf₁ hb.wf₁).2 (C02.u_saturating_mul ha.wf₂ hb.wf₂).2
     (by rw [c.M_eq, hz]),
   p.strict.dbg p.wrapping dbg⟩

/-- `BUint`: `widening_mul` and `carrying_mul` return `(lo, hi)` of equal values -/
theorem indep_u_widening_mul {c₁ c₂ : List Nat} (c : Cfgs w₁ n₁ w₂ n₂)
    (ha : SameU w₁ n₁ w₂ n₂ a₁ a₂) (hb : SameU w₁ n₁ w₂ n₂ b₁ b₂) (hc : SameU w₁ n₁ w₂ n₂ c₁ c₂) :
    Pair2Rel (EqU w₁ w₂) (EqU w₁ w₂) (UI.wideningMul w₁ a₁ b₁) (UI.wideningMul w₂ a₂ b₂) ∧
    Pair2Rel (EqU w₁ w₂) (EqU w₁ w₂) (UI.carryingMul w₁ a₁ b₁ c₁) (UI.carryingMul w₂ a₂ b₂ c₂) :=
  ⟨wide c.M_eq (C02.u_widening_mul ha.wf₁ hb.wf₁) (C02.u_widening_mul ha.wf₂ hb.wf₂)
     (by rw [ha.val, hb.val]),
   wide c.M_eq (C02.u_carrying_mul c.one₁ c.hn₁ ha.wf₁ hb.wf₁ hc.wf₁)
     (C02.u_carrying_mul c.one₂ c.hn₂ ha.wf₂ hb.wf₂ hc.wf₂) (by rw [ha.val, hb.val, hc.val])⟩

/-- `BInt`: `overflowing_mul`, `checked_mul`, `strict_mul`, `wrapping_mul`, `saturating_mul`, `*` -/
theorem indep_i_mul (c : Cfgs w₁ n₁ w₂ n₂) (ha : SameS w₁ n₁ w₂ n₂ a₁ a₂)
    (hb : SameS w₁ n₁ w₂ n₂ b₁ b₂) (dbg : Bool) :
    PairRel (EqS w₁ w₂) (II.overflowingMul w₁ a₁ b₁) (II.overflowingMul w₂ a₂ b₂) ∧
    OptRel (EqS w₁ w₂) (II.checkedMul w₁ a₁ b₁) (II.checkedMul w₂ a₂ b₂) ∧
    OutRel (EqS w₁ w₂) (II.strictMul w₁ a₁ b₁) (II.strictMul w₂ a₂ b₂) ∧
    EqS w₁ w₂ (II.wrappingMul w₁ a₁ b₁) (II.wrappingMul w₂ a₂ b₂) ∧
    EqS w₁ w₂ (II.saturatingMul w₁ a₁ b₁) (II.saturatingMul w₂ a₂ b₂) ∧
    OutRel (EqS w₁ w₂) (II.mul w₁ dbg a₁ b₁) (II.mul w₂ dbg a₂ b₂) :=
  have hz : S w₁ a₁ * S w₁ b₁ = S w₂ a₂ * S w₂ b₂ := by rw [ha.val, hb.val]
  have p := ovfS' c.M_eq (C02.i_overflowing_mul c.hw₁ c.hn₁ ha.wf₁ hb.wf₁)
    (C02.i_overflowing_mul c.hw₂ c.hn₂ ha.wf₂ hb.wf₂) hz
  have q := EqS.of_int (C02.i_wrapping_mul ha.wf₁ hb.wf₁).2 (C02.i_wrapping_mul ha.wf₂ hb.wf₂).2
    (by rw [c.M_eq, hz])
  ⟨p, p.checked, p.strict, q,
   EqS.of_int (C02.i_saturating_mul c.hw₁ c.hn₁ ha.wf₁ hb.wf₁).2
     (C02.i_saturating_mul c.hw₂ c.hn₂ ha.wf₂ hb.wf₂).2 (by rw [c.M_eq, hz]),
   p.strict.dbg q dbg⟩
example : II.overflowingMul 8 [0, 0, 0, 0x80] [0xff, 0xff, 0xff, 0xff] = ([0, 0, 0, 0x80], true) ∧
    II.overflowingMul 16 [0, 0x8000] [0xffff, 0xffff] = ([0, 0x8000], true) := by decide

/-! ### C03: div, rem (all operands: zero divisor and signed `MIN / -1` included) -/

/-- `BUint`: every div / rem form.  Zero divisor: both `None` / both panic. -/
theorem indep_u_div (c : Cfgs w₁ n₁ w₂ n₂) (ha : SameU w₁ n₁ w₂ n₂ a₁ a₂)
    (hb : SameU w₁ n₁ w₂ n₂ b₁ b₂) (dbg : Bool) :
    OutRel (OptRel (EqU w₁ w₂)) (UI.checkedDiv w₁ a₁ b₁) (UI.checkedDiv w₂ a₂ b₂) ∧
    OutRel (OptRel (EqU w₁ w₂)) (UI.checkedRem w₁ a₁ b₁) (UI.checkedRem w₂ a₂ b₂) ∧
    OutRel (OptRel (EqU w₁ w₂)) (UI.checkedDivEuclid w₁ a₁ b₁) (UI.checkedDivEuclid w₂ a₂ b₂) ∧
    OutRel (OptRel (EqU w₁ w₂)) (UI.checkedRemEuclid w₁ a₁ b₁) (UI.checkedRemEuclid w₂ a₂ b₂) ∧
    OutRel (PairRel (EqU w₁ w₂)) (UI.overflowingDiv w₁ a₁ b₁) (UI.overflowingDiv w₂ a₂ b₂) ∧
    OutRel (PairRel (EqU w₁ w₂)) (UI.overflowingRem w₁ a₁ b₁) (UI.overflowingRem w₂ a₂ b₂) ∧
    OutRel (PairRel (EqU w₁ w₂)) (UI.overflowingDivEuclid w₁ a₁ b₁) (UI.overflowingDivEuclid w₂ a₂ b₂) ∧
    OutRel (PairRel (EqU w₁ w₂)) (UI.overflowingRemEuclid w₁ a₁ b₁) (UI.overflowingRemEuclid w₂ a₂ b₂) ∧
    OutRel (EqU w₁ w₂) (UI.wrappingDiv w₁ a₁ b₁) (UI.wrappingDiv w₂ a₂ b₂) ∧
    OutRel (EqU w₁ w₂) (UI.wrappingRem w₁ a₁ b₁) (UI.wrappingRem w₂ a₂ b₂) ∧
    OutRel (EqU w₁ w₂) (UI.wrappingDivEuclid w₁ a₁ b₁) (UI.wrappingDivEuclid w₂ a₂ b₂) ∧
    OutRel (EqU w₁ w₂) (UI.wrappingRemEuclid w₁ a₁ b₁) (UI.wrappingRemEuclid w₂ a₂ b₂) ∧
    OutRel (EqU w₁ w₂) (UI.saturatingDiv w₁ a₁ b₁) (UI.saturatingDiv w₂ a₂ b₂) ∧
    OutRel (EqU w₁ w₂) (UI.div w₁ a₁ b₁) (UI.div w₂ a₂ b₂) ∧
    OutRel (EqU w₁ w₂) (UI.rem w₁ a₁ b₁) (UI.rem w₂ a₂ b₂) ∧
    OutRel (EqU w₁ w₂) (UI.divEuclid w₁ a₁ b₁) (UI.divEuclid w₂ a₂ b₂) ∧
    OutRel (EqU w₁ w₂) (UI.remEuclid w₁ a₁ b₁) (UI.remEuclid w₂ a₂ b₂) ∧
    OutRel (EqU w₁ w₂) (UI.divFloor w₁ a₁ b₁) (UI.divFloor w₂ a₂ b₂) ∧
    OutRel (EqU w₁ w₂) (UI.divCeil dbg w₁ a₁ b₁) (UI.divCeil dbg w₂ a₂ b₂) ∧
    OutRel (OptRel (EqU w₁ w₂)) (UI.checkedNextMultipleOf dbg w₁ a₁ b₁)
      (UI.checkedNextMultipleOf dbg w₂ a₂ b₂) := by
  by_cases h0 : U w₁ b₁ = 0
  · have h0' : U w₂ b₂ = 0 := by rw [← hb.val]; exact h0
    have z₁ := C03.u_zero_divisor (a := a₁) h0 dbg
    have z₂ := C03.u_zero_divisor (a := a₂) h0' dbg
    simp only [z₁, z₂, OutRel, OptRel, and_self]
  · have h0' : U w₂ b₂ ≠ 0 := by rw [← hb.val]; exact h0
    obtain ⟨q₁, r₁, -, -, uq₁, ur₁, f₁⟩ := C03.u_forms c.one₁ c.hn₁ ha.wf₁ hb.wf₁ h0
    obtain ⟨q₂, r₂, -, -, uq₂, ur₂, f₂⟩ := C03.u_forms c.one₂ c.hn₂ ha.wf₂ hb.wf₂ h0'
    have eq : EqU w₁ w₂ q₁ q₂ := EqU.of_nat uq₁ uq₂ (by rw [ha.val, hb.val])
    have er : EqU w₁ w₂ r₁ r₂ := EqU.of_nat ur₁ ur₂ (by rw [ha.val, hb.val])
    have dc := okU (C03.u_divCeil_spec c.one₁ c.hn₁ ha.wf₁ hb.wf₁ h0 dbg)
      (C03.u_divCeil_spec c.one₂ c.hn₂ ha.wf₂ hb.wf₂ h0' dbg) (by rw [ha.val, hb.val])
    obtain ⟨o₁, e₁, s₁⟩ := C03.u_checkedNextMultipleOf_spec c.one₁ c.hn₁ ha.wf₁ hb.wf₁ h0 dbg
    obtain ⟨o₂, e₂, s₂⟩ := C03.u_checkedNextMultipleOf_spec c.one₂ c.hn₂ ha.wf₂ hb.wf₂ h0' dbg
    have nm : OptRel (EqU w₁ w₂) o₁ o₂ :=
      optU s₁ s₂ (by rw [c.M_eq, ha.val, hb.val]) (by rw [ha.val, hb.val])
    simp only [f₁, f₂, e₁, e₂]
    exact ⟨eq, er, eq, er, ⟨eq, rfl⟩, ⟨er, rfl⟩, ⟨eq, rfl⟩, ⟨er, rfl⟩, eq, er, eq, er, eq, eq, er, eq,
      er, eq, dc, nm⟩
example : UI.checkedDiv 8 [0x78, 0x56, 0x34, 0x12] [0x00, 0x01, 0, 0] = .ok (some [0x56, 0x34, 0x12, 0]) ∧
    UI.checkedDiv 16 [0x5678, 0x1234] [0x0100, 0] = .ok (some [0x3456, 0x0012]) := by decide

/-- `BInt`: every div / rem form, for ALL operands: zero divisor (both `None` / both panic), `MIN / -1`
    (both report the overflow the same way) and the regular case (truncated resp. Euclidean pair). -/
theorem indep_i_div (c : Cfgs w₁ n₁ w₂ n₂) (ha : SameS w₁ n₁ w₂ n₂ a₁ a₂)
    (hb : SameS w₁ n₁ w₂ n₂ b₁ b₂) (dbg : Bool) :
    OutRel (OptRel (EqS w₁ w₂)) (II.checkedDiv dbg w₁ a₁ b₁) (II.checkedDiv dbg w₂ a₂ b₂) ∧
    OutRel (OptRel (EqS w₁ w₂)) (II.checkedRem dbg w₁ a₁ b₁) (II.checkedRem dbg w₂ a₂ b₂) ∧
    OutRel (OptRel (EqS w₁ w₂)) (II.checkedDivEuclid dbg w₁ a₁ b₁) (II.checkedDivEuclid dbg w₂ a₂ b₂) ∧
    OutRel (OptRel (EqS w₁ w₂)) (II.checkedRemEuclid dbg w₁ a₁ b₁) (II.checkedRemEuclid dbg w₂ a₂ b₂) ∧
    OutRel (PairRel (EqS w₁ w₂)) (II.overflowingDiv dbg w₁ a₁ b₁) (II.overflowingDiv dbg w₂ a₂ b₂) ∧
    OutRel (PairRel (EqS w₁ w₂)) (II.overflowingRem dbg w₁ a₁ b₁) (II.overflowingRem dbg w₂ a₂ b₂) ∧
    OutRel (PairRel (EqS w₁ w₂)) (II.overflowingDivEuclid dbg w₁ a₁ b₁)
      (II.overflowingDivEuclid dbg w₂ a₂ b₂) ∧
    OutRel (PairRel (EqS w₁ w₂)) (II.overflowingRemEuclid dbg w₁ a₁ b₁)
      (II.overflowingRemEuclid dbg w₂ a₂ b₂) ∧
    OutRel (EqS w₁ w₂) (II.wrappingDiv dbg w₁ a₁ b₁) (II.wrappingDiv dbg w₂ a₂ b₂) ∧
    OutRel (EqS w₁ w₂) (II.wrappingRem dbg w₁ a₁ b₁) (II.wrappingRem dbg w₂ a₂ b₂) ∧
    OutRel (EqS w₁ w₂) (II.wrappingDivEuclid dbg w₁ a₁ b₁) (II.wrappingDivEuclid dbg w₂ a₂ b₂) ∧
    OutRel (EqS w₁ w₂) (II.wrappingRemEuclid dbg w₁ a₁ b₁) (II.wrappingRemEuclid dbg w₂ a₂ b₂) ∧
    OutRel (EqS w₁ w₂) (II.saturatingDiv dbg w₁ a₁ b₁) (II.saturatingDiv dbg w₂ a₂ b₂) ∧
    OutRel (EqS w₁ w₂) (II.div dbg w₁ a₁ b₁) (II.div dbg w₂ a₂ b₂) ∧
    OutRel (EqS w₁ w₂) (II.rem dbg w₁ a₁ b₁) (II.rem dbg w₂ a₂ b₂) ∧
    OutRel (EqS w₁ w₂) (II.divEuclid dbg w₁ a₁ b₁) (II.divEuclid dbg w₂ a₂ b₂) ∧
    OutRel (EqS w₁ w₂) (II.remEuclid dbg w₁ a₁ b₁) (II.remEuclid dbg w₂ a₂ b₂) := by
  have hMh : ((M w₁ n₁ / 2 : Nat) : Int) = ((M w₂ n₂ / 2 : Nat) : Int) := by rw [c.M_eq]
  by_cases h0 : S w₁ b₁ = 0
  · have h0' : S w₂ b₂ = 0 := by rw [← hb.val]; exact h0
    have z₁ := C03.i_zero_divisor c.hw₁ c.hn₁ ha.wf₁ hb.wf₁ h0 dbg
    have z₂ := C03.i_zero_divisor c.hw₂ c.hn₂ ha.wf₂ hb.wf₂ h0' dbg
    simp only [z₁, z₂, OutRel, OptRel, and_self]
  · have h0' : S w₂ b₂ ≠ 0 := by rw [← hb.val]; exact h0
    by_cases hov : S w₁ a₁ = -((M w₁ n₁ / 2 : Nat) : Int) ∧ S w₁ b₁ = -1
    · have hov' : S w₂ a₂ = -((M w₂ n₂ / 2 : Nat) : Int) ∧ S w₂ b₂ = -1 := by
        rw [← ha.val, ← hb.val, ← hMh]; exact hov
      have z₁ := (C03.i_min_neg_one c.hw₁ c.hn₁ ha.wf₁ hb.wf₁ hov dbg).2
      have z₂ := (C03.i_min_neg_one c.hw₂ c.hn₂ ha.wf₂ hb.wf₂ hov' dbg).2
      have emin : EqS w₁ w₂ (iMin w₁ n₁) (iMin w₂ n₂) :=
        EqS.of_int (S_iMin c.one₁ c.hn₁) (S_iMin c.one₂ c.hn₂) (by rw [hMh])
      have emax : EqS w₁ w₂ (iMax w₁ n₁) (iMax w₂ n₂) :=
        EqS.of_int (S_iMax c.one₁ c.hn₁) (S_iMax c.one₂ c.hn₂) (by rw [hMh])
      have ezero : EqS w₁ w₂ (zero n₁) (zero n₂) := EqS.of_int (S_zero w₁ n₁) (S_zero w₂ n₂) rfl
      simp only [z₁, z₂]
      exact ⟨trivial, trivial, trivial, trivial, ⟨emin, rfl⟩, ⟨ezero, rfl⟩, ⟨emin, rfl⟩, ⟨ezero, rfl⟩,
        emin, ezero, emin, ezero, emax, trivial, trivial, trivial, trivial⟩
    · have hov' : ¬ (S w₂ a₂ = -((M w₂ n₂ / 2 : Nat) : Int) ∧ S w₂ b₂ = -1) := by
        rw [← ha.val, ← hb.val, ← hMh]; exact hov
      obtain ⟨q₁, r₁, qe₁, re₁, -, -, -, -, sq₁, sr₁, sqe₁, sre₁, f₁⟩ :=
        C03.i_forms c.hw₁ c.hn₁ ha.wf₁ hb.wf₁ h0 hov dbg
      obtain ⟨q₂, r₂, qe₂, re₂, -, -, -, -, sq₂, sr₂, sqe₂, sre₂, f₂⟩ :=
        C03.i_forms c.hw₂ c.hn₂ ha.wf₂ hb.wf₂ h0' hov' dbg
      have eq : EqS w₁ w₂ q₁ q₂ := EqS.of_int sq₁ sq₂ (by rw [ha.val, hb.val])
      have er : EqS w₁ w₂ r₁ r₂ := EqS.of_int sr₁ sr₂ (by rw [ha.val, hb.val])
      have eqe : EqS w₁ w₂ qe₁ qe₂ := EqS.of_int sqe₁ sqe₂ (by rw [ha.val, hb.val])
      have ere : EqS w₁ w₂ re₁ re₂ := EqS.of_int sre₁ sre₂ (by rw [ha.val, hb.val])
      simp only [f₁, f₂]
      exact ⟨eq, er, eqe, ere, ⟨eq, rfl⟩, ⟨er, rfl⟩, ⟨eqe, rfl⟩, ⟨ere, rfl⟩, eq, er, eqe, ere, eq, eq, er,
        eqe, ere⟩
example : II.overflowingDiv true 8 [0, 0, 0, 0x80] [0xff, 0xff, 0xff, 0xff] = .ok ([0, 0, 0, 0x80], true) ∧
    II.overflowingDiv true 16 [0, 0x8000] [0xffff, 0xffff] = .ok ([0, 0x8000], true) := by decide

/-- `BInt`: `div_floor`, `div_ceil`, `checked_next_multiple_of` (zero divisor included; not `MIN / -1`) -/
theorem indep_i_div_round (c : Cfgs w₁ n₁ w₂ n₂) (ha : SameS w₁ n₁ w₂ n₂ a₁ a₂)
    (hb : SameS w₁ n₁ w₂ n₂ b₁ b₂) (dbg : Bool)
    (hov : ¬ (S w₁ a₁ = -(H w₁ n₁ : Int) ∧ S w₁ b₁ = -1)) :
    OutRel (EqS w₁ w₂) (II.divFloor dbg w₁ a₁ b₁) (II.divFloor dbg w₂ a₂ b₂) ∧
    OutRel (EqS w₁ w₂) (II.divCeil dbg w₁ a₁ b₁) (II.divCeil dbg w₂ a₂ b₂) ∧
    OutRel (OptRel (EqS w₁ w₂)) (II.checkedNextMultipleOf dbg w₁ a₁ b₁)
      (II.checkedNextMultipleOf dbg w₂ a₂ b₂) := by
  have hMh : ((M w₁ n₁ / 2 : Nat) : Int) = ((M w₂ n₂ / 2 : Nat) : Int) := by rw [c.M_eq]
  rw [← M_half_eq_H c.one₁ c.hn₁] at hov
  by_cases h0 : S w₁ b₁ = 0
  · have h0' : S w₂ b₂ = 0 := by rw [← hb.val]; exact h0
    have z₁ := C03.i_zero_divisor c.hw₁ c.hn₁ ha.wf₁ hb.wf₁ h0 dbg
    have z₂ := C03.i_zero_divisor c.hw₂ c.hn₂ ha.wf₂ hb.wf₂ h0' dbg
    simp only [z₁, z₂, OutRel, OptRel, and_self]
  · have h0' : S w₂ b₂ ≠ 0 := by rw [← hb.val]; exact h0
    have hov' : ¬ (S w₂ a₂ = -((M w₂ n₂ / 2 : Nat) : Int) ∧ S w₂ b₂ = -1) := by
      rw [← ha.val, ← hb.val, ← hMh]; exact hov
    obtain ⟨o₁, e₁, s₁⟩ := C03.i_checkedNextMultipleOf_spec c.hw₁ c.hn₁ ha.wf₁ hb.wf₁ h0 dbg
    obtain ⟨o₂, e₂, s₂⟩ := C03.i_checkedNextMultipleOf_spec c.hw₂ c.hn₂ ha.wf₂ hb.wf₂ h0' dbg
    have nm : OptRel (EqS w₁ w₂) o₁ o₂ :=
      optS s₁ s₂ (by rw [c.M_eq, ha.val, hb.val]) (by rw [ha.val, hb.val])
    rw [e₁, e₂]
    exact ⟨okS (C03.i_divFloor_spec c.hw₁ c.hn₁ ha.wf₁ hb.wf₁ h0 hov dbg)
        (C03.i_divFloor_spec c.hw₂ c.hn₂ ha.wf₂ hb.wf₂ h0' hov' dbg) (by rw [ha.val, hb.val]),
      okS (C03.i_divCeil_spec c.hw₁ c.hn₁ ha.wf₁ hb.wf₁ h0 hov dbg)
        (C03.i_divCeil_spec c.hw₂ c.hn₂ ha.wf₂ hb.wf₂ h0' hov' dbg) (by rw [ha.val, hb.val]), nm⟩

/-! ### C05: shifts and rotations (every amount `s`, in range or not) -/

/-- `BUint`: `<<`, `>>`, strict / checked / overflowing / wrapping / unbounded shifts -/
theorem indep_u_shift (c : Cfgs w₁ n₁ w₂ n₂) (ha : SameU w₁ n₁ w₂ n₂ a₁ a₂) (s : Nat) (dbg : Bool) :
    (OutRel (EqU w₁ w₂) (UI.shl dbg w₁ a₁ s) (UI.shl dbg w₂ a₂ s) ∧
     OutRel (EqU w₁ w₂) (UI.strictShl w₁ a₁ s) (UI.strictShl w₂ a₂ s) ∧
     OptRel (EqU w₁ w₂) (UI.checkedShl w₁ a₁ s) (UI.checkedShl w₂ a₂ s) ∧
     PairRel (EqU w₁ w₂) (UI.overflowingShl w₁ a₁ s) (UI.overflowingShl w₂ a₂ s) ∧
     EqU w₁ w₂ (UI.wrappingShl w₁ a₁ s) (UI.wrappingShl w₂ a₂ s) ∧
     EqU w₁ w₂ (UI.unboundedShl w₁ a₁ s) (UI.unboundedShl w₂ a₂ s)) ∧
    (OutRel (EqU w₁ w₂) (UI.shr dbg w₁ a₁ s) (UI.shr dbg w₂ a₂ s) ∧
     OutRel (EqU w₁ w₂) (UI.strictShr w₁ a₁ s) (UI.strictShr w₂ a₂ s) ∧
     OptRel (EqU w₁ w₂) (UI.checkedShr w₁ a₁ s) (UI.checkedShr w₂ a₂ s) ∧
     PairRel (EqU w₁ w₂) (UI.overflowingShr w₁ a₁ s) (UI.overflowingShr w₂ a₂ s) ∧
     EqU w₁ w₂ (UI.wrappingShr w₁ a₁ s) (UI.wrappingShr w₂ a₂ s) ∧
     EqU w₁ w₂ (UI.unboundedShr w₁ a₁ s) (UI.unboundedShr w₂ a₂ s)) := by
  have l₁ := ha.wf₁.1; have l₂ := ha.wf₂.1
  have hb := c.bits
  have hpos : 0 < w₁ * n₁ := Nat.mul_pos c.one₁ c.hn₁
  have coreL : ∀ t, t < w₁ * n₁ →
      EqU w₁ w₂ (UI.uncheckedShlInternal w₁ a₁ t) (UI.uncheckedShlInternal w₂ a₂ t) := fun t ht =>
    EqU.of_nat (C05.shl_spec c.one₁ ha.wf₁ ht).2 (C05.shl_spec c.one₂ ha.wf₂ (by omega)).2
      (by rw [ha.val, c.M_eq])
  have coreR : ∀ t, t < w₁ * n₁ →
      EqU w₁ w₂ (UI.uncheckedShrInternal w₁ a₁ t) (UI.uncheckedShrInternal w₂ a₂ t) := fun t ht =>
    EqU.of_nat (C05.u_shr_spec c.one₁ ha.wf₁ ht).2 (C05.u_shr_spec c.one₂ ha.wf₂ (by omega)).2
      (by rw [ha.val])
  have ovL : PairRel (EqU w₁ w₂) (UI.overflowingShl w₁ a₁ s) (UI.overflowingShl w₂ a₂ s) := by
    rw [C05.u_overflowing_shl, C05.u_overflowing_shl, l₁, l₂, ← hb]
    exact ⟨coreL _ (Shift.effAmount_lt s hpos), rfl⟩
  have ovR : PairRel (EqU w₁ w₂) (UI.overflowingShr w₁ a₁ s) (UI.overflowingShr w₂ a₂ s) := by
    rw [C05.u_overflowing_shr, C05.u_overflowing_shr, l₁, l₂, ← hb]
    exact ⟨coreR _ (Shift.effAmount_lt s hpos), rfl⟩
  have ubL : EqU w₁ w₂ (UI.unboundedShl w₁ a₁ s) (UI.unboundedShl w₂ a₂ s) :=
    EqU.of_nat (C05.u_unbounded_shl c.one₁ ha.wf₁).2 (C05.u_unbounded_shl c.one₂ ha.wf₂).2
      (by rw [ha.val, c.M_eq, hb])
  have ubR : EqU w₁ w₂ (UI.unboundedShr w₁ a₁ s) (UI.unboundedShr w₂ a₂ s) :=
    EqU.of_nat (C05.u_unbounded_shr c.one₁ ha.wf₁).2 (C05.u_unbounded_shr c.one₂ ha.wf₂).2
      (by rw [ha.val, hb])
  have chL : OptRel (EqU w₁ w₂) (UI.checkedShl w₁ a₁ s) (UI.checkedShl w₂ a₂ s) := by
    by_cases hs : s < w₁ * n₁
    · rw [(C05.u_inrange dbg (w := w₁) (a := a₁) (by rw [l₁]; exact hs)).2.2.2.2.1,
        (C05.u_inrange dbg (w := w₂) (a := a₂) (by rw [l₂]; omega)).2.2.2.2.1]
      exact coreL s hs
    · rw [C05.u_checked_shl_none.mpr (by rw [l₁]; omega), C05.u_checked_shl_none.mpr (by rw [l₂]; omega)]
      trivial
  have chR : OptRel (EqU w₁ w₂) (UI.checkedShr w₁ a₁ s) (UI.checkedShr w₂ a₂ s) := by
    by_cases hs : s < w₁ * n₁
    · rw [(C05.u_inrange dbg (w := w₁) (a := a₁) (by rw [l₁]; exact hs)).2.2.2.2.2.1,
        (C05.u_inrange dbg (w := w₂) (a := a₂) (by rw [l₂]; omega)).2.2.2.2.2.1]
      exact coreR s hs
    · rw [C05.u_checked_shr_none.mpr (by rw [l₁]; omega), C05.u_checked_shr_none.mpr (by rw [l₂]; omega)]
      trivial
  exact ⟨⟨chL.expect.dbg ovL.wrapping dbg, chL.expect, chL, ovL, ovL.wrapping, ubL⟩,
    ⟨chR.expect.dbg ovR.wrapping dbg, chR.expect, chR, ovR, ovR.wrapping, ubR⟩⟩
example : UI.overflowingShl 8 [0x78, 0x56, 0x34, 0x12] 37 = ([0, 0xcf, 0x8a, 0x46], true) ∧
    UI.overflowingShl 16 [0x5678, 0x1234] 37 = ([0xcf00, 0x468a], true) := by decide

/-- `BInt`: `<<`, `>>` (arithmetic), strict / checked / overflowing / wrapping / unbounded shifts -/
theorem indep_i_shift (c : Cfgs w₁ n₁ w₂ n₂) (ha : SameS w₁ n₁ w₂ n₂ a₁ a₂) (s : Nat) (dbg : Bool) :
    (OutRel (EqS w₁ w₂) (II.shl dbg w₁ a₁ s) (II.shl dbg w₂ a₂ s) ∧
     OutRel (EqS w₁ w₂) (II.strictShl w₁ a₁ s) (II.strictShl w₂ a₂ s) ∧
     OptRel (EqS w₁ w₂) (II.checkedShl w₁ a₁ s) (II.checkedShl w₂ a₂ s) ∧
     PairRel (EqS w₁ w₂) (II.overflowingShl w₁ a₁ s) (II.overflowingShl w₂ a₂ s) ∧
     EqS w₁ w₂ (II.wrappingShl w₁ a₁ s) (II.wrappingShl w₂ a₂ s) ∧
     EqS w₁ w₂ (II.unboundedShl w₁ a₁ s) (II.unboundedShl w₂ a₂ s)) ∧
    (OutRel (EqS w₁ w₂) (II.shr dbg w₁ a₁ s) (II.shr dbg w₂ a₂ s) ∧
     OutRel (EqS w₁ w₂) (II.strictShr w₁ a₁ s) (II.strictShr w₂ a₂ s) ∧
     OptRel (EqS w₁ w₂) (II.checkedShr w₁ a₁ s) (II.checkedShr w₂ a₂ s) ∧
     PairRel (EqS w₁ w₂) (II.overflowingShr w₁ a₁ s) (II.overflowingShr w₂ a₂ s) ∧
     EqS w₁ w₂ (II.wrappingShr w₁ a₁ s) (II.wrappingShr w₂ a₂ s) ∧
     EqS w₁ w₂ (II.unboundedShr w₁ a₁ s) (II.unboundedShr w₂ a₂ s)) := by
  have l₁ := ha.wf₁.1; have l₂ := ha.wf₂.1
  have hb := c.bits
  have hu := ha.toU c
  have hpos : 0 < w₁ * n₁ := Nat.mul_pos c.one₁ c.hn₁
  have coreL : ∀ t, t < w₁ * n₁ →
      EqS w₁ w₂ (UI.uncheckedShlInternal w₁ a₁ t) (UI.uncheckedShlInternal w₂ a₂ t) := fun t ht =>
    (EqU.of_nat (C05.shl_spec c.one₁ ha.wf₁ ht).2 (C05.shl_spec c.one₂ ha.wf₂ (by omega)).2
      (by rw [hu.val, c.M_eq])).toS c (C05.shl_spec c.one₁ ha.wf₁ ht).1
      (C05.shl_spec c.one₂ ha.wf₂ (by omega)).1
  have coreR : ∀ t, t < w₁ * n₁ → EqS w₁ w₂ (II.shrVal w₁ a₁ t) (II.shrVal w₂ a₂ t) := fun t ht =>
    EqS.of_int (C05.i_shr_spec c.one₁ c.hn₁ ha.wf₁ ht).2
      (C05.i_shr_spec c.one₂ c.hn₂ ha.wf₂ (by omega)).2 (by rw [ha.val])
  have ovL : PairRel (EqS w₁ w₂) (II.overflowingShl w₁ a₁ s) (II.overflowingShl w₂ a₂ s) := by
    rw [C05.i_overflowing_shl, C05.i_overflowing_shl, l₁, l₂, ← hb]
    exact ⟨coreL _ (Shift.effAmount_lt s hpos), rfl⟩
  have ovR : PairRel (EqS w₁ w₂) (II.overflowingShr w₁ a₁ s) (II.overflowingShr w₂ a₂ s) := by
    rw [C05.i_overflowing_shr, C05.i_overflowing_shr, l₁, l₂, ← hb]
    exact ⟨coreR _ (Shift.effAmount_lt s hpos), rfl⟩
  have ubL : EqS w₁ w₂ (II.unboundedShl w₁ a₁ s) (II.unboundedShl w₂ a₂ s) :=
    (EqU.of_nat (C05.i_unbounded_shl c.one₁ ha.wf₁).2 (C05.i_unbounded_shl c.one₂ ha.wf₂).2
      (by rw [hu.val, c.M_eq, hb])).toS c (C05.i_unbounded_shl c.one₁ ha.wf₁).1
      (C05.i_unbounded_shl c.one₂ ha.wf₂).1
  have ubR : EqS w₁ w₂ (II.unboundedShr w₁ a₁ s) (II.unboundedShr w₂ a₂ s) :=
    EqS.of_int (C05.i_unbounded_shr c.one₁ c.hn₁ ha.wf₁).2 (C05.i_unbounded_shr c.one₂ c.hn₂ ha.wf₂).2
      (by rw [ha.val, hb])
  have chL : OptRel (EqS w₁ w₂) (II.checkedShl w₁ a₁ s) (II.checkedShl w₂ a₂ s) := by
    by_cases hs : s < w₁ * n₁
    · rw [(C05.i_inrange dbg (w := w₁) (a := a₁) (by rw [l₁]; exact hs)).2.2.2.2.1,
        (C05.i_inrange dbg (w := w₂) (a := a₂) (by rw [l₂]; omega)).2.2.2.2.1]
      exact coreL s hs
    · rw [C05.i_checked_shl_none.mpr (by rw [l₁]; omega), C05.i_checked_shl_none.mpr (by rw [l₂]; omega)]
      trivial
  have chR : OptRel (EqS w₁ w₂) (II.checkedShr w₁ a₁ s) (II.checkedShr w₂ a₂ s) := by
    by_cases hs : s < w₁ * n₁
    · rw [(C05.i_inrange dbg (w := w₁) (a := a₁) (by rw [l₁]; exact hs)).2.2.2.2.2.1,
        (C05.i_inrange dbg (w := w₂) (a := a₂) (by rw [l₂]; omega)).2.2.2.2.2.1]
      exact coreR s hs
    · rw [C05.i_checked_shr_none.mpr (by rw [l₁]; omega), C05.i_checked_shr_none.mpr (by rw [l₂]; omega)]
      trivial
  exact ⟨⟨chL.expect.dbg ovL.wrapping dbg, chL.expect, chL, ovL, ovL.wrapping, ubL⟩,
    ⟨chR.expect.dbg ovR.wrapping dbg, chR.expect, chR, ovR, ovR.wrapping, ubR⟩⟩
example : II.overflowingShr 8 [0x78, 0x56, 0x34, 0x92] 37 = ([179, 162, 145, 252], true) ∧
    II.overflowingShr 16 [0x5678, 0x9234] 37 = ([41651, 64657], true) ∧
    S 8 [179, 162, 145, 252] = S 16 [41651, 64657] := by decide

/-- `rotate_left`, `rotate_right` (both signednesses: `BInt` rotates its bit pattern), every amount,
    every width including the non-powers of two -/
theorem indep_rotate (c : Cfgs w₁ n₁ w₂ n₂) (ha : SameU w₁ n₁ w₂ n₂ a₁ a₂) (k : Nat) :
    EqU w₁ w₂ (UI.rotateLeft w₁ a₁ k) (UI.rotateLeft w₂ a₂ k) ∧
    EqU w₁ w₂ (UI.rotateRight w₁ a₁ k) (UI.rotateRight w₂ a₂ k) ∧
    EqU w₁ w₂ (II.rotateLeft w₁ a₁ k) (II.rotateLeft w₂ a₂ k) ∧
    EqU w₁ w₂ (II.rotateRight w₁ a₁ k) (II.rotateRight w₂ a₂ k) :=
  have l := EqU.of_nat (C05.rotl_spec c.one₁ c.hn₁ ha.wf₁ k).2 (C05.rotl_spec c.one₂ c.hn₂ ha.wf₂ k).2
    (by rw [ha.val, c.M_eq, c.bits])
  have r := EqU.of_nat (C05.rotr_spec c.one₁ c.hn₁ ha.wf₁ k).2 (C05.rotr_spec c.one₂ c.hn₂ ha.wf₂ k).2
    (by rw [ha.val, c.M_eq, c.bits])
  ⟨l, r, l, r⟩
example : UI.rotateLeft 8 [0x78, 0x56, 0x34, 0x12] 37 = [2, 207, 138, 70] ∧
    UI.rotateLeft 16 [0x5678, 0x1234] 37 = [52994, 18058] ∧
    U 8 [2, 207, 138, 70] = U 16 [52994, 18058] := by decide

/-! ### C06: bit operations (the `BInt` functions forward to these on the same digit list:
    `C06.signed_forwarders`, so `ha := (h : SameS …).toU c` gives the signed statements) -/

/-- `&`, `|`, `^`, `!` -/
theorem indep_logic (c : Cfgs w₁ n₁ w₂ n₂) (ha : SameU w₁ n₁ w₂ n₂ a₁ a₂)
    (hb : SameU w₁ n₁ w₂ n₂ b₁ b₂) :
    EqU w₁ w₂ (UI.bitand a₁ b₁) (UI.bitand a₂ b₂) ∧ EqU w₁ w₂ (UI.bitor a₁ b₁) (UI.bitor a₂ b₂) ∧
    EqU w₁ w₂ (UI.bitxor a₁ b₁) (UI.bitxor a₂ b₂) ∧ EqU w₁ w₂ (UI.not w₁ a₁) (UI.not w₂ a₂) :=
  have l₁ := C06.logic_spec ha.wf₁ hb.wf₁
  have l₂ := C06.logic_spec ha.wf₂ hb.wf₂
  ⟨EqU.of_nat l₁.1.2 l₂.1.2 (by rw [ha.val, hb.val]), EqU.of_nat l₁.2.1.2 l₂.2.1.2 (by rw [ha.val, hb.val]),
   EqU.of_nat l₁.2.2.2 l₂.2.2.2 (by rw [ha.val, hb.val]),
   EqU.of_nat (C06.not_spec ha.wf₁).2.1 (C06.not_spec ha.wf₂).2.1 (by rw [ha.val, c.M_eq])⟩

/-- `count_ones`, `count_zeros`, `leading_zeros`, `trailing_zeros`, `leading_ones`, `trailing_ones`,
    `bits`, `is_zero`, `is_one`, `is_power_of_two`: the same numbers / booleans -/
theorem indep_counts (c : Cfgs w₁ n₁ w₂ n₂) (ha : SameU w₁ n₁ w₂ n₂ a₁ a₂) :
    UI.countOnes w₁ a₁ = UI.countOnes w₂ a₂ ∧ UI.countZeros w₁ a₁ = UI.countZeros w₂ a₂ ∧
    UI.leadingZeros w₁ a₁ = UI.leadingZeros w₂ a₂ ∧ UI.trailingZeros w₁ a₁ = UI.trailingZeros w₂ a₂ ∧
    UI.leadingOnes w₁ a₁ = UI.leadingOnes w₂ a₂ ∧ UI.trailingOnes w₁ a₁ = UI.trailingOnes w₂ a₂ ∧
    UI.bits w₁ a₁ = UI.bits w₂ a₂ ∧ isZero a₁ = isZero a₂ ∧ isOne a₁ = isOne a₂ ∧
    UI.isPowerOfTwo w₁ a₁ = UI.isPowerOfTwo w₂ a₂ := by
  have k₁ := C06.count_spec ha.wf₁; have k₂ := C06.count_spec ha.wf₂
  have z₁ := C06.leading_zeros_spec ha.wf₁; have z₂ := C06.leading_zeros_spec ha.wf₂
  have o₁ := C06.ones_spec ha.wf₁; have o₂ := C06.ones_spec ha.wf₂
  have b₁' := C06.is_zero_one_iff c.one₁ ha.wf₁; have b₂' := C06.is_zero_one_iff c.one₂ ha.wf₂
  have p₁ := C06.is_power_of_two_iff ha.wf₁; have p₂ := C06.is_power_of_two_iff ha.wf₂
  refine ⟨by rw [k₁.1, k₂.1, ha.val, c.bits], by rw [k₁.2, k₂.2, ha.val, c.bits],
    by rw [z₁.1, z₂.1, ha.val, c.bits],
    by rw [C06.trailing_zeros_spec ha.wf₁, C06.trailing_zeros_spec ha.wf₂, ha.val, c.bits],
    by rw [o₁.2.2.1, o₂.2.2.1, ha.val, c.bits], by rw [o₁.2.2.2, o₂.2.2.2, ha.val, c.bits],
    by rw [z₁.2.1, z₂.2.1, ha.val], ?_, ?_, ?_⟩
  · rw [Bool.eq_iff_iff, b₁'.1, b₂'.1, ha.val]
  · rw [Bool.eq_iff_iff, b₁'.2, b₂'.2, ha.val]
  · rw [Bool.eq_iff_iff, p₁, p₂, ha.val]
example : UI.leadingZeros 8 [0x78, 0x56, 0x34, 0x00] = 10 ∧ UI.leadingZeros 16 [0x5678, 0x0034] = 10 := by
  decide

/-- `BInt::is_power_of_two` (negative values excluded) -/
theorem indep_i_is_power_of_two (c : Cfgs w₁ n₁ w₂ n₂) (ha : SameS w₁ n₁ w₂ n₂ a₁ a₂) :
    II.isPowerOfTwo w₁ a₁ = II.isPowerOfTwo w₂ a₂ := by
  rw [Bool.eq_iff_iff, C06.i_is_power_of_two_iff c.one₁ c.hn₁ ha.wf₁,
    C06.i_is_power_of_two_iff c.one₂ c.hn₂ ha.wf₂, ha.val]

/-- `bit(i)`, `set_bit(i, v)`, `power_of_two(k)`, `checked_` / `wrapping_` / `next_power_of_two`
    (digit widths `2^s`, as for every real digit type; index panics included) -/
theorem indep_bit {s₁ s₂ : Nat} (hs₁ : s₁ < 32) (hs₂ : s₂ < 32) (c : Cfgs (2 ^ s₁) n₁ (2 ^ s₂) n₂)
    (ha : SameU (2 ^ s₁) n₁ (2 ^ s₂) n₂ a₁ a₂) (i : Nat) (v dbg : Bool) :
    UI.bit (2 ^ s₁) a₁ i = UI.bit (2 ^ s₂) a₂ i ∧
    OutRel (EqU (2 ^ s₁) (2 ^ s₂)) (UI.setBit (2 ^ s₁) a₁ i v) (UI.setBit (2 ^ s₂) a₂ i v) ∧
    OutRel (EqU (2 ^ s₁) (2 ^ s₂)) (UI.powerOfTwo (2 ^ s₁) n₁ i) (UI.powerOfTwo (2 ^ s₂) n₂ i) ∧
    OutRel (OptRel (EqU (2 ^ s₁) (2 ^ s₂))) (UI.checkedNextPowerOfTwo (2 ^ s₁) a₁)
      (UI.checkedNextPowerOfTwo (2 ^ s₂) a₂) ∧
    OutRel (EqU (2 ^ s₁) (2 ^ s₂)) (UI.wrappingNextPowerOfTwo (2 ^ s₁) a₁)
      (UI.wrappingNextPowerOfTwo (2 ^ s₂) a₂) ∧
    OutRel (EqU (2 ^ s₁) (2 ^ s₂)) (UI.nextPowerOfTwo dbg (2 ^ s₁) a₁)
      (UI.nextPowerOfTwo dbg (2 ^ s₂) a₂) := by
  have hb := c.bits
  have chk : OutRel (OptRel (EqU (2 ^ s₁) (2 ^ s₂))) (UI.checkedNextPowerOfTwo (2 ^ s₁) a₁)
      (UI.checkedNextPowerOfTwo (2 ^ s₂) a₂) :=
    outOpt_of_map (C06.checked_next_power_of_two_eq_spec hs₁ ha.wf₁)
      (C06.checked_next_power_of_two_eq_spec hs₂ ha.wf₂) (by rw [ha.val, hb])
  have wr : OutRel (EqU (2 ^ s₁) (2 ^ s₂)) (UI.wrappingNextPowerOfTwo (2 ^ s₁) a₁)
      (UI.wrappingNextPowerOfTwo (2 ^ s₂) a₂) := by
    refine chk.map (fun o₁ o₂ h => ?_)
    cases o₁ <;> cases o₂ <;> simp only [OptRel] at h
    · exact EqU.of_nat (U_zero _ _) (U_zero _ _) rfl
    · exact h
  refine ⟨?_, ?_, ?_, chk, wr, ?_⟩
  · rw [C06.bit_spec hs₁ ha.wf₁, C06.bit_spec hs₂ ha.wf₂, ha.val, hb]
  · by_cases hi : i < 2 ^ s₁ * n₁
    · obtain ⟨r₁, e₁, -, u₁⟩ := C06.set_bit_eq_spec hs₁ ha.wf₁ hi v
      obtain ⟨r₂, e₂, -, u₂⟩ := C06.set_bit_eq_spec (i := i) hs₂ ha.wf₂ (by omega) v
      rw [e₁, e₂]; exact EqU.of_nat u₁ u₂ (by rw [ha.val])
    · rw [(C06.set_bit_spec hs₁ ha.wf₁ i v).1 (by omega), (C06.set_bit_spec hs₂ ha.wf₂ i v).1 (by omega)]
      trivial
  · by_cases hi : i < 2 ^ s₁ * n₁
    · obtain ⟨r₁, e₁, -, u₁⟩ := (C06.power_of_two_spec hs₁ n₁ i).2 hi
      obtain ⟨r₂, e₂, -, u₂⟩ := (C06.power_of_two_spec hs₂ n₂ i).2 (by omega)
      rw [e₁, e₂]; exact EqU.of_nat u₁ u₂ rfl
    · rw [(C06.power_of_two_spec hs₁ n₁ i).1 (by omega), (C06.power_of_two_spec hs₂ n₂ i).1 (by omega)]
      trivial
  · cases dbg
    · exact wr
    · exact chk.bind (fun o₁ o₂ h => h.expect)
example : UI.setBit (2 ^ 3) [0x78, 0x56, 0x34, 0x12] 19 true = .ok [0x78, 0x56, 0x3c, 0x12] ∧
    UI.setBit (2 ^ 4) [0x5678, 0x1234] 19 true = .ok [0x5678, 0x123c] := by decide

/-- `reverse_bits`, `swap_bytes` (digit widths that are whole bytes) -/
theorem indep_reverse_swap {nb₁ nb₂ : Nat} (h₁ : 1 ≤ nb₁) (h₂ : 1 ≤ nb₂)
    (c : Cfgs (8 * nb₁) n₁ (8 * nb₂) n₂) (ha : SameU (8 * nb₁) n₁ (8 * nb₂) n₂ a₁ a₂) :
    EqU (8 * nb₁) (8 * nb₂) (UI.reverseBits (8 * nb₁) a₁) (UI.reverseBits (8 * nb₂) a₂) ∧
    EqU (8 * nb₁) (8 * nb₂) (UI.swapBytes (8 * nb₁) a₁) (UI.swapBytes (8 * nb₂) a₂) :=
  have e₁ := C06.reverse_swap_eq_spec h₁ ha.wf₁
  have e₂ := C06.reverse_swap_eq_spec h₂ ha.wf₂
  ⟨EqU.of_nat e₁.1 e₂.1 (by rw [ha.val, c.bits]), EqU.of_nat e₁.2 e₂.2 (by rw [ha.val, c.bits])⟩
example : UI.swapBytes (8 * 1) [0x78, 0x56, 0x34, 0x12] = [0x12, 0x34, 0x56, 0x78] ∧
    UI.swapBytes (8 * 2) [0x5678, 0x1234] = [0x3412, 0x7856] := by decide

/-! ### C07: comparisons and sign -/

/-- `BUint`: `cmp`, `partial_cmp`, `eq`, `ne`, `==`, `<`, `<=`, `>`, `>=`, `max`, `min`, `clamp` -/
theorem indep_u_cmp {m₁ m₂ x₁ x₂ : List Nat} (_c : Cfgs w₁ n₁ w₂ n₂) (ha : SameU w₁ n₁ w₂ n₂ a₁ a₂)
    (hb : SameU w₁ n₁ w₂ n₂ b₁ b₂) (hm : SameU w₁ n₁ w₂ n₂ m₁ m₂) (hx : SameU w₁ n₁ w₂ n₂ x₁ x₂) :
    UI.cmp a₁ b₁ = UI.cmp a₂ b₂ ∧
    Traits.partialCmp UI.cmp a₁ b₁ = Traits.partialCmp UI.cmp a₂ b₂ ∧
    UI.eq a₁ b₁ = UI.eq a₂ b₂ ∧ UI.ne a₁ b₁ = UI.ne a₂ b₂ ∧
    Traits.opEq a₁ b₁ = Traits.opEq a₂ b₂ ∧ Traits.opNe a₁ b₁ = Traits.opNe a₂ b₂ ∧
    CmpImpl.lt UI.cmp a₁ b₁ = CmpImpl.lt UI.cmp a₂ b₂ ∧ CmpImpl.le UI.cmp a₁ b₁ = CmpImpl.le UI.cmp a₂ b₂ ∧
    CmpImpl.gt UI.cmp a₁ b₁ = CmpImpl.gt UI.cmp a₂ b₂ ∧ CmpImpl.ge UI.cmp a₁ b₁ = CmpImpl.ge UI.cmp a₂ b₂ ∧
    EqU w₁ w₂ (CmpImpl.max UI.cmp a₁ b₁) (CmpImpl.max UI.cmp a₂ b₂) ∧
    EqU w₁ w₂ (CmpImpl.min UI.cmp a₁ b₁) (CmpImpl.min UI.cmp a₂ b₂) ∧
    OutRel (EqU w₁ w₂) (CmpImpl.clamp UI.cmp a₁ m₁ x₁) (CmpImpl.clamp UI.cmp a₂ m₂ x₂) := by
  have hc : UI.cmp a₁ b₁ = UI.cmp a₂ b₂ := by
    rw [C07.u_cmp_spec ha.wf₁ hb.wf₁, C07.u_cmp_spec ha.wf₂ hb.wf₂, ha.val, hb.val]
  have e₁ := C07.u_eq_iff ha.wf₁ hb.wf₁; have e₂ := C07.u_eq_iff ha.wf₂ hb.wf₂
  have heq : UI.eq a₁ b₁ = UI.eq a₂ b₂ := by
    rw [Bool.eq_iff_iff, e₁.1, e₂.1, e₁.2, e₂.2, ha.val, hb.val]
  have o₁ := C07.u_op_eq_iff ha.wf₁ hb.wf₁; have o₂ := C07.u_op_eq_iff ha.wf₂ hb.wf₂
  refine ⟨hc, by unfold Traits.partialCmp; rw [hc], heq, by unfold UI.ne; rw [heq],
    by rw [Bool.eq_iff_iff, o₁.1, o₂.1, ha.val, hb.val], by rw [Bool.eq_iff_iff, o₁.2, o₂.2, ha.val, hb.val],
    by unfold CmpImpl.lt; rw [hc], by unfold CmpImpl.le; rw [hc], by unfold CmpImpl.gt; rw [hc],
    by unfold CmpImpl.ge; rw [hc],
    EqU.of_nat (C07.u_max_spec ha.wf₁ hb.wf₁).2 (C07.u_max_spec ha.wf₂ hb.wf₂).2 (by rw [ha.val, hb.val]),
    EqU.of_nat (C07.u_min_spec ha.wf₁ hb.wf₁).2 (C07.u_min_spec ha.wf₂ hb.wf₂).2 (by rw [ha.val, hb.val]),
    ?_⟩
  have k₁ := C07.u_clamp_spec ha.wf₁ hm.wf₁ hx.wf₁
  have k₂ := C07.u_clamp_spec ha.wf₂ hm.wf₂ hx.wf₂
  by_cases hle : U w₁ m₁ ≤ U w₁ x₁
  · obtain ⟨r₁, q₁, -, u₁⟩ := k₁.2 hle
    obtain ⟨r₂, q₂, -, u₂⟩ := k₂.2 (by rw [← hm.val, ← hx.val]; exact hle)
    rw [q₁, q₂]; exact EqU.of_nat u₁ u₂ (by rw [ha.val, hm.val, hx.val])
  · rw [k₁.1.mpr (by omega), k₂.1.mpr (by rw [← hm.val, ← hx.val]; omega)]; trivial

/-- `BInt`: `cmp`, `partial_cmp`, `eq`, `ne`, `==`, `<`, `<=`, `>`, `>=`, `max`, `min`, `clamp`,
    `is_negative`, `is_positive`, `signum` -/
theorem indep_i_cmp {m₁ m₂ x₁ x₂ : List Nat} (c : Cfgs w₁ n₁ w₂ n₂) (ha : SameS w₁ n₁ w₂ n₂ a₁ a₂)
    (hb : SameS w₁ n₁ w₂ n₂ b₁ b₂) (hm : SameS w₁ n₁ w₂ n₂ m₁ m₂) (hx : SameS w₁ n₁ w₂ n₂ x₁ x₂) :
    II.cmp w₁ a₁ b₁ = II.cmp w₂ a₂ b₂ ∧
    Traits.partialCmp (II.cmp w₁) a₁ b₁ = Traits.partialCmp (II.cmp w₂) a₂ b₂ ∧
    II.eq a₁ b₁ = II.eq a₂ b₂ ∧ II.ne a₁ b₁ = II.ne a₂ b₂ ∧
    Traits.opEq a₁ b₁ = Traits.opEq a₂ b₂ ∧ Traits.opNe a₁ b₁ = Traits.opNe a₂ b₂ ∧
    CmpImpl.lt (II.cmp w₁) a₁ b₁ = CmpImpl.lt (II.cmp w₂) a₂ b₂ ∧
    CmpImpl.le (II.cmp w₁) a₁ b₁ = CmpImpl.le (II.cmp w₂) a₂ b₂ ∧
    CmpImpl.gt (II.cmp w₁) a₁ b₁ = CmpImpl.gt (II.cmp w₂) a₂ b₂ ∧
    CmpImpl.ge (II.cmp w₁) a₁ b₁ = CmpImpl.ge (II.cmp w₂) a₂ b₂ ∧
    EqS w₁ w₂ (CmpImpl.max (II.cmp w₁) a₁ b₁) (CmpImpl.max (II.cmp w₂) a₂ b₂) ∧
    EqS w₁ w₂ (CmpImpl.min (II.cmp w₁) a₁ b₁) (CmpImpl.min (II.cmp w₂) a₂ b₂) ∧
    OutRel (EqS w₁ w₂) (CmpImpl.clamp (II.cmp w₁) a₁ m₁ x₁) (CmpImpl.clamp (II.cmp w₂) a₂ m₂ x₂) ∧
    isNegative w₁ a₁ = isNegative w₂ a₂ ∧ II.isPositive w₁ a₁ = II.isPositive w₂ a₂ ∧
    EqS w₁ w₂ (II.signum w₁ a₁) (II.signum w₂ a₂) := by
  have hc : II.cmp w₁ a₁ b₁ = II.cmp w₂ a₂ b₂ := by
    rw [C07.i_cmp_spec c.one₁ c.hn₁ ha.wf₁ hb.wf₁, C07.i_cmp_spec c.one₂ c.hn₂ ha.wf₂ hb.wf₂, ha.val,
      hb.val]
  have e₁ := C07.i_eq_iff ha.wf₁ hb.wf₁; have e₂ := C07.i_eq_iff ha.wf₂ hb.wf₂
  have heq : II.eq a₁ b₁ = II.eq a₂ b₂ := by
    rw [Bool.eq_iff_iff, e₁.1, e₂.1, e₁.2, e₂.2, ha.val, hb.val]
  have o₁ := C07.i_op_eq_iff ha.wf₁ hb.wf₁; have o₂ := C07.i_op_eq_iff ha.wf₂ hb.wf₂
  refine ⟨hc, by unfold Traits.partialCmp; rw [hc], heq, by unfold II.ne; rw [heq],
    by rw [Bool.eq_iff_iff, o₁.1, o₂.1, ha.val, hb.val], by rw [Bool.eq_iff_iff, o₁.2, o₂.2, ha.val, hb.val],
    by unfold CmpImpl.lt; rw [hc], by unfold CmpImpl.le; rw [hc], by unfold CmpImpl.gt; rw [hc],
    by unfold CmpImpl.ge; rw [hc],
    EqS.of_int (C07.i_max_spec c.one₁ c.hn₁ ha.wf₁ hb.wf₁).2 (C07.i_max_spec c.one₂ c.hn₂ ha.wf₂ hb.wf₂).2
      (by rw [ha.val, hb.val]),
    EqS.of_int (C07.i_min_spec c.one₁ c.hn₁ ha.wf₁ hb.wf₁).2 (C07.i_min_spec c.one₂ c.hn₂ ha.wf₂ hb.wf₂).2
      (by rw [ha.val, hb.val]),
    ?_, ?_, ?_,
    EqS.of_int (C07.signum_spec c.hw₁ c.hn₁ ha.wf₁).2 (C07.signum_spec c.hw₂ c.hn₂ ha.wf₂).2
      (by rw [ha.val])⟩
  · have k₁ := C07.i_clamp_spec c.one₁ c.hn₁ ha.wf₁ hm.wf₁ hx.wf₁
    have k₂ := C07.i_clamp_spec c.one₂ c.hn₂ ha.wf₂ hm.wf₂ hx.wf₂
    by_cases hle : S w₁ m₁ ≤ S w₁ x₁
    · obtain ⟨r₁, q₁, -, u₁⟩ := k₁.2 hle
      obtain ⟨r₂, q₂, -, u₂⟩ := k₂.2 (by rw [← hm.val, ← hx.val]; exact hle)
      rw [q₁, q₂]; exact EqS.of_int u₁ u₂ (by rw [ha.val, hm.val, hx.val])
    · rw [k₁.1.mpr (by omega), k₂.1.mpr (by rw [← hm.val, ← hx.val]; omega)]; trivial
  · rw [Bool.eq_iff_iff, C07.is_negative_iff c.one₁ c.hn₁ ha.wf₁, C07.is_negative_iff c.one₂ c.hn₂ ha.wf₂,
      ha.val]
  · rw [Bool.eq_iff_iff, C07.is_positive_iff c.one₁ c.hn₁ ha.wf₁, C07.is_positive_iff c.one₂ c.hn₂ ha.wf₂,
      ha.val]
example : II.cmp 8 [0xfe, 0xff, 0xff, 0xff] [0x01, 0, 0, 0] = .lt ∧
    II.cmp 16 [0xfffe, 0xffff] [0x0001, 0] = .lt := by decide

/-! ### C08: pow and integer logarithms -/

/-- `BUint`: `overflowing_pow`, `checked_pow`, `strict_pow`, `wrapping_pow`, `saturating_pow`, `pow` -/
theorem indep_u_pow (c : Cfgs w₁ n₁ w₂ n₂) (ha : SameU w₁ n₁ w₂ n₂ a₁ a₂) (e : Nat) (dbg : Bool) :
    PairRel (EqU w₁ w₂) (UI.overflowingPow w₁ a₁ e) (UI.overflowingPow w₂ a₂ e) ∧
    OptRel (EqU w₁ w₂) (UI.checkedPow w₁ a₁ e) (UI.checkedPow w₂ a₂ e) ∧
    OutRel (EqU w₁ w₂) (UI.strictPow w₁ a₁ e) (UI.strictPow w₂ a₂ e) ∧
    EqU w₁ w₂ (UI.wrappingPow w₁ a₁ e) (UI.wrappingPow w₂ a₂ e) ∧
    EqU w₁ w₂ (UI.saturatingPow w₁ a₁ e) (UI.saturatingPow w₂ a₂ e) ∧
    OutRel (EqU w₁ w₂) (UI.pow w₁ dbg a₁ e) (UI.pow w₂ dbg a₂ e) := by
  have hz : (U w₁ a₁ : Int) ^ e = (U w₂ a₂ : Int) ^ e := by rw [ha.val]
  have p := ovfU' c.M_eq (C08.u_overflowing_pow_int c.one₁ c.hn₁ ha.wf₁ e)
    (C08.u_overflowing_pow_int c.one₂ c.hn₂ ha.wf₂ e) hz
  have l₁ := C08.u_pow_loops_agree c.one₁ c.hn₁ ha.wf₁ e
  have l₂ := C08.u_pow_loops_agree c.one₂ c.hn₂ ha.wf₂ e
  have chk : OptRel (EqU w₁ w₂) (UI.checkedPow w₁ a₁ e) (UI.checkedPow w₂ a₂ e) := by
    rw [l₁.1, l₂.1]; exact p.checked
  have wr : EqU w₁ w₂ (UI.wrappingPow w₁ a₁ e) (UI.wrappingPow w₂ a₂ e) := by
    rw [l₁.2, l₂.2]; exact p.wrapping
  exact ⟨p, chk, chk.expect, wr,
    EqU.of_int (C08.u_saturating_pow c.one₁ c.hn₁ ha.wf₁ e).2 (C08.u_saturating_pow c.one₂ c.hn₂ ha.wf₂ e).2
      (by rw [c.M_eq, hz]),
    chk.expect.dbg wr dbg⟩

/-- `BInt`: `overflowing_pow`, `checked_pow`, `strict_pow`, `wrapping_pow`, `saturating_pow`, `pow` -/
theorem indep_i_pow (c : Cfgs w₁ n₁ w₂ n₂) (ha : SameS w₁ n₁ w₂ n₂ a₁ a₂) (e : Nat) (dbg : Bool) :
    PairRel (EqS w₁ w₂) (II.overflowingPow w₁ a₁ e) (II.overflowingPow w₂ a₂ e) ∧
    OptRel (EqS w₁ w₂) (II.checkedPow w₁ a₁ e) (II.checkedPow w₂ a₂ e) ∧
    OutRel (EqS w₁ w₂) (II.strictPow w₁ a₁ e) (II.strictPow w₂ a₂ e) ∧
    EqS w₁ w₂ (II.wrappingPow w₁ a₁ e) (II.wrappingPow w₂ a₂ e) ∧
    EqS w₁ w₂ (II.saturatingPow w₁ a₁ e) (II.saturatingPow w₂ a₂ e) ∧
    OutRel (EqS w₁ w₂) (II.pow w₁ dbg a₁ e) (II.pow w₂ dbg a₂ e) := by
  have hz : S w₁ a₁ ^ e = S w₂ a₂ ^ e := by rw [ha.val]
  have p := ovfS c.M_eq (II.overflowingPow_spec c.hw₁ c.hn₁ ha.wf₁ e)
    (II.overflowingPow_spec c.hw₂ c.hn₂ ha.wf₂ e) hz
  have chk : OptRel (EqS w₁ w₂) (II.checkedPow w₁ a₁ e) (II.checkedPow w₂ a₂ e) := by
    rw [C08.i_checked_pow_proj c.hw₁ c.hn₁ ha.wf₁ e, C08.i_checked_pow_proj c.hw₂ c.hn₂ ha.wf₂ e]
    exact p.checked
  have wr := EqS.of_int (C08.i_wrapping_pow c.one₁ c.hn₁ ha.wf₁ e).2
    (C08.i_wrapping_pow c.one₂ c.hn₂ ha.wf₂ e).2 (by rw [c.M_eq, hz])
  exact ⟨p, chk, chk.expect, wr,
    EqS.of_int (C08.i_saturating_pow c.hw₁ c.hn₁ ha.wf₁ e).2 (C08.i_saturating_pow c.hw₂ c.hn₂ ha.wf₂ e).2
      (by rw [c.M_eq, hz]),
    chk.expect.dbg wr dbg⟩
example : II.overflowingPow 8 [0xfe, 0xff, 0xff, 0xff] 31 = ([0, 0, 0, 0x80], false) ∧
    II.overflowingPow 16 [0xfffe, 0xffff] 31 = ([0, 0x8000], false) := by decide

/-- `BUint`: `checked_ilog`, `checked_ilog2`, `checked_ilog10`, `ilog`, `ilog2`, `ilog10` return the
    same `u32` / `None` / panic (`BITS < 2^32`, `10 < 2^w`) -/
theorem indep_u_ilog (c : Cfgs w₁ n₁ w₂ n₂) (hW : w₁ * n₁ < 2 ^ 32) (h10₁ : 10 < B w₁) (h10₂ : 10 < B w₂)
    (ha : SameU w₁ n₁ w₂ n₂ a₁ a₂) (hb : SameU w₁ n₁ w₂ n₂ b₁ b₂) (dbg : Bool) :
    UI.checkedIlog dbg w₁ a₁ b₁ = UI.checkedIlog dbg w₂ a₂ b₂ ∧
    UI.checkedIlog2 w₁ a₁ = UI.checkedIlog2 w₂ a₂ ∧
    UI.checkedIlog10 dbg w₁ a₁ = UI.checkedIlog10 dbg w₂ a₂ ∧
    UI.ilog dbg w₁ a₁ b₁ = UI.ilog dbg w₂ a₂ b₂ ∧ UI.ilog2 w₁ a₁ = UI.ilog2 w₂ a₂ ∧
    UI.ilog10 dbg w₁ a₁ = UI.ilog10 dbg w₂ a₂ := by
  have hW₂ : w₂ * n₂ < 2 ^ 32 := by rw [← c.bits]; exact hW
  refine ⟨?_, ?_, ?_, ?_, ?_, ?_⟩
  · rw [C08.u_checked_ilog c.hw₁ c.hn₁ hW ha.wf₁ hb.wf₁ dbg, C08.u_checked_ilog c.hw₂ c.hn₂ hW₂ ha.wf₂ hb.wf₂ dbg,
      ha.val, hb.val]
  · rw [C08.u_checked_ilog2 ha.wf₁, C08.u_checked_ilog2 ha.wf₂, ha.val]
  · rw [C08.u_checked_ilog10 h10₁ c.hn₁ hW ha.wf₁ dbg, C08.u_checked_ilog10 h10₂ c.hn₂ hW₂ ha.wf₂ dbg, ha.val]
  · rw [C08.u_ilog c.hw₁ c.hn₁ hW ha.wf₁ hb.wf₁ dbg, C08.u_ilog c.hw₂ c.hn₂ hW₂ ha.wf₂ hb.wf₂ dbg, ha.val, hb.val]
  · rw [C08.u_ilog2 ha.wf₁, C08.u_ilog2 ha.wf₂, ha.val]
  · rw [C08.u_ilog10 h10₁ c.hn₁ hW ha.wf₁ dbg, C08.u_ilog10 h10₂ c.hn₂ hW₂ ha.wf₂ dbg, ha.val]

/-- `BInt`: the same six logarithm functions -/
theorem indep_i_ilog (c : Cfgs w₁ n₁ w₂ n₂) (hW : w₁ * n₁ < 2 ^ 32) (h10₁ : 10 < B w₁) (h10₂ : 10 < B w₂)
    (ha : SameS w₁ n₁ w₂ n₂ a₁ a₂) (hb : SameS w₁ n₁ w₂ n₂ b₁ b₂) (dbg : Bool) :
    II.checkedIlog dbg w₁ a₁ b₁ = II.checkedIlog dbg w₂ a₂ b₂ ∧
    II.checkedIlog2 w₁ a₁ = II.checkedIlog2 w₂ a₂ ∧
    II.checkedIlog10 dbg w₁ a₁ = II.checkedIlog10 dbg w₂ a₂ ∧
    II.ilog dbg w₁ a₁ b₁ = II.ilog dbg w₂ a₂ b₂ ∧ II.ilog2 w₁ a₁ = II.ilog2 w₂ a₂ ∧
    II.ilog10 dbg w₁ a₁ = II.ilog10 dbg w₂ a₂ := by
  have hW₂ : w₂ * n₂ < 2 ^ 32 := by rw [← c.bits]; exact hW
  refine ⟨?_, ?_, ?_, ?_, ?_, ?_⟩
  · rw [C08.i_checked_ilog c.hw₁ c.hn₁ hW ha.wf₁ hb.wf₁ dbg, C08.i_checked_ilog c.hw₂ c.hn₂ hW₂ ha.wf₂ hb.wf₂ dbg,
      ha.val, hb.val]
  · rw [C08.i_checked_ilog2 c.hw₁ c.hn₁ ha.wf₁, C08.i_checked_ilog2 c.hw₂ c.hn₂ ha.wf₂, ha.val]
  · rw [C08.i_checked_ilog10 c.hw₁ h10₁ c.hn₁ hW ha.wf₁ dbg, C08.i_checked_ilog10 c.hw₂ h10₂ c.hn₂ hW₂ ha.wf₂ dbg,
      ha.val]
  · rw [C08.i_ilog c.hw₁ c.hn₁ hW ha.wf₁ hb.wf₁ dbg, C08.i_ilog c.hw₂ c.hn₂ hW₂ ha.wf₂ hb.wf₂ dbg, ha.val, hb.val]
  · rw [C08.i_ilog2 c.hw₁ c.hn₁ ha.wf₁, C08.i_ilog2 c.hw₂ c.hn₂ ha.wf₂, ha.val]
  · rw [C08.i_ilog10 c.hw₁ h10₁ c.hn₁ hW ha.wf₁ dbg, C08.i_ilog10 c.hw₂ h10₂ c.hn₂ hW₂ ha.wf₂ dbg, ha.val]
example : (8 * 4 < 2 ^ 32 ∧ 10 < B 8 ∧ 10 < B 16) ∧
    UI.checkedIlog10 true 8 [0x78, 0x56, 0x34, 0x12] = .ok (some 8) ∧
    UI.checkedIlog10 true 16 [0x5678, 0x1234] = .ok (some 8) := by decide

/-! ### C10: parsing.  Digit widths: unsigned `8 ≤ w`, `4 ∣ w`; signed `w = 2^s`, `3 ≤ s < 32`
    (the scopes of the C10 theorems; every real digit type).  Any string, any radix. -/

open Bnum.Radix Bnum.Spec.Radix in
/-- `BUint`: `from_str_radix` (any radix: out of range ⇒ both panic), `from_str`, `parse_bytes`:
    both `Ok` of the same value, or both `Err` — of the same kind unless the string is an over-long
    malformed one, where C10 leaves the kind open (`Spec.Radix.Expect.anyErr`) -/
theorem indep_u_parse (c : Cfgs w₁ n₁ w₂ n₂) (h8₁ : 8 ≤ w₁) (h4₁ : 4 ∣ w₁) (h8₂ : 8 ≤ w₂) (h4₂ : 4 ∣ w₂)
    (str : List Nat) (r : Nat) :
    OutRel (ParseRel (EqU w₁ w₂) (expectParse r false (M w₁ n₁) str ≠ .anyErr))
      (UI.fromStrRadix w₁ n₁ str r) (UI.fromStrRadix w₂ n₂ str r) ∧
    OutRel (ParseRel (EqU w₁ w₂) (expectParse 10 false (M w₁ n₁) str ≠ .anyErr))
      (UI.fromStr w₁ n₁ str) (UI.fromStr w₂ n₂ str) ∧
    (2 ≤ r ∧ r ≤ 36 → OutRel (OptRel (EqU w₁ w₂)) (UI.parseBytes w₁ n₁ str r) (UI.parseBytes w₂ n₂ str r)) := by
  refine ⟨?_, ?_, fun hr => ?_⟩
  · by_cases hr : 2 ≤ r ∧ r ≤ 36
    · exact matches_relU c.M_eq (C10.u_from_str_radix_spec c.hn₁ h8₁ h4₁ hr.1 hr.2 str)
        (C10.u_from_str_radix_spec c.hn₂ h8₂ h4₂ hr.1 hr.2 str)
    · rw [(C10.u_from_str_radix_panic_iff c.hn₁ h8₁ h4₁ r str).mpr hr,
        (C10.u_from_str_radix_panic_iff c.hn₂ h8₂ h4₂ r str).mpr hr]
      trivial
  · rw [C10.u_from_str_eq, C10.u_from_str_eq]
    exact matches_relU c.M_eq (C10.u_from_str_radix_spec c.hn₁ h8₁ h4₁ (by decide) (by decide) str)
      (C10.u_from_str_radix_spec c.hn₂ h8₂ h4₂ (by decide) (by decide) str)
  · rw [C10.u_parse_bytes_spec c.hn₁ h8₁ h4₁ hr.1 hr.2, C10.u_parse_bytes_spec c.hn₂ h8₂ h4₂ hr.1 hr.2]
    exact expectOpt_relU c.M_eq
example : UI.fromStrRadix 8 2 [0x31, 0x30, 0x30, 0x30, 0x30] 16 = .ok (.err .posOverflow) ∧
    UI.fromStrRadix 16 1 [0x31, 0x30, 0x30, 0x30, 0x30] 16 = .ok (.err .posOverflow) ∧
    UI.fromStrRadix 8 2 [0x66, 0x66, 0x66, 0x65] 16 = .ok (.ok [0xfe, 0xff]) ∧
    UI.fromStrRadix 16 1 [0x66, 0x66, 0x66, 0x65] 16 = .ok (.ok [0xfffe]) := by decide

open Bnum.Radix Bnum.Spec.Radix in
/-- `BInt`: `from_str_radix`, `from_str`, `parse_bytes` -/
theorem indep_i_parse {s₁ s₂ : Nat} (c : Cfgs (2 ^ s₁) n₁ (2 ^ s₂) n₂) (h3₁ : 3 ≤ s₁) (hs₁ : s₁ < 32)
    (h3₂ : 3 ≤ s₂) (hs₂ : s₂ < 32) (str : List Nat) (r : Nat) :
    OutRel (ParseRel (EqS (2 ^ s₁) (2 ^ s₂)) (expectParse r true (M (2 ^ s₁) n₁) str ≠ .anyErr))
      (II.fromStrRadix (2 ^ s₁) n₁ str r) (II.fromStrRadix (2 ^ s₂) n₂ str r) ∧
    OutRel (ParseRel (EqS (2 ^ s₁) (2 ^ s₂)) (expectParse 10 true (M (2 ^ s₁) n₁) str ≠ .anyErr))
      (II.fromStr (2 ^ s₁) n₁ str) (II.fromStr (2 ^ s₂) n₂ str) ∧
    (2 ≤ r ∧ r ≤ 36 → OutRel (OptRel (EqS (2 ^ s₁) (2 ^ s₂))) (II.parseBytes (2 ^ s₁) n₁ str r)
      (II.parseBytes (2 ^ s₂) n₂ str r)) := by
  refine ⟨?_, ?_, fun hr => ?_⟩
  · by_cases hr : 2 ≤ r ∧ r ≤ 36
    · exact matches_relS c.M_eq (C10.i_from_str_radix_spec c.hn₁ h3₁ hs₁ hr.1 hr.2 str)
        (C10.i_from_str_radix_spec c.hn₂ h3₂ hs₂ hr.1 hr.2 str)
    · rw [(C10.i_from_str_radix_panic_iff c.hn₁ h3₁ hs₁ r str).mpr hr,
        (C10.i_from_str_radix_panic_iff c.hn₂ h3₂ hs₂ r str).mpr hr]
      trivial
  · rw [C10.i_from_str_eq, C10.i_from_str_eq]
    exact matches_relS c.M_eq (C10.i_from_str_radix_spec c.hn₁ h3₁ hs₁ (by decide) (by decide) str)
      (C10.i_from_str_radix_spec c.hn₂ h3₂ hs₂ (by decide) (by decide) str)
  · rw [C10.i_parse_bytes_spec c.hn₁ h3₁ hs₁ hr.1 hr.2, C10.i_parse_bytes_spec c.hn₂ h3₂ hs₂ hr.1 hr.2]
    exact expectOpt_relS c.M_eq

/-- `from_radix_be`, `from_radix_le` (digit widths `8·2^k`; any radix: out of range ⇒ both panic) -/
theorem indep_from_radix {k₁ k₂ : Nat} (c : Cfgs (8 * 2 ^ k₁) n₁ (8 * 2 ^ k₂) n₂) (buf : List Nat)
    (hbuf : ∀ b ∈ buf, b < 256) (r : Nat) :
    OutRel (OptRel (EqU (8 * 2 ^ k₁) (8 * 2 ^ k₂))) (UI.fromRadixBe (8 * 2 ^ k₁) n₁ buf r)
      (UI.fromRadixBe (8 * 2 ^ k₂) n₂ buf r) ∧
    OutRel (OptRel (EqU (8 * 2 ^ k₁) (8 * 2 ^ k₂))) (UI.fromRadixLe (8 * 2 ^ k₁) n₁ buf r)
      (UI.fromRadixLe (8 * 2 ^ k₂) n₂ buf r) := by
  by_cases hr : 2 ≤ r ∧ r ≤ 256
  · rw [C10.from_radix_be_spec c.hn₁ rfl hr.1 hr.2 buf hbuf, C10.from_radix_be_spec c.hn₂ rfl hr.1 hr.2 buf hbuf,
      C10.from_radix_le_spec c.hn₁ rfl hr.1 hr.2 buf hbuf, C10.from_radix_le_spec c.hn₂ rfl hr.1 hr.2 buf hbuf]
    exact ⟨expectDigits_rel c.M_eq, expectDigits_rel c.M_eq⟩
  · rw [(C10.from_radix_be_panic_iff c.hn₁ rfl r buf hbuf).mpr hr,
      (C10.from_radix_be_panic_iff c.hn₂ rfl r buf hbuf).mpr hr,
      (C10.from_radix_le_panic_iff c.hn₁ rfl r buf hbuf).mpr hr,
      (C10.from_radix_le_panic_iff c.hn₂ rfl r buf hbuf).mpr hr]
    exact ⟨trivial, trivial⟩

/-! ### C11: printing — the very same strings / digit sequences (`8 ≤ w`; any radix) -/

/-- `to_str_radix` (both signednesses), `to_radix_be`, `to_radix_le` -/
theorem indep_print (c : Cfgs w₁ n₁ w₂ n₂) (h8₁ : 8 ≤ w₁) (h8₂ : 8 ≤ w₂) (hu : SameU w₁ n₁ w₂ n₂ a₁ a₂)
    (hs : SameS w₁ n₁ w₂ n₂ b₁ b₂) (r : Nat) :
    UI.toStrRadix w₁ a₁ r = UI.toStrRadix w₂ a₂ r ∧ II.toStrRadix w₁ b₁ r = II.toStrRadix w₂ b₂ r ∧
    UI.toRadixBe w₁ a₁ r = UI.toRadixBe w₂ a₂ r ∧ UI.toRadixLe w₁ a₁ r = UI.toRadixLe w₂ a₂ r := by
  refine ⟨?_, ?_, ?_, ?_⟩
  · by_cases hr : 2 ≤ r ∧ r ≤ 36
    · rw [C11.u_toStrRadix_spec c.hn₁ h8₁ hu.wf₁ hr.1 hr.2, C11.u_toStrRadix_spec c.hn₂ h8₂ hu.wf₂ hr.1 hr.2,
        hu.val]
    · rw [(C11.u_toStrRadix_panic_iff c.hn₁ h8₁ hu.wf₁ r).mpr hr,
        (C11.u_toStrRadix_panic_iff c.hn₂ h8₂ hu.wf₂ r).mpr hr]
  · by_cases hr : 2 ≤ r ∧ r ≤ 36
    · rw [C11.i_toStrRadix_spec c.hn₁ h8₁ hs.wf₁ hr.1 hr.2, C11.i_toStrRadix_spec c.hn₂ h8₂ hs.wf₂ hr.1 hr.2,
        hs.val]
    · rw [(C11.i_toStrRadix_panic_iff c.hn₁ h8₁ hs.wf₁ r).mpr hr,
        (C11.i_toStrRadix_panic_iff c.hn₂ h8₂ hs.wf₂ r).mpr hr]
  · by_cases hr : 2 ≤ r ∧ r ≤ 256
    · rw [C11.toRadixBe_spec c.hn₁ h8₁ hu.wf₁ hr.1 hr.2, C11.toRadixBe_spec c.hn₂ h8₂ hu.wf₂ hr.1 hr.2, hu.val]
    · rw [(C11.toRadixBe_panic_iff c.hn₁ h8₁ hu.wf₁ r).mpr hr, (C11.toRadixBe_panic_iff c.hn₂ h8₂ hu.wf₂ r).mpr hr]
  · by_cases hr : 2 ≤ r ∧ r ≤ 256
    · rw [C11.toRadixLe_spec c.hn₁ h8₁ hu.wf₁ hr.1 hr.2, C11.toRadixLe_spec c.hn₂ h8₂ hu.wf₂ hr.1 hr.2, hu.val]
    · rw [(C11.toRadixLe_panic_iff c.hn₁ h8₁ hu.wf₁ r).mpr hr, (C11.toRadixLe_panic_iff c.hn₂ h8₂ hu.wf₂ r).mpr hr]
example : II.toStrRadix 8 [0xfe, 0xff, 0xff, 0xff] 10 = .ok [0x2d, 0x32] ∧
    II.toStrRadix 16 [0xfffe, 0xffff] 10 = .ok [0x2d, 0x32] := by decide

/-! ### summary: `op_digit_independent`

  The per-operation theorems above, collected into one table per signedness for the operations that
  need no hypothesis on the digit width beyond `2 ≤ w` (vocabulary: Lemmas/Indep.lean, `DI1`/`DI2`/
  `DI3`, `RU` … `REq`).  At equal total width `SameU` (equal bit patterns) is also `SameS`
  (`sameU_iff_sameS`), so a single operand relation serves both tables.  Not in the tables because
  they carry extra hypotheses: `indep_i_div_round` (not `MIN / -1`), `indep_bit` (`w = 2^s`),
  `indep_reverse_swap` (`8 ∣ w`), `indep_u_ilog` / `indep_i_ilog` (`BITS < 2^32`, `10 < 2^w`),
  `indep_u_parse` / `indep_i_parse` / `indep_from_radix` / `indep_print` (`8 ≤ w` …). -/

/-- (i) SUMMARY TABLE — every operation of C01–C03, C05–C08, one line per function: results of equal value /
    flag / `Option`-ness / panic behaviour whichever digit type the width is built from.  First the `BUint`
    functions (and the bit-pattern operations shared with `BInt`), then the `BInt` functions.
    `dbg` = `cfg(debug_assertions)`, `ci` = carry / borrow in, `s` = shift / rotate amount, `e` = exponent. -/
theorem op_digit_independent (dbg ci : Bool) (s e : Nat) :
    DI2 RPU UI.overflowingAdd ∧
    DI2 ROU UI.checkedAdd ∧
    DI2 RXU UI.strictAdd ∧
    DI2 RU UI.wrappingAdd ∧
    DI2 RU UI.saturatingAdd ∧
    DI2 RXU (UI.add dbg) ∧
    DI2 RPU UI.overflowingSub ∧
    DI2 ROU UI.checkedSub ∧
    DI2 RXU UI.strictSub ∧
    DI2 RU UI.wrappingSub ∧
    DI2 RU UI.saturatingSub ∧
    DI2 RXU (UI.sub dbg) ∧
    DI1 RPU UI.overflowingNeg ∧
    DI1 ROU UI.checkedNeg ∧
    DI1 RXU UI.strictNeg ∧
    DI1 RU UI.wrappingNeg ∧
    DI2 RPU UI.overflowingAddSigned ∧
    DI2 ROU UI.checkedAddSigned ∧
    DI2 RXU UI.strictAddSigned ∧
    DI2 RU UI.wrappingAddSigned ∧
    DI2 RU UI.saturatingAddSigned ∧
    DI2 RPU (fun w a b => UI.carryingAdd w a b ci) ∧
    DI2 RPU (fun w a b => UI.borrowingSub w a b ci) ∧
    DI2 RXU (UI.midpoint dbg) ∧
    DI2 RU UI.absDiff ∧
    DI2 RPU UI.overflowingMul ∧
    DI2 ROU UI.checkedMul ∧
    DI2 RXU UI.strictMul ∧
    DI2 RU UI.wrappingMul ∧
    DI2 RU UI.saturatingMul ∧
    DI2 RXU (fun w => UI.mul w dbg) ∧
    DI2 R2U UI.wideningMul ∧
    DI3 R2U UI.carryingMul ∧
    DI2 RXOU UI.checkedDiv ∧
    DI2 RXOU UI.checkedRem ∧
    DI2 RXOU UI.checkedDivEuclid ∧
    DI2 RXOU UI.checkedRemEuclid ∧
    DI2 RXPU UI.overflowingDiv ∧
    DI2 RXPU UI.overflowingRem ∧
    DI2 RXPU UI.overflowingDivEuclid ∧
    DI2 RXPU UI.overflowingRemEuclid ∧
    DI2 RXU UI.wrappingDiv ∧
    DI2 RXU UI.wrappingRem ∧
    DI2 RXU UI.wrappingDivEuclid ∧
    DI2 RXU UI.wrappingRemEuclid ∧
    DI2 RXU UI.saturatingDiv ∧
    DI2 RXU UI.div ∧
    DI2 RXU UI.rem ∧
    DI2 RXU UI.divEuclid ∧
    DI2 RXU UI.remEuclid ∧
    DI2 RXU UI.divFloor ∧
    DI2 RXU (UI.divCeil dbg) ∧
    DI2 RXOU (UI.checkedNextMultipleOf dbg) ∧
    DI1 RXU (fun w a => UI.shl dbg w a s) ∧
    DI1 RXU (fun w a => UI.strictShl w a s) ∧
    DI1 ROU (fun w a => UI.checkedShl w a s) ∧
    DI1 RPU (fun w a => UI.overflowingShl w a s) ∧
    DI1 RU (fun w a => UI.wrappingShl w a s) ∧
    DI1 RU (fun w a => UI.unboundedShl w a s) ∧
    DI1 RXU (fun w a => UI.shr dbg w a s) ∧
    DI1 RXU (fun w a => UI.strictShr w a s) ∧
    DI1 ROU (fun w a => UI.checkedShr w a s) ∧
    DI1 RPU (fun w a => UI.overflowingShr w a s) ∧
    DI1 RU (fun w a => UI.wrappingShr w a s) ∧
    DI1 RU (fun w a => UI.unboundedShr w a s) ∧
    DI1 RU (fun w a => UI.rotateLeft w a s) ∧
    DI1 RU (fun w a => UI.rotateRight w a s) ∧
    DI1 RU (fun w a => II.rotateLeft w a s) ∧
    DI1 RU (fun w a => II.rotateRight w a s) ∧
    DI2 RU (fun _ a b => UI.bitand a b) ∧
    DI2 RU (fun _ a b => UI.bitor a b) ∧
    DI2 RU (fun _ a b => UI.bitxor a b) ∧
    DI1 RU UI.not ∧
    DI1 REq UI.countOnes ∧
    DI1 REq UI.countZeros ∧
    DI1 REq UI.leadingZeros ∧
    DI1 REq UI.trailingZeros ∧
    DI1 REq UI.leadingOnes ∧
    DI1 REq UI.trailingOnes ∧
    DI1 REq UI.bits ∧
    DI1 REq (fun _ a => isZero a) ∧
    DI1 REq (fun _ a => isOne a) ∧
    DI1 REq UI.isPowerOfTwo ∧
    DI2 REq (fun _ a b => UI.cmp a b) ∧
    DI2 REq (fun _ a b => Traits.partialCmp UI.cmp a b) ∧
    DI2 REq (fun _ a b => UI.eq a b) ∧
    DI2 REq (fun _ a b => UI.ne a b) ∧
    DI2 REq (fun _ a b => Traits.opEq a b) ∧
    DI2 REq (fun _ a b => Traits.opNe a b) ∧
    DI2 REq (fun _ a b => CmpImpl.lt UI.cmp a b) ∧
    DI2 REq (fun _ a b => CmpImpl.le UI.cmp a b) ∧
    DI2 REq (fun _ a b => CmpImpl.gt UI.cmp a b) ∧
    DI2 REq (fun _ a b => CmpImpl.ge UI.cmp a b) ∧
    DI2 RU (fun _ a b => CmpImpl.max UI.cmp a b) ∧
    DI2 RU (fun _ a b => CmpImpl.min UI.cmp a b) ∧
    DI3 RXU (fun _ a mn mx => CmpImpl.clamp UI.cmp a mn mx) ∧
    DI1 RPU (fun w a => UI.overflowingPow w a e) ∧
    DI1 ROU (fun w a => UI.checkedPow w a e) ∧
    DI1 RXU (fun w a => UI.strictPow w a e) ∧
    DI1 RU (fun w a => UI.wrappingPow w a e) ∧
    DI1 RU (fun w a => UI.saturatingPow w a e) ∧
    DI1 RXU (fun w a => UI.pow w dbg a e) ∧
    DI2 RPS II.overflowingAdd ∧
    DI2 ROS II.checkedAdd ∧
    DI2 RXS II.strictAdd ∧
    DI2 RS II.wrappingAdd ∧
    DI2 RS II.saturatingAdd ∧
    DI2 RXS (II.add dbg) ∧
    DI2 RPS II.overflowingSub ∧
    DI2 ROS II.checkedSub ∧
    DI2 RXS II.strictSub ∧
    DI2 RS II.wrappingSub ∧
    DI2 RS II.saturatingSub ∧
    DI2 RXS (II.sub dbg) ∧
    DI1 RPS II.overflowingNeg ∧
    DI1 ROS II.checkedNeg ∧
    DI1 RXS II.strictNeg ∧
    DI1 RS II.wrappingNeg ∧
    DI1 RS II.saturatingNeg ∧
    DI1 RPS II.overflowingAbs ∧
    DI1 ROS II.checkedAbs ∧
    DI1 RXS II.strictAbs ∧
    DI1 RS II.wrappingAbs ∧
    DI1 RS II.saturatingAbs ∧
    DI1 RU II.unsignedAbs ∧
    DI2 RPS II.overflowingAddUnsigned ∧
    DI2 ROS II.checkedAddUnsigned ∧
    DI2 RXS II.strictAddUnsigned ∧
    DI2 RS II.wrappingAddUnsigned ∧
    DI2 RS II.saturatingAddUnsigned ∧
    DI2 RPS II.overflowingSubUnsigned ∧
    DI2 ROS II.checkedSubUnsigned ∧
    DI2 RXS II.strictSubUnsigned ∧
    DI2 RS II.wrappingSubUnsigned ∧
    DI2 RS II.saturatingSubUnsigned ∧
    DI2 RPS (fun w a b => II.carryingAdd w a b ci) ∧
    DI2 RPS (fun w a b => II.borrowingSub w a b ci) ∧
    DI2 RXS (II.midpoint dbg) ∧
    DI2 RU II.absDiff ∧
    DI2 RPS II.overflowingMul ∧
    DI2 ROS II.checkedMul ∧
    DI2 RXS II.strictMul ∧
    DI2 RS II.wrappingMul ∧
    DI2 RS II.saturatingMul ∧
    DI2 RXS (fun w => II.mul w dbg) ∧
    DI2 RXOS (II.checkedDiv dbg) ∧
    DI2 RXOS (II.checkedRem dbg) ∧
    DI2 RXOS (II.checkedDivEuclid dbg) ∧
    DI2 RXOS (II.checkedRemEuclid dbg) ∧
    DI2 RXPS (II.overflowingDiv dbg) ∧
    DI2 RXPS (II.overflowingRem dbg) ∧
    DI2 RXPS (II.overflowingDivEuclid dbg) ∧
    DI2 RXPS (II.overflowingRemEuclid dbg) ∧
    DI2 RXS (II.wrappingDiv dbg) ∧
    DI2 RXS (II.wrappingRem dbg) ∧
    DI2 RXS (II.wrappingDivEuclid dbg) ∧
    DI2 RXS (II.wrappingRemEuclid dbg) ∧
    DI2 RXS (II.saturatingDiv dbg) ∧
    DI2 RXS (II.div dbg) ∧
    DI2 RXS (II.rem dbg) ∧
    DI2 RXS (II.divEuclid dbg) ∧
    DI2 RXS (II.remEuclid dbg) ∧
    DI1 RXS (fun w a => II.shl dbg w a s) ∧
    DI1 RXS (fun w a => II.strictShl w a s) ∧
    DI1 ROS (fun w a => II.checkedShl w a s) ∧
    DI1 RPS (fun w a => II.overflowingShl w a s) ∧
    DI1 RS (fun w a => II.wrappingShl w a s) ∧
    DI1 RS (fun w a => II.unboundedShl w a s) ∧
    DI1 RXS (fun w a => II.shr dbg w a s) ∧
    DI1 RXS (fun w a => II.strictShr w a s) ∧
    DI1 ROS (fun w a => II.checkedShr w a s) ∧
    DI1 RPS (fun w a => II.overflowingShr w a s) ∧
    DI1 RS (fun w a => II.wrappingShr w a s) ∧
    DI1 RS (fun w a => II.unboundedShr w a s) ∧
    DI1 REq II.isPowerOfTwo ∧
    DI2 REq II.cmp ∧
    DI2 REq (fun w a b => Traits.partialCmp (II.cmp w) a b) ∧
    DI2 REq (fun _ a b => II.eq a b) ∧
    DI2 REq (fun _ a b => II.ne a b) ∧
    DI2 REq (fun _ a b => Traits.opEq a b) ∧
    DI2 REq (fun _ a b => Traits.opNe a b) ∧
    DI2 REq (fun w a b => CmpImpl.lt (II.cmp w) a b) ∧
    DI2 REq (fun w a b => CmpImpl.le (II.cmp w) a b) ∧
    DI2 REq (fun w a b => CmpImpl.gt (II.cmp w) a b) ∧
    DI2 REq (fun w a b => CmpImpl.ge (II.cmp w) a b) ∧
    DI2 RS (fun w a b => CmpImpl.max (II.cmp w) a b) ∧
    DI2 RS (fun w a b => CmpImpl.min (II.cmp w) a b) ∧
    DI3 RXS (fun w a mn mx => CmpImpl.clamp (II.cmp w) a mn mx) ∧
    DI1 REq isNegative ∧
    DI1 REq II.isPositive ∧
    DI1 RS II.signum ∧
    DI1 RPS (fun w a => II.overflowingPow w a e) ∧
    DI1 ROS (fun w a => II.checkedPow w a e) ∧
    DI1 RXS (fun w a => II.strictPow w a e) ∧
    DI1 RS (fun w a => II.wrappingPow w a e) ∧
    DI1 RS (fun w a => II.saturatingPow w a e) ∧
    DI1 RXS (fun w a => II.pow w dbg a e) :=
  ⟨fun _ _ _ _ _ _ _ _ c ha hb => (indep_u_add c ha hb dbg).1,
   fun _ _ _ _ _ _ _ _ c ha hb => (indep_u_add c ha hb dbg).2.1,
   fun _ _ _ _ _ _ _ _ c ha hb => (indep_u_add c ha hb dbg).2.2.1,
   fun _ _ _ _ _ _ _ _ c ha hb => (indep_u_add c ha hb dbg).2.2.2.1,
   fun _ _ _ _ _ _ _ _ c ha hb => (indep_u_add c ha hb dbg).2.2.2.2.1,
   fun _ _ _ _ _ _ _ _ c ha hb => (indep_u_add c ha hb dbg).2.2.2.2.2,
   fun _ _ _ _ _ _ _ _ c ha hb => (indep_u_sub c ha hb dbg).1,
   fun _ _ _ _ _ _ _ _ c ha hb => (indep_u_sub c ha hb dbg).2.1,
   fun _ _ _ _ _ _ _ _ c ha hb => (indep_u_sub c ha hb dbg).2.2.1,
   fun _ _ _ _ _ _ _ _ c ha hb => (indep_u_sub c ha hb dbg).2.2.2.1,
   fun _ _ _ _ _ _ _ _ c ha hb => (indep_u_sub c ha hb dbg).2.2.2.2.1,
   fun _ _ _ _ _ _ _ _ c ha hb => (indep_u_sub c ha hb dbg).2.2.2.2.2,
   fun _ _ _ _ _ _ c ha => (indep_u_neg c ha).1,
   fun _ _ _ _ _ _ c ha => (indep_u_neg c ha).2.1,
   fun _ _ _ _ _ _ c ha => (indep_u_neg c ha).2.2.1,
   fun _ _ _ _ _ _ c ha => (indep_u_neg c ha).2.2.2,
   fun _ _ _ _ _ _ _ _ c ha hb => (indep_u_add_signed c ha (hb.toS c)).1,
   fun _ _ _ _ _ _ _ _ c ha hb => (indep_u_add_signed c ha (hb.toS c)).2.1,
   fun _ _ _ _ _ _ _ _ c ha hb => (indep_u_add_signed c ha (hb.toS c)).2.2.1,
   fun _ _ _ _ _ _ _ _ c ha hb => (indep_u_add_signed c ha (hb.toS c)).2.2.2.1,
   fun _ _ _ _ _ _ _ _ c ha hb => (indep_u_add_signed c ha (hb.toS c)).2.2.2.2,
   fun _ _ _ _ _ _ _ _ c ha hb => (indep_u_carrying c ha hb ci).1,
   fun _ _ _ _ _ _ _ _ c ha hb => (indep_u_carrying c ha hb ci).2,
   fun _ _ _ _ _ _ _ _ c ha hb => (indep_u_midpoint_abs_diff c ha hb dbg).1,
   fun _ _ _ _ _ _ _ _ c ha hb => (indep_u_midpoint_abs_diff c ha hb dbg).2,
   fun _ _ _ _ _ _ _ _ c ha hb => (indep_u_mul c ha hb dbg).1,
   fun _ _ _ _ _ _ _ _ c ha hb => (indep_u_mul c ha hb dbg).2.1,
   fun _ _ _ _ _ _ _ _ c ha hb => (indep_u_mul c ha hb dbg).2.2.1,
   fun _ _ _ _ _ _ _ _ c ha hb => (indep_u_mul c ha hb dbg).2.2.2.1,
   fun _ _ _ _ _ _ _ _ c ha hb => (indep_u_mul c ha hb dbg).2.2.2.2.1,
   fun _ _ _ _ _ _ _ _ c ha hb => (indep_u_mul c ha hb dbg).2.2.2.2.2,
   fun _ _ _ _ _ _ _ _ c ha hb => (indep_u_widening_mul c ha hb ha).1,
   fun _ _ _ _ _ _ _ _ _ _ c ha hb hc => (indep_u_widening_mul c ha hb hc).2,
   fun _ _ _ _ _ _ _ _ c ha hb => (indep_u_div c ha hb dbg).1,
   fun _ _ _ _ _ _ _ _ c ha hb => (indep_u_div c ha hb dbg).2.1,
   fun _ _ _ _ _ _ _ _ c ha hb => (indep_u_div c ha hb dbg).2.2.1,
   fun _ _ _ _ _ _ _ _ c ha hb => (indep_u_div c ha hb dbg).2.2.2.1,
   fun _ _ _ _ _ _ _ _ c ha hb => (indep_u_div c ha hb dbg).2.2.2.2.1,
   fun _ _ _ _ _ _ _ _ c ha hb => (indep_u_div c ha hb dbg).2.2.2.2.2.1,
   fun _ _ _ _ _ _ _ _ c ha hb => (indep_u_div c ha hb dbg).2.2.2.2.2.2.1,
   fun _ _ _ _ _ _ _ _ c ha hb => (indep_u_div c ha hb dbg).2.2.2.2.2.2.2.1,
   fun _ _ _ _ _ _ _ _ c ha hb => (indep_u_div c ha hb dbg).2.2.2.2.2.2.2.2.1,
   fun _ _ _ _ _ _ _ _ c ha hb => (indep_u_div c ha hb dbg).2.2.2.2.2.2.2.2.2.1,
   fun _ _ _ _ _ _ _ _ c ha hb => (indep_u_div c ha hb dbg).2.2.2.2.2.2.2.2.2.2.1,
   fun _ _ _ _ _ _ _ _ c ha hb => (indep_u_div c ha hb dbg).2.2.2.2.2.2.2.2.2.2.2.1,
   fun _ _ _ _ _ _ _ _ c ha hb => (indep_u_div c ha hb dbg).2.2.2.2.2.2.2.2.2.2.2.2.1,
   fun _ _ _ _ _ _ _ _ c ha hb => (indep_u_div c ha hb dbg).2.2.2.2.2.2.2.2.2.2.2.2.2.1,
   fun _ _ _ _ _ _ _ _ c ha hb => (indep_u_div c ha hb dbg).2.2.2.2.2.2.2.2.2.2.2.2.2.2.1,
   fun _ _ _ _ _ _ _ _ c ha hb => (indep_u_div c ha hb dbg).2.2.2.2.2.2.2.2.2.2.2.2.2.2.2.1,
   fun _ _ _ _ _ _ _ _ c ha hb => (indep_u_div c ha hb dbg).2.2.2.2.2.2.2.2.2.2.2.2.2.2.2.2.1,
   fun _ _ _ _ _ _ _ _ c ha hb => (indep_u_div c ha hb dbg).2.2.2.2.2.2.2.2.2.2.2.2.2.2.2.2.2.1,
   fun _ _ _ _ _ _ _ _ c ha hb => (indep_u_div c ha hb dbg).2.2.2.2.2.2.2.2.2.2.2.2.2.2.2.2.2.2.1,
   fun _ _ _ _ _ _ _ _ c ha hb => (indep_u_div c ha hb dbg).2.2.2.2.2.2.2.2.2.2.2.2.2.2.2.2.2.2.2,
   fun _ _ _ _ _ _ c ha => (indep_u_shift c ha s dbg).1.1,
   fun _ _ _ _ _ _ c ha => (indep_u_shift c ha s dbg).1.2.1,
   fun _ _ _ _ _ _ c ha => (indep_u_shift c ha s dbg).1.2.2.1,
   fun _ _ _ _ _ _ c ha => (indep_u_shift c ha s dbg).1.2.2.2.1,
   fun _ _ _ _ _ _ c ha => (indep_u_shift c ha s dbg).1.2.2.2.2.1,
   fun _ _ _ _ _ _ c ha => (indep_u_shift c ha s dbg).1.2.2.2.2.2,
   fun _ _ _ _ _ _ c ha => (indep_u_shift c ha s dbg).2.1,
   fun _ _ _ _ _ _ c ha => (indep_u_shift c ha s dbg).2.2.1,
   fun _ _ _ _ _ _ c ha => (indep_u_shift c ha s dbg).2.2.2.1,
   fun _ _ _ _ _ _ c ha => (indep_u_shift c ha s dbg).2.2.2.2.1,
   fun _ _ _ _ _ _ c ha => (indep_u_shift c ha s dbg).2.2.2.2.2.1,
   fun _ _ _ _ _ _ c ha => (indep_u_shift c ha s dbg).2.2.2.2.2.2,
   fun _ _ _ _ _ _ c ha => (indep_rotate c ha s).1,
   fun _ _ _ _ _ _ c ha => (indep_rotate c ha s).2.1,
   fun _ _ _ _ _ _ c ha => (indep_rotate c ha s).2.2.1,
   fun _ _ _ _ _ _ c ha => (indep_rotate c ha s).2.2.2,
   fun _ _ _ _ _ _ _ _ c ha hb => (indep_logic c ha hb).1,
   fun _ _ _ _ _ _ _ _ c ha hb => (indep_logic c ha hb).2.1,
   fun _ _ _ _ _ _ _ _ c ha hb => (indep_logic c ha hb).2.2.1,
   fun _ _ _ _ _ _ c ha => (indep_logic c ha ha).2.2.2,
   fun _ _ _ _ _ _ c ha => (indep_counts c ha).1,
   fun _ _ _ _ _ _ c ha => (indep_counts c ha).2.1,
   fun _ _ _ _ _ _ c ha => (indep_counts c ha).2.2.1,
   fun _ _ _ _ _ _ c ha => (indep_counts c ha).2.2.2.1,
   fun _ _ _ _ _ _ c ha => (indep_counts c ha).2.2.2.2.1,
   fun _ _ _ _ _ _ c ha => (indep_counts c ha).2.2.2.2.2.1,
   fun _ _ _ _ _ _ c ha => (indep_counts c ha).2.2.2.2.2.2.1,
   fun _ _ _ _ _ _ c ha => (indep_counts c ha).2.2.2.2.2.2.2.1,
   fun _ _ _ _ _ _ c ha => (indep_counts c ha).2.2.2.2.2.2.2.2.1,
   fun _ _ _ _ _ _ c ha => (indep_counts c ha).2.2.2.2.2.2.2.2.2,
   fun _ _ _ _ _ _ _ _ c ha hb => (indep_u_cmp c ha hb ha ha).1,
   fun _ _ _ _ _ _ _ _ c ha hb => (indep_u_cmp c ha hb ha ha).2.1,
   fun _ _ _ _ _ _ _ _ c ha hb => (indep_u_cmp c ha hb ha ha).2.2.1,
   fun _ _ _ _ _ _ _ _ c ha hb => (indep_u_cmp c ha hb ha ha).2.2.2.1,
   fun _ _ _ _ _ _ _ _ c ha hb => (indep_u_cmp c ha hb ha ha).2.2.2.2.1,
   fun _ _ _ _ _ _ _ _ c ha hb => (indep_u_cmp c ha hb ha ha).2.2.2.2.2.1,
   fun _ _ _ _ _ _ _ _ c ha hb => (indep_u_cmp c ha hb ha ha).2.2.2.2.2.2.1,
   fun _ _ _ _ _ _ _ _ c ha hb => (indep_u_cmp c ha hb ha ha).2.2.2.2.2.2.2.1,
   fun _ _ _ _ _ _ _ _ c ha hb => (indep_u_cmp c ha hb ha ha).2.2.2.2.2.2.2.2.1,
   fun _ _ _ _ _ _ _ _ c ha hb => (indep_u_cmp c ha hb ha ha).2.2.2.2.2.2.2.2.2.1,
   fun _ _ _ _ _ _ _ _ c ha hb => (indep_u_cmp c ha hb ha ha).2.2.2.2.2.2.2.2.2.2.1,
   fun _ _ _ _ _ _ _ _ c ha hb => (indep_u_cmp c ha hb ha ha).2.2.2.2.2.2.2.2.2.2.2.1,
   fun _ _ _ _ _ _ _ _ _ _ c ha hb hc => (indep_u_cmp c ha ha hb hc).2.2.2.2.2.2.2.2.2.2.2.2,
   fun _ _ _ _ _ _ c ha => (indep_u_pow c ha e dbg).1,
   fun _ _ _ _ _ _ c ha => (indep_u_pow c ha e dbg).2.1,
   fun _ _ _ _ _ _ c ha => (indep_u_pow c ha e dbg).2.2.1,
   fun _ _ _ _ _ _ c ha => (indep_u_pow c ha e dbg).2.2.2.1,
   fun _ _ _ _ _ _ c ha => (indep_u_pow c ha e dbg).2.2.2.2.1,
   fun _ _ _ _ _ _ c ha => (indep_u_pow c ha e dbg).2.2.2.2.2,
   fun _ _ _ _ _ _ _ _ c ha hb => (indep_i_add c (ha.toS c) (hb.toS c) dbg).1,
   fun _ _ _ _ _ _ _ _ c ha hb => (indep_i_add c (ha.toS c) (hb.toS c) dbg).2.1,
   fun _ _ _ _ _ _ _ _ c ha hb => (indep_i_add c (ha.toS c) (hb.toS c) dbg).2.2.1,
   fun _ _ _ _ _ _ _ _ c ha hb => (indep_i_add c (ha.toS c) (hb.toS c) dbg).2.2.2.1,
   fun _ _ _ _ _ _ _ _ c ha hb => (indep_i_add c (ha.toS c) (hb.toS c) dbg).2.2.2.2.1,
   fun _ _ _ _ _ _ _ _ c ha hb => (indep_i_add c (ha.toS c) (hb.toS c) dbg).2.2.2.2.2,
   fun _ _ _ _ _ _ _ _ c ha hb => (indep_i_sub c (ha.toS c) (hb.toS c) dbg).1,
   fun _ _ _ _ _ _ _ _ c ha hb => (indep_i_sub c (ha.toS c) (hb.toS c) dbg).2.1,
   fun _ _ _ _ _ _ _ _ c ha hb => (indep_i_sub c (ha.toS c) (hb.toS c) dbg).2.2.1,
   fun _ _ _ _ _ _ _ _ c ha hb => (indep_i_sub c (ha.toS c) (hb.toS c) dbg).2.2.2.1,
   fun _ _ _ _ _ _ _ _ c ha hb => (indep_i_sub c (ha.toS c) (hb.toS c) dbg).2.2.2.2.1,
   fun _ _ _ _ _ _ _ _ c ha hb => (indep_i_sub c (ha.toS c) (hb.toS c) dbg).2.2.2.2.2,
   fun _ _ _ _ _ _ c ha => (indep_i_neg c (ha.toS c)).1,
   fun _ _ _ _ _ _ c ha => (indep_i_neg c (ha.toS c)).2.1,
   fun _ _ _ _ _ _ c ha => (indep_i_neg c (ha.toS c)).2.2.1,
   fun _ _ _ _ _ _ c ha => (indep_i_neg c (ha.toS c)).2.2.2.1,
   fun _ _ _ _ _ _ c ha => (indep_i_neg c (ha.toS c)).2.2.2.2,
   fun _ _ _ _ _ _ c ha => (indep_i_abs c (ha.toS c)).1,
   fun _ _ _ _ _ _ c ha => (indep_i_abs c (ha.toS c)).2.1,
   fun _ _ _ _ _ _ c ha => (indep_i_abs c (ha.toS c)).2.2.1,
   fun _ _ _ _ _ _ c ha => (indep_i_abs c (ha.toS c)).2.2.2.1,
   fun _ _ _ _ _ _ c ha => (indep_i_abs c (ha.toS c)).2.2.2.2.1,
   fun _ _ _ _ _ _ c ha => (indep_i_abs c (ha.toS c)).2.2.2.2.2,
   fun _ _ _ _ _ _ _ _ c ha hb => (indep_i_add_unsigned c (ha.toS c) hb).1,
   fun _ _ _ _ _ _ _ _ c ha hb => (indep_i_add_unsigned c (ha.toS c) hb).2.1,
   fun _ _ _ _ _ _ _ _ c ha hb => (indep_i_add_unsigned c (ha.toS c) hb).2.2.1,
   fun _ _ _ _ _ _ _ _ c ha hb => (indep_i_add_unsigned c (ha.toS c) hb).2.2.2.1,
   fun _ _ _ _ _ _ _ _ c ha hb => (indep_i_add_unsigned c (ha.toS c) hb).2.2.2.2,
   fun _ _ _ _ _ _ _ _ c ha hb => (indep_i_sub_unsigned c (ha.toS c) hb).1,
   fun _ _ _ _ _ _ _ _ c ha hb => (indep_i_sub_unsigned c (ha.toS c) hb).2.1,
   fun _ _ _ _ _ _ _ _ c ha hb => (indep_i_sub_unsigned c (ha.toS c) hb).2.2.1,
   fun _ _ _ _ _ _ _ _ c ha hb => (indep_i_sub_unsigned c (ha.toS c) hb).2.2.2.1,
   fun _ _ _ _ _ _ _ _ c ha hb => (indep_i_sub_unsigned c (ha.toS c) hb).2.2.2.2,
   fun _ _ _ _ _ _ _ _ c ha hb => (indep_i_carrying c (ha.toS c) (hb.toS c) ci).1,
   fun _ _ _ _ _ _ _ _ c ha hb => (indep_i_carrying c (ha.toS c) (hb.toS c) ci).2,
   fun _ _ _ _ _ _ _ _ c ha hb => (indep_i_midpoint_abs_diff c (ha.toS c) (hb.toS c) dbg).1,
   fun _ _ _ _ _ _ _ _ c ha hb => (indep_i_midpoint_abs_diff c (ha.toS c) (hb.toS c) dbg).2,
   fun _ _ _ _ _ _ _ _ c ha hb => (indep_i_mul c (ha.toS c) (hb.toS c) dbg).1,
   fun _ _ _ _ _ _ _ _ c ha hb => (indep_i_mul c (ha.toS c) (hb.toS c) dbg).2.1,
   fun _ _ _ _ _ _ _ _ c ha hb => (indep_i_mul c (ha.toS c) (hb.toS c) dbg).2.2.1,
   fun _ _ _ _ _ _ _ _ c ha hb => (indep_i_mul c (ha.toS c) (hb.toS c) dbg).2.2.2.1,
   fun _ _ _ _ _ _ _ _ c ha hb => (indep_i_mul c (ha.toS c) (hb.toS c) dbg).2.2.2.2.1,
   fun _ _ _ _ _ _ _ _ c ha hb => (indep_i_mul c (ha.toS c) (hb.toS c) dbg).2.2.2.2.2,
   fun _ _ _ _ _ _ _ _ c ha hb => (indep_i_div c (ha.toS c) (hb.toS c) dbg).1,
   fun _ _ _ _ _ _ _ _ c ha hb => (indep_i_div c (ha.toS c) (hb.toS c) dbg).2.1,
   fun _ _ _ _ _ _ _ _ c ha hb => (indep_i_div c (ha.toS c) (hb.toS c) dbg).2.2.1,
   fun _ _ _ _ _ _ _ _ c ha hb => (indep_i_div c (ha.toS c) (hb.toS c) dbg).2.2.2.1,
   fun _ _ _ _ _ _ _ _ c ha hb => (indep_i_div c (ha.toS c) (hb.toS c) dbg).2.2.2.2.1,
   fun _ _ _ _ _ _ _ _ c ha hb => (indep_i_div c (ha.toS c) (hb.toS c) dbg).2.2.2.2.2.1,
   fun _ _ _ _ _ _ _ _ c ha hb => (indep_i_div c (ha.toS c) (hb.toS c) dbg).2.2.2.2.2.2.1,
   fun _ _ _ _ _ _ _ _ c ha hb => (indep_i_div c (ha.toS c) (hb.toS c) dbg).2.2.2.2.2.2.2.1,
   fun _ _ _ _ _ _ _ _ c ha hb => (indep_i_div c (ha.toS c) (hb.toS c) dbg).2.2.2.2.2.2.2.2.1,
   fun _ _ _ _ _ _ _ _ c ha hb => (indep_i_div c (ha.toS c) (hb.toS c) dbg).2.2.2.2.2.2.2.2.2.1,
   fun _ _ _ _ _ _ _ _ c ha hb => (indep_i_div c (ha.toS c) (hb.toS c) dbg).2.2.2.2.2.2.2.2.2.2.1,
   fun _ _ _ _ _ _ _ _ c ha hb => (indep_i_div c (ha.toS c) (hb.toS c) dbg).2.2.2.2.2.2.2.2.2.2.2.1,
   fun _ _ _ _ _ _ _ _ c ha hb => (indep_i_div c (ha.toS c) (hb.toS c) dbg).2.2.2.2.2.2.2.2.2.2.2.2.1,
   fun _ _ _ _ _ _ _ _ c ha hb => (indep_i_div c (ha.toS c) (hb.toS c) dbg).2.2.2.2.2.2.2.2.2.2.2.2.2.1,
   fun _ _ _ _ _ _ _ _ c ha hb => (indep_i_div c (ha.toS c) (hb.toS c) dbg).2.2.2.2.2.2.2.2.2.2.2.2.2.2.1,
   fun _ _ _ _ _ _ _ _ c ha hb => (indep_i_div c (ha.toS c) (hb.toS c) dbg).2.2.2.2.2.2.2.2.2.2.2.2.2.2.2.1,
   fun _ _ _ _ _ _ _ _ c ha hb => (indep_i_div c (ha.toS c) (hb.toS c) dbg).2.2.2.2.2.2.2.2.2.2.2.2.2.2.2.2,
   fun _ _ _ _ _ _ c ha => (indep_i_shift c (ha.toS c) s dbg).1.1,
   fun _ _ _ _ _ _ c ha => (indep_i_shift c (ha.toS c) s dbg).1.2.1,
   fun _ _ _ _ _ _ c ha => (indep_i_shift c (ha.toS c) s dbg).1.2.2.1,
   fun _ _ _ _ _ _ c ha => (indep_i_shift c (ha.toS c) s dbg).1.2.2.2.1,
   fun _ _ _ _ _ _ c ha => (indep_i_shift c (ha.toS c) s dbg).1.2.2.2.2.1,
   fun _ _ _ _ _ _ c ha => (indep_i_shift c (ha.toS c) s dbg).1.2.2.2.2.2,
   fun _ _ _ _ _ _ c ha => (indep_i_shift c (ha.toS c) s dbg).2.1,
   fun _ _ _ _ _ _ c ha => (indep_i_shift c (ha.toS c) s dbg).2.2.1,
   fun _ _ _ _ _ _ c ha => (indep_i_shift c (ha.toS c) s dbg).2.2.2.1,
   fun _ _ _ _ _ _ c ha => (indep_i_shift c (ha.toS c) s dbg).2.2.2.2.1,
   fun _ _ _ _ _ _ c ha => (indep_i_shift c (ha.toS c) s dbg).2.2.2.2.2.1,
   fun _ _ _ _ _ _ c ha => (indep_i_shift c (ha.toS c) s dbg).2.2.2.2.2.2,
   fun _ _ _ _ _ _ c ha => (indep_i_is_power_of_two c (ha.toS c)),
   fun _ _ _ _ _ _ _ _ c ha hb => (indep_i_cmp c (ha.toS c) (hb.toS c) (ha.toS c) (ha.toS c)).1,
   fun _ _ _ _ _ _ _ _ c ha hb => (indep_i_cmp c (ha.toS c) (hb.toS c) (ha.toS c) (ha.toS c)).2.1,
   fun _ _ _ _ _ _ _ _ c ha hb => (indep_i_cmp c (ha.toS c) (hb.toS c) (ha.toS c) (ha.toS c)).2.2.1,
   fun _ _ _ _ _ _ _ _ c ha hb => (indep_i_cmp c (ha.toS c) (hb.toS c) (ha.toS c) (ha.toS c)).2.2.2.1,
   fun _ _ _ _ _ _ _ _ c ha hb => (indep_i_cmp c (ha.toS c) (hb.toS c) (ha.toS c) (ha.toS c)).2.2.2.2.1,
   fun _ _ _ _ _ _ _ _ c ha hb => (indep_i_cmp c (ha.toS c) (hb.toS c) (ha.toS c) (ha.toS c)).2.2.2.2.2.1,
   fun _ _ _ _ _ _ _ _ c ha hb => (indep_i_cmp c (ha.toS c) (hb.toS c) (ha.toS c) (ha.toS c)).2.2.2.2.2.2.1,
   fun _ _ _ _ _ _ _ _ c ha hb => (indep_i_cmp c (ha.toS c) (hb.toS c) (ha.toS c) (ha.toS c)).2.2.2.2.2.2.2.1,
   fun _ _ _ _ _ _ _ _ c ha hb => (indep_i_cmp c (ha.toS c) (hb.toS c) (ha.toS c) (ha.toS c)).2.2.2.2.2.2.2.2.1,
   fun _ _ _ _ _ _ _ _ c ha hb => (indep_i_cmp c (ha.toS c) (hb.toS c) (ha.toS c) (ha.toS c)).2.2.2.2.2.2.2.2.2.1,
   fun _ _ _ _ _ _ _ _ c ha hb => (indep_i_cmp c (ha.toS c) (hb.toS c) (ha.toS c) (ha.toS c)).2.2.2.2.2.2.2.2.2.2.1,
   fun _ _ _ _ _ _ _ _ c ha hb => (indep_i_cmp c (ha.toS c) (hb.toS c) (ha.toS c) (ha.toS c)).2.2.2.2.2.2.2.2.2.2.2.1,
   fun _ _ _ _ _ _ _ _ _ _ c ha hb hc => (indep_i_cmp c (ha.toS c) (ha.toS c) (hb.toS c) (hc.toS c)).2.2.2.2.2.2.2.2.2.2.2.2.1,
   fun _ _ _ _ _ _ c ha => (indep_i_cmp c (ha.toS c) (ha.toS c) (ha.toS c) (ha.toS c)).2.2.2.2.2.2.2.2.2.2.2.2.2.1,
   fun _ _ _ _ _ _ c ha => (indep_i_cmp c (ha.toS c) (ha.toS c) (ha.toS c) (ha.toS c)).2.2.2.2.2.2.2.2.2.2.2.2.2.2.1,
   fun _ _ _ _ _ _ c ha => (indep_i_cmp c (ha.toS c) (ha.toS c) (ha.toS c) (ha.toS c)).2.2.2.2.2.2.2.2.2.2.2.2.2.2.2,
   fun _ _ _ _ _ _ c ha => (indep_i_pow c (ha.toS c) e dbg).1,
   fun _ _ _ _ _ _ c ha => (indep_i_pow c (ha.toS c) e dbg).2.1,
   fun _ _ _ _ _ _ c ha => (indep_i_pow c (ha.toS c) e dbg).2.2.1,
   fun _ _ _ _ _ _ c ha => (indep_i_pow c (ha.toS c) e dbg).2.2.2.1,
   fun _ _ _ _ _ _ c ha => (indep_i_pow c (ha.toS c) e dbg).2.2.2.2.1,
   fun _ _ _ _ _ _ c ha => (indep_i_pow c (ha.toS c) e dbg).2.2.2.2.2⟩

/-! ## §3 (ii) `op_extend_commutes`

  `x : Ext w₁ n₁ w₂ n₂` — the second type is at least as wide (any digit types).  Operands related by
  `SameU` (zero-extension of a `BUint`) resp. `SameS` (sign-extension of a `BInt`), i.e. the C09 cast
  (§1).  Whenever the exact result is representable in the NARROW type, the wide operation returns a
  result of the same value — the extension of the narrow result (`result_is_cast`) — and neither
  overflows.  (For `div`, `rem`, `cmp` and printing the exact result is always representable.) -/

/-- unsigned add / sub / mul -/
theorem ext_u_arith (x : Ext w₁ n₁ w₂ n₂) (ha : SameU w₁ n₁ w₂ n₂ a₁ a₂) (hb : SameU w₁ n₁ w₂ n₂ b₁ b₂) :
    (repU (M w₁ n₁) ((U w₁ a₁ : Int) + U w₁ b₁) →
      PairRel (EqU w₁ w₂) (UI.overflowingAdd w₁ a₁ b₁) (UI.overflowingAdd w₂ a₂ b₂) ∧
      (UI.overflowingAdd w₁ a₁ b₁).2 = false ∧
      OptRel (EqU w₁ w₂) (UI.checkedAdd w₁ a₁ b₁) (UI.checkedAdd w₂ a₂ b₂)) ∧
    (repU (M w₁ n₁) ((U w₁ a₁ : Int) - U w₁ b₁) →
      PairRel (EqU w₁ w₂) (UI.overflowingSub w₁ a₁ b₁) (UI.overflowingSub w₂ a₂ b₂) ∧
      (UI.overflowingSub w₁ a₁ b₁).2 = false ∧
      OptRel (EqU w₁ w₂) (UI.checkedSub w₁ a₁ b₁) (UI.checkedSub w₂ a₂ b₂)) ∧
    (repU (M w₁ n₁) ((U w₁ a₁ : Int) * U w₁ b₁) →
      PairRel (EqU w₁ w₂) (UI.overflowingMul w₁ a₁ b₁) (UI.overflowingMul w₂ a₂ b₂) ∧
      (UI.overflowingMul w₁ a₁ b₁).2 = false ∧
      OptRel (EqU w₁ w₂) (UI.checkedMul w₁ a₁ b₁) (UI.checkedMul w₂ a₂ b₂)) := by
  refine ⟨fun h => ?_, fun h => ?_, fun h => ?_⟩
  · have p := ext_ovfU x.M_le (UI.overflowingAdd_spec ha.wf₁ hb.wf₁) (UI.overflowingAdd_spec ha.wf₂ hb.wf₂)
      (by rw [ha.val, hb.val]) h
    exact ⟨p.1, p.2, p.1.checked⟩
  · have p := ext_ovfU x.M_le (ofExpandU (C01.u_overflowing_sub ha.wf₁ hb.wf₁))
      (ofExpandU (C01.u_overflowing_sub ha.wf₂ hb.wf₂)) (by rw [ha.val, hb.val]) h
    exact ⟨p.1, p.2, p.1.checked⟩
  · have p := ext_ovfU x.M_le (ofExpandU (C02.u_overflowing_mul ha.wf₁ hb.wf₁))
      (ofExpandU (C02.u_overflowing_mul ha.wf₂ hb.wf₂)) (by rw [ha.val, hb.val]) h
    exact ⟨p.1, p.2, p.1.checked⟩
example : Ext 8 1 16 2 ∧ SameU 8 1 16 2 [200] [200, 0] ∧ SameU 8 1 16 2 [50] [50, 0] ∧
    repU (M 8 1) ((U 8 [200] : Int) + U 8 [50]) ∧ UI.overflowingAdd 8 [200] [50] = ([250], false) ∧
    UI.overflowingAdd 16 [200, 0] [50, 0] = ([250, 0], false) :=
  ⟨⟨by decide, by decide, by decide, by decide, by decide⟩, ⟨by decide, by decide, by decide⟩,
   ⟨by decide, by decide, by decide⟩, by decide, by decide, by decide⟩

/-- signed add / sub / mul -/
theorem ext_i_arith (x : Ext w₁ n₁ w₂ n₂) (ha : SameS w₁ n₁ w₂ n₂ a₁ a₂) (hb : SameS w₁ n₁ w₂ n₂ b₁ b₂) :
    (repS (M w₁ n₁) (S w₁ a₁ + S w₁ b₁) →
      PairRel (EqS w₁ w₂) (II.overflowingAdd w₁ a₁ b₁) (II.overflowingAdd w₂ a₂ b₂) ∧
      (II.overflowingAdd w₁ a₁ b₁).2 = false ∧
      OptRel (EqS w₁ w₂) (II.checkedAdd w₁ a₁ b₁) (II.checkedAdd w₂ a₂ b₂)) ∧
    (repS (M w₁ n₁) (S w₁ a₁ - S w₁ b₁) →
      PairRel (EqS w₁ w₂) (II.overflowingSub w₁ a₁ b₁) (II.overflowingSub w₂ a₂ b₂) ∧
      (II.overflowingSub w₁ a₁ b₁).2 = false ∧
      OptRel (EqS w₁ w₂) (II.checkedSub w₁ a₁ b₁) (II.checkedSub w₂ a₂ b₂)) ∧
    (repS (M w₁ n₁) (S w₁ a₁ * S w₁ b₁) →
      PairRel (EqS w₁ w₂) (II.overflowingMul w₁ a₁ b₁) (II.overflowingMul w₂ a₂ b₂) ∧
      (II.overflowingMul w₁ a₁ b₁).2 = false ∧
      OptRel (EqS w₁ w₂) (II.checkedMul w₁ a₁ b₁) (II.checkedMul w₂ a₂ b₂)) := by
  refine ⟨fun h => ?_, fun h => ?_, fun h => ?_⟩
  · have p := ext_ovfS x.M_le (ofExpandS (C01.i_overflowing_add x.hw₁ x.hn₁ ha.wf₁ hb.wf₁))
      (ofExpandS (C01.i_overflowing_add x.hw₂ x.hn₂ ha.wf₂ hb.wf₂)) (by rw [ha.val, hb.val]) h
    exact ⟨p.1, p.2, p.1.checked⟩
  · have p := ext_ovfS x.M_le (ofExpandS (C01.i_overflowing_sub x.hw₁ x.hn₁ ha.wf₁ hb.wf₁))
      (ofExpandS (C01.i_overflowing_sub x.hw₂ x.hn₂ ha.wf₂ hb.wf₂)) (by rw [ha.val, hb.val]) h
    exact ⟨p.1, p.2, p.1.checked⟩
  · have p := ext_ovfS x.M_le (ofExpandS (C02.i_overflowing_mul x.hw₁ x.hn₁ ha.wf₁ hb.wf₁))
      (ofExpandS (C02.i_overflowing_mul x.hw₂ x.hn₂ ha.wf₂ hb.wf₂)) (by rw [ha.val, hb.val]) h
    exact ⟨p.1, p.2, p.1.checked⟩
example : Ext 8 1 16 2 ∧ SameS 8 1 16 2 [0x9c] [0xff9c, 0xffff] ∧ SameS 8 1 16 2 [0xe4] [0xffe4, 0xffff] ∧
    repS (M 8 1) (S 8 [0x9c] + S 8 [0xe4]) ∧ II.overflowingAdd 8 [0x9c] [0xe4] = ([0x80], false) ∧
    II.overflowingAdd 16 [0xff9c, 0xffff] [0xffe4, 0xffff] = ([0xff80, 0xffff], false) :=
  ⟨⟨by decide, by decide, by decide, by decide, by decide⟩, ⟨by decide, by decide, by decide⟩,
   ⟨by decide, by decide, by decide⟩, by decide, by decide, by decide⟩

/-- pow, unsigned and signed -/
theorem ext_pow (x : Ext w₁ n₁ w₂ n₂) (e : Nat) :
    (SameU w₁ n₁ w₂ n₂ a₁ a₂ → repU (M w₁ n₁) ((U w₁ a₁ : Int) ^ e) →
      PairRel (EqU w₁ w₂) (UI.overflowingPow w₁ a₁ e) (UI.overflowingPow w₂ a₂ e) ∧
      (UI.overflowingPow w₁ a₁ e).2 = false) ∧
    (SameS w₁ n₁ w₂ n₂ b₁ b₂ → repS (M w₁ n₁) (S w₁ b₁ ^ e) →
      PairRel (EqS w₁ w₂) (II.overflowingPow w₁ b₁ e) (II.overflowingPow w₂ b₂ e) ∧
      (II.overflowingPow w₁ b₁ e).2 = false) :=
  ⟨fun ha h => ext_ovfU x.M_le (UI.overflowingPow_spec x.one₁ x.hn₁ ha.wf₁ e)
      (UI.overflowingPow_spec x.one₂ x.hn₂ ha.wf₂ e) (by rw [ha.val]) h,
   fun hb h => ext_ovfS x.M_le (II.overflowingPow_spec x.hw₁ x.hn₁ hb.wf₁ e)
      (II.overflowingPow_spec x.hw₂ x.hn₂ hb.wf₂ e) (by rw [hb.val]) h⟩

/-- unsigned div / rem (zero divisor: both `None` / both panic) -/
theorem ext_u_div (x : Ext w₁ n₁ w₂ n₂) (ha : SameU w₁ n₁ w₂ n₂ a₁ a₂) (hb : SameU w₁ n₁ w₂ n₂ b₁ b₂) :
    OutRel (OptRel (EqU w₁ w₂)) (UI.checkedDiv w₁ a₁ b₁) (UI.checkedDiv w₂ a₂ b₂) ∧
    OutRel (OptRel (EqU w₁ w₂)) (UI.checkedRem w₁ a₁ b₁) (UI.checkedRem w₂ a₂ b₂) ∧
    OutRel (PairRel (EqU w₁ w₂)) (UI.overflowingDiv w₁ a₁ b₁) (UI.overflowingDiv w₂ a₂ b₂) ∧
    OutRel (PairRel (EqU w₁ w₂)) (UI.overflowingRem w₁ a₁ b₁) (UI.overflowingRem w₂ a₂ b₂) ∧
    OutRel (EqU w₁ w₂) (UI.div w₁ a₁ b₁) (UI.div w₂ a₂ b₂) ∧
    OutRel (EqU w₁ w₂) (UI.rem w₁ a₁ b₁) (UI.rem w₂ a₂ b₂) ∧
    OutRel (EqU w₁ w₂) (UI.divEuclid w₁ a₁ b₁) (UI.divEuclid w₂ a₂ b₂) ∧
    OutRel (EqU w₁ w₂) (UI.remEuclid w₁ a₁ b₁) (UI.remEuclid w₂ a₂ b₂) := by
  by_cases h0 : U w₁ b₁ = 0
  · have h0' : U w₂ b₂ = 0 := by rw [← hb.val]; exact h0
    have z₁ := C03.u_zero_divisor (a := a₁) h0 true
    have z₂ := C03.u_zero_divisor (a := a₂) h0' true
    simp only [z₁, z₂, OutRel, OptRel, and_self]
  · have h0' : U w₂ b₂ ≠ 0 := by rw [← hb.val]; exact h0
    obtain ⟨q₁, r₁, -, -, uq₁, ur₁, f₁⟩ := C03.u_forms x.one₁ x.hn₁ ha.wf₁ hb.wf₁ h0
    obtain ⟨q₂, r₂, -, -, uq₂, ur₂, f₂⟩ := C03.u_forms x.one₂ x.hn₂ ha.wf₂ hb.wf₂ h0'
    have eq : EqU w₁ w₂ q₁ q₂ := EqU.of_nat uq₁ uq₂ (by rw [ha.val, hb.val])
    have er : EqU w₁ w₂ r₁ r₂ := EqU.of_nat ur₁ ur₂ (by rw [ha.val, hb.val])
    simp only [f₁, f₂]
    exact ⟨eq, er, ⟨eq, rfl⟩, ⟨er, rfl⟩, eq, er, eq, er⟩

/-- signed div / rem, excluding only `MIN / -1` of the narrow type (where the narrow type overflows
    and the wide one does not); zero divisor: both `None` / both panic -/
theorem ext_i_div (x : Ext w₁ n₁ w₂ n₂) (ha : SameS w₁ n₁ w₂ n₂ a₁ a₂) (hb : SameS w₁ n₁ w₂ n₂ b₁ b₂)
    (dbg : Bool) (hov : ¬ (S w₁ a₁ = -(H w₁ n₁ : Int) ∧ S w₁ b₁ = -1)) :
    OutRel (OptRel (EqS w₁ w₂)) (II.checkedDiv dbg w₁ a₁ b₁) (II.checkedDiv dbg w₂ a₂ b₂) ∧
    OutRel (OptRel (EqS w₁ w₂)) (II.checkedRem dbg w₁ a₁ b₁) (II.checkedRem dbg w₂ a₂ b₂) ∧
    OutRel (PairRel (EqS w₁ w₂)) (II.overflowingDiv dbg w₁ a₁ b₁) (II.overflowingDiv dbg w₂ a₂ b₂) ∧
    OutRel (PairRel (EqS w₁ w₂)) (II.overflowingRem dbg w₁ a₁ b₁) (II.overflowingRem dbg w₂ a₂ b₂) ∧
    OutRel (EqS w₁ w₂) (II.div dbg w₁ a₁ b₁) (II.div dbg w₂ a₂ b₂) ∧
    OutRel (EqS w₁ w₂) (II.rem dbg w₁ a₁ b₁) (II.rem dbg w₂ a₂ b₂) ∧
    OutRel (EqS w₁ w₂) (II.divEuclid dbg w₁ a₁ b₁) (II.divEuclid dbg w₂ a₂ b₂) ∧
    OutRel (EqS w₁ w₂) (II.remEuclid dbg w₁ a₁ b₁) (II.remEuclid dbg w₂ a₂ b₂) := by
  rw [← M_half_eq_H x.one₁ x.hn₁] at hov
  by_cases h0 : S w₁ b₁ = 0
  · have h0' : S w₂ b₂ = 0 := by rw [← hb.val]; exact h0
    have z₁ := C03.i_zero_divisor x.hw₁ x.hn₁ ha.wf₁ hb.wf₁ h0 dbg
    have z₂ := C03.i_zero_divisor x.hw₂ x.hn₂ ha.wf₂ hb.wf₂ h0' dbg
    simp only [z₁, z₂, OutRel, OptRel, and_self]
  · have h0' : S w₂ b₂ ≠ 0 := by rw [← hb.val]; exact h0
    have hov' : ¬ (S w₂ a₂ = -((M w₂ n₂ / 2 : Nat) : Int) ∧ S w₂ b₂ = -1) := by
      rintro ⟨e₁, e₂⟩
      have hr := (S_repS x.one₁ x.hn₁ ha.wf₁).1
      have hle := x.M_le
      have hev₁ := M_even x.one₁ x.hn₁
      have hev₂ := M_even x.one₂ x.hn₂
      rw [ha.val, e₁] at hr
      refine hov ⟨?_, by rw [hb.val]; exact e₂⟩
      rw [ha.val, e₁]; omega
    obtain ⟨q₁, r₁, qe₁, re₁, -, -, -, -, sq₁, sr₁, sqe₁, sre₁, f₁⟩ :=
      C03.i_forms x.hw₁ x.hn₁ ha.wf₁ hb.wf₁ h0 hov dbg
    obtain ⟨q₂, r₂, qe₂, re₂, -, -, -, -, sq₂, sr₂, sqe₂, sre₂, f₂⟩ :=
      C03.i_forms x.hw₂ x.hn₂ ha.wf₂ hb.wf₂ h0' hov' dbg
    have eq : EqS w₁ w₂ q₁ q₂ := EqS.of_int sq₁ sq₂ (by rw [ha.val, hb.val])
    have er : EqS w₁ w₂ r₁ r₂ := EqS.of_int sr₁ sr₂ (by rw [ha.val, hb.val])
    have eqe : EqS w₁ w₂ qe₁ qe₂ := EqS.of_int sqe₁ sqe₂ (by rw [ha.val, hb.val])
    have ere : EqS w₁ w₂ re₁ re₂ := EqS.of_int sre₁ sre₂ (by rw [ha.val, hb.val])
    simp only [f₁, f₂]
    exact ⟨eq, er, ⟨eq, rfl⟩, ⟨er, rfl⟩, eq, er, eqe, ere⟩
/-- the excluded case really differs: `i8::MIN / -1` overflows, its extension to 16 bits does not -/
example : II.checkedDiv true 8 [0x80] [0xff] = .ok none ∧
    II.checkedDiv true 16 [0xff80] [0xffff] = .ok (some [0x0080]) := by decide

/-- left shift by an in-range amount whose exact result `x · 2^s` fits the narrow type -/
theorem ext_shl (x : Ext w₁ n₁ w₂ n₂) (s : Nat) (hs : s < w₁ * n₁) :
    (SameU w₁ n₁ w₂ n₂ a₁ a₂ → repU (M w₁ n₁) ((U w₁ a₁ : Int) * 2 ^ s) →
      OptRel (EqU w₁ w₂) (UI.checkedShl w₁ a₁ s) (UI.checkedShl w₂ a₂ s) ∧
      ∃ r, UI.checkedShl w₁ a₁ s = some r ∧ (U w₁ r : Int) = (U w₁ a₁ : Int) * 2 ^ s) ∧
    (SameS w₁ n₁ w₂ n₂ b₁ b₂ → repS (M w₁ n₁) (S w₁ b₁ * 2 ^ s) →
      OptRel (EqS w₁ w₂) (II.checkedShl w₁ b₁ s) (II.checkedShl w₂ b₂ s) ∧
      ∃ r, II.checkedShl w₁ b₁ s = some r ∧ S w₁ r = S w₁ b₁ * 2 ^ s) := by
  have hs₂ : s < w₂ * n₂ := Nat.lt_of_lt_of_le hs x.bits
  constructor
  · intro ha hrep
    have e₁ := (C05.u_inrange true (w := w₁) (a := a₁) (s := s) (by rw [ha.wf₁.1]; exact hs)).2.2.2.2.1
    have e₂ := (C05.u_inrange true (w := w₂) (a := a₂) (s := s) (by rw [ha.wf₂.1]; exact hs₂)).2.2.2.2.1
    have v₁ := (C05.shl_spec x.one₁ ha.wf₁ hs).2
    have v₂ := (C05.shl_spec x.one₂ ha.wf₂ hs₂).2
    have hlt : U w₁ a₁ * 2 ^ s < M w₁ n₁ := by have := hrep.2; exact_mod_cast this
    have hlt₂ : U w₂ a₂ * 2 ^ s < M w₂ n₂ := by rw [← ha.val]; exact Nat.lt_of_lt_of_le hlt x.M_le
    rw [Nat.mod_eq_of_lt hlt] at v₁; rw [Nat.mod_eq_of_lt hlt₂] at v₂
    rw [e₁, e₂]
    exact ⟨EqU.of_nat v₁ v₂ (by rw [ha.val]), _, rfl, by rw [v₁]; push_cast; rfl⟩
  · intro hb hrep
    have e₁ := (C05.i_inrange true (w := w₁) (a := b₁) (s := s) (by rw [hb.wf₁.1]; exact hs)).2.2.2.2.1
    have e₂ := (C05.i_inrange true (w := w₂) (a := b₂) (s := s) (by rw [hb.wf₂.1]; exact hs₂)).2.2.2.2.1
    have v₁ := S_of_pattern (C05.shl_spec x.one₁ hb.wf₁ hs).1 (C05.i_shl_spec x.one₁ hb.wf₁ hs) hrep
    have v₂ := S_of_pattern (C05.shl_spec x.one₂ hb.wf₂ hs₂).1 (C05.i_shl_spec x.one₂ hb.wf₂ hs₂)
      (by rw [← hb.val]; exact repS_ext x.M_le hrep)
    rw [e₁, e₂]
    exact ⟨EqS.of_int v₁ v₂ (by rw [hb.val]), _, rfl, v₁⟩
example : II.checkedShl 8 [0xfd] 5 = some [0xa0] ∧ II.checkedShl 16 [0xfffd, 0xffff] 5 = some [0xffa0, 0xffff] ∧
    repS (M 8 1) (S 8 [0xfd] * 2 ^ 5) := by decide

/-- comparison and printing commute with extension unconditionally -/
theorem ext_cmp_print (x : Ext w₁ n₁ w₂ n₂) (h8₁ : 8 ≤ w₁) (h8₂ : 8 ≤ w₂) (r : Nat) (hr : 2 ≤ r ∧ r ≤ 36)
    {c₁ c₂ d₁ d₂ : List Nat} (ha : SameU w₁ n₁ w₂ n₂ a₁ a₂) (hb : SameU w₁ n₁ w₂ n₂ b₁ b₂)
    (hc : SameS w₁ n₁ w₂ n₂ c₁ c₂) (hd : SameS w₁ n₁ w₂ n₂ d₁ d₂) :
    UI.cmp a₁ b₁ = UI.cmp a₂ b₂ ∧ II.cmp w₁ c₁ d₁ = II.cmp w₂ c₂ d₂ ∧
    UI.toStrRadix w₁ a₁ r = UI.toStrRadix w₂ a₂ r ∧ II.toStrRadix w₁ c₁ r = II.toStrRadix w₂ c₂ r := by
  refine ⟨?_, ?_, ?_, ?_⟩
  · rw [C07.u_cmp_spec ha.wf₁ hb.wf₁, C07.u_cmp_spec ha.wf₂ hb.wf₂, ha.val, hb.val]
  · rw [C07.i_cmp_spec x.one₁ x.hn₁ hc.wf₁ hd.wf₁, C07.i_cmp_spec x.one₂ x.hn₂ hc.wf₂ hd.wf₂, hc.val, hd.val]
  · rw [C11.u_toStrRadix_spec x.hn₁ h8₁ ha.wf₁ hr.1 hr.2, C11.u_toStrRadix_spec x.hn₂ h8₂ ha.wf₂ hr.1 hr.2,
      ha.val]
  · rw [C11.i_toStrRadix_spec x.hn₁ h8₁ hc.wf₁ hr.1 hr.2, C11.i_toStrRadix_spec x.hn₂ h8₂ hc.wf₂ hr.1 hr.2,
      hc.val]
example : II.toStrRadix 8 [0x80] 10 = .ok [0x2d, 0x31, 0x32, 0x38] ∧
    II.toStrRadix 16 [0xff80, 0xffff] 10 = .ok [0x2d, 0x31, 0x32, 0x38] := by decide

/-- parsing: whatever the narrow type parses successfully, the wide type parses to the same value
    (radix 10 is `FromStr`) -/
theorem ext_u_parse (x : Ext w₁ n₁ w₂ n₂) (h8₁ : 8 ≤ w₁) (h4₁ : 4 ∣ w₁) (h8₂ : 8 ≤ w₂) (h4₂ : 4 ∣ w₂)
    (str : List Nat) (r : Nat) (hr : 2 ≤ r ∧ r ≤ 36) {v₁ : List Nat}
    (h : UI.fromStrRadix w₁ n₁ str r = .ok (.ok v₁)) :
    ∃ v₂, UI.fromStrRadix w₂ n₂ str r = .ok (.ok v₂) ∧ SameU w₁ n₁ w₂ n₂ v₁ v₂ := by
  obtain ⟨g, hg, hwf, hv, hrep⟩ := C10.u_parse_sound x.hn₁ h8₁ h4₁ hr.1 hr.2 h
  have hrep₂ := repU_ext x.M_le hrep
  refine ⟨_, C10.u_parse_complete x.hn₂ h8₂ h4₂ hr.1 hr.2 hg hrep₂, hwf, Radix.WF_ofInt _ _ _, ?_⟩
  have := Radix.U_ofInt_of_rep hrep₂
  omega

theorem ext_i_parse {s₁ s₂ : Nat} (x : Ext (2 ^ s₁) n₁ (2 ^ s₂) n₂) (h3₁ : 3 ≤ s₁) (hs₁ : s₁ < 32)
    (h3₂ : 3 ≤ s₂) (hs₂ : s₂ < 32) (str : List Nat) (r : Nat) (hr : 2 ≤ r ∧ r ≤ 36) {v₁ : List Nat}
    (h : II.fromStrRadix (2 ^ s₁) n₁ str r = .ok (.ok v₁)) :
    ∃ v₂, II.fromStrRadix (2 ^ s₂) n₂ str r = .ok (.ok v₂) ∧ SameS (2 ^ s₁) n₁ (2 ^ s₂) n₂ v₁ v₂ := by
  obtain ⟨g, hg, hwf, hv, hrep⟩ := C10.i_parse_sound x.hn₁ h3₁ hs₁ hr.1 hr.2 h
  have hrep₂ := repS_ext x.M_le hrep
  exact ⟨_, C10.i_parse_complete x.hn₂ h3₂ hs₂ hr.1 hr.2 hg hrep₂, hwf, Radix.WF_ofInt _ _ _,
    by rw [hv, Radix.S_ofInt_of_rep hrep₂]⟩
example : II.fromStrRadix (2 ^ 3) 1 [0x2d, 0x31, 0x32, 0x38] 10 = .ok (.ok [0x80]) ∧
    II.fromStrRadix (2 ^ 4) 2 [0x2d, 0x31, 0x32, 0x38] 10 = .ok (.ok [0xff80, 0xffff]) := by decide

/-- (ii) SUMMARY — zero- or sign-extension commutes with add, sub, mul, div, rem, pow, shl, cmp (stated on
    the `checked_*` forms: the wide type returns `Some` of the same value as the narrow type) whenever the
    exact result is representable in the narrow type.  Decimal printing and parsing: `ext_cmp_print`,
    `ext_u_parse`, `ext_i_parse` (they need `8 ≤ w`).  Details per operation: `ext_u_arith`, … above. -/
theorem op_extend_commutes {c₁ c₂ d₁ d₂ : List Nat} (x : Ext w₁ n₁ w₂ n₂)
    (ha : SameU w₁ n₁ w₂ n₂ a₁ a₂) (hb : SameU w₁ n₁ w₂ n₂ b₁ b₂)
    (hc : SameS w₁ n₁ w₂ n₂ c₁ c₂) (hd : SameS w₁ n₁ w₂ n₂ d₁ d₂) (s e : Nat) (dbg : Bool) :
    -- BUint, zero-extension
    ((repU (M w₁ n₁) ((U w₁ a₁ : Int) + U w₁ b₁) →
        OptRel (EqU w₁ w₂) (UI.checkedAdd w₁ a₁ b₁) (UI.checkedAdd w₂ a₂ b₂)) ∧
     (repU (M w₁ n₁) ((U w₁ a₁ : Int) - U w₁ b₁) →
        OptRel (EqU w₁ w₂) (UI.checkedSub w₁ a₁ b₁) (UI.checkedSub w₂ a₂ b₂)) ∧
     (repU (M w₁ n₁) ((U w₁ a₁ : Int) * U w₁ b₁) →
        OptRel (EqU w₁ w₂) (UI.checkedMul w₁ a₁ b₁) (UI.checkedMul w₂ a₂ b₂)) ∧
     OutRel (OptRel (EqU w₁ w₂)) (UI.checkedDiv w₁ a₁ b₁) (UI.checkedDiv w₂ a₂ b₂) ∧
     OutRel (OptRel (EqU w₁ w₂)) (UI.checkedRem w₁ a₁ b₁) (UI.checkedRem w₂ a₂ b₂) ∧
     (repU (M w₁ n₁) ((U w₁ a₁ : Int) ^ e) →
        OptRel (EqU w₁ w₂) (UI.checkedPow w₁ a₁ e) (UI.checkedPow w₂ a₂ e)) ∧
     (s < w₁ * n₁ → repU (M w₁ n₁) ((U w₁ a₁ : Int) * 2 ^ s) →
        OptRel (EqU w₁ w₂) (UI.checkedShl w₁ a₁ s) (UI.checkedShl w₂ a₂ s)) ∧
     UI.cmp a₁ b₁ = UI.cmp a₂ b₂) ∧
    -- BInt, sign-extension
    ((repS (M w₁ n₁) (S w₁ c₁ + S w₁ d₁) →
        OptRel (EqS w₁ w₂) (II.checkedAdd w₁ c₁ d₁) (II.checkedAdd w₂ c₂ d₂)) ∧
     (repS (M w₁ n₁) (S w₁ c₁ - S w₁ d₁) →
        OptRel (EqS w₁ w₂) (II.checkedSub w₁ c₁ d₁) (II.checkedSub w₂ c₂ d₂)) ∧
     (repS (M w₁ n₁) (S w₁ c₁ * S w₁ d₁) →
        OptRel (EqS w₁ w₂) (II.checkedMul w₁ c₁ d₁) (II.checkedMul w₂ c₂ d₂)) ∧
     (¬ (S w₁ c₁ = -(H w₁ n₁ : Int) ∧ S w₁ d₁ = -1) →
        OutRel (OptRel (EqS w₁ w₂)) (II.checkedDiv dbg w₁ c₁ d₁) (II.checkedDiv dbg w₂ c₂ d₂) ∧
        OutRel (OptRel (EqS w₁ w₂)) (II.checkedRem dbg w₁ c₁ d₁) (II.checkedRem dbg w₂ c₂ d₂)) ∧
     (repS (M w₁ n₁) (S w₁ c₁ ^ e) →
        OptRel (EqS w₁ w₂) (II.checkedPow w₁ c₁ e) (II.checkedPow w₂ c₂ e)) ∧
     (s < w₁ * n₁ → repS (M w₁ n₁) (S w₁ c₁ * 2 ^ s) →
        OptRel (EqS w₁ w₂) (II.checkedShl w₁ c₁ s) (II.checkedShl w₂ c₂ s)) ∧
     II.cmp w₁ c₁ d₁ = II.cmp w₂ c₂ d₂) := by
  have ua := ext_u_arith x ha hb
  have ia := ext_i_arith x hc hd
  have ud := ext_u_div x ha hb
  refine ⟨⟨fun h => (ua.1 h).2.2, fun h => (ua.2.1 h).2.2, fun h => (ua.2.2 h).2.2, ud.1, ud.2.1, fun h => ?_,
    fun hs h => ((ext_shl (b₁ := c₁) (b₂ := c₂) x s hs).1 ha h).1, ?_⟩,
    ⟨fun h => (ia.1 h).2.2, fun h => (ia.2.1 h).2.2, fun h => (ia.2.2 h).2.2,
     fun h => ⟨(ext_i_div x hc hd dbg h).1, (ext_i_div x hc hd dbg h).2.1⟩, fun h => ?_,
     fun hs h => ((ext_shl (a₁ := a₁) (a₂ := a₂) x s hs).2 hc h).1, ?_⟩⟩
  · rw [(C08.u_pow_loops_agree x.one₁ x.hn₁ ha.wf₁ e).1, (C08.u_pow_loops_agree x.one₂ x.hn₂ ha.wf₂ e).1]
    exact (((ext_pow (b₁ := c₁) (b₂ := c₂) x e).1 ha h).1).checked
  · rw [C07.u_cmp_spec ha.wf₁ hb.wf₁, C07.u_cmp_spec ha.wf₂ hb.wf₂, ha.val, hb.val]
  · rw [C08.i_checked_pow_proj x.hw₁ x.hn₁ hc.wf₁ e, C08.i_checked_pow_proj x.hw₂ x.hn₂ hc.wf₂ e]
    exact (((ext_pow (a₁ := a₁) (a₂ := a₂) x e).2 hc h).1).checked
  · rw [C07.i_cmp_spec x.one₁ x.hn₁ hc.wf₁ hd.wf₁, C07.i_cmp_spec x.one₂ x.hn₂ hc.wf₂ hd.wf₂, hc.val, hd.val]
/-- the hypotheses are satisfiable, and the representability hypothesis is needed:
    `200 + 100` does not fit `u8` (narrow: `None`) but fits its 16-bit extension (`Some 300`) -/
example : Ext 8 1 16 2 ∧ SameU 8 1 16 2 [200] [200, 0] ∧ SameU 8 1 16 2 [100] [100, 0] ∧
    ¬ repU (M 8 1) ((U 8 [200] : Int) + U 8 [100]) ∧ UI.checkedAdd 8 [200] [100] = none ∧
    UI.checkedAdd 16 [200, 0] [100, 0] = some [300, 0] :=
  ⟨⟨by decide, by decide, by decide, by decide, by decide⟩, ⟨by decide, by decide, by decide⟩,
   ⟨by decide, by decide, by decide⟩, by decide, by decide, by decide⟩

end

/-! ## §4 (iii) constants

  `Consts.UI.*` / `Consts.II.*` mirror `src/buint/consts.rs` / `src/bint/consts.rs`; a constant whose
  compile-time evaluation fails is `Outcome.panic`.  Hypotheses: `1 ≤ n` (a `BUint<0>` has no digit 0),
  `k < 2^w` (the literal fits the digit), `w·n < 2^32` (`BITS: u32`), and for the signed numerals that
  the value is in range (`2k < 2^W` resp. `2k ≤ 2^W`): all of them hold for every real digit type
  (`8 ≤ w`) — `consts_real` — and they are needed: `small_width_counterexamples`. -/

/-- `BITS = N × digit bits`, `BYTES = BITS / 8` (both types) -/
theorem bits_bytes {w n : Nat} (hw : 1 ≤ w) (hW : w * n < 2 ^ 32) :
    Consts.UI.BITS w n = .ok (w * n) ∧ Consts.UI.BYTES w n = .ok (w * n / 8) ∧
    Consts.II.BITS w n = .ok (w * n) ∧ Consts.II.BYTES w n = .ok (w * n / 8) :=
  ⟨BITS_eq hW hw, BYTES_eq hW hw, BITS_eq hW hw, BYTES_eq hW hw⟩
example : (1 ≤ 8 ∧ 8 * 3 < 2 ^ 32) ∧ Consts.UI.BITS 8 3 = .ok 24 ∧ Consts.II.BYTES 16 4 = .ok 8 := by decide

/-- `BUint::MIN = BUint::ZERO = 0`, `BUint::MAX = 2^BITS - 1` -/
theorem u_min_max_zero (w n : Nat) :
    (WF w n (Consts.UI.MIN n) ∧ U w (Consts.UI.MIN n) = 0) ∧
    (WF w n (Consts.UI.ZERO n) ∧ U w (Consts.UI.ZERO n) = 0) ∧
    (WF w n (Consts.UI.MAX w n) ∧ U w (Consts.UI.MAX w n) = M w n - 1) :=
  ⟨⟨WF_zero w n, U_zero w n⟩, ⟨WF_zero w n, U_zero w n⟩, ⟨WF_allOnes w n, U_allOnes w n⟩⟩
example : Consts.UI.MAX 8 3 = [255, 255, 255] ∧ Consts.UI.ZERO 3 = [0, 0, 0] := by decide

/-- `pos_const!`: the constant built by `from_digit(k)` denotes `k` -/
theorem u_pos {w n k : Nat} (hk : k < B w) (hn : 1 ≤ n) :
    ∃ r, Consts.UI.pos w n k = .ok r ∧ WF w n r ∧ U w r = k :=
  ⟨_, upos_eq hk hn, WF_fromDigit hn hk, U_fromDigit k hn⟩
example : (10 < B 8 ∧ 1 ≤ 3) ∧ Consts.UI.TEN 8 3 = .ok [10, 0, 0] := by decide

/-- `BUint::ONE … TEN = 1 … 10` whenever `10 < 2^w` -/
theorem u_one_to_ten {w n : Nat} (h10 : 10 < B w) (hn : 1 ≤ n) :
    (∃ r, Consts.UI.ONE w n = .ok r ∧ WF w n r ∧ U w r = 1) ∧
    (∃ r, Consts.UI.TWO w n = .ok r ∧ WF w n r ∧ U w r = 2) ∧
    (∃ r, Consts.UI.THREE w n = .ok r ∧ WF w n r ∧ U w r = 3) ∧
    (∃ r, Consts.UI.FOUR w n = .ok r ∧ WF w n r ∧ U w r = 4) ∧
    (∃ r, Consts.UI.FIVE w n = .ok r ∧ WF w n r ∧ U w r = 5) ∧
    (∃ r, Consts.UI.SIX w n = .ok r ∧ WF w n r ∧ U w r = 6) ∧
    (∃ r, Consts.UI.SEVEN w n = .ok r ∧ WF w n r ∧ U w r = 7) ∧
    (∃ r, Consts.UI.EIGHT w n = .ok r ∧ WF w n r ∧ U w r = 8) ∧
    (∃ r, Consts.UI.NINE w n = .ok r ∧ WF w n r ∧ U w r = 9) ∧
    (∃ r, Consts.UI.TEN w n = .ok r ∧ WF w n r ∧ U w r = 10) :=
  ⟨u_pos (by omega) hn, u_pos (by omega) hn, u_pos (by omega) hn, u_pos (by omega) hn,
   u_pos (by omega) hn, u_pos (by omega) hn, u_pos (by omega) hn, u_pos (by omega) hn,
   u_pos (by omega) hn, u_pos (by omega) hn⟩

/-- `BInt::MIN = -2^(BITS-1)`, `BInt::MAX = 2^(BITS-1) - 1`, `BInt::ZERO = 0` -/
theorem i_min_max_zero {w n : Nat} (hw : 2 ≤ w) (hn : 1 ≤ n) :
    (∃ r, Consts.II.MIN w n = .ok r ∧ WF w n r ∧ S w r = -(H w n : Int)) ∧
    (∃ r, Consts.II.MAX w n = .ok r ∧ WF w n r ∧ S w r = (H w n : Int) - 1) ∧
    (WF w n (Consts.II.ZERO n) ∧ S w (Consts.II.ZERO n) = 0) := by
  have hw1 : 1 ≤ w := by omega
  rw [← M_half_eq_H hw1 hn]
  exact ⟨⟨_, IMIN_eq hw1 hn, WF_iMin hw1 hn, S_iMin hw1 hn⟩,
    ⟨_, IMAX_eq hw hn, WF_iMax hw1 hn, S_iMax hw1 hn⟩, WF_zero w n, S_zero w n⟩
example : (2 ≤ 8 ∧ 1 ≤ 3) ∧ Consts.II.MIN 8 3 = .ok [0, 0, 128] ∧ Consts.II.MAX 8 3 = .ok [255, 255, 127] ∧
    H 8 3 = 8388608 := by decide

/-- signed `pos_const!`: denotes `k` when `k` is below `2^(BITS-1)` -/
theorem i_pos {w n k : Nat} (hk : k < B w) (hk2 : 2 * k < M w n) (hn : 1 ≤ n) :
    ∃ r, Consts.II.pos w n k = .ok r ∧ WF w n r ∧ S w r = k :=
  ⟨_, ipos_eq hk hn, WF_fromDigit hn hk, S_fromDigit hk2 hn⟩
example : (10 < B 8 ∧ 2 * 10 < M 8 1 ∧ 1 ≤ 1) ∧ Consts.II.TEN 8 1 = .ok [10] := by decide

/-- `neg_const!`: `MAX` with `k - 1` subtracted from digit 0 denotes `-k` when `k ≤ 2^(BITS-1)` -/
theorem i_neg {w n k : Nat} (hk1 : 1 ≤ k) (hk : k < B w) (hk2 : 2 * k ≤ M w n) (hn : 1 ≤ n) :
    ∃ r, Consts.II.neg w n k = .ok r ∧ WF w n r ∧ S w r = -(k : Int) :=
  ⟨_, ineg_eq hk1 hk hn, WF_negList hk1 hn, S_negList hk1 (by omega) hk2 hn⟩
example : (1 ≤ 10 ∧ 10 < B 8 ∧ 2 * 10 ≤ M 8 3 ∧ 1 ≤ 3) ∧ Consts.II.NEG_TEN 8 3 = .ok [246, 255, 255] := by
  decide

/-- `BInt::ONE … TEN = 1 … 10` and `NEG_ONE … NEG_TEN = -1 … -10` whenever `10 < 2^w` and
    `20 < 2^BITS` -/
theorem i_one_to_ten {w n : Nat} (h10 : 10 < B w) (h20 : 20 < M w n) (hn : 1 ≤ n) :
    ((∃ r, Consts.II.ONE w n = .ok r ∧ WF w n r ∧ S w r = 1) ∧
     (∃ r, Consts.II.TWO w n = .ok r ∧ WF w n r ∧ S w r = 2) ∧
     (∃ r, Consts.II.THREE w n = .ok r ∧ WF w n r ∧ S w r = 3) ∧
     (∃ r, Consts.II.FOUR w n = .ok r ∧ WF w n r ∧ S w r = 4) ∧
     (∃ r, Consts.II.FIVE w n = .ok r ∧ WF w n r ∧ S w r = 5) ∧
     (∃ r, Consts.II.SIX w n = .ok r ∧ WF w n r ∧ S w r = 6) ∧
     (∃ r, Consts.II.SEVEN w n = .ok r ∧ WF w n r ∧ S w r = 7) ∧
     (∃ r, Consts.II.EIGHT w n = .ok r ∧ WF w n r ∧ S w r = 8) ∧
     (∃ r, Consts.II.NINE w n = .ok r ∧ WF w n r ∧ S w r = 9) ∧
     (∃ r, Consts.II.TEN w n = .ok r ∧ WF w n r ∧ S w r = 10)) ∧
    ((∃ r, Consts.II.NEG_ONE w n = .ok r ∧ WF w n r ∧ S w r = -1) ∧
     (∃ r, Consts.II.NEG_TWO w n = .ok r ∧ WF w n r ∧ S w r = -2) ∧
     (∃ r, Consts.II.NEG_THREE w n = .ok r ∧ WF w n r ∧ S w r = -3) ∧
     (∃ r, Consts.II.NEG_FOUR w n = .ok r ∧ WF w n r ∧ S w r = -4) ∧
     (∃ r, Consts.II.NEG_FIVE w n = .ok r ∧ WF w n r ∧ S w r = -5) ∧
     (∃ r, Consts.II.NEG_SIX w n = .ok r ∧ WF w n r ∧ S w r = -6) ∧
     (∃ r, Consts.II.NEG_SEVEN w n = .ok r ∧ WF w n r ∧ S w r = -7) ∧
     (∃ r, Consts.II.NEG_EIGHT w n = .ok r ∧ WF w n r ∧ S w r = -8) ∧
     (∃ r, Consts.II.NEG_NINE w n = .ok r ∧ WF w n r ∧ S w r = -9) ∧
     (∃ r, Consts.II.NEG_TEN w n = .ok r ∧ WF w n r ∧ S w r = -10)) :=
  ⟨⟨i_pos (by omega) (by omega) hn, i_pos (by omega) (by omega) hn, i_pos (by omega) (by omega) hn,
    i_pos (by omega) (by omega) hn, i_pos (by omega) (by omega) hn, i_pos (by omega) (by omega) hn,
    i_pos (by omega) (by omega) hn, i_pos (by omega) (by omega) hn, i_pos (by omega) (by omega) hn,
    i_pos (by omega) (by omega) hn⟩,
   ⟨i_neg (by omega) (by omega) (by omega) hn, i_neg (by omega) (by omega) (by omega) hn,
    i_neg (by omega) (by omega) (by omega) hn, i_neg (by omega) (by omega) (by omega) hn,
    i_neg (by omega) (by omega) (by omega) hn, i_neg (by omega) (by omega) (by omega) hn,
    i_neg (by omega) (by omega) (by omega) hn, i_neg (by omega) (by omega) (by omega) hn,
    i_neg (by omega) (by omega) (by omega) hn, i_neg (by omega) (by omega) (by omega) hn⟩⟩

/-- every real digit type (`8 ≤ w`; also `w = 5, 6, 7`) satisfies the side conditions -/
theorem real_digit_side_conditions {w n : Nat} (hw : 5 ≤ w) (hn : 1 ≤ n) :
    10 < B w ∧ 20 < M w n := by
  have h1 : B 5 ≤ B w := B_mono hw
  have h2 := B_le_M (w := w) hn
  have : B 5 = 32 := by decide
  omega

/-- all constants of all real instantiations -/
theorem consts_real {w n : Nat} (hw : 5 ≤ w) (hn : 1 ≤ n) :
    (∃ r, Consts.UI.TEN w n = .ok r ∧ WF w n r ∧ U w r = 10) ∧
    (∃ r, Consts.II.TEN w n = .ok r ∧ WF w n r ∧ S w r = 10) ∧
    (∃ r, Consts.II.NEG_TEN w n = .ok r ∧ WF w n r ∧ S w r = -10) :=
  have h := real_digit_side_conditions hw hn
  ⟨(u_one_to_ten h.1 hn).2.2.2.2.2.2.2.2.2, (i_one_to_ten h.1 h.2 hn).1.2.2.2.2.2.2.2.2.2,
   (i_one_to_ten h.1 h.2 hn).2.2.2.2.2.2.2.2.2.2⟩

/-- the side conditions are needed: a (hypothetical) 4-bit digit gives a 4-bit `BInt<1>` whose `TEN`
    is the pattern `0xa = -6`, whose `NEG_NINE` is `7`; a 3-bit digit cannot hold the literal 10;
    `N = 0` has no digit to write to -/
theorem small_width_counterexamples :
    (Consts.II.TEN 4 1 = .ok [10] ∧ S 4 [10] = -6) ∧
    (Consts.II.NEG_NINE 4 1 = .ok [7] ∧ S 4 [7] = 7) ∧
    Consts.UI.TEN 3 2 = .panic ∧ Consts.UI.ONE 8 0 = .panic ∧ Consts.II.MIN 8 0 = .panic := by decide

/-- the driver's name table (`Consts.byName`, model side) against `Spec.Consts.value` (spec side): for
    every constant name the type has, the model constant exists, is well formed and denotes exactly the
    advertised — representable — integer.  (`5 ≤ w`: every real digit type.) -/
theorem byName_spec {w n : Nat} (hw : 5 ≤ w) (hn : 1 ≤ n) (signed : Bool) (name : String)
    (hname : name ∈ Consts.names signed) :
    ∃ r z, Consts.byName signed w n name = some (.ok r) ∧
      Spec.Consts.value signed (M w n) name = some z ∧ WF w n r ∧ valOf signed w r = z ∧
      Spec.rep signed (M w n) z = true := by
  have h := real_digit_side_conditions hw hn
  have hw1 : 1 ≤ w := by omega
  have hw2 : 2 ≤ w := by omega
  have mkU : ∀ {nm : String} {r : List Nat} {z : Int}, Consts.byName false w n nm = some (.ok r) →
      Spec.Consts.value false (M w n) nm = some z → WF w n r → (U w r : Int) = z →
      ∃ r z, Consts.byName false w n nm = some (.ok r) ∧
        Spec.Consts.value false (M w n) nm = some z ∧ WF w n r ∧ valOf false w r = z ∧
        Spec.rep false (M w n) z = true := by
    intro nm r z e1 e2 wf v
    refine ⟨r, z, e1, e2, wf, by simpa [valOf] using v, ?_⟩
    have := U_lt wf
    exact decide_eq_true (show repU (M w n) z from ⟨by omega, by omega⟩)
  have mkS : ∀ {nm : String} {r : List Nat} {z : Int}, Consts.byName true w n nm = some (.ok r) →
      Spec.Consts.value true (M w n) nm = some z → WF w n r → S w r = z →
      ∃ r z, Consts.byName true w n nm = some (.ok r) ∧
        Spec.Consts.value true (M w n) nm = some z ∧ WF w n r ∧ valOf true w r = z ∧
        Spec.rep true (M w n) z = true := by
    intro nm r z e1 e2 wf v
    refine ⟨r, z, e1, e2, wf, by simpa [valOf] using v, ?_⟩
    exact decide_eq_true (show repS (M w n) z from v ▸ S_repS hw1 hn wf)
  cases signed
  · simp only [Consts.names, Consts.posNames, Consts.negNames, List.map, Bool.false_eq_true, if_false,
      List.append_nil, List.cons_append, List.nil_append, List.mem_cons, List.not_mem_nil, or_false] at hname
    rcases hname with rfl | rfl | rfl | rfl | rfl | rfl | rfl | rfl | rfl | rfl | rfl | rfl | rfl
    · exact mkU (nm := "MIN") rfl (z := 0) rfl (WF_zero w n) (by exact_mod_cast U_zero w n)
    · refine mkU (nm := "MAX") rfl rfl (WF_allOnes w n) ?_
      have := M_pos w n
      have e : U w (Consts.UI.MAX w n) = M w n - 1 := U_allOnes w n
      simp only [Spec.maxV, Bool.false_eq_true, if_false]; omega
    · exact mkU (nm := "ZERO") rfl (z := 0) rfl (WF_zero w n) (by exact_mod_cast U_zero w n)
    · obtain ⟨r, e, wf, v⟩ := (u_one_to_ten h.1 hn).1
      exact mkU (nm := "ONE") (by rw [← e]; rfl) (z := 1) rfl wf (by rw [v]; rfl)
    · obtain ⟨r, e, wf, v⟩ := (u_one_to_ten h.1 hn).2.1
      exact mkU (nm := "TWO") (by rw [← e]; rfl) (z := 2) rfl wf (by rw [v]; rfl)
    · obtain ⟨r, e, wf, v⟩ := (u_one_to_ten h.1 hn).2.2.1
      exact mkU (nm := "THREE") (by rw [← e]; rfl) (z := 3) rfl wf (by rw [v]; rfl)
    · obtain ⟨r, e, wf, v⟩ := (u_one_to_ten h.1 hn).2.2.2.1
      exact mkU (nm := "FOUR") (by rw [← e]; rfl) (z := 4) rfl wf (by rw [v]; rfl)
    · obtain ⟨r, e, wf, v⟩ := (u_one_to_ten h.1 hn).2.2.2.2.1
      exact mkU (nm := "FIVE") (by rw [← e]; rfl) (z := 5) rfl wf (by rw [v]; rfl)
    · obtain ⟨r, e, wf, v⟩ := (u_one_to_ten h.1 hn).2.2.2.2.2.1
      exact mkU (nm := "SIX") (by rw [← e]; rfl) (z := 6) rfl wf (by rw [v]; rfl)
    · obtain ⟨r, e, wf, v⟩ := (u_one_to_ten h.1 hn).2.2.2.2.2.2.1
      exact mkU (nm := "SEVEN") (by rw [← e]; rfl) (z := 7) rfl wf (by rw [v]; rfl)
    · obtain ⟨r, e, wf, v⟩ := (u_one_to_ten h.1 hn).2.2.2.2.2.2.2.1
      exact mkU (nm := "EIGHT") (by rw [← e]; rfl) (z := 8) rfl wf (by rw [v]; rfl)
    · obtain ⟨r, e, wf, v⟩ := (u_one_to_ten h.1 hn).2.2.2.2.2.2.2.2.1
      exact mkU (nm := "NINE") (by rw [← e]; rfl) (z := 9) rfl wf (by rw [v]; rfl)
    · obtain ⟨r, e, wf, v⟩ := (u_one_to_ten h.1 hn).2.2.2.2.2.2.2.2.2
      exact mkU (nm := "TEN") (by rw [← e]; rfl) (z := 10) rfl wf (by rw [v]; rfl)
  · simp only [Consts.names, Consts.posNames, Consts.negNames, List.map, if_true,
      List.cons_append, List.nil_append, List.mem_cons, List.not_mem_nil, or_false] at hname
    rcases hname with rfl | rfl | rfl | rfl | rfl | rfl | rfl | rfl | rfl | rfl | rfl | rfl | rfl | rfl | rfl | rfl | rfl | rfl | rfl | rfl | rfl | rfl | rfl
    · exact mkS (nm := "MIN") (by rw [← IMIN_eq hw1 hn]; rfl) rfl (WF_iMin hw1 hn) (S_iMin hw1 hn)
    · exact mkS (nm := "MAX") (by rw [← IMAX_eq hw2 hn]; rfl) rfl (WF_iMax hw1 hn) (S_iMax hw1 hn)
    · exact mkS (nm := "ZERO") rfl (z := 0) rfl (WF_zero w n) (S_zero w n)
    · obtain ⟨r, e, wf, v⟩ := (i_one_to_ten h.1 h.2 hn).1.1
      exact mkS (nm := "ONE") (by rw [← e]; rfl) (z := 1) rfl wf v
    · obtain ⟨r, e, wf, v⟩ := (i_one_to_ten h.1 h.2 hn).1.2.1
      exact mkS (nm := "TWO") (by rw [← e]; rfl) (z := 2) rfl wf v
    · obtain ⟨r, e, wf, v⟩ := (i_one_to_ten h.1 h.2 hn).1.2.2.1
      exact mkS (nm := "THREE") (by rw [← e]; rfl) (z := 3) rfl wf v
    · obtain ⟨r, e, wf, v⟩ := (i_one_to_ten h.1 h.2 hn).1.2.2.2.1
      exact mkS (nm := "FOUR") (by rw [← e]; rfl) (z := 4) rfl wf v
    · obtain ⟨r, e, wf, v⟩ := (i_one_to_ten h.1 h.2 hn).1.2.2.2.2.1
      exact mkS (nm := "FIVE") (by rw [← e]; rfl) (z := 5) rfl wf v
    · obtain ⟨r, e, wf, v⟩ := (i_one_to_ten h.1 h.2 hn).1.2.2.2.2.2.1
      exact mkS (nm := "SIX") (by rw [← e]; rfl) (z := 6) rfl wf v
    · obtain ⟨r, e, wf, v⟩ := (i_one_to_ten h.1 h.2 hn).1.2.2.2.2.2.2.1
      exact mkS (nm := "SEVEN") (by rw [← e]; rfl) (z := 7) rfl wf v
    · obtain ⟨r, e, wf, v⟩ := (i_one_to_ten h.1 h.2 hn).1.2.2.2.2.2.2.2.1
      exact mkS (nm := "EIGHT") (by rw [← e]; rfl) (z := 8) rfl wf v
    · obtain ⟨r, e, wf, v⟩ := (i_one_to_ten h.1 h.2 hn).1.2.2.2.2.2.2.2.2.1
      exact mkS (nm := "NINE") (by rw [← e]; rfl) (z := 9) rfl wf v
    · obtain ⟨r, e, wf, v⟩ := (i_one_to_ten h.1 h.2 hn).1.2.2.2.2.2.2.2.2.2
      exact mkS (nm := "TEN") (by rw [← e]; rfl) (z := 10) rfl wf v
    · obtain ⟨r, e, wf, v⟩ := (i_one_to_ten h.1 h.2 hn).2.1
      exact mkS (nm := "NEG_ONE") (by rw [← e]; rfl) (z := -1) rfl wf v
    · obtain ⟨r, e, wf, v⟩ := (i_one_to_ten h.1 h.2 hn).2.2.1
      exact mkS (nm := "NEG_TWO") (by rw [← e]; rfl) (z := -2) rfl wf v
    · obtain ⟨r, e, wf, v⟩ := (i_one_to_ten h.1 h.2 hn).2.2.2.1
      exact mkS (nm := "NEG_THREE") (by rw [← e]; rfl) (z := -3) rfl wf v
    · obtain ⟨r, e, wf, v⟩ := (i_one_to_ten h.1 h.2 hn).2.2.2.2.1
      exact mkS (nm := "NEG_FOUR") (by rw [← e]; rfl) (z := -4) rfl wf v
    · obtain ⟨r, e, wf, v⟩ := (i_one_to_ten h.1 h.2 hn).2.2.2.2.2.1
      exact mkS (nm := "NEG_FIVE") (by rw [← e]; rfl) (z := -5) rfl wf v
    · obtain ⟨r, e, wf, v⟩ := (i_one_to_ten h.1 h.2 hn).2.2.2.2.2.2.1
      exact mkS (nm := "NEG_SIX") (by rw [← e]; rfl) (z := -6) rfl wf v
    · obtain ⟨r, e, wf, v⟩ := (i_one_to_ten h.1 h.2 hn).2.2.2.2.2.2.2.1
      exact mkS (nm := "NEG_SEVEN") (by rw [← e]; rfl) (z := -7) rfl wf v
    · obtain ⟨r, e, wf, v⟩ := (i_one_to_ten h.1 h.2 hn).2.2.2.2.2.2.2.2.1
      exact mkS (nm := "NEG_EIGHT") (by rw [← e]; rfl) (z := -8) rfl wf v
    · obtain ⟨r, e, wf, v⟩ := (i_one_to_ten h.1 h.2 hn).2.2.2.2.2.2.2.2.2.1
      exact mkS (nm := "NEG_NINE") (by rw [← e]; rfl) (z := -9) rfl wf v
    · obtain ⟨r, e, wf, v⟩ := (i_one_to_ten h.1 h.2 hn).2.2.2.2.2.2.2.2.2.2
      exact mkS (nm := "NEG_TEN") (by rw [← e]; rfl) (z := -10) rfl wf v
example : (5 ≤ 8 ∧ 1 ≤ 3 ∧ "NEG_SEVEN" ∈ Consts.names true) ∧
    Consts.byName true 8 3 "NEG_SEVEN" = some (.ok [0xf9, 0xff, 0xff]) ∧
    Spec.Consts.value true (M 8 3) "NEG_SEVEN" = some (-7) := by decide

/-! ## §5 (iv) the alias table of `src/types.rs`

  `Consts.aliases` transcribes the table (name, signed, N, advertised bits); the lead's check
  compares it with `types.rs` on every run.  The aliases are `BUint<N>` / `BInt<N>` over `u64` digits. -/

/-- every alias has exactly the advertised width: `64 · N = bits`, and `BITS` evaluates to it -/
theorem aliases_widths :
    ∀ e ∈ Consts.aliases, Consts.aliasDigitBits * e.2.2.1 = e.2.2.2 ∧
      Consts.UI.BITS Consts.aliasDigitBits e.2.2.1 = .ok e.2.2.2 ∧
      Consts.II.BITS Consts.aliasDigitBits e.2.2.1 = .ok e.2.2.2 ∧
      Consts.UI.BYTES Consts.aliasDigitBits e.2.2.1 = .ok (e.2.2.2 / 8) := by decide

/-- every alias is named `U<bits>` (unsigned) / `I<bits>` (signed) -/
theorem aliases_names : ∀ e ∈ Consts.aliases, e.1 = Consts.aliasName e.2.1 e.2.2.2 := by decide

/-- the table is exactly `U128 … U8192`, `I128 … I8192` (powers of two from 128 to 8192) -/
theorem aliases_complete :
    Consts.aliases.map (fun e => (e.2.1, e.2.2.2)) =
      ([128, 256, 512, 1024, 2048, 4096, 8192].flatMap fun b => [(false, b), (true, b)]) := by decide

/-- the independent reading of the names used by the driver (`Spec.Consts.aliasAdvertised`: parse the
    digits of the name, divide by 64) agrees with the table -/
theorem aliases_spec :
    ∀ e ∈ Consts.aliases, Spec.Consts.aliasAdvertised e.1 = some (e.2.1, e.2.2.2, e.2.2.1) := by decide


/-! ## §6 (i, continued) the operations outside C01–C11: formatting, bytes, conversions, floats, num_traits

  "every operation gives the same result whichever digit type is used" also covers the formatting traits
  (C12), the byte-order helpers and byte-slice constructors (C15), the conversions to and from primitives and
  between bnum types (`as`: C09, `TryFrom`/`BTryFrom`: C13, `FromPrimitive`/`ToPrimitive`/`AsPrimitive`: C19),
  the float casts (C14) and the `num_integer` / `num_traits` methods (C18).  As in §2 each statement is a
  corollary of the cited property's specification theorem, whose right-hand side mentions only the width
  and the VALUE.  Text, byte strings, primitives and floats are compared with `=`; bnum results with
  `EqU` / `EqS` / `EqV s` (value under signedness `s`). -/

section more
variable {w₁ n₁ w₂ n₂ : Nat} {a₁ a₂ b₁ b₂ : List Nat}

/-- C12: all eight formatting traits (`Display`, `Debug`, `Binary`, `Octal`, `LowerHex`, `UpperHex`,
    `LowerExp`, `UpperExp`), every formatter state: the very same text — although `LowerHex` / `Binary` /
    `Octal` are per-digit code (`digit.rs HEX_PADDING`, zero padding of the lower digits) -/
theorem indep_fmt (c : Cfgs w₁ n₁ w₂ n₂) (h8₁ : 8 ≤ w₁) (h4₁ : 4 ∣ w₁) (h8₂ : 8 ≤ w₂) (h4₂ : 4 ∣ w₂)
    (hW : w₁ * n₁ < 2 ^ 64) (t : Spec.Fmt.Trait) (fl : Fmt.Flags)
    (hu : SameU w₁ n₁ w₂ n₂ a₁ a₂) (hs : SameS w₁ n₁ w₂ n₂ b₁ b₂) :
    Drive.C12.runModel false t fl w₁ a₁ = Drive.C12.runModel false t fl w₂ a₂ ∧
    Drive.C12.runModel true t fl w₁ b₁ = Drive.C12.runModel true t fl w₂ b₂ := by
  have hW₂ : w₂ * n₂ < 2 ^ 64 := by rw [← c.bits]; exact hW
  constructor
  · rw [C12.fmt_unsigned t fl h8₁ h4₁ c.hn₁ hW hu.wf₁, C12.fmt_unsigned t fl h8₂ h4₂ c.hn₂ hW₂ hu.wf₂,
      c.bits, hu.val]
  · rw [C12.fmt_signed t fl h8₁ h4₁ c.hn₁ hW hs.wf₁, C12.fmt_signed t fl h8₂ h4₂ c.hn₂ hW₂ hs.wf₂,
      c.bits, hs.val]
example : (Cfgs 8 4 16 2 ∧ 8 * 4 < 2 ^ 64 ∧ SameU 8 4 16 2 [0x78, 0x06, 0x00, 0x12] [0x0678, 0x1200]) ∧
    Drive.C12.runModel false .lowerHex {} 8 [0x78, 0x06, 0x00, 0x12] =
      Drive.C12.runModel false .lowerHex {} 16 [0x0678, 0x1200] :=
  ⟨⟨⟨by decide, by decide, by decide, by decide, by decide⟩, by decide, ⟨by decide, by decide, by decide⟩⟩,
   by decide⟩

/-- C15: `from_be_slice` / `from_le_slice` (any length, padding and overflow included): both `None`, or both
    `Some` of the same value; never a panic -/
theorem indep_slices {bw₁ sh₁ bw₂ sh₂ : Nat} (hb₁ : bw₁ = 2 ^ sh₁) (hb₂ : bw₂ = 2 ^ sh₂)
    (c : Cfgs (8 * bw₁) n₁ (8 * bw₂) n₂) {bs : List Nat} (hb : Endian.Bytes bs) :
    OutRel (OptRel (EqU (8 * bw₁) (8 * bw₂))) (UI.fromBeSlice bw₁ n₁ bs) (UI.fromBeSlice bw₂ n₂ bs) ∧
    OutRel (OptRel (EqU (8 * bw₁) (8 * bw₂))) (UI.fromLeSlice bw₁ n₁ bs) (UI.fromLeSlice bw₂ n₂ bs) ∧
    OutRel (OptRel (EqS (8 * bw₁) (8 * bw₂))) (II.fromBeSlice bw₁ n₁ bs) (II.fromBeSlice bw₂ n₂ bs) ∧
    OutRel (OptRel (EqS (8 * bw₁) (8 * bw₂))) (II.fromLeSlice bw₁ n₁ bs) (II.fromLeSlice bw₂ n₂ bs) := by
  rw [C15.u_fromBeSlice_closed hb₁ n₁ hb, C15.u_fromBeSlice_closed hb₂ n₂ hb,
    C15.u_fromLeSlice_closed hb₁ n₁ hb, C15.u_fromLeSlice_closed hb₂ n₂ hb,
    C15.i_fromBeSlice_closed hb₁ c.hn₁ hb, C15.i_fromBeSlice_closed hb₂ c.hn₂ hb,
    C15.i_fromLeSlice_closed hb₁ c.hn₁ hb, C15.i_fromLeSlice_closed hb₂ c.hn₂ hb, c.M_eq]
  refine ⟨?_, ?_, ?_, ?_⟩
  · by_cases h : Spec.Endian.beValue bs < M (8 * bw₂) n₂
    · simp only [h, if_true]; show U _ _ = U _ _; rw [Endian.U_ofNat, Endian.U_ofNat, c.M_eq]
    · simp only [h, if_false]; trivial
  · by_cases h : Spec.Endian.leValue bs < M (8 * bw₂) n₂
    · simp only [h, if_true]; show U _ _ = U _ _; rw [Endian.U_ofNat, Endian.U_ofNat, c.M_eq]
    · simp only [h, if_false]; trivial
  · by_cases h : repS (M (8 * bw₂) n₂) (Spec.Endian.twosBE bs)
    · simp only [h, if_true]; show S _ _ = S _ _; rw [S_ofInt h, S_ofInt (by rw [c.M_eq]; exact h)]
    · simp only [h, if_false]; trivial
  · by_cases h : repS (M (8 * bw₂) n₂) (Spec.Endian.twosLE bs)
    · simp only [h, if_true]; show S _ _ = S _ _; rw [S_ofInt h, S_ofInt (by rw [c.M_eq]; exact h)]
    · simp only [h, if_false]; trivial
example : (1 = 2 ^ 0 ∧ 2 = 2 ^ 1 ∧ Cfgs (8 * 1) 2 (8 * 2) 1 ∧ Endian.Bytes [0xff, 0xff, 0x80, 0x01]) ∧
    II.fromBeSlice 1 2 [0xff, 0xff, 0x80, 0x01] = .ok (some [0x01, 0x80]) ∧
    II.fromBeSlice 2 1 [0xff, 0xff, 0x80, 0x01] = .ok (some [0x8001]) :=
  ⟨⟨by decide, by decide, ⟨by decide, by decide, by decide, by decide, by decide⟩, by decide⟩, by decide, by decide⟩

/-- C15: `to_le_bytes` / `to_be_bytes` (hence `to_ne_bytes`): the very same byte array -/
theorem indep_to_bytes {bw₁ sh₁ bw₂ sh₂ : Nat} (hb₁ : bw₁ = 2 ^ sh₁) (hb₂ : bw₂ = 2 ^ sh₂)
    (c : Cfgs (8 * bw₁) n₁ (8 * bw₂) n₂) (ha : SameU (8 * bw₁) n₁ (8 * bw₂) n₂ a₁ a₂) :
    UI.toLeBytes bw₁ n₁ a₁ = UI.toLeBytes bw₂ n₂ a₂ ∧ UI.toBeBytes bw₁ n₁ a₁ = UI.toBeBytes bw₂ n₂ a₂ ∧
    II.toLeBytes bw₁ n₁ a₁ = II.toLeBytes bw₂ n₂ a₂ ∧ II.toBeBytes bw₁ n₁ a₁ = II.toBeBytes bw₂ n₂ a₂ := by
  obtain ⟨l1, l2, -⟩ := C15.toLeBytes_spec hb₁ ha.wf₁
  obtain ⟨l3, l4, -⟩ := C15.toLeBytes_spec hb₂ ha.wf₂
  obtain ⟨b1, b2, -⟩ := C15.toBeBytes_spec hb₁ ha.wf₁
  obtain ⟨b3, b4, -⟩ := C15.toBeBytes_spec hb₂ ha.wf₂
  rw [l1, l2, l3, l4, b1, b2, b3, b4, bytes_len c, ha.val]
  exact ⟨rfl, rfl, rfl, rfl⟩
example : UI.toBeBytes 1 4 [0x78, 0x56, 0x34, 0x12] = .ok [0x12, 0x34, 0x56, 0x78] ∧
    UI.toBeBytes 2 2 [0x5678, 0x1234] = .ok [0x12, 0x34, 0x56, 0x78] := by decide

/-- C15: `from_le_bytes` / `from_be_bytes` of one byte array of the common length -/
theorem indep_from_bytes {bw₁ sh₁ bw₂ sh₂ : Nat} (hb₁ : bw₁ = 2 ^ sh₁) (hb₂ : bw₂ = 2 ^ sh₂)
    (c : Cfgs (8 * bw₁) n₁ (8 * bw₂) n₂) {bytes : List Nat} (hb : Endian.Bytes bytes)
    (hl : bytes.length = n₁ * bw₁) :
    OutRel (EqU (8 * bw₁) (8 * bw₂)) (UI.fromLeBytes bw₁ n₁ bytes) (UI.fromLeBytes bw₂ n₂ bytes) ∧
    OutRel (EqU (8 * bw₁) (8 * bw₂)) (UI.fromBeBytes bw₁ n₁ bytes) (UI.fromBeBytes bw₂ n₂ bytes) ∧
    OutRel (EqU (8 * bw₁) (8 * bw₂)) (II.fromLeBytes bw₁ n₁ bytes) (II.fromLeBytes bw₂ n₂ bytes) ∧
    OutRel (EqU (8 * bw₁) (8 * bw₂)) (II.fromBeBytes bw₁ n₁ bytes) (II.fromBeBytes bw₂ n₂ bytes) := by
  obtain ⟨⟨x, e1, e2, -, e3⟩, ⟨y, f1, f2, -, f3⟩⟩ := C15.fromBytes_spec hb₁ hb hl
  obtain ⟨⟨x', e1', e2', -, e3'⟩, ⟨y', f1', f2', -, f3'⟩⟩ :=
    C15.fromBytes_spec hb₂ hb (by rw [hl, bytes_len c])
  rw [e1, e2, f1, f2, e1', e2', f1', f2']
  exact ⟨by show U _ _ = U _ _; rw [e3, e3'], by show U _ _ = U _ _; rw [f3, f3'],
    by show U _ _ = U _ _; rw [e3, e3'], by show U _ _ = U _ _; rw [f3, f3']⟩
example : UI.fromBeBytes 1 4 [0x12, 0x34, 0x56, 0x78] = .ok [0x78, 0x56, 0x34, 0x12] ∧
    UI.fromBeBytes 2 2 [0x12, 0x34, 0x56, 0x78] = .ok [0x5678, 0x1234] := by decide

/-- C15: `to_be` / `to_le` / `from_be` / `from_le` (`e` = the target is little-endian; `to_le`/`from_le` are
    the `!e` instances) -/
theorem indep_to_be {bw₁ bw₂ : Nat} (c : Cfgs (8 * bw₁) n₁ (8 * bw₂) n₂)
    (ha : SameU (8 * bw₁) n₁ (8 * bw₂) n₂ a₁ a₂) (e : Bool) :
    EqU (8 * bw₁) (8 * bw₂) (UI.toBe e bw₁ a₁) (UI.toBe e bw₂ a₂) ∧
    EqU (8 * bw₁) (8 * bw₂) (UI.fromBe e bw₁ a₁) (UI.fromBe e bw₂ a₂) ∧
    EqU (8 * bw₁) (8 * bw₂) (II.toBe e bw₁ a₁) (II.toBe e bw₂ a₂) ∧
    EqU (8 * bw₁) (8 * bw₂) (II.fromBe e bw₁ a₁) (II.fromBe e bw₂ a₂) := by
  obtain ⟨p1, p2, p3, p4⟩ := C15.toBe_eq e bw₁ a₁
  obtain ⟨q1, q2, q3, q4⟩ := C15.toBe_eq e bw₂ a₂
  rw [p1, p2, p3, p4, q1, q2, q3, q4]
  have hs : EqU (8 * bw₁) (8 * bw₂) (Endian.swapBytes bw₁ a₁) (Endian.swapBytes bw₂ a₂) := by
    show U _ _ = U _ _
    rw [(C15.swapBytes_value ha.wf₁).2, (C15.swapBytes_value ha.wf₂).2, bytes_len c, ha.val]
  cases e
  · exact ⟨ha.val, ha.val, ha.val, ha.val⟩
  · exact ⟨hs, hs, hs, hs⟩
example : UI.toBe true 1 [0x78, 0x56, 0x34, 0x12] = [0x12, 0x34, 0x56, 0x78] ∧
    UI.toBe true 2 [0x5678, 0x1234] = [0x3412, 0x7856] := by decide

/-- C09 / C13 / C19, bnum → primitive: `as` (`CastFrom`, `AsPrimitive`), `TryFrom`, `ToPrimitive::to_*`
    give the very same primitive whichever digit type holds the value -/
theorem indep_to_prim (s : Bool) (t : PTy) (c : Cfgs w₁ n₁ w₂ n₂) (ha : SameV s w₁ n₁ w₂ n₂ a₁ a₂) :
    castToPrim w₁ s a₁ t = castToPrim w₂ s a₂ t ∧
    NumC.asPrim w₁ s a₁ t = NumC.asPrim w₂ s a₂ t ∧
    (1 ≤ t.bits → (t.bits < w₁ ∨ ∃ k, t.bits = k * w₁) → (t.bits < w₂ ∨ ∃ k, t.bits = k * w₂) →
      tryToPrim w₁ s a₁ t = tryToPrim w₂ s a₂ t ∧ NumC.toPrim w₁ s a₁ t = NumC.toPrim w₂ s a₂ t) := by
  obtain ⟨h1, h2, hv⟩ := ha
  refine ⟨?_, ?_, fun ht d1 d2 => ⟨?_, ?_⟩⟩
  · rw [C09.cast_to_prim s c.one₁ c.hn₁ h1 t, C09.cast_to_prim s c.one₂ c.hn₂ h2 t, hv]
  · rw [C19.as_spec s c.one₁ c.hn₁ h1 t, C19.as_spec s c.one₂ c.hn₂ h2 t, hv]
  · exact convOkP_eq (C13.try_to_prim s t c.one₁ c.hn₁ ht d1 h1)
      (by rw [hv]; exact C13.try_to_prim s t c.one₂ c.hn₂ ht d2 h2)
  · exact convOkP_eq (C19.toPrim_spec s t c.one₁ c.hn₁ ht d1 h1)
      (by rw [hv]; exact C19.toPrim_spec s t c.one₂ c.hn₂ ht d2 h2)
example : SameV true 8 4 16 2 [0xfe, 0xff, 0xff, 0xff] [0xfffe, 0xffff] ∧
    tryToPrim 8 true [0xfe, 0xff, 0xff, 0xff] ⟨16, true⟩ = .ok (some 0xfffe) ∧
    tryToPrim 16 true [0xfffe, 0xffff] ⟨16, true⟩ = .ok (some 0xfffe) :=
  ⟨⟨by decide, by decide, by decide⟩, by decide, by decide⟩

/-- C13, bnum → bnum `BTryFrom`: the source held in either digit type, the target built from either digit
    type of one width `v₁·m₁ = v₂·m₂`: both `Err`, or both `Ok` of the same value -/
theorem indep_btry_from {v₁ m₁ v₂ m₂ : Nat} (s t : Bool) (c : Cfgs w₁ n₁ w₂ n₂) (d : Cfgs v₁ m₁ v₂ m₂)
    (hd₁ : w₁ ∣ v₁ ∨ v₁ ∣ w₁) (hd₂ : w₂ ∣ v₂ ∨ v₂ ∣ w₂) (ha : SameV s w₁ n₁ w₂ n₂ a₁ a₂) :
    OutRel (OptRel (EqV t v₁ v₂)) (btryFrom w₁ s a₁ v₁ m₁ t) (btryFrom w₂ s a₂ v₂ m₂ t) :=
  convOk_rel d.M_eq (C13.btry_from s t c.one₁ d.one₁ c.hn₁ d.hn₁ hd₁ ha.1)
    (C13.btry_from s t c.one₂ d.one₂ c.hn₂ d.hn₂ hd₂ ha.2.1) ha.2.2
example : SameV true 8 4 16 2 [0xfe, 0xff, 0xff, 0xff] [0xfffe, 0xffff] ∧
    btryFrom 8 true [0xfe, 0xff, 0xff, 0xff] 8 2 true = .ok (some [0xfe, 0xff]) ∧
    btryFrom 16 true [0xfffe, 0xffff] 16 1 true = .ok (some [0xfffe]) ∧
    btryFrom 16 true [0xfffe, 0xffff] 16 1 false = .ok none :=
  ⟨⟨by decide, by decide, by decide⟩, by decide, by decide, by decide⟩

/-- C19, primitive → bnum `FromPrimitive::from_*`: the same `Option` of the same value -/
theorem indep_from_prim (s : Bool) (t : NumC.PrimT) {p : Nat} (hp : p < B t.ty.bits) (c : Cfgs w₁ n₁ w₂ n₂) :
    OutRel (OptRel (EqV s w₁ w₂)) (NumC.fromPrim w₁ n₁ s t p) (NumC.fromPrim w₂ n₂ s t p) :=
  convOk_rel c.M_eq (C19.fromPrim_spec s t c.one₁ c.hn₁ hp) (C19.fromPrim_spec s t c.one₂ c.hn₂ hp) rfl
example : NumC.fromPrim 8 2 true .i16 0xfffe = .ok (some [0xfe, 0xff]) ∧
    NumC.fromPrim 16 1 true .i16 0xfffe = .ok (some [0xfffe]) ∧ NumC.fromPrim 16 1 false .i16 0xfffe = .ok none := by decide

/-- C14 / C19, bnum → float (`as f32/f64`, `ToPrimitive::to_f32/f64`, `AsPrimitive<f32/f64>`), digit-level
    models, digit widths `2^s`: the very same float -/
theorem indep_to_float {F : FloatFmt} (hF : F.Valid) {s₁ s₂ : Nat} (h1₁ : 1 ≤ s₁) (hs₁ : s₁ < 32)
    (h1₂ : 1 ≤ s₂) (hs₂ : s₂ < 32) (c : Cfgs (2 ^ s₁) n₁ (2 ^ s₂) n₂) (dbg sg : Bool)
    (hu : SameU (2 ^ s₁) n₁ (2 ^ s₂) n₂ a₁ a₂) (hi : SameS (2 ^ s₁) n₁ (2 ^ s₂) n₂ b₁ b₂)
    {x₁ x₂ : List Nat} (hx : SameV sg (2 ^ s₁) n₁ (2 ^ s₂) n₂ x₁ x₂) :
    FltD.floatFromBUint F dbg (2 ^ s₁) a₁ = FltD.floatFromBUint F dbg (2 ^ s₂) a₂ ∧
    FltD.floatFromBInt F dbg (2 ^ s₁) b₁ = FltD.floatFromBInt F dbg (2 ^ s₂) b₂ ∧
    NumCD.toFloat dbg F (2 ^ s₁) sg x₁ = NumCD.toFloat dbg F (2 ^ s₂) sg x₂ ∧
    NumCD.asFloat dbg F (2 ^ s₁) sg x₁ = NumCD.asFloat dbg F (2 ^ s₂) sg x₂ := by
  refine ⟨?_, ?_, ?_, ?_⟩
  · rw [C14.floatFromUint_specD hF hs₁ dbg hu.wf₁, C14.floatFromUint_specD hF hs₂ dbg hu.wf₂, hu.val]
  · rw [C14.floatFromInt_specD hF h1₁ hs₁ c.hn₁ dbg hi.wf₁, C14.floatFromInt_specD hF h1₂ hs₂ c.hn₂ dbg hi.wf₂,
      hi.val]
  · rw [C19.toFloat_digit_spec hF h1₁ hs₁ c.hn₁ dbg sg hx.1, C19.toFloat_digit_spec hF h1₂ hs₂ c.hn₂ dbg sg hx.2.1,
      hx.2.2]
  · rw [C19.as_float_digit_spec hF h1₁ hs₁ c.hn₁ dbg sg hx.1,
      C19.as_float_digit_spec hF h1₂ hs₂ c.hn₂ dbg sg hx.2.1, hx.2.2]
example : FltD.floatFromBUint fmtF32 true (2 ^ 3) [0x01, 0x00, 0x00, 0x01] = .ok 0x4b800000 ∧
    FltD.floatFromBUint fmtF32 true (2 ^ 4) [0x0001, 0x0100] = .ok 0x4b800000 := by decide

/-- C14, float → bnum (`f as BUint/BInt`): total, the same (saturating / truncating) value for every float
    pattern; C19 `FromPrimitive::from_f32/f64` wherever C19 determines the answer (everything except an
    unsigned target with a float in `(-1, 0)`: `Spec.NumC.fromFloat … = .any`) -/
theorem indep_from_float {F : FloatFmt} (hF : F.Valid) (dbg : Bool) (c : Cfgs w₁ n₁ w₂ n₂) {x : Nat}
    (hx : x < 2 ^ F.bits) :
    OutRel (EqU w₁ w₂) (FltD.buintFromFloat F dbg w₁ n₁ x) (FltD.buintFromFloat F dbg w₂ n₂ x) ∧
    OutRel (EqU w₁ w₂) (FltD.bintFromFloat F dbg w₁ n₁ x) (FltD.bintFromFloat F dbg w₂ n₂ x) ∧
    ∀ s : Bool, Spec.NumC.fromFloat F.spec s (M w₁ n₁) x ≠ .any →
      OutRel (OptRel (EqU w₁ w₂)) (NumCD.fromFloat dbg F w₁ n₁ s x) (NumCD.fromFloat dbg F w₂ n₂ s x) := by
  refine ⟨?_, ?_, fun s hne => ?_⟩
  · exact okUn (C14.uintFromFloat_specD hF dbg c.one₁ c.hn₁ hx) (C14.uintFromFloat_specD hF dbg c.one₂ c.hn₂ hx)
      (by rw [c.M_eq])
  · obtain ⟨r₁, e₁, -, u₁, -⟩ := C14.intFromFloat_specD hF dbg c.hw₁ c.hn₁ hx
    obtain ⟨r₂, e₂, -, u₂, -⟩ := C14.intFromFloat_specD hF dbg c.hw₂ c.hn₂ hx
    rw [e₁, e₂]; show U _ _ = U _ _; rw [u₁, u₂, c.M_eq]
  · have h₁ := C19.fromFloat_digit_matches_spec hF c.hw₁ c.hn₁ dbg s hx
    have h₂ := C19.fromFloat_digit_matches_spec hF c.hw₂ c.hn₂ dbg s hx
    rw [← c.M_eq] at h₂
    generalize Spec.NumC.fromFloat F.spec s (M w₁ n₁) x = ans at h₁ h₂ hne
    cases ans with
    | some pat =>
      obtain ⟨r₁, e₁, -, u₁⟩ := h₁; obtain ⟨r₂, e₂, -, u₂⟩ := h₂
      rw [e₁, e₂]; show U _ _ = U _ _; rw [u₁, u₂]
    | none => rw [show NumCD.fromFloat dbg F w₁ n₁ s x = .ok none from h₁,
        show NumCD.fromFloat dbg F w₂ n₂ s x = .ok none from h₂]; trivial
    | any => exact absurd rfl hne
example : FltD.bintFromFloat fmtF32 true 8 2 0xc0200000 = .ok [0xfe, 0xff] ∧
    FltD.bintFromFloat fmtF32 true 16 1 0xc0200000 = .ok [0xfffe] := by decide

open NumT in
/-- C18 `Integer::gcd` / `lcm` of `BUint` (`lcm` whenever representable, as in C18) -/
theorem indep_u_gcd_lcm (c : Cfgs w₁ n₁ w₂ n₂) (ha : SameU w₁ n₁ w₂ n₂ a₁ a₂)
    (hb : SameU w₁ n₁ w₂ n₂ b₁ b₂) (dbg : Bool) :
    OutRel (EqU w₁ w₂) (U.gcd dbg w₁ a₁ b₁) (U.gcd dbg w₂ a₂ b₂) ∧
    (Nat.lcm (U w₁ a₁) (U w₁ b₁) < M w₁ n₁ →
      OutRel (EqU w₁ w₂) (U.lcm dbg w₁ a₁ b₁) (U.lcm dbg w₂ a₂ b₂)) :=
  ⟨okUn (C18.u_gcd_spec c.one₁ ha.wf₁ hb.wf₁ dbg) (C18.u_gcd_spec c.one₂ ha.wf₂ hb.wf₂ dbg)
     (by rw [ha.val, hb.val]),
   fun h => okUn (C18.u_lcm_spec c.one₁ c.hn₁ ha.wf₁ hb.wf₁ h dbg)
     (C18.u_lcm_spec c.one₂ c.hn₂ ha.wf₂ hb.wf₂ (by rw [← ha.val, ← hb.val, ← c.M_eq]; exact h) dbg)
     (by rw [ha.val, hb.val])⟩
example : NumT.U.gcd true 8 [0x00, 0x12] [0x00, 0x18] = .ok [0x00, 0x06] ∧
    NumT.U.gcd true 16 [0x1200] [0x1800] = .ok [0x0600] := by decide

open NumT in
/-- C18 `Integer::gcd` / `lcm` of `BInt` (whenever representable, as in C18) -/
theorem indep_i_gcd_lcm (c : Cfgs w₁ n₁ w₂ n₂) (ha : SameS w₁ n₁ w₂ n₂ a₁ a₂)
    (hb : SameS w₁ n₁ w₂ n₂ b₁ b₂) (dbg : Bool) :
    (2 * Nat.gcd (S w₁ a₁).natAbs (S w₁ b₁).natAbs < M w₁ n₁ →
      OutRel (EqS w₁ w₂) (I.gcd dbg w₁ a₁ b₁) (I.gcd dbg w₂ a₂ b₂)) ∧
    (2 * Nat.lcm (S w₁ a₁).natAbs (S w₁ b₁).natAbs < M w₁ n₁ →
      OutRel (EqS w₁ w₂) (I.lcm dbg w₁ a₁ b₁) (I.lcm dbg w₂ a₂ b₂)) :=
  ⟨fun h => okS (C18.i_gcd_spec c.hw₁ c.hn₁ ha.wf₁ hb.wf₁ h dbg)
     (C18.i_gcd_spec c.hw₂ c.hn₂ ha.wf₂ hb.wf₂ (by rw [← ha.val, ← hb.val, ← c.M_eq]; exact h) dbg)
     (by rw [ha.val, hb.val]),
   fun h => okS (C18.i_lcm_spec c.hw₁ c.hn₁ ha.wf₁ hb.wf₁ h dbg)
     (C18.i_lcm_spec c.hw₂ c.hn₂ ha.wf₂ hb.wf₂ (by rw [← ha.val, ← hb.val, ← c.M_eq]; exact h) dbg)
     (by rw [ha.val, hb.val])⟩
example : 2 * Nat.gcd (S 8 [0xf4, 0xff]).natAbs (S 8 [18, 0]).natAbs < M 8 2 ∧
    NumT.I.gcd true 8 [0xf4, 0xff] [18, 0] = .ok [6, 0] ∧ NumT.I.gcd true 16 [0xfff4] [18] = .ok [6] := by decide

open NumT in
/-- C18 `Integer::{div_floor, mod_floor, div_rem, div_mod_floor, is_multiple_of}` of `BUint`, all operands
    (zero divisor: both panic) -/
theorem indep_u_integer_div (c : Cfgs w₁ n₁ w₂ n₂) (ha : SameU w₁ n₁ w₂ n₂ a₁ a₂)
    (hb : SameU w₁ n₁ w₂ n₂ b₁ b₂) :
    OutRel (EqU w₁ w₂) (U.divFloor w₁ a₁ b₁) (U.divFloor w₂ a₂ b₂) ∧
    OutRel (EqU w₁ w₂) (U.modFloor w₁ a₁ b₁) (U.modFloor w₂ a₂ b₂) ∧
    OutRel (Pair2Rel (EqU w₁ w₂) (EqU w₁ w₂)) (U.divRem w₁ a₁ b₁) (U.divRem w₂ a₂ b₂) ∧
    OutRel (Pair2Rel (EqU w₁ w₂) (EqU w₁ w₂)) (U.divModFloor w₁ a₁ b₁) (U.divModFloor w₂ a₂ b₂) ∧
    U.isMultipleOf w₁ a₁ b₁ = U.isMultipleOf w₂ a₂ b₂ := by
  by_cases h0 : U w₁ b₁ = 0
  · have h0' : U w₂ b₂ = 0 := by rw [← hb.val]; exact h0
    obtain ⟨p1, p2, p3, p4, p5⟩ := C18.u_div_by_zero (a := a₁) h0
    obtain ⟨q1, q2, q3, q4, q5⟩ := C18.u_div_by_zero (a := a₂) h0'
    rw [p1, p2, p3, p4, p5, q1, q2, q3, q4, q5]
    exact ⟨trivial, trivial, trivial, trivial, rfl⟩
  · have h0' : U w₂ b₂ ≠ 0 := by rw [← hb.val]; exact h0
    obtain ⟨x1, e1, -, u1⟩ := C18.u_divFloor_spec c.one₁ c.hn₁ ha.wf₁ hb.wf₁ h0
    obtain ⟨x2, e2, -, u2⟩ := C18.u_divFloor_spec c.one₂ c.hn₂ ha.wf₂ hb.wf₂ h0'
    obtain ⟨y1, f1, -, v1⟩ := C18.u_modFloor_spec c.one₁ c.hn₁ ha.wf₁ hb.wf₁ h0
    obtain ⟨y2, f2, -, v2⟩ := C18.u_modFloor_spec c.one₂ c.hn₂ ha.wf₂ hb.wf₂ h0'
    obtain ⟨q1, r1, g1, -, -, s1, t1⟩ := C18.u_divRem_spec c.one₁ c.hn₁ ha.wf₁ hb.wf₁ h0
    obtain ⟨q2, r2, g2, -, -, s2, t2⟩ := C18.u_divRem_spec c.one₂ c.hn₂ ha.wf₂ hb.wf₂ h0'
    obtain ⟨q3, r3, g3, -, -, s3, t3⟩ := C18.u_divModFloor_spec c.one₁ c.hn₁ ha.wf₁ hb.wf₁ h0
    obtain ⟨q4, r4, g4, -, -, s4, t4⟩ := C18.u_divModFloor_spec c.one₂ c.hn₂ ha.wf₂ hb.wf₂ h0'
    rw [e1, e2, f1, f2, g1, g2, g3, g4, C18.u_isMultipleOf_spec c.one₁ c.hn₁ ha.wf₁ hb.wf₁ h0,
      C18.u_isMultipleOf_spec c.one₂ c.hn₂ ha.wf₂ hb.wf₂ h0', ha.val, hb.val]
    refine ⟨?_, ?_, ⟨?_, ?_⟩, ⟨?_, ?_⟩, rfl⟩ <;> show U _ _ = U _ _
    · rw [u1, u2, ha.val, hb.val]
    · rw [v1, v2, ha.val, hb.val]
    · rw [s1, s2, ha.val, hb.val]
    · rw [t1, t2, ha.val, hb.val]
    · rw [s3, s4, ha.val, hb.val]
    · rw [t3, t4, ha.val, hb.val]
example : NumT.U.divRem 8 [0x78, 0x56] [0x10, 0x00] = .ok ([0x67, 0x05], [0x08, 0x00]) ∧
    NumT.U.divRem 16 [0x5678] [0x0010] = .ok ([0x0567], [0x0008]) := by decide

open NumT in
/-- C18 `Integer::…` of `BInt`: zero divisor (all five panic in both), `MIN / -1` (`div_rem`, `div_floor`,
    `mod_floor` panic in both) and the regular case (floored / truncated pairs, divisibility) -/
theorem indep_i_integer_div (c : Cfgs w₁ n₁ w₂ n₂) (ha : SameS w₁ n₁ w₂ n₂ a₁ a₂)
    (hb : SameS w₁ n₁ w₂ n₂ b₁ b₂) (dbg : Bool) :
    OutRel (EqS w₁ w₂) (I.divFloor dbg w₁ a₁ b₁) (I.divFloor dbg w₂ a₂ b₂) ∧
    OutRel (EqS w₁ w₂) (I.modFloor dbg w₁ a₁ b₁) (I.modFloor dbg w₂ a₂ b₂) ∧
    OutRel (Pair2Rel (EqS w₁ w₂) (EqS w₁ w₂)) (I.divRem dbg w₁ a₁ b₁) (I.divRem dbg w₂ a₂ b₂) ∧
    (¬ (S w₁ a₁ = -(H w₁ n₁ : Int) ∧ S w₁ b₁ = -1) →
      OutRel (Pair2Rel (EqS w₁ w₂) (EqS w₁ w₂)) (I.divModFloor dbg w₁ a₁ b₁) (I.divModFloor dbg w₂ a₂ b₂) ∧
      I.isMultipleOf dbg w₁ a₁ b₁ = I.isMultipleOf dbg w₂ a₂ b₂) := by
  have hMh : ((M w₁ n₁ / 2 : Nat) : Int) = ((M w₂ n₂ / 2 : Nat) : Int) := by rw [c.M_eq]
  rw [← M_half_eq_H c.one₁ c.hn₁]
  by_cases h0 : S w₁ b₁ = 0
  · have h0' : S w₂ b₂ = 0 := by rw [← hb.val]; exact h0
    obtain ⟨p1, p2, p3, p4, p5⟩ := C18.i_div_by_zero (a := a₁) hb.wf₁ h0 dbg
    obtain ⟨q1, q2, q3, q4, q5⟩ := C18.i_div_by_zero (a := a₂) hb.wf₂ h0' dbg
    rw [p1, p2, p3, p4, p5, q1, q2, q3, q4, q5]
    exact ⟨trivial, trivial, trivial, fun _ => ⟨trivial, rfl⟩⟩
  · have h0' : S w₂ b₂ ≠ 0 := by rw [← hb.val]; exact h0
    by_cases hov : S w₁ a₁ = -((M w₁ n₁ / 2 : Nat) : Int) ∧ S w₁ b₁ = -1
    · have hov' : S w₂ a₂ = -((M w₂ n₂ / 2 : Nat) : Int) ∧ S w₂ b₂ = -1 := by
        rw [← ha.val, ← hb.val, ← hMh]; exact hov
      obtain ⟨p1, p2, p3⟩ := C18.i_min_neg_one c.one₁ c.hn₁ ha.wf₁ hb.wf₁ hov dbg
      obtain ⟨q1, q2, q3⟩ := C18.i_min_neg_one c.one₂ c.hn₂ ha.wf₂ hb.wf₂ hov' dbg
      rw [p1, p2, p3, q1, q2, q3]
      exact ⟨trivial, trivial, trivial, fun h => absurd hov h⟩
    · have hov' : ¬ (S w₂ a₂ = -((M w₂ n₂ / 2 : Nat) : Int) ∧ S w₂ b₂ = -1) := by
        rw [← ha.val, ← hb.val, ← hMh]; exact hov
      obtain ⟨x1, e1, -, u1⟩ := C18.i_divFloor_spec c.hw₁ c.hn₁ ha.wf₁ hb.wf₁ h0 hov dbg
      obtain ⟨x2, e2, -, u2⟩ := C18.i_divFloor_spec c.hw₂ c.hn₂ ha.wf₂ hb.wf₂ h0' hov' dbg
      obtain ⟨y1, f1, -, v1⟩ := C18.i_modFloor_spec c.hw₁ c.hn₁ ha.wf₁ hb.wf₁ h0 hov dbg
      obtain ⟨y2, f2, -, v2⟩ := C18.i_modFloor_spec c.hw₂ c.hn₂ ha.wf₂ hb.wf₂ h0' hov' dbg
      obtain ⟨q1, r1, g1, -, -, s1, t1⟩ := C18.i_divRem_spec c.hw₁ c.hn₁ ha.wf₁ hb.wf₁ h0 hov dbg
      obtain ⟨q2, r2, g2, -, -, s2, t2⟩ := C18.i_divRem_spec c.hw₂ c.hn₂ ha.wf₂ hb.wf₂ h0' hov' dbg
      obtain ⟨q3, r3, g3, -, -, s3, t3⟩ := C18.i_divModFloor_spec c.hw₁ c.hn₁ ha.wf₁ hb.wf₁ h0 hov dbg
      obtain ⟨q4, r4, g4, -, -, s4, t4⟩ := C18.i_divModFloor_spec c.hw₂ c.hn₂ ha.wf₂ hb.wf₂ h0' hov' dbg
      rw [e1, e2, f1, f2, g1, g2, g3, g4, C18.i_isMultipleOf_spec c.hw₁ c.hn₁ ha.wf₁ hb.wf₁ h0 hov dbg,
        C18.i_isMultipleOf_spec c.hw₂ c.hn₂ ha.wf₂ hb.wf₂ h0' hov' dbg, ha.val, hb.val]
      refine ⟨?_, ?_, ⟨?_, ?_⟩, fun _ => ⟨⟨?_, ?_⟩, rfl⟩⟩ <;> show S _ _ = S _ _
      · rw [u1, u2, ha.val, hb.val]
      · rw [v1, v2, ha.val, hb.val]
      · rw [s1, s2, ha.val, hb.val]
      · rw [t1, t2, ha.val, hb.val]
      · rw [s3, s4, ha.val, hb.val]
      · rw [t3, t4, ha.val, hb.val]
example : NumT.I.divFloor true 8 [0xf9, 0xff] [0x02, 0x00] = .ok [0xfc, 0xff] ∧
    NumT.I.divFloor true 16 [0xfff9] [0x0002] = .ok [0xfffc] := by decide

open NumT in
/-- C18 `Roots` of `BUint` (digit widths `2^s`): `sqrt`, `cbrt`, `nth_root(d)` for every degree
    (`d = 0`: both panic) -/
theorem indep_u_roots {s₁ s₂ : Nat} (h1₁ : 1 ≤ s₁) (hs₁ : s₁ < 32) (h1₂ : 1 ≤ s₂) (hs₂ : s₂ < 32)
    (c : Cfgs (2 ^ s₁) n₁ (2 ^ s₂) n₂) (ha : SameU (2 ^ s₁) n₁ (2 ^ s₂) n₂ a₁ a₂) (dbg : Bool)
    {d : Nat} (hd32 : d < 2 ^ 32) :
    OutRel (EqU (2 ^ s₁) (2 ^ s₂)) (U.sqrt dbg (2 ^ s₁) a₁) (U.sqrt dbg (2 ^ s₂) a₂) ∧
    OutRel (EqU (2 ^ s₁) (2 ^ s₂)) (U.cbrt dbg (2 ^ s₁) a₁) (U.cbrt dbg (2 ^ s₂) a₂) ∧
    OutRel (EqU (2 ^ s₁) (2 ^ s₂)) (U.nthRoot dbg (2 ^ s₁) a₁ d) (U.nthRoot dbg (2 ^ s₂) a₂ d) := by
  obtain ⟨r1, e1, -, i1⟩ := C18.u_sqrt_spec hs₁ c.hn₁ ha.wf₁ dbg
  obtain ⟨r2, e2, -, i2⟩ := C18.u_sqrt_spec hs₂ c.hn₂ ha.wf₂ dbg
  obtain ⟨r3, e3, -, i3⟩ := C18.u_cbrt_spec h1₁ hs₁ c.hn₁ ha.wf₁ dbg
  obtain ⟨r4, e4, -, i4⟩ := C18.u_cbrt_spec h1₂ hs₂ c.hn₂ ha.wf₂ dbg
  rw [ha.val] at i1 i3
  refine ⟨by rw [e1, e2]; exact C18.root_unique i1 i2, by rw [e3, e4]; exact C18.root_unique i3 i4, ?_⟩
  by_cases hd : d = 0
  · subst hd; rw [C18.u_nthRoot_zero, C18.u_nthRoot_zero]; trivial
  · obtain ⟨r5, e5, -, i5⟩ := C18.u_nthRoot_spec h1₁ hs₁ c.hn₁ ha.wf₁ dbg (by omega) hd32
    obtain ⟨r6, e6, -, i6⟩ := C18.u_nthRoot_spec h1₂ hs₂ c.hn₂ ha.wf₂ dbg (by omega) hd32
    rw [ha.val] at i5
    rw [e5, e6]; exact C18.root_unique i5 i6
set_option maxRecDepth 100000 in
example : NumT.U.sqrt true (2 ^ 3) [0x00, 0x90] = .ok [0xc0, 0x00] ∧
    NumT.U.sqrt true (2 ^ 4) [0x9000] = .ok [0x00c0] := by decide

open NumT in
/-- C18 `Roots` of `BInt`: the panics (negative radicand with an even degree, degree 0) and the values -/
theorem indep_i_roots {s₁ s₂ : Nat} (h1₁ : 1 ≤ s₁) (hs₁ : s₁ < 32) (h1₂ : 1 ≤ s₂) (hs₂ : s₂ < 32)
    (c : Cfgs (2 ^ s₁) n₁ (2 ^ s₂) n₂) (ha : SameS (2 ^ s₁) n₁ (2 ^ s₂) n₂ a₁ a₂) (dbg : Bool)
    {d : Nat} (hd32 : d < 2 ^ 32) :
    OutRel (EqS (2 ^ s₁) (2 ^ s₂)) (I.sqrt dbg (2 ^ s₁) a₁) (I.sqrt dbg (2 ^ s₂) a₂) ∧
    OutRel (EqS (2 ^ s₁) (2 ^ s₂)) (I.cbrt dbg (2 ^ s₁) a₁) (I.cbrt dbg (2 ^ s₂) a₂) ∧
    OutRel (EqS (2 ^ s₁) (2 ^ s₂)) (I.nthRoot dbg (2 ^ s₁) a₁ d) (I.nthRoot dbg (2 ^ s₂) a₂ d) := by
  obtain ⟨n1, p1⟩ := C18.i_sqrt_spec h1₁ hs₁ c.hn₁ ha.wf₁ dbg
  obtain ⟨n2, p2⟩ := C18.i_sqrt_spec h1₂ hs₂ c.hn₂ ha.wf₂ dbg
  obtain ⟨r3, e3, -, i3⟩ := C18.i_cbrt_spec h1₁ hs₁ c.hn₁ ha.wf₁ dbg
  obtain ⟨r4, e4, -, i4⟩ := C18.i_cbrt_spec h1₂ hs₂ c.hn₂ ha.wf₂ dbg
  obtain ⟨z1, g1, k1⟩ := C18.i_nthRoot_spec h1₁ hs₁ c.hn₁ ha.wf₁ dbg hd32
  obtain ⟨z2, g2, k2⟩ := C18.i_nthRoot_spec h1₂ hs₂ c.hn₂ ha.wf₂ dbg hd32
  rw [ha.val] at n1 p1 i3 g1 k1
  refine ⟨?_, by rw [e3, e4]; exact C18.rootZ_unique i3 i4, ?_⟩
  · by_cases hneg : S (2 ^ s₂) a₂ < 0
    · rw [n1 hneg, n2 hneg]; trivial
    · obtain ⟨r1, e1, -, i1⟩ := p1 (by omega)
      obtain ⟨r2, e2, -, i2⟩ := p2 (by omega)
      rw [e1, e2]; exact C18.rootZ_unique i1 i2
  · by_cases hd : d = 0
    · rw [z1 hd, z2 hd]; trivial
    · by_cases hneg : S (2 ^ s₂) a₂ < 0 ∧ d % 2 = 0
      · rw [g1 hneg.1 hneg.2, g2 hneg.1 hneg.2]; trivial
      · obtain ⟨r1, e1, -, i1⟩ := k1 (by omega) (by omega)
        obtain ⟨r2, e2, -, i2⟩ := k2 (by omega) (by omega)
        rw [e1, e2]; exact C18.rootZ_unique i1 i2
set_option maxRecDepth 100000 in
example : NumT.I.cbrt true (2 ^ 3) [0x18, 0xfc] = .ok [0xf6, 0xff] ∧
    NumT.I.cbrt true (2 ^ 4) [0xfc18] = .ok [0xfff6] := by decide

open NumT in
/-- C18 `MulAdd::mul_add`, `Signed::abs_sub` (whenever the exact results are representable, as in C18),
    `Integer::is_even` / `is_odd` -/
theorem indep_mul_add_abs_sub_even {x₁ x₂ c₁ c₂ : List Nat} (c : Cfgs w₁ n₁ w₂ n₂) (dbg : Bool) :
    (SameU w₁ n₁ w₂ n₂ x₁ x₂ → SameU w₁ n₁ w₂ n₂ a₁ a₂ → SameU w₁ n₁ w₂ n₂ c₁ c₂ →
      U w₁ x₁ * U w₁ a₁ + U w₁ c₁ < M w₁ n₁ →
      OutRel (EqU w₁ w₂) (U.mulAdd dbg w₁ x₁ a₁ c₁) (U.mulAdd dbg w₂ x₂ a₂ c₂)) ∧
    (SameS w₁ n₁ w₂ n₂ x₁ x₂ → SameS w₁ n₁ w₂ n₂ a₁ a₂ → SameS w₁ n₁ w₂ n₂ c₁ c₂ →
      repS (M w₁ n₁) (S w₁ x₁ * S w₁ a₁) → repS (M w₁ n₁) (S w₁ x₁ * S w₁ a₁ + S w₁ c₁) →
      OutRel (EqS w₁ w₂) (I.mulAdd dbg w₁ x₁ a₁ c₁) (I.mulAdd dbg w₂ x₂ a₂ c₂)) ∧
    (SameS w₁ n₁ w₂ n₂ a₁ a₂ → SameS w₁ n₁ w₂ n₂ b₁ b₂ → repS (M w₁ n₁) (S w₁ a₁ - S w₁ b₁) →
      OutRel (EqS w₁ w₂) (I.absSub dbg w₁ a₁ b₁) (I.absSub dbg w₂ a₂ b₂)) ∧
    (SameU w₁ n₁ w₂ n₂ a₁ a₂ → U.isEven a₁ = U.isEven a₂ ∧ U.isOdd a₁ = U.isOdd a₂) ∧
    (SameS w₁ n₁ w₂ n₂ a₁ a₂ → I.isEven a₁ = I.isEven a₂ ∧ I.isOdd a₁ = I.isOdd a₂) := by
  refine ⟨fun hx ha hc h => ?_, fun hx ha hc h1 h2 => ?_, fun ha hb h => ?_, fun ha => ?_, fun ha => ?_⟩
  · exact okUn (C18.u_mulAdd_spec hx.wf₁ ha.wf₁ hc.wf₁ h dbg)
      (C18.u_mulAdd_spec hx.wf₂ ha.wf₂ hc.wf₂ (by rw [← hx.val, ← ha.val, ← hc.val, ← c.M_eq]; exact h) dbg)
      (by rw [hx.val, ha.val, hc.val])
  · exact okS (C18.i_mulAdd_spec c.hw₁ c.hn₁ hx.wf₁ ha.wf₁ hc.wf₁ h1 h2 dbg)
      (C18.i_mulAdd_spec c.hw₂ c.hn₂ hx.wf₂ ha.wf₂ hc.wf₂ (by rw [← hx.val, ← ha.val, ← c.M_eq]; exact h1)
        (by rw [← hx.val, ← ha.val, ← hc.val, ← c.M_eq]; exact h2) dbg)
      (by rw [hx.val, ha.val, hc.val])
  · obtain ⟨l1, g1⟩ := C18.i_absSub_spec c.hw₁ c.hn₁ ha.wf₁ hb.wf₁ dbg
    obtain ⟨l2, g2⟩ := C18.i_absSub_spec c.hw₂ c.hn₂ ha.wf₂ hb.wf₂ dbg
    rw [ha.val, hb.val] at l1 g1
    by_cases hle : S w₂ a₂ ≤ S w₂ b₂
    · rw [l1 hle, l2 hle]; show S _ _ = S _ _; rw [S_zero, S_zero]
    · exact okS (g1 (by omega) (by rw [← ha.val, ← hb.val]; exact h))
        (g2 (by omega) (by rw [← ha.val, ← hb.val, ← c.M_eq]; exact h)) rfl
  · obtain ⟨p1, p2⟩ := C18.u_isEven_spec c.one₁ c.hn₁ ha.wf₁
    obtain ⟨q1, q2⟩ := C18.u_isEven_spec c.one₂ c.hn₂ ha.wf₂
    rw [p1, p2, q1, q2, ha.val]; exact ⟨rfl, rfl⟩
  · obtain ⟨p1, p2⟩ := C18.i_isEven_spec c.hw₁ c.hn₁ ha.wf₁
    obtain ⟨q1, q2⟩ := C18.i_isEven_spec c.hw₂ c.hn₂ ha.wf₂
    rw [p1, p2, q1, q2, ha.val]; exact ⟨rfl, rfl⟩
example : NumT.U.mulAdd true 8 [0x10, 0x00] [0x10, 0x00] [0x05, 0x00] = .ok [0x05, 0x01] ∧
    NumT.U.mulAdd true 16 [0x0010] [0x0010] [0x0005] = .ok [0x0105] := by decide

/-! ### C03, completed: `next_multiple_of` (the function C03 only describes when its result is representable)
    and the rounding divisions at `MIN / -1` — ALL operands, both build profiles -/

/-- `BUint::next_multiple_of` for every operand pair and both profiles: zero divisor (both panic), the multiple
    not representable (`debug_assertions`: both panic; release: both wrap to the same value), else the multiple -/
theorem indep_u_next_multiple_of (c : Cfgs w₁ n₁ w₂ n₂) (ha : SameU w₁ n₁ w₂ n₂ a₁ a₂)
    (hb : SameU w₁ n₁ w₂ n₂ b₁ b₂) (dbg : Bool) :
    OutRel (EqU w₁ w₂) (UI.nextMultipleOf dbg w₁ a₁ b₁) (UI.nextMultipleOf dbg w₂ a₂ b₂) :=
  u_nextMultipleOf_rel c ha hb dbg
example : UI.nextMultipleOf true 8 [0xff, 0xff] [0x07, 0x00] = .panic ∧ UI.nextMultipleOf true 16 [0xffff] [0x0007] = .panic ∧
    UI.nextMultipleOf false 8 [0xff, 0xff] [0x07, 0x00] = .ok [0x05, 0x00] ∧
    UI.nextMultipleOf false 16 [0xffff] [0x0007] = .ok [0x0005] := by decide

/-- `BInt`: `div_floor`, `div_ceil`, `checked_next_multiple_of`, `next_multiple_of` for ALL operands — zero
    divisor, `MIN / -1` (`div_floor` = `div_ceil` = the wrapped quotient `MIN` in both; no panic in either
    profile), unrepresentable multiple (profile dependent, but the same in both digit types) included.
    Removes the exclusion of `indep_i_div_round`. -/
theorem indep_i_div_round_all (c : Cfgs w₁ n₁ w₂ n₂) (ha : SameS w₁ n₁ w₂ n₂ a₁ a₂)
    (hb : SameS w₁ n₁ w₂ n₂ b₁ b₂) (dbg : Bool) :
    OutRel (EqS w₁ w₂) (II.divFloor dbg w₁ a₁ b₁) (II.divFloor dbg w₂ a₂ b₂) ∧
    OutRel (EqS w₁ w₂) (II.divCeil dbg w₁ a₁ b₁) (II.divCeil dbg w₂ a₂ b₂) ∧
    OutRel (OptRel (EqS w₁ w₂)) (II.checkedNextMultipleOf dbg w₁ a₁ b₁)
      (II.checkedNextMultipleOf dbg w₂ a₂ b₂) ∧
    OutRel (EqS w₁ w₂) (II.nextMultipleOf dbg w₁ a₁ b₁) (II.nextMultipleOf dbg w₂ a₂ b₂) := by
  have nmo := i_nextMultipleOf_rel c ha hb dbg
  by_cases hov : S w₁ a₁ = -(H w₁ n₁ : Int) ∧ S w₁ b₁ = -1
  · have hov₁ : S w₁ a₁ = -((M w₁ n₁ / 2 : Nat) : Int) ∧ S w₁ b₁ = -1 := by
      rw [M_half_eq_H c.one₁ c.hn₁]; exact hov
    have hov₂ : S w₂ a₂ = -((M w₂ n₂ / 2 : Nat) : Int) ∧ S w₂ b₂ = -1 := by
      rw [← ha.val, ← hb.val, ← c.M_eq]; exact hov₁
    obtain ⟨q₁, f₁, g₁, -, s₁⟩ := i_divFloorCeil_min_neg_one c.hw₁ c.hn₁ ha.wf₁ hb.wf₁ hov₁ dbg
    obtain ⟨q₂, f₂, g₂, -, s₂⟩ := i_divFloorCeil_min_neg_one c.hw₂ c.hn₂ ha.wf₂ hb.wf₂ hov₂ dbg
    have e : EqS w₁ w₂ q₁ q₂ := EqS.of_int s₁ s₂ (by rw [c.M_eq])
    have h0 : S w₁ b₁ ≠ 0 := by rw [hov.2]; decide
    have h0' : S w₂ b₂ ≠ 0 := by rw [hov₂.2]; decide
    obtain ⟨o₁, e₁, t₁⟩ := C03.i_checkedNextMultipleOf_spec c.hw₁ c.hn₁ ha.wf₁ hb.wf₁ h0 dbg
    obtain ⟨o₂, e₂, t₂⟩ := C03.i_checkedNextMultipleOf_spec c.hw₂ c.hn₂ ha.wf₂ hb.wf₂ h0' dbg
    have nm : OptRel (EqS w₁ w₂) o₁ o₂ :=
      optS t₁ t₂ (by rw [c.M_eq, ha.val, hb.val]) (by rw [ha.val, hb.val])
    rw [f₁, f₂, g₁, g₂, e₁, e₂]
    exact ⟨e, e, nm, nmo⟩
  · obtain ⟨d1, d2, d3⟩ := indep_i_div_round c ha hb dbg hov
    exact ⟨d1, d2, d3, nmo⟩
example : II.divFloor true 8 [0x00, 0x80] [0xff, 0xff] = .ok [0x00, 0x80] ∧
    II.divFloor true 16 [0x8000] [0xffff] = .ok [0x8000] ∧
    II.nextMultipleOf true 8 [0x7f, 0x7f] [0x00, 0x01] = .panic ∧ II.nextMultipleOf true 16 [0x7f7f] [0x0100] = .panic ∧
    II.nextMultipleOf false 8 [0x7f, 0x7f] [0x00, 0x01] = .ok [0x00, 0x80] ∧
    II.nextMultipleOf false 16 [0x7f7f] [0x0100] = .ok [0x8000] := by decide

/-- (ii) signed `rem` / `rem_euclid` commute with sign-extension for ALL operands, `MIN % -1` of the narrow type
    included: the exact remainder `0` IS representable there, and the forms that return a value
    (`wrapping_rem(_euclid)`, the value of `overflowing_rem(_euclid)`) agree — only the `checked` /
    panicking forms (and the overflow flag) report the unrepresentable QUOTIENT, which `ext_i_div` excludes. -/
theorem ext_i_wrapping_rem (x : Ext w₁ n₁ w₂ n₂) (ha : SameS w₁ n₁ w₂ n₂ a₁ a₂)
    (hb : SameS w₁ n₁ w₂ n₂ b₁ b₂) (dbg : Bool) :
    OutRel (EqS w₁ w₂) (II.wrappingRem dbg w₁ a₁ b₁) (II.wrappingRem dbg w₂ a₂ b₂) ∧
    OutRel (EqS w₁ w₂) (II.wrappingRemEuclid dbg w₁ a₁ b₁) (II.wrappingRemEuclid dbg w₂ a₂ b₂) ∧
    OutRel (fun p q => EqS w₁ w₂ p.1 q.1) (II.overflowingRem dbg w₁ a₁ b₁) (II.overflowingRem dbg w₂ a₂ b₂) ∧
    OutRel (fun p q => EqS w₁ w₂ p.1 q.1) (II.overflowingRemEuclid dbg w₁ a₁ b₁)
      (II.overflowingRemEuclid dbg w₂ a₂ b₂) := by
  by_cases h0 : S w₁ b₁ = 0
  · have h0' : S w₂ b₂ = 0 := by rw [← hb.val]; exact h0
    have z₁ := C03.i_zero_divisor x.hw₁ x.hn₁ ha.wf₁ hb.wf₁ h0 dbg
    have z₂ := C03.i_zero_divisor x.hw₂ x.hn₂ ha.wf₂ hb.wf₂ h0' dbg
    simp only [z₁, z₂, OutRel, and_self]
  · have h0' : S w₂ b₂ ≠ 0 := by rw [← hb.val]; exact h0
    obtain ⟨r₁, re₁, f₁, g₁, p1, p2, p3, p4, -, -, sr₁, sre₁⟩ := i_rem_total x.hw₁ x.hn₁ ha.wf₁ hb.wf₁ h0 dbg
    obtain ⟨r₂, re₂, f₂, g₂, q1, q2, q3, q4, -, -, sr₂, sre₂⟩ := i_rem_total x.hw₂ x.hn₂ ha.wf₂ hb.wf₂ h0' dbg
    have er : EqS w₁ w₂ r₁ r₂ := EqS.of_int sr₁ sr₂ (by rw [ha.val, hb.val])
    have ere : EqS w₁ w₂ re₁ re₂ := EqS.of_int sre₁ sre₂ (by rw [ha.val, hb.val])
    rw [p1, p2, p3, p4, q1, q2, q3, q4]
    exact ⟨er, ere, er, ere⟩
/-- `i8::MIN % -1`: the narrow `wrapping_rem` is 0 (the `checked` form says `None`), and so is the wide one -/
example : II.wrappingRem true 8 [0x80] [0xff] = .ok [0x00] ∧ II.checkedRem true 8 [0x80] [0xff] = .ok none ∧
    II.wrappingRem true 16 [0xff80] [0xffff] = .ok [0x0000] := by decide

end more

/-! ## §5, continued: the transcription `Consts.aliases` IS the table of `src/types.rs`

  `Generated.aliases` is rewritten from `/repo/src/types.rs` by the pre hook of every run (name, signedness and the
  `$bits` literal of each row; the hook also checks that the macro body still instantiates
  `BUint::<{$bits / 64}>` / `BInt::<{$bits / 64}>`).  The model's table — which the driver's `alias` request and
  the theorems `aliases_*` above are about — stores the digit count as a literal; this theorem ties it to
  `$bits / 64` of the generated rows, so a changed row of `types.rs` breaks the build of this module. -/
theorem aliases_generated :
    Consts.aliases = Generated.aliases.map (fun e => (e.1, e.2.1, e.2.2 / 64, e.2.2)) := by decide
example : ("U1024", false, 1024) ∈ Generated.aliases ∧ ("U1024", false, 16, 1024) ∈ Consts.aliases := by decide

end Bnum.C16
