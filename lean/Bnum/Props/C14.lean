/-
  Bnum.Props.C14 — "Casting any bnum integer to f32 or f64 returns the representable float nearest to
  the exact value, ties to the even mantissa, exactly for values that fit the mantissa and signed
  infinity when the magnitude exceeds the largest finite float.  Casting an f32 or f64 to any bnum
  integer truncates toward zero, maps NaN to zero, and saturates at the target's MIN and MAX (negative
  values to zero for unsigned targets, infinities to the bounds)."

  Model: Bnum.Model.Float (`Flt.*`), mirroring `src/cast/float/{mod,float_from_uint,uint_from_float}.rs`
  and the call sites in `src/buint/cast.rs`, `src/bint/cast.rs`.  Floats are bit patterns; a format is
  `F = (bits, p, emax)`; all theorems hold for every `F` with `F.Valid` (`2 ≤ p`, `3 ≤ bits - p ≤ 31`,
  `emax = 2^(bits-p-1)`), in particular `fmtF32 = (32, 24, 128)` and `fmtF64 = (64, 53, 1024)`
  (`Flt.valid_f32`, `Flt.valid_f64`), every target width `W = U::BITS` (so all digit widths and all
  digit counts, powers of two or not), signed and unsigned.
  Two layers.  Model/Float.lean takes the bnum integer at VALUE level (`v < 2^W`); Model/FloatD.lean
  (`FltD.*`) is the DIGIT-LEVEL model: the same generic functions instantiated at `BUint<N>`, calling
  `UI.bits`, `UI.bit`, the unsuffixed `UI.shr dbg` / `UI.shl dbg`, `UI.trailingZeros`, the casts to / from
  the mantissa primitive, `II.unsignedAbs`, the unsuffixed `neg`, `>=`, `MIN`/`MAX`.  Lemmas/FloatD.lean
  proves that the digit-level functions refine the value-level ones (same `Outcome`, same pattern), so
  every theorem below transfers to digit lists: section "digit level" at the end (`…_specD`).  The
  Drive handler answers with the digit-level model.

  Strength of the integer → float half: `floatFromUint_spec` / `floatFromInt_spec` (result = spec encoder),
  `rne_nearest` / `rne_tie_even` / `rne_exact` (the spec rounds correctly), `floatFromUint_value_exact` /
  `floatFromInt_value_exact` (the produced pattern, decoded independently, is finite, non-NaN, correctly
  signed and has EXACTLY the value `± rne p |z|`), `overflow_threshold` / `floatFromUint_overflow_iff` /
  `floatFromInt_overflow` (±∞ exactly from MAX_FINITE + ulp/2 on), and digit-level versions.

  Spec: Bnum.Spec.Float — `rne p v` (formula), `encodeNat` (pattern of a representable natural number,
  +∞ from `2^emax`), `intToFloat` (sign-symmetric), `floatToInt` (NaN ↦ 0, ±∞ ↦ bounds, else
  `clamp (trunc value)`), `decodeFinite` (pattern ↦ significand and exponent).

  History.  Up to snapshot a8327ce, `cast_uint_from_float` had the branches `exp < -1 → 0` and
  `exp == -1 → (0 if the mantissa is a power of two, else 1)`: every float in (0.5, 1) was cast to 1
  (e.g. `0.75f32 = 0x3f400000 ↦ 1`, and `-0.75 ↦ -1` for signed targets) where `as` truncates to 0
  (finding F3; reproduced against the real crate by the differential check, and by this model before
  the switch: 270 model/spec mismatches, all in that binade).  Commit e77dd54 (`fix: float to integer
  casts truncate values in (0.5, 1) to zero`) replaced both branches by `exp <= -1 → 0`; the model
  mirrors the repaired tree and `uintFromFloat_spec` / `intFromFloat_spec` below are the FULL
  statements (no excluded binade).  `from_f32_regression` pins the former counterexample.
-/
import Bnum.Lemmas.Float
import Bnum.Lemmas.FloatD
import Bnum.Lemmas.C14Extra
namespace Bnum.C14
open Bnum Bnum.Spec Bnum.Flt

/-! ## Round to nearest, ties to even (pure arithmetic on `Nat`) -/

/-- "the representable float nearest to the exact value": no number with at most `p` significant bits
    is closer to `v` than `rne p v`. -/
theorem rne_nearest {p v y : Nat} (hp : 1 ≤ p) (hy : Representable p y) :
    ((v : Int) - rne p v).natAbs ≤ ((v : Int) - y).natAbs := Flt.rne_nearest hp hy
example : Representable 24 (2 ^ 24 + 2) := ⟨2 ^ 23 + 1, 1, by decide, by decide⟩

/-- `rne p v` is itself representable with `p` significant bits. -/
theorem rne_representable {p v : Nat} (hp : 1 ≤ p) : Representable p (rne p v) := Flt.rne_representable hp

/-- the nearest representable number is unique unless `v` is exactly half-way. -/
theorem rne_nearest_unique {p v y : Nat} (hp : 1 ≤ p) (hy : Representable p y)
    (hd : ((v : Int) - y).natAbs = ((v : Int) - rne p v).natAbs) :
    y = rne p v ∨ (p < size v ∧ 2 * (v % 2 ^ (size v - p)) = 2 ^ (size v - p)) :=
  Flt.rne_nearest_unique hp hy hd

/-- "ties to the even mantissa": at an exact tie the kept mantissa `rne p v / 2^s` is even. -/
theorem rne_tie_even {p v : Nat} (hs : p < size v)
    (htie : 2 * (v % 2 ^ (size v - p)) = 2 ^ (size v - p)) :
    rne p v / 2 ^ (size v - p) % 2 = 0 := Flt.rne_tie_even hs htie
example : 24 < size (2 ^ 24 + 1) ∧ 2 * ((2 ^ 24 + 1) % 2 ^ (size (2 ^ 24 + 1) - 24)) = 2 ^ (size (2 ^ 24 + 1) - 24) := by
  decide
example : rne 24 (2 ^ 24 + 1) = 2 ^ 24 ∧ rne 24 (2 ^ 24 + 3) = 2 ^ 24 + 4 := by decide

/-- "exactly for values that fit the mantissa". -/
theorem rne_exact {p v : Nat} (h : size v ≤ p) : rne p v = v := Flt.rne_exact h
example : size (2 ^ 24 - 1) ≤ 24 := by decide

/-! ## integer → float -/

/-- `CastFrom<BUint<N>> for f32/f64`: the result is the pattern of `rne p v`, or +∞ when
    `rne p v ≥ 2^emax`; the `debug_assert!`s of `from_*_parts` never fire (both build modes). -/
theorem floatFromUint_spec {F : FloatFmt} (hF : F.Valid) (W : Nat) (dbg : Bool) (v : Nat) :
    floatFromBUint F W dbg v = .ok (encodeNat F.spec (rne F.p v)) := castFloatFromUint_spec hF W dbg v
example : floatFromBUint fmtF32 32 true (2 ^ 24 + 1) = .ok 0x4b800000 := by decide
example : floatFromBUint fmtF32 32 true (2 ^ 24 + 3) = .ok 0x4b800002 := by decide
/-- a tie that carries into the exponent: `u32::MAX as f32 = 2^32` -/
example : floatFromBUint fmtF32 32 true (2 ^ 32 - 1) = .ok 0x4f800000 := by decide

theorem floatFromUint_f32 (W : Nat) (dbg : Bool) (v : Nat) :
    floatFromBUint fmtF32 W dbg v = .ok (encodeNat Spec.f32 (rne 24 v)) := floatFromUint_spec valid_f32 W dbg v
theorem floatFromUint_f64 (W : Nat) (dbg : Bool) (v : Nat) :
    floatFromBUint fmtF64 W dbg v = .ok (encodeNat Spec.f64 (rne 53 v)) := floatFromUint_spec valid_f64 W dbg v

/-- on digit lists: the Drive handler's composition `U` ∘ cast -/
theorem floatFromUint_digits {F : FloatFmt} (hF : F.Valid) (w : Nat) (dbg : Bool) (a : List Nat) :
    floatFromBUint F (w * a.length) dbg (U w a) = .ok (natToFloat F.spec (U w a)) :=
  castFloatFromUint_spec hF _ dbg _

/-- "signed infinity when the magnitude exceeds the largest finite float" (unsigned part) -/
theorem floatFromUint_overflow {F : FloatFmt} (hF : F.Valid) (W : Nat) (dbg : Bool) {v : Nat}
    (h : 2 ^ F.emax ≤ rne F.p v) : floatFromBUint F W dbg v = .ok (infinity F) := by
  rw [floatFromUint_spec hF, infinity_eq hF]; exact congrArg _ (encodeNat_overflow h)
/-- `2^128 - 2^103` is the smallest integer that rounds to `2^128` -/
example : 2 ^ fmtF32.emax ≤ rne fmtF32.p (2 ^ 128 - 2 ^ 103) := by decide
example : floatFromBUint fmtF32 136 true (2 ^ 128 - 2 ^ 103 - 1) = .ok 0x7f7fffff := by decide

/-- the float produced for `v`, decoded independently by `decodeFinite`, has integer part `rne p v`
    (`truncOf` = `⌊value⌋`).  This alone does not exclude a fractional part or a NaN / infinite pattern:
    the full statement (exact value, finite, non-negative, non-NaN) is `floatFromUint_value_exact` below. -/
theorem floatFromUint_value {F : FloatFmt} (hF : F.Valid) {v : Nat} (hfin : rne F.p v < 2 ^ F.emax) :
    truncOf F.spec (natToFloat F.spec v) = rne F.p v := truncOf_natToFloat hF hfin
example : rne fmtF32.p (2 ^ 64 - 1) < 2 ^ fmtF32.emax := by decide

/-- "exactly for values that fit the mantissa": the float's value is `v` itself
    (`p ≤ emax` holds for f32 and f64). -/
theorem floatFromUint_exact {F : FloatFmt} (hF : F.Valid) (hpe : F.p ≤ F.emax) {v : Nat} (h : size v ≤ F.p) :
    truncOf F.spec (natToFloat F.spec v) = v := by
  have h1 : v < 2 ^ F.p := size_le_iff.1 h
  have h2 : 2 ^ F.p ≤ 2 ^ F.emax := Nat.pow_le_pow_right (by decide) hpe
  have := truncOf_natToFloat hF (v := v) (by rw [Flt.rne_exact h]; omega)
  rw [this, Flt.rne_exact h]
example : fmtF32.p ≤ fmtF32.emax ∧ fmtF64.p ≤ fmtF64.emax ∧ size (2 ^ 53 - 1) ≤ fmtF64.p := by decide

/-- FULL-STRENGTH value statement (`floatFromUint_value` only gives the floor of the decoded value): when the
    rounded value stays below `2^emax`, the cast returns a pattern that is finite, not a NaN, has a clear sign
    bit, and whose significand `m` and exponent `e`, decoded independently by `decodeFinite`, satisfy
    `m · 2^e = rne p v` EXACTLY (`ExactValue`: over the rationals, stated without division). -/
theorem floatFromUint_value_exact {F : FloatFmt} (hF : F.Valid) (W : Nat) (dbg : Bool) {v : Nat}
    (hfin : rne F.p v < 2 ^ F.emax) :
    ∃ x, floatFromBUint F W dbg v = .ok x ∧ x < 2 ^ F.bits ∧ signOf F.spec x = false ∧
      Spec.isNaN F.spec x = false ∧ Spec.isInf F.spec x = false ∧
      ExactValue (decodeFinite F.spec x).1 (decodeFinite F.spec x).2 (rne F.p v) :=
  ⟨_, castFloatFromUint_spec hF W dbg v, natToFloat_finite hF hfin⟩
/-- `6 · 2^-1 = 3`, `3 · 2^-1 ≠ 1` (no flooring), `3 · 2^1 = 6` -/
example : rne fmtF32.p (2 ^ 64 - 1) < 2 ^ fmtF32.emax ∧ ExactValue 6 (-1) 3 ∧ ¬ ExactValue 3 (-1) 1 ∧
    ExactValue 3 1 6 := by decide

/-- "when the magnitude exceeds the largest finite float": with round-to-nearest the rounded value reaches
    `2^emax` exactly from `2^emax − 2^(emax−p−1)` = MAX_FINITE + half an ulp on
    (`2^128 − 2^103` for f32, `2^1024 − 2^970` for f64). -/
theorem overflow_threshold {F : FloatFmt} (hF : F.Valid) (hpe : F.p + 1 ≤ F.emax) (v : Nat) :
    2 ^ F.emax ≤ rne F.p v ↔ 2 ^ F.emax - 2 ^ (F.emax - F.p - 1) ≤ v :=
  rne_overflow_iff (by have := hF.hp; omega) hpe
example : fmtF32.p + 1 ≤ fmtF32.emax ∧ fmtF64.p + 1 ≤ fmtF64.emax ∧
    2 ^ fmtF32.emax - 2 ^ (fmtF32.emax - fmtF32.p - 1) = 0xffffff80000000000000000000000000 := by decide

/-- the unsigned cast returns +∞ EXACTLY for the values from the threshold on (both directions: below the
    threshold the result is not +∞) -/
theorem floatFromUint_overflow_iff {F : FloatFmt} (hF : F.Valid) (hpe : F.p + 1 ≤ F.emax) (W : Nat) (dbg : Bool)
    (v : Nat) :
    floatFromBUint F W dbg v = .ok (infinity F) ↔ 2 ^ F.emax - 2 ^ (F.emax - F.p - 1) ≤ v := by
  rw [← overflow_threshold hF hpe, floatFromUint_spec hF, infinity_eq hF,
    ← natToFloat_eq_posInf_iff hF v]
  constructor
  · intro h; exact Outcome.ok.inj h
  · intro h; exact congrArg _ h
example : floatFromBUint fmtF32 136 false (2 ^ 128 - 2 ^ 103) = .ok (infinity fmtF32) ∧
    floatFromBUint fmtF32 136 false (2 ^ 128 - 2 ^ 103 - 1) ≠ .ok (infinity fmtF32) := by decide

/-- `CastFrom<BInt<N>> for f32/f64` is sign-symmetric: the sign bit plus the float nearest to the
    magnitude (so −∞ when the magnitude overflows); `pat` is the two's-complement pattern. -/
theorem floatFromInt_spec {F : FloatFmt} (hF : F.Valid) {W : Nat} (hW : 1 ≤ W) (dbg : Bool) {pat : Nat}
    (hpat : pat < 2 ^ W) :
    floatFromBInt F W dbg pat = .ok (intToFloat F.spec (toInt (2 ^ W) pat)) :=
  floatFromBInt_spec hF hW dbg hpat
/-- `-1i64 as f64 = -1.0`, `i128::MIN`-like overflow to −∞ at 136 bits for f32 -/
example : floatFromBInt fmtF64 64 false (2 ^ 64 - 1) = .ok 0xbff0000000000000 := by decide
example : floatFromBInt fmtF32 136 true (2 ^ 135) = .ok 0xff800000 := by decide

/-- on digit lists (`S` = two's-complement value of the digit list) -/
theorem floatFromInt_digits {F : FloatFmt} (hF : F.Valid) {w n : Nat} (hw : 1 ≤ w) (hn : 1 ≤ n)
    (dbg : Bool) {a : List Nat} (ha : WF w n a) :
    floatFromBInt F (w * n) dbg (U w a) = .ok (intToFloat F.spec (S w a)) := by
  have hpat := U_lt ha
  unfold M at hpat
  have hW : 1 ≤ w * n := Nat.mul_pos hw hn
  rw [floatFromBInt_spec hF hW dbg hpat, S_def, ha.1]; rfl

/-- "SIGNED infinity when the magnitude exceeds the largest finite float": a `BInt` whose magnitude is at or
    above the threshold is cast to −∞ when negative (sign bit + the infinity pattern), +∞ otherwise. -/
theorem floatFromInt_overflow {F : FloatFmt} (hF : F.Valid) (hpe : F.p + 1 ≤ F.emax) {W : Nat} (hW : 1 ≤ W)
    (dbg : Bool) {pat : Nat} (hpat : pat < 2 ^ W)
    (h : 2 ^ F.emax - 2 ^ (F.emax - F.p - 1) ≤ (toInt (2 ^ W) pat).natAbs) :
    floatFromBInt F W dbg pat =
      .ok (if toInt (2 ^ W) pat < 0 then 2 ^ (F.bits - 1) + infinity F else infinity F) := by
  rw [floatFromInt_spec hF hW dbg hpat, intToFloat_overflow ((overflow_threshold hF hpe _).2 h),
    infinity_eq hF]; rfl
/-- `-(2^128 − 2^103)` as a 136-bit `BInt` ↦ −∞ (by rounding), one less in magnitude ↦ `-f32::MAX` -/
example : 2 ^ fmtF32.emax - 2 ^ (fmtF32.emax - fmtF32.p - 1) ≤ (toInt (2 ^ 136) (2 ^ 136 - (2 ^ 128 - 2 ^ 103))).natAbs := by
  decide
example : floatFromBInt fmtF32 136 true (2 ^ 136 - (2 ^ 128 - 2 ^ 103)) = .ok 0xff800000 ∧
    floatFromBInt fmtF32 136 true (2 ^ 136 - (2 ^ 128 - 2 ^ 103 - 1)) = .ok 0xff7fffff ∧
    2 ^ (fmtF32.bits - 1) + infinity fmtF32 = 0xff800000 := by decide

/-- signed FULL-STRENGTH value statement: below the threshold the result is finite, not a NaN, its sign bit is
    set exactly for negative integers, and its magnitude is EXACTLY `rne p |z|`. -/
theorem floatFromInt_value_exact {F : FloatFmt} (hF : F.Valid) {W : Nat} (hW : 1 ≤ W) (dbg : Bool) {pat : Nat}
    (hpat : pat < 2 ^ W) (hfin : rne F.p (toInt (2 ^ W) pat).natAbs < 2 ^ F.emax) :
    ∃ x, floatFromBInt F W dbg pat = .ok x ∧ x < 2 ^ F.bits ∧
      signOf F.spec x = decide (toInt (2 ^ W) pat < 0) ∧
      Spec.isNaN F.spec x = false ∧ Spec.isInf F.spec x = false ∧
      ExactValue (decodeFinite F.spec x).1 (decodeFinite F.spec x).2 (rne F.p (toInt (2 ^ W) pat).natAbs) :=
  ⟨_, floatFromInt_spec hF hW dbg hpat, intToFloat_finite hF hfin⟩
example : (255 : Nat) < 2 ^ 8 ∧ rne fmtF32.p (toInt (2 ^ 8) 255).natAbs < 2 ^ fmtF32.emax ∧
    toInt (2 ^ 8) 255 < 0 := by decide

/-! ## float → integer -/

/-- `CastFrom<f32/f64> for BUint<N>`: NaN ↦ 0; ±∞ ↦ MAX / 0; otherwise the value truncated toward zero
    and clamped to `[0, 2^W - 1]`.  Full statement (see History in the header). -/
theorem uintFromFloat_spec {F : FloatFmt} (hF : F.Valid) (W : Nat) {x : Nat} (hx : x < 2 ^ F.bits) :
    buintFromFloat F W x = floatToInt F.spec false (2 ^ W) x := buintFromFloat_spec hF W hx

/-- `CastFrom<f32/f64> for BInt<N>`: NaN ↦ 0; ±∞ ↦ MAX / MIN; otherwise the value truncated toward zero
    and clamped to `[-2^(W-1), 2^(W-1) - 1]`; the result is the two's-complement pattern. -/
theorem intFromFloat_spec {F : FloatFmt} (hF : F.Valid) {W : Nat} (hW : 1 ≤ W) {x : Nat}
    (hx : x < 2 ^ F.bits) :
    bintFromFloat F W x = floatToInt F.spec true (2 ^ W) x := bintFromFloat_spec hF hW hx

theorem uintFromFloat_f32 (W : Nat) {x : Nat} (hx : x < 2 ^ 32) :
    buintFromFloat fmtF32 W x = floatToInt Spec.f32 false (2 ^ W) x := uintFromFloat_spec valid_f32 W hx
theorem uintFromFloat_f64 (W : Nat) {x : Nat} (hx : x < 2 ^ 64) :
    buintFromFloat fmtF64 W x = floatToInt Spec.f64 false (2 ^ W) x := uintFromFloat_spec valid_f64 W hx
theorem intFromFloat_f32 {W : Nat} (hW : 1 ≤ W) {x : Nat} (hx : x < 2 ^ 32) :
    bintFromFloat fmtF32 W x = floatToInt Spec.f32 true (2 ^ W) x := intFromFloat_spec valid_f32 hW hx
theorem intFromFloat_f64 {W : Nat} (hW : 1 ≤ W) {x : Nat} (hx : x < 2 ^ 64) :
    bintFromFloat fmtF64 W x = floatToInt Spec.f64 true (2 ^ W) x := intFromFloat_spec valid_f64 hW hx

/-- the shape of the unsigned result: NaN ↦ 0, negative (including −0, −∞) ↦ 0, +∞ ↦ MAX,
    otherwise `min ⌊value⌋ MAX` -/
theorem uintFromFloat_cases {F : FloatFmt} (hF : F.Valid) (W : Nat) {x : Nat} (hx : x < 2 ^ F.bits) :
    buintFromFloat F W x =
      if Spec.isNaN F.spec x then 0
      else if signOf F.spec x then 0
      else if Spec.isInf F.spec x then 2 ^ W - 1
      else min (truncOf F.spec x) (2 ^ W - 1) := castUintFromFloat_eq hF W hx

/-- subnormals (and ±0) truncate to zero -/
theorem uintFromFloat_subnormal {F : FloatFmt} (hF : F.Valid) (W : Nat) {x : Nat} (hx : x < 2 ^ F.bits)
    (hE : expField F.spec x = 0) : buintFromFloat F W x = 0 := by
  rw [uintFromFloat_cases hF W hx, truncOf_subnormal hF hx hE]
  have hninf : Spec.isInf F.spec x = false := by
    have := (emax_facts hF).2.1
    unfold Spec.isInf; rw [hE]
    show ((0 : Nat) == 2 * F.emax - 1 && _) = false
    have h0 : ((0 : Nat) == 2 * F.emax - 1) = false := by simp; omega
    rw [h0]; rfl
  rw [hninf]; simp
example : expField fmtF32.spec 0x007fffff = 0 := by decide

/-- instances: NaN payloads, ±0, ±∞, the largest subnormal, values at `2^W` and `2^(W-1)` -/
example : buintFromFloat fmtF32 24 0x7fc00000 = 0 ∧ buintFromFloat fmtF32 24 0xffffffff = 0 ∧
    bintFromFloat fmtF64 24 0x7ff0000000000001 = 0 := by decide
example : buintFromFloat fmtF32 24 0x80000000 = 0 ∧ bintFromFloat fmtF32 24 0x80000000 = 0 ∧
    buintFromFloat fmtF32 24 0x007fffff = 0 := by decide
example : buintFromFloat fmtF32 24 0x7f800000 = 2 ^ 24 - 1 ∧ buintFromFloat fmtF32 24 0xff800000 = 0 ∧
    bintFromFloat fmtF64 24 0x7ff0000000000000 = 2 ^ 23 - 1 ∧
    bintFromFloat fmtF64 24 0xfff0000000000000 = 2 ^ 23 := by decide
/-- `2^24 as u24 = MAX`, `2^23 as i24 = MAX`, `-2^23 as i24 = MIN`, `-(2^23+1) as i24 = MIN` -/
example : buintFromFloat fmtF32 24 0x4b800000 = 2 ^ 24 - 1 ∧ bintFromFloat fmtF32 24 0x4b000000 = 2 ^ 23 - 1 ∧
    bintFromFloat fmtF32 24 0xcb000000 = 2 ^ 23 ∧ bintFromFloat fmtF32 24 0xcb000001 = 2 ^ 23 := by decide
/-- truncation toward zero: `2.5 ↦ 2`, `-2.5 ↦ -2`, `-100000.5f64 as i24` -/
example : buintFromFloat fmtF32 8 0x40200000 = 2 ∧ bintFromFloat fmtF32 8 0xc0200000 = 2 ^ 8 - 2 ∧
    bintFromFloat fmtF64 24 0xc0f86a0800000000 = 2 ^ 24 - 100000 := by decide

/-- regression for finding F3 (see History): `0.75f32`, `0.99999994f32`, `-0.75f32` now truncate to 0 -/
theorem from_f32_regression :
    buintFromFloat fmtF32 8 0x3f400000 = 0 ∧ buintFromFloat fmtF32 8 0x3f7fffff = 0 ∧
      bintFromFloat fmtF32 8 0xbf400000 = 0 := by decide

/-! ## digit level (Model/FloatD.lean): the same statements on digit lists

  `w = 2^s` for the integer → float direction (the digit index arithmetic of `BUint::bit` uses
  `>> BIT_SHIFT` / `& (BITS-1)`); `s < 32` covers every digit type (u8 … u64: `s = 3 … 6`).
  The float → integer direction holds for every digit width. -/

/-- digit-level `CastFrom<BUint<N>> for f32/f64`: never panics (either build mode) and returns the
    pattern of `rne p (U a)` / +∞ -/
theorem floatFromUint_specD {F : FloatFmt} (hF : F.Valid) {s n : Nat} (hs : s < 32) (dbg : Bool)
    {a : List Nat} (ha : WF (2 ^ s) n a) :
    FltD.floatFromBUint F dbg (2 ^ s) a = .ok (natToFloat F.spec (U (2 ^ s) a)) := by
  rw [FltD.floatFromBUint_refines (by have := hF.hp; omega) hs dbg ha]
  exact castFloatFromUint_spec hF _ dbg _
/-- `2^24 + 1` as `BUint<4>` over u8 digits ↦ `2^24` (tie to even), `u32::MAX`-like carry over u16 digits -/
example : FltD.floatFromBUint fmtF32 true 8 [1, 0, 0, 1] = .ok 0x4b800000 := by decide
example : FltD.floatFromBUint fmtF32 false 16 [0xffff, 0xffff] = .ok 0x4f800000 := by decide

/-- digit-level `CastFrom<BInt<N>> for f32/f64` -/
theorem floatFromInt_specD {F : FloatFmt} (hF : F.Valid) {s n : Nat} (hs1 : 1 ≤ s) (hs : s < 32)
    (hn : 1 ≤ n) (dbg : Bool) {a : List Nat} (ha : WF (2 ^ s) n a) :
    FltD.floatFromBInt F dbg (2 ^ s) a = .ok (intToFloat F.spec (S (2 ^ s) a)) := by
  rw [FltD.floatFromBInt_refines (by have := hF.hp; omega) hs1 hs hn dbg ha]
  exact floatFromInt_digits hF (Nat.pow_pos (by decide)) hn dbg ha
/-- `-1` as `BInt<2>` over u8 digits ↦ `-1.0f64` -/
example : FltD.floatFromBInt fmtF64 true 8 [0xff, 0xff] = .ok 0xbff0000000000000 := by decide

/-- digit-level `CastFrom<f32/f64> for BUint<N>`: never panics, well-formed digits, and the value is
    NaN ↦ 0, ±∞ ↦ MAX / 0, else the truncated value clamped to `[0, MAX]` -/
theorem uintFromFloat_specD {F : FloatFmt} (hF : F.Valid) (dbg : Bool) {w n : Nat} (hw : 1 ≤ w) (hn : 1 ≤ n)
    {x : Nat} (hx : x < 2 ^ F.bits) :
    ∃ r, FltD.buintFromFloat F dbg w n x = .ok r ∧ WF w n r ∧
      U w r = floatToInt F.spec false (M w n) x := by
  obtain ⟨r, h1, h2, h3⟩ := FltD.buintFromFloat_refines hF dbg hw hn hx
  exact ⟨r, h1, h2, by rw [h3, buintFromFloat_spec hF _ hx]; rfl⟩
example : FltD.buintFromFloat fmtF32 true 8 3 0x4b000001 = .ok [1, 0, 0x80] := by decide
example : FltD.buintFromFloat fmtF32 true 8 3 0x3f400000 = .ok [0, 0, 0] := by decide

/-- digit-level `CastFrom<f32/f64> for BInt<N>`: never panics (the unsuffixed `-` cannot overflow), and
    the two's-complement pattern / signed value is NaN ↦ 0, ±∞ ↦ MAX / MIN, else the truncated value
    clamped to `[MIN, MAX]` -/
theorem intFromFloat_specD {F : FloatFmt} (hF : F.Valid) (dbg : Bool) {w n : Nat} (hw : 2 ≤ w) (hn : 1 ≤ n)
    {x : Nat} (hx : x < 2 ^ F.bits) :
    ∃ r, FltD.bintFromFloat F dbg w n x = .ok r ∧ WF w n r ∧
      U w r = floatToInt F.spec true (M w n) x ∧
      S w r = toInt (M w n) (floatToInt F.spec true (M w n) x) := by
  obtain ⟨r, h1, h2, h3⟩ := FltD.bintFromFloat_refines hF dbg hw hn hx
  have hW : 1 ≤ w * n := Nat.mul_pos (by omega) hn
  have hu : U w r = floatToInt F.spec true (M w n) x := by
    rw [h3, bintFromFloat_spec hF hW hx]; rfl
  exact ⟨r, h1, h2, hu, by rw [S_eq h2, hu]⟩
/-- `-(2^23 + 1) as i24 = MIN`, `-2.5 as i16 = -2` (u8 digits) -/
example : FltD.bintFromFloat fmtF32 true 8 3 0xcb000001 = .ok [0, 0, 0x80] := by decide
example : FltD.bintFromFloat fmtF32 false 8 2 0xc0200000 = .ok [0xfe, 0xff] := by decide

/-- digit-level unsigned overflow: a `BUint<N>` at or above the threshold ↦ +∞, in either build mode -/
theorem floatFromUint_overflowD {F : FloatFmt} (hF : F.Valid) (hpe : F.p + 1 ≤ F.emax) {s n : Nat} (hs : s < 32)
    (dbg : Bool) {a : List Nat} (ha : WF (2 ^ s) n a)
    (h : 2 ^ F.emax - 2 ^ (F.emax - F.p - 1) ≤ U (2 ^ s) a) :
    FltD.floatFromBUint F dbg (2 ^ s) a = .ok (infinity F) := by
  rw [floatFromUint_specD hF hs dbg ha, infinity_eq hF]
  exact congrArg _ (encodeNat_overflow ((overflow_threshold hF hpe _).2 h))
/-- `2^128 − 2^103` as `BUintD8<17>` ↦ +∞ -/
example : FltD.floatFromBUint fmtF32 true 8 ([0, 0, 0, 0, 0, 0, 0, 0, 0, 0, 0, 0, 0x80] ++ [0xff, 0xff, 0xff, 0]) =
    .ok (infinity fmtF32) := by decide

/-- digit-level signed overflow: a `BInt<N>` whose magnitude is at or above the threshold ↦ −∞ / +∞ by sign -/
theorem floatFromInt_overflowD {F : FloatFmt} (hF : F.Valid) (hpe : F.p + 1 ≤ F.emax) {s n : Nat} (hs1 : 1 ≤ s)
    (hs : s < 32) (hn : 1 ≤ n) (dbg : Bool) {a : List Nat} (ha : WF (2 ^ s) n a)
    (h : 2 ^ F.emax - 2 ^ (F.emax - F.p - 1) ≤ (S (2 ^ s) a).natAbs) :
    FltD.floatFromBInt F dbg (2 ^ s) a =
      .ok (if S (2 ^ s) a < 0 then 2 ^ (F.bits - 1) + infinity F else infinity F) := by
  rw [floatFromInt_specD hF hs1 hs hn dbg ha, intToFloat_overflow ((overflow_threshold hF hpe _).2 h),
    infinity_eq hF]; rfl
/-- `-(2^128 − 2^103)` as `BIntD8<17>` ↦ −∞ -/
example : FltD.floatFromBInt fmtF32 false 8 ([0, 0, 0, 0, 0, 0, 0, 0, 0, 0, 0, 0, 0x80] ++ [0, 0, 0, 0xff]) =
    .ok 0xff800000 := by decide

end Bnum.C14
