/-
  C12 — "For every bnum integer value and every combination of minimum width, fill and alignment,
  '+', '#' and '0' flags, the Display, Debug, Binary, Octal, LowerHex, UpperHex, LowerExp and
  UpperExp implementations produce exactly the text Rust's formatter produces for a primitive
  integer holding the same value, and for widths beyond 128 bits the same rules applied to the
  wider value: signed decimal for Display/Debug, the two's-complement bit pattern for binary,
  octal and hex, and d.ddde<k> with trailing zeros trimmed for the exponent forms."

  Shape of the argument.  Both bnum and core's primitive implementations end in one call
  `f.pad_integral(is_nonnegative, prefix, buf)`.  `Spec.Fmt.primTriple t signed W z` is the triple
  core's implementation of trait `t` computes for the `W`-bit primitive holding `z` (written from
  library/core/src/fmt/num.rs, extended verbatim to every `W`).  The theorems prove that bnum's
  implementation computes THE SAME TRIPLE for every value, so the texts agree for every width / fill /
  alignment / `+` / `#` / `0`, because both sides then run the same `pad_integral`.

  MODELLED, NOT VERIFIED: `Formatter::pad_integral` / `padding` themselves (`Fmt.padIntegral`,
  transcribed from library/core/src/fmt/mod.rs), the primitive `{:b}`/`{:x}`/`{:X}`/`{:01$x}` of
  one `$Digit` and `{}` of the `usize` exponent (`Fmt.primRadix`, `Fmt.primDec`), and the `str`
  helpers used by `exp_fmt!`.  They are the trusted leaf layer; the model was compared with real
  `rustc` output (`format!` of i8/u8/i64/u128/i128, all 56 flag combinations × 8 traits × 7 widths,
  410 816 cases, no difference).  The theorems are independent of what `padIntegral` does: it occurs
  on both sides as the same function applied to equal arguments (`sanity` section: it does behave
  like a minimum-width padder — in CHARS: `pad_chars`, `fmt_width_in_chars`; fills of 1, 2, 3 and 4
  UTF-8 bytes are compared with rustc's `pad_integral` on every run, flag classes `d s o e u g`).  Outside C12 (flags bnum never reads): precision (core's
  `{:.2e}` rounds, bnum ignores it) and `{:x?}`/`{:X?}` (core's Debug switches to hex, bnum does not).

  Hypotheses.  `WF w n a` (an `n`-digit value with `w`-bit digits); `1 ≤ w`; `4 ∣ w` for the hex forms
  (`HEX_PADDING = BITS / 4`; every real digit type has `w ∈ {8,16,32,64}`); `8 ≤ w`, `1 ≤ n` for the
  forms that go through `to_str_radix` (C11: `UI.toStrRadix_spec` of Lemmas/Radix.lean, proved by
  lean-c10c11; the versions in Lemmas/Fmt.lean take it as the explicit hypothesis
  `Fmt.ToStrRadixCanonical` instead); `w * n < 2^64` for the exponent forms (the exponent is a
  `usize`).  Signed theorems need `2 ≤ w`.
-/
import Bnum.Lemmas.Fmt
import Bnum.Lemmas.Radix
import Bnum.Lemmas.C12Extra
namespace Bnum.C12
open Bnum Bnum.Fmt
open Bnum.Spec.Fmt
open Bnum.Drive.C12 (runModel runSpec)

/-- the bytes of an ASCII string literal (used in the `example`s only) -/
def str (s : String) : List Nat := s.toList.map Char.toNat

/-! ### content of the power-of-two radix forms: the numeral of the bit pattern -/

/-- "the two's-complement bit pattern for … hex": the per-digit `{:x}` / `{:01$x}` concatenation is
    the canonical base-16 numeral of the whole value (no leading zeros, `"0"` for zero) -/
theorem lower_hex_content (fl : Flags) {w n : Nat} {a : List Nat} (hw : 1 ≤ w) (hw4 : 4 ∣ w)
    (ha : WF w n a) :
    UI.fmtLowerHex fl w a = .ok (padIntegral fl true [48, 120] (numeral 16 (U w a))) :=
  lowerHex_eq fl hw hw4 ha
example : (1 ≤ 8 ∧ 4 ∣ 8 ∧ WF 8 3 [0x34, 0x02, 0xab]) ∧
    UI.fmtLowerHex { alternate := true, zeroPad := true, width := 12 } 8 [0x34, 0x02, 0xab]
      = .ok (str "0x0000ab0234") := by decide

theorem upper_hex_content (fl : Flags) {w n : Nat} {a : List Nat} (hw : 1 ≤ w) (hw4 : 4 ∣ w)
    (ha : WF w n a) :
    UI.fmtUpperHex fl w a = .ok (padIntegral fl true [48, 120] (numeralUpper 16 (U w a))) :=
  upperHex_eq fl hw hw4 ha
example : (1 ≤ 8 ∧ 4 ∣ 8 ∧ WF 8 3 [0x34, 0x02, 0xab]) ∧
    UI.fmtUpperHex { fill := [42], align := some .center, width := 9 } 8 [0x34, 0x02, 0xab]
      = .ok (str "*AB0234**") := by decide

theorem binary_content (fl : Flags) {w n : Nat} {a : List Nat} (hw : 1 ≤ w) (ha : WF w n a) :
    UI.fmtBinary fl w a = .ok (padIntegral fl true [48, 98] (numeral 2 (U w a))) :=
  binary_eq fl hw ha
example : (1 ≤ 8 ∧ WF 8 2 [0x05, 0x02]) ∧
    UI.fmtBinary { signPlus := true, alternate := true } 8 [0x05, 0x02]
      = .ok (str "+0b1000000101") := by decide

/-- interior zero padding = positional-numeral concatenation: for `r^k = B` this is one step of
    the `fmt_method!` loop (`hi` = the more significant digits, `lo` = the next digit) -/
theorem numeral_concat {r k hi lo : Nat} (hr : 2 ≤ r) (hk : 1 ≤ k) (hhi : 0 < hi)
    (hlo : lo < r ^ k) :
    numeral r (hi * r ^ k + lo)
      = numeral r hi ++ (List.replicate (k - (numeral r lo).length) 48 ++ numeral r lo) :=
  Fmt.numeral_concat hr hk hhi hlo
example : (2 ≤ 16 ∧ 1 ≤ 2 ∧ 0 < 0xab ∧ 0x02 < 16 ^ 2) ∧
    numeral 16 (0xab * 16 ^ 2 + 0x02) = str "ab02" := by decide

/-! ### content of the forms that go through `to_str_radix` -/

theorem octal_content (fl : Flags) {w n : Nat} {a : List Nat} (hw8 : 8 ≤ w) (hn : 1 ≤ n)
    (ha : WF w n a) :
    UI.fmtOctal fl w a = .ok (padIntegral fl true [48, 111] (numeral 8 (U w a))) :=
  octal_eq fl (UI.toStrRadix_spec hn hw8 ha (by omega) (by omega))
example : (8 ≤ 8 ∧ 1 ≤ 3 ∧ WF 8 3 [0x40, 0xe2, 0x01]) ∧
    UI.fmtOctal { alternate := true, zeroPad := true, width := 10 } 8 [0x40, 0xe2, 0x01]
      = .ok (str "0o00361100") := by decide

theorem display_content (fl : Flags) {w n : Nat} {a : List Nat} (hw8 : 8 ≤ w) (hn : 1 ≤ n)
    (ha : WF w n a) :
    UI.fmtDisplay fl w a = .ok (padIntegral fl true [] (numeral 10 (U w a))) :=
  display_eq fl (UI.toStrRadix_spec hn hw8 ha (by omega) (by omega))
example : (8 ≤ 8 ∧ 1 ≤ 3 ∧ WF 8 3 [0x40, 0xe2, 0x01]) ∧
    UI.fmtDisplay { fill := [0xe2, 0x82, 0xac], align := some .center, signPlus := true, width := 10 } 8
      [0x40, 0xe2, 0x01] = .ok ([0xe2, 0x82, 0xac] ++ str "+123456" ++ [0xe2, 0x82, 0xac, 0xe2, 0x82, 0xac]) := by
  decide

/-- `Debug` forwards to `Display` (`BUint` and `BInt`), for every formatter state -/
theorem debug_is_display (fl : Flags) (w : Nat) (a : List Nat) :
    UI.fmtDebug fl w a = UI.fmtDisplay fl w a ∧ II.fmtDebug fl w a = II.fmtDisplay fl w a :=
  ⟨rfl, rfl⟩
example : UI.fmtDebug { alternate := true, width := 5 } 8 [0x2a, 0x00] = .ok (str "   42") ∧
    II.fmtDebug { alternate := true, width := 5 } 8 [0xd6, 0xff] = .ok (str "  -42") := by decide

/-- `LowerExp` / `UpperExp` of `BUint` (`e` = `101` / `69`): the text core's `exp_u*` builds -/
theorem exp_content (e : Nat) (fl : Flags) {w n : Nat} {a : List Nat} (hw8 : 8 ≤ w) (hn : 1 ≤ n)
    (hW : w * n < 2 ^ 64) (ha : WF w n a) :
    UI.fmtExp [e] fl w a = .ok (padIntegral fl true [] (expText e (U w a))) :=
  exp_eq e fl ha hW (UI.toStrRadix_spec hn hw8 ha (by omega) (by omega))
example : (8 ≤ 8 ∧ 1 ≤ 2 ∧ 8 * 2 < 2 ^ 64 ∧ WF 8 2 [0xb0, 0x04]) ∧
    UI.fmtLowerExp {} 8 [0xb0, 0x04] = .ok (str "1.2e3") := by decide

/-! ### the meaning of the exponent text (`Spec.Fmt.expText`): `d.ddde<k>`, zeros trimmed -/

/-- `"0e0"` for zero -/
theorem exp_text_zero (e : Nat) : expText e 0 = [48, e, 48] := Fmt.expText_zero e

/-- for `v > 0`, with `k = ilog10 v` and `(c, q) = strip k v` (mantissa integer, fraction length):
    the text is the first digit of `c`, then — if `q ≠ 0` — `.` and the other `q` digits of `c`,
    then `e` and the decimal numeral of `k` -/
theorem exp_text_form {v : Nat} (hv : 0 < v) (e : Nat) :
    expText e v
      = (numeral 10 (strip (ilog10 v) v).1).take 1
        ++ (if (strip (ilog10 v) v).2 = 0 then []
            else 46 :: (numeral 10 (strip (ilog10 v) v).1).drop 1)
        ++ [e] ++ numeral 10 (ilog10 v) := Fmt.expText_eq hv e

/-- `k` is the decimal exponent, `c · 10^(k-q) = v`, `c` has exactly `q + 1` digits, and trailing
    zeros are trimmed (`c` does not end in `0` unless it is a single digit) -/
theorem exp_text_value {v : Nat} (hv : 0 < v) :
    (10 ^ ilog10 v ≤ v ∧ v < 10 ^ (ilog10 v + 1)) ∧
    ((strip (ilog10 v) v).2 ≤ ilog10 v ∧
      (strip (ilog10 v) v).1 * 10 ^ (ilog10 v - (strip (ilog10 v) v).2) = v) ∧
    (10 ^ (strip (ilog10 v) v).2 ≤ (strip (ilog10 v) v).1 ∧
      (strip (ilog10 v) v).1 < 10 ^ ((strip (ilog10 v) v).2 + 1)) ∧
    ((strip (ilog10 v) v).2 ≠ 0 → (strip (ilog10 v) v).1 % 10 ≠ 0) :=
  ⟨ilog10_spec hv, strip_value _ _, strip_range hv, strip_no_trailing_zero _ _⟩
example : (0 < 1230) ∧ ilog10 1230 = 3 ∧ strip 3 1230 = (123, 2) ∧
    expText 101 1230 = str "1.23e3" := by decide

/-! ### `BInt`: sign and magnitude for Display/Debug/Exp, raw bits for the radix forms -/

theorem display_signed (fl : Flags) {w n : Nat} {a : List Nat} (hw8 : 8 ≤ w) (hn : 1 ≤ n)
    (ha : WF w n a) :
    II.fmtDisplay fl w a
      = .ok (padIntegral fl (decide (0 ≤ S w a)) [] (numeral 10 (S w a).natAbs)) :=
  display_eq_signed fl (by omega) hn ha
    (UI.toStrRadix_spec hn hw8 (II.unsignedAbs_spec (by omega) hn ha).1 (by omega) (by omega))
example : (8 ≤ 8 ∧ 1 ≤ 2 ∧ WF 8 2 [0x00, 0x80]) ∧
    II.fmtDisplay { zeroPad := true, width := 8 } 8 [0x00, 0x80]
      = .ok (str "-0032768") := by decide

theorem exp_signed (e : Nat) (fl : Flags) {w n : Nat} {a : List Nat} (hw8 : 8 ≤ w) (hn : 1 ≤ n)
    (hW : w * n < 2 ^ 64) (ha : WF w n a) :
    (UI.fmtExp [e] {} w (II.unsignedAbs w a)).map (padIntegral fl (!isNegative w a) [])
      = .ok (padIntegral fl (decide (0 ≤ S w a)) [] (expText e (S w a).natAbs)) :=
  exp_eq_signed e fl (by omega) hn ha hW
    (UI.toStrRadix_spec hn hw8 (II.unsignedAbs_spec (by omega) hn ha).1 (by omega) (by omega))

example : (8 ≤ 8 ∧ 1 ≤ 2 ∧ 8 * 2 < 2 ^ 64 ∧ WF 8 2 [0x50, 0xfb]) ∧ S 8 [0x50, 0xfb] = -1200 ∧
    (UI.fmtExp [101] {} 8 (II.unsignedAbs 8 [0x50, 0xfb])).map
        (padIntegral { width := 7 } (!isNegative 8 [0x50, 0xfb]) []) = .ok (str " -1.2e3") := by decide

/-- `<BInt as LowerExp>::fmt` / `<BInt as UpperExp>::fmt` themselves: sign of the value, exponent
    text of the magnitude (`MIN` included: `unsigned_abs` does not overflow) -/
theorem lower_exp_signed (fl : Flags) {w n : Nat} {a : List Nat} (hw8 : 8 ≤ w) (hn : 1 ≤ n)
    (hW : w * n < 2 ^ 64) (ha : WF w n a) :
    II.fmtLowerExp fl w a
      = .ok (padIntegral fl (decide (0 ≤ S w a)) [] (expText 101 (S w a).natAbs)) :=
  exp_signed 101 fl hw8 hn hW ha
theorem upper_exp_signed (fl : Flags) {w n : Nat} {a : List Nat} (hw8 : 8 ≤ w) (hn : 1 ≤ n)
    (hW : w * n < 2 ^ 64) (ha : WF w n a) :
    II.fmtUpperExp fl w a
      = .ok (padIntegral fl (decide (0 ≤ S w a)) [] (expText 69 (S w a).natAbs)) :=
  exp_signed 69 fl hw8 hn hW ha
example : (8 ≤ 8 ∧ 1 ≤ 2 ∧ 8 * 2 < 2 ^ 64 ∧ WF 8 2 [0x00, 0x80]) ∧ S 8 [0x00, 0x80] = -32768 ∧
    II.fmtLowerExp { zeroPad := true, width := 12 } 8 [0x00, 0x80] = .ok (str "-0003.2768e4") ∧
    II.fmtUpperExp { signPlus := true } 8 [0x10, 0x27] = .ok (str "+1E4") := by decide

/-- the radix forms of `BInt` print the raw bits -/
theorem radix_signed (fl : Flags) (w : Nat) (a : List Nat) :
    II.fmtBinary fl w a = UI.fmtBinary fl w a ∧ II.fmtOctal fl w a = UI.fmtOctal fl w a ∧
    II.fmtLowerHex fl w a = UI.fmtLowerHex fl w a ∧ II.fmtUpperHex fl w a = UI.fmtUpperHex fl w a :=
  ⟨rfl, rfl, rfl, rfl⟩
example : S 8 [0xff, 0xff] = -1 ∧ II.fmtLowerHex { alternate := true } 8 [0xff, 0xff] = .ok (str "0xffff") ∧
    II.fmtBinary {} 8 [0xfe, 0xff] = .ok (str "1111111111111110") ∧
    II.fmtOctal {} 8 [0xff, 0xff] = .ok (str "177777") := by decide

/-! ### C12: the triple handed to `pad_integral` is the primitive's triple — all 8 traits -/

/-- `BUint<N>`: for every trait `t` and every formatter state `fl`, the text is core's
    `pad_integral` applied to the triple core computes for an unsigned `w·n`-bit primitive holding
    the same value.  (`runModel false t` is `UI.fmtDisplay`/…/`UI.fmtUpperExp`; `runSpec false t fl W z`
    is `padIntegral fl` of `Spec.Fmt.primTriple t false W z`.) -/
theorem fmt_unsigned (t : Trait) (fl : Flags) {w n : Nat} {a : List Nat} (hw8 : 8 ≤ w)
    (hw4 : 4 ∣ w) (hn : 1 ≤ n) (hW : w * n < 2 ^ 64) (ha : WF w n a) :
    runModel false t fl w a = .ok (runSpec false t fl (w * n) (U w a : Int)) :=
  runModel_unsigned t fl (by omega) hw4 hW ha
    (UI.toStrRadix_spec hn hw8 ha (by omega) (by omega))
    (UI.toStrRadix_spec hn hw8 ha (by omega) (by omega))
example : (8 ≤ 8 ∧ 4 ∣ 8 ∧ 1 ≤ 3 ∧ 8 * 3 < 2 ^ 64 ∧ WF 8 3 [0x40, 0xe2, 0x01]) ∧
    runModel false .octal { alternate := true, fill := [42], align := some .left, width := 10 } 8
      [0x40, 0xe2, 0x01] = .ok (str "0o361100**") := by decide

/-- `BInt<N>`: the same with the two's-complement value `S w a` and core's signed impls
    (`*self >= 0`, `unsigned_abs()` for Display/Debug/Exp; `cast_unsigned()` for the radix forms) -/
theorem fmt_signed (t : Trait) (fl : Flags) {w n : Nat} {a : List Nat} (hw8 : 8 ≤ w)
    (hw4 : 4 ∣ w) (hn : 1 ≤ n) (hW : w * n < 2 ^ 64) (ha : WF w n a) :
    runModel true t fl w a = .ok (runSpec true t fl (w * n) (S w a)) :=
  runModel_signed t fl (by omega) hw4 hn hW ha
    (UI.toStrRadix_spec hn hw8 ha (by omega) (by omega))
    (UI.toStrRadix_spec hn hw8 (II.unsignedAbs_spec (by omega) hn ha).1 (by omega) (by omega))
example : (8 ≤ 8 ∧ 4 ∣ 8 ∧ 1 ≤ 2 ∧ 8 * 2 < 2 ^ 64 ∧ WF 8 2 [0x18, 0xfc]) ∧ S 8 [0x18, 0xfc] = -1000 ∧
    runModel true .upperExp { signPlus := true, width := 6 } 8 [0x18, 0xfc]
      = .ok (str "  -1E3") ∧
    runModel true .lowerHex {} 8 [0x18, 0xfc] = .ok (str "fc18") := by decide

/-- formatting a well-formed value never panics (`to_str_radix` is called with a valid radix, the
    slicing in `exp_fmt!` stays in bounds), in either build mode (the model has no `dbg` input:
    nothing in `fmt.rs` depends on `debug_assertions` once `to_str_radix` is canonical) -/
theorem fmt_never_panics (signed : Bool) (t : Trait) (fl : Flags) {w n : Nat} {a : List Nat}
    (hw8 : 8 ≤ w) (hw4 : 4 ∣ w) (hn : 1 ≤ n) (hW : w * n < 2 ^ 64) (ha : WF w n a) :
    runModel signed t fl w a ≠ .panic := by
  cases signed
  · rw [fmt_unsigned t fl hw8 hw4 hn hW ha]; exact fun h => nomatch h
  · rw [fmt_signed t fl hw8 hw4 hn hW ha]; exact fun h => nomatch h
example : (8 ≤ 8 ∧ 4 ∣ 8 ∧ 1 ≤ 2 ∧ 8 * 2 < 2 ^ 64 ∧ WF 8 2 [0x00, 0x80]) ∧
    runModel true .lowerExp {} 8 [0x00, 0x80] = .ok (str "-3.2768e4") := by decide

/-- the triples themselves (what C12 says core computes), spelled out -/
theorem prim_triple_radix (signed : Bool) (W : Nat) (z : Int) :
    primTriple .binary signed W z = (true, [48, 98], numeral 2 (wrapU (2 ^ W) z)) ∧
    primTriple .octal signed W z = (true, [48, 111], numeral 8 (wrapU (2 ^ W) z)) ∧
    primTriple .lowerHex signed W z = (true, [48, 120], numeral 16 (wrapU (2 ^ W) z)) ∧
    primTriple .upperHex signed W z = (true, [48, 120], numeralUpper 16 (wrapU (2 ^ W) z)) :=
  ⟨rfl, rfl, rfl, rfl⟩
theorem prim_triple_decimal (W : Nat) (z : Int) :
    primTriple .display true W z = (decide (0 ≤ z), [], numeral 10 z.natAbs) ∧
    primTriple .debug true W z = (decide (0 ≤ z), [], numeral 10 z.natAbs) ∧
    primTriple .lowerExp true W z = (decide (0 ≤ z), [], expText 101 z.natAbs) ∧
    primTriple .upperExp true W z = (decide (0 ≤ z), [], expText 69 z.natAbs) :=
  ⟨rfl, rfl, rfl, rfl⟩
/-- unsigned primitives: always non-negative, no prefix, the numeral / exponent text of the value -/
theorem prim_triple_decimal_unsigned (W : Nat) (z : Int) :
    primTriple .display false W z = (true, [], numeral 10 z.natAbs) ∧
    primTriple .debug false W z = (true, [], numeral 10 z.natAbs) ∧
    primTriple .lowerExp false W z = (true, [], expText 101 z.natAbs) ∧
    primTriple .upperExp false W z = (true, [], expText 69 z.natAbs) :=
  ⟨rfl, rfl, rfl, rfl⟩
example : primTriple .lowerHex true 16 (-2) = (true, str "0x", str "fffe") ∧
    primTriple .display true 16 (-1200) = (false, [], str "1200") ∧
    primTriple .upperExp true 16 (-1200) = (false, [], str "1.2E3") ∧
    primTriple .lowerExp false 16 65000 = (true, [], str "6.5e4") := by decide

/-! ### sanity of the `pad_integral` model (it is a minimum-width padder) -/

/-- no padding when the text already has `width` characters (in particular when no width is given) -/
theorem pad_none (fl : Flags) (nn : Bool) (pfx buf : List Nat)
    (h : fl.width ≤ (natural fl nn pfx buf).length) :
    padIntegral fl nn pfx buf = natural fl nn pfx buf := padIntegral_of_le fl nn pfx buf h

/-- otherwise exactly `width` characters (one-byte fill character) -/
theorem pad_length (fl : Flags) (nn : Bool) (pfx buf : List Nat) (hf : fl.fill.length = 1) :
    (padIntegral fl nn pfx buf).length = max fl.width (natural fl nn pfx buf).length :=
  padIntegral_length fl nn pfx buf hf

/-- any fill character (`fill` = its UTF-8 bytes): the byte length.  `width - natural length`
    copies of the fill are written (zeros under the `0` flag, which ignores the fill) -/
theorem pad_length_fill (fl : Flags) (nn : Bool) (pfx buf : List Nat) :
    (padIntegral fl nn pfx buf).length
      = if fl.width ≤ (natural fl nn pfx buf).length then (natural fl nn pfx buf).length
        else if fl.zeroPad then fl.width
        else (natural fl nn pfx buf).length
          + (fl.width - (natural fl nn pfx buf).length) * fl.fill.length :=
  padIntegral_length_fill fl nn pfx buf

/-- the minimum width is counted in chars: with a fill that is ONE char (any number of bytes) and
    an ASCII text (every text of C12 is), the output has exactly `max width (natural length)` chars
    (`chars` = number of bytes that are not UTF-8 continuation bytes) -/
theorem pad_chars (fl : Flags) (nn : Bool) (pfx buf : List Nat) (hf : chars fl.fill = 1)
    (ha : ∀ b ∈ natural fl nn pfx buf, b < 128) :
    chars (padIntegral fl nn pfx buf) = max fl.width (natural fl nn pfx buf).length :=
  padIntegral_chars fl nn pfx buf hf ha
example :
    let fl : Flags := { fill := [0xe2, 0x82, 0xac], align := some .center, alternate := true, width := 9 }
    chars fl.fill = 1 ∧ (∀ b ∈ natural fl true [48, 120] [102, 102], b < 128) ∧
    padIntegral fl true [48, 120] [102, 102]
      = [0xe2, 0x82, 0xac, 0xe2, 0x82, 0xac] ++ str "0xff" ++ [0xe2, 0x82, 0xac, 0xe2, 0x82, 0xac, 0xe2, 0x82, 0xac] ∧
    (padIntegral fl true [48, 120] [102, 102]).length = 19 ∧
    chars (padIntegral fl true [48, 120] [102, 102]) = 9 := by decide

/-- C12's "minimum width" for every fill char: the text core produces for the primitive (hence,
    by `fmt_unsigned` / `fmt_signed`, bnum's text) has exactly `max width (natural length)` chars
    whenever the fill is one char — every triple of C12 is ASCII -/
theorem fmt_width_in_chars (signed : Bool) (t : Trait) (fl : Flags) (W : Nat) (z : Int)
    (hf : chars fl.fill = 1) :
    chars (runSpec signed t fl W z)
      = max fl.width (natural fl (primTriple t signed W z).1 (primTriple t signed W z).2.1
          (primTriple t signed W z).2.2).length :=
  padIntegral_chars fl _ _ _ hf
    (natural_ascii fl _ (primTriple_ascii t signed W z).1 (primTriple_ascii t signed W z).2)
example :
    let fl : Flags := { fill := [0xf0, 0x9d, 0x84, 0x9e], align := some .left, signPlus := true, width := 8 }
    chars fl.fill = 1 ∧ chars (runSpec true .lowerExp fl 16 (-1200)) = 8 ∧
    (runSpec true .lowerExp fl 16 (-1200)).length = 6 + 2 * 4 ∧
    chars (runSpec false .binary { fl with width := 3 } 16 5) = 4 := by decide

/-- the three regimes: as is / zeros after sign and prefix (`0` flag; fill and alignment ignored) /
    fill characters around the text (default alignment: right) -/
theorem pad_form (fl : Flags) (nn : Bool) (pfx buf : List Nat) :
    padIntegral fl nn pfx buf =
      let nat := natural fl nn pfx buf
      if fl.width ≤ nat.length then nat
      else if fl.zeroPad then
        signPrefix fl nn pfx ++ List.replicate (fl.width - nat.length) 48 ++ buf
      else
        let p := padding fl (fl.width - nat.length) .right
        p.1 ++ nat ++ p.2 := padIntegral_eq fl nn pfx buf
example :
    padIntegral { fill := [42], align := some .center, signPlus := true, alternate := true, width := 11 }
      true [48, 120] [102, 102] = str "***+0xff***" ∧
    padIntegral { align := some .left, signPlus := true, alternate := true, zeroPad := true, width := 11 }
      true [48, 120] [102, 102] = str "+0x000000ff" := by decide

end Bnum.C12
