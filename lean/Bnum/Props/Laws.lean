/-
  Bnum.Props.Laws — EXTENSION beyond properties C01–C20: the algebraic laws that users of a
  fixed-width integer type rely on, for `BUint<N>` (`UI.*`) and `BInt<N>` (`II.*`), every digit width
  `w` and digit count `n` (hypotheses `1 ≤ w` / `2 ≤ w`, `1 ≤ n` exactly where the underlying spec
  theorem needs them), all operands well-formed (`WF w n`).

  Every law is an EQUALITY OF DIGIT LISTS (or of `Option` / `Outcome` / pair results built from digit
  lists), obtained as a corollary of the spec theorems of Props/C01 (add/sub/neg, abs_diff, midpoint),
  C02 (mul), C03 (div/rem), C05 (shifts, rotations), C06 (bitwise), C07 (order), C08 (pow): both
  sides are well-formed and denote the same value, hence are identical by `U_injective` /
  `Cmp.S_injective` (helpers: Lemmas/Laws.lean, `Laws.Rep`).

  Sections
   1. `(BUint, wrapping_add, ZERO, wrapping_neg)` is a commutative group; `wrapping_sub`.
   2. `(…, wrapping_mul, ONE)` is a commutative ring — the ring Z/2^BITS.
   3. signed and unsigned wrapping/overflowing add, sub, mul, neg produce the same bit patterns.
   4. `overflowing_add`/`checked_add`/`…_mul` commute as pairs / `Option`s; `checked_add` then
      `checked_sub` round trip.
   5. division: `(a / b) * b + a % b = a` (unsigned; signed truncating and Euclidean, `MIN / -1` excluded).
   6. bitwise: Boolean-algebra laws of and/or/xor/not; two's-complement identity `-a = !a + 1`.
   7. shifts: composition, `shr ∘ shl`, `shl` = multiplication / `shr` = division by `power_of_two`.
   8. rotations: composition, full turn.
   9. order: `le` is a total order; `wrapping_add` monotone without overflow; `max`/`min` lattice.
  10. `abs_diff`, `midpoint` symmetric.
  11. `wrapping_pow`: exponent laws.

  Notes on the statements.
  * `BInt::wrapping_add/sub/mul/pow`, the signed bitwise operators and rotations are written in Rust
    (and modelled) as the unsigned function on the bit pattern, so their laws are the unsigned ones
    (`i_*` theorems proved by the `u_*` ones); `BInt::wrapping_neg`, `BInt::overflowing_add/sub/mul`,
    `cmp`, `abs_diff`, `midpoint`, `div`, `rem` are separate code and get separate proofs.
  * `power_of_two(k)` is specified (C06) for digit widths `w = 2^s`, `s < 32` (all real digit
    types), so the two laws mentioning it are stated for such `w`.
  * "the top `s` bits of `a` are zero" is stated as `s ≤ leading_zeros(a)`.

  NOT PROVED / not stated (no suitable spec lemma, or false as stated):
  * signed `shr (shl a s) s = a` is given with the value-level hypothesis "`a * 2^s` is representable"
    (`repS`); a digit-level form (`s < leading_zeros` / `leading_ones` of the sign run) would need a spec
    lemma relating the signed value range to `leading_ones`, which C06 does not provide.
  * signed `shr a s = a / power_of_two s` is FALSE for negative `a` (shr floors, `/` truncates).
  * `a + b = (a | b) + (a & b)` is not given (core Lean has no `Nat` lemma for it and no Mathlib
    bitwise module is imported); the carry-save form `a + b = (a ^ b) + 2 (a & b)` is (`u_add_eq_xor_add_and`).
  Everything else in the requested list is proved; all theorems depend only on
  `propext`, `Classical.choice`, `Quot.sound` (Audit/Laws.lean).
-/
import Bnum.Lemmas.Laws

namespace Bnum.AlgLaws
open Bnum Bnum.Laws

variable {w n : Nat} {a b c : List Nat}

/-! ## 1. the additive group -/

/-- `a + b = b + a` -/
theorem u_add_comm (ha : WF w n a) (hb : WF w n b) :
    UI.wrappingAdd w a b = UI.wrappingAdd w b a :=
  eq_of_rep' (rep_add (rep_U ha) (rep_U hb)) (rep_add (rep_U hb) (rep_U ha)) (by ring)
theorem i_add_comm (ha : WF w n a) (hb : WF w n b) :
    II.wrappingAdd w a b = II.wrappingAdd w b a := u_add_comm ha hb
example : UI.wrappingAdd 8 [200, 7, 255] [100, 250, 3] = UI.wrappingAdd 8 [100, 250, 3] [200, 7, 255] := by
  decide

/-- `(a + b) + c = a + (b + c)` -/
theorem u_add_assoc (ha : WF w n a) (hb : WF w n b) (hc : WF w n c) :
    UI.wrappingAdd w (UI.wrappingAdd w a b) c = UI.wrappingAdd w a (UI.wrappingAdd w b c) :=
  eq_of_rep' (rep_add (rep_add (rep_U ha) (rep_U hb)) (rep_U hc))
    (rep_add (rep_U ha) (rep_add (rep_U hb) (rep_U hc))) (by ring)
theorem i_add_assoc (ha : WF w n a) (hb : WF w n b) (hc : WF w n c) :
    II.wrappingAdd w (II.wrappingAdd w a b) c = II.wrappingAdd w a (II.wrappingAdd w b c) :=
  u_add_assoc ha hb hc
example : UI.wrappingAdd 8 (UI.wrappingAdd 8 [200, 7, 255] [100, 250, 3]) [17, 0, 128]
    = UI.wrappingAdd 8 [200, 7, 255] (UI.wrappingAdd 8 [100, 250, 3] [17, 0, 128]) := by decide

/-- `a + 0 = a`, `0 + a = a` -/
theorem u_add_zero (ha : WF w n a) : UI.wrappingAdd w a (zero n) = a :=
  eq_of_rep' (rep_add (rep_U ha) (rep_zero w n)) (rep_U ha) (by ring)
theorem u_zero_add (ha : WF w n a) : UI.wrappingAdd w (zero n) a = a :=
  eq_of_rep' (rep_add (rep_zero w n) (rep_U ha)) (rep_U ha) (by ring)
theorem i_add_zero (ha : WF w n a) : II.wrappingAdd w a (zero n) = a := u_add_zero ha
theorem i_zero_add (ha : WF w n a) : II.wrappingAdd w (zero n) a = a := u_zero_add ha
example : UI.wrappingAdd 8 [200, 7, 255] (zero 3) = [200, 7, 255] := by decide

/-- `a + (-a) = 0` (`BUint::wrapping_neg` is `!a + 1`; `BInt::wrapping_neg` is a carry loop) -/
theorem u_add_neg (hw : 1 ≤ w) (hn : 1 ≤ n) (ha : WF w n a) :
    UI.wrappingAdd w a (UI.wrappingNeg w a) = zero n :=
  eq_of_rep' (rep_add (rep_U ha) (rep_neg hw hn (rep_U ha))) (rep_zero w n) (by ring)
theorem i_add_neg (hw : 2 ≤ w) (hn : 1 ≤ n) (ha : WF w n a) :
    II.wrappingAdd w a (II.wrappingNeg w a) = zero n :=
  eq_of_rep' (rep_add (rep_U ha) (rep_ineg hw hn (rep_U ha))) (rep_zero w n) (by ring)
example : UI.wrappingAdd 8 [200, 7, 255] (UI.wrappingNeg 8 [200, 7, 255]) = zero 3 ∧
    II.wrappingAdd 8 [0, 0, 128] (II.wrappingNeg 8 [0, 0, 128]) = zero 3 := by decide

/-- `a - b = a + (-b)` -/
theorem u_sub_eq_add_neg (hw : 1 ≤ w) (hn : 1 ≤ n) (ha : WF w n a) (hb : WF w n b) :
    UI.wrappingSub w a b = UI.wrappingAdd w a (UI.wrappingNeg w b) :=
  eq_of_rep' (rep_sub (rep_U ha) (rep_U hb)) (rep_add (rep_U ha) (rep_neg hw hn (rep_U hb)))
    (by ring)
theorem i_sub_eq_add_neg (hw : 2 ≤ w) (hn : 1 ≤ n) (ha : WF w n a) (hb : WF w n b) :
    II.wrappingSub w a b = II.wrappingAdd w a (II.wrappingNeg w b) :=
  eq_of_rep' (rep_sub (rep_U ha) (rep_U hb)) (rep_add (rep_U ha) (rep_ineg hw hn (rep_U hb)))
    (by ring)
example : UI.wrappingSub 8 [100, 250, 3] [200, 7, 255]
    = UI.wrappingAdd 8 [100, 250, 3] (UI.wrappingNeg 8 [200, 7, 255]) := by decide

/-- `-(-a) = a` (including `a = MIN`) -/
theorem u_neg_neg (hw : 1 ≤ w) (hn : 1 ≤ n) (ha : WF w n a) :
    UI.wrappingNeg w (UI.wrappingNeg w a) = a :=
  eq_of_rep' (rep_neg hw hn (rep_neg hw hn (rep_U ha))) (rep_U ha) (by ring)
theorem i_neg_neg (hw : 2 ≤ w) (hn : 1 ≤ n) (ha : WF w n a) :
    II.wrappingNeg w (II.wrappingNeg w a) = a :=
  eq_of_rep' (rep_ineg hw hn (rep_ineg hw hn (rep_U ha))) (rep_U ha) (by ring)
example : UI.wrappingNeg 8 (UI.wrappingNeg 8 [200, 7, 255]) = [200, 7, 255] ∧
    II.wrappingNeg 8 (II.wrappingNeg 8 [0, 0, 128]) = [0, 0, 128] := by decide

/-- `a - a = 0`, `(a + b) - b = a`, `(a - b) + b = a`, `-(a + b) = (-a) - b`, `-0 = 0` -/
theorem u_sub_self (ha : WF w n a) : UI.wrappingSub w a a = zero n :=
  eq_of_rep' (rep_sub (rep_U ha) (rep_U ha)) (rep_zero w n) (by ring)
theorem u_add_sub_cancel (ha : WF w n a) (hb : WF w n b) :
    UI.wrappingSub w (UI.wrappingAdd w a b) b = a :=
  eq_of_rep' (rep_sub (rep_add (rep_U ha) (rep_U hb)) (rep_U hb)) (rep_U ha) (by ring)
theorem u_sub_add_cancel (ha : WF w n a) (hb : WF w n b) :
    UI.wrappingAdd w (UI.wrappingSub w a b) b = a :=
  eq_of_rep' (rep_add (rep_sub (rep_U ha) (rep_U hb)) (rep_U hb)) (rep_U ha) (by ring)
theorem u_neg_add (hw : 1 ≤ w) (hn : 1 ≤ n) (ha : WF w n a) (hb : WF w n b) :
    UI.wrappingNeg w (UI.wrappingAdd w a b) = UI.wrappingSub w (UI.wrappingNeg w a) b :=
  eq_of_rep' (rep_neg hw hn (rep_add (rep_U ha) (rep_U hb)))
    (rep_sub (rep_neg hw hn (rep_U ha)) (rep_U hb)) (by ring)
theorem u_neg_zero (hw : 1 ≤ w) (hn : 1 ≤ n) : UI.wrappingNeg w (zero n) = zero n :=
  eq_of_rep' (rep_neg hw hn (rep_zero w n)) (rep_zero w n) (by ring)
theorem i_sub_self (ha : WF w n a) : II.wrappingSub w a a = zero n := u_sub_self ha
theorem i_add_sub_cancel (ha : WF w n a) (hb : WF w n b) :
    II.wrappingSub w (II.wrappingAdd w a b) b = a := u_add_sub_cancel ha hb
theorem i_sub_add_cancel (ha : WF w n a) (hb : WF w n b) :
    II.wrappingAdd w (II.wrappingSub w a b) b = a := u_sub_add_cancel ha hb
theorem i_neg_add (hw : 2 ≤ w) (hn : 1 ≤ n) (ha : WF w n a) (hb : WF w n b) :
    II.wrappingNeg w (II.wrappingAdd w a b) = II.wrappingSub w (II.wrappingNeg w a) b :=
  eq_of_rep' (rep_ineg hw hn (rep_add (rep_U ha) (rep_U hb)))
    (rep_sub (rep_ineg hw hn (rep_U ha)) (rep_U hb)) (by ring)
theorem i_neg_zero (hw : 2 ≤ w) (hn : 1 ≤ n) : II.wrappingNeg w (zero n) = zero n :=
  eq_of_rep' (rep_ineg hw hn (rep_zero w n)) (rep_zero w n) (by ring)
example : UI.wrappingSub 8 (UI.wrappingAdd 8 [200, 7, 255] [100, 250, 3]) [100, 250, 3] = [200, 7, 255] := by
  decide

/-! ## 2. the ring Z/2^BITS -/

/-- `a * b = b * a` -/
theorem u_mul_comm (ha : WF w n a) (hb : WF w n b) :
    UI.wrappingMul w a b = UI.wrappingMul w b a :=
  eq_of_rep' (rep_mul (rep_U ha) (rep_U hb)) (rep_mul (rep_U hb) (rep_U ha)) (by ring)
theorem i_mul_comm (ha : WF w n a) (hb : WF w n b) :
    II.wrappingMul w a b = II.wrappingMul w b a := u_mul_comm ha hb
example : UI.wrappingMul 8 [200, 7, 255] [100, 250, 3] = UI.wrappingMul 8 [100, 250, 3] [200, 7, 255] := by
  decide

/-- `(a * b) * c = a * (b * c)` -/
theorem u_mul_assoc (ha : WF w n a) (hb : WF w n b) (hc : WF w n c) :
    UI.wrappingMul w (UI.wrappingMul w a b) c = UI.wrappingMul w a (UI.wrappingMul w b c) :=
  eq_of_rep' (rep_mul (rep_mul (rep_U ha) (rep_U hb)) (rep_U hc))
    (rep_mul (rep_U ha) (rep_mul (rep_U hb) (rep_U hc))) (by ring)
theorem i_mul_assoc (ha : WF w n a) (hb : WF w n b) (hc : WF w n c) :
    II.wrappingMul w (II.wrappingMul w a b) c = II.wrappingMul w a (II.wrappingMul w b c) :=
  u_mul_assoc ha hb hc
example : UI.wrappingMul 8 (UI.wrappingMul 8 [200, 7, 255] [100, 250, 3]) [17, 0, 128]
    = UI.wrappingMul 8 [200, 7, 255] (UI.wrappingMul 8 [100, 250, 3] [17, 0, 128]) := by decide

/-- `a * 1 = a`, `1 * a = a` -/
theorem u_mul_one (hw : 1 ≤ w) (hn : 1 ≤ n) (ha : WF w n a) : UI.wrappingMul w a (one n) = a :=
  eq_of_rep' (rep_mul (rep_U ha) (rep_one hw hn)) (rep_U ha) (by ring)
theorem u_one_mul (hw : 1 ≤ w) (hn : 1 ≤ n) (ha : WF w n a) : UI.wrappingMul w (one n) a = a :=
  eq_of_rep' (rep_mul (rep_one hw hn) (rep_U ha)) (rep_U ha) (by ring)
theorem i_mul_one (hw : 1 ≤ w) (hn : 1 ≤ n) (ha : WF w n a) : II.wrappingMul w a (one n) = a :=
  u_mul_one hw hn ha
theorem i_one_mul (hw : 1 ≤ w) (hn : 1 ≤ n) (ha : WF w n a) : II.wrappingMul w (one n) a = a :=
  u_one_mul hw hn ha
example : UI.wrappingMul 8 [200, 7, 255] (one 3) = [200, 7, 255] := by decide

/-- `a * 0 = 0`, `0 * a = 0` -/
theorem u_mul_zero (ha : WF w n a) : UI.wrappingMul w a (zero n) = zero n :=
  eq_of_rep' (rep_mul (rep_U ha) (rep_zero w n)) (rep_zero w n) (by ring)
theorem u_zero_mul (ha : WF w n a) : UI.wrappingMul w (zero n) a = zero n :=
  eq_of_rep' (rep_mul (rep_zero w n) (rep_U ha)) (rep_zero w n) (by ring)
theorem i_mul_zero (ha : WF w n a) : II.wrappingMul w a (zero n) = zero n := u_mul_zero ha
theorem i_zero_mul (ha : WF w n a) : II.wrappingMul w (zero n) a = zero n := u_zero_mul ha
example : UI.wrappingMul 8 [200, 7, 255] (zero 3) = zero 3 := by decide

/-- `a * (b + c) = a * b + a * c`, `(a + b) * c = a * c + b * c` -/
theorem u_mul_add (ha : WF w n a) (hb : WF w n b) (hc : WF w n c) :
    UI.wrappingMul w a (UI.wrappingAdd w b c)
      = UI.wrappingAdd w (UI.wrappingMul w a b) (UI.wrappingMul w a c) :=
  eq_of_rep' (rep_mul (rep_U ha) (rep_add (rep_U hb) (rep_U hc)))
    (rep_add (rep_mul (rep_U ha) (rep_U hb)) (rep_mul (rep_U ha) (rep_U hc))) (by ring)
theorem u_add_mul (ha : WF w n a) (hb : WF w n b) (hc : WF w n c) :
    UI.wrappingMul w (UI.wrappingAdd w a b) c
      = UI.wrappingAdd w (UI.wrappingMul w a c) (UI.wrappingMul w b c) :=
  eq_of_rep' (rep_mul (rep_add (rep_U ha) (rep_U hb)) (rep_U hc))
    (rep_add (rep_mul (rep_U ha) (rep_U hc)) (rep_mul (rep_U hb) (rep_U hc))) (by ring)
theorem i_mul_add (ha : WF w n a) (hb : WF w n b) (hc : WF w n c) :
    II.wrappingMul w a (II.wrappingAdd w b c)
      = II.wrappingAdd w (II.wrappingMul w a b) (II.wrappingMul w a c) := u_mul_add ha hb hc
theorem i_add_mul (ha : WF w n a) (hb : WF w n b) (hc : WF w n c) :
    II.wrappingMul w (II.wrappingAdd w a b) c
      = II.wrappingAdd w (II.wrappingMul w a c) (II.wrappingMul w b c) := u_add_mul ha hb hc
example : UI.wrappingMul 8 [200, 7, 255] (UI.wrappingAdd 8 [100, 250, 3] [17, 0, 128])
    = UI.wrappingAdd 8 (UI.wrappingMul 8 [200, 7, 255] [100, 250, 3])
        (UI.wrappingMul 8 [200, 7, 255] [17, 0, 128]) := by decide

/-- `a * (b - c) = a * b - a * c`; `-a = a * (-1)` (`-1` = all-ones = `BUint::MAX` = `BInt::NEG_ONE`);
    `(-a) * b = -(a * b)` -/
theorem u_mul_sub (ha : WF w n a) (hb : WF w n b) (hc : WF w n c) :
    UI.wrappingMul w a (UI.wrappingSub w b c)
      = UI.wrappingSub w (UI.wrappingMul w a b) (UI.wrappingMul w a c) :=
  eq_of_rep' (rep_mul (rep_U ha) (rep_sub (rep_U hb) (rep_U hc)))
    (rep_sub (rep_mul (rep_U ha) (rep_U hb)) (rep_mul (rep_U ha) (rep_U hc))) (by ring)
theorem u_neg_eq_mul_max (hw : 1 ≤ w) (hn : 1 ≤ n) (ha : WF w n a) :
    UI.wrappingNeg w a = UI.wrappingMul w a (allOnes w n) :=
  eq_of_rep' (rep_neg hw hn (rep_U ha)) (rep_mul (rep_U ha) (rep_allOnes w n)) (by ring)
theorem i_neg_eq_mul_neg_one (hw : 2 ≤ w) (hn : 1 ≤ n) (ha : WF w n a) :
    II.wrappingNeg w a = II.wrappingMul w a (II.negOne w n) :=
  eq_of_rep' (rep_ineg hw hn (rep_U ha)) (rep_mul (rep_U ha) (rep_allOnes w n)) (by ring)
theorem u_neg_mul (hw : 1 ≤ w) (hn : 1 ≤ n) (ha : WF w n a) (hb : WF w n b) :
    UI.wrappingMul w (UI.wrappingNeg w a) b = UI.wrappingNeg w (UI.wrappingMul w a b) :=
  eq_of_rep' (rep_mul (rep_neg hw hn (rep_U ha)) (rep_U hb))
    (rep_neg hw hn (rep_mul (rep_U ha) (rep_U hb))) (by ring)
theorem i_mul_sub (ha : WF w n a) (hb : WF w n b) (hc : WF w n c) :
    II.wrappingMul w a (II.wrappingSub w b c)
      = II.wrappingSub w (II.wrappingMul w a b) (II.wrappingMul w a c) := u_mul_sub ha hb hc
theorem i_neg_mul (hw : 2 ≤ w) (hn : 1 ≤ n) (ha : WF w n a) (hb : WF w n b) :
    II.wrappingMul w (II.wrappingNeg w a) b = II.wrappingNeg w (II.wrappingMul w a b) :=
  eq_of_rep' (rep_mul (rep_ineg hw hn (rep_U ha)) (rep_U hb))
    (rep_ineg hw hn (rep_mul (rep_U ha) (rep_U hb))) (by ring)
example : II.wrappingNeg 8 [200, 7, 255] = II.wrappingMul 8 [200, 7, 255] (II.negOne 8 3) := by decide

/-! ## 3. signed and unsigned arithmetic produce the same bit patterns -/

/-- the wrapping forms are literally the unsigned functions on the bits … -/
theorem i_wrapping_eq_u (w : Nat) (a b : List Nat) :
    II.wrappingAdd w a b = UI.wrappingAdd w a b ∧ II.wrappingSub w a b = UI.wrappingSub w a b ∧
    II.wrappingMul w a b = UI.wrappingMul w a b := ⟨rfl, rfl, rfl⟩

/-- … and the separately written signed algorithms (`BInt::overflowing_add/sub` with a signed top
    digit, sign-magnitude `overflowing_mul`, the `wrapping_neg` carry loop) compute the same patterns -/
theorem i_overflowing_add_pattern (hw : 2 ≤ w) (hn : 1 ≤ n) (ha : WF w n a) (hb : WF w n b) :
    (II.overflowingAdd w a b).1 = (UI.overflowingAdd w a b).1 :=
  eq_of_rep' (rep_ioadd hw hn (rep_U ha) (rep_U hb)) (rep_add (rep_U ha) (rep_U hb)) rfl
theorem i_overflowing_sub_pattern (hw : 2 ≤ w) (hn : 1 ≤ n) (ha : WF w n a) (hb : WF w n b) :
    (II.overflowingSub w a b).1 = (UI.overflowingSub w a b).1 :=
  eq_of_rep' (rep_iosub hw hn (rep_U ha) (rep_U hb)) (rep_sub (rep_U ha) (rep_U hb)) rfl
theorem i_overflowing_mul_pattern (hw : 2 ≤ w) (hn : 1 ≤ n) (ha : WF w n a) (hb : WF w n b) :
    (II.overflowingMul w a b).1 = (UI.overflowingMul w a b).1 :=
  eq_of_rep' (rep_iomul hw hn (rep_U ha) (rep_U hb)) (rep_mul (rep_U ha) (rep_U hb)) rfl
theorem i_wrapping_neg_pattern (hw : 2 ≤ w) (hn : 1 ≤ n) (ha : WF w n a) :
    II.wrappingNeg w a = UI.wrappingNeg w a :=
  eq_of_rep' (rep_ineg hw hn (rep_U ha)) (rep_neg (by omega) hn (rep_U ha)) rfl
example : (II.overflowingMul 8 [200, 7, 255] [100, 250, 3]).1
    = (UI.overflowingMul 8 [200, 7, 255] [100, 250, 3]).1 ∧
    (II.overflowingAdd 8 [255, 255, 127] [5, 0, 0]).1 = (UI.overflowingAdd 8 [255, 255, 127] [5, 0, 0]).1 := by
  decide

/-! ## 4. overflowing / checked forms -/

/-- `overflowing_add` commutes as a pair (value and flag), hence `checked_add` as an `Option` -/
theorem u_overflowing_add_comm (ha : WF w n a) (hb : WF w n b) :
    UI.overflowingAdd w a b = UI.overflowingAdd w b a :=
  Prod.ext (u_add_comm ha hb) (u_oadd_flag_comm ha hb)
theorem u_checked_add_comm (ha : WF w n a) (hb : WF w n b) :
    UI.checkedAdd w a b = UI.checkedAdd w b a := by
  unfold UI.checkedAdd; rw [u_overflowing_add_comm ha hb]
theorem i_overflowing_add_comm (hw : 2 ≤ w) (hn : 1 ≤ n) (ha : WF w n a) (hb : WF w n b) :
    II.overflowingAdd w a b = II.overflowingAdd w b a :=
  Prod.ext (eq_of_rep' (rep_ioadd hw hn (rep_U ha) (rep_U hb)) (rep_ioadd hw hn (rep_U hb) (rep_U ha))
    (by ring)) (i_oadd_flag_comm hw hn ha hb)
theorem i_checked_add_comm (hw : 2 ≤ w) (hn : 1 ≤ n) (ha : WF w n a) (hb : WF w n b) :
    II.checkedAdd w a b = II.checkedAdd w b a := by
  unfold II.checkedAdd; rw [i_overflowing_add_comm hw hn ha hb]
example : UI.checkedAdd 8 [200, 7, 255] [100, 250, 3] = UI.checkedAdd 8 [100, 250, 3] [200, 7, 255] ∧
    II.checkedAdd 8 [200, 7, 255] [100, 250, 3] = II.checkedAdd 8 [100, 250, 3] [200, 7, 255] := by decide

/-- the same for multiplication -/
theorem u_overflowing_mul_comm (ha : WF w n a) (hb : WF w n b) :
    UI.overflowingMul w a b = UI.overflowingMul w b a :=
  Prod.ext (u_mul_comm ha hb) (u_omul_flag_comm ha hb)
theorem u_checked_mul_comm (ha : WF w n a) (hb : WF w n b) :
    UI.checkedMul w a b = UI.checkedMul w b a := by
  unfold UI.checkedMul; rw [u_overflowing_mul_comm ha hb]
theorem i_overflowing_mul_comm (hw : 2 ≤ w) (hn : 1 ≤ n) (ha : WF w n a) (hb : WF w n b) :
    II.overflowingMul w a b = II.overflowingMul w b a :=
  Prod.ext (eq_of_rep' (rep_iomul hw hn (rep_U ha) (rep_U hb)) (rep_iomul hw hn (rep_U hb) (rep_U ha))
    (by ring)) (i_omul_flag_comm hw hn ha hb)
theorem i_checked_mul_comm (hw : 2 ≤ w) (hn : 1 ≤ n) (ha : WF w n a) (hb : WF w n b) :
    II.checkedMul w a b = II.checkedMul w b a := by
  unfold II.checkedMul; rw [i_overflowing_mul_comm hw hn ha hb]
example : II.overflowingMul 8 [200, 7, 255] [100, 0, 0] = II.overflowingMul 8 [100, 0, 0] [200, 7, 255] := by
  decide

/-- `checked_add(a, b) = Some(c)  ⟹  checked_sub(c, b) = Some(a)` -/
theorem u_checked_add_sub (ha : WF w n a) (hb : WF w n b) (h : UI.checkedAdd w a b = some c) :
    UI.checkedSub w c b = some a := by
  obtain ⟨hc, hv⟩ := (C01.u_checked_add ha hb).2 c h
  obtain ⟨h1, h2⟩ := C01.u_checked_sub hc hb
  have hu := U_lt ha
  cases hs : UI.checkedSub w c b with
  | none => exact absurd (show repU (M w n) ((U w c : Int) - U w b) by unfold repU; omega) (h1.mp hs)
  | some r =>
    obtain ⟨hr, hrv⟩ := h2 r hs
    rw [U_injective hr ha (by omega)]
theorem i_checked_add_sub (hw : 2 ≤ w) (hn : 1 ≤ n) (ha : WF w n a) (hb : WF w n b)
    (h : II.checkedAdd w a b = some c) : II.checkedSub w c b = some a := by
  obtain ⟨hc, hv⟩ := (C01.i_checked_add hw hn ha hb).2 c h
  obtain ⟨h1, h2⟩ := C01.i_checked_sub hw hn hc hb
  have hu := S_repS (by omega) hn ha
  cases hs : II.checkedSub w c b with
  | none => exact absurd (show repS (M w n) (S w c - S w b) by rw [hv]; simpa using hu) (h1.mp hs)
  | some r =>
    obtain ⟨hr, hrv⟩ := h2 r hs
    rw [Cmp.S_injective hr ha (by omega)]
example : UI.checkedAdd 8 [100, 250, 3] [100, 250, 3] = some [200, 244, 7] ∧
    UI.checkedSub 8 [200, 244, 7] [100, 250, 3] = some [100, 250, 3] := by decide

/-! ## 5. division: `(a / b) * b + a % b = a` -/

/-- unsigned, every non-zero divisor -/
theorem u_div_mul_add_rem (hw : 1 ≤ w) (hn : 1 ≤ n) (ha : WF w n a) (hb : WF w n b)
    (hb0 : b ≠ zero n) :
    ∃ q r, UI.div w a b = .ok q ∧ UI.rem w a b = .ok r ∧
      UI.wrappingAdd w (UI.wrappingMul w q b) r = a := by
  obtain ⟨q, r, wq, wr, uq, ur, _, _, _, _, _, _, _, _, _, _, _, _, _, _, hd, hr, _⟩ :=
    C03.u_forms hw hn ha hb (U_ne_zero_of_ne hb hb0)
  refine ⟨q, r, hd, hr, eq_of_rep' (rep_add (rep_mul (rep_U wq) (rep_U hb)) (rep_U wr)) (rep_U ha) ?_⟩
  rw [uq, ur]; exact_mod_cast Nat.div_add_mod' (U w a) (U w b)
example : UI.div 8 [5, 8, 128] [195, 128, 0] = .ok [254, 0, 0] ∧
    UI.rem 8 [5, 8, 128] [195, 128, 0] = .ok [139, 70, 0] ∧
    UI.wrappingAdd 8 (UI.wrappingMul 8 [254, 0, 0] [195, 128, 0]) [139, 70, 0] = [5, 8, 128] := by decide

/-- signed, truncating `/` and `%`, every non-zero divisor except `MIN / -1`
    (in either build profile `dbg`) -/
theorem i_div_mul_add_rem (hw : 2 ≤ w) (hn : 1 ≤ n) (ha : WF w n a) (hb : WF w n b)
    (hb0 : b ≠ zero n) (hov : ¬ (a = iMin w n ∧ b = II.negOne w n)) (dbg : Bool) :
    ∃ q r, II.div dbg w a b = .ok q ∧ II.rem dbg w a b = .ok r ∧
      II.wrappingAdd w (II.wrappingMul w q b) r = a := by
  obtain ⟨q, r, qe, re, wq, wr, wqe, wre, sq, sr, sqe, sre, _, _, _, _, _, _, _, _, _, _, _, _, _,
      hd, hr, _, _⟩ :=
    C03.i_forms hw hn ha hb (S_ne_zero_of_ne hb hb0) (not_min_neg_one (by omega) hn ha hb hov) dbg
  refine ⟨q, r, hd, hr, eq_of_rep' (rep_add (rep_mul (rep_S wq) (rep_S hb)) (rep_S wr)) (rep_S ha) ?_⟩
  rw [sq, sr]; exact Int.tdiv_mul_add_tmod (S w a) (S w b)

/-- signed, `div_euclid` and `rem_euclid` -/
theorem i_div_euclid_mul_add_rem_euclid (hw : 2 ≤ w) (hn : 1 ≤ n) (ha : WF w n a) (hb : WF w n b)
    (hb0 : b ≠ zero n) (hov : ¬ (a = iMin w n ∧ b = II.negOne w n)) (dbg : Bool) :
    ∃ q r, II.divEuclid dbg w a b = .ok q ∧ II.remEuclid dbg w a b = .ok r ∧
      II.wrappingAdd w (II.wrappingMul w q b) r = a := by
  obtain ⟨q, r, qe, re, wq, wr, wqe, wre, sq, sr, sqe, sre, _, _, _, _, _, _, _, _, _, _, _, _, _,
      _, _, hd, hr⟩ :=
    C03.i_forms hw hn ha hb (S_ne_zero_of_ne hb hb0) (not_min_neg_one (by omega) hn ha hb hov) dbg
  refine ⟨qe, re, hd, hr,
    eq_of_rep' (rep_add (rep_mul (rep_S wqe) (rep_S hb)) (rep_S wre)) (rep_S ha) ?_⟩
  rw [sqe, sre]; exact Int.ediv_mul_add_emod (S w a) (S w b)
example : II.div true 8 [0xf9, 0xff, 0xff] [2, 0, 0] = .ok [0xfd, 0xff, 0xff] ∧
    II.rem true 8 [0xf9, 0xff, 0xff] [2, 0, 0] = .ok [0xff, 0xff, 0xff] ∧
    II.wrappingAdd 8 (II.wrappingMul 8 [0xfd, 0xff, 0xff] [2, 0, 0]) [0xff, 0xff, 0xff]
      = [0xf9, 0xff, 0xff] := by decide

/-! ## 6. bitwise operators: a Boolean algebra on the BITS-bit pattern
    (`BInt`'s operators are the `BUint` ones on `self.bits`: the `i_*` forms are the same theorems) -/

/-- commutativity -/
theorem u_and_comm (ha : WF w n a) (hb : WF w n b) : UI.bitand a b = UI.bitand b a :=
  eq_of_testBit (wf_and ha hb) (wf_and hb ha) fun i => by
    rw [tb_and ha hb, tb_and hb ha, Bool.and_comm]
theorem u_or_comm (ha : WF w n a) (hb : WF w n b) : UI.bitor a b = UI.bitor b a :=
  eq_of_testBit (wf_or ha hb) (wf_or hb ha) fun i => by
    rw [tb_or ha hb, tb_or hb ha, Bool.or_comm]
theorem u_xor_comm (ha : WF w n a) (hb : WF w n b) : UI.bitxor a b = UI.bitxor b a :=
  eq_of_testBit (wf_xor ha hb) (wf_xor hb ha) fun i => by
    rw [tb_xor ha hb, tb_xor hb ha, Bool.xor_comm]
theorem i_and_comm (ha : WF w n a) (hb : WF w n b) : II.bitand a b = II.bitand b a := u_and_comm ha hb
theorem i_or_comm (ha : WF w n a) (hb : WF w n b) : II.bitor a b = II.bitor b a := u_or_comm ha hb
theorem i_xor_comm (ha : WF w n a) (hb : WF w n b) : II.bitxor a b = II.bitxor b a := u_xor_comm ha hb
example : UI.bitand [0xf0, 0x3c, 0x81] [0xaa, 0x55, 0xff] = UI.bitand [0xaa, 0x55, 0xff] [0xf0, 0x3c, 0x81] ∧
    UI.bitxor [0xf0, 0x3c, 0x81] [0xaa, 0x55, 0xff] = UI.bitxor [0xaa, 0x55, 0xff] [0xf0, 0x3c, 0x81] := by
  decide

/-- associativity -/
theorem u_and_assoc (ha : WF w n a) (hb : WF w n b) (hc : WF w n c) :
    UI.bitand (UI.bitand a b) c = UI.bitand a (UI.bitand b c) :=
  eq_of_testBit (wf_and (wf_and ha hb) hc) (wf_and ha (wf_and hb hc)) fun i => by
    rw [tb_and (wf_and ha hb) hc, tb_and ha hb, tb_and ha (wf_and hb hc), tb_and hb hc,
      Bool.and_assoc]
theorem u_or_assoc (ha : WF w n a) (hb : WF w n b) (hc : WF w n c) :
    UI.bitor (UI.bitor a b) c = UI.bitor a (UI.bitor b c) :=
  eq_of_testBit (wf_or (wf_or ha hb) hc) (wf_or ha (wf_or hb hc)) fun i => by
    rw [tb_or (wf_or ha hb) hc, tb_or ha hb, tb_or ha (wf_or hb hc), tb_or hb hc, Bool.or_assoc]
theorem u_xor_assoc (ha : WF w n a) (hb : WF w n b) (hc : WF w n c) :
    UI.bitxor (UI.bitxor a b) c = UI.bitxor a (UI.bitxor b c) :=
  eq_of_testBit (wf_xor (wf_xor ha hb) hc) (wf_xor ha (wf_xor hb hc)) fun i => by
    rw [tb_xor (wf_xor ha hb) hc, tb_xor ha hb, tb_xor ha (wf_xor hb hc), tb_xor hb hc,
      Bool.xor_assoc]
theorem i_and_assoc (ha : WF w n a) (hb : WF w n b) (hc : WF w n c) :
    II.bitand (II.bitand a b) c = II.bitand a (II.bitand b c) := u_and_assoc ha hb hc
theorem i_or_assoc (ha : WF w n a) (hb : WF w n b) (hc : WF w n c) :
    II.bitor (II.bitor a b) c = II.bitor a (II.bitor b c) := u_or_assoc ha hb hc
theorem i_xor_assoc (ha : WF w n a) (hb : WF w n b) (hc : WF w n c) :
    II.bitxor (II.bitxor a b) c = II.bitxor a (II.bitxor b c) := u_xor_assoc ha hb hc
example : UI.bitxor (UI.bitxor [0xf0, 0x3c, 0x81] [0xaa, 0x55, 0xff]) [1, 2, 3]
    = UI.bitxor [0xf0, 0x3c, 0x81] (UI.bitxor [0xaa, 0x55, 0xff] [1, 2, 3]) := by decide

/-- idempotence; `a ^ a = 0`; units `a & MAX = a`, `a | 0 = a`, `a ^ 0 = a`; `a & 0 = 0` -/
theorem u_and_self (ha : WF w n a) : UI.bitand a a = a :=
  eq_of_testBit (wf_and ha ha) ha fun i => by rw [tb_and ha ha, Bool.and_self]
theorem u_or_self (ha : WF w n a) : UI.bitor a a = a :=
  eq_of_testBit (wf_or ha ha) ha fun i => by rw [tb_or ha ha, Bool.or_self]
theorem u_xor_self (ha : WF w n a) : UI.bitxor a a = zero n :=
  eq_of_testBit (wf_xor ha ha) (WF_zero w n) fun i => by
    rw [tb_xor ha ha, tb_zero, Bool.xor_self]
theorem u_or_zero (ha : WF w n a) : UI.bitor a (zero n) = a :=
  eq_of_testBit (wf_or ha (WF_zero w n)) ha fun i => by
    rw [tb_or ha (WF_zero w n), tb_zero, Bool.or_false]
theorem u_xor_zero (ha : WF w n a) : UI.bitxor a (zero n) = a :=
  eq_of_testBit (wf_xor ha (WF_zero w n)) ha fun i => by
    rw [tb_xor ha (WF_zero w n), tb_zero, Bool.xor_false]
theorem u_and_zero (ha : WF w n a) : UI.bitand a (zero n) = zero n :=
  eq_of_testBit (wf_and ha (WF_zero w n)) (WF_zero w n) fun i => by
    rw [tb_and ha (WF_zero w n), tb_zero, Bool.and_false]
theorem u_and_max (ha : WF w n a) : UI.bitand a (allOnes w n) = a := by
  obtain ⟨h1, h2⟩ := (C06.logic_spec ha (WF_allOnes w n)).1
  apply U_injective h1 ha
  rw [h2, U_allOnes]; unfold M
  rw [Nat.and_two_pow_sub_one_eq_mod]; exact Nat.mod_eq_of_lt (U_lt ha)
theorem i_and_self (ha : WF w n a) : II.bitand a a = a := u_and_self ha
theorem i_or_self (ha : WF w n a) : II.bitor a a = a := u_or_self ha
theorem i_xor_self (ha : WF w n a) : II.bitxor a a = zero n := u_xor_self ha
theorem i_or_zero (ha : WF w n a) : II.bitor a (zero n) = a := u_or_zero ha
theorem i_xor_zero (ha : WF w n a) : II.bitxor a (zero n) = a := u_xor_zero ha
theorem i_and_zero (ha : WF w n a) : II.bitand a (zero n) = zero n := u_and_zero ha
theorem i_and_neg_one (ha : WF w n a) : II.bitand a (II.negOne w n) = a := u_and_max ha
example : UI.bitxor [0xf0, 0x3c, 0x81] [0xf0, 0x3c, 0x81] = zero 3 ∧
    UI.bitand [0xf0, 0x3c, 0x81] (allOnes 8 3) = [0xf0, 0x3c, 0x81] := by decide

/-- De Morgan; double complement; `a & !a = 0`; `a | !a = MAX` -/
theorem u_not_and (ha : WF w n a) (hb : WF w n b) :
    UI.not w (UI.bitand a b) = UI.bitor (UI.not w a) (UI.not w b) :=
  eq_of_testBit (wf_not (wf_and ha hb)) (wf_or (wf_not ha) (wf_not hb)) fun i => by
    rw [tb_not (wf_and ha hb), tb_and ha hb, tb_or (wf_not ha) (wf_not hb), tb_not ha, tb_not hb]
    generalize decide (i < w * n) = p; generalize (U w a).testBit i = x
    generalize (U w b).testBit i = y
    cases p <;> cases x <;> cases y <;> rfl
theorem u_not_or (ha : WF w n a) (hb : WF w n b) :
    UI.not w (UI.bitor a b) = UI.bitand (UI.not w a) (UI.not w b) :=
  eq_of_testBit (wf_not (wf_or ha hb)) (wf_and (wf_not ha) (wf_not hb)) fun i => by
    rw [tb_not (wf_or ha hb), tb_or ha hb, tb_and (wf_not ha) (wf_not hb), tb_not ha, tb_not hb]
    generalize decide (i < w * n) = p; generalize (U w a).testBit i = x
    generalize (U w b).testBit i = y
    cases p <;> cases x <;> cases y <;> rfl
theorem u_not_not (ha : WF w n a) : UI.not w (UI.not w a) = a :=
  eq_of_testBit (wf_not (wf_not ha)) ha fun i => by
    rw [tb_not (wf_not ha), tb_not ha]
    by_cases hi : i < w * n
    · simp [hi]
    · rw [tb_high ha hi]; simp [hi]
theorem u_and_not_self (ha : WF w n a) : UI.bitand a (UI.not w a) = zero n :=
  eq_of_testBit (wf_and ha (wf_not ha)) (WF_zero w n) fun i => by
    rw [tb_and ha (wf_not ha), tb_not ha, tb_zero]
    generalize decide (i < w * n) = p; generalize (U w a).testBit i = x
    cases p <;> cases x <;> rfl
theorem u_or_not_self (ha : WF w n a) : UI.bitor a (UI.not w a) = allOnes w n :=
  eq_of_testBit (wf_or ha (wf_not ha)) (WF_allOnes w n) fun i => by
    rw [tb_or ha (wf_not ha), tb_not ha, U_allOnes]; unfold M
    rw [Nat.testBit_two_pow_sub_one]
    by_cases hi : i < w * n
    · simp [hi]
    · rw [tb_high ha hi]; simp [hi]
theorem i_not_and (ha : WF w n a) (hb : WF w n b) :
    II.not w (II.bitand a b) = II.bitor (II.not w a) (II.not w b) := u_not_and ha hb
theorem i_not_or (ha : WF w n a) (hb : WF w n b) :
    II.not w (II.bitor a b) = II.bitand (II.not w a) (II.not w b) := u_not_or ha hb
theorem i_not_not (ha : WF w n a) : II.not w (II.not w a) = a := u_not_not ha
theorem i_and_not_self (ha : WF w n a) : II.bitand a (II.not w a) = zero n := u_and_not_self ha
theorem i_or_not_self (ha : WF w n a) : II.bitor a (II.not w a) = II.negOne w n := u_or_not_self ha
example : UI.not 8 (UI.bitand [0xf0, 0x3c, 0x81] [0xaa, 0x55, 0xff])
    = UI.bitor (UI.not 8 [0xf0, 0x3c, 0x81]) (UI.not 8 [0xaa, 0x55, 0xff]) ∧
    UI.not 8 (UI.not 8 [0xf0, 0x3c, 0x81]) = [0xf0, 0x3c, 0x81] := by decide

/-- absorption -/
theorem u_and_or_absorb (ha : WF w n a) (hb : WF w n b) : UI.bitand a (UI.bitor a b) = a :=
  eq_of_testBit (wf_and ha (wf_or ha hb)) ha fun i => by
    rw [tb_and ha (wf_or ha hb), tb_or ha hb]
    generalize (U w a).testBit i = x; generalize (U w b).testBit i = y
    cases x <;> cases y <;> rfl
theorem u_or_and_absorb (ha : WF w n a) (hb : WF w n b) : UI.bitor a (UI.bitand a b) = a :=
  eq_of_testBit (wf_or ha (wf_and ha hb)) ha fun i => by
    rw [tb_or ha (wf_and ha hb), tb_and ha hb]
    generalize (U w a).testBit i = x; generalize (U w b).testBit i = y
    cases x <;> cases y <;> rfl
theorem i_and_or_absorb (ha : WF w n a) (hb : WF w n b) : II.bitand a (II.bitor a b) = a :=
  u_and_or_absorb ha hb
theorem i_or_and_absorb (ha : WF w n a) (hb : WF w n b) : II.bitor a (II.bitand a b) = a :=
  u_or_and_absorb ha hb
example : UI.bitand [0xf0, 0x3c, 0x81] (UI.bitor [0xf0, 0x3c, 0x81] [0xaa, 0x55, 0xff]) = [0xf0, 0x3c, 0x81] := by
  decide

/-- distributivity (both ways), and of `&` over `^` -/
theorem u_and_or_distrib (ha : WF w n a) (hb : WF w n b) (hc : WF w n c) :
    UI.bitand a (UI.bitor b c) = UI.bitor (UI.bitand a b) (UI.bitand a c) :=
  eq_of_testBit (wf_and ha (wf_or hb hc)) (wf_or (wf_and ha hb) (wf_and ha hc)) fun i => by
    rw [tb_and ha (wf_or hb hc), tb_or hb hc, tb_or (wf_and ha hb) (wf_and ha hc), tb_and ha hb,
      tb_and ha hc, Bool.and_or_distrib_left]
theorem u_or_and_distrib (ha : WF w n a) (hb : WF w n b) (hc : WF w n c) :
    UI.bitor a (UI.bitand b c) = UI.bitand (UI.bitor a b) (UI.bitor a c) :=
  eq_of_testBit (wf_or ha (wf_and hb hc)) (wf_and (wf_or ha hb) (wf_or ha hc)) fun i => by
    rw [tb_or ha (wf_and hb hc), tb_and hb hc, tb_and (wf_or ha hb) (wf_or ha hc), tb_or ha hb,
      tb_or ha hc, Bool.or_and_distrib_left]
theorem u_and_xor_distrib (ha : WF w n a) (hb : WF w n b) (hc : WF w n c) :
    UI.bitand a (UI.bitxor b c) = UI.bitxor (UI.bitand a b) (UI.bitand a c) :=
  eq_of_testBit (wf_and ha (wf_xor hb hc)) (wf_xor (wf_and ha hb) (wf_and ha hc)) fun i => by
    rw [tb_and ha (wf_xor hb hc), tb_xor hb hc, tb_xor (wf_and ha hb) (wf_and ha hc), tb_and ha hb,
      tb_and ha hc]
    generalize (U w a).testBit i = x; generalize (U w b).testBit i = y
    generalize (U w c).testBit i = z
    cases x <;> cases y <;> cases z <;> rfl
theorem i_and_or_distrib (ha : WF w n a) (hb : WF w n b) (hc : WF w n c) :
    II.bitand a (II.bitor b c) = II.bitor (II.bitand a b) (II.bitand a c) :=
  u_and_or_distrib ha hb hc
theorem i_or_and_distrib (ha : WF w n a) (hb : WF w n b) (hc : WF w n c) :
    II.bitor a (II.bitand b c) = II.bitand (II.bitor a b) (II.bitor a c) :=
  u_or_and_distrib ha hb hc
theorem i_and_xor_distrib (ha : WF w n a) (hb : WF w n b) (hc : WF w n c) :
    II.bitand a (II.bitxor b c) = II.bitxor (II.bitand a b) (II.bitand a c) :=
  u_and_xor_distrib ha hb hc
example : UI.bitand [0xf0, 0x3c, 0x81] (UI.bitor [0xaa, 0x55, 0xff] [1, 2, 3])
    = UI.bitor (UI.bitand [0xf0, 0x3c, 0x81] [0xaa, 0x55, 0xff]) (UI.bitand [0xf0, 0x3c, 0x81] [1, 2, 3]) := by
  decide

/-- two's-complement identity `-a = !a + 1` (definitional for `BUint`, a theorem for the carry loop
    of `BInt::wrapping_neg`), and its companions `!a = -a - 1 = MAX - a`, `a ^ MAX = !a` -/
theorem u_neg_eq_not_add_one (w : Nat) (a : List Nat) :
    UI.wrappingNeg w a = UI.wrappingAdd w (UI.not w a) (one a.length) := rfl
theorem i_neg_eq_not_add_one (hw : 2 ≤ w) (hn : 1 ≤ n) (ha : WF w n a) :
    II.wrappingNeg w a = II.wrappingAdd w (II.not w a) (one n) :=
  eq_of_rep' (rep_ineg hw hn (rep_U ha)) (rep_add (rep_not (rep_U ha)) (rep_one (by omega) hn))
    (by ring)
theorem u_not_eq_neg_sub_one (hw : 1 ≤ w) (hn : 1 ≤ n) (ha : WF w n a) :
    UI.not w a = UI.wrappingSub w (UI.wrappingNeg w a) (one n) :=
  eq_of_rep' (rep_not (rep_U ha)) (rep_sub (rep_neg hw hn (rep_U ha)) (rep_one hw hn)) (by ring)
theorem u_not_eq_max_sub (ha : WF w n a) : UI.not w a = UI.wrappingSub w (allOnes w n) a :=
  eq_of_rep' (rep_not (rep_U ha)) (rep_sub (rep_allOnes w n) (rep_U ha)) (by ring)
theorem i_not_eq_neg_sub_one (hw : 2 ≤ w) (hn : 1 ≤ n) (ha : WF w n a) :
    II.not w a = II.wrappingSub w (II.wrappingNeg w a) (one n) :=
  eq_of_rep' (rep_not (rep_U ha)) (rep_sub (rep_ineg hw hn (rep_U ha)) (rep_one (by omega) hn))
    (by ring)
example : II.wrappingNeg 8 [0, 0, 128] = II.wrappingAdd 8 (II.not 8 [0, 0, 128]) (one 3) ∧
    II.wrappingNeg 8 [0xf0, 0x3c, 0x81] = II.wrappingAdd 8 (II.not 8 [0xf0, 0x3c, 0x81]) (one 3) := by
  decide

/-- the carry-save identity behind `midpoint`: `a + b = (a ^ b) + ((a & b) + (a & b))` -/
theorem u_add_eq_xor_add_and (ha : WF w n a) (hb : WF w n b) :
    UI.wrappingAdd w a b
      = UI.wrappingAdd w (UI.bitxor a b) (UI.wrappingAdd w (UI.bitand a b) (UI.bitand a b)) := by
  obtain ⟨⟨h1, h2⟩, _, ⟨h3, h4⟩⟩ := C06.logic_spec ha hb
  refine eq_of_rep' (rep_add (rep_U ha) (rep_U hb))
    (rep_add (rep_U h3) (rep_add (rep_U h1) (rep_U h1))) ?_
  rw [h2, h4]; have := Misc.add_eq_and_xor (U w a) (U w b); omega
theorem i_add_eq_xor_add_and (ha : WF w n a) (hb : WF w n b) :
    II.wrappingAdd w a b
      = II.wrappingAdd w (II.bitxor a b) (II.wrappingAdd w (II.bitand a b) (II.bitand a b)) :=
  u_add_eq_xor_add_and ha hb
example : UI.wrappingAdd 8 [0xf0, 0x3c, 0x81] [0xaa, 0x55, 0xff]
    = UI.wrappingAdd 8 (UI.bitxor [0xf0, 0x3c, 0x81] [0xaa, 0x55, 0xff])
        (UI.wrappingAdd 8 (UI.bitand [0xf0, 0x3c, 0x81] [0xaa, 0x55, 0xff])
          (UI.bitand [0xf0, 0x3c, 0x81] [0xaa, 0x55, 0xff])) := by decide

/-! ## 7. shifts -/

/-- `(a << s) << t = a << (s + t)` when `s + t < BITS` (`wrapping_shl`; same function for `BInt`),
    and for ALL amounts with `unbounded_shl` -/
theorem u_shl_shl {s t : Nat} (hw : 1 ≤ w) (ha : WF w n a) (hst : s + t < w * n) :
    UI.wrappingShl w (UI.wrappingShl w a s) t = UI.wrappingShl w a (s + t) := shl_shl hw ha hst
theorem i_shl_shl {s t : Nat} (hw : 1 ≤ w) (ha : WF w n a) (hst : s + t < w * n) :
    II.wrappingShl w (II.wrappingShl w a s) t = II.wrappingShl w a (s + t) := shl_shl hw ha hst
theorem u_unbounded_shl_shl (hw : 1 ≤ w) (ha : WF w n a) (s t : Nat) :
    UI.unboundedShl w (UI.unboundedShl w a s) t = UI.unboundedShl w a (s + t) := ushl_ushl hw ha s t
theorem i_unbounded_shl_shl (hw : 1 ≤ w) (ha : WF w n a) (s t : Nat) :
    II.unboundedShl w (II.unboundedShl w a s) t = II.unboundedShl w a (s + t) := ushl_ushl hw ha s t
/-- `(a >> s) >> t = a >> (s + t)` (unsigned, zero-filling), all amounts -/
theorem u_unbounded_shr_shr (hw : 1 ≤ w) (ha : WF w n a) (s t : Nat) :
    UI.unboundedShr w (UI.unboundedShr w a s) t = UI.unboundedShr w a (s + t) := ushr_ushr hw ha s t
example : UI.wrappingShl 8 (UI.wrappingShl 8 [0x81, 0x7f, 0x83] 5) 9 = UI.wrappingShl 8 [0x81, 0x7f, 0x83] 14 ∧
    UI.unboundedShl 8 (UI.unboundedShl 8 [0x81, 0x7f, 0x83] 15) 10 = UI.unboundedShl 8 [0x81, 0x7f, 0x83] 25 ∧
    UI.unboundedShr 8 (UI.unboundedShr 8 [0x81, 0x7f, 0x83] 5) 9 = UI.unboundedShr 8 [0x81, 0x7f, 0x83] 14 := by
  decide

/-- `(a << s) >> s = a` when the top `s` bits of `a` are zero (`s ≤ leading_zeros(a)`) -/
theorem u_shr_shl {s : Nat} (hw : 1 ≤ w) (ha : WF w n a) (hs : s < w * n)
    (hz : s ≤ UI.leadingZeros w a) : UI.wrappingShr w (UI.wrappingShl w a s) s = a :=
  shr_shl hw ha hs hz
example : 10 ≤ UI.leadingZeros 8 [0x81, 0x2f, 0x00] ∧
    UI.wrappingShr 8 (UI.wrappingShl 8 [0x81, 0x2f, 0x00] 10) 10 = [0x81, 0x2f, 0x00] := by decide

/-- signed (sign-propagating `>>`): `(a << s) >> s = a` when `a * 2^s` does not leave `[MIN, MAX]` -/
theorem i_shr_shl {s : Nat} (hw : 1 ≤ w) (hn : 1 ≤ n) (ha : WF w n a) (hs : s < w * n)
    (hfit : repS (M w n) (S w a * 2 ^ s)) : II.wrappingShr w (II.wrappingShl w a s) s = a :=
  ishr_shl hw hn ha hs hfit
example : repS (M 8 3) (S 8 [0x81, 0x2f, 0xff] * 2 ^ 7) ∧
    II.wrappingShr 8 (II.wrappingShl 8 [0x81, 0x2f, 0xff] 7) 7 = [0x81, 0x2f, 0xff] := by decide

/-- `a << s = a * power_of_two(s)` (digit widths `2^k`, where `power_of_two` is specified) -/
theorem u_shl_eq_mul_pow2 {k s : Nat} (hk : k < 32) (ha : WF (2 ^ k) n a) (hs : s < 2 ^ k * n) :
    ∃ p, UI.powerOfTwo (2 ^ k) n s = .ok p ∧
      UI.wrappingShl (2 ^ k) a s = UI.wrappingMul (2 ^ k) a p := by
  obtain ⟨p, hp, wp, up⟩ := (C06.power_of_two_spec hk n s).2 hs
  obtain ⟨h1, h2⟩ := wshl_spec (Nat.two_pow_pos _) ha hs
  refine ⟨p, hp, eq_of_rep' (rep_nat h1 h2) (rep_mul (rep_U ha) (rep_U wp)) ?_⟩
  rw [up]; push_cast; rfl
theorem i_shl_eq_mul_pow2 {k s : Nat} (hk : k < 32) (ha : WF (2 ^ k) n a) (hs : s < 2 ^ k * n) :
    ∃ p, UI.powerOfTwo (2 ^ k) n s = .ok p ∧
      II.wrappingShl (2 ^ k) a s = II.wrappingMul (2 ^ k) a p := u_shl_eq_mul_pow2 hk ha hs
example : UI.powerOfTwo (2 ^ 3) 3 13 = .ok [0, 32, 0] ∧
    UI.wrappingShl (2 ^ 3) [0x81, 0x7f, 0x83] 13 = UI.wrappingMul (2 ^ 3) [0x81, 0x7f, 0x83] [0, 32, 0] := by
  decide

/-- unsigned `a >> s = a / power_of_two(s)` -/
theorem u_shr_eq_div_pow2 {k s : Nat} (hk : k < 32) (hn : 1 ≤ n) (ha : WF (2 ^ k) n a)
    (hs : s < 2 ^ k * n) :
    ∃ p, UI.powerOfTwo (2 ^ k) n s = .ok p ∧
      UI.div (2 ^ k) a p = .ok (UI.wrappingShr (2 ^ k) a s) := by
  have hw : 1 ≤ 2 ^ k := Nat.two_pow_pos _
  obtain ⟨p, hp, wp, up⟩ := (C06.power_of_two_spec hk n s).2 hs
  obtain ⟨h1, h2⟩ := wshr_spec hw ha hs
  have hp0 : U (2 ^ k) p ≠ 0 := by rw [up]; exact Nat.ne_of_gt (Nat.two_pow_pos _)
  obtain ⟨q, r, wq, wr, uq, ur, _, _, _, _, _, _, _, _, _, _, _, _, _, _, hd, _⟩ :=
    C03.u_forms hw hn ha wp hp0
  refine ⟨p, hp, ?_⟩
  rw [hd, U_injective wq h1 (by rw [uq, h2, up])]
example : UI.div (2 ^ 3) [0x81, 0x7f, 0x83] [0, 32, 0] = .ok (UI.wrappingShr (2 ^ 3) [0x81, 0x7f, 0x83] 13) := by
  decide

/-! ## 8. rotations -/

/-- `rotl(rotl(a, j), k) = rotl(a, j + k)` for ALL amounts (each reduced mod BITS by `rotate_left`),
    at every width including those that are not powers of two -/
theorem u_rotl_rotl (hw : 1 ≤ w) (hn : 1 ≤ n) (ha : WF w n a) (j k : Nat) :
    UI.rotateLeft w (UI.rotateLeft w a j) k = UI.rotateLeft w a (j + k) := rotl_rotl hw hn ha j k
theorem i_rotl_rotl (hw : 1 ≤ w) (hn : 1 ≤ n) (ha : WF w n a) (j k : Nat) :
    II.rotateLeft w (II.rotateLeft w a j) k = II.rotateLeft w a (j + k) := rotl_rotl hw hn ha j k
example : UI.rotateLeft 8 (UI.rotateLeft 8 [0x81, 0x7f, 0x83] 19) 13 = UI.rotateLeft 8 [0x81, 0x7f, 0x83] 32 := by
  decide

/-- a full turn, and no turn, are the identity -/
theorem u_rotl_bits (hw : 1 ≤ w) (hn : 1 ≤ n) (ha : WF w n a) : UI.rotateLeft w a (w * n) = a :=
  rotl_bits hw hn ha
theorem u_rotl_zero (hw : 1 ≤ w) (hn : 1 ≤ n) (ha : WF w n a) : UI.rotateLeft w a 0 = a :=
  rotl_zero hw hn ha
theorem i_rotl_bits (hw : 1 ≤ w) (hn : 1 ≤ n) (ha : WF w n a) : II.rotateLeft w a (w * n) = a :=
  rotl_bits hw hn ha
theorem i_rotl_zero (hw : 1 ≤ w) (hn : 1 ≤ n) (ha : WF w n a) : II.rotateLeft w a 0 = a :=
  rotl_zero hw hn ha
example : UI.rotateLeft 8 [0x81, 0x7f, 0x83] 24 = [0x81, 0x7f, 0x83] := by decide

/-- `rotr(a, k) = rotl(a, BITS - k mod BITS)`, so the `rotl` laws transfer -/
theorem u_rotr_eq_rotl (hw : 1 ≤ w) (hn : 1 ≤ n) (ha : WF w n a) (k : Nat) :
    UI.rotateRight w a k = UI.rotateLeft w a (w * n - k % (w * n)) := by
  have hW := Shift.bits_pos hw hn
  have h1 := (C05.rotl_spec hw hn ha (w * n - k % (w * n))).1
  have h2 := C05.rotl_rotr hw hn ha k
  -- rotl (rotr a k) (k + (BITS - k%BITS)) = rotl a (BITS - k%BITS), and the left amount is ≡ 0
  have h3 := rotl_rotl hw hn (C05.rotr_spec hw hn ha k).1 k (w * n - k % (w * n))
  rw [h2] at h3
  rw [h3]
  have e : (k + (w * n - k % (w * n))) % (w * n) = 0 := by
    have := Nat.div_add_mod k (w * n)
    have hk := Nat.mod_lt k hW
    have : k + (w * n - k % (w * n)) = (w * n) * (k / (w * n) + 1) := by
      rw [Nat.mul_add]; omega
    rw [this]; exact Nat.mul_mod_right _ _
  obtain ⟨g1, g2⟩ := C05.rotl_spec hw hn (C05.rotr_spec hw hn ha k).1 (k + (w * n - k % (w * n)))
  symm
  apply U_injective g1 (C05.rotr_spec hw hn ha k).1
  have hx : U w (UI.rotateRight w a k) < 2 ^ (w * n) := U_lt (C05.rotr_spec hw hn ha k).1
  have := Shift.rotN_zero (w * n) _ hx
  unfold Shift.rotN at this
  rw [g2, e]; exact this
example : UI.rotateRight 8 [0x81, 0x7f, 0x83] 29 = UI.rotateLeft 8 [0x81, 0x7f, 0x83] 19 := by decide

/-! ## 9. order -/

/-- `le` (= `cmp ≠ Greater`) is reflexive, antisymmetric (on digit lists!), transitive and total -/
theorem u_le_refl (ha : WF w n a) : CmpImpl.le UI.cmp a a = true := (u_le_iff ha ha).mpr (Nat.le_refl _)
theorem u_le_antisymm (ha : WF w n a) (hb : WF w n b) (h1 : CmpImpl.le UI.cmp a b = true)
    (h2 : CmpImpl.le UI.cmp b a = true) : a = b :=
  U_injective ha hb (Nat.le_antisymm ((u_le_iff ha hb).mp h1) ((u_le_iff hb ha).mp h2))
theorem u_le_trans (ha : WF w n a) (hb : WF w n b) (hc : WF w n c)
    (h1 : CmpImpl.le UI.cmp a b = true) (h2 : CmpImpl.le UI.cmp b c = true) :
    CmpImpl.le UI.cmp a c = true :=
  (u_le_iff ha hc).mpr (Nat.le_trans ((u_le_iff ha hb).mp h1) ((u_le_iff hb hc).mp h2))
theorem u_le_total (ha : WF w n a) (hb : WF w n b) :
    CmpImpl.le UI.cmp a b = true ∨ CmpImpl.le UI.cmp b a = true :=
  (Nat.le_total (U w a) (U w b)).imp (u_le_iff ha hb).mpr (u_le_iff hb ha).mpr
theorem i_le_refl (hw : 1 ≤ w) (hn : 1 ≤ n) (ha : WF w n a) : CmpImpl.le (II.cmp w) a a = true :=
  (i_le_iff hw hn ha ha).mpr (Int.le_refl _)
theorem i_le_antisymm (hw : 1 ≤ w) (hn : 1 ≤ n) (ha : WF w n a) (hb : WF w n b)
    (h1 : CmpImpl.le (II.cmp w) a b = true) (h2 : CmpImpl.le (II.cmp w) b a = true) : a = b :=
  Cmp.S_injective ha hb
    (Int.le_antisymm ((i_le_iff hw hn ha hb).mp h1) ((i_le_iff hw hn hb ha).mp h2))
theorem i_le_trans (hw : 1 ≤ w) (hn : 1 ≤ n) (ha : WF w n a) (hb : WF w n b) (hc : WF w n c)
    (h1 : CmpImpl.le (II.cmp w) a b = true) (h2 : CmpImpl.le (II.cmp w) b c = true) :
    CmpImpl.le (II.cmp w) a c = true :=
  (i_le_iff hw hn ha hc).mpr
    (Int.le_trans ((i_le_iff hw hn ha hb).mp h1) ((i_le_iff hw hn hb hc).mp h2))
theorem i_le_total (hw : 1 ≤ w) (hn : 1 ≤ n) (ha : WF w n a) (hb : WF w n b) :
    CmpImpl.le (II.cmp w) a b = true ∨ CmpImpl.le (II.cmp w) b a = true :=
  (Int.le_total (S w a) (S w b)).imp (i_le_iff hw hn ha hb).mpr (i_le_iff hw hn hb ha).mpr
example : CmpImpl.le UI.cmp [0xff, 0x01, 0x80] [0x00, 0x02, 0x80] = true ∧
    CmpImpl.le (II.cmp 8) [0x00, 0x02, 0x80] [0xff, 0x01, 0x7f] = true := by decide

/-- `a ≤ b ⟹ a + c ≤ b + c` when `b + c` does not overflow (unsigned: then `a + c` does not
    overflow either); signed: when neither sum overflows -/
theorem u_add_mono {x : List Nat} (ha : WF w n a) (hb : WF w n b) (hc : WF w n c)
    (hle : CmpImpl.le UI.cmp a b = true) (hy : UI.checkedAdd w b c = some x) :
    ∃ y, UI.checkedAdd w a c = some y ∧ CmpImpl.le UI.cmp y x = true := by
  have hab := (u_le_iff ha hb).mp hle
  obtain ⟨hx, hxv⟩ := (C01.u_checked_add hb hc).2 x hy
  obtain ⟨h1, h2⟩ := C01.u_checked_add ha hc
  have hxl := U_lt hx
  cases hs : UI.checkedAdd w a c with
  | none => exact absurd (show repU (M w n) ((U w a : Int) + U w c) by unfold repU; omega) (h1.mp hs)
  | some y =>
    obtain ⟨hy', hyv⟩ := h2 y hs
    exact ⟨y, rfl, (u_le_iff hy' hx).mpr (by omega)⟩
theorem i_add_mono {x y : List Nat} (hw : 2 ≤ w) (hn : 1 ≤ n) (ha : WF w n a) (hb : WF w n b)
    (hc : WF w n c) (hle : CmpImpl.le (II.cmp w) a b = true) (hx : II.checkedAdd w a c = some x)
    (hy : II.checkedAdd w b c = some y) : CmpImpl.le (II.cmp w) x y = true := by
  have hab := (i_le_iff (by omega) hn ha hb).mp hle
  obtain ⟨wx, vx⟩ := (C01.i_checked_add hw hn ha hc).2 x hx
  obtain ⟨wy, vy⟩ := (C01.i_checked_add hw hn hb hc).2 y hy
  exact (i_le_iff (by omega) hn wx wy).mpr (by omega)
example : CmpImpl.le UI.cmp [5, 0, 0] [9, 0, 0] = true ∧ UI.checkedAdd 8 [9, 0, 0] [250, 255, 255] = none ∧
    UI.checkedAdd 8 [9, 0, 0] [240, 255, 255] = some [249, 255, 255] ∧
    UI.checkedAdd 8 [5, 0, 0] [240, 255, 255] = some [245, 255, 255] := by decide

/-- the same on the wrapping forms: `a ≤ b`, no overflow flag ⟹ `a +ʷ c ≤ b +ʷ c` -/
theorem u_wrapping_add_mono (ha : WF w n a) (hb : WF w n b) (hc : WF w n c)
    (hle : CmpImpl.le UI.cmp a b = true) (hno : (UI.overflowingAdd w b c).2 = false) :
    CmpImpl.le UI.cmp (UI.wrappingAdd w a c) (UI.wrappingAdd w b c) = true := by
  have hy : UI.checkedAdd w b c = some (UI.wrappingAdd w b c) := by
    simp [UI.checkedAdd, UI.wrappingAdd, tupleToOption, hno]
  obtain ⟨y, h1, h2⟩ := u_add_mono ha hb hc hle hy
  have : y = UI.wrappingAdd w a c := by
    simp only [UI.checkedAdd, tupleToOption] at h1
    split at h1
    · cases h1
    · exact (Option.some.inj h1).symm
  rwa [this] at h2
theorem i_wrapping_add_mono (hw : 2 ≤ w) (hn : 1 ≤ n) (ha : WF w n a) (hb : WF w n b)
    (hc : WF w n c) (hle : CmpImpl.le (II.cmp w) a b = true)
    (hna : (II.overflowingAdd w a c).2 = false) (hnb : (II.overflowingAdd w b c).2 = false) :
    CmpImpl.le (II.cmp w) (II.wrappingAdd w a c) (II.wrappingAdd w b c) = true := by
  have hx : II.checkedAdd w a c = some (II.wrappingAdd w a c) := by
    have e : II.wrappingAdd w a c = (II.overflowingAdd w a c).1 :=
      (i_overflowing_add_pattern hw hn ha hc).symm
    rw [e]; simp [II.checkedAdd, tupleToOption, hna]
  have hy : II.checkedAdd w b c = some (II.wrappingAdd w b c) := by
    have e : II.wrappingAdd w b c = (II.overflowingAdd w b c).1 :=
      (i_overflowing_add_pattern hw hn hb hc).symm
    rw [e]; simp [II.checkedAdd, tupleToOption, hnb]
  exact i_add_mono hw hn ha hb hc hle hx hy
example : CmpImpl.le (II.cmp 8) [0x00, 0x02, 0x80] [0xff, 0x01, 0x7f] = true ∧
    (II.overflowingAdd 8 [0x00, 0x02, 0x80] [5, 0, 0]).2 = false ∧
    (II.overflowingAdd 8 [0xff, 0x01, 0x7f] [5, 0, 0]).2 = false ∧
    CmpImpl.le (II.cmp 8) (II.wrappingAdd 8 [0x00, 0x02, 0x80] [5, 0, 0])
      (II.wrappingAdd 8 [0xff, 0x01, 0x7f] [5, 0, 0]) = true := by decide

/-- `max` / `min` form a lattice: commutative, associative, idempotent, absorbing -/
theorem u_max_comm (ha : WF w n a) (hb : WF w n b) : CmpImpl.max UI.cmp a b = CmpImpl.max UI.cmp b a :=
  U_injective (wf_umax ha hb) (wf_umax hb ha) (by rw [U_umax ha hb, U_umax hb ha, Nat.max_comm])
theorem u_min_comm (ha : WF w n a) (hb : WF w n b) : CmpImpl.min UI.cmp a b = CmpImpl.min UI.cmp b a :=
  U_injective (wf_umin ha hb) (wf_umin hb ha) (by rw [U_umin ha hb, U_umin hb ha, Nat.min_comm])
theorem u_max_assoc (ha : WF w n a) (hb : WF w n b) (hc : WF w n c) :
    CmpImpl.max UI.cmp (CmpImpl.max UI.cmp a b) c = CmpImpl.max UI.cmp a (CmpImpl.max UI.cmp b c) :=
  U_injective (wf_umax (wf_umax ha hb) hc) (wf_umax ha (wf_umax hb hc)) (by
    rw [U_umax (wf_umax ha hb) hc, U_umax ha hb, U_umax ha (wf_umax hb hc), U_umax hb hc,
      Nat.max_assoc])
theorem u_min_assoc (ha : WF w n a) (hb : WF w n b) (hc : WF w n c) :
    CmpImpl.min UI.cmp (CmpImpl.min UI.cmp a b) c = CmpImpl.min UI.cmp a (CmpImpl.min UI.cmp b c) :=
  U_injective (wf_umin (wf_umin ha hb) hc) (wf_umin ha (wf_umin hb hc)) (by
    rw [U_umin (wf_umin ha hb) hc, U_umin ha hb, U_umin ha (wf_umin hb hc), U_umin hb hc,
      Nat.min_assoc])
theorem u_max_self (ha : WF w n a) : CmpImpl.max UI.cmp a a = a :=
  U_injective (wf_umax ha ha) ha (by rw [U_umax ha ha, Nat.max_self])
theorem u_min_self (ha : WF w n a) : CmpImpl.min UI.cmp a a = a :=
  U_injective (wf_umin ha ha) ha (by rw [U_umin ha ha, Nat.min_self])
theorem u_max_min_absorb (ha : WF w n a) (hb : WF w n b) :
    CmpImpl.max UI.cmp a (CmpImpl.min UI.cmp a b) = a :=
  U_injective (wf_umax ha (wf_umin ha hb)) ha (by
    rw [U_umax ha (wf_umin ha hb), U_umin ha hb]; omega)
theorem u_min_max_absorb (ha : WF w n a) (hb : WF w n b) :
    CmpImpl.min UI.cmp a (CmpImpl.max UI.cmp a b) = a :=
  U_injective (wf_umin ha (wf_umax ha hb)) ha (by
    rw [U_umin ha (wf_umax ha hb), U_umax ha hb]; omega)
theorem i_max_comm (hw : 1 ≤ w) (hn : 1 ≤ n) (ha : WF w n a) (hb : WF w n b) :
    CmpImpl.max (II.cmp w) a b = CmpImpl.max (II.cmp w) b a :=
  Cmp.S_injective (wf_imax hw hn ha hb) (wf_imax hw hn hb ha)
    (by rw [S_imax hw hn ha hb, S_imax hw hn hb ha, Int.max_comm])
theorem i_min_comm (hw : 1 ≤ w) (hn : 1 ≤ n) (ha : WF w n a) (hb : WF w n b) :
    CmpImpl.min (II.cmp w) a b = CmpImpl.min (II.cmp w) b a :=
  Cmp.S_injective (wf_imin hw hn ha hb) (wf_imin hw hn hb ha)
    (by rw [S_imin hw hn ha hb, S_imin hw hn hb ha, Int.min_comm])
theorem i_max_assoc (hw : 1 ≤ w) (hn : 1 ≤ n) (ha : WF w n a) (hb : WF w n b) (hc : WF w n c) :
    CmpImpl.max (II.cmp w) (CmpImpl.max (II.cmp w) a b) c
      = CmpImpl.max (II.cmp w) a (CmpImpl.max (II.cmp w) b c) :=
  Cmp.S_injective (wf_imax hw hn (wf_imax hw hn ha hb) hc) (wf_imax hw hn ha (wf_imax hw hn hb hc)) (by
    rw [S_imax hw hn (wf_imax hw hn ha hb) hc, S_imax hw hn ha hb,
      S_imax hw hn ha (wf_imax hw hn hb hc), S_imax hw hn hb hc]; omega)
theorem i_min_assoc (hw : 1 ≤ w) (hn : 1 ≤ n) (ha : WF w n a) (hb : WF w n b) (hc : WF w n c) :
    CmpImpl.min (II.cmp w) (CmpImpl.min (II.cmp w) a b) c
      = CmpImpl.min (II.cmp w) a (CmpImpl.min (II.cmp w) b c) :=
  Cmp.S_injective (wf_imin hw hn (wf_imin hw hn ha hb) hc) (wf_imin hw hn ha (wf_imin hw hn hb hc)) (by
    rw [S_imin hw hn (wf_imin hw hn ha hb) hc, S_imin hw hn ha hb,
      S_imin hw hn ha (wf_imin hw hn hb hc), S_imin hw hn hb hc]; omega)
theorem i_max_self (hw : 1 ≤ w) (hn : 1 ≤ n) (ha : WF w n a) : CmpImpl.max (II.cmp w) a a = a :=
  Cmp.S_injective (wf_imax hw hn ha ha) ha (by rw [S_imax hw hn ha ha]; omega)
theorem i_min_self (hw : 1 ≤ w) (hn : 1 ≤ n) (ha : WF w n a) : CmpImpl.min (II.cmp w) a a = a :=
  Cmp.S_injective (wf_imin hw hn ha ha) ha (by rw [S_imin hw hn ha ha]; omega)
theorem i_max_min_absorb (hw : 1 ≤ w) (hn : 1 ≤ n) (ha : WF w n a) (hb : WF w n b) :
    CmpImpl.max (II.cmp w) a (CmpImpl.min (II.cmp w) a b) = a :=
  Cmp.S_injective (wf_imax hw hn ha (wf_imin hw hn ha hb)) ha (by
    rw [S_imax hw hn ha (wf_imin hw hn ha hb), S_imin hw hn ha hb]; omega)
theorem i_min_max_absorb (hw : 1 ≤ w) (hn : 1 ≤ n) (ha : WF w n a) (hb : WF w n b) :
    CmpImpl.min (II.cmp w) a (CmpImpl.max (II.cmp w) a b) = a :=
  Cmp.S_injective (wf_imin hw hn ha (wf_imax hw hn ha hb)) ha (by
    rw [S_imin hw hn ha (wf_imax hw hn ha hb), S_imax hw hn ha hb]; omega)
example : CmpImpl.max (II.cmp 8) [0x00, 0x02, 0x80] [0xff, 0x01, 0x7f]
    = CmpImpl.max (II.cmp 8) [0xff, 0x01, 0x7f] [0x00, 0x02, 0x80] ∧
    CmpImpl.max UI.cmp [1, 2, 3] (CmpImpl.min UI.cmp [1, 2, 3] [9, 9, 9]) = [1, 2, 3] := by decide

/-! ## 10. `abs_diff` and `midpoint` are symmetric -/

theorem u_abs_diff_comm (ha : WF w n a) (hb : WF w n b) : UI.absDiff w a b = UI.absDiff w b a := by
  obtain ⟨h1, h2⟩ := C01.u_abs_diff ha hb
  obtain ⟨h3, h4⟩ := C01.u_abs_diff hb ha
  exact U_injective h1 h3 (by rw [h2, h4]; omega)
theorem i_abs_diff_comm (hw : 1 ≤ w) (hn : 1 ≤ n) (ha : WF w n a) (hb : WF w n b) :
    II.absDiff w a b = II.absDiff w b a := by
  obtain ⟨h1, h2⟩ := C01.i_abs_diff hw hn ha hb
  obtain ⟨h3, h4⟩ := C01.i_abs_diff hw hn hb ha
  exact U_injective h1 h3 (by rw [h2, h4]; omega)
/-- and `abs_diff(a, a) = 0` -/
theorem u_abs_diff_self (ha : WF w n a) : UI.absDiff w a a = zero n := by
  obtain ⟨h1, h2⟩ := C01.u_abs_diff ha ha
  exact U_injective h1 (WF_zero w n) (by rw [h2, U_zero]; omega)
theorem i_abs_diff_self (hw : 1 ≤ w) (hn : 1 ≤ n) (ha : WF w n a) : II.absDiff w a a = zero n := by
  obtain ⟨h1, h2⟩ := C01.i_abs_diff hw hn ha ha
  exact U_injective h1 (WF_zero w n) (by rw [h2, U_zero]; omega)
example : UI.absDiff 8 [3, 0, 0] [255, 255, 127] = UI.absDiff 8 [255, 255, 127] [3, 0, 0] ∧
    II.absDiff 8 [0, 0, 128] [255, 255, 127] = II.absDiff 8 [255, 255, 127] [0, 0, 128] := by decide

theorem u_midpoint_comm (dbg : Bool) (hw : 2 ≤ w) (hn : 1 ≤ n) (ha : WF w n a) (hb : WF w n b) :
    UI.midpoint dbg w a b = UI.midpoint dbg w b a := by
  obtain ⟨r1, e1, w1, v1⟩ := C01.u_midpoint_spec dbg hw hn ha hb
  obtain ⟨r2, e2, w2, v2⟩ := C01.u_midpoint_spec dbg hw hn hb ha
  rw [e1, e2, U_injective w1 w2 (by rw [v1, v2, Nat.add_comm])]
theorem i_midpoint_comm (dbg : Bool) (hw : 2 ≤ w) (hn : 1 ≤ n) (ha : WF w n a) (hb : WF w n b) :
    II.midpoint dbg w a b = II.midpoint dbg w b a := by
  obtain ⟨r1, e1, w1, v1⟩ := C01.i_midpoint_spec dbg hw hn ha hb
  obtain ⟨r2, e2, w2, v2⟩ := C01.i_midpoint_spec dbg hw hn hb ha
  rw [e1, e2, Cmp.S_injective w1 w2 (by rw [v1, v2, Int.add_comm])]
/-- and `midpoint(a, a) = a` -/
theorem u_midpoint_self (dbg : Bool) (hw : 2 ≤ w) (hn : 1 ≤ n) (ha : WF w n a) :
    UI.midpoint dbg w a a = .ok a := by
  obtain ⟨r1, e1, w1, v1⟩ := C01.u_midpoint_spec dbg hw hn ha ha
  rw [e1, U_injective w1 ha (by rw [v1]; omega)]
theorem i_midpoint_self (dbg : Bool) (hw : 2 ≤ w) (hn : 1 ≤ n) (ha : WF w n a) :
    II.midpoint dbg w a a = .ok a := by
  obtain ⟨r1, e1, w1, v1⟩ := C01.i_midpoint_spec dbg hw hn ha ha
  rw [e1, Cmp.S_injective w1 ha (by
    rw [v1, ← two_mul]; exact Int.mul_tdiv_cancel_left _ (by decide))]
example : UI.midpoint true 8 [255, 255, 255] [254, 0, 255] = UI.midpoint true 8 [254, 0, 255] [255, 255, 255] ∧
    II.midpoint true 8 [255, 255, 255] [252, 255, 127] = II.midpoint true 8 [252, 255, 127] [255, 255, 255] := by
  decide

/-! ## 11. `wrapping_pow` (`BInt::wrapping_pow` is the unsigned loop on the bits) -/

/-- `a^(e₁+e₂) = a^e₁ * a^e₂` -/
theorem u_pow_add (hw : 1 ≤ w) (hn : 1 ≤ n) (ha : WF w n a) (e₁ e₂ : Nat) :
    UI.wrappingPow w a (e₁ + e₂) = UI.wrappingMul w (UI.wrappingPow w a e₁) (UI.wrappingPow w a e₂) :=
  eq_of_rep' (rep_pow hw hn (rep_U ha) (e₁ + e₂))
    (rep_mul (rep_pow hw hn (rep_U ha) e₁) (rep_pow hw hn (rep_U ha) e₂)) (pow_add _ _ _)
theorem i_pow_add (hw : 1 ≤ w) (hn : 1 ≤ n) (ha : WF w n a) (e₁ e₂ : Nat) :
    II.wrappingPow w a (e₁ + e₂) = II.wrappingMul w (II.wrappingPow w a e₁) (II.wrappingPow w a e₂) :=
  u_pow_add hw hn ha e₁ e₂
example : UI.wrappingPow 8 [3, 1, 0] 11 = UI.wrappingMul 8 (UI.wrappingPow 8 [3, 1, 0] 4) (UI.wrappingPow 8 [3, 1, 0] 7) := by
  decide

/-- `a^0 = 1` (including `0^0`), `a^1 = a` -/
theorem u_pow_zero (hw : 1 ≤ w) (hn : 1 ≤ n) (ha : WF w n a) : UI.wrappingPow w a 0 = one n :=
  eq_of_rep' (rep_pow hw hn (rep_U ha) 0) (rep_one hw hn) (pow_zero _)
theorem u_pow_one (hw : 1 ≤ w) (hn : 1 ≤ n) (ha : WF w n a) : UI.wrappingPow w a 1 = a :=
  eq_of_rep' (rep_pow hw hn (rep_U ha) 1) (rep_U ha) (pow_one _)
theorem i_pow_zero (hw : 1 ≤ w) (hn : 1 ≤ n) (ha : WF w n a) : II.wrappingPow w a 0 = one n :=
  u_pow_zero hw hn ha
theorem i_pow_one (hw : 1 ≤ w) (hn : 1 ≤ n) (ha : WF w n a) : II.wrappingPow w a 1 = a :=
  u_pow_one hw hn ha
example : UI.wrappingPow 8 [0, 0, 0] 0 = one 3 ∧ UI.wrappingPow 8 [3, 1, 0] 1 = [3, 1, 0] := by decide

/-- `(a^e₁)^e₂ = a^(e₁*e₂)`, `(a*b)^e = a^e * b^e`, `1^e = 1` -/
theorem u_pow_mul (hw : 1 ≤ w) (hn : 1 ≤ n) (ha : WF w n a) (e₁ e₂ : Nat) :
    UI.wrappingPow w (UI.wrappingPow w a e₁) e₂ = UI.wrappingPow w a (e₁ * e₂) :=
  eq_of_rep' (rep_pow hw hn (rep_pow hw hn (rep_U ha) e₁) e₂) (rep_pow hw hn (rep_U ha) (e₁ * e₂))
    (pow_mul _ _ _).symm
theorem u_mul_pow (hw : 1 ≤ w) (hn : 1 ≤ n) (ha : WF w n a) (hb : WF w n b) (e : Nat) :
    UI.wrappingPow w (UI.wrappingMul w a b) e
      = UI.wrappingMul w (UI.wrappingPow w a e) (UI.wrappingPow w b e) :=
  eq_of_rep' (rep_pow hw hn (rep_mul (rep_U ha) (rep_U hb)) e)
    (rep_mul (rep_pow hw hn (rep_U ha) e) (rep_pow hw hn (rep_U hb) e)) (mul_pow _ _ _)
theorem u_one_pow (hw : 1 ≤ w) (hn : 1 ≤ n) (e : Nat) : UI.wrappingPow w (one n) e = one n :=
  eq_of_rep' (rep_pow hw hn (rep_one hw hn) e) (rep_one hw hn) (one_pow _)
theorem i_pow_mul (hw : 1 ≤ w) (hn : 1 ≤ n) (ha : WF w n a) (e₁ e₂ : Nat) :
    II.wrappingPow w (II.wrappingPow w a e₁) e₂ = II.wrappingPow w a (e₁ * e₂) := u_pow_mul hw hn ha e₁ e₂
theorem i_mul_pow (hw : 1 ≤ w) (hn : 1 ≤ n) (ha : WF w n a) (hb : WF w n b) (e : Nat) :
    II.wrappingPow w (II.wrappingMul w a b) e
      = II.wrappingMul w (II.wrappingPow w a e) (II.wrappingPow w b e) := u_mul_pow hw hn ha hb e
example : UI.wrappingPow 8 (UI.wrappingPow 8 [3, 1, 0] 3) 5 = UI.wrappingPow 8 [3, 1, 0] 15 ∧
    UI.wrappingPow 8 (UI.wrappingMul 8 [3, 1, 0] [7, 0, 9]) 6
      = UI.wrappingMul 8 (UI.wrappingPow 8 [3, 1, 0] 6) (UI.wrappingPow 8 [7, 0, 9] 6) := by decide

end Bnum.AlgLaws
