/-
  Bnum.Props.C08 — property C08:

  "For every bnum integer type, every base a and every exponent e in 0..=u32::MAX, overflowing_pow
   returns a^e reduced into the type's range (a^0 = 1, including 0^0) with a flag that is true
   exactly when a^e is not representable, and checked/wrapping/saturating/strict pow are its
   projections, with saturating_pow choosing MIN for a negative base and odd exponent. ilog(b),
   ilog2 and ilog10 return the greatest k with b^k <= self for every positive self and base >= 2,
   and the checked forms return None exactly when self <= 0 or base < 2."

  Generic in the digit width `w` (bits) and the digit count `n`; `UI.*` = `BUint<N>`, `II.*` =
  `BInt<N>` (Model/Pow.lean).  `U` / `S` = unsigned / two's-complement value, `M w n = 2^(w*n)`.
  The exponent is an arbitrary `Nat` (so in particular every `u32`).  Proofs are one-liners calling
  Lemmas/Pow.lean.

  Covered
  * `BUint::overflowing_pow`: value `a^e mod 2^BITS`, flag ↔ `2^BITS ≤ a^e`; `x^0 = (1, false)` for
    every `x` including `0`.  The three separately written square-and-multiply loops
    (`overflowing_pow`, `checked_pow`, `wrapping_pow`) agree (`u_pow_loops_agree`).
  * `BUint::{checked,wrapping,saturating,strict}_pow`, `pow` (`dbg` = `cfg(debug_assertions)`).
  * `BInt::overflowing_pow` (magnitude, parity re-signing, sign-bit tests): value `wrapS (a^e)`, flag
    ↔ `a^e ∉ [MIN, MAX]` — `(-2)^(BITS-1) = MIN` does not overflow; `BInt::checked_pow` (written
    separately in Rust) is its projection; `wrapping_pow`, `saturating_pow` (`i_saturating_pow_side`:
    on overflow MIN exactly for a negative base and an odd exponent, else MAX), `strict_pow`, `pow`.
  * The projection clause literally (`i_wrapping_pow_proj`, `u_pow_projections`, `i_pow_projections`): every other
    power form is a fixed function of the pair returned by `overflowing_pow` of the same signedness.
  * `iilog` (Jaffer's recursion, `iilog_spec`): for `b ≥ 2`, `b*k < 2^BITS` it returns
    `(m (log_b k + 1), ⌊k / b^(log_b k)⌋)`; the recursion terminates within the fuel the callers
    pass, and neither `b.mul(b)`, `new + m` (`u32`), `m << 1` nor the divisions panic or wrap, in
    either build mode.
  * `checked_ilog`, `checked_ilog2`, `checked_ilog10`, `ilog`, `ilog2`, `ilog10`, unsigned and signed:
    `Some(Nat.log base self)` iff `self ≥ 1 ∧ base ≥ 2`, else `None`; the panicking forms panic
    exactly when the checked form is `None`.  `log_is_greatest`: `Nat.log b a` is the greatest `k`
    with `b^k ≤ a`.
  * The executable specifications used by the differential driver (Spec/Pow.lean: modular
    exponentiation, early cut-off, repeated-division logarithm, saturation side) equal the mathematical objects.

  Hypotheses.  Well-formed operands, `1 ≤ n`; unsigned pow needs `1 ≤ w`, everything signed `2 ≤ w`.
  The logarithms other than `ilog2` divide by multi-digit numbers; they use `udivspec`
  (`div_rem_unchecked` returns quotient and remainder — C03, through Knuth's Algorithm D proved in
  Lemmas/KnuthD.lean; the lemmas in Lemmas/Pow.lean take it as the hypothesis `UDivSpec w n`).
  They assume `w * n < 2^32` (`BITS` fits `ExpType = u32`, which the crate itself assumes) so that
  the `u32` counter arithmetic of `iilog` provably cannot overflow.  `ilog10` needs `10 < 2^w`
  (`TEN` is one digit; every real digit type has `w ≥ 8`).
-/
import Bnum.Lemmas.Pow
import Bnum.Lemmas.KnuthD
import Bnum.Lemmas.C08Extra

namespace Bnum.C08
open Bnum

/-! ## `BUint<N>` powers -/

/-- `BUint::overflowing_pow`: `a^e mod 2^BITS`, flag exactly when `a^e` does not fit -/
theorem u_overflowing_pow {w n : Nat} {a : List Nat} (hw : 1 ≤ w) (hn : 1 ≤ n) (ha : WF w n a)
    (e : Nat) :
    U w (UI.overflowingPow w a e).1 = (U w a ^ e) % M w n ∧
    ((UI.overflowingPow w a e).2 = true ↔ M w n ≤ U w a ^ e) ∧
    WF w n (UI.overflowingPow w a e).1 :=
  let h := UI.u_overflowingPow_nat hw hn ha e; ⟨h.2.1, h.2.2, h.1⟩
example : WF 8 2 [3, 0] ∧ UI.overflowingPow 8 [3, 0] 10 = ([169, 230], false) ∧
    UI.overflowingPow 8 [3, 0] 11 = ([251, 179], true) := by decide

/-- same, in the common `OvfU` shape on `Int` -/
theorem u_overflowing_pow_int {w n : Nat} {a : List Nat} (hw : 1 ≤ w) (hn : 1 ≤ n)
    (ha : WF w n a) (e : Nat) :
    WF w n (UI.overflowingPow w a e).1 ∧
    (U w (UI.overflowingPow w a e).1 : Int) = wrapU (M w n) ((U w a : Int) ^ e) ∧
    ((UI.overflowingPow w a e).2 = true ↔ ¬ repU (M w n) ((U w a : Int) ^ e)) :=
  (UI.overflowingPow_spec hw hn ha e).expand

/-- `x^0 = 1` without overflow for every `x`, including `0^0` -/
theorem u_pow_zero (w : Nat) (a : List Nat) : UI.overflowingPow w a 0 = (one a.length, false) := rfl
example : UI.overflowingPow 8 [0, 0] 0 = ([1, 0], false) := by decide

/-- the three separately written loops agree -/
theorem u_pow_loops_agree {w n : Nat} {a : List Nat} (hw : 1 ≤ w) (hn : 1 ≤ n) (ha : WF w n a)
    (e : Nat) :
    UI.checkedPow w a e = tupleToOption (UI.overflowingPow w a e) ∧
    UI.wrappingPow w a e = (UI.overflowingPow w a e).1 :=
  ⟨UI.checkedPow_eq hw hn ha e, UI.wrappingPow_eq hw hn ha e⟩
example : UI.checkedPow 8 [3, 0] 11 = tupleToOption (UI.overflowingPow 8 [3, 0] 11) ∧
    UI.wrappingPow 8 [3, 0] 11 = (UI.overflowingPow 8 [3, 0] 11).1 := by decide

/-- `BUint::checked_pow`: `None` exactly on overflow, otherwise the exact power -/
theorem u_checked_pow {w n : Nat} {a : List Nat} (hw : 1 ≤ w) (hn : 1 ≤ n) (ha : WF w n a)
    (e : Nat) :
    (UI.checkedPow w a e = none ↔ M w n ≤ U w a ^ e) ∧
    (∀ r, UI.checkedPow w a e = some r → WF w n r ∧ U w r = U w a ^ e) :=
  UI.checkedPow_nat hw hn ha e
example : UI.checkedPow 8 [3, 0] 10 = some [169, 230] ∧ UI.checkedPow 8 [3, 0] 11 = none := by decide

/-- `checked_pow` is `Some` exactly when `a^e < 2^BITS` -/
theorem u_checked_pow_some_iff {w n : Nat} {a : List Nat} (hw : 1 ≤ w) (hn : 1 ≤ n)
    (ha : WF w n a) (e : Nat) : (∃ r, UI.checkedPow w a e = some r) ↔ U w a ^ e < M w n :=
  UI.checkedPow_isSome_iff hw hn ha e

/-- `BUint::wrapping_pow` -/
theorem u_wrapping_pow {w n : Nat} {a : List Nat} (hw : 1 ≤ w) (hn : 1 ≤ n) (ha : WF w n a)
    (e : Nat) :
    WF w n (UI.wrappingPow w a e) ∧ U w (UI.wrappingPow w a e) = (U w a ^ e) % M w n := by
  rw [UI.wrappingPow_eq hw hn ha]
  exact ⟨(UI.u_overflowingPow_nat hw hn ha e).1, (UI.u_overflowingPow_nat hw hn ha e).2.1⟩
example : UI.wrappingPow 8 [3, 0] 11 = [251, 179] := by decide

/-- `BUint::saturating_pow` -/
theorem u_saturating_pow {w n : Nat} {a : List Nat} (hw : 1 ≤ w) (hn : 1 ≤ n) (ha : WF w n a)
    (e : Nat) :
    WF w n (UI.saturatingPow w a e) ∧
    (U w (UI.saturatingPow w a e) : Int) = Spec.clamp false (M w n) ((U w a : Int) ^ e) :=
  UI.saturatingPow_spec hw hn ha e
example : UI.saturatingPow 8 [3, 0] 11 = [255, 255] := by decide

/-- `strict_pow` panics exactly on overflow -/
theorem u_strict_pow {w n : Nat} {a : List Nat} (hw : 1 ≤ w) (hn : 1 ≤ n) (ha : WF w n a)
    (e : Nat) :
    (UI.strictPow w a e = .panic ↔ M w n ≤ U w a ^ e) ∧
    (∀ r, UI.strictPow w a e = .ok r → WF w n r ∧ U w r = U w a ^ e) :=
  UI.strictPow_nat hw hn ha e
example : UI.strictPow 8 [3, 0] 11 = .panic ∧ UI.strictPow 8 [3, 0] 10 = .ok [169, 230] := by decide

/-- `BUint::pow`: panics exactly in debug builds on overflow, wraps in release builds -/
theorem u_pow {w n : Nat} {a : List Nat} (hw : 1 ≤ w) (hn : 1 ≤ n) (ha : WF w n a) (e : Nat)
    (dbg : Bool) :
    (UI.pow w dbg a e = Outcome.panic ↔ (dbg = true ∧ ¬ repU (M w n) ((U w a : Int) ^ e))) ∧
    (∀ r, UI.pow w dbg a e = Outcome.ok r →
      WF w n r ∧ (U w r : Int) = wrapU (M w n) ((U w a : Int) ^ e) ∧
      (dbg = true → (U w r : Int) = (U w a : Int) ^ e)) :=
  UI.pow_spec hw hn ha e dbg
example : UI.pow 8 true [3, 0] 11 = .panic ∧ UI.pow 8 false [3, 0] 11 = .ok [251, 179] := by decide

/-! ## `BInt<N>` powers -/

/-- `BInt::overflowing_pow` -/
theorem i_overflowing_pow {w n : Nat} {a : List Nat} (hw : 2 ≤ w) (hn : 1 ≤ n) (ha : WF w n a)
    (e : Nat) :
    S w (II.overflowingPow w a e).1 = wrapS (M w n) (S w a ^ e) ∧
    ((II.overflowingPow w a e).2 = true ↔ ¬ repS (M w n) (S w a ^ e)) ∧
    WF w n (II.overflowingPow w a e).1 :=
  let h := (II.overflowingPow_spec hw hn ha e).expand; ⟨h.2.1, h.2.2, h.1⟩
/-- `(-2)^15 = i16::MIN` exactly (no overflow); `(-3)^10 = 59049` overflows 16 bits -/
example : WF 8 2 [254, 255] ∧ II.overflowingPow 8 [254, 255] 15 = ([0, 128], false) ∧
    II.overflowingPow 8 [253, 255] 10 = ([169, 230], true) := by decide

/-- `BInt::checked_pow` (a separately written function) is the projection of `overflowing_pow` -/
theorem i_checked_pow_proj {w n : Nat} {a : List Nat} (hw : 2 ≤ w) (hn : 1 ≤ n) (ha : WF w n a)
    (e : Nat) : II.checkedPow w a e = tupleToOption (II.overflowingPow w a e) :=
  II.checkedPow_eq hw hn ha e
example : II.checkedPow 8 [254, 255] 15 = tupleToOption (II.overflowingPow 8 [254, 255] 15) ∧
    II.checkedPow 8 [254, 255] 16 = tupleToOption (II.overflowingPow 8 [254, 255] 16) := by decide

/-- `BInt::checked_pow`: `None` exactly when `a^e ∉ [MIN, MAX]`, otherwise the exact power -/
theorem i_checked_pow {w n : Nat} {a : List Nat} (hw : 2 ≤ w) (hn : 1 ≤ n) (ha : WF w n a)
    (e : Nat) :
    (II.checkedPow w a e = none ↔ ¬ repS (M w n) (S w a ^ e)) ∧
    (∀ r, II.checkedPow w a e = some r → WF w n r ∧ S w r = S w a ^ e) := by
  rw [II.checkedPow_eq hw hn ha]; exact (II.overflowingPow_spec hw hn ha e).checked
example : II.checkedPow 8 [254, 255] 15 = some [0, 128] ∧ II.checkedPow 8 [2, 0] 15 = none := by
  decide

/-- `BInt::wrapping_pow` (the unsigned loop on the bit pattern) -/
theorem i_wrapping_pow {w n : Nat} {a : List Nat} (hw : 1 ≤ w) (hn : 1 ≤ n) (ha : WF w n a)
    (e : Nat) :
    WF w n (II.wrappingPow w a e) ∧ S w (II.wrappingPow w a e) = wrapS (M w n) (S w a ^ e) :=
  II.wrappingPow_spec hw hn ha e
example : II.wrappingPow 8 [253, 255] 11 = [5, 76] := by decide

/-- `BInt::saturating_pow`: the exact power clamped into `[MIN, MAX]` -/
theorem i_saturating_pow {w n : Nat} {a : List Nat} (hw : 2 ≤ w) (hn : 1 ≤ n) (ha : WF w n a)
    (e : Nat) :
    WF w n (II.saturatingPow w a e) ∧
    S w (II.saturatingPow w a e) = Spec.clamp true (M w n) (S w a ^ e) :=
  II.saturatingPow_spec hw hn ha e

/-- on overflow, `saturating_pow` is MIN exactly for a negative base with an odd exponent -/
theorem i_saturating_pow_side {w n : Nat} {a : List Nat} (hw : 2 ≤ w) (hn : 1 ≤ n)
    (ha : WF w n a) (e : Nat) (hov : ¬ repS (M w n) (S w a ^ e)) :
    ((S w a < 0 ∧ e % 2 = 1) → II.saturatingPow w a e = iMin w n) ∧
    (¬ (S w a < 0 ∧ e % 2 = 1) → II.saturatingPow w a e = iMax w n) :=
  II.saturatingPow_side hw hn ha e hov
example : II.saturatingPow 8 [253, 255] 11 = iMin 8 2 ∧ II.saturatingPow 8 [253, 255] 10 = iMax 8 2 := by
  decide

/-- `strict_pow` on `BInt` -/
theorem i_strict_pow {w n : Nat} {a : List Nat} (hw : 2 ≤ w) (hn : 1 ≤ n) (ha : WF w n a)
    (e : Nat) :
    (II.strictPow w a e = .panic ↔ ¬ repS (M w n) (S w a ^ e)) ∧
    (∀ r, II.strictPow w a e = .ok r → WF w n r ∧ S w r = S w a ^ e) := by
  unfold II.strictPow; rw [II.checkedPow_eq hw hn ha]
  exact (II.overflowingPow_spec hw hn ha e).strict
example : II.strictPow 8 [253, 255] 11 = .panic := by decide

/-- `BInt::pow` -/
theorem i_pow {w n : Nat} {a : List Nat} (hw : 2 ≤ w) (hn : 1 ≤ n) (ha : WF w n a) (e : Nat)
    (dbg : Bool) :
    (II.pow w dbg a e = Outcome.panic ↔ (dbg = true ∧ ¬ repS (M w n) (S w a ^ e))) ∧
    (∀ r, II.pow w dbg a e = Outcome.ok r →
      WF w n r ∧ S w r = wrapS (M w n) (S w a ^ e) ∧ (dbg = true → S w r = S w a ^ e)) :=
  II.pow_spec hw hn ha e dbg
example : II.pow 8 true [254, 255] 15 = .ok [0, 128] ∧ II.pow 8 true [254, 255] 16 = .panic ∧
    II.pow 8 false [254, 255] 16 = .ok [0, 0] ∧ II.pow 8 false [253, 255] 11 = .ok [5, 76] := by decide

/-! ## "checked / wrapping / saturating / strict pow are its projections", literally

Every other power form equals a fixed function of the PAIR returned by `overflowing_pow` (value, flag):
the statement's projection clause as equations between the model functions (no specification involved). -/

/-- `BInt::wrapping_pow` (the unsigned loop on the two's-complement bit pattern) returns the value component of
    `BInt::overflowing_pow` (computed through the magnitude and re-signed) -/
theorem i_wrapping_pow_proj {w n : Nat} {a : List Nat} (hw : 2 ≤ w) (hn : 1 ≤ n) (ha : WF w n a)
    (e : Nat) : II.wrappingPow w a e = (II.overflowingPow w a e).1 := by
  have h1 := i_wrapping_pow (show 1 ≤ w by omega) hn ha e
  have h2 := i_overflowing_pow hw hn ha e
  exact DivL.S_inj h1.1 h2.2.2 (h1.2.trans h2.1.symm)
example : II.wrappingPow 8 [253, 255] 11 = (II.overflowingPow 8 [253, 255] 11).1 ∧
    (II.overflowingPow 8 [253, 255] 11).2 = true := by decide

/-- the unsigned forms as projections of `BUint::overflowing_pow`: `checked_pow` = `None` iff flag, `wrapping_pow` =
    value, `saturating_pow` = `MAX` iff flag, `strict_pow` panics iff flag, `pow` = `strict_pow` under
    `debug_assertions` and `wrapping_pow` otherwise -/
theorem u_pow_projections {w n : Nat} {a : List Nat} (hw : 1 ≤ w) (hn : 1 ≤ n) (ha : WF w n a)
    (e : Nat) :
    let r := UI.overflowingPow w a e
    UI.checkedPow w a e = (if r.2 then none else some r.1) ∧
    UI.wrappingPow w a e = r.1 ∧
    UI.saturatingPow w a e = (if r.2 then allOnes w n else r.1) ∧
    UI.strictPow w a e = (if r.2 then .panic else .ok r.1) ∧
    (∀ dbg, UI.pow w dbg a e = (if dbg && r.2 then .panic else .ok r.1)) := by
  intro r
  have hc : UI.checkedPow w a e = (if r.2 then none else some r.1) :=
    (u_pow_loops_agree hw hn ha e).1
  have hwr : UI.wrappingPow w a e = r.1 := (u_pow_loops_agree hw hn ha e).2
  have hs : UI.strictPow w a e = (if r.2 then .panic else .ok r.1) := by
    unfold UI.strictPow; rw [hc]; cases r.2 <;> rfl
  refine ⟨hc, hwr, ?_, hs, ?_⟩
  · unfold UI.saturatingPow UI.saturateUp; rw [ha.1]
  · intro dbg
    unfold UI.pow
    cases dbg
    · simp [hwr]
    · simp [hs]
example : (UI.overflowingPow 8 [3, 0] 11).2 = true ∧ UI.saturatingPow 8 [3, 0] 11 = allOnes 8 2 ∧
    UI.strictPow 8 [3, 0] 11 = .panic ∧ UI.pow 8 false [3, 0] 11 = .ok (UI.overflowingPow 8 [3, 0] 11).1 ∧
    (UI.overflowingPow 8 [3, 0] 10).2 = false ∧ UI.pow 8 true [3, 0] 10 = .ok (UI.overflowingPow 8 [3, 0] 10).1 := by
  decide

/-- the signed forms as projections of `BInt::overflowing_pow`; on overflow `saturating_pow` is `MIN` exactly for a
    negative base with an odd exponent and `MAX` otherwise -/
theorem i_pow_projections {w n : Nat} {a : List Nat} (hw : 2 ≤ w) (hn : 1 ≤ n) (ha : WF w n a)
    (e : Nat) :
    let r := II.overflowingPow w a e
    II.checkedPow w a e = (if r.2 then none else some r.1) ∧
    II.wrappingPow w a e = r.1 ∧
    II.saturatingPow w a e =
      (if r.2 then (if S w a < 0 ∧ e % 2 = 1 then iMin w n else iMax w n) else r.1) ∧
    II.strictPow w a e = (if r.2 then .panic else .ok r.1) ∧
    (∀ dbg, II.pow w dbg a e = (if dbg && r.2 then .panic else .ok r.1)) := by
  intro r
  have hc : II.checkedPow w a e = (if r.2 then none else some r.1) := i_checked_pow_proj hw hn ha e
  have hwr : II.wrappingPow w a e = r.1 := i_wrapping_pow_proj hw hn ha e
  have hs : II.strictPow w a e = (if r.2 then .panic else .ok r.1) := by
    unfold II.strictPow; rw [hc]; cases r.2 <;> rfl
  refine ⟨hc, hwr, ?_, hs, ?_⟩
  · unfold II.saturatingPow
    rw [hc, ha.1, isNegative_eq_decide (by omega) hn ha]
    cases hr : r.2
    · simp
    · have h1 : (e &&& 1 != 0) = decide (e % 2 = 1) := by
        rw [Nat.and_one_is_mod]; rcases Nat.mod_two_eq_zero_or_one e with h | h <;> simp [h]
      simp only [if_true, h1]
      by_cases hh : S w a < 0 ∧ e % 2 = 1
      · simp [hh]
      · rw [if_neg hh]
        have : (decide (S w a < 0) && decide (e % 2 = 1)) = false := by
          rw [← Bool.decide_and]; exact decide_eq_false hh
        simp [this]
  · intro dbg
    unfold II.pow
    cases dbg
    · simp [hwr]
    · simp [hs]
example : (II.overflowingPow 8 [253, 255] 11).2 = true ∧ II.saturatingPow 8 [253, 255] 11 = iMin 8 2 ∧
    II.saturatingPow 8 [253, 255] 12 = iMax 8 2 ∧ II.saturatingPow 8 [3, 0] 11 = iMax 8 2 ∧
    II.pow 8 true [253, 255] 11 = .panic ∧
    II.pow 8 false [253, 255] 11 = .ok (II.overflowingPow 8 [253, 255] 11).1 := by decide

/-! ## integer logarithms -/

/-- `Nat.log b a` is the greatest `k` with `b^k ≤ a` -/
theorem log_is_greatest {b a : Nat} (hb : 2 ≤ b) (ha : 1 ≤ a) :
    b ^ Nat.log b a ≤ a ∧ ∀ k, b ^ k ≤ a → k ≤ Nat.log b a := Ilog.log_greatest hb ha

/-- `BUint::div_rem_unchecked` returns quotient and remainder on all operands (C03; the multi-digit
    path is Knuth's Algorithm D, proved in Lemmas/KnuthD.lean) — the fact the logarithms rest on -/
theorem udivspec {w n : Nat} (hw : 1 ≤ w) (hn : 1 ≤ n) : UDivSpec w n :=
  UDivSpec_of_KnuthD (KDL.knuthD_correct hw) hw hn

theorem one_le_of_ten {w : Nat} (h10 : 10 < B w) : 1 ≤ w := by
  rcases Nat.eq_zero_or_pos w with h | h
  · subst h; simp [B] at h10
  · exact h

/-- `BUint::iilog(m, b, k)`: terminates within fuel `k + 1`, no internal panic in either build mode,
    result `(m (log_b k + 1), ⌊k / b^(log_b k)⌋)` -/
theorem iilog_spec {w n : Nat} (hw : 1 ≤ w) (hn : 1 ≤ n) (dbg : Bool) (f m : Nat) {b k : List Nat}
    (hb : WF w n b) (hk : WF w n k) (hb2 : 2 ≤ U w b) (hbk : U w b * U w k < M w n)
    (hf : U w k < f) (hm : m * (Nat.log (U w b) (U w k) + 1) < 2 ^ 32) :
    ∃ q, UI.iilog dbg w f m b k = .ok (m * (Nat.log (U w b) (U w k) + 1), q) ∧ WF w n q ∧
      U w q = U w k / U w b ^ Nat.log (U w b) (U w k) :=
  Ilog.iilog_spec (udivspec hw hn) dbg f m b k hb hk hb2 hbk hf hm
example : WF 8 2 [10, 0] ∧ WF 8 2 [100, 0] ∧
    UI.iilog true 8 101 1 [10, 0] [100, 0] = .ok (3, [1, 0]) := by decide

/-- `BUint::checked_ilog2` (`bits() - 1`) -/
theorem u_checked_ilog2 {w n : Nat} {a : List Nat} (ha : WF w n a) :
    UI.checkedIlog2 w a = if U w a = 0 then none else some (Nat.log 2 (U w a)) :=
  Ilog.checkedIlog2_eq ha
example : UI.checkedIlog2 8 [0, 128] = some 15 ∧ UI.checkedIlog2 8 [0, 0] = none := by decide

/-- `BUint::checked_ilog`: `Some(⌊log_base self⌋)` iff `self ≥ 1 ∧ base ≥ 2`, else `None`;
    never a panic, in either build mode -/
theorem u_checked_ilog {w n : Nat} (hw : 2 ≤ w) (hn : 1 ≤ n)
    (hW : w * n < 2 ^ 32) {a b : List Nat} (ha : WF w n a) (hb : WF w n b) (dbg : Bool) :
    UI.checkedIlog dbg w a b =
      .ok (if 1 ≤ U w a ∧ 2 ≤ U w b then some (Nat.log (U w b) (U w a)) else none) :=
  UI.checkedIlog_spec hw hn (udivspec (by omega) hn) hW ha hb dbg
example : UI.checkedIlog true 8 [232, 3] [10, 0] = .ok (some 3) ∧
    UI.checkedIlog true 8 [231, 3] [10, 0] = .ok (some 2) ∧
    UI.checkedIlog true 8 [231, 3] [1, 0] = .ok none ∧
    UI.checkedIlog true 8 [0, 0] [10, 0] = .ok none := by decide
/-- all hypotheses of `u_checked_ilog` are jointly satisfiable -/
example : UI.checkedIlog true 8 [200, 1] [3, 0] =
    .ok (if 1 ≤ U 8 [200, 1] ∧ 2 ≤ U 8 [3, 0] then some (Nat.log (U 8 [3, 0]) (U 8 [200, 1]))
      else none) :=
  u_checked_ilog (w := 8) (n := 2) (by decide) (by decide) (by decide) (by decide) (by decide) true

/-- `BUint::checked_ilog10` -/
theorem u_checked_ilog10 {w n : Nat} (h10 : 10 < B w) (hn : 1 ≤ n)
    (hW : w * n < 2 ^ 32) {a : List Nat} (ha : WF w n a) (dbg : Bool) :
    UI.checkedIlog10 dbg w a = .ok (if 1 ≤ U w a then some (Nat.log 10 (U w a)) else none) :=
  UI.checkedIlog10_spec h10 hn (udivspec (one_le_of_ten h10) hn) hW ha dbg
example : 10 < B 8 ∧ UI.checkedIlog10 true 8 [255, 255] = .ok (some 4) := by decide

/-- `BUint::ilog2` -/
theorem u_ilog2 {w n : Nat} {a : List Nat} (ha : WF w n a) :
    UI.ilog2 w a = if 1 ≤ U w a then .ok (Nat.log 2 (U w a)) else .panic := UI.ilog2_spec ha
example : UI.ilog2 8 [0, 128] = .ok 15 ∧ UI.ilog2 8 [0, 0] = .panic := by decide

/-- `BUint::ilog10` -/
theorem u_ilog10 {w n : Nat} (h10 : 10 < B w) (hn : 1 ≤ n)
    (hW : w * n < 2 ^ 32) {a : List Nat} (ha : WF w n a) (dbg : Bool) :
    UI.ilog10 dbg w a = if 1 ≤ U w a then .ok (Nat.log 10 (U w a)) else .panic :=
  UI.ilog10_spec h10 hn (udivspec (one_le_of_ten h10) hn) hW ha dbg
example : UI.ilog10 true 8 [16, 39] = .ok 4 ∧ UI.ilog10 false 8 [15, 39] = .ok 3 ∧
    UI.ilog10 true 8 [0, 0] = .panic := by decide

/-- `BUint::ilog` -/
theorem u_ilog {w n : Nat} (hw : 2 ≤ w) (hn : 1 ≤ n)
    (hW : w * n < 2 ^ 32) {a b : List Nat} (ha : WF w n a) (hb : WF w n b) (dbg : Bool) :
    UI.ilog dbg w a b =
      if 1 ≤ U w a ∧ 2 ≤ U w b then .ok (Nat.log (U w b) (U w a)) else .panic :=
  UI.ilog_spec hw hn (udivspec (by omega) hn) hW ha hb dbg
example : UI.ilog true 8 [231, 3] [1, 0] = .panic ∧ UI.ilog true 8 [0, 0] [3, 0] = .panic ∧
    UI.ilog false 8 [231, 3] [3, 0] = .ok 6 := by decide

/-- the panicking unsigned forms panic exactly when the checked form is `None` -/
theorem u_ilog_panic_iff {w n : Nat} (hw : 2 ≤ w) (hn : 1 ≤ n)
    (hW : w * n < 2 ^ 32) {a b : List Nat} (ha : WF w n a) (hb : WF w n b) (dbg : Bool) :
    (UI.ilog dbg w a b = .panic ↔ UI.checkedIlog dbg w a b = .ok none) ∧
    (UI.ilog2 w a = .panic ↔ UI.checkedIlog2 w a = none) := by
  rw [UI.ilog_spec hw hn (udivspec (by omega) hn) hW ha hb dbg,
    UI.checkedIlog_spec hw hn (udivspec (by omega) hn) hW ha hb dbg,
    UI.ilog2_spec ha, Ilog.checkedIlog2_eq ha]
  constructor
  · by_cases h : 1 ≤ U w a ∧ 2 ≤ U w b <;> simp [h]
  · by_cases h : U w a = 0
    · simp [h]
    · simp [h]

theorem u_ilog10_panic_iff {w n : Nat} (h10 : 10 < B w) (hn : 1 ≤ n) (hW : w * n < 2 ^ 32)
    {a : List Nat} (ha : WF w n a) (dbg : Bool) :
    UI.ilog10 dbg w a = .panic ↔ UI.checkedIlog10 dbg w a = .ok none := by
  rw [UI.ilog10_spec h10 hn (udivspec (one_le_of_ten h10) hn) hW ha dbg,
    UI.checkedIlog10_spec h10 hn (udivspec (one_le_of_ten h10) hn) hW ha dbg]
  by_cases h : 1 ≤ U w a <;> simp [h]

/-- `BInt::checked_ilog`: `None` exactly when `self ≤ 0` or `base < 2` -/
theorem i_checked_ilog {w n : Nat} (hw : 2 ≤ w) (hn : 1 ≤ n)
    (hW : w * n < 2 ^ 32) {a b : List Nat} (ha : WF w n a) (hb : WF w n b) (dbg : Bool) :
    II.checkedIlog dbg w a b =
      .ok (if 1 ≤ S w a ∧ 2 ≤ S w b then some (Nat.log (S w b).toNat (S w a).toNat) else none) :=
  II.checkedIlog_spec hw hn (udivspec (by omega) hn) hW ha hb dbg
example : II.checkedIlog true 8 [232, 3] [246, 255] = .ok none ∧
    II.checkedIlog true 8 [232, 3] [10, 0] = .ok (some 3) ∧
    II.checkedIlog true 8 [24, 252] [10, 0] = .ok none := by decide

theorem i_checked_ilog_none_iff {w n : Nat} (hw : 2 ≤ w) (hn : 1 ≤ n)
    (hW : w * n < 2 ^ 32) {a b : List Nat} (ha : WF w n a) (hb : WF w n b) (dbg : Bool) :
    II.checkedIlog dbg w a b = .ok none ↔ (S w a ≤ 0 ∨ S w b < 2) := by
  rw [II.checkedIlog_spec hw hn (udivspec (by omega) hn) hW ha hb dbg]
  by_cases h : 1 ≤ S w a ∧ 2 ≤ S w b
  · simp [h]; omega
  · simp [h]; omega

/-- `BInt::checked_ilog2` -/
theorem i_checked_ilog2 {w n : Nat} (hw : 2 ≤ w) (hn : 1 ≤ n) {a : List Nat} (ha : WF w n a) :
    II.checkedIlog2 w a = if 1 ≤ S w a then some (Nat.log 2 (S w a).toNat) else none :=
  II.checkedIlog2_spec hw hn ha
example : II.checkedIlog2 8 [255, 127] = some 14 ∧ II.checkedIlog2 8 [0, 128] = none ∧
    II.checkedIlog2 8 [0, 0] = none := by decide

/-- `BInt::checked_ilog10` -/
theorem i_checked_ilog10 {w n : Nat} (hw : 2 ≤ w) (h10 : 10 < B w) (hn : 1 ≤ n)
    (hW : w * n < 2 ^ 32) {a : List Nat} (ha : WF w n a) (dbg : Bool) :
    II.checkedIlog10 dbg w a =
      .ok (if 1 ≤ S w a then some (Nat.log 10 (S w a).toNat) else none) :=
  II.checkedIlog10_spec hw h10 hn (udivspec (by omega) hn) hW ha dbg
example : II.checkedIlog10 true 8 [16, 39] = .ok (some 4) ∧ II.checkedIlog10 true 8 [240, 216] = .ok none := by
  decide

/-- `BInt::ilog`: panics exactly when `checked_ilog` is `None` (`self ≤ 0` or `base < 2`) -/
theorem i_ilog {w n : Nat} (hw : 2 ≤ w) (hn : 1 ≤ n)
    (hW : w * n < 2 ^ 32) {a b : List Nat} (ha : WF w n a) (hb : WF w n b) (dbg : Bool) :
    II.ilog dbg w a b =
      if 1 ≤ S w a ∧ 2 ≤ S w b then .ok (Nat.log (S w b).toNat (S w a).toNat) else .panic :=
  II.ilog_spec hw hn (udivspec (by omega) hn) hW ha hb dbg
example : II.ilog true 8 [24, 252] [3, 0] = .panic ∧ II.ilog true 8 [232, 3] [3, 0] = .ok 6 := by
  decide

/-- `BInt::ilog2` -/
theorem i_ilog2 {w n : Nat} (hw : 2 ≤ w) (hn : 1 ≤ n) {a : List Nat} (ha : WF w n a) :
    II.ilog2 w a = if 1 ≤ S w a then .ok (Nat.log 2 (S w a).toNat) else .panic :=
  II.ilog2_spec hw hn ha
example : II.ilog2 8 [255, 127] = .ok 14 ∧ II.ilog2 8 [255, 255] = .panic ∧ II.ilog2 8 [0, 0] = .panic := by decide

/-- `BInt::ilog10` -/
theorem i_ilog10 {w n : Nat} (hw : 2 ≤ w) (h10 : 10 < B w) (hn : 1 ≤ n)
    (hW : w * n < 2 ^ 32) {a : List Nat} (ha : WF w n a) (dbg : Bool) :
    II.ilog10 dbg w a = if 1 ≤ S w a then .ok (Nat.log 10 (S w a).toNat) else .panic :=
  II.ilog10_spec hw h10 hn (udivspec (by omega) hn) hW ha dbg
example : II.ilog10 true 8 [15, 39] = .ok 3 ∧ II.ilog10 false 8 [240, 216] = .panic := by decide

theorem i_ilog_panic_iff {w n : Nat} (hw : 2 ≤ w) (hn : 1 ≤ n)
    (hW : w * n < 2 ^ 32) {a b : List Nat} (ha : WF w n a) (hb : WF w n b) (dbg : Bool) :
    (II.ilog dbg w a b = .panic ↔ II.checkedIlog dbg w a b = .ok none) ∧
    (II.ilog2 w a = .panic ↔ II.checkedIlog2 w a = none) := by
  rw [II.ilog_spec hw hn (udivspec (by omega) hn) hW ha hb dbg,
    II.checkedIlog_spec hw hn (udivspec (by omega) hn) hW ha hb dbg,
    II.ilog2_spec hw hn ha, II.checkedIlog2_spec hw hn ha]
  constructor
  · by_cases h : 1 ≤ S w a ∧ 2 ≤ S w b <;> simp [h]
  · by_cases h : 1 ≤ S w a <;> simp [h]

theorem i_ilog10_panic_iff {w n : Nat} (hw : 2 ≤ w) (h10 : 10 < B w) (hn : 1 ≤ n)
    (hW : w * n < 2 ^ 32) {a : List Nat} (ha : WF w n a) (dbg : Bool) :
    II.ilog10 dbg w a = .panic ↔ II.checkedIlog10 dbg w a = .ok none := by
  rw [II.ilog10_spec hw h10 hn (udivspec (by omega) hn) hW ha dbg,
    II.checkedIlog10_spec hw h10 hn (udivspec (by omega) hn) hW ha dbg]
  by_cases h : 1 ≤ S w a <;> simp [h]

/-! ## the executable specifications (Spec/Pow.lean) compute the mathematical objects -/

/-- the repeated-division logarithm of the driver's spec is `Nat.log` -/
theorem spec_ilog (b a : Nat) : Spec.ilog b a = Nat.log b a := Pow.ilog_eq_log b a
example : (10 : Nat) ^ 3 ≤ 1000 ∧ ¬ (10 : Nat) ^ 4 ≤ 1000 ∧ Spec.ilog 10 1000 = 3 ∧ Spec.ilog 10 999 = 2 := by
  refine ⟨by decide, by decide, ?_, ?_⟩ <;> rw [spec_ilog] <;> decide

/-- modular exponentiation -/
theorem spec_powMod (m a e : Nat) : Spec.powMod m a e = a ^ e % m := Pow.powMod_eq m a e

/-- the early cut-off decides the comparison with the exact power -/
theorem spec_powCapped (cap a e : Nat) : cap < Spec.powCapped cap a e ↔ cap < a ^ e :=
  Pow.powCapped_gt_iff cap a e
example : Spec.powCapped 255 3 5 = 243 ∧ 255 < Spec.powCapped 255 3 4000000000 := by decide

/-- `Spec.overflowingPow` / `Spec.checkedPow` are `Spec.overflowing` / `Spec.checked` (Spec/Arith.lean)
    of the exact power `a ^ e` -/
theorem spec_pow {signed : Bool} {m : Nat} (hm : 0 < m) (he2 : m = 2 * (m / 2)) (a : Int) (e : Nat)
    (hu : signed = false → 0 ≤ a) :
    Spec.overflowingPow signed m a e = Spec.overflowing signed m (a ^ e) ∧
    Spec.checkedPow signed m a e = Spec.checked signed m (a ^ e) :=
  ⟨Pow.spec_overflowingPow_eq hm he2 a e hu, Pow.spec_checkedPow_eq hm he2 a e hu⟩

/-- `Spec.powWrapped` (the driver's answer for `wrapping_pow` and release-mode `pow`) is the pattern of the exact
    power -/
theorem spec_powWrapped {m : Nat} (hm : 0 < m) (a : Int) (e : Nat) :
    Spec.powWrapped m a e = wrapU m (a ^ e) := Pow.powWrapped_eq hm a e
/-- its hypothesis is satisfiable (the modular power is defined by well-founded recursion, so it is instantiated
    rather than evaluated by `decide`) -/
example : Spec.powWrapped 65536 (-3) 11 = wrapU 65536 ((-3 : Int) ^ 11) ∧ wrapU 65536 ((-3 : Int) ^ 11) = 19461 :=
  ⟨spec_powWrapped (by decide) _ _, by decide⟩

/-- `Spec.saturatingPow` (the driver's answer for `saturating_pow`) is `Spec.saturating` (Spec/Arith.lean: clamp into
    `[MIN, MAX]`, then pattern) of the exact power `a ^ e` -/
theorem spec_saturating_pow {signed : Bool} {m : Nat} (hm : 0 < m) (he2 : m = 2 * (m / 2)) (a : Int)
    (e : Nat) (hu : signed = false → 0 ≤ a) :
    Spec.saturatingPow signed m a e = Spec.saturating signed m (a ^ e) :=
  Pow.spec_saturatingPow_eq hm he2 a e hu
/-- all hypotheses are jointly satisfiable, on a MIN-side, a MAX-side and a representable instance -/
example : Spec.saturatingPow true 65536 (-3) 11 = Spec.saturating true 65536 ((-3 : Int) ^ 11) ∧
    Spec.saturating true 65536 ((-3 : Int) ^ 11) = 32768 ∧ Spec.saturating true 65536 ((-3 : Int) ^ 10) = 32767 ∧
    Spec.saturatingPow false 65536 3 11 = Spec.saturating false 65536 ((3 : Int) ^ 11) ∧
    Spec.saturating false 65536 ((3 : Int) ^ 11) = 65535 ∧ Spec.saturating true 65536 ((-3 : Int) ^ 9) = 45853 :=
  ⟨spec_saturating_pow (by decide) (by decide) _ _ (by decide), by decide, by decide,
    spec_saturating_pow (by decide) (by decide) _ _ (by decide), by decide, by decide⟩

end Bnum.C08
