/-
  C09 — "Casting with As/CastFrom between any two types drawn from the bnum integers (any digit
  type, width and signedness, including casts between different digit types) and the primitive
  integers, and from bool and char into bnum integers, yields the source value reduced modulo
  2^(target BITS): zero-extended from unsigned sources, sign-extended from signed sources,
  truncated to the low bits when the target is narrower, and it never panics. cast_signed,
  cast_unsigned, to_bits and from_bits reinterpret the same bit pattern."

  Shape of every theorem: `CastOk w n (cast …) v`  :=
      `∃ r, cast … = .ok r ∧ WF w n r ∧ U w r = wrapU (M w n) v`
  i.e. no panic, a well-formed `n`-digit result, whose bit pattern is the source VALUE `v`
  (`U` for unsigned, `S` for signed sources; `PInt.val` for primitives) modulo `2^(w·n)`.
  All statements hold for every digit width `w ≥ 1` and digit count `n ≥ 1`; the cross-digit ones
  for every pair of digit widths one of which divides the other (real widths are 8, 16, 32, 64).
  Modelling abstraction (see Model/Cast.lean): `i << BIT_SHIFT` is `i * w`.
-/
import Bnum.Lemmas.Cast
import Bnum.Lemmas.C09Extra
namespace Bnum.C09
open Bnum

/-! ### bnum → bnum, one theorem per code path -/

/-- `CastFrom<BUint<M>> for BUint<N>`, same digit type (`cast_up(0)` / `cast_down`) -/
theorem cast_uu_same {w n₁ : Nat} {x : List Nat} (n : Nat) (hx : WF w n₁ x) :
    CastOk w n (UI.castFromU x n) (U w x) := UI.castFromU_spec n hx
example : WF 8 3 [0x34, 0x12, 0xff] ∧ UI.castFromU [0x34, 0x12, 0xff] 2 = .ok [0x34, 0x12] := by decide

/-- `CastFrom<BInt<M>> for BUint<N>`, same digit type (`cast_up(MAX or 0)` / `cast_down`) -/
theorem cast_iu_same {w n₁ : Nat} {x : List Nat} (n : Nat) (hw : 1 ≤ w) (hn₁ : 1 ≤ n₁)
    (hx : WF w n₁ x) : CastOk w n (UI.castFromI w x n) (S w x) := UI.castFromI_spec n hw hn₁ hx
example : WF 8 2 [0x34, 0x80] ∧ UI.castFromI 8 [0x34, 0x80] 3 = .ok [0x34, 0x80, 0xff] := by decide

/-- `CastFrom<BUint<M>> for BInt<N>` and `CastFrom<BInt<M>> for BInt<N>`, same digit type -/
theorem cast_ui_same {w n₁ : Nat} {x : List Nat} (n : Nat) (hx : WF w n₁ x) :
    CastOk w n (II.castFromU x n) (U w x) := (UI.castFromU_spec n hx).map_id
theorem cast_ii_same {w n₁ : Nat} {x : List Nat} (n : Nat) (hw : 1 ≤ w) (hn₁ : 1 ≤ n₁)
    (hx : WF w n₁ x) : CastOk w n (II.castFromI w x n) (S w x) :=
  (UI.castFromI_spec n hw hn₁ hx).map_id

/-- `buint_as_different_digit_bigint!`, target digit narrower (`w₁ = c·w₂`): split loop -/
theorem cast_uu_split {c w₂ m : Nat} {src : List Nat} (n : Nat) (hc : 2 ≤ c) (hw₂ : 1 ≤ w₂)
    (hs : WF (c * w₂) m src) :
    CastOk w₂ n (UI.castFromUD (c * w₂) src w₂ n) (U (c * w₂) src) :=
  UI.castFromUD_split_spec n hc hw₂ hs
example : WF 16 2 [0x1234, 0xabcd] ∧
    UI.castFromUD 16 [0x1234, 0xabcd] 8 3 = .ok [0x34, 0x12, 0xcd] := by decide

/-- `buint_as_different_digit_bigint!`, target digit wider (`w₂ = c·w₁`): pack loop with flush -/
theorem cast_uu_pack {c w₁ m : Nat} {src : List Nat} {n : Nat} (hc : 1 ≤ c) (hw₁ : 1 ≤ w₁)
    (hm : 1 ≤ m) (hn : 1 ≤ n) (hs : WF w₁ m src) :
    CastOk (c * w₁) n (UI.castFromUD w₁ src (c * w₁) n) (U w₁ src) :=
  UI.castFromUD_pack_spec hc hw₁ hm hn hs
example : WF 8 3 [0x34, 0x12, 0xcd] ∧
    UI.castFromUD 8 [0x34, 0x12, 0xcd] 16 2 = .ok [0x1234, 0xcd] := by decide

/-- `bint_as_different_digit_bigint!`, target digit narrower (incl. the MAX-initialised branch) -/
theorem cast_iu_split {c w₂ m : Nat} {src : List Nat} (n : Nat) (hc : 2 ≤ c) (hw₂ : 1 ≤ w₂)
    (hm : 1 ≤ m) (hs : WF (c * w₂) m src) :
    CastOk w₂ n (UI.castFromID (c * w₂) src w₂ n) (S (c * w₂) src) :=
  UI.castFromID_split_spec n hc hw₂ hm hs
example : WF 16 1 [0x8001] ∧ UI.castFromID 16 [0x8001] 8 3 = .ok [0x01, 0x80, 0xff] := by decide

/-- `bint_as_different_digit_bigint!`, target digit wider (incl. the and-not packing branch) -/
theorem cast_iu_pack {c w₁ m : Nat} {src : List Nat} {n : Nat} (hc : 1 ≤ c) (hw₁ : 1 ≤ w₁)
    (hm : 1 ≤ m) (hn : 1 ≤ n) (hs : WF w₁ m src) :
    CastOk (c * w₁) n (UI.castFromID w₁ src (c * w₁) n) (S w₁ src) :=
  UI.castFromID_pack_spec hc hw₁ hm hn hs
example : WF 8 3 [0x01, 0x00, 0x80] ∧
    UI.castFromID 8 [0x01, 0x00, 0x80] 16 3 = .ok [0x0001, 0xff80, 0xffff] := by decide

/-- ALL bnum → bnum casts (the impl chosen by trait resolution, any signedness on both sides):
    the result pattern is the source value modulo `2^(w₂·n₂)`; never panics. -/
theorem cast_bnum {w₁ n₁ w₂ : Nat} {x : List Nat} (s₁ s₂ : Bool) {n₂ : Nat} (hw₁ : 1 ≤ w₁)
    (hw₂ : 1 ≤ w₂) (hn₁ : 1 ≤ n₁) (hn₂ : 1 ≤ n₂) (hdvd : w₁ ∣ w₂ ∨ w₂ ∣ w₁) (hx : WF w₁ n₁ x) :
    CastOk w₂ n₂ (castBnum w₁ s₁ x w₂ n₂ s₂) (valOf s₁ w₁ x) :=
  castBnum_spec s₁ s₂ hw₁ hw₂ hn₁ hn₂ hdvd hx
example : (1 ≤ 32 ∧ 1 ≤ 8 ∧ ((32 : Nat) ∣ 8 ∨ (8 : Nat) ∣ 32)) ∧ WF 32 1 [0xfffffffe] ∧
    castBnum 32 true [0xfffffffe] 8 5 true = .ok [0xfe, 0xff, 0xff, 0xff, 0xff] := by decide

theorem cast_bnum_ne_panic {w₁ n₁ w₂ : Nat} {x : List Nat} (s₁ s₂ : Bool) {n₂ : Nat}
    (hw₁ : 1 ≤ w₁) (hw₂ : 1 ≤ w₂) (hn₁ : 1 ≤ n₁) (hn₂ : 1 ≤ n₂) (hdvd : w₁ ∣ w₂ ∨ w₂ ∣ w₁)
    (hx : WF w₁ n₁ x) : castBnum w₁ s₁ x w₂ n₂ s₂ ≠ .panic :=
  (cast_bnum s₁ s₂ hw₁ hw₂ hn₁ hn₂ hdvd hx).ne_panic

/-- zero- or sign-extension and "same value when it fits": whenever the source value is representable
    in the target type, the result denotes exactly that value -/
theorem cast_bnum_value {w₁ n₁ w₂ : Nat} {x : List Nat} (s₁ s₂ : Bool) {n₂ : Nat} (hw₁ : 1 ≤ w₁)
    (hw₂ : 1 ≤ w₂) (hn₁ : 1 ≤ n₁) (hn₂ : 1 ≤ n₂) (hdvd : w₁ ∣ w₂ ∨ w₂ ∣ w₁) (hx : WF w₁ n₁ x)
    (hrep : if s₂ then repS (M w₂ n₂) (valOf s₁ w₁ x) else repU (M w₂ n₂) (valOf s₁ w₁ x)) :
    ∃ r, castBnum w₁ s₁ x w₂ n₂ s₂ = .ok r ∧ WF w₂ n₂ r ∧ valOf s₂ w₂ r = valOf s₁ w₁ x :=
  (cast_bnum s₁ s₂ hw₁ hw₂ hn₁ hn₂ hdvd hx).value s₂ hrep
example : valOf true 8 [0xfe] = -2 ∧ valOf true 16 [0xfffe, 0xffff] = -2 := by decide

/-- the result of a cast into a signed type denotes the source value wrapped into the signed range -/
theorem cast_bnum_signed {w₁ n₁ w₂ : Nat} {x : List Nat} (s₁ : Bool) {n₂ : Nat} (hw₁ : 1 ≤ w₁)
    (hw₂ : 1 ≤ w₂) (hn₁ : 1 ≤ n₁) (hn₂ : 1 ≤ n₂) (hdvd : w₁ ∣ w₂ ∨ w₂ ∣ w₁) (hx : WF w₁ n₁ x) :
    ∃ r, castBnum w₁ s₁ x w₂ n₂ true = .ok r ∧ S w₂ r = wrapS (M w₂ n₂) (valOf s₁ w₁ x) :=
  (cast_bnum s₁ true hw₁ hw₂ hn₁ hn₂ hdvd hx).signed

/-! ### bnum ↔ primitive, bool, char -/

/-- `buint_as_int!` / `bint_as!`: the pattern of the `$int` result is the source value modulo
    `2^($int::BITS)`; never panics (the result is `.ok`).  Any `w`, any target width. -/
theorem cast_to_prim {w n : Nat} {x : List Nat} (s : Bool) (hw : 1 ≤ w) (hn : 1 ≤ n)
    (hx : WF w n x) (t : PTy) :
    castToPrim w s x t = .ok (wrapU (B t.bits) (valOf s w x)) := castToPrim_spec s hw hn hx t
example : WF 8 3 [0x01, 0x80, 0xff] ∧
    castToPrim 8 true [0x01, 0x80, 0xff] ⟨64, true⟩ = .ok 0xffffffffffff8001 := by decide

/-- `as_buint!` / `as_bint!`: primitive (value `PInt.val t p`) → bnum -/
theorem cast_from_prim {w n : Nat} {t : PTy} {p : Nat} (s : Bool) (hn : 1 ≤ n)
    (hk : 1 ≤ t.bits) (hp : p < B t.bits) :
    CastOk w n (castFromPrim w n s t p) (PInt.val t p) := castFromPrim_spec s hn hk hp
example : (0xfe : Nat) < B 8 ∧ PInt.val ⟨8, true⟩ 0xfe = -2 ∧
    castFromPrim 16 2 false ⟨8, true⟩ 0xfe = .ok [0xfffe, 0xffff] := by decide

/-- `CastFrom<bool>`: `true ↦ 1`, `false ↦ 0` (total function: cannot panic) -/
theorem cast_from_bool {w n : Nat} (hw : 1 ≤ w) (hn : 1 ≤ n) (b : Bool) :
    WF w n (UI.castFromBool n b) ∧ U w (UI.castFromBool n b) = b.toNat
    ∧ II.castFromBool n b = UI.castFromBool n b :=
  ⟨(UI.castFromBool_spec hw hn b).1, (UI.castFromBool_spec hw hn b).2, rfl⟩

/-- `CastFrom<char>`: the code point modulo `2^BITS` -/
theorem cast_from_char {w n c : Nat} (hn : 1 ≤ n) (hc : c < B 32) :
    CastOk w n (UI.castFromChar w n c) (c : Int) ∧ CastOk w n (II.castFromChar w n c) (c : Int) :=
  ⟨UI.castFromChar_spec hn hc, (UI.castFromChar_spec hn hc).map_id⟩
example : (0x10ffff : Nat) < B 32 ∧ UI.castFromChar 8 2 0x10ffff = .ok [0xff, 0xff] := by decide

/-! ### reinterpretations: the same digit array -/
theorem cast_signed_bits (x : List Nat) : UI.castSigned x = x := rfl
theorem cast_unsigned_bits (x : List Nat) : II.castUnsigned x = x := rfl
theorem to_bits_bits (x : List Nat) : II.toBits x = x := rfl
theorem from_bits_bits (x : List Nat) : II.fromBits x = x := rfl
/-- … so the value is re-read in the other signedness: congruent modulo `2^BITS` -/
theorem cast_signed_value {w n : Nat} {x : List Nat} (hx : WF w n x) :
    S w (UI.castSigned x) = wrapS (M w n) (U w x) ∧ U w (II.castUnsigned x) = wrapU (M w n) (S w x) := by
  constructor
  · exact S_eq_wrapS hx (k := 0) (by simp)
  · obtain ⟨k, hk⟩ := S_spec hx
    exact U_eq_wrapU hx (k := k) (by simpa [II.castUnsigned, II.toBits] using hk)

/-! ### `As::as_` — "Casting with As/CastFrom": the blanket `impl<U> As for U` delegates to the
    `CastFrom` impl selected by trait resolution, so every `CastFrom` theorem above holds for `as_` -/
theorem as_eq_cast_from {σ τ : Type} (castFrom : σ → τ) (x : σ) : as_ castFrom x = castFrom x := rfl

/-- `x.as_::<D>()` between bnum types: source value modulo `2^BITS` of `D`, never panics -/
theorem as_bnum {w₁ n₁ w₂ : Nat} {x : List Nat} (s₁ s₂ : Bool) {n₂ : Nat} (hw₁ : 1 ≤ w₁)
    (hw₂ : 1 ≤ w₂) (hn₁ : 1 ≤ n₁) (hn₂ : 1 ≤ n₂) (hdvd : w₁ ∣ w₂ ∨ w₂ ∣ w₁) (hx : WF w₁ n₁ x) :
    CastOk w₂ n₂ (as_ (fun x => castBnum w₁ s₁ x w₂ n₂ s₂) x) (valOf s₁ w₁ x) :=
  cast_bnum s₁ s₂ hw₁ hw₂ hn₁ hn₂ hdvd hx
example : WF 32 1 [0xfffffffe] ∧
    as_ (fun x => castBnum 32 true x 8 5 true) [0xfffffffe] = .ok [0xfe, 0xff, 0xff, 0xff, 0xff] := by decide

/-- `x.as_::<$int>()`, bnum → primitive -/
theorem as_to_prim {w n : Nat} {x : List Nat} (s : Bool) (hw : 1 ≤ w) (hn : 1 ≤ n)
    (hx : WF w n x) (t : PTy) :
    as_ (fun x => castToPrim w s x t) x = .ok (wrapU (B t.bits) (valOf s w x)) :=
  cast_to_prim s hw hn hx t
example : WF 8 3 [0x01, 0x80, 0xff] ∧
    as_ (fun x => castToPrim 8 true x ⟨16, false⟩) [0x01, 0x80, 0xff] = .ok 0x8001 := by decide

/-- `p.as_::<BUint<N>>()` / `p.as_::<BInt<N>>()`, primitive → bnum -/
theorem as_from_prim {w n : Nat} {t : PTy} {p : Nat} (s : Bool) (hn : 1 ≤ n)
    (hk : 1 ≤ t.bits) (hp : p < B t.bits) :
    CastOk w n (as_ (castFromPrim w n s t) p) (PInt.val t p) := cast_from_prim s hn hk hp
example : (0x80 : Nat) < B 8 ∧ as_ (castFromPrim 8 3 true ⟨8, true⟩) 0x80 = .ok [0x80, 0xff, 0xff] := by decide

/-! ### primitive → primitive (`primitive_cast_impl!`: `from as Self`) -/

/-- the pattern of the result is the source value modulo `2^(target BITS)` (and is a pattern of the
    target type); a total function, so it cannot panic -/
theorem cast_prim {t₁ t₂ : PTy} {p : Nat} (hp : p < B t₁.bits) :
    castPrim t₁ t₂ p < B t₂.bits ∧ castPrim t₁ t₂ p = wrapU (B t₂.bits) (PInt.val t₁ p) :=
  ⟨C09X.pcast_lt t₁.signed hp, C09X.pcast_spec t₁.signed hp⟩
example : (0x80 : Nat) < B 8 ∧ PInt.val ⟨8, true⟩ 0x80 = -128 ∧
    castPrim ⟨8, true⟩ ⟨16, false⟩ 0x80 = 0xff80 ∧ castPrim ⟨16, false⟩ ⟨8, true⟩ 0x1234 = 0x34 := by decide

/-! ### "zero-extended … sign-extended … truncated": value preservation for primitive targets and sources -/

/-- bnum → primitive: whenever the source value is representable in `$int`, the result denotes
    exactly that value (and is a pattern of `$int`) -/
theorem cast_to_prim_value {w n : Nat} {x : List Nat} (s : Bool) (hw : 1 ≤ w) (hn : 1 ≤ n)
    (hx : WF w n x) (t : PTy) (hrep : repOf t.signed (B t.bits) (valOf s w x)) :
    ∃ r, castToPrim w s x t = .ok r ∧ r < B t.bits ∧ PInt.val t r = valOf s w x :=
  ⟨_, cast_to_prim s hw hn hx t, wrapU_lt (B_pos _) _, C09X.pval_wrapU hrep⟩
example : repOf true (B 8) (valOf true 8 [0x80, 0xff, 0xff]) ∧
    castToPrim 8 true [0x80, 0xff, 0xff] ⟨8, true⟩ = .ok 0x80 ∧ PInt.val ⟨8, true⟩ 0x80 = -128 := by decide

/-- bnum → signed primitive: the result denotes the source value wrapped into the signed range -/
theorem cast_to_prim_signed {w n : Nat} {x : List Nat} (s : Bool) (hw : 1 ≤ w) (hn : 1 ≤ n)
    (hx : WF w n x) (k : Nat) :
    ∃ r, castToPrim w s x ⟨k, true⟩ = .ok r ∧ PInt.val ⟨k, true⟩ r = wrapS (B k) (valOf s w x) :=
  ⟨_, cast_to_prim s hw hn hx ⟨k, true⟩, rfl⟩
example : castToPrim 8 false [0x80, 0x01] ⟨8, true⟩ = .ok 0x80 ∧ wrapS (B 8) (valOf false 8 [0x80, 0x01]) = -128 := by
  decide

/-- primitive → bnum: whenever the primitive's value is representable in the target type, the result
    denotes exactly that value (zero-extension of unsigned, sign-extension of signed sources) -/
theorem cast_from_prim_value {w n : Nat} {t : PTy} {p : Nat} (s : Bool) (hn : 1 ≤ n)
    (hk : 1 ≤ t.bits) (hp : p < B t.bits)
    (hrep : if s then repS (M w n) (PInt.val t p) else repU (M w n) (PInt.val t p)) :
    ∃ r, castFromPrim w n s t p = .ok r ∧ WF w n r ∧ valOf s w r = PInt.val t p :=
  (cast_from_prim s hn hk hp).value s hrep
example : (if true then repS (M 16 2) (PInt.val ⟨8, true⟩ 0xfe) else repU (M 16 2) (PInt.val ⟨8, true⟩ 0xfe)) ∧
    castFromPrim 16 2 true ⟨8, true⟩ 0xfe = .ok [0xfffe, 0xffff] ∧ valOf true 16 [0xfffe, 0xffff] = -2 := by decide

/-- primitive → signed bnum: the source value wrapped into the signed range -/
theorem cast_from_prim_signed {w n : Nat} {t : PTy} {p : Nat} (hn : 1 ≤ n)
    (hk : 1 ≤ t.bits) (hp : p < B t.bits) :
    ∃ r, castFromPrim w n true t p = .ok r ∧ S w r = wrapS (M w n) (PInt.val t p) :=
  (cast_from_prim true hn hk hp).signed
example : castFromPrim 8 1 true ⟨16, false⟩ 0x1280 = .ok [0x80] ∧ wrapS (M 8 1) (PInt.val ⟨16, false⟩ 0x1280) = -128 := by
  decide

/-! ### reinterpretations observed through `is_negative` and through the same-width `As` cast -/

/-- the sign of `from_bits(x)` / `x.cast_signed()` is bit `BITS - 1` of the pattern -/
theorem cast_signed_is_negative {w n : Nat} {x : List Nat} (hw : 1 ≤ w) (hn : 1 ≤ n) (hx : WF w n x) :
    isNegative w (UI.castSigned x) = decide (M w n ≤ 2 * U w x) ∧
    isNegative w (II.fromBits x) = decide (M w n ≤ 2 * U w x) :=
  ⟨C09X.isNegative_pattern hw hn hx, C09X.isNegative_pattern hw hn hx⟩
example : WF 8 2 [0x34, 0x80] ∧ isNegative 8 (UI.castSigned [0x34, 0x80]) = true ∧ M 8 2 ≤ 2 * U 8 [0x34, 0x80] := by
  decide

/-- the four reinterpretations agree with the `As` cast between `BUint<N>` and `BInt<N>` of the same
    digit type and digit count -/
theorem reinterp_eq_as {w n : Nat} {x : List Nat} (hw : 1 ≤ w) (hn : 1 ≤ n) (hx : WF w n x) :
    castBnum w false x w n true = .ok (UI.castSigned x) ∧ castBnum w false x w n true = .ok (II.fromBits x) ∧
    castBnum w true x w n false = .ok (II.castUnsigned x) ∧ castBnum w true x w n false = .ok (II.toBits x) := by
  obtain ⟨r, h1, hr, hu⟩ := cast_bnum false true hw hw hn hn (Or.inl (Nat.dvd_refl w)) hx
  obtain ⟨r', h2, hr', hu'⟩ := cast_bnum true false hw hw hn hn (Or.inl (Nat.dvd_refl w)) hx
  have e1 : r = x := U_injective hr hx (by
    rw [hu]; unfold valOf; simp only [Bool.false_eq_true, if_false]
    rw [wrapU_natCast, Nat.mod_eq_of_lt (U_lt hx)])
  have e2 : r' = x := U_injective hr' hx (by
    rw [hu']; unfold valOf; simp only [if_true]
    obtain ⟨k, hk⟩ := S_spec hx
    exact (U_eq_wrapU hx hk).symm)
  subst e1; subst e2
  exact ⟨h1, h1, h2, h2⟩
example : WF 8 2 [0x34, 0x80] ∧ castBnum 8 true [0x34, 0x80] 8 2 false = .ok (II.toBits [0x34, 0x80]) := by decide

end Bnum.C09
